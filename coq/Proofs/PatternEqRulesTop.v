(* Proofs/PatternEqRulesTop.v -- the rule instances of Spec/PatternRules.v are
   recognised by `equiv` on parsed patterns: lifts of PatternEqRules.v
   (comparison level) and PatternEqRulesO.v (observation level) through the
   special-value pass, the removal of parentheses and the observation
   context.                                                               *)
From Coq Require Import NArith ZArith List Bool Permutation Lia Arith String.
From V Require Import Base.UString Model.PatternEq Spec.PatternSemantics Spec.PatternRules
     Proofs.PatternEqCmp Proofs.PatternEqLists Proofs.PatternEqSort Proofs.PatternEqDnf Proofs.PatternEqNorm
     Proofs.PatternEqTerm Proofs.PatternEqCong Proofs.PatternEqRules Proofs.PatternEqCongO Proofs.PatternEqRulesO
     Proofs.PatternEqValid Proofs.PatternEqTermDnf.
Import ListNotations.
Local Open Scope nat_scope.
Local Open Scope list_scope.

(* ------------------------------------------------------------------ *)
(* mapM                                                                *)

Section MapM.
  Context {A B : Type} (f : A -> res B).

  Lemma mapM_cons_ok : forall x l r, mapM f (x :: l) = Ok r -> exists y r', f x = Ok y /\ mapM f l = Ok r' /\ r = y :: r'.
  Proof.
    intros x l r E. simpl in E. destruct (f x) as [y|e]; [|discriminate]. destruct (mapM f l) as [r'|e]; [|discriminate].
    inversion E. exists y, r'. auto.
  Qed.

  Lemma mapM_cons_intro : forall x l y r', f x = Ok y -> mapM f l = Ok r' -> mapM f (x :: l) = Ok (y :: r').
  Proof. intros x l y r' E1 E2. simpl. rewrite E1, E2. reflexivity. Qed.

  Lemma mapM_length : forall l r, mapM f l = Ok r -> List.length r = List.length l.
  Proof.
    induction l as [|x l IH]; intros r E; [inversion E; reflexivity|].
    destruct (mapM_cons_ok x l r E) as [y [r' [_ [E2 ->]]]]. simpl. rewrite (IH r' E2). reflexivity.
  Qed.

  Lemma mapM_In_r : forall l r, mapM f l = Ok r -> forall y, In y r -> exists x, In x l /\ f x = Ok y.
  Proof.
    induction l as [|x l IH]; intros r E y Hy; [inversion E; subst; contradiction|].
    destruct (mapM_cons_ok x l r E) as [y0 [r' [E1 [E2 ->]]]]. destruct Hy as [->|Hy].
    - exists x. split; [left; reflexivity | exact E1].
    - destruct (IH r' E2 y Hy) as [x' [Hx' Ex']]. exists x'. split; [right; exact Hx' | exact Ex'].
  Qed.

  Lemma mapM_In_l : forall l r, mapM f l = Ok r -> forall x, In x l -> exists y, In y r /\ f x = Ok y.
  Proof.
    induction l as [|x0 l IH]; intros r E x Hx; [contradiction|].
    destruct (mapM_cons_ok x0 l r E) as [y0 [r' [E1 [E2 ->]]]]. destruct Hx as [->|Hx].
    - exists y0. split; [left; reflexivity | exact E1].
    - destruct (IH r' E2 x Hx) as [y [Hy Ey]]. exists y. split; [right; exact Hy | exact Ey].
  Qed.

  Lemma mapM_incl : forall l l' r r', incl l l' -> mapM f l = Ok r -> mapM f l' = Ok r' -> incl r r'.
  Proof.
    intros l l' r r' Hi E E' y Hy. destruct (mapM_In_r l r E y Hy) as [x [Hx Ex]].
    destruct (mapM_In_l l' r' E' x (Hi x Hx)) as [y' [Hy' Ey']]. rewrite Ex in Ey'. inversion Ey'. subst y'. exact Hy'.
  Qed.

  Lemma mapM_app_ok : forall l1 l2 r, mapM f (l1 ++ l2) = Ok r ->
                                      exists r1 r2, mapM f l1 = Ok r1 /\ mapM f l2 = Ok r2 /\ r = r1 ++ r2.
  Proof.
    induction l1 as [|x l1 IH]; intros l2 r E.
    - exists [], r. auto.
    - rewrite <- app_comm_cons in E. destruct (mapM_cons_ok x (l1 ++ l2) r E) as [y [r' [E1 [E2 ->]]]].
      destruct (IH l2 r' E2) as [r1 [r2 [F1 [F2 ->]]]]. exists (y :: r1), r2. split; [apply mapM_cons_intro; assumption | auto].
  Qed.

  Lemma mapM_app_intro : forall l1 l2 r1 r2, mapM f l1 = Ok r1 -> mapM f l2 = Ok r2 -> mapM f (l1 ++ l2) = Ok (r1 ++ r2).
  Proof.
    induction l1 as [|x l1 IH]; intros l2 r1 r2 E1 E2.
    - inversion E1. exact E2.
    - destruct (mapM_cons_ok x l1 r1 E1) as [y [r' [F1 [F2 ->]]]]. rewrite <- !app_comm_cons.
      apply mapM_cons_intro; [exact F1 | apply IH; assumption].
  Qed.

  Lemma mapM_perm : forall l l', Permutation l l' -> forall r, mapM f l = Ok r -> exists r', mapM f l' = Ok r' /\ Permutation r r'.
  Proof.
    induction 1 as [|x l l' HP IH|x y l|l l' l'' HP1 IH1 HP2 IH2]; intros r E.
    - exists r. split; [exact E | apply Permutation_refl].
    - destruct (mapM_cons_ok x l r E) as [y [r0 [E1 [E2 ->]]]]. destruct (IH r0 E2) as [r' [F1 F2]].
      exists (y :: r'). split; [apply mapM_cons_intro; assumption | apply perm_skip; exact F2].
    - destruct (mapM_cons_ok y (x :: l) r E) as [b [r0 [E1 [E2 ->]]]]. destruct (mapM_cons_ok x l r0 E2) as [a [r1 [E3 [E4 ->]]]].
      exists (a :: b :: r1). split; [apply mapM_cons_intro; [exact E3 | apply mapM_cons_intro; assumption] | apply perm_swap].
    - destruct (IH1 r E) as [r' [F1 F2]]. destruct (IH2 r' F1) as [r'' [G1 G2]]. exists r''. split; [exact G1 | eapply perm_trans; eassumption].
  Qed.

  Lemma mapM_map_ext : forall {C} (g : C -> A) (h : C -> res B) l,
      Forall (fun x => h x = f (g x)) l -> mapM h l = mapM f (map g l).
  Proof.
    intros C g h l HF. induction HF as [|x l Hx _ IH]; [reflexivity|]. simpl. rewrite Hx, IH. reflexivity.
  Qed.
End MapM.

Lemma mapM_post : forall {A B C} (f : A -> res B) (g : B -> C) l,
    mapM (fun x => r <- f x ;; Ok (g r)) l = (rs <- mapM f l ;; Ok (map g rs)).
Proof.
  intros A B C f g l. induction l as [|x l IH]; [reflexivity|]. simpl. rewrite IH.
  destruct (f x) as [y|e]; [|reflexivity]. simpl. destruct (mapM f l) as [rs|e]; reflexivity.
Qed.

(* ------------------------------------------------------------------ *)
(* parentheses mean nothing to the normaliser                          *)

Fixpoint cspecial1 (m : variant) (e : cexpr) : res cexpr :=
  match e with
  | Atom a => a' <- special_atom m a ;; Ok (Atom a')
  | CAnd l => l' <- mapM (cspecial1 m) l ;; Ok (CAnd l')
  | COr l => l' <- mapM (cspecial1 m) l ;; Ok (COr l')
  end.

Lemma cspecial_unparen : forall m e, cspecial m e = cspecial1 m (unparen_c e).
Proof.
  intro m. induction e using cexpr0_ind'; simpl.
  - reflexivity.
  - rewrite (mapM_map_ext (cspecial1 m) unparen_c (cspecial m) l H). reflexivity.
  - rewrite (mapM_map_ext (cspecial1 m) unparen_c (cspecial m) l H). reflexivity.
  - exact IHe.
Qed.

Fixpoint onormcmp1 (m : variant) (fuel : nat) (e : oexpr) : res oexpr :=
  match e with
  | Obs c => r <- (e' <- cspecial1 m c ;; ccore fuel e') ;; Ok (Obs (fst r))
  | OAnd l => rs <- mapM (onormcmp1 m fuel) l ;; Ok (OAnd rs)
  | OOr l => rs <- mapM (onormcmp1 m fuel) l ;; Ok (OOr rs)
  | OFby l => rs <- mapM (onormcmp1 m fuel) l ;; Ok (OFby rs)
  | OQual e' q => r <- onormcmp1 m fuel e' ;; Ok (OQual r q)
  end.

Definition onc (m : variant) (fuel : nat) (p : oexpr0) : res oexpr := r <- onormcmp m fuel p ;; Ok (fst r).

Lemma onc_node : forall m fuel (K : list oexpr -> oexpr) l,
    Forall (fun p => onc m fuel p = onormcmp1 m fuel (unparen_o p)) l ->
    (r <- (rs <- mapM (onormcmp m fuel) l ;; Ok (K (map fst rs), existsb snd rs)) ;; Ok (fst r)) =
    (rs <- mapM (onormcmp1 m fuel) (map unparen_o l) ;; Ok (K rs)).
Proof.
  intros m fuel K l HF.
  rewrite <- (mapM_map_ext (onormcmp1 m fuel) unparen_o (onc m fuel) l HF). unfold onc. rewrite mapM_post.
  destruct (mapM (onormcmp m fuel) l) as [rs|e]; reflexivity.
Qed.

Lemma onormcmp_unparen : forall m fuel p, onc m fuel p = onormcmp1 m fuel (unparen_o p).
Proof.
  intros m fuel. induction p using oexpr0_ind'.
  - unfold onc. simpl. rewrite cnormalize_ccore, cspecial_unparen.
    destruct (e <- cspecial1 m (unparen_c c) ;; ccore fuel e) as [[c' ch]|e]; reflexivity.
  - exact (onc_node m fuel OAnd l H).
  - exact (onc_node m fuel OOr l H).
  - exact (onc_node m fuel OFby l H).
  - unfold onc in *. simpl. rewrite <- IHp. destruct (onormcmp m fuel p) as [[r ch]|e]; reflexivity.
  - unfold onc in *. simpl. rewrite <- IHp. destruct (onormcmp m fuel p) as [[r ch]|e]; reflexivity.
Qed.

Lemma onormalize_onc : forall v fuel p, onormalize v fuel p = (r <- onc v fuel p ;; ocore fuel r).
Proof. intros v fuel p. rewrite onormalize_ocore. unfold onc. destruct (onormcmp v fuel p) as [[r ch]|e]; reflexivity. Qed.

Lemma onc_ok : forall v fuel p r ch, onormcmp v fuel p = Ok (r, ch) -> onc v fuel p = Ok r.
Proof. intros v fuel p r ch E. unfold onc. rewrite E. reflexivity. Qed.

(* ------------------------------------------------------------------ *)
(* comparison level                                                    *)

Lemma cspecial_mk0 : forall v o l, cspecial v (mk0 o l) = (l' <- mapM (cspecial v) l ;; Ok (mkb o l')).
Proof. intros v o l. destruct o; reflexivity. Qed.

Lemma cnorm_mk0 : forall v fuel o l r, cnormalize v fuel (mk0 o l) = Ok r ->
                                       exists ls, mapM (cspecial v) l = Ok ls /\ ccore fuel (mkb o ls) = Ok r.
Proof.
  intros v fuel o l r E. rewrite cnormalize_ccore, cspecial_mk0 in E. apply bind_ok in E. destruct E as [e [E1 E2]].
  apply bind_ok in E1. destruct E1 as [ls [E1 E3]]. inversion E3; subst e. exists ls. auto.
Qed.

Theorem crule_sound : forall v fuel c c', crule c c' ->
    forall n n' ch ch', cnormalize v fuel c = Ok (n, ch) -> cnormalize v fuel c' = Ok (n', ch') -> ceqc n n'.
Proof.
  intros v fuel c c' HR. destruct HR as [o l l' [I1 I2] N1 N2 | o l1 l2 l3 Hne | o l1 l2 l3 Hne | o a | c c' Hu]; intros n n' ch ch' E E'.
  - destruct (cnorm_mk0 _ _ _ _ _ E) as [ls [M C]]. destruct (cnorm_mk0 _ _ _ _ _ E') as [ls' [M' C']].
    apply (ccore_seteq fuel o ls ls' n n' ch ch'); try assumption.
    + apply (mapM_incl (cspecial v) l l'); assumption.
    + apply (mapM_incl (cspecial v) l' l); assumption.
    + rewrite (mapM_length _ _ _ M). exact N1.
    + rewrite (mapM_length _ _ _ M'). exact N2.
  - destruct (cnorm_mk0 _ _ _ _ _ E) as [ls [M C]]. destruct (cnorm_mk0 _ _ _ _ _ E') as [ls' [M' C']].
    destruct (mapM_app_ok _ _ _ _ M) as [r1 [rr [M1 [Mr ->]]]]. destruct (mapM_cons_ok _ _ _ _ Mr) as [x [r3 [Mx [M3 ->]]]].
    rewrite cspecial_mk0 in Mx. apply bind_ok in Mx. destruct Mx as [r2 [M2 Ex]]. inversion Ex; subst x.
    rewrite (mapM_app_intro _ _ _ _ _ M1 (mapM_app_intro _ _ _ _ _ M2 M3)) in M'. inversion M'; subst ls'.
    apply (ccore_assoc fuel o r1 r2 r3 n n' ch ch'); try assumption.
    intro Hr. apply Hne. apply length_zero_iff_nil. rewrite <- (mapM_length _ _ _ M2), Hr. reflexivity.
  - destruct (cnorm_mk0 _ _ _ _ _ E) as [ls [M C]]. destruct (cnorm_mk0 _ _ _ _ _ E') as [ls' [M' C']].
    destruct (mapM_app_ok _ _ _ _ M) as [r1 [rr [M1 [Mr ->]]]]. destruct (mapM_cons_ok _ _ _ _ Mr) as [x [r3 [Mx [M3 ->]]]].
    change (cspecial v (Paren0 (mk0 o l2))) with (cspecial v (mk0 o l2)) in Mx.
    rewrite cspecial_mk0 in Mx. apply bind_ok in Mx. destruct Mx as [r2 [M2 Ex]]. inversion Ex; subst x.
    rewrite (mapM_app_intro _ _ _ _ _ M1 (mapM_app_intro _ _ _ _ _ M2 M3)) in M'. inversion M'; subst ls'.
    apply (ccore_assoc fuel o r1 r2 r3 n n' ch ch'); try assumption.
    intro Hr. apply Hne. apply length_zero_iff_nil. rewrite <- (mapM_length _ _ _ M2), Hr. reflexivity.
  - destruct (cnorm_mk0 _ _ _ _ _ E) as [ls [M C]].
    destruct (mapM_cons_ok _ _ _ _ M) as [x [r1 [Mx [M1 ->]]]]. destruct (mapM_cons_ok _ _ _ _ M1) as [x' [r2 [Mx' [M2 ->]]]].
    inversion M2; subst r2. rewrite Mx in Mx'. inversion Mx'; subst x'.
    rewrite cnormalize_ccore, Mx in E'. simpl in E'.
    apply (ccore_idem fuel o x n n' ch ch'); assumption.
  - rewrite cnormalize_ccore, cspecial_unparen in E, E'. rewrite Hu in E. rewrite E in E'. inversion E'; subst. apply ceqc_refl.
Qed.

(* ------------------------------------------------------------------ *)
(* observation level                                                   *)

Lemma onormcmp_mko0 : forall v fuel o l,
    onormcmp v fuel (mko0 o l) = (rs <- mapM (onormcmp v fuel) l ;; Ok (mko o (map fst rs), existsb snd rs)).
Proof. intros v fuel o l. destruct o; reflexivity. Qed.

Lemma onormcmp_mko0_ok : forall v fuel o l r ch, onormcmp v fuel (mko0 o l) = Ok (r, ch) ->
                                                exists rs, mapM (onormcmp v fuel) l = Ok rs /\ r = mko o (map fst rs).
Proof.
  intros v fuel o l r ch E. rewrite onormcmp_mko0 in E. apply bind_ok in E. destruct E as [rs [M E]]. inversion E. exists rs. auto.
Qed.

(* the hole of a context may be filled with anything whose normalised comparison expressions are comparator-equal *)
Lemma onormcmp_fill : forall v fuel p p',
    (forall r r' ch ch', onormcmp v fuel p = Ok (r, ch) -> onormcmp v fuel p' = Ok (r', ch') -> ceqo r r') ->
    forall C r r' ch ch', onormcmp v fuel (fill C p) = Ok (r, ch) -> onormcmp v fuel (fill C p') = Ok (r', ch') -> ceqo r r'.
Proof.
  intros v fuel p p' Hp. induction C as [|o l1 C IH l2|C IH q|C IH]; intros r r' ch ch' E E'.
  - exact (Hp r r' ch ch' E E').
  - cbn [fill] in E, E'. destruct (onormcmp_mko0_ok _ _ _ _ _ _ E) as [rs [M ->]]. destruct (onormcmp_mko0_ok _ _ _ _ _ _ E') as [rs' [M' ->]].
    destruct (mapM_app_ok _ _ _ _ M) as [a1 [ar [M1 [Mr ->]]]]. destruct (mapM_cons_ok _ _ _ _ Mr) as [[x cx] [a2 [Mx [M2 ->]]]].
    destruct (mapM_app_ok _ _ _ _ M') as [b1 [br [N1 [Nr ->]]]]. destruct (mapM_cons_ok _ _ _ _ Nr) as [[y cy] [b2 [Ny [N2 ->]]]].
    rewrite M1 in N1. inversion N1; subst b1. rewrite M2 in N2. inversion N2; subst b2.
    apply ceqo_mko. rewrite !map_app. cbn [map fst]. apply Forall2_app; [apply (F2ceq_refl ocmp ocmp_lawful)|].
    constructor; [exact (IH x y cx cy Mx Ny) | apply (F2ceq_refl ocmp ocmp_lawful)].
  - cbn [fill onormcmp] in E, E'. apply bind_ok in E. destruct E as [[x cx] [Ex E]]. apply bind_ok in E'. destruct E' as [[y cy] [Ey E']].
    inversion E; inversion E'; subst. apply ceqo_qual; [apply (proj1 qual_cmp_lawful) | exact (IH x y _ _ Ex Ey)].
  - cbn [fill onormcmp] in E, E'. apply bind_ok in E. destruct E as [[x cx] [Ex E]]. apply bind_ok in E'. destruct E' as [[y cy] [Ey E']].
    inversion E; inversion E'; subst. exact (IH _ _ _ _ Ex Ey).
Qed.

Lemma equiv_by_core : forall v fuel p q b,
    (forall r r' ch ch', onormcmp v fuel p = Ok (r, ch) -> onormcmp v fuel q = Ok (r', ch') ->
                         forall n n', ocore fuel r = Ok n -> ocore fuel r' = Ok n' -> ceqo n n') ->
    equiv v fuel p q = Ok b -> b = true.
Proof.
  intros v fuel p q b Hc E. unfold equiv in E. apply bind_ok in E. destruct E as [n [E1 E]]. apply bind_ok in E. destruct E as [n' [E2 E]].
  rewrite onormalize_ocore in E1, E2. apply bind_ok in E1. destruct E1 as [[r ch] [R1 C1]]. apply bind_ok in E2. destruct E2 as [[r' ch'] [R2 C2]].
  cbn [fst] in *. pose proof (Hc r r' ch ch' R1 R2 n n' C1 C2) as Hn. unfold ceq in Hn. inversion E. rewrite Hn. reflexivity.
Qed.

Lemma equiv_by_ceqo : forall v fuel p q b,
    (forall r r' ch ch', onormcmp v fuel p = Ok (r, ch) -> onormcmp v fuel q = Ok (r', ch') -> ceqo r r') ->
    equiv v fuel p q = Ok b -> b = true.
Proof.
  intros v fuel p q b Hc. apply equiv_by_core. intros r r' ch ch' R1 R2 n n' C1 C2.
  pose proof (ocore_cong fuel r r' (Hc r r' ch ch' R1 R2)) as Hr. rewrite C1, C2 in Hr. exact Hr.
Qed.

Lemma map_fst_nonnil : forall {A B} (f : A -> res (B * bool)) l rs, l <> [] -> mapM f l = Ok rs -> map fst rs <> [].
Proof.
  intros A B f l rs Hne M Hr. apply Hne. apply length_zero_iff_nil. rewrite <- (mapM_length _ _ _ M), <- (map_length fst rs), Hr. reflexivity.
Qed.

Theorem orule_recognised : forall v fuel p q b, orule p q -> equiv v fuel p q = Ok b -> b = true.
Proof.
  intros v fuel p q b HR.
  destruct HR as [l l' HP | l l' [I1 I2] N1 N2 | o l1 l2 l3 Hne | o l1 l2 l3 Hne | a | p q Hu | C c c' Hc].
  - apply equiv_by_core. intros r r' ch ch' R1 R2 n n'.
    destruct (onormcmp_mko0_ok v fuel OpAnd l r ch R1) as [rs [M ->]]. destruct (onormcmp_mko0_ok v fuel OpAnd l' r' ch' R2) as [rs' [M' ->]].
    destruct (mapM_perm _ _ _ HP rs M) as [rs2 [M2 P2]]. rewrite M' in M2. inversion M2; subst rs2.
    apply ocore_and_perm. apply Permutation_map. exact P2.
  - apply equiv_by_core. intros r r' ch ch' R1 R2 n n'.
    destruct (onormcmp_mko0_ok v fuel OpOr l r ch R1) as [rs [M ->]]. destruct (onormcmp_mko0_ok v fuel OpOr l' r' ch' R2) as [rs' [M' ->]].
    apply ocore_or_seteq.
    + apply incl_map. apply (mapM_incl (onormcmp v fuel) l l'); assumption.
    + apply incl_map. apply (mapM_incl (onormcmp v fuel) l' l); assumption.
    + rewrite map_length, (mapM_length _ _ _ M). exact N1.
    + rewrite map_length, (mapM_length _ _ _ M'). exact N2.
  - apply equiv_by_core. intros r r' ch ch' R1 R2 n n'.
    destruct (onormcmp_mko0_ok _ _ _ _ _ _ R1) as [rs [M ->]]. destruct (onormcmp_mko0_ok _ _ _ _ _ _ R2) as [rs' [M' ->]].
    destruct (mapM_app_ok _ _ _ _ M) as [a1 [ar [M1 [Mr ->]]]]. destruct (mapM_cons_ok _ _ _ _ Mr) as [[x cx] [a3 [Mx [M3 ->]]]].
    destruct (onormcmp_mko0_ok _ _ _ _ _ _ Mx) as [a2 [M2 ->]].
    rewrite (mapM_app_intro _ _ _ _ _ M1 (mapM_app_intro _ _ _ _ _ M2 M3)) in M'. inversion M'; subst rs'.
    rewrite !map_app. cbn [map fst]. apply ocore_assoc. exact (map_fst_nonnil _ _ _ Hne M2).
  - apply equiv_by_core. intros r r' ch ch' R1 R2 n n'.
    destruct (onormcmp_mko0_ok _ _ _ _ _ _ R1) as [rs [M ->]]. destruct (onormcmp_mko0_ok _ _ _ _ _ _ R2) as [rs' [M' ->]].
    destruct (mapM_app_ok _ _ _ _ M) as [a1 [ar [M1 [Mr ->]]]]. destruct (mapM_cons_ok _ _ _ _ Mr) as [[x cx] [a3 [Mx [M3 ->]]]].
    cbn [onormcmp] in Mx. apply bind_ok in Mx. destruct Mx as [[x0 cx0] [Mx Ex]]. injection Ex as Hx0 Hcx; subst x cx.
    rename x0 into x.
    destruct (onormcmp_mko0_ok _ _ _ _ _ _ Mx) as [a2 [M2 ->]].
    rewrite (mapM_app_intro _ _ _ _ _ M1 (mapM_app_intro _ _ _ _ _ M2 M3)) in M'. inversion M'; subst rs'.
    rewrite !map_app. cbn [map fst]. apply ocore_assoc. exact (map_fst_nonnil _ _ _ Hne M2).
  - apply equiv_by_core. intros r r' ch ch' R1 R2 n n'.
    destruct (onormcmp_mko0_ok v fuel OpOr _ r ch R1) as [rs [M ->]].
    destruct (mapM_cons_ok _ _ _ _ M) as [[x cx] [t1 [Mx [M1 ->]]]]. destruct (mapM_cons_ok _ _ _ _ M1) as [[x' cx'] [t2 [Mx' [M2 ->]]]].
    inversion M2; subst t2. rewrite Mx in Mx'. inversion Mx'; subst x' cx'. rewrite Mx in R2. inversion R2; subst r' ch'.
    cbn [map fst mko]. apply ocore_or_idem.
  - intro E. unfold equiv in E. rewrite !onormalize_onc, !onormcmp_unparen, Hu in E.
    destruct (r <- onormcmp1 v fuel (unparen_o q) ;; ocore fuel r) as [n|e]; [|discriminate].
    simpl in E. inversion E. rewrite (proj1 ocmp_lawful n). reflexivity.
  - apply equiv_by_ceqo. apply onormcmp_fill. intros r r' ch ch' R1 R2.
    cbn [onormcmp] in R1, R2. apply bind_ok in R1. destruct R1 as [[x cx] [X1 X2]]. apply bind_ok in R2. destruct R2 as [[y cy] [Y1 Y2]].
    inversion X2; inversion Y2; subst. apply ceqo_obs. exact (crule_sound v fuel c c' Hc _ _ _ _ X1 Y1).
Qed.

(* with totality: for constructor-valid patterns the answer IS True, given enough fuel *)
Theorem orule_recognised_total : forall p q, orule p q -> valid_o p = true -> valid_o q = true ->
    exists fuel, forall k, equiv repaired (fuel + k) p q = Ok true.
Proof.
  intros p q HR Vp Vq. destruct (equiv_never_raises_valid p q Vp Vq) as [fuel [b Hb]].
  exists fuel. intro k. rewrite (Hb k). rewrite (orule_recognised repaired (fuel + k) p q b HR (Hb k)). reflexivity.
Qed.

(* ------------------------------------------------------------------ *)
(* absorption is NOT recognised through the whole pipeline on the current
   code (known finding C09-absorption-qualified-operand):
   [a:x = 1] REPEATS 2 TIMES   vs   A OR (A AND [c:z = 3])                *)

Definition w_abs_atom (t : string) (k : string) (z : Z) : oexpr0 :=
  Obs0 (Atom0 (mkAtom (u t) [SKey (u k)] OpEq false (KP (PInt z)))).
Definition w_abs_A : oexpr0 := OQual0 (w_abs_atom "a" "x" 1) (QRepeat 2).
Definition w_abs_B : oexpr0 := w_abs_atom "c" "z" 3.

Lemma absorption_qualified_whole_pipeline : equiv repaired 8 w_abs_A (OOr0 [w_abs_A; OAnd0 [w_abs_A; w_abs_B]]) = Ok false.
Proof. vm_compute. reflexivity. Qed.

Lemma absorption_unqualified_whole_pipeline :
  equiv repaired 8 (w_abs_atom "a" "x" 1) (OOr0 [w_abs_atom "a" "x" 1; OAnd0 [w_abs_atom "a" "x" 1; w_abs_B]]) = Ok true.
Proof. vm_compute. reflexivity. Qed.

(* Proofs/JcsParseFacts.v -- reading the canonical text back (Spec/JsonParse.v)
   gives the key-ordered value with numbers as their canonical texts; hence the
   canonical text determines that value (injectivity).                           *)
From Coq Require Import String NArith ZArith List Bool Lia Sorted Permutation.
From V Require Import Base.UString Base.Json Model.JcsText Model.Jcs Spec.Rfc8785 Spec.JcsSpec Spec.JsonParse
  Proofs.JcsNumFacts Proofs.JcsEscFacts Proofs.JcsKeyFacts Proofs.JcsCanonFacts Proofs.JcsWsFacts.
Import ListNotations.
Open Scope N_scope.

(* ---- number texts -------------------------------------------------------------------- *)
Definition numc (c : N) : Prop := numchar_b c = true.

Lemma repr_char_numc : forall c, repr_char c -> numc c.
Proof.
  intros c H. unfold numc, numchar_b. unfold repr_char, isdig, c_dot, c_e, c_plus, c_minus in H.
  destruct H as [[H1 H2]|[H|[H|[H|H]]]]; subst; try reflexivity.
  apply N.leb_le in H1. apply N.leb_le in H2. rewrite H1, H2. reflexivity.
Qed.

Lemma firstn_S_nonnil : forall (A : Type) q (l : list A), l <> [] -> firstn (S q) l <> [].
Proof. intros A q l H. destruct l; [contradiction|]. simpl. discriminate. Qed.

Lemma convert2es6_nonempty : forall r t, convert2es6 r = JOk t -> r <> [] -> t <> [].
Proof.
  intros r t H Hr. unfold convert2es6 in H.
  destruct (is_zero_repr r); [inversion H; subst; discriminate|].
  destruct (find_idx c_n r); [discriminate|].
  destruct (split_sign r) as [pySign pyDouble] eqn:Es.
  assert (Fs : pySign <> [] \/ pyDouble <> []).
  { unfold split_sign in Es. destruct (find_idx c_minus r) as [[|n]|]; inversion Es; subst; auto. left. discriminate. }
  destruct (split_exp pyDouble) as [[[pyExpStr pyDouble'] pyExpVal]|e] eqn:Ee; [|discriminate].
  assert (Fe : pySign <> [] \/ pyDouble' <> []).
  { destruct Fs as [Fs|Fs]; [left; exact Fs|right].
    unfold split_exp in Ee. destruct (find_idx c_e pyDouble) as [[|q]|].
    - inversion Ee; subst. exact Fs.
    - destruct (py_int (skipn 1 (strip_exp_zero (skipn (S q) pyDouble)))); [|discriminate].
      injection Ee as E1 E2 E3. rewrite <- E2. apply firstn_S_nonnil. exact Fs.
    - inversion Ee; subst. exact Fs. }
  destruct (strip_dot0 (split_dot pyDouble')) as [[pyFirst pyDot] pyLast] eqn:Ed.
  assert (Fp : pySign <> [] \/ pyFirst <> []).
  { destruct Fe as [Fe|Fe]; [left; exact Fe|right].
    unfold strip_dot0, split_dot in Ed. destruct (find_idx c_dot pyDouble') as [[|q]|].
    - destruct (ustr_eqb [] [c_0]); injection Ed as E1 E2 E3; rewrite <- E1; exact Fe.
    - destruct (ustr_eqb (skipn (S (S q)) pyDouble') [c_0]); injection Ed as E1 E2 E3; rewrite <- E1;
        apply firstn_S_nonnil; exact Fe.
    - destruct (ustr_eqb [] [c_0]); injection Ed as E1 E2 E3; rewrite <- E1; exact Fe. }
  inversion H; subst. unfold assemble.
  assert (G : forall a b c : ustring, a <> [] \/ b <> [] -> a ++ b ++ c <> []).
  { intros a b c [Ha|Hb] E; apply app_eq_nil in E; destruct E as [E1 E2]; [contradiction|].
    apply app_eq_nil in E2. destruct E2. contradiction. }
  destruct ((0 <? pyExpVal)%Z && (pyExpVal <? 21)%Z).
  - rewrite <- app_assoc. apply G. exact Fp.
  - destruct ((pyExpVal <? 0)%Z && (-7 <? pyExpVal)%Z).
    + intro E. apply app_eq_nil in E. destruct E as [_ E]. discriminate.
    + apply G. exact Fp.
Qed.

Lemma py_repr_nonempty : forall neg ds n, py_repr neg ds n <> [].
Proof.
  intros neg ds n E. unfold py_repr in E. apply app_eq_nil in E. destruct E as [_ E].
  destruct ((-4 <? n)%Z && (n <=? 16)%Z).
  - destruct (n <=? 0)%Z; [discriminate|].
    destruct (n <? Z.of_nat (length ds))%Z.
    + apply app_eq_nil in E. destruct E as [_ E]. discriminate.
    + apply app_eq_nil in E. destruct E as [_ E]. apply app_eq_nil in E. destruct E as [_ E]. discriminate.
  - apply app_eq_nil in E. destruct E as [_ E]. discriminate.
Qed.

Lemma int_float_repr_nonempty : forall z r, int_float_repr z = Some r -> r <> [].
Proof.
  intros z r H. unfold int_float_repr in H. destruct (z =? 0)%Z; [inversion H; discriminate|].
  destruct (Z.abs z <=? 9007199254740992)%Z; [|discriminate]. inversion H. apply py_repr_nonempty.
Qed.

Lemma numc_consts : numc c_0 /\ numc c_dot /\ numc c_minus.
Proof. repeat split. Qed.

Lemma emit_num_text : forall v t, emit_num v = JOk t -> nums_wf v -> num_text t.
Proof.
  intros v t H W. destruct numc_consts as [N0 [Nd Nm]]. destruct v; try discriminate; simpl in H.
  - destruct (int_float_repr z) as [r|] eqn:E; [|unfold int_too_big in H; destruct (float_overflows z); discriminate]. split.
    + eapply convert2es6_nonempty; [exact H|]. eapply int_float_repr_nonempty. exact E.
    + apply (convert2es6_chars numc N0 Nd Nm r t H).
      eapply Forall_impl; [|eapply int_float_repr_rc; exact E]. apply repr_char_numc.
  - inversion W as [| | |r0 [Wn Wc]| | |]; subst. split.
    + eapply convert2es6_nonempty; eauto.
    + apply (convert2es6_chars numc N0 Nd Nm repr t H). exact Wc.
Qed.

(* ---- the number scanner ------------------------------------------------------------------ *)
Definition stop (rest : ustring) : Prop :=
  match rest with [] => True | c :: _ => numchar_b c = false end.

Lemma span_num_app : forall t rest, Forall numc t -> stop rest -> span_num (t ++ rest) = (t, rest).
Proof.
  induction 1 as [|c t Hc Ht IH]; intro S.
  - simpl. destruct rest as [|c r]; [reflexivity|]. simpl in *. rewrite S. reflexivity.
  - simpl. unfold numc in Hc. rewrite Hc. rewrite (IH S). reflexivity.
Qed.

(* ---- string literals ------------------------------------------------------------------------ *)
Lemma hexv_hex_lower : forall d, d < 16 -> hexv (hex_lower d) = Some d.
Proof.
  intros d H. unfold hex_lower, hexv. destruct (N.ltb_spec d 10).
  - assert (E1 : (48 <=? 48 + d) = true) by (apply N.leb_le; lia).
    assert (E2 : (48 + d <=? 57) = true) by (apply N.leb_le; lia).
    rewrite E1, E2. cbn [andb]. f_equal. lia.
  - assert (E1 : (48 <=? 87 + d) = true) by (apply N.leb_le; lia).
    assert (E2 : (87 + d <=? 57) = false) by (apply N.leb_gt; lia).
    assert (E3 : (97 <=? 87 + d) = true) by (apply N.leb_le; lia).
    assert (E4 : (87 + d <=? 102) = true) by (apply N.leb_le; lia).
    rewrite E1, E2, E3, E4. cbn [andb]. f_equal. lia.
Qed.

Lemma parse_chars_escape_char : forall c r, parse_chars (escape_char c ++ r) = cons_res c (parse_chars r).
Proof.
  intros c r. unfold escape_char, c_bslash, c_quote, c_0.
  destruct (N.eqb_spec c 92); [subst; reflexivity|]. destruct (N.eqb_spec c 34); [subst; reflexivity|].
  destruct (N.eqb_spec c 8); [subst; reflexivity|]. destruct (N.eqb_spec c 12); [subst; reflexivity|].
  destruct (N.eqb_spec c 10); [subst; reflexivity|]. destruct (N.eqb_spec c 13); [subst; reflexivity|].
  destruct (N.eqb_spec c 9); [subst; reflexivity|].
  destruct (N.ltb_spec c 32).
  - destruct (dmx c 16 ltac:(discriminate)) as [q [d [Hq [Hd [E R]]]]]. rewrite Hq, Hd.
    assert (Q : q < 16) by lia.
    cbn [app parse_chars]. change (92 =? 34) with false. change (92 =? 92) with true.
    change (117 =? 117) with true. cbn iota.
    unfold hex4. change (hexv 48) with (Some 0). rewrite (hexv_hex_lower q Q), (hexv_hex_lower d R).
    replace (0 * 4096 + 0 * 256 + q * 16 + d) with c by lia. reflexivity.
  - cbn [app parse_chars]. apply N.eqb_neq in n, n0. rewrite n, n0.
    assert (E : (c <? 32) = false) by (apply N.ltb_ge; assumption). rewrite E. reflexivity.
Qed.

Lemma parse_chars_escape : forall s rest, parse_chars (escape s ++ c_quote :: rest) = Some (s, rest).
Proof.
  induction s as [|c s IH]; intro rest.
  - reflexivity.
  - unfold escape. simpl flat_map. rewrite <- app_assoc. rewrite parse_chars_escape_char.
    fold (escape s). rewrite IH. reflexivity.
Qed.

Lemma parse_str_text : forall s rest, parse_chars (rfc_escape s ++ c_quote :: rest) = Some (s, rest).
Proof. intros. rewrite <- canon_escape_minimal_proof. apply parse_chars_escape. Qed.

(* ---- lengths of joined parts ------------------------------------------------------------------ *)
Lemma join_length_parts : forall ps p, In p ps -> (length p <= length (join_with [c_comma] ps))%nat.
Proof.
  induction ps as [|q ps IH]; intros p H; [contradiction|].
  destruct ps as [|q2 ps].
  - destruct H as [H|[]]. subst. simpl. lia.
  - change (join_with [c_comma] (q :: q2 :: ps)) with (q ++ [c_comma] ++ join_with [c_comma] (q2 :: ps)).
    rewrite !app_length. destruct H as [H|H]; [subst; lia|]. specialize (IH p H). lia.
Qed.

Lemma join_length_count : forall ps, (length ps <= S (length (join_with [c_comma] ps)))%nat.
Proof.
  induction ps as [|q ps IH]; [simpl; lia|].
  destruct ps as [|q2 ps]; [simpl; lia|].
  change (join_with [c_comma] (q :: q2 :: ps)) with (q ++ [c_comma] ++ join_with [c_comma] (q2 :: ps)).
  rewrite !app_length. simpl length in *. lia.
Qed.

(* ---- head of an emitted text -------------------------------------------------------------------- *)
Lemma emit_head : forall v t, emit v = JOk t -> nums_wf v -> exists c t', t = c :: t' /\ c <> 93.
Proof.
  intros v t H W. destruct v; simpl in H.
  - inversion H. eexists; eexists; split; [reflexivity|lia].
  - destruct b; inversion H; eexists; eexists; split; try reflexivity; lia.
  - destruct (emit_num_text (JInt z) t H W) as [Hn Hc]. destruct t as [|c t']; [contradiction|].
    exists c, t'. split; [reflexivity|]. inversion Hc; subst. intro E. subst. discriminate.
  - destruct (emit_num_text (JFloat repr) t H W) as [Hn Hc]. destruct t as [|c t']; [contradiction|].
    exists c, t'. split; [reflexivity|]. inversion Hc; subst. intro E. subst. discriminate.
  - inversion H. unfold str_text. eexists; eexists; split; [reflexivity|unfold c_quote; lia].
  - unfold wrap in H. destruct (sequence (map emit l)); inversion H.
    eexists; eexists; split; [reflexivity|unfold c_lbrack; lia].
  - unfold wrap in H. destruct (sequence _); inversion H.
    eexists; eexists; split; [reflexivity|unfold c_lbrace; lia].
Qed.

(* ---- elements and members ---------------------------------------------------------------------- *)
Definition reads (f : nat) (x : jvalue) (p : ustring) : Prop :=
  forall rest, stop rest -> parse_value f (p ++ rest) = Some (lit_deep x, rest).

Lemma parse_elems_join : forall f l ps, Forall2 (reads f) l ps -> l <> [] ->
  forall n rest, (length l <= n)%nat ->
  parse_elems (parse_value f) n (join_with [c_comma] ps ++ c_rbrack :: rest) = Some (map lit_deep l, rest).
Proof.
  intros f l ps H. induction H as [|x p l ps Hx Hl IH]; intros Hne n rest Hn; [contradiction|].
  destruct n as [|n]; [simpl in Hn; lia|].
  destruct Hl as [|x2 p2 l ps Hx2 Hl].
  - simpl join_with. cbn [parse_elems]. rewrite (Hx (c_rbrack :: rest)) by reflexivity.
    change (c_rbrack =? 44) with false. change (c_rbrack =? 93) with true. reflexivity.
  - change (join_with [c_comma] (p :: p2 :: ps)) with (p ++ [c_comma] ++ join_with [c_comma] (p2 :: ps)).
    rewrite <- !app_assoc. cbn [parse_elems].
    rewrite (Hx ([c_comma] ++ join_with [c_comma] (p2 :: ps) ++ c_rbrack :: rest)) by reflexivity.
    cbn [app]. change (c_comma =? 44) with true. cbn iota.
    rewrite IH; [reflexivity|discriminate|simpl in *; lia].
Qed.

Definition reads_member (f : nat) (kv : ustring * jvalue) (p : ustring) : Prop :=
  exists body, p = str_text (fst kv) ++ c_colon :: body /\ reads f (snd kv) body.

Lemma parse_members_join : forall f m ps, Forall2 (reads_member f) m ps -> m <> [] ->
  forall n rest, (length m <= n)%nat ->
  parse_members (parse_value f) n (join_with [c_comma] ps ++ c_rbrace :: rest) =
  Some (map (fun kv => (fst kv, lit_deep (snd kv))) m, rest).
Proof.
  intros f m ps H. induction H as [|kv p m ps [body [Ep Hx]] Hl IH]; intros Hne n rest Hn; [contradiction|].
  destruct n as [|n]; [simpl in Hn; lia|]. subst p.
  destruct Hl as [|kv2 p2 m ps Hx2 Hl].
  - simpl join_with. unfold str_text. cbn [app parse_members]. change (c_quote =? 34) with true. cbn iota.
    rewrite <- !app_assoc. cbn [app]. rewrite parse_str_text.
    change (c_colon =? 58) with true. cbn iota.
    rewrite (Hx (c_rbrace :: rest)) by reflexivity.
    change (c_rbrace =? 44) with false. change (c_rbrace =? 125) with true. reflexivity.
  - change (join_with [c_comma] ((str_text (fst kv) ++ c_colon :: body) :: p2 :: ps))
      with ((str_text (fst kv) ++ c_colon :: body) ++ [c_comma] ++ join_with [c_comma] (p2 :: ps)).
    unfold str_text at 1. cbn [app parse_members]. change (c_quote =? 34) with true. cbn iota.
    rewrite <- !app_assoc. cbn [app]. rewrite parse_str_text.
    change (c_colon =? 58) with true. cbn iota.
    rewrite (Hx (c_comma :: join_with [c_comma] (p2 :: ps) ++ c_rbrace :: rest)) by reflexivity.
    change (c_comma =? 44) with true. cbn iota.
    rewrite IH; [reflexivity|discriminate|simpl in *; lia].
Qed.

(* ---- the main lemma --------------------------------------------------------------------------------- *)
Lemma Forall2_map_left : forall (A B C : Type) (f : A -> B) (R : B -> C -> Prop) l l',
  Forall2 R (map f l) l' -> Forall2 (fun a c => R (f a) c) l l'.
Proof.
  induction l as [|a l IH]; intros l' H; inversion H; subst; constructor; auto.
Qed.

Lemma Forall2_len : forall (A B : Type) (R : A -> B -> Prop) l l', Forall2 R l l' -> length l = length l'.
Proof. induction 1; simpl; auto. Qed.

Definition reads_any (v : jvalue) : Prop :=
  forall t, emit v = JOk t -> nums_wf v -> forall fuel, (length t < fuel)%nat -> reads fuel v t.

Lemma reads_elems : forall f l ps, Forall reads_any l -> Forall nums_wf l ->
  Forall2 (fun x p => emit x = JOk p) l ps -> (forall p, In p ps -> (length p < f)%nat) ->
  Forall2 (reads f) l ps.
Proof.
  intros f l ps IH W E. revert IH W. induction E as [|x p l ps Ex El IHl]; intros IH W Hlen; constructor.
  - inversion IH; subst. inversion W; subst. apply H1; auto. apply Hlen. left. reflexivity.
  - inversion IH; subst. inversion W; subst. apply IHl; auto. intros q Hq. apply Hlen. right. exact Hq.
Qed.

Lemma reads_members : forall f (m : list (ustring * jvalue)) ps,
  Forall (fun kv => reads_any (snd kv)) m -> Forall (fun kv => nums_wf (snd kv)) m ->
  Forall2 (fun kv p => emit_member (fst kv, emit (snd kv)) = JOk p) m ps ->
  (forall p, In p ps -> (length p < f)%nat) ->
  Forall2 (reads_member f) m ps.
Proof.
  intros f m ps IH W E. revert IH W. induction E as [|kv p m ps Ex El IHl]; intros IH W Hlen; constructor.
  - inversion IH; subst. inversion W; subst. unfold emit_member in Ex. simpl in Ex.
    destruct (emit (snd kv)) as [body|e] eqn:Eb; [|discriminate]. inversion Ex; subst.
    exists body. split; [reflexivity|]. apply H1; auto.
    specialize (Hlen _ (or_introl eq_refl)). unfold str_text in Hlen. simpl in Hlen. rewrite !app_length in Hlen. simpl in Hlen. lia.
  - inversion IH; subst. inversion W; subst. apply IHl; auto. intros q Hq. apply Hlen. right. exact Hq.
Qed.

Lemma parse_emit : forall v, reads_any v.
Proof.
  unfold reads_any.
  induction v as [|b|z|r|s|l IH|m IH] using jvalue_nested_ind; intros t H W fuel Hf rest S;
    (destruct fuel as [|f]; [lia|]).
  - inversion H; subst. reflexivity.
  - destruct b; inversion H; subst; reflexivity.
  - destruct (emit_num_text _ _ H W) as [Hn Hc]. destruct t as [|c t']; [contradiction|].
    cbn [app parse_value]. inversion Hc as [|? ? Hc1 Hc2]; subst. unfold numc in Hc1. rewrite Hc1.
    change (c :: t' ++ rest) with ((c :: t') ++ rest). rewrite (span_num_app _ _ Hc S).
    simpl in H. simpl. destruct (int_float_repr z); [|unfold int_too_big in H; destruct (float_overflows z); discriminate]. rewrite H. reflexivity.
  - destruct (emit_num_text _ _ H W) as [Hn Hc]. destruct t as [|c t']; [contradiction|].
    cbn [app parse_value]. inversion Hc as [|? ? Hc1 Hc2]; subst. unfold numc in Hc1. rewrite Hc1.
    change (c :: t' ++ rest) with ((c :: t') ++ rest). rewrite (span_num_app _ _ Hc S).
    simpl in H. simpl. rewrite H. reflexivity.
  - inversion H; subst. unfold str_text. cbn [app parse_value].
    change (numchar_b c_quote) with false. change (c_quote =? 34) with true. cbn iota.
    rewrite <- app_assoc. cbn [app]. rewrite parse_str_text. reflexivity.
  - simpl in H. unfold wrap in H. destruct (sequence (map emit l)) as [ps|e] eqn:E; [|discriminate].
    inversion H; subst. clear H. apply sequence_ok2 in E. apply Forall2_map_left in E.
    cbn [app parse_value]. change (numchar_b c_lbrack) with false. change (c_lbrack =? 34) with false.
    change (c_lbrack =? 91) with true. cbn iota.
    inversion W as [| | | | |l0 Wl|]; subst.
    assert (Hlen : forall p, In p ps -> (length p < f)%nat).
    { intros p Hp. apply join_length_parts in Hp. simpl in Hf. rewrite app_length in Hf. simpl in Hf. lia. }
    pose proof (reads_elems f l ps IH Wl E Hlen) as R.
    pose proof (join_length_count ps) as Hcnt.
    pose proof (Forall2_len _ _ _ _ _ E) as Hl2.
    destruct E as [|x p l ps Ex Et].
    + reflexivity.
    + inversion Wl; subst.
      destruct (emit_head x p Ex ltac:(assumption)) as [c [p' [Ep Hc]]].
      assert (Hj : exists j', join_with [c_comma] (p :: ps) = c :: j').
      { subst p. destruct ps; simpl; eexists; reflexivity. }
      destruct Hj as [j' Hj]. apply N.eqb_neq in Hc.
      match goal with |- context [parse_elems _ _ ?J] => remember J as JJ eqn:EJ end.
      assert (HJ : JJ = c :: (j' ++ [c_rbrack]) ++ rest) by (rewrite EJ, Hj; reflexivity).
      rewrite HJ. rewrite Hc. rewrite <- HJ. rewrite EJ. rewrite <- app_assoc. cbn [app].
      rewrite (parse_elems_join f (x :: l) (p :: ps) R); [reflexivity|discriminate|].
      simpl in Hf. rewrite app_length in Hf. simpl in Hf. simpl in *. lia.
  - simpl in H. unfold wrap in H.
    destruct (sequence (map (fun kv => emit_member (fst kv, emit (snd kv))) m)) as [ps|e] eqn:E; [|discriminate].
    inversion H; subst. clear H. apply sequence_ok2 in E. apply Forall2_map_left in E.
    cbn [app parse_value]. change (numchar_b c_lbrace) with false. change (c_lbrace =? 34) with false.
    change (c_lbrace =? 91) with false. change (c_lbrace =? 123) with true. cbn iota.
    inversion W as [| | | | | |m0 Wm]; subst.
    assert (Hlen : forall p, In p ps -> (length p < f)%nat).
    { intros p Hp. apply join_length_parts in Hp. simpl in Hf. rewrite app_length in Hf. simpl in Hf. lia. }
    pose proof (reads_members f m ps IH Wm E Hlen) as R.
    pose proof (join_length_count ps) as Hcnt.
    pose proof (Forall2_len _ _ _ _ _ E) as Hl2.
    destruct R as [|kv p m ps [body [Ep Hb]] Rt].
    + reflexivity.
    + assert (R : Forall2 (reads_member f) (kv :: m) (p :: ps)).
      { constructor; [exists body; split; assumption|exact Rt]. }
      assert (Hj : exists j', join_with [c_comma] (p :: ps) = c_quote :: j').
      { subst p. unfold str_text. destruct ps; simpl; eexists; reflexivity. }
      destruct Hj as [j' Hj].
      match goal with |- context [parse_members _ _ ?J] => remember J as JJ eqn:EJ end.
      assert (HJ : JJ = c_quote :: (j' ++ [c_rbrace]) ++ rest) by (rewrite EJ, Hj; reflexivity).
      rewrite HJ. change (c_quote =? 125) with false. cbn iota. rewrite <- HJ. rewrite EJ. rewrite <- app_assoc. cbn [app].
      rewrite (parse_members_join f (kv :: m) _ R); [reflexivity|discriminate|].
      simpl in Hf. rewrite app_length in Hf. simpl in Hf. simpl in *. lia.
Qed.

Lemma nums_wf_sort_deep : forall v, nums_wf v -> nums_wf (sort_deep v).
Proof.
  induction v as [|b|z|r|s|l IH|m IH] using jvalue_nested_ind; intro C; try exact C.
  - simpl. constructor. inversion C; subst. rewrite Forall_map. rewrite Forall_forall in *. intros x Hx. apply IH; auto.
  - simpl. constructor. inversion C as [| | | | | |m0 Cm]; subst.
    rewrite Forall_forall in *. intros kv Hkv. apply (proj1 (spec_sort_In _ _ _)) in Hkv.
    apply in_map_iff in Hkv. destruct Hkv as [kv0 [E Hin]]. subst kv. simpl. apply IH; auto.
Qed.

Lemma canon_parse_proof : forall v t, canon v = JOk t -> nums_wf v -> parse_json t = Some (json_of v).
Proof.
  intros v t H W. apply canon_emit_ok_proof in H.
  pose proof (parse_emit (sort_deep v) t H (nums_wf_sort_deep v W) (S (length t)) (Nat.lt_succ_diag_r _) [] I) as P.
  rewrite app_nil_r in P. unfold parse_json. rewrite P. reflexivity.
Qed.

(* the canonical text determines the JSON value *)
Lemma canon_injective_proof : forall v w t, canon v = JOk t -> canon w = JOk t -> nums_wf v -> nums_wf w ->
  json_of v = json_of w.
Proof.
  intros v w t Hv Hw Wv Ww. pose proof (canon_parse_proof v t Hv Wv) as Pv.
  pose proof (canon_parse_proof w t Hw Ww) as Pw. rewrite Pv in Pw. inversion Pw. reflexivity.
Qed.

(* Proofs/SchemaCompObject.v -- C03, the object level (the mirror of Proofs/SchemaObject.v): on the
   members of an object the specification's class accepts, _STIXBase.__init__ (construct_generic, strict
   mode) succeeds: every given property is cleaned (per-kind completeness, Proofs/SchemaCompKinds.v)
   and stored with the same value (jsame), every absent property gets its default or stays absent, no
   required property is missing, and -- given that the co-constraints pass (Proofs/SchemaCompCons.v) --
   the object is returned without a custom flag.                                                  *)
From Coq Require Import NArith ZArith List String Bool Lia.
From V Require Import Base.UString Base.Json Model.SchemaTypes Model.PyBase Model.Schema
     Spec.StixValid Spec.SchemaRefine Proofs.SchemaBasics Proofs.SchemaScope Proofs.SchemaObject
     Proofs.SchemaKinds Proofs.SchemaRefineFacts Proofs.SchemaComplete Proofs.SchemaCompLeaf Proofs.SchemaCompKinds
     Proofs.SchemaCovProved Proofs.SchemaCovInv Proofs.SchemaCovInv2.
From V Require Model.Calendar.
Import ListNotations.

Local Arguments u : simpl never.

(* ---------- what `class_accept_failures sc lc = []` says ---------- *)
Section AcceptFacts.
  Variables sc lc : cls.
  Hypothesis H : class_accept_failures sc lc = [].

  Lemma caf_parts :
    header_ok lc sc = true /\
    (forall s', In s' (cslots sc) -> exists s, find_slot lc (sname s') = Some s /\ kind_accepts (skind s) (skind s') = true) /\
    (forall s, In s (cslots lc) -> sreq s = true ->
               exists s', find_slot sc (sname s) = Some s' /\ spec_requires sc s' = true) /\
    (forall k, In k (ccons lc) -> k = CSkipBaseCheck \/ In k (ccons sc)).
  Proof.
    unfold class_accept_failures in H.
    apply app_eq_nil in H. destruct H as [H1 H2]. apply app_eq_nil in H2. destruct H2 as [H2 H3].
    apply app_eq_nil in H3. destruct H3 as [H3 H4]. apply app_eq_nil in H4. destruct H4 as [H4 H5].
    split; [destruct (header_ok lc sc); auto; discriminate|].
    split; [|split].
    - intros s' Hs'. pose proof (flat_map_nil _ _ s' H3 Hs') as E. simpl in E.
      destruct (find_slot lc (sname s')) as [s|]; try discriminate.
      destruct (kind_accepts (skind s) (skind s')) eqn:Ek; try discriminate. eauto.
    - intros s Hs Hr. pose proof (flat_map_nil _ _ s H4 Hs) as E. simpl in E. rewrite Hr in E. simpl in E.
      destruct (find_slot sc (sname s)) as [s'|]; try discriminate.
      destruct (spec_requires sc s') eqn:Ea; try discriminate. eauto.
    - intros k Hk. destruct (in_combine_seq _ _ Hk) as [i Hi].
      pose proof (flat_map_nil _ _ (i, k) H5 Hi) as E. simpl in E.
      destruct (existsb (constr_eqb k) (ccons sc)) eqn:Ex.
      + right. apply existsb_exists in Ex. destruct Ex as [k' [Hin He]].
        apply constr_eqb_eq in He. subst. auto.
      + simpl in E. destruct k; try discriminate. auto.
  Qed.
End AcceptFacts.

(* a valid value is neither null nor an empty list (what assign_raw treats as absent) *)
Lemma valid_not_absent sp pok n k v :
  valid_kind sp pok n k v = true -> v <> JNull /\ v <> JArr [].
Proof.
  intros H. split; intros ->; destruct n; try discriminate H; cbn in H.
  - destruct k; try discriminate H;
      try (destruct n; [discriminate H|]; cbn in H; unfold valid_obj_body in H;
           destruct (find_class _ _); discriminate H).
  - destruct k; try discriminate H;
      try (destruct n; [discriminate H|]; cbn in H; unfold valid_obj_body in H;
           destruct (find_class _ _); discriminate H).
Qed.

(* table conditions of the reverse direction *)
Definition default_wf (s : slot) : bool :=
  match sdef s, skind s with
  | DNone, _ => true
  | DFixed, KFixed _ _ => true
  | DNow, KTime _ _ => true
  | DUuid4, KId _ _ => true
  | DConst (JBool _), KBool => true
  | _, _ => false
  end.

Definition objref_free (s : slot) : bool :=
  match skind s with KObjRef _ | KList (KObjRef _) => false | _ => true end.

Definition refs_trivial (c : cls) : bool :=
  match cfamily c, cver c with
  | FSco, V20 => forallb objref_free (cslots c)
  | _, _ => true
  end.

(* the shape of what clean returns, by library kind *)
Definition shape_ok (k : pkind) (x : pval) : Prop :=
  match k with
  | KTime _ _ => exists us txt, x = PTime us txt
  | KList _ => exists res, x = PArr res
  | _ => pj_kind k = true -> is_pj x
  end.

Lemma clean_shape vr w rc rp ro k allow interop v pv hc :
  clean_kind vr w rc rp ro k allow interop v = Ok (pv, hc) -> shape_ok k pv.
Proof.
  intros H. destruct k; try (intros Hk; eapply clean_kind_pj; eauto; fail); try (intros Hk; discriminate Hk).
  - cbn [clean_kind] in H. destruct v; try discriminate H. inv_bind H. injection Hb as <- _. simpl. eauto.
  - cbn [clean_kind] in H. inv_bind H. inv_bind Hb. unfold finish_list in Hbb. destruct a0 as [res h].
    destruct (negb allow && h); try discriminate. destruct res; try discriminate. injection Hbb as <- _. simpl. eauto.
Qed.

(* the v20 _Observable check that object references name members of the enclosing container does not
   concern this property *)
Definition refs_needless (c : cls) (s : slot) : bool :=
  match cfamily c, cver c with FSco, V20 => objref_free s | _, _ => true end.

Section CompObj.
  Variable vr : variant.
  Variable ev : env.
  Variables w sp : world.
  Variable pok : ver -> ustring -> bool.
  Variable sok : list (ustring * pval) -> pval -> result bool.
  Variable rc : ustring -> bool -> bool -> list (ustring * jvalue) -> result pval.
  Variable rp : bool -> bool -> list (ustring * jvalue) -> result pval.
  Variable ro : ver -> list (ustring * ustring) -> bool -> list (ustring * jvalue) -> result pval.

  Hypothesis Hvr : variant_complete vr = true.
  Hypothesis Hsr : spec_refines sp w = true.
  Hypothesis Hnow : Calendar.in_range (e_now ev) = true.
  Hypothesis Hu4 : valid_uuid_text V20 (e_uuid4 ev) = true.

  Variables c sc : cls.
  Hypothesis Hnames : unodup (map sname (cslots c)) = true.
  Hypothesis Hdef : forall s, In s (cslots c) -> default_wf s = true.

  Variable mem : list (ustring * jvalue).
  Variable n0 : nat.
  (* every given member is a property of both classes, of a covered kind, valid and representable *)
  Hypothesis Hmem : forall k v, In (k, v) mem ->
      exists s s', find_slot c k = Some s /\ find_slot sc k = Some s' /\
                   kind_accepts (skind s) (skind s') = true /\ kind_complete2 (skind s) = true /\
                   jin_ok (skind s') v = true /\ valid_kind sp pok n0 (skind s') v = true.
  Hypothesis Hnd : NoDup (map fst mem).
  (* no given member is an object reference of a 2.0 observable (a directly constructed one has no container) *)
  Hypothesis Hrefs : forall k v s, In (k, v) mem -> find_slot c k = Some s -> refs_needless c s = true.

  (* the value the constructor stores for a property that was not given: its default *)
  Definition stored_default (s : slot) (x : pval) : Prop :=
    match sdef s, skind s with
    | DFixed, KFixed fv _ => x = PJ (JStr fv)
    | DNow, KTime p c0 => exists r, ts_clean_now (vr_year_pad vr) p c0 (e_now ev) = Ok r /\ x = PTime (fst r) (snd r)
    | DUuid4, KId prefix _ => x = PJ (JStr (prefix ++ e_uuid4 ev))
    | DConst j, _ => x = PJ j
    | _, _ => False
    end.

  (* what is stored under a name *)
  Definition ent_ok (k : ustring) (x : pval) : Prop :=
    match alookup k mem with
    | Some v => exists s s', find_slot c k = Some s /\ find_slot sc k = Some s' /\
                             kind_accepts (skind s) (skind s') = true /\ jin_ok (skind s') v = true /\
                             jsame (skind s') v (encode true x) /\ shape_ok (skind s) x
    | None => exists s, find_slot c k = Some s /\ sdef s <> DNone /\ stored_default s x
    end.

  Lemma uuid4_ok vv : check_uuid vr (e_uuid4 ev) vv false = Ok true.
  Proof.
    apply check_uuid_complete. destruct vv; auto.
    unfold valid_uuid_text in *. apply andb_true_iff in Hu4. destruct Hu4 as [A B]. rewrite A. cbv zeta in *.
    apply andb_true_iff in B. destruct B as [B _]. rewrite B. reflexivity.
  Qed.

  Lemma refs_ok_free s vrefs v : refs_needless c s = true -> refs_ok c s vrefs v = Ok tt.
  Proof.
    intros Hr. unfold refs_ok. unfold refs_needless in Hr.
    destruct (cfamily c); auto. destruct (cver c); auto. destruct vrefs; auto.
    unfold objref_free in Hr.
    destruct (skind s) as [| | | | | | | | | | | | | | | | | | | | | |k0| |]; try discriminate Hr; auto.
    destruct k0; try discriminate Hr; destruct v; auto.
  Qed.

  (* one property *)
  Lemma check_property_complete s vrefs setting :
    In s (cslots c) ->
    alookup (sname s) setting = None ->
    (forall k x, alookup k setting = Some x -> ent_ok k x) ->
    let st1 := assign_raw mem [] [] (sname s) setting in
    exists st2, check_property vr ev w rc rp ro c s false false vrefs st1 = Ok (st2, false) /\
                (forall k x, alookup k st2 = Some x -> ent_ok k x) /\
                (forall k, amem k st2 = true -> amem k setting = true \/ k = sname s) /\
                (forall k, amem k setting = true -> amem k st2 = true) /\
                (forall v, alookup (sname s) mem = Some v -> amem (sname s) st2 = true).
  Proof.
    intros Hs Hfresh Hent st1. set (n := sname s) in *.
    destruct (vc_flags vr Hvr) as [Hpad _].
    assert (Hfs : find_slot c n = Some s).
    { unfold find_slot. apply find_self_nodup; auto. apply unodup_NoDup. exact Hnames. }
    assert (Put : forall pv,
               ent_ok n pv ->
               (forall k x, alookup k (aset n pv setting) = Some x -> ent_ok k x) /\
               (forall k, amem k (aset n pv setting) = true -> amem k setting = true \/ k = n) /\
               (forall k, amem k setting = true -> amem k (aset n pv setting) = true)).
    { intros pv Hpv. split; [|split].
      - intros k x Hx. destruct (ustr_eqb k n) eqn:E.
        + apply ustr_eqb_eq in E. subst k. rewrite alookup_aset_same in Hx. injection Hx as <-. exact Hpv.
        + rewrite alookup_aset_other in Hx by auto. eauto.
      - intros k Hk. rewrite amem_aset in Hk. apply orb_true_iff in Hk. destruct Hk as [Hk|Hk]; auto.
        right. apply ustr_eqb_eq. auto.
      - intros k Hk. rewrite amem_aset, Hk. apply orb_true_r. }
    unfold st1, assign_raw. cbn [alookup].
    destruct (alookup n mem) as [v|] eqn:Ev.
    - (* given *)
      destruct (Hmem n v (alookup_In _ _ _ Ev)) as (s0 & s' & Hf0 & Hf' & Hka & Hkc & Hin & Hval).
      rewrite Hfs in Hf0. injection Hf0 as <-.
      destruct (valid_not_absent _ _ _ _ _ Hval) as [Nn Ne].
      destruct (kind_complete2_sound vr w sp pok rc rp ro Hvr Hsr _ _ Hkc Hka v n0 Hin Hval) as [pv [Hc Hs']].
      assert (St : (match v with JNull => setting | JArr [] => setting | _ => aset n (PJ v) setting end) = aset n (PJ v) setting).
      { destruct v as [| | | | |l|]; try reflexivity; try contradiction. destruct l; [contradiction|reflexivity]. }
      rewrite St. unfold check_property, default_value. fold n. rewrite alookup_aset_same. cbn [bind fst snd].
      unfold clean_present. fold n. rewrite alookup_aset_same. rewrite Hc. rewrite (refs_ok_free s vrefs pv (Hrefs n v s (alookup_In _ _ _ Ev) Hfs)). cbn [bind].
      exists (aset n pv (aset n (PJ v) setting)). split; [reflexivity|].
      assert (Epv : ent_ok n pv).
      { unfold ent_ok. rewrite Ev. exists s, s'. split; auto. split; auto. split; auto. split; auto. split; auto.
        eapply clean_shape; eauto. }
      assert (Eq : forall k, alookup k (aset n pv (aset n (PJ v) setting)) = alookup k (aset n pv setting)).
      { intros k. destruct (ustr_eqb k n) eqn:E.
        - apply ustr_eqb_eq in E. subst k. rewrite !alookup_aset_same. reflexivity.
        - rewrite !alookup_aset_other by auto. reflexivity. }
      destruct (Put pv Epv) as (P1 & P2 & P3).
      split; [intros k x Hx; rewrite Eq in Hx; eauto|]. split; [|split].
      + intros k Hk. unfold amem in *. rewrite Eq in Hk. apply P2. exact Hk.
      + intros k Hk. unfold amem in *. rewrite Eq. apply P3. exact Hk.
      + intros _ _. unfold amem. rewrite Eq, alookup_aset_same. reflexivity.
    - (* absent: the default *)
      pose proof (Hdef s Hs) as Hdw. unfold default_wf in Hdw.
      unfold check_property, default_value. fold n. rewrite Hfresh.
      assert (Default : forall pv, sdef s <> DNone -> stored_default s pv -> ent_ok n pv).
      { intros pv Hne Hsd. unfold ent_ok. rewrite Ev. exists s. auto. }
      assert (NoV : forall st2 : list (ustring * pval), (forall v : jvalue, None = Some v -> amem n st2 = true)) by (intros; discriminate).
      destruct (sdef s) eqn:Ed.
      + (* none *)
        cbn [bind fst snd]. unfold clean_present. fold n. rewrite Hfresh.
        exists setting. split; [reflexivity|]. split; [auto|]. split; [auto|]. split; [auto|apply NoV].
      + (* fixed *)
        destruct (skind s) eqn:Ek; try discriminate Hdw. cbn [bind fst snd].
        unfold clean_present. fold n. rewrite alookup_aset_same. rewrite Ek. cbn [clean_kind].
        cbn [jvalue_eqb]. rewrite ustr_eqb_refl.
        rewrite (refs_ok_free s vrefs _ ltac:(unfold refs_needless, objref_free; rewrite Ek; destruct (cfamily c), (cver c); reflexivity)). cbn [bind].
        exists (aset n (PJ (JStr v)) (aset n (PJ (JStr v)) setting)). split; [reflexivity|].
        assert (Eq : forall k, alookup k (aset n (PJ (JStr v)) (aset n (PJ (JStr v)) setting)) = alookup k (aset n (PJ (JStr v)) setting)).
        { intros k. destruct (ustr_eqb k n) eqn:E.
          - apply ustr_eqb_eq in E. subst k. rewrite !alookup_aset_same. reflexivity.
          - rewrite !alookup_aset_other by auto. reflexivity. }
        assert (SD : stored_default s (PJ (JStr v))) by (unfold stored_default; rewrite Ed, Ek; reflexivity).
        destruct (Put (PJ (JStr v)) (Default _ ltac:(discriminate) SD)) as (P1 & P2 & P3).
        split; [intros k x Hx; rewrite Eq in Hx; eauto|]. split; [|split; [|apply NoV]].
        * intros k Hk. unfold amem in *. rewrite Eq in Hk. apply P2. exact Hk.
        * intros k Hk. unfold amem in *. rewrite Eq. apply P3. exact Hk.
      + (* the clock *)
        destruct (skind s) eqn:Ek; try discriminate Hdw.
        unfold ts_clean_now. rewrite Hnow. cbn [bind fst snd].
        unfold clean_present. fold n. rewrite alookup_aset_same.
        eexists. split; [reflexivity|].
        destruct (Put (PTime (Timestamp.stored_trunc (ts_prec p) (ts_constr c0) (e_now ev))
                             (Timestamp.format (if vr_year_pad vr then Timestamp.Pad4 else Timestamp.Unpadded) (ts_prec p) (ts_constr c0)
                                (Timestamp.stored_trunc (ts_prec p) (ts_constr c0) (e_now ev))))
                      (Default _ ltac:(discriminate)
                         ltac:(unfold stored_default; rewrite Ed, Ek; unfold ts_clean_now; rewrite Hnow; eexists; split; reflexivity)))
          as (P1 & P2 & P3).
        split; [auto|]. split; [auto|]. split; [auto|apply NoV].
      + (* uuid4 *)
        destruct (skind s) eqn:Ek; try discriminate Hdw. cbn [bind fst snd].
        unfold clean_present. fold n. rewrite alookup_aset_same. rewrite Ek. cbn [clean_kind].
        unfold validate_id. rewrite ustr_prefix_app. cbn [negb]. rewrite udrop_app. rewrite uuid4_ok. cbn [bind].
        rewrite (refs_ok_free s vrefs _ ltac:(unfold refs_needless, objref_free; rewrite Ek; destruct (cfamily c), (cver c); reflexivity)). cbn [bind].
        eexists. split; [reflexivity|].
        assert (Eq : forall k pvv, alookup k (aset n pvv (aset n pvv setting)) = alookup k (aset n pvv setting)).
        { intros k pvv. destruct (ustr_eqb k n) eqn:E.
          - apply ustr_eqb_eq in E. subst k. rewrite !alookup_aset_same. reflexivity.
          - rewrite !alookup_aset_other by auto. reflexivity. }
        assert (SD : stored_default s (PJ (JStr (prefix ++ e_uuid4 ev)))) by (unfold stored_default; rewrite Ed, Ek; reflexivity).
        destruct (Put (PJ (JStr (prefix ++ e_uuid4 ev))) (Default _ ltac:(discriminate) SD)) as (P1 & P2 & P3).
        split; [intros k x Hx; rewrite Eq in Hx; eauto|]. split; [|split; [|apply NoV]].
        * intros k Hk. unfold amem in *. rewrite Eq in Hk. apply P2. exact Hk.
        * intros k Hk. unfold amem in *. rewrite Eq. apply P3. exact Hk.
      + (* a constant *)
        destruct j; try discriminate Hdw. destruct (skind s) eqn:Ek; try discriminate Hdw. cbn [bind fst snd].
        unfold clean_present. fold n. rewrite alookup_aset_same. rewrite Ek. cbn [clean_kind clean_bool].
        rewrite (refs_ok_free s vrefs _ ltac:(unfold refs_needless, objref_free; rewrite Ek; destruct (cfamily c), (cver c); reflexivity)). cbn [bind].
        eexists. split; [reflexivity|].
        assert (Eq : forall k pvv, alookup k (aset n pvv (aset n pvv setting)) = alookup k (aset n pvv setting)).
        { intros k pvv. destruct (ustr_eqb k n) eqn:E.
          - apply ustr_eqb_eq in E. subst k. rewrite !alookup_aset_same. reflexivity.
          - rewrite !alookup_aset_other by auto. reflexivity. }
        assert (SD : stored_default s (PJ (JBool b))) by (unfold stored_default; rewrite Ed; reflexivity).
        destruct (Put (PJ (JBool b)) (Default _ ltac:(discriminate) SD)) as (P1 & P2 & P3).
        split; [intros k x Hx; rewrite Eq in Hx; eauto|]. split; [|split; [|apply NoV]].
        * intros k Hk. unfold amem in *. rewrite Eq in Hk. apply P2. exact Hk.
        * intros k Hk. unfold amem in *. rewrite Eq. apply P3. exact Hk.
  Qed.

  (* the loop over the class's properties *)
  Lemma assign_loop_complete vrefs : forall l setting,
    NoDup l -> (forall n, In n l -> exists s, In s (cslots c) /\ sname s = n) ->
    (forall k, amem k setting = true -> ~ In k l) ->
    (forall k x, alookup k setting = Some x -> ent_ok k x) ->
    exists setting',
      assign_loop vr ev w rc rp ro c false false vrefs mem [] [] l setting false = Ok (setting', false) /\
      (forall k x, alookup k setting' = Some x -> ent_ok k x) /\
      (forall k, amem k setting = true -> amem k setting' = true) /\
      (forall k, amem k setting' = true -> amem k setting = true \/ In k l) /\
      (forall k v, In k l -> alookup k mem = Some v -> amem k setting' = true).
  Proof.
    induction l as [|n rest IH]; intros setting NDl Hsl Hfresh Hent.
    - exists setting. split; [reflexivity|]. split; [auto|]. split; [auto|]. split; [auto|]. intros k v [].
    - inversion NDl as [|? ? Hn NDrest]; subst.
      destruct (Hsl n (or_introl eq_refl)) as [s [Hs Hname]].
      assert (Hso : slot_of c n = Some s).
      { unfold slot_of. rewrite <- Hname. apply find_self_nodup; auto. apply unodup_NoDup. exact Hnames. }
      assert (El : alookup n setting = None).
      { apply amem_false. destruct (amem n setting) eqn:E; auto. exfalso. apply (Hfresh n E). left; auto. }
      cbn [assign_loop]. rewrite Hso. rewrite <- Hname in *.
      destruct (check_property_complete s vrefs setting Hs El Hent) as (st2 & Hcp & E2 & K2 & M2 & V2).
      cbv zeta in Hcp. rewrite Hcp. cbn [bind fst snd orb].
      destruct (IH st2 NDrest) as (setting' & Hl & E3 & M3 & K3 & V3).
      { intros m Hm. apply Hsl. right; auto. }
      { intros k Hk Hin. destruct (K2 k Hk) as [Hk' | ->]; [apply (Hfresh k Hk'); right; auto | contradiction]. }
      { exact E2. }
      exists setting'. split; [exact Hl|]. split; [exact E3|]. split; [auto|]. split.
      + intros k Hk. destruct (K3 k Hk) as [Hk' | Hk']; [|right; right; auto].
        destruct (K2 k Hk') as [Hk'' | ->]; auto. right. left. reflexivity.
      + intros k v [<- | Hin] Hv; [apply M3; eapply V2; eauto | eapply V3; eauto].
  Qed.
End CompObj.

(* Proofs/SchemaCompRun.v -- C03 assembled for an arbitrary class table (partial): the members of an
   object that the specification's class accepts are accepted by the class constructor in strict mode
   (run ... (RConstruct cid false false mem None) succeeds without a custom flag), every given property
   is stored with the same value (jsame), and whatever else is stored is a defaulted property.

   Coverage (explicit boolean predicates, evaluated by the kernel on the generated tables):
     class_complete w sp cid   the class has no class-specific __init__ wrapping, well-formed defaults,
                               co-constraint forms covered by Proofs/SchemaCompCons.v, and the table
                               comparison class_accept_failures finds nothing for it;
     input_complete c sc mem   every given member is a property whose kind is covered
                               (Proofs/SchemaCompKinds.v:kind_complete2: no nested objects yet), its value
                               is representable (jin_ok), and `extensions` / `granular_markings` are not
                               given (their content is checked by code outside this model's theorem).  *)
From Coq Require Import NArith ZArith List String Bool Lia.
From V Require Import Base.UString Base.Json Model.SchemaTypes Model.PyBase Model.Schema
     Spec.StixValid Spec.SchemaRefine Proofs.SchemaBasics Proofs.SchemaScope Proofs.SchemaObject Proofs.SchemaProved
     Proofs.SchemaConstr Proofs.SchemaRefineFacts Proofs.SchemaKnot Proofs.SchemaComplete Proofs.SchemaCompKinds Proofs.SchemaCompObject
     Proofs.SchemaCompCons Proofs.SchemaCovProved Proofs.SchemaCovInv Proofs.SchemaCovInv2.
From V Require Model.Calendar.
Import ListNotations.

Local Arguments u : simpl never.

Definition reserved_names : list ustring :=
  map u ["custom_properties"; "allow_custom"; "interoperability"; "self"; "_valid_refs"; "extensions_dummy_none"]%string.

Definition init_complete (i : preinit) : bool :=
  match i with INone | IObservedDataWarn | IBundleObjects | IPositional _ => true | _ => false end.

Definition no_failures (l : list failure) : bool := match l with [] => true | _ => false end.

Definition class_complete (w sp : world) (cid : ustring) : bool :=
  match find_class (wclasses w) cid, find_class (wclasses sp) cid with
  | Some c, Some sc =>
    no_failures (class_accept_failures sc c) &&
    unodup (map sname (cslots c)) &&
    forallb default_wf (cslots c) && init_complete (cinit c) &&
    forallb (fun s => negb (mem_ustr (sname s) reserved_names)) (cslots c) &&
    forallb (constr_complete_ok c sc) (ext_constr c ++ ccons c) &&
    nodefault c (u "granular_markings") &&
    match cfamily c, cver c with
    | FSco, V21 => match ctype c, find_slot c (u "id") with
                   | Some _, Some s => match sdef s with DNone => false | _ => true end
                   | _, _ => false
                   end
    | _, _ => true
    end
  | _, _ => false
  end.

Definition input_complete (c sc : cls) (mem : list (ustring * jvalue)) : bool :=
  forallb (fun kv => match find_slot c (fst kv), find_slot sc (fst kv) with
                     | Some s, Some s' => kind_complete2 (skind s) && jin_ok (skind s') (snd kv) && refs_needless c s
                     | _, _ => false
                     end) mem &&
  negb (amem (u "extensions") mem) && negb (amem (u "granular_markings") mem).

Definition env_complete (ev : env) : bool :=
  Calendar.in_range (e_now ev) && valid_uuid_text V20 (e_uuid4 ev).

Lemma constr_all_ok g l : (forall k, In k l -> g k = Ok tt) -> constr_all g l = Ok tt.
Proof. induction l; simpl; intros H; auto. rewrite H by auto. cbn [bind]. apply IHl. auto. Qed.

Lemma usort_nil : usort [] = []. Proof. reflexivity. Qed.

Section CompRun.
  Variable vr : variant.
  Variable ev : env.
  Variables w sp : world.
  Variable pok : ver -> ustring -> bool.
  Variable sok : list (ustring * pval) -> pval -> result bool.

  Hypothesis Hvr : variant_complete vr = true.
  Hypothesis Hsr : spec_refines sp w = true.
  Hypothesis Hev : env_complete ev = true.

  Variables c sc : cls.
  Variable mem : list (ustring * jvalue).
  Variable m : nat.

  Hypothesis Hfsp : find_class (wclasses sp) (cid c) = Some sc.
  Hypothesis Hcaf : class_accept_failures sc c = [].
  Hypothesis Hnames : unodup (map sname (cslots c)) = true.
  Hypothesis Hdefw : forallb default_wf (cslots c) = true.
  Hypothesis Hres : forallb (fun s => negb (mem_ustr (sname s) reserved_names)) (cslots c) = true.
  Hypothesis Hcons : forallb (constr_complete_ok c sc) (ext_constr c ++ ccons c) = true.
  Hypothesis Hgran : nodefault c (u "granular_markings") = true.
  Hypothesis Hvalid : valid_obj sp pok (S m) (cid c) (JObj mem) = true.
  Hypothesis Hnd : NoDup (map fst mem).
  Hypothesis Hinp : input_complete c sc mem = true.

  (* ---- what the hypotheses say, member by member ---- *)
  Lemma valid_parts :
    (forall k v, In (k, v) mem -> forall s', find_slot sc k = Some s' -> valid_kind sp pok m (skind s') v = true) /\
    (forall s', In s' (cslots sc) -> spec_required sc s' = true -> exists v, alookup (sname s') mem = Some v) /\
    (forall k, In k ((match cfamily sc with FExt => [CAtLeastOneDefault] | _ => [] end) ++ ccons sc) ->
               jconstr pok (S m) sc mem k = true).
  Proof.
    pose proof Hvalid as H.
    change (valid_obj_body sp (valid_kind sp pok m) (jconstr pok (S m)) (cid c) (JObj mem) = true) in H.
    unfold valid_obj_body in H. rewrite Hfsp in H.
    apply andb_true_iff in H. destruct H as [H H3]. apply andb_true_iff in H. destruct H as [H1 H2].
    rewrite forallb_forall in H1, H2, H3. split; [|split].
    - intros k v Hin s' Hf. specialize (H1 _ Hin). cbn [fst snd] in H1. unfold find_slot in Hf. rewrite Hf in H1. exact H1.
    - intros s' Hs' Hr. specialize (H2 _ Hs'). rewrite Hr in H2. cbn [negb orb] in H2.
      rewrite jlookup_alookup in H2. destruct (alookup (sname s') mem); [eauto|discriminate].
    - intros k Hk. apply H3. exact Hk.
  Qed.

  Lemma Hmem : forall k v, In (k, v) mem ->
      exists s s', find_slot c k = Some s /\ find_slot sc k = Some s' /\
                   kind_accepts (skind s) (skind s') = true /\ kind_complete2 (skind s) = true /\
                   jin_ok (skind s') v = true /\ valid_kind sp pok m (skind s') v = true.
  Proof.
    intros k v Hin. destruct valid_parts as [V1 _].
    pose proof Hinp as Hinp'. unfold input_complete in Hinp'. apply andb_true_iff in Hinp'. destruct Hinp' as [Hi _].
    apply andb_true_iff in Hi. destruct Hi as [Hi _]. rewrite forallb_forall in Hi. specialize (Hi _ Hin).
    cbn [fst snd] in Hi.
    destruct (find_slot c k) as [s|] eqn:Es; try discriminate.
    destruct (find_slot sc k) as [s'|] eqn:Es'; try discriminate.
    apply andb_true_iff in Hi. destruct Hi as [Hi _]. apply andb_true_iff in Hi. destruct Hi as [Hk Hj].
    exists s, s'. split; auto. split; auto.
    destruct (caf_parts _ _ Hcaf) as (_ & Hacc & _).
    destruct (find_slot_spec _ _ _ Es') as [Hs' Hn'].
    destruct (Hacc s' Hs') as [s0 [Hf0 Ha0]]. rewrite Hn', Es in Hf0. injection Hf0 as <-.
    split; auto. split; auto. split; auto. eapply V1; eauto.
  Qed.

  Lemma Hrefs_in : forall k v s, In (k, v) mem -> find_slot c k = Some s -> refs_needless c s = true.
  Proof.
    intros k v s Hin Hf.
    pose proof Hinp as Hinp'. unfold input_complete in Hinp'. apply andb_true_iff in Hinp'. destruct Hinp' as [Hi _].
    apply andb_true_iff in Hi. destruct Hi as [Hi _]. rewrite forallb_forall in Hi. specialize (Hi _ Hin).
    cbn [fst snd] in Hi. rewrite Hf in Hi. destruct (find_slot sc k); try discriminate.
    apply andb_true_iff in Hi. tauto.
  Qed.

  Lemma key_is_slot k : amem k mem = true -> exists s, In s (cslots c) /\ sname s = k.
  Proof.
    intros H. apply amem_alookup in H. destruct H as [v Hv]. apply alookup_In in Hv.
    destruct (Hmem k v Hv) as (s & _ & Hf & _). destruct (find_slot_spec _ _ _ Hf). eauto.
  Qed.

  Lemma not_reserved k : mem_ustr k reserved_names = true -> amem k mem = false.
  Proof.
    intros Hr. destruct (amem k mem) eqn:E; auto. destruct (key_is_slot k E) as [s [Hs Hn]].
    pose proof Hres as Hres'. rewrite forallb_forall in Hres'. specialize (Hres' s Hs). rewrite Hn, Hr in Hres'. discriminate.
  Qed.

  (* ---- the generic constructor ---- *)
  Variable rc : ustring -> bool -> bool -> list (ustring * jvalue) -> result pval.
  Variable rp : bool -> bool -> list (ustring * jvalue) -> result pval.
  Variable ro : ver -> list (ustring * ustring) -> bool -> list (ustring * jvalue) -> result pval.

  Lemma construct_generic_complete vrefs :
    exists setting,
      construct_generic vr ev w pok sok rc rp ro (S m) c false false mem [] vrefs
      = Ok (PObject (cid c) setting (defaulted_names c setting) false) /\
      (forall k x, alookup k setting = Some x -> ent_ok vr ev c sc mem k x) /\
      (forall k v, alookup k mem = Some v -> amem k setting = true).
  Proof.
    pose proof Hev as Hev'. unfold env_complete in Hev'. apply andb_true_iff in Hev'. destruct Hev' as [Hnow Hu4].
    destruct (vc_flags vr Hvr) as [Hpad _].
    destruct (caf_parts _ _ Hcaf) as (Hhead & Hacc & Hreq & Hcc).
    destruct (header_ok_parts _ _ Hhead) as [_ Hfam].
    destruct valid_parts as (V1 & V2 & V3).
    pose proof Hdefw as Hdefw'. rewrite forallb_forall in Hdefw'.
    pose proof Hinp as Hinp'. unfold input_complete in Hinp'. apply andb_true_iff in Hinp'. destruct Hinp' as [Hi Hng].
    apply andb_true_iff in Hi. destruct Hi as [_ Hne]. apply negb_true_iff in Hne, Hng.
    (* the loop *)
    destruct (assign_loop_complete vr ev w sp pok rc rp ro Hvr Hsr Hnow Hu4 c sc Hnames Hdefw' mem m Hmem Hrefs_in
                vrefs (map sname (cslots c)) []) as (setting & Hloop & Hent & _ & Hkeys & Hgiven).
    { apply unodup_NoDup. exact Hnames. }
    { intros n Hn. apply in_map_iff in Hn. destruct Hn as [s [E Hs]]. eauto. }
    { intros k Hk. discriminate. }
    { intros k x Hx. discriminate. }
    assert (Hin : forall k v, alookup k mem = Some v -> amem k setting = true).
    { intros k v Hv. eapply Hgiven; eauto. destruct (key_is_slot k) as [s [Hs Hn]].
      - apply amem_alookup. eauto.
      - rewrite <- Hn. apply in_map. exact Hs. }
    exists setting. split; [|split; [exact Hent|exact Hin]].
    unfold construct_generic.
    assert (Ecp : alookup (u "custom_properties") mem = None).
    { apply amem_false. apply not_reserved. reflexivity. }
    rewrite Ecp. rewrite (aremove_absent _ _ Ecp). cbn [bind].
    assert (Eext : alookup (u "extensions") mem = None) by (apply amem_false; exact Hne).
    rewrite Eext. cbn [bind]. cbv zeta.
    assert (Eextra : filter (fun k => negb (mem_ustr k (map sname (cslots c)))) (akeys mem) = []).
    { destruct (filter _ (akeys mem)) as [|k r] eqn:Ef; auto. exfalso.
      assert (Hk : In k (filter (fun k => negb (mem_ustr k (map sname (cslots c)))) (akeys mem))) by (rewrite Ef; left; auto).
      apply filter_In in Hk. destruct Hk as [Hk Hn]. apply negb_true_iff in Hn. apply mem_ustr_false in Hn. apply Hn.
      unfold akeys in Hk. destruct (key_is_slot k) as [s [Hs E]].
      - rewrite amem_keys. apply mem_ustr_In. exact Hk.
      - rewrite <- E. apply in_map. exact Hs. }
    rewrite Eextra. cbn [app akeys map filter udedup].
    replace (match cver c with V20 => false | V21 => negb (forallb re_prefix21 []) end) with false by (destruct (cver c); reflexivity).
    rewrite andb_false_r. rewrite usort_nil. cbn [app]. rewrite app_nil_r.
    replace (if vr_flag_from_stored vr then false else false) with false by (destruct (vr_flag_from_stored vr); reflexivity).
    rewrite Hloop. cbn [bind]. cbn [existsb]. rewrite andb_false_r. cbn [orb].
    (* required properties *)
    assert (Emiss : existsb (fun s => sreq s && negb (amem (sname s) setting)) (cslots c) = false).
    { apply not_true_is_false. intros E. apply existsb_exists in E. destruct E as [s [Hs E]].
      apply andb_true_iff in E. destruct E as [Er Ea]. apply negb_true_iff in Ea.
      destruct (Hreq s Hs Er) as [s' [Hf' Hr']]. destruct (find_slot_spec _ _ _ Hf') as [Hs' Hn'].
      destruct (V2 s' Hs' Hr') as [v Hv]. rewrite Hn' in Hv. rewrite (Hin _ _ Hv) in Ea. discriminate. }
    rewrite Emiss.
    (* granular markings: none given, none defaulted *)
    assert (Egran : alookup (u "granular_markings") setting = None).
    { destruct (alookup (u "granular_markings") setting) as [x|] eqn:E; auto. exfalso.
      pose proof (Hent _ _ E) as He. unfold ent_ok in He.
      assert (Eg : alookup (u "granular_markings") mem = None) by (apply amem_false; exact Hng).
      rewrite Eg in He. destruct He as [s [Hf [Hd _]]]. unfold nodefault in Hgran. rewrite Hf in Hgran.
      destruct (sdef s); try discriminate. contradiction. }
    replace (match (if existsb (fun k => match k with CSkipBaseCheck => true | _ => false end) (ccons c)
                    then None else alookup (u "granular_markings") setting) with
             | Some (PArr gms) => granular_check sok setting gms
             | Some _ => Unmodelled
             | None => Ok tt
             end) with (@Ok unit tt)
      by (rewrite Egran; destruct (existsb _ (ccons c)); reflexivity).
    cbn [bind].
    (* co-constraints *)
    assert (HT : Itime c setting).
    { eapply (assign_loop_time vr ev w rc rp ro Hpad c Hnames mem [] []); [|apply Itime_nil|exact Hloop].
      intros n x Hx. discriminate Hx. }
    assert (Hsub : forall s', In s' (cslots sc) -> exists s, find_slot c (sname s') = Some s).
    { intros s' Hs'. destruct (Hacc s' Hs') as [s [A _]]. eauto. }
    assert (Econs : constr_all (eval_constr vr pok (S m) c setting)
                               ((match cfamily c with FExt => [CAtLeastOneDefault] | _ => [] end) ++ ccons c) = Ok tt).
    { apply constr_all_ok. intros k Hk.
      pose proof Hcons as Hcons'. rewrite forallb_forall in Hcons'. pose proof (Hcons' k Hk) as Hok.
      assert (Hcomp : forall k0 v0, alookup k0 mem = Some v0 -> exists s0, find_slot c k0 = Some s0 /\ kind_complete2 (skind s0) = true).
      { intros k0 v0 Hv0. destruct (Hmem k0 v0 (alookup_In _ _ _ Hv0)) as (s0 & _ & A & _ & _ & B & _). eauto. }
      apply (constr_complete vr ev pok c sc mem setting Hfam Hsub Hent Hin HT Hcomp (S m) k Hok).
      apply in_app_or in Hk. destruct Hk as [Hk | Hk].
      - apply V3. apply in_or_app. left. rewrite <- Hfam. exact Hk.
      - destruct (Hcc k Hk) as [-> | Hk']; [reflexivity|]. apply V3. apply in_or_app. right. exact Hk'. }
    rewrite Econs. cbn [bind]. reflexivity.
  Qed.
End CompRun.

(* ---------- the class constructor ---------- *)
(* a stored property that was not given holds its default: the fixed value, the clock reading cleaned
   for the property's precision, "<prefix><uuid4>", the constant -- or, for the id of a 2.1 observable
   with contributing properties, the deterministic "<type>--<uuid5>" written over the default *)
Definition default_entry (vr : variant) (ev : env) (c : cls) (k : ustring) (x : pval) : Prop :=
  exists s, find_slot c k = Some s /\ sdef s <> DNone /\
            (stored_default vr ev s x \/
             (k = u "id" /\ exists t, ctype c = Some t /\ x = PJ (JStr (t ++ u "--" ++ e_uuid5 ev)))).

Theorem spec_complete_partial_defaults_gen :
  forall (vr : variant) (ev : env) (w sp : world) pok sok cid mem m,
    variant_complete vr = true -> env_complete ev = true -> spec_refines sp w = true ->
    valid_obj sp pok (S m) cid (JObj mem) = true -> NoDup (map fst mem) ->
    class_complete w sp cid = true ->
    (forall c sc, find_class (wclasses w) cid = Some c -> find_class (wclasses sp) cid = Some sc ->
                  input_complete c sc mem = true) ->
    exists c sc inner dfl,
      find_class (wclasses w) cid = Some c /\ find_class (wclasses sp) cid = Some sc /\
      run vr ev w pok sok (S m) (RConstruct cid false false mem None) = Ok (PObject cid inner dfl false) /\
      (* every given property is stored with the same value *)
      (forall k v, In (k, v) mem -> exists x s', alookup k inner = Some x /\ find_slot sc k = Some s' /\
                                                 jsame (skind s') v (encode true x)) /\
      (* whatever else is stored is a property of the class at its default value *)
      (forall k x, alookup k inner = Some x -> alookup k mem = None -> default_entry vr ev c k x).
Proof.
  intros vr ev w sp pok sok cid mem m Hvr Hev Hsr Hvalid Hnd Hcc Hinp0.
  unfold class_complete in Hcc.
  destruct (find_class (wclasses w) cid) as [c|] eqn:Hfc; try discriminate.
  destruct (find_class (wclasses sp) cid) as [sc|] eqn:Hfsp; try discriminate.
  pose proof (Hinp0 c sc eq_refl eq_refl) as Hinp.
  repeat (apply andb_true_iff in Hcc; let X := fresh "K" in destruct Hcc as [Hcc X]).
  rename Hcc into Kcaf.
  assert (Hcaf : class_accept_failures sc c = []) by (destruct (class_accept_failures sc c); [reflexivity|discriminate]).
  destruct (find_class_In _ _ _ Hfc) as [_ Hcid]. subst cid.
  exists c, sc.
  assert (Hres : forall k, mem_ustr k reserved_names = true -> amem k mem = false).
  { intros k Hr. eapply (not_reserved sp pok c sc mem m); eauto. }
  cbn [run]. rewrite Hfc.
  rewrite (Hres (u "_valid_refs") eq_refl), (Hres (u "allow_custom") eq_refl),
          (Hres (u "interoperability") eq_refl), (Hres (u "self") eq_refl). cbn [orb].
  set (vrefs := match cfamily c with FSco => Some [] | _ => None end).
  destruct (construct_generic_complete vr ev w sp pok sok Hvr Hsr Hev c sc mem m Hfsp Hcaf K5 K4 K2 K1 K0 Hvalid Hinp
              (fun k a i kw => run vr ev w pok sok m (RConstruct k a i kw None))
              (fun a i d => run vr ev w pok sok m (RParse a i None d))
              (fun vv refs a d => run vr ev w pok sok m (RParseObs (Some vv) refs a false d))
              vrefs) as (setting & Hgen & Hent & Hin).
  assert (Given : forall k v, In (k, v) mem -> forall inner,
             (forall k', ustr_eqb k' (u "id") = false \/ alookup (u "id") mem <> None -> alookup k' inner = alookup k' setting) ->
             exists x s', alookup k inner = Some x /\ find_slot sc k = Some s' /\ jsame (skind s') v (encode true x)).
  { intros k v Hkv inner Hsame.
    assert (Hv : alookup k mem = Some v) by (apply alookup_In_nodup; auto).
    pose proof (Hin k v Hv) as Ha. apply amem_alookup in Ha. destruct Ha as [x Hx].
    pose proof (Hent k x Hx) as He. unfold ent_ok in He. rewrite Hv in He.
    destruct He as (s & s' & _ & Hf' & _ & _ & Hs & _).
    exists x, s'. split; [|split; auto]. rewrite Hsame; auto.
    destruct (ustr_eqb k (u "id")) eqn:E; auto. right. apply ustr_eqb_eq in E. subst k. congruence. }
  assert (Extra : forall k x, alookup k setting = Some x -> alookup k mem = None -> default_entry vr ev c k x).
  { intros k x Hx Hn. pose proof (Hent k x Hx) as He. unfold ent_ok in He. rewrite Hn in He.
    destruct He as (s & Hf & Hd & Hsd). exists s. auto. }
  (* positional __init__ forms (repaired variant): no given value is None, so nothing is dropped *)
  assert (Epos : forall names, filter (fun kv => negb (mem_ustr (fst kv) names) ||
                                  (if vr_positional_none vr then negb (jvalue_eqb (snd kv) JNull) else truthy (snd kv))) mem = mem).
  { intros names. rewrite (vc_pos vr Hvr).
    assert (Hall : forall l : list (ustring * jvalue), (forall kv, In kv l -> snd kv <> JNull) ->
                     filter (fun kv => negb (mem_ustr (fst kv) names) || negb (jvalue_eqb (snd kv) JNull)) l = l).
    { induction l as [|kv l IHl]; intros Hl; [reflexivity|]. cbn [filter].
      assert (E : jvalue_eqb (snd kv) JNull = false).
      { destruct (snd kv) eqn:Es; try reflexivity. exfalso. apply (Hl kv); [left; auto|exact Es]. }
      rewrite E. rewrite orb_true_r. f_equal. apply IHl. intros kv' Hin2. apply Hl. right. exact Hin2. }
    apply Hall. intros [k v] Hkv. cbn [snd].
    destruct (Hmem sp pok c sc mem m Hfsp Hcaf Hvalid Hinp k v Hkv) as (s & s' & _ & _ & _ & _ & _ & Hval).
    destruct (valid_not_absent _ _ _ _ _ Hval) as [Nn _]. exact Nn. }
  (* the result, with or without the deterministic id *)
  destruct (cinit c) eqn:Ei; try discriminate K3.
  all: try rewrite Epos.
  all: fold vrefs; rewrite Hgen; cbn [bind].
  all: destruct (cfamily c) eqn:Efam; destruct (cver c) eqn:Ever;
    try (exists setting, (defaulted_names c setting); split; [reflexivity|split; [reflexivity|split; [reflexivity|split;
           [intros k v Hkv; apply (Given k v Hkv setting); auto | exact Extra]]]]).
  all: destruct (amem (u "id") mem) eqn:Eid;
    try (exists setting, (defaulted_names c setting); split; [reflexivity|split; [reflexivity|split; [reflexivity|split;
           [intros k v Hkv; apply (Given k v Hkv setting); auto | exact Extra]]]]).
  all: destruct (existsb (fun p => amem p setting) (cidcontrib c));
    try (exists setting, (defaulted_names c setting); split; [reflexivity|split; [reflexivity|split; [reflexivity|split;
           [intros k v Hkv; apply (Given k v Hkv setting); auto | exact Extra]]]]).
  all: destruct (ctype c) as [t|] eqn:Et; try discriminate K.
  all: destruct (find_slot c (u "id")) as [sid|] eqn:Esid; try discriminate K.
  all: eexists; eexists; split; [reflexivity|split; [reflexivity|split; [reflexivity|split]]].
  all: try (intros k v Hkv; apply (Given k v Hkv); intros k' [Hk' | Hk'];
            [rewrite alookup_aset_other by exact Hk'; reflexivity
            | exfalso; apply Hk'; apply amem_false; exact Eid]).
  all: intros k x Hx Hn; destruct (ustr_eqb k (u "id")) eqn:E;
    [apply ustr_eqb_eq in E; subst k; rewrite alookup_aset_same in Hx; injection Hx as <-;
     exists sid; split; auto; split; [destruct (sdef sid); try discriminate K; discriminate | right; split; auto; exists t; auto]
    | rewrite alookup_aset_other in Hx by exact E; eapply Extra; eauto].
Qed.

(* the earlier, weaker form of the last conjunct: what else is stored is a defaulted property *)
Theorem spec_complete_partial_gen :
  forall (vr : variant) (ev : env) (w sp : world) pok sok cid mem m,
    variant_complete vr = true -> env_complete ev = true -> spec_refines sp w = true ->
    valid_obj sp pok (S m) cid (JObj mem) = true -> NoDup (map fst mem) ->
    class_complete w sp cid = true ->
    (forall c sc, find_class (wclasses w) cid = Some c -> find_class (wclasses sp) cid = Some sc ->
                  input_complete c sc mem = true) ->
    exists c sc inner dfl,
      find_class (wclasses w) cid = Some c /\ find_class (wclasses sp) cid = Some sc /\
      run vr ev w pok sok (S m) (RConstruct cid false false mem None) = Ok (PObject cid inner dfl false) /\
      (forall k v, In (k, v) mem -> exists x s', alookup k inner = Some x /\ find_slot sc k = Some s' /\
                                                 jsame (skind s') v (encode true x)) /\
      (forall k x, alookup k inner = Some x -> alookup k mem = None ->
                   exists s, find_slot c k = Some s /\ sdef s <> DNone).
Proof.
  intros vr ev w sp pok sok cid mem m Hvr Hev Hsr Hvalid Hnd Hcc Hinp0.
  destruct (spec_complete_partial_defaults_gen vr ev w sp pok sok cid mem m Hvr Hev Hsr Hvalid Hnd Hcc Hinp0)
    as (c & sc & inner & dfl & A & B & C & D & E).
  exists c, sc, inner, dfl. split; auto. split; auto. split; auto. split; auto.
  intros k x Hx Hn. destruct (E k x Hx Hn) as (s & Hf & Hd & _). eauto.
Qed.

(* Proofs/StrptimeFacts.v -- the strptime model reads back exactly what
   `format` writes (the read half of write-read-write).                      *)
From Coq Require Import ZArith NArith List Bool Lia.
From V Require Import Base.UString Model.Calendar Model.Timestamp Spec.TimestampSpec
  Proofs.CalendarFacts Proofs.TimestampFacts.
Import ListNotations.
Open Scope Z_scope.

Ltac Zify.zify_post_hook ::= Z.to_euclidean_division_equations.

Section Regex.
  Variable A : Type.

  (* the rest of the pattern cannot start by consuming an ASCII digit *)
  Definition rejects_digit (k : Z -> ustring -> option A) : Prop :=
    forall v c r, is_adigit c = true -> k v (c :: r) = None.

  Lemma lit_cons : forall c c' k r, lit A c c' k (c :: r) = k r.
  Proof. intros. cbn [lit]. now rewrite N.eqb_refl. Qed.

  Lemma lit_rejects : forall c c' (k : Z -> ustring -> option A),
    is_adigit c = false -> is_adigit c' = false -> rejects_digit (fun v => lit A c c' (k v)).
  Proof.
    intros c c' k H H' v x r Hx. cbn [lit].
    destruct (N.eqb_spec x c) as [->|_]; [congruence|].
    destruct (N.eqb_spec x c') as [->|_]; [congruence|]. reflexivity.
  Qed.

  Lemma re_Y_text : forall k a b c d s, isdigit a -> isdigit b -> isdigit c -> isdigit d ->
    re_Y A k (dchar a :: dchar b :: dchar c :: dchar d :: s) = k (((a * 10 + b) * 10 + c) * 10 + d) s.
  Proof. intros. unfold re_Y, one. now rewrite !udigit_dchar by assumption. Qed.

  Lemma re_m_text : forall k a b s, isdigit a -> isdigit b -> 1 <= a * 10 + b <= 12 -> rejects_digit k ->
    re_m A k (dchar a :: dchar b :: s) = k (a * 10 + b) s.
  Proof.
    intros k a b s Ha Hb R Hk.
    dcases a Ha; dcases b Hb; try lia; cbv; rewrite ?Hk by reflexivity;
      match goal with |- context [k ?v s] => destruct (k v s); reflexivity end.
  Qed.

  Lemma re_d_text : forall k a b s, isdigit a -> isdigit b -> 1 <= a * 10 + b <= 31 -> rejects_digit k ->
    re_d A k (dchar a :: dchar b :: s) = k (a * 10 + b) s.
  Proof.
    intros k a b s Ha Hb R Hk.
    dcases a Ha; dcases b Hb; try lia; cbv; rewrite ?Hk by reflexivity;
      match goal with |- context [k ?v s] => destruct (k v s); reflexivity end.
  Qed.

  Lemma re_H_text : forall k a b s, isdigit a -> isdigit b -> 0 <= a * 10 + b <= 23 -> rejects_digit k ->
    re_H A k (dchar a :: dchar b :: s) = k (a * 10 + b) s.
  Proof.
    intros k a b s Ha Hb R Hk.
    dcases a Ha; dcases b Hb; try lia; cbv; rewrite ?Hk by reflexivity;
      match goal with |- context [k ?v s] => destruct (k v s); reflexivity end.
  Qed.

  Lemma re_M_text : forall k a b s, isdigit a -> isdigit b -> 0 <= a * 10 + b <= 59 -> rejects_digit k ->
    re_M A k (dchar a :: dchar b :: s) = k (a * 10 + b) s.
  Proof.
    intros k a b s Ha Hb R Hk.
    dcases a Ha; dcases b Hb; try lia; cbv; rewrite ?Hk by reflexivity;
      match goal with |- context [k ?v s] => destruct (k v s); reflexivity end.
  Qed.

  Lemma re_S_text : forall k a b s, isdigit a -> isdigit b -> 0 <= a * 10 + b <= 59 -> rejects_digit k ->
    re_S A k (dchar a :: dchar b :: s) = k (a * 10 + b) s.
  Proof.
    intros k a b s Ha Hb R Hk.
    dcases a Ha; dcases b Hb; try lia; cbv; rewrite ?Hk by reflexivity;
      match goal with |- context [k ?v s] => destruct (k v s); reflexivity end.
  Qed.

  (* ---- %f ---- *)
  Lemma take_adigits_all : forall ds rest acc, Forall isdigit ds ->
    take_adigits (length ds) (text_of ds ++ rest) acc = Some (digits_value ds acc, rest).
  Proof.
    induction ds as [|d r IH]; intros rest acc F; cbn [length take_adigits text_of map app digits_value]; [reflexivity|].
    inversion F; subst. rewrite is_adigit_dchar, adigit_val_dchar by assumption. now apply IH.
  Qed.

  Lemma take_adigits_short : forall ds n c r acc, Forall isdigit ds -> (length ds < n)%nat -> is_adigit c = false ->
    take_adigits n (text_of ds ++ c :: r) acc = None.
  Proof.
    induction ds as [|d tl IH]; intros n c r acc F L Hc; destruct n; cbn [length] in L; try lia;
      cbn [take_adigits text_of map app].
    - now rewrite Hc.
    - inversion F; subst. rewrite is_adigit_dchar by assumption. apply IH; [assumption|lia|assumption].
  Qed.

  Lemma re_f_short : forall k m ds rest, rejects_digit k -> Forall isdigit ds -> (m < length ds)%nat ->
    re_f A m k (text_of ds ++ rest) = None.
  Proof.
    intros k m ds rest Hk. revert ds. induction m as [|m IH]; intros ds F L; [reflexivity|].
    cbn [re_f].
    assert (E : ds = firstn (S m) ds ++ skipn (S m) ds) by (symmetry; apply firstn_skipn).
    assert (L1 : length (firstn (S m) ds) = S m) by (rewrite firstn_length; lia).
    destruct (skipn (S m) ds) as [|d tl] eqn:Sk.
    { apply (f_equal (@length Z)) in E. rewrite app_length, L1 in E. cbn in E. lia. }
    assert (F' : Forall isdigit (firstn (S m) ds ++ d :: tl)) by (rewrite <- E; exact F).
    apply Forall_app in F' as [F1 F2]. inversion F2; subst.
    rewrite E at 1. unfold text_of at 1. rewrite map_app. fold (text_of (firstn (S m) ds)). rewrite <- app_assoc.
    rewrite <- L1 at 1. rewrite take_adigits_all by assumption.
    cbn [map app]. rewrite Hk by (now apply is_adigit_dchar).
    apply IH; [exact F|lia].
  Qed.

  Lemma re_f_text : forall k n ds c r, rejects_digit k -> Forall isdigit ds -> is_adigit c = false ->
    (1 <= length ds <= n)%nat -> (n <= 6)%nat ->
    re_f A n k (text_of ds ++ c :: r) = k (digits_value ds 0 * 10 ^ Z.of_nat (6 - length ds)) (c :: r).
  Proof.
    intros k n ds c r Hk F Hc. induction n as [|n IH]; intros L L6; [lia|].
    cbn [re_f]. destruct (Nat.eq_dec (length ds) (S n)) as [E|N].
    - rewrite <- E at 1. rewrite take_adigits_all by assumption. rewrite <- E.
      destruct (k (digits_value ds 0 * 10 ^ Z.of_nat (6 - length ds)) (c :: r)) eqn:K; [reflexivity|].
      apply re_f_short; [assumption|assumption|lia].
    - rewrite take_adigits_short by (try assumption; lia). apply IH; lia.
  Qed.
End Regex.

Lemma dchar_not_dot : forall d, isdigit d -> (dchar d =? 46)%N = false.
Proof. intros d H. dcases d H; reflexivity. Qed.

Definition is_nil {X} (l : list X) : bool := match l with [] => true | _ => false end.

Lemma regex_match_canonical : forall y1 y2 y3 y4 m1 m2 d1 d2 h1 h2 i1 i2 s1 s2 frac,
  isdigit y1 -> isdigit y2 -> isdigit y3 -> isdigit y4 -> isdigit m1 -> isdigit m2 -> isdigit d1 -> isdigit d2 ->
  isdigit h1 -> isdigit h2 -> isdigit i1 -> isdigit i2 -> isdigit s1 -> isdigit s2 ->
  1 <= m1 * 10 + m2 <= 12 -> 1 <= d1 * 10 + d2 <= 31 -> 0 <= h1 * 10 + h2 <= 23 ->
  0 <= i1 * 10 + i2 <= 59 -> 0 <= s1 * 10 + s2 <= 59 ->
  Forall isdigit frac -> (length frac <= 6)%nat ->
  regex_match (negb (is_nil frac))
    (dchar y1 :: dchar y2 :: dchar y3 :: dchar y4 :: 45%N :: dchar m1 :: dchar m2 :: 45%N :: dchar d1 :: dchar d2 :: 84%N ::
     dchar h1 :: dchar h2 :: 58%N :: dchar i1 :: dchar i2 :: 58%N :: dchar s1 :: dchar s2 ::
     (match frac with [] => [] | _ => 46%N :: text_of frac end) ++ [90%N])
  = Some (((y1 * 10 + y2) * 10 + y3) * 10 + y4, m1 * 10 + m2, d1 * 10 + d2, h1 * 10 + h2, i1 * 10 + i2, s1 * 10 + s2,
          (match frac with [] => 0 | _ => digits_value frac 0 * 10 ^ Z.of_nat (6 - length frac) end), []).
Proof.
  intros. unfold regex_match.
  rewrite re_Y_text by assumption. rewrite lit_cons.
  rewrite re_m_text by (try assumption; apply lit_rejects; reflexivity). rewrite lit_cons.
  rewrite re_d_text by (try assumption; apply lit_rejects; reflexivity). rewrite lit_cons.
  rewrite re_H_text by (try assumption; apply lit_rejects; reflexivity). rewrite lit_cons.
  rewrite re_M_text by (try assumption; apply lit_rejects; reflexivity). rewrite lit_cons.
  destruct frac as [|f fr]; cbn [is_nil negb app].
  - rewrite re_S_text by (try assumption; apply lit_rejects; reflexivity).
    rewrite lit_cons. reflexivity.
  - rewrite re_S_text by (try assumption; apply lit_rejects; reflexivity).
    rewrite lit_cons.
    change (text_of (f :: fr) ++ [90%N]) with (text_of (f :: fr) ++ 90%N :: []).
    rewrite re_f_text; try assumption; try reflexivity.
    + refine (lit_rejects _ 90%N 122%N (fun us r => Some (_, _, _, _, _, _, us, r)) eq_refl eq_refl).
    + cbn [length] in *. lia.
Qed.

(* Proofs/C01Object.v -- the constructor is idempotent on its own output:
     construct_generic c allow interop kwargs = Ok o  ->
     construct_generic c allow interop (members of encode false o) = Ok o
   for classes whose table passes class_ok (kernel-evaluated on the generated tables) and plain
   JSON input.  One step of the property loop at a time: the value a step stores is the value
   the same step stores again when it is handed that value's encoding (clean_encode_idem), or
   nothing when the encoder dropped it as a defaulted optional.                       *)
From Coq Require Import NArith ZArith List String Bool Lia.
From V Require Import Base.UString Base.Json Model.SchemaTypes Model.PyBase Model.Schema.
From V Require Import Proofs.C01Basics Proofs.C01Kinds Proofs.C01Float Proofs.C01KindsAll.
Import ListNotations.

(* ------------------------------------------------------------------ association lists, continued *)
Lemma alookup_aset_same : forall (A : Type) n (v : A) s, alookup n (aset n v s) = Some v.
Proof.
  induction s as [| [k x] r IH]; cbn [aset alookup].
  - rewrite ustr_eqb_refl. reflexivity.
  - destruct (ustr_eqb n k) eqn:E; cbn [alookup]; rewrite ?E; auto. rewrite ustr_eqb_refl. reflexivity.
Qed.

Lemma alookup_aset_other : forall (A : Type) m n (v : A) s, m <> n -> alookup m (aset n v s) = alookup m s.
Proof.
  induction s as [| [k x] r IH]; intros Hne; cbn [aset alookup].
  - destruct (ustr_eqb m n) eqn:E; auto. apply ustr_eqb_eq in E. contradiction.
  - destruct (ustr_eqb n k) eqn:E; cbn [alookup].
    + apply ustr_eqb_eq in E. subst k. destruct (ustr_eqb m n) eqn:E2; auto. apply ustr_eqb_eq in E2. contradiction.
    + destruct (ustr_eqb m k); auto.
Qed.

Lemma aset_aset : forall (A : Type) n (v x : A) s, aset n v (aset n x s) = aset n v s.
Proof.
  induction s as [| [k y] r IH]; cbn [aset].
  - rewrite ustr_eqb_refl. reflexivity.
  - destruct (ustr_eqb n k) eqn:E; cbn [aset]; rewrite ?E; auto. rewrite ustr_eqb_refl. reflexivity. f_equal. exact IH.
Qed.

Lemma amem_alookup_none : forall (A : Type) n (s : list (ustring * A)), amem n s = false <-> alookup n s = None.
Proof. unfold amem. intros. destruct (alookup n s); split; intros; auto; discriminate. Qed.

Lemma aremove_absent : forall (A : Type) n (s : list (ustring * A)), amem n s = false -> aremove n s = s.
Proof.
  unfold amem. induction s as [| [k x] r IH]; cbn [aremove alookup]; intros H; auto.
  destruct (ustr_eqb n k); try discriminate. f_equal. apply IH. exact H.
Qed.

Lemma alookup_enc_members : forall incl n m,
  alookup n (enc_members incl m) = option_map (encode incl) (alookup n m).
Proof.
  unfold enc_members. induction m as [| [k x] r IH]; cbn [map alookup fst snd option_map]; auto.
  destruct (ustr_eqb n k); auto.
Qed.

Lemma alookup_filter_key : forall (A : Type) (f : ustring -> bool) n (m : list (ustring * A)),
  alookup n (filter (fun kv => f (fst kv)) m) = if f n then alookup n m else None.
Proof.
  induction m as [| [k x] r IH]; cbn [filter alookup fst].
  - destruct (f n); reflexivity.
  - destruct (f k) eqn:Fk; cbn [alookup].
    + destruct (ustr_eqb n k) eqn:E; auto. apply ustr_eqb_eq in E. subst. rewrite Fk. reflexivity.
    + destruct (ustr_eqb n k) eqn:E; auto. apply ustr_eqb_eq in E. subst. rewrite IH. rewrite Fk. reflexivity.
Qed.

(* ------------------------------------------------------------------ table conditions *)
Definition reserved_names : list ustring :=
  map u ["custom_properties"; "allow_custom"; "interoperability"; "self"; "_valid_refs"]%string.

Section Obj.
  Variable vr : variant.
  Variable ev : env.
  Variable w : world.
  Variable pattern_ok : ver -> ustring -> bool.
  Variable selectors_ok : list (ustring * pval) -> pval -> result bool.
  Variable rc : ustring -> bool -> bool -> list (ustring * jvalue) -> result pval.
  Variable rp : bool -> bool -> list (ustring * jvalue) -> result pval.
  Variable ro : ver -> list (ustring * ustring) -> bool -> list (ustring * jvalue) -> result pval.

  Hypothesis Hpad : vr_year_pad vr = true.
  Hypothesis Hrc : rc_idem rc.

  Notation CK := (clean_kind vr w rc rp ro).
  Notation CP := (check_property vr ev w rc rp ro).

  Definition slot_ok (s : slot) : bool :=
    (kind_proved vr (skind s) || ustr_eqb (sname s) ext_key) &&
    match sdef s with
    | DNone => true
    | DFixed => match skind s with KFixed _ _ => true | _ => false end
    | DNow => match skind s with KTime _ _ => true | _ => false end
    | DUuid4 => match skind s with KId _ _ => true | _ => false end
    | DConst j => match skind s, j with KBool, JBool _ => true | _, _ => false end
    end &&
    negb (mem_ustr (sname s) reserved_names) &&
    (negb (ustr_eqb (sname s) ext_key) || match sdef s with DNone => true | _ => false end).

  Variable c : cls.
  Variable allow interop : bool.
  Variable vrefs : option (list (ustring * ustring)).

  Hypothesis Hnodup : NoDup (map sname (cslots c)).
  Hypothesis Hslots : forallb slot_ok (cslots c) = true.

  Lemma slot_of_In : forall n s, slot_of c n = Some s -> In s (cslots c) /\ sname s = n.
  Proof.
    intros n s H. unfold slot_of in H. apply find_some in H. destruct H as [H1 H2]. apply ustr_eqb_eq in H2. auto.
  Qed.

  Lemma slot_of_ok : forall n s, slot_of c n = Some s -> slot_ok s = true.
  Proof.
    intros n s H. destruct (slot_of_In n s H) as [Hin _]. rewrite forallb_forall in Hslots. apply Hslots. exact Hin.
  Qed.

  (* one step of the property loop *)
  Definition step (K : list (ustring * jvalue)) (n : ustring) (s : list (ustring * pval)) (hc : bool)
    : result (list (ustring * pval) * bool) :=
    let s1 := assign_raw K [] [] n s in
    match slot_of c n with
    | Some sl => do r <- CP c sl allow interop vrefs s1; Ok (fst r, hc || snd r)
    | None => Ok (s1, hc)
    end.

  Notation LOOP := (assign_loop vr ev w rc rp ro c allow interop vrefs).

  Lemma loop_cons : forall K n rest s hc,
    LOOP K [] [] (n :: rest) s hc = do r <- step K n s hc; LOOP K [] [] rest (fst r) (snd r).
  Proof.
    intros. cbn [assign_loop]. unfold step. destruct (slot_of c n); cbn [bind fst snd]; auto.
    unfold bind. destruct (CP c s0 allow interop vrefs (assign_raw K [] [] n s)) as [[a b] | |]; reflexivity.
  Qed.

  (* the raw value a name is given: keyword arguments only (no custom_properties, nothing pre-wrapped) *)
  Lemma assign_raw_spec : forall K n s,
    assign_raw K [] [] n s =
    match alookup n K with
    | Some j => if nullish j then s else aset n (PJ j) s
    | None => s
    end.
  Proof.
    intros. unfold assign_raw. cbn [alookup]. destruct (alookup n K) as [j |]; auto.
    destruct j; auto. destruct l; auto.
  Qed.

  (* what check_property stores for a slot, by cases *)
  Lemma cp_given : forall sl j s v h,
    CK (skind sl) allow interop j = Ok (v, h) ->
    refs_ok c sl vrefs v = Ok tt ->
    CP c sl allow interop vrefs (aset (sname sl) (PJ j) s) = Ok (aset (sname sl) v s, h).
  Proof.
    intros sl j s v h Hc Hr. unfold check_property, default_value, bind.
    rewrite alookup_aset_same. cbn [fst snd]. unfold clean_present. rewrite alookup_aset_same.
    rewrite Hc. unfold bind. rewrite Hr. rewrite aset_aset. reflexivity.
  Qed.

  (* frame: a step only touches its own name *)
  Lemma step_frame : forall K n s hc s' hc' m, step K n s hc = Ok (s', hc') -> m <> n -> alookup m s' = alookup m s.
  Proof.
    intros K n s hc s' hc' m H Hne. unfold step in H. rewrite assign_raw_spec in H.
    assert (A : forall x, alookup m (aset n x s) = alookup m s) by (intros; apply alookup_aset_other; auto).
    set (s1 := match alookup n K with Some j => if nullish j then s else aset n (PJ j) s | None => s end) in *.
    assert (A1 : alookup m s1 = alookup m s). { unfold s1. destruct (alookup n K) as [j |]; auto. destruct (nullish j); auto. }
    destruct (slot_of c n) as [sl |] eqn:Es.
    - destruct (slot_of_In n sl Es) as [_ En]. subst n.
      unfold bind in H. destruct (CP c sl allow interop vrefs s1) as [[a b] | |] eqn:Ec; try discriminate. inv_ok H.
      cbn [fst]. rewrite <- A1. clear A1.
      unfold check_property, bind in Ec.
      destruct (default_value vr ev sl s1) as [[s2 isnow] | |] eqn:Ed; try discriminate. cbn [fst snd] in Ec.
      assert (A2 : alookup m s2 = alookup m s1).
      { unfold default_value in Ed. destruct (alookup (sname sl) s1); [inv_ok Ed; auto |].
        destruct (sdef sl); try (inv_ok Ed; auto; fail).
        - destruct (skind sl); try discriminate. inv_ok Ed. apply alookup_aset_other. auto.
        - destruct (skind sl); try discriminate. unfold bind in Ed.
          destruct (ts_clean_now (vr_year_pad vr) p c0 (e_now ev)); try discriminate. inv_ok Ed. apply alookup_aset_other. auto.
        - destruct (skind sl); try discriminate. inv_ok Ed. apply alookup_aset_other. auto.
        - inv_ok Ed. apply alookup_aset_other. auto. }
      rewrite <- A2. unfold clean_present in Ec.
      destruct (alookup (sname sl) s2) as [raw |]; [| inv_ok Ec; auto].
      destruct isnow; [inv_ok Ec; auto |].
      destruct raw.
      + destruct (CK (skind sl) allow interop j) as [[v h] | |]; try discriminate.
        unfold bind in Ec. destruct (refs_ok c sl vrefs v); try discriminate. inv_ok Ec. apply alookup_aset_other. auto.
      + destruct (vr_marking_flag vr); [destruct (negb allow && pval_has_custom (PTime us text)); try discriminate |]; inv_ok Ec; auto.
      + destruct (vr_marking_flag vr); [destruct (negb allow && pval_has_custom (PArr l)); try discriminate |]; inv_ok Ec; auto.
      + destruct (vr_marking_flag vr); [destruct (negb allow && pval_has_custom (PMap m0)); try discriminate |]; inv_ok Ec; auto.
      + destruct (vr_marking_flag vr); [destruct (negb allow && pval_has_custom (PObject cid inner defaulted hc0)); try discriminate |]; inv_ok Ec; auto.
    - inv_ok H. exact A1.
  Qed.

  Lemma cp_given_inv : forall sl j s s' h,
    CP c sl allow interop vrefs (aset (sname sl) (PJ j) s) = Ok (s', h) ->
    exists v, CK (skind sl) allow interop j = Ok (v, h) /\ refs_ok c sl vrefs v = Ok tt /\ s' = aset (sname sl) v s.
  Proof.
    intros sl j s s' h H. unfold check_property, default_value, bind in H.
    rewrite alookup_aset_same in H. cbn [fst snd] in H. unfold clean_present in H. rewrite alookup_aset_same in H.
    destruct (CK (skind sl) allow interop j) as [[v h0] | |] eqn:Ec; try discriminate.
    unfold bind in H. destruct (refs_ok c sl vrefs v) as [[] | |] eqn:Er; try discriminate.
    inv_ok H. exists v. rewrite aset_aset. auto.
  Qed.

  Lemma refs_ok_nonref : forall sl v,
    (match skind sl with KObjRef _ => false | KList (KObjRef _) => false | _ => true end) = true ->
    refs_ok c sl vrefs v = Ok tt.
  Proof.
    intros sl v H. unfold refs_ok. destruct (cfamily c); auto. destruct (cver c); auto. destruct vrefs; auto.
    destruct (skind sl); auto; try discriminate. destruct p; auto; discriminate.
  Qed.

  Lemma clean_bool_flag : forall j v h, clean_bool j = Ok (v, h) -> h = false.
  Proof. intros j v h H. unfold clean_bool in H. walk H; inv_ok H; reflexivity. Qed.

  (* a step re-run on the encoding of what it stored (or on nothing, when that was dropped as a
     defaulted optional) stores the same *)
  Lemma step_agree : forall K K' n s hc s' hc' (D : bool),
    amem n s = false ->
    step K n s hc = Ok (s', hc') ->
    (forall j, alookup n K = Some j -> nullish j = false /\ plain_json j = true /\ n <> ext_key) ->
    (D = true -> exists sl b, slot_of c n = Some sl /\ sdef sl = DConst (JBool b) /\ alookup n s' = Some (PJ (JBool b))) ->
    alookup n K' = match alookup n s' with
                   | Some v => if D then None else Some (encode false v)
                   | None => None
                   end ->
    step K' n s hc = Ok (s', hc').
  Proof.
    intros K K' n s hc s' hc' D Hfresh H HK HD HK'.
    apply amem_alookup_none in Hfresh.
    unfold step in *. rewrite assign_raw_spec in *.
    destruct (slot_of c n) as [sl |] eqn:Es.
    2:{ (* a custom / extension property: stored raw *)
      assert (D = false). { destruct D; auto. destruct (HD eq_refl) as [sl [b [E _]]]. discriminate. }
      subst D. inv_ok H.
      destruct (alookup n K) as [j |] eqn:Ek.
      - destruct (HK j eq_refl) as [Hn _]. rewrite Hn in *. rewrite alookup_aset_same in HK'. cbn [encode] in HK'.
        rewrite HK', Hn. reflexivity.
      - rewrite Hfresh in HK'. rewrite HK'. reflexivity. }
    destruct (slot_of_In n sl Es) as [_ En]. subst n.
    pose proof (slot_of_ok _ _ Es) as Hok. unfold slot_ok in Hok.
    apply andb_true_iff in Hok. destruct Hok as [Hok Hext]. apply andb_true_iff in Hok. destruct Hok as [Hok Hres].
    apply andb_true_iff in Hok. destruct Hok as [Hkind Hdef].
    unfold bind in H.
    destruct (alookup (sname sl) K) as [j |] eqn:Ek.
    - (* a value was given *)
      destruct (HK j eq_refl) as [Hn [Hp Hne]]. rewrite Hn in H.
      assert (Hkp : kind_proved vr (skind sl) = true).
      { apply orb_true_iff in Hkind. destruct Hkind as [Hk | Hk]; auto. apply ustr_eqb_eq in Hk. contradiction. }
      destruct (CP c sl allow interop vrefs (aset (sname sl) (PJ j) s)) as [[a b] | |] eqn:Ec; try discriminate.
      inv_ok H. cbn [fst snd] in *.
      destruct (cp_given_inv _ _ _ _ _ Ec) as [v [Hv [Hr Ha]]]. subst s'.
      rewrite alookup_aset_same in HK'.
      destruct D.
      + destruct (HD eq_refl) as [sl' [bb [E1 [E2 E3]]]]. try try rewrite Es in E1; inv E1.
        rewrite alookup_aset_same in E3. inv E3.
        rewrite HK'. unfold check_property, default_value, bind. rewrite Hfresh. rewrite E2.
        cbn [fst snd]. unfold clean_present. rewrite alookup_aset_same.
        rewrite E2 in Hdef. destruct (skind sl') eqn:Eknd; try discriminate.
        cbn [clean_kind] in Hv. pose proof (clean_bool_flag _ _ _ Hv) as Hb. subst b.
        cbn [clean_kind clean_bool]. unfold bind. rewrite Hr. rewrite aset_aset. reflexivity.
      + rewrite HK'.
        rewrite (clean_kind_not_nullish vr w rc rp ro Hrc (skind sl) allow interop j v b Hkp Hp Hn Hv).
        rewrite (cp_given sl (encode false v) s v b); auto.
        eapply (clean_kind_idem vr w rc rp ro Hpad Hrc); eauto.
    - (* nothing was given *)
      destruct (CP c sl allow interop vrefs s) as [[a b] | |] eqn:Ec; try discriminate.
      inv_ok H. cbn [fst snd] in *.
      unfold check_property, default_value, bind in Ec. rewrite Hfresh in Ec.
      destruct (sdef sl) eqn:Ed.
      + (* no default *)
        cbn [fst snd] in Ec. unfold clean_present in Ec. rewrite Hfresh in Ec. inv_ok Ec.
        rewrite Hfresh in HK'. rewrite HK'. unfold check_property, default_value, bind. rewrite Hfresh, Ed.
        cbn [fst snd]. unfold clean_present. rewrite Hfresh. reflexivity.
      + (* fixed *)
        destruct (skind sl) eqn:Eknd; try discriminate. cbn [fst snd] in Ec.
        unfold clean_present in Ec. rewrite alookup_aset_same in Ec. rewrite Eknd in Ec. cbn [clean_kind] in Ec.
        rewrite jvalue_eqb_refl in Ec. unfold bind in Ec.
        destruct (refs_ok c sl vrefs (PJ (JStr v))) as [[] | |] eqn:Er; try discriminate. inv_ok Ec.
        rewrite aset_aset in *. rewrite alookup_aset_same in HK'.
        assert (D = false). { destruct D; auto. destruct (HD eq_refl) as [sl' [bb [E1 [E2 _]]]]. try rewrite Es in E1; inv E1. congruence. }
        subst D. cbn [encode] in HK'. rewrite HK'. cbn [nullish].
        rewrite (cp_given sl (JStr v) s (PJ (JStr v)) false);
          [reflexivity | rewrite Eknd; cbn [clean_kind]; rewrite jvalue_eqb_refl; reflexivity | exact Er].
      + (* the clock *)
        destruct (skind sl) eqn:Eknd; try discriminate. unfold bind in Ec.
        destruct (ts_clean_now (vr_year_pad vr) p c0 (e_now ev)) as [[us txt] | |] eqn:Et; try discriminate.
        cbn [fst snd] in Ec. unfold clean_present in Ec. rewrite alookup_aset_same in Ec. inv_ok Ec.
        rewrite alookup_aset_same in HK'.
        assert (D = false). { destruct D; auto. destruct (HD eq_refl) as [sl' [bb [E1 [E2 _]]]]. try rewrite Es in E1; inv E1. congruence. }
        subst D. cbn [encode] in HK'. rewrite HK'. cbn [nullish].
        rewrite Hpad in Et.
        rewrite (cp_given sl (JStr txt) s (PTime us txt) false).
        * reflexivity.
        * rewrite Eknd. cbn [clean_kind]. unfold bind. rewrite Hpad. rewrite (ts_clean_now_idem _ _ _ _ _ Et). reflexivity.
        * apply refs_ok_nonref. rewrite Eknd. reflexivity.
      + (* a fresh identifier *)
        destruct (skind sl) eqn:Eknd; try discriminate. cbn [fst snd] in Ec.
        unfold clean_present in Ec. rewrite alookup_aset_same in Ec. rewrite Eknd in Ec.
        destruct (CK (KId prefix v) allow interop (JStr (prefix ++ e_uuid4 ev))) as [[v0 h0] | |] eqn:Eid; try discriminate.
        unfold bind in Ec. destruct (refs_ok c sl vrefs v0) as [[] | |] eqn:Er; try discriminate. inv_ok Ec.
        rewrite aset_aset in *. rewrite alookup_aset_same in HK'.
        assert (D = false). { destruct D; auto. destruct (HD eq_refl) as [sl' [bb [E1 [E2 _]]]]. try rewrite Es in E1; inv E1. congruence. }
        subst D.
        assert (Ev0 : v0 = PJ (JStr (prefix ++ e_uuid4 ev))).
        { cbn [clean_kind] in Eid. unfold bind in Eid. destruct (validate_id vr (prefix ++ e_uuid4 ev) v (Some prefix) interop); try discriminate. inv_ok Eid. reflexivity. }
        subst v0. cbn [encode] in HK'. rewrite HK'. cbn [nullish].
        rewrite (cp_given sl (JStr (prefix ++ e_uuid4 ev)) s (PJ (JStr (prefix ++ e_uuid4 ev))) h0);
          [reflexivity | rewrite Eknd; exact Eid | exact Er].
      + (* a constant default *)
        destruct (skind sl) eqn:Eknd; try discriminate. destruct j; try discriminate. cbn [fst snd] in Ec.
        unfold clean_present in Ec. rewrite alookup_aset_same in Ec. rewrite Eknd in Ec. cbn [clean_kind clean_bool] in Ec.
        unfold bind in Ec. destruct (refs_ok c sl vrefs (PJ (JBool b0))) as [[] | |] eqn:Er; try discriminate. inv_ok Ec.
        rewrite aset_aset in *. rewrite alookup_aset_same in HK'.
        destruct D.
        * rewrite HK'. unfold check_property, default_value, bind. rewrite Hfresh, Ed. cbn [fst snd].
          unfold clean_present. rewrite alookup_aset_same. rewrite Eknd. cbn [clean_kind clean_bool]. unfold bind.
          rewrite Er. rewrite aset_aset. reflexivity.
        * cbn [encode] in HK'. rewrite HK'. cbn [nullish].
          rewrite (cp_given sl (JBool b0) s (PJ (JBool b0)) false);
            [reflexivity | rewrite Eknd; reflexivity | exact Er].
  Qed.
End Obj.

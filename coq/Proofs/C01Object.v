(* Proofs/C01Object.v -- the constructor is idempotent on its own output:
     construct_generic c allow interop kwargs = Ok o  ->
     construct_generic c allow interop (members of encode false o) = Ok o
   for classes whose table passes class_ok (kernel-evaluated on the generated tables) and plain
   JSON input.  One step of the property loop at a time: the value a step stores is the value
   the same step stores again when it is handed that value's encoding (clean_encode_idem), or
   nothing when the encoder dropped it as a defaulted optional.                       *)
From Coq Require Import NArith ZArith List String Bool Lia Permutation.
From V Require Import Base.UString Base.Json Model.SchemaTypes Model.PyBase Model.Schema.
From V Require Import Proofs.C01Basics Proofs.C01Kinds Proofs.C01Float Proofs.C01KindsAll Proofs.C01Sort.
Import ListNotations.

(* ------------------------------------------------------------------ association lists, continued *)
Lemma alookup_aset_same : forall (A : Type) n (v : A) s, alookup n (aset n v s) = Some v.
Proof.
  induction s as [| [k x] r IH]; cbn [aset alookup].
  - rewrite ustr_eqb_refl. reflexivity.
  - destruct (ustr_eqb n k) eqn:E; cbn [alookup]; rewrite ?E; auto. rewrite ustr_eqb_refl. reflexivity.
Qed.

Lemma alookup_aset_other : forall (A : Type) m n (v : A) s, m <> n -> alookup m (aset n v s) = alookup m s.
Proof.
  induction s as [| [k x] r IH]; intros Hne; cbn [aset alookup].
  - destruct (ustr_eqb m n) eqn:E; auto. apply ustr_eqb_eq in E. contradiction.
  - destruct (ustr_eqb n k) eqn:E; cbn [alookup].
    + apply ustr_eqb_eq in E. subst k. destruct (ustr_eqb m n) eqn:E2; auto. apply ustr_eqb_eq in E2. contradiction.
    + destruct (ustr_eqb m k); auto.
Qed.

Lemma aset_aset : forall (A : Type) n (v x : A) s, aset n v (aset n x s) = aset n v s.
Proof.
  induction s as [| [k y] r IH]; cbn [aset].
  - rewrite ustr_eqb_refl. reflexivity.
  - destruct (ustr_eqb n k) eqn:E; cbn [aset]; rewrite ?E; auto. rewrite ustr_eqb_refl. reflexivity. f_equal. exact IH.
Qed.

Lemma amem_alookup_none : forall (A : Type) n (s : list (ustring * A)), amem n s = false <-> alookup n s = None.
Proof. unfold amem. intros. destruct (alookup n s); split; intros; auto; discriminate. Qed.

Lemma aremove_absent : forall (A : Type) n (s : list (ustring * A)), amem n s = false -> aremove n s = s.
Proof.
  unfold amem. induction s as [| [k x] r IH]; cbn [aremove alookup]; intros H; auto.
  destruct (ustr_eqb n k); try discriminate. f_equal. apply IH. exact H.
Qed.

Lemma alookup_enc_members : forall incl n m,
  alookup n (enc_members incl m) = option_map (encode incl) (alookup n m).
Proof.
  unfold enc_members. induction m as [| [k x] r IH]; cbn [map alookup fst snd option_map]; auto.
  destruct (ustr_eqb n k); auto.
Qed.

Lemma alookup_filter_key : forall (A : Type) (f : ustring -> bool) n (m : list (ustring * A)),
  alookup n (filter (fun kv => f (fst kv)) m) = if f n then alookup n m else None.
Proof.
  induction m as [| [k x] r IH]; cbn [filter alookup fst].
  - destruct (f n); reflexivity.
  - destruct (f k) eqn:Fk; cbn [alookup].
    + destruct (ustr_eqb n k) eqn:E; auto. apply ustr_eqb_eq in E. subst. rewrite Fk. reflexivity.
    + destruct (ustr_eqb n k) eqn:E; auto. apply ustr_eqb_eq in E. subst. rewrite IH. rewrite Fk. reflexivity.
Qed.

(* ------------------------------------------------------------------ table conditions *)
Definition reserved_names : list ustring :=
  map u ["custom_properties"; "allow_custom"; "interoperability"; "self"; "_valid_refs"]%string.

Section Obj.
  Variable vr : variant.
  Variable ev : env.
  Variable w : world.
  Variable pattern_ok : ver -> ustring -> bool.
  Variable selectors_ok : list (ustring * pval) -> pval -> result bool.
  Variable rc : ustring -> bool -> bool -> list (ustring * jvalue) -> result pval.
  Variable rp : bool -> bool -> list (ustring * jvalue) -> result pval.
  Variable ro : ver -> list (ustring * ustring) -> bool -> list (ustring * jvalue) -> result pval.

  Variable P : ustring -> bool.
  Hypothesis Hpad : vr_year_pad vr = true.
  Hypothesis Hrc : rc_idem rc ro P.

  Notation CK := (clean_kind vr w rc rp ro).
  Notation CP := (check_property vr ev w rc rp ro).

  Definition slot_ok (s : slot) : bool :=
    (kind_proved vr P (skind s) || ustr_eqb (sname s) ext_key) &&
    match sdef s with
    | DNone => true
    | DFixed => match skind s with KFixed _ _ => true | _ => false end
    | DNow => match skind s with KTime _ _ => true | _ => false end
    | DUuid4 => match skind s with KId _ _ => true | _ => false end
    | DConst j => match skind s, j with KBool, JBool _ => true | _, _ => false end
    end &&
    negb (mem_ustr (sname s) reserved_names) &&
    (negb (ustr_eqb (sname s) ext_key) || match sdef s with DNone => true | _ => false end).

  Variable c : cls.
  Variable allow interop : bool.
  Variable vrefs : option (list (ustring * ustring)).

  Hypothesis Hnodup : NoDup (map sname (cslots c)).
  Hypothesis Hslots : forallb slot_ok (cslots c) = true.

  Lemma slot_of_In : forall n s, slot_of c n = Some s -> In s (cslots c) /\ sname s = n.
  Proof.
    intros n s H. unfold slot_of in H. apply find_some in H. destruct H as [H1 H2]. apply ustr_eqb_eq in H2. auto.
  Qed.

  Lemma slot_of_ok : forall n s, slot_of c n = Some s -> slot_ok s = true.
  Proof.
    intros n s H. destruct (slot_of_In n s H) as [Hin _]. rewrite forallb_forall in Hslots. apply Hslots. exact Hin.
  Qed.

  (* one step of the property loop *)
  Definition step (K : list (ustring * jvalue)) (n : ustring) (s : list (ustring * pval)) (hc : bool)
    : result (list (ustring * pval) * bool) :=
    let s1 := assign_raw K [] [] n s in
    match slot_of c n with
    | Some sl => do r <- CP c sl allow interop vrefs s1; Ok (fst r, hc || snd r)
    | None => Ok (s1, hc)
    end.

  Notation LOOP := (assign_loop vr ev w rc rp ro c allow interop vrefs).

  Lemma loop_cons : forall K n rest s hc,
    LOOP K [] [] (n :: rest) s hc = do r <- step K n s hc; LOOP K [] [] rest (fst r) (snd r).
  Proof.
    intros. cbn [assign_loop]. unfold step. destruct (slot_of c n); cbn [bind fst snd]; auto.
    unfold bind. destruct (CP c s0 allow interop vrefs (assign_raw K [] [] n s)) as [[a b] | |]; reflexivity.
  Qed.

  (* the raw value a name is given: keyword arguments only (no custom_properties, nothing pre-wrapped) *)
  Lemma assign_raw_spec : forall K n s,
    assign_raw K [] [] n s =
    match alookup n K with
    | Some j => if nullish j then s else aset n (PJ j) s
    | None => s
    end.
  Proof.
    intros. unfold assign_raw. cbn [alookup]. destruct (alookup n K) as [j |]; auto.
    destruct j; auto. destruct l; auto.
  Qed.

  (* what check_property stores for a slot, by cases *)
  Lemma cp_given : forall sl j s v h,
    CK (skind sl) allow interop j = Ok (v, h) ->
    refs_ok c sl vrefs v = Ok tt ->
    CP c sl allow interop vrefs (aset (sname sl) (PJ j) s) = Ok (aset (sname sl) v s, h).
  Proof.
    intros sl j s v h Hc Hr. unfold check_property, default_value, bind.
    rewrite alookup_aset_same. cbn [fst snd]. unfold clean_present. rewrite alookup_aset_same.
    rewrite Hc. unfold bind. rewrite Hr. rewrite aset_aset. reflexivity.
  Qed.

  (* frame: a step only touches its own name *)
  Lemma step_frame : forall K n s hc s' hc' m, step K n s hc = Ok (s', hc') -> m <> n -> alookup m s' = alookup m s.
  Proof.
    intros K n s hc s' hc' m H Hne. unfold step in H. rewrite assign_raw_spec in H.
    assert (A : forall x, alookup m (aset n x s) = alookup m s) by (intros; apply alookup_aset_other; auto).
    set (s1 := match alookup n K with Some j => if nullish j then s else aset n (PJ j) s | None => s end) in *.
    assert (A1 : alookup m s1 = alookup m s). { unfold s1. destruct (alookup n K) as [j |]; auto. destruct (nullish j); auto. }
    destruct (slot_of c n) as [sl |] eqn:Es.
    - destruct (slot_of_In n sl Es) as [_ En]. subst n.
      unfold bind in H. destruct (CP c sl allow interop vrefs s1) as [[a b] | |] eqn:Ec; try discriminate. inv_ok H.
      cbn [fst]. rewrite <- A1. clear A1.
      unfold check_property, bind in Ec.
      destruct (default_value vr ev sl s1) as [[s2 isnow] | |] eqn:Ed; try discriminate. cbn [fst snd] in Ec.
      assert (A2 : alookup m s2 = alookup m s1).
      { unfold default_value in Ed. destruct (alookup (sname sl) s1); [inv_ok Ed; auto |].
        destruct (sdef sl); try (inv_ok Ed; auto; fail).
        - destruct (skind sl); try discriminate. inv_ok Ed. apply alookup_aset_other. auto.
        - destruct (skind sl); try discriminate. unfold bind in Ed.
          destruct (ts_clean_now (vr_year_pad vr) p c0 (e_now ev)); try discriminate. inv_ok Ed. apply alookup_aset_other. auto.
        - destruct (skind sl); try discriminate. inv_ok Ed. apply alookup_aset_other. auto.
        - inv_ok Ed. apply alookup_aset_other. auto. }
      rewrite <- A2. unfold clean_present in Ec.
      destruct (alookup (sname sl) s2) as [raw |]; [| inv_ok Ec; auto].
      destruct isnow; [inv_ok Ec; auto |].
      destruct raw.
      + destruct (CK (skind sl) allow interop j) as [[v h] | |]; try discriminate.
        unfold bind in Ec. destruct (refs_ok c sl vrefs v); try discriminate. inv_ok Ec. apply alookup_aset_other. auto.
      + destruct (vr_marking_flag vr); [destruct (negb allow && pval_has_custom (PTime us text)); try discriminate |]; inv_ok Ec; auto.
      + destruct (vr_marking_flag vr); [destruct (negb allow && pval_has_custom (PArr l)); try discriminate |]; inv_ok Ec; auto.
      + destruct (vr_marking_flag vr); [destruct (negb allow && pval_has_custom (PMap m0)); try discriminate |]; inv_ok Ec; auto.
      + destruct (vr_marking_flag vr); [destruct (negb allow && pval_has_custom (PObject cid inner defaulted hc0)); try discriminate |]; inv_ok Ec; auto.
    - inv_ok H. exact A1.
  Qed.

  Lemma cp_given_inv : forall sl j s s' h,
    CP c sl allow interop vrefs (aset (sname sl) (PJ j) s) = Ok (s', h) ->
    exists v, CK (skind sl) allow interop j = Ok (v, h) /\ refs_ok c sl vrefs v = Ok tt /\ s' = aset (sname sl) v s.
  Proof.
    intros sl j s s' h H. unfold check_property, default_value, bind in H.
    rewrite alookup_aset_same in H. cbn [fst snd] in H. unfold clean_present in H. rewrite alookup_aset_same in H.
    destruct (CK (skind sl) allow interop j) as [[v h0] | |] eqn:Ec; try discriminate.
    unfold bind in H. destruct (refs_ok c sl vrefs v) as [[] | |] eqn:Er; try discriminate.
    inv_ok H. exists v. rewrite aset_aset. auto.
  Qed.

  Lemma refs_ok_nonref : forall sl v,
    (match skind sl with KObjRef _ => false | KList (KObjRef _) => false | _ => true end) = true ->
    refs_ok c sl vrefs v = Ok tt.
  Proof.
    intros sl v H. unfold refs_ok. destruct (cfamily c); auto. destruct (cver c); auto. destruct vrefs; auto.
    destruct (skind sl); auto; try discriminate. destruct p; auto; discriminate.
  Qed.

  Lemma clean_bool_flag : forall j v h, clean_bool j = Ok (v, h) -> h = false.
  Proof. intros j v h H. unfold clean_bool in H. walk H; inv_ok H; reflexivity. Qed.

  (* a step re-run on the encoding of what it stored (or on nothing, when that was dropped as a
     defaulted optional) stores the same *)
  Lemma step_agree : forall K K' n s hc s' hc' (D : bool),
    amem n s = false ->
    step K n s hc = Ok (s', hc') ->
    (forall j, alookup n K = Some j -> nullish j = false /\ plain_json j = true /\ n <> ext_key) ->
    (D = true -> exists sl b, slot_of c n = Some sl /\ sdef sl = DConst (JBool b) /\ alookup n s' = Some (PJ (JBool b))) ->
    alookup n K' = match alookup n s' with
                   | Some v => if D then None else Some (encode false v)
                   | None => None
                   end ->
    step K' n s hc = Ok (s', hc').
  Proof.
    intros K K' n s hc s' hc' D Hfresh H HK HD HK'.
    apply amem_alookup_none in Hfresh.
    unfold step in *. rewrite assign_raw_spec in *.
    destruct (slot_of c n) as [sl |] eqn:Es.
    2:{ (* a custom / extension property: stored raw *)
      assert (D = false). { destruct D; auto. destruct (HD eq_refl) as [sl [b [E _]]]. discriminate. }
      subst D. inv_ok H.
      destruct (alookup n K) as [j |] eqn:Ek.
      - destruct (HK j eq_refl) as [Hn _]. rewrite Hn in *. rewrite alookup_aset_same in HK'. cbn [encode] in HK'.
        rewrite HK', Hn. reflexivity.
      - rewrite Hfresh in HK'. rewrite HK'. reflexivity. }
    destruct (slot_of_In n sl Es) as [_ En]. subst n.
    pose proof (slot_of_ok _ _ Es) as Hok. unfold slot_ok in Hok.
    apply andb_true_iff in Hok. destruct Hok as [Hok Hext]. apply andb_true_iff in Hok. destruct Hok as [Hok Hres].
    apply andb_true_iff in Hok. destruct Hok as [Hkind Hdef].
    unfold bind in H.
    destruct (alookup (sname sl) K) as [j |] eqn:Ek.
    - (* a value was given *)
      destruct (HK j eq_refl) as [Hn [Hp Hne]]. rewrite Hn in H.
      assert (Hkp : kind_proved vr P (skind sl) = true).
      { apply orb_true_iff in Hkind. destruct Hkind as [Hk | Hk]; auto. apply ustr_eqb_eq in Hk. contradiction. }
      destruct (CP c sl allow interop vrefs (aset (sname sl) (PJ j) s)) as [[a b] | |] eqn:Ec; try discriminate.
      inv_ok H. cbn [fst snd] in *.
      destruct (cp_given_inv _ _ _ _ _ Ec) as [v [Hv [Hr Ha]]]. subst s'.
      rewrite alookup_aset_same in HK'.
      destruct D.
      + destruct (HD eq_refl) as [sl' [bb [E1 [E2 E3]]]]. try try rewrite Es in E1; inv E1.
        rewrite alookup_aset_same in E3. inv E3.
        rewrite HK'. unfold check_property, default_value, bind. rewrite Hfresh. rewrite E2.
        cbn [fst snd]. unfold clean_present. rewrite alookup_aset_same.
        rewrite E2 in Hdef. destruct (skind sl') eqn:Eknd; try discriminate.
        cbn [clean_kind] in Hv. pose proof (clean_bool_flag _ _ _ Hv) as Hb. subst b.
        cbn [clean_kind clean_bool]. unfold bind. rewrite Hr. rewrite aset_aset. reflexivity.
      + rewrite HK'.
        rewrite (clean_kind_not_nullish vr w rc rp ro P Hrc (skind sl) allow interop j v b Hkp Hp Hn Hv).
        rewrite (cp_given sl (encode false v) s v b); auto.
        eapply (clean_kind_idem vr w rc rp ro Hpad P Hrc); eauto.
    - (* nothing was given *)
      destruct (CP c sl allow interop vrefs s) as [[a b] | |] eqn:Ec; try discriminate.
      inv_ok H. cbn [fst snd] in *.
      unfold check_property, default_value, bind in Ec. rewrite Hfresh in Ec.
      destruct (sdef sl) eqn:Ed.
      + (* no default *)
        cbn [fst snd] in Ec. unfold clean_present in Ec. rewrite Hfresh in Ec. inv_ok Ec.
        rewrite Hfresh in HK'. rewrite HK'. unfold check_property, default_value, bind. rewrite Hfresh, Ed.
        cbn [fst snd]. unfold clean_present. rewrite Hfresh. reflexivity.
      + (* fixed *)
        destruct (skind sl) eqn:Eknd; try discriminate. cbn [fst snd] in Ec.
        unfold clean_present in Ec. rewrite alookup_aset_same in Ec. rewrite Eknd in Ec. cbn [clean_kind] in Ec.
        rewrite jvalue_eqb_refl in Ec. unfold bind in Ec.
        destruct (refs_ok c sl vrefs (PJ (JStr v))) as [[] | |] eqn:Er; try discriminate. inv_ok Ec.
        rewrite aset_aset in *. rewrite alookup_aset_same in HK'.
        assert (D = false). { destruct D; auto. destruct (HD eq_refl) as [sl' [bb [E1 [E2 _]]]]. try rewrite Es in E1; inv E1. congruence. }
        subst D. cbn [encode] in HK'. rewrite HK'. cbn [nullish].
        rewrite (cp_given sl (JStr v) s (PJ (JStr v)) false);
          [reflexivity | rewrite Eknd; cbn [clean_kind]; rewrite jvalue_eqb_refl; reflexivity | exact Er].
      + (* the clock *)
        destruct (skind sl) eqn:Eknd; try discriminate. unfold bind in Ec.
        destruct (ts_clean_now (vr_year_pad vr) p c0 (e_now ev)) as [[us txt] | |] eqn:Et; try discriminate.
        cbn [fst snd] in Ec. unfold clean_present in Ec. rewrite alookup_aset_same in Ec. inv_ok Ec.
        rewrite alookup_aset_same in HK'.
        assert (D = false). { destruct D; auto. destruct (HD eq_refl) as [sl' [bb [E1 [E2 _]]]]. try rewrite Es in E1; inv E1. congruence. }
        subst D. cbn [encode] in HK'. rewrite HK'. cbn [nullish].
        rewrite Hpad in Et.
        rewrite (cp_given sl (JStr txt) s (PTime us txt) false).
        * reflexivity.
        * rewrite Eknd. cbn [clean_kind]. unfold bind. rewrite Hpad. rewrite (ts_clean_now_idem _ _ _ _ _ Et). reflexivity.
        * apply refs_ok_nonref. rewrite Eknd. reflexivity.
      + (* a fresh identifier *)
        destruct (skind sl) eqn:Eknd; try discriminate. cbn [fst snd] in Ec.
        unfold clean_present in Ec. rewrite alookup_aset_same in Ec. rewrite Eknd in Ec.
        destruct (CK (KId prefix v) allow interop (JStr (prefix ++ e_uuid4 ev))) as [[v0 h0] | |] eqn:Eid; try discriminate.
        unfold bind in Ec. destruct (refs_ok c sl vrefs v0) as [[] | |] eqn:Er; try discriminate. inv_ok Ec.
        rewrite aset_aset in *. rewrite alookup_aset_same in HK'.
        assert (D = false). { destruct D; auto. destruct (HD eq_refl) as [sl' [bb [E1 [E2 _]]]]. try rewrite Es in E1; inv E1. congruence. }
        subst D.
        assert (Ev0 : v0 = PJ (JStr (prefix ++ e_uuid4 ev))).
        { cbn [clean_kind] in Eid. unfold bind in Eid. destruct (validate_id vr (prefix ++ e_uuid4 ev) v (Some prefix) interop); try discriminate. inv_ok Eid. reflexivity. }
        subst v0. cbn [encode] in HK'. rewrite HK'. cbn [nullish].
        erewrite cp_given; [reflexivity | rewrite Eknd; exact Eid | exact Er].
      + (* a constant default *)
        destruct (skind sl) eqn:Eknd; try discriminate. destruct j; try discriminate. cbn [fst snd] in Ec.
        unfold clean_present in Ec. rewrite alookup_aset_same in Ec. rewrite Eknd in Ec. cbn [clean_kind clean_bool] in Ec.
        unfold bind in Ec. destruct (refs_ok c sl vrefs (PJ (JBool b0))) as [[] | |] eqn:Er; try discriminate. inv_ok Ec.
        rewrite aset_aset in *. rewrite alookup_aset_same in HK'.
        destruct D.
        * rewrite HK'. unfold check_property, default_value, bind. rewrite Hfresh, Ed. cbn [fst snd].
          unfold clean_present. rewrite alookup_aset_same. rewrite Eknd. cbn [clean_kind clean_bool]. unfold bind.
          rewrite Er. rewrite aset_aset. reflexivity.
        * cbn [encode] in HK'. rewrite HK'. cbn [nullish].
          rewrite (cp_given sl (JBool b0) s (PJ (JBool b0)) false);
            [reflexivity | rewrite Eknd; reflexivity | exact Er].
  Qed.

  (* ---------------------------------------------------------------- shape of a step *)
  Definition same_or_set (n : ustring) (s s' : list (ustring * pval)) : Prop :=
    s' = s \/ exists v, s' = aset n v s.

  Lemma sos_refl : forall n s, same_or_set n s s.
  Proof. left. reflexivity. Qed.
  Lemma sos_set : forall n v s, same_or_set n s (aset n v s).
  Proof. right. eauto. Qed.
  Lemma sos_trans : forall n s1 s2 s3, same_or_set n s1 s2 -> same_or_set n s2 s3 -> same_or_set n s1 s3.
  Proof.
    intros n s1 s2 s3 [E1 | [v1 E1]] [E2 | [v2 E2]]; subst.
    - left. reflexivity.
    - right. eauto.
    - right. eauto.
    - right. exists v2. apply aset_aset.
  Qed.

  Lemma default_value_shape : forall sl s1 s2 b,
    default_value vr ev sl s1 = Ok (s2, b) -> same_or_set (sname sl) s1 s2.
  Proof.
    intros sl s1 s2 b Ed. unfold default_value in Ed.
    destruct (alookup (sname sl) s1); [inv_ok Ed; apply sos_refl |].
    destruct (sdef sl); try (inv_ok Ed; apply sos_refl).
    - destruct (skind sl); try discriminate. inv_ok Ed. apply sos_set.
    - destruct (skind sl); try discriminate. unfold bind in Ed.
      destruct (ts_clean_now (vr_year_pad vr) p c0 (e_now ev)); try discriminate. inv_ok Ed. apply sos_set.
    - destruct (skind sl); try discriminate. inv_ok Ed. apply sos_set.
    - inv_ok Ed. apply sos_set.
  Qed.

  Lemma clean_present_shape : forall sl s2 isnow s3 h,
    clean_present vr w rc rp ro c sl allow interop vrefs s2 isnow = Ok (s3, h) -> same_or_set (sname sl) s2 s3.
  Proof.
    intros sl s2 isnow s3 h Ec. unfold clean_present in Ec.
    destruct (alookup (sname sl) s2) as [raw |]; [| inv_ok Ec; apply sos_refl].
    destruct isnow; [inv_ok Ec; apply sos_refl |].
    destruct raw.
    - destruct (CK (skind sl) allow interop j) as [[v h0] | |]; try discriminate.
      unfold bind in Ec. destruct (refs_ok c sl vrefs v); try discriminate. inv_ok Ec. apply sos_set.
    - destruct (vr_marking_flag vr); [destruct (negb allow && pval_has_custom (PTime us text)); try discriminate |]; inv_ok Ec; apply sos_refl.
    - destruct (vr_marking_flag vr); [destruct (negb allow && pval_has_custom (PArr l)); try discriminate |]; inv_ok Ec; apply sos_refl.
    - destruct (vr_marking_flag vr); [destruct (negb allow && pval_has_custom (PMap m)); try discriminate |]; inv_ok Ec; apply sos_refl.
    - destruct (vr_marking_flag vr); [destruct (negb allow && pval_has_custom (PObject cid inner defaulted hc)); try discriminate |]; inv_ok Ec; apply sos_refl.
  Qed.

  Lemma step_shape : forall K n s hc s' hc', step K n s hc = Ok (s', hc') -> same_or_set n s s'.
  Proof.
    intros K n s hc s' hc' H. unfold step in H. rewrite assign_raw_spec in H.
    assert (A : same_or_set n s (match alookup n K with Some j => if nullish j then s else aset n (PJ j) s | None => s end)).
    { destruct (alookup n K) as [j |]; [destruct (nullish j) |]; try apply sos_refl. apply sos_set. }
    destruct (slot_of c n) as [sl |] eqn:Es.
    - destruct (slot_of_In n sl Es) as [_ En]. subst n. unfold bind in H.
      match type of H with match CP c sl allow interop vrefs ?s1 with _ => _ end = _ =>
        destruct (CP c sl allow interop vrefs s1) as [[a b] | |] eqn:Ec; try discriminate end.
      inv_ok H. cbn [fst]. unfold check_property, bind in Ec.
      match type of Ec with match default_value vr ev sl ?s1 with _ => _ end = _ =>
        destruct (default_value vr ev sl s1) as [[s2 isnow] | |] eqn:Ed; try discriminate end.
      cbn [fst snd] in Ec.
      eapply sos_trans; [exact A |]. eapply sos_trans; [eapply default_value_shape; eauto | eapply clean_present_shape; eauto].
    - inv_ok H. exact A.
  Qed.

  Lemma sos_keys : forall n s s', same_or_set n s s' -> amem n s = false ->
    map fst s' = map fst s ++ (if amem n s' then [n] else []).
  Proof.
    intros n s s' [E | [v E]] Hf; subst.
    - rewrite Hf. rewrite app_nil_r. reflexivity.
    - rewrite aset_keys_notin by assumption. unfold amem. rewrite alookup_aset_same. reflexivity.
  Qed.

  Lemma sos_frame : forall n s s' m, same_or_set n s s' -> m <> n -> alookup m s' = alookup m s.
  Proof. intros n s s' m [E | [v E]] Hne; subst; auto. apply alookup_aset_other. exact Hne. Qed.

  (* ---------------------------------------------------------------- the loop *)
  Lemma loop_frame : forall K l s hc S hcf m,
    LOOP K [] [] l s hc = Ok (S, hcf) -> ~ In m l -> alookup m S = alookup m s.
  Proof.
    induction l as [| n rest IH]; intros s hc S hcf m H Hm.
    - cbn [assign_loop] in H. inv_ok H. reflexivity.
    - rewrite loop_cons in H. unfold bind in H.
      destruct (step K n s hc) as [[s1 h1] | |] eqn:Es; try discriminate. cbn [fst snd] in H.
      rewrite (IH _ _ _ _ m H) by (intros Hin; apply Hm; right; exact Hin).
      eapply sos_frame; [eapply step_shape; eauto |]. intros E. apply Hm. left. auto.
  Qed.

  Lemma loop_keys : forall K l s hc S hcf,
    NoDup l -> (forall n, In n l -> amem n s = false) ->
    LOOP K [] [] l s hc = Ok (S, hcf) ->
    map fst S = map fst s ++ filter (fun n => amem n S) l.
  Proof.
    induction l as [| n rest IH]; intros s hc S hcf ND Hf H.
    - cbn [assign_loop] in H. inv_ok H. cbn [filter]. rewrite app_nil_r. reflexivity.
    - rewrite loop_cons in H. unfold bind in H.
      destruct (step K n s hc) as [[s1 h1] | |] eqn:Es; try discriminate. cbn [fst snd] in H.
      inversion ND; subst.
      pose proof (step_shape _ _ _ _ _ _ Es) as Sh.
      assert (Hf1 : forall m, In m rest -> amem m s1 = false).
      { intros m Hm. unfold amem. rewrite (sos_frame _ _ _ m Sh).
        - apply Hf. right. exact Hm.
        - intros E. subst. contradiction. }
      rewrite (IH _ _ _ _ H3 Hf1 H).
      rewrite (sos_keys _ _ _ Sh (Hf n (or_introl eq_refl))).
      assert (En : amem n S = amem n s1). { unfold amem. rewrite (loop_frame _ _ _ _ _ _ n H H2). reflexivity. }
      cbn [filter]. rewrite En. rewrite <- app_assoc. destruct (amem n s1); reflexivity.
  Qed.

  Lemma loop_rerun : forall K K' (dfl : list ustring) l s hc S hcf,
    NoDup l -> (forall n, In n l -> amem n s = false) ->
    LOOP K [] [] l s hc = Ok (S, hcf) ->
    (forall n j, In n l -> alookup n K = Some j -> nullish j = false /\ plain_json j = true /\ n <> ext_key) ->
    (forall n, In n l -> mem_ustr n dfl = true ->
       exists sl b, slot_of c n = Some sl /\ sdef sl = DConst (JBool b) /\ alookup n S = Some (PJ (JBool b))) ->
    (forall n, In n l ->
       alookup n K' = match alookup n S with
                      | Some v => if mem_ustr n dfl then None else Some (encode false v)
                      | None => None
                      end) ->
    LOOP K' [] [] l s hc = Ok (S, hcf).
  Proof.
    induction l as [| n rest IH]; intros s hc S hcf ND Hf H HK HD HK'.
    - cbn [assign_loop] in *. exact H.
    - rewrite loop_cons in *. unfold bind in *.
      destruct (step K n s hc) as [[s1 h1] | |] eqn:Es; try discriminate. cbn [fst snd] in H.
      inversion ND; subst.
      pose proof (step_shape _ _ _ _ _ _ Es) as Sh.
      assert (En : alookup n S = alookup n s1) by (apply (loop_frame _ _ _ _ _ _ n H H2)).
      rewrite (step_agree K K' n s hc s1 h1 (mem_ustr n dfl)).
      + cbn [fst snd]. apply IH; auto.
        * intros m Hm. unfold amem. rewrite (sos_frame _ _ _ m Sh).
          -- apply Hf. right. exact Hm.
          -- intros E. subst. contradiction.
        * intros m j Hm. apply HK. right. exact Hm.
        * intros m Hm. apply HD. right. exact Hm.
        * intros m Hm. apply HK'. right. exact Hm.
      + apply Hf. left. reflexivity.
      + exact Es.
      + intros j. apply HK. left. reflexivity.
      + intros Hd. destruct (HD n (or_introl eq_refl) Hd) as [sl [b [E1 [E2 E3]]]]. exists sl, b. rewrite <- En. auto.
      + rewrite <- En. apply HK'. left. reflexivity.
  Qed.

  (* ---------------------------------------------------------------- list helpers *)
  Lemma filter_all_false : forall (A : Type) (f : A -> bool) l, (forall x, In x l -> f x = false) -> filter f l = [].
  Proof. induction l as [| x r IH]; intros H; cbn [filter]; auto. rewrite (H x (or_introl eq_refl)). apply IH. intros y Hy. apply H. right. exact Hy. Qed.
  Lemma filter_all_true : forall (A : Type) (f : A -> bool) l, (forall x, In x l -> f x = true) -> filter f l = l.
  Proof. induction l as [| x r IH]; intros H; cbn [filter]; auto. rewrite (H x (or_introl eq_refl)). f_equal. apply IH. intros y Hy. apply H. right. exact Hy. Qed.

  Lemma forallb_usort : forall f l, forallb f (usort l) = forallb f l.
  Proof.
    intros f l. destruct (forallb f l) eqn:E.
    - apply forallb_forall. intros x Hx. rewrite forallb_forall in E. apply E. apply In_usort. exact Hx.
    - apply not_true_is_false. intros E2. rewrite forallb_forall in E2.
      assert (forallb f l = true). { apply forallb_forall. intros x Hx. apply E2. apply In_usort. exact Hx. } congruence.
  Qed.
  Lemma existsb_usort : forall f l, existsb f (usort l) = existsb f l.
  Proof.
    intros f l. destruct (existsb f l) eqn:E.
    - apply existsb_exists in E. destruct E as [x [Hx Hf]]. apply existsb_exists. exists x. split; auto. apply In_usort. exact Hx.
    - apply not_true_is_false. intros E2. apply existsb_exists in E2. destruct E2 as [x [Hx Hf]].
      assert (existsb f l = true). { apply existsb_exists. exists x. split; auto. apply In_usort. exact Hx. } congruence.
  Qed.
  Lemma usort_nil : forall l, match usort l with [] => true | _ => false end = match l with [] => true | _ => false end.
  Proof.
    intros l. pose proof (usort_perm l) as Pm. destruct l as [| x r].
    - reflexivity.
    - destruct (usort (x :: r)) eqn:E; auto. apply Permutation_nil in Pm. discriminate.
  Qed.

  Lemma slot_of_unique : forall sl, In sl (cslots c) -> slot_of c (sname sl) = Some sl.
  Proof.
    unfold slot_of. intros sl Hin. revert Hnodup Hin. generalize (cslots c). induction l as [| s0 r IH]; intros ND Hin; [contradiction |].
    cbn [find map] in *. inversion ND; subst. destruct Hin as [E | Hin].
    - subst. rewrite ustr_eqb_refl. reflexivity.
    - destruct (ustr_eqb (sname s0) (sname sl)) eqn:E.
      + apply ustr_eqb_eq in E. exfalso. apply H1. rewrite E. apply in_map. exact Hin.
      + apply IH; auto.
  Qed.

  Lemma mem_defaulted : forall n S, mem_ustr n (defaulted_names c S) = true ->
    exists sl b, slot_of c n = Some sl /\ sdef sl = DConst (JBool b) /\ alookup n S = Some (PJ (JBool b)).
  Proof.
    intros n S H. apply mem_ustr_In in H. unfold defaulted_names in H.
    apply in_map_iff in H. destruct H as [sl [En Hin]]. apply filter_In in Hin. destruct Hin as [Hin Hc].
    subst n. apply andb_true_iff in Hc. destruct Hc as [_ Hc].
    rewrite forallb_forall in Hslots. pose proof (Hslots sl Hin) as Hok. unfold slot_ok in Hok.
    apply andb_true_iff in Hok. destruct Hok as [Hok _]. apply andb_true_iff in Hok. destruct Hok as [Hok _].
    apply andb_true_iff in Hok. destruct Hok as [_ Hdef].
    destruct (sdef sl) as [| | | | j] eqn:Ed; try discriminate.
    destruct (skind sl); try discriminate. destruct j; try discriminate.
    exists sl, b. split; [apply slot_of_unique; exact Hin |]. split; auto.
    destruct (alookup (sname sl) S) as [x |]; try discriminate. destruct x; try discriminate.
    apply jvalue_eqb_eq in Hc. subst. reflexivity.
  Qed.

  Lemma defaulted_are_slots : forall n S, mem_ustr n (defaulted_names c S) = true -> mem_ustr n (map sname (cslots c)) = true.
  Proof.
    intros n S H. apply mem_ustr_In in H. apply mem_ustr_In. unfold defaulted_names in H.
    apply in_map_iff in H. destruct H as [sl [En Hin]]. apply filter_In in Hin. destruct Hin as [Hin _]. subst. apply in_map. exact Hin.
  Qed.

  (* a custom (non-slot) name given a value is stored raw; a slot without default that is not given stays absent *)
  Lemma step_custom_stored : forall K n s hc s' hc' j,
    slot_of c n = None -> alookup n K = Some j -> nullish j = false ->
    step K n s hc = Ok (s', hc') -> alookup n s' = Some (PJ j).
  Proof.
    intros K n s hc s' hc' j Hs Hk Hn H. unfold step in H. rewrite assign_raw_spec in H. rewrite Hs, Hk, Hn in H.
    inv_ok H. apply alookup_aset_same.
  Qed.

  Lemma step_absent_stays : forall K n s hc s' hc' sl,
    slot_of c n = Some sl -> sdef sl = DNone -> alookup n K = None -> amem n s = false ->
    step K n s hc = Ok (s', hc') -> amem n s' = false.
  Proof.
    intros K n s hc s' hc' sl Hs Hd Hk Hf H. unfold step in H. rewrite assign_raw_spec in H. rewrite Hs, Hk in H.
    destruct (slot_of_In n sl Hs) as [_ En]. subst n. apply amem_alookup_none in Hf.
    unfold bind, check_property, default_value in H. rewrite Hf, Hd in H. cbn [bind fst snd] in H.
    unfold clean_present in H. rewrite Hf in H. inv_ok H. apply amem_alookup_none. exact Hf.
  Qed.

  (* ---------------------------------------------------------------- construct_generic on plain input *)
  Notation CG := (construct_generic vr ev w pattern_ok selectors_ok rc rp ro).

  Definition PN : list ustring := map sname (cslots c).
  Definition notPN (k : ustring) : bool := negb (mem_ustr k PN).

  Definition cg_tail (fuel : nat) (AC : list ustring) (r : list (ustring * pval) * bool) : result pval :=
    let '(setting, hc0) := r in
    let hc := hc0 || (vr_flag_from_stored vr && existsb (fun n => amem n setting) AC) in
    if existsb (fun s => sreq s && negb (amem (sname s) setting)) (cslots c) then Err EMissing else
    let defaulted := defaulted_names c setting in
    do _ <- match (if existsb (fun k => match k with CSkipBaseCheck => true | _ => false end) (ccons c)
                    then None else alookup (u "granular_markings") setting) with
            | Some (PArr gms) => granular_check selectors_ok setting gms
            | Some _ => Unmodelled
            | None => Ok tt
            end;
    do _ <- constr_all (eval_constr vr pattern_ok fuel c setting)
                       ((match cfamily c with FExt => [CAtLeastOneDefault] | _ => [] end) ++ ccons c);
    if allow then Ok (PObject (cid c) setting defaulted hc)
    else if hc then Err ESTIXError else Ok (PObject (cid c) setting defaulted false).

  Definition flag0 (AC : list ustring) : bool :=
    if vr_flag_from_stored vr then false else match AC with [] => false | _ => true end.

  Lemma cg_plain : forall fuel kw,
    alookup cp_key kw = None -> alookup ext_key kw = None ->
    CG fuel c allow interop kw [] vrefs =
    let E := filter notPN (akeys kw) in
    match E, allow with
    | _ :: _, false => Err EExtra
    | _, _ =>
      let AC := udedup (filter notPN (E ++ [])) in
      if (match cver c with V21 => negb (forallb re_prefix21 AC) | V20 => false end) then Err EInvalidValue else
      do r <- LOOP kw [] [] (PN ++ ([] ++ usort AC)) [] (flag0 AC);
      cg_tail fuel AC r
    end.
  Proof.
    intros fuel kw Hcp Hext. unfold construct_generic.
    change (u "custom_properties") with cp_key. change (u "extensions") with ext_key.
    rewrite Hcp. rewrite (aremove_absent _ cp_key kw) by (apply amem_alookup_none; exact Hcp).
    rewrite Hext. cbn [bind]. rewrite andb_false_r.
    fold PN. fold notPN. cbn [akeys map app].
    destruct (filter notPN (akeys kw)) as [| e0 E0]; reflexivity.
  Qed.

  Lemma cg_tail_shape : forall fuel AC S hc0 o, cg_tail fuel AC (S, hc0) = Ok o ->
    exists hc, o = PObject (cid c) S (defaulted_names c S) hc.
  Proof.
    intros fuel AC S hc0 o H. unfold cg_tail in H.
    destruct (existsb (fun s => sreq s && negb (amem (sname s) S)) (cslots c)); try discriminate.
    unfold bind in H.
    match type of H with match ?g with _ => _ end = _ => destruct g as [[] | |]; try discriminate end.
    match type of H with match ?g with _ => _ end = _ => destruct g as [[] | |]; try discriminate end.
    destruct allow.
    - inv_ok H. eauto.
    - match type of H with (if ?g then _ else _) = _ => destruct g; try discriminate end. inv_ok H. eauto.
  Qed.

  Lemma cg_tail_perm : forall fuel AC AC' r,
    (forall f, existsb f AC' = existsb f AC) -> cg_tail fuel AC' r = cg_tail fuel AC r.
  Proof. intros fuel AC AC' [S hc0] H. unfold cg_tail. rewrite H. reflexivity. Qed.

  (* the members the object is written with *)
  Definition written (S : list (ustring * pval)) : list (ustring * jvalue) :=
    enc_members false (kept false (defaulted_names c S) S).

  Lemma alookup_written : forall S n,
    alookup n (written S) = match alookup n S with
                            | Some v => if mem_ustr n (defaulted_names c S) then None else Some (encode false v)
                            | None => None
                            end.
  Proof.
    intros S n. unfold written. rewrite alookup_enc_members. unfold kept. cbn [orb].
    rewrite (alookup_filter_key pval (fun k => negb (mem_ustr k (defaulted_names c S))) n S).
    destruct (mem_ustr n (defaulted_names c S)); cbn [negb option_map]; auto.
    destruct (alookup n S); reflexivity.
  Qed.

  Lemma akeys_written_gen : forall (D : list ustring) S,
    map fst (enc_members false (filter (fun kv : ustring * pval => false || negb (mem_ustr (fst kv) D)) S)) =
    filter (fun k => negb (mem_ustr k D)) (map fst S).
  Proof.
    intros D. unfold enc_members. induction S as [| [k x] r IH]; [reflexivity |].
    cbn [filter map fst orb]. destruct (negb (mem_ustr k D)); cbn [map fst]; [f_equal |]; exact IH.
  Qed.

  Lemma akeys_written : forall S,
    akeys (written S) = filter (fun k => negb (mem_ustr k (defaulted_names c S))) (map fst S).
  Proof. intros S. unfold written, akeys, kept. apply akeys_written_gen. Qed.

  Lemma NoDup_app_disj : forall (A : Type) (l1 l2 : list A),
    NoDup l1 -> NoDup l2 -> (forall x, In x l1 -> ~ In x l2) -> NoDup (l1 ++ l2).
  Proof.
    induction l1 as [| a r IH]; intros l2 N1 N2 D; cbn [app]; auto.
    inversion N1; subst. constructor.
    - intros H. apply in_app_or in H. destruct H as [H | H]; [contradiction |]. apply (D a); [left; reflexivity | exact H].
    - apply IH; auto. intros x Hx. apply D. right. exact Hx.
  Qed.

  Lemma slot_of_none : forall n, notPN n = true -> slot_of c n = None.
  Proof.
    intros n H. unfold notPN, PN in H. apply negb_true_iff in H.
    unfold slot_of. destruct (find (fun s => ustr_eqb (sname s) n) (cslots c)) as [sl |] eqn:E; auto.
    apply find_some in E. destruct E as [Hin E]. apply ustr_eqb_eq in E. subst n.
    assert (mem_ustr (sname sl) (map sname (cslots c)) = true) by (apply mem_ustr_In; apply in_map; exact Hin). congruence.
  Qed.

  Lemma extra_match : forall (A : Type) (E : list ustring) (b : bool) (x y : A),
    (E = [] \/ b = true) -> match E, b with | _ :: _, false => x | _, _ => y end = y.
  Proof. intros A E b x y [H | H]; subst; [reflexivity |]. destruct E; reflexivity. Qed.

  Lemma loop_custom_stored : forall K l s hc S hcf n j,
    NoDup l -> In n l -> slot_of c n = None -> alookup n K = Some j -> nullish j = false ->
    LOOP K [] [] l s hc = Ok (S, hcf) -> amem n S = true.
  Proof.
    induction l as [| m rest IH]; intros s hc S hcf n j ND Hin Hs Hk Hn H; [contradiction |].
    rewrite loop_cons in H. unfold bind in H.
    destruct (step K m s hc) as [[s1 h1] | |] eqn:Es; try discriminate. cbn [fst snd] in H.
    inversion ND; subst. destruct Hin as [E | Hin].
    - subst m. unfold amem. rewrite (loop_frame _ _ _ _ _ _ n H H2).
      rewrite (step_custom_stored _ _ _ _ _ _ _ Hs Hk Hn Es). reflexivity.
    - eapply IH; eauto.
  Qed.

  Lemma loop_slot_absent : forall K l s hc S hcf n sl,
    NoDup l -> amem n s = false -> slot_of c n = Some sl -> sdef sl = DNone -> alookup n K = None ->
    LOOP K [] [] l s hc = Ok (S, hcf) -> amem n S = false.
  Proof.
    induction l as [| m rest IH]; intros s hc S hcf n sl ND Hf Hs Hd Hk H.
    - cbn [assign_loop] in H. inv_ok H. exact Hf.
    - rewrite loop_cons in H. unfold bind in H.
      destruct (step K m s hc) as [[s1 h1] | |] eqn:Es; try discriminate. cbn [fst snd] in H.
      inversion ND; subst.
      assert (Hf1 : amem n s1 = false).
      { destruct (ustr_eqb m n) eqn:E.
        - apply ustr_eqb_eq in E. subst m. eapply step_absent_stays; eauto.
        - unfold amem. rewrite (sos_frame _ _ _ n (step_shape _ _ _ _ _ _ Es)).
          + exact Hf.
          + intros E2. subst. rewrite ustr_eqb_refl in E. discriminate. }
      exact (IH s1 h1 S hcf n sl H3 Hf1 Hs Hd Hk H).
  Qed.

  Lemma step_given_stored : forall K n s hc s' hc' j,
    alookup n K = Some j -> nullish j = false -> step K n s hc = Ok (s', hc') -> amem n s' = true.
  Proof.
    intros K n s hc s' hc' j Hk Hn H. unfold step in H. rewrite assign_raw_spec in H. rewrite Hk, Hn in H.
    destruct (slot_of c n) as [sl |] eqn:Es.
    - destruct (slot_of_In n sl Es) as [_ En]. subst n. unfold bind in H.
      destruct (CP c sl allow interop vrefs (aset (sname sl) (PJ j) s)) as [[a b] | |] eqn:Ec; try discriminate.
      inv_ok H. destruct (cp_given_inv _ _ _ _ _ Ec) as [v [_ [_ Ea]]]. cbn [fst]. rewrite Ea. unfold amem. rewrite alookup_aset_same. reflexivity.
    - inv_ok H. unfold amem. rewrite alookup_aset_same. reflexivity.
  Qed.

  Lemma loop_given_stored : forall K l s hc S hcf n j,
    NoDup l -> In n l -> alookup n K = Some j -> nullish j = false ->
    LOOP K [] [] l s hc = Ok (S, hcf) -> amem n S = true.
  Proof.
    induction l as [| m rest IH]; intros s hc S hcf n j ND Hin Hk Hn H; [contradiction |].
    rewrite loop_cons in H. unfold bind in H.
    destruct (step K m s hc) as [[s1 h1] | |] eqn:Es; try discriminate. cbn [fst snd] in H.
    inversion ND; subst. destruct Hin as [E | Hin].
    - subst m. unfold amem. rewrite (loop_frame _ _ _ _ _ _ n H H2).
      pose proof (step_given_stored _ _ _ _ _ _ _ Hk Hn Es) as Hs. unfold amem in Hs. exact Hs.
    - eapply IH; eauto.
  Qed.

  Theorem cg_idem : forall fuel kw o,
    plain_dict kw = true ->
    CG fuel c allow interop kw [] vrefs = Ok o ->
    exists S hc, o = PObject (cid c) S (defaulted_names c S) hc /\
      CG fuel c allow interop (written S) [] vrefs = Ok o /\
      (forall m, amem m (written S) = true -> In m PN \/ amem m kw = true) /\
      (forall m, amem m kw = true -> amem m S = true).
  Proof.
    intros fuel kw o Hp H.
    destruct (plain_dict_no_key kw Hp) as [Hcp Hext].
    apply amem_alookup_none in Hcp. apply amem_alookup_none in Hext.
    rewrite (cg_plain fuel kw Hcp Hext) in H. cbv zeta in H.
    set (E := filter notPN (akeys kw)) in *.
    set (AC := udedup (filter notPN (E ++ []))) in *.
    assert (Hchk : E = [] \/ allow = true).
    { destruct E; [left; reflexivity |]. destruct allow eqn:Ea; [right; reflexivity | discriminate H]. }
    rewrite (extra_match _ E allow _ _ Hchk) in H.
    match type of H with (if ?g then _ else _) = _ => destruct g eqn:Epre; try discriminate end.
    unfold bind in H.
    destruct (LOOP kw [] [] (PN ++ ([] ++ usort AC)) [] (flag0 AC)) as [[S hc0] | |] eqn:EL; try discriminate.
    destruct (cg_tail_shape _ _ _ _ _ H) as [hc Ho]. subst o.
    exists S, hc. split; [reflexivity |].
    (* facts about the custom names *)
    assert (HAC : forall x, In x AC -> notPN x = true /\ In x (akeys kw)).
    { intros x Hx. unfold AC in Hx. apply (proj1 (In_udedup _ _)) in Hx. apply filter_In in Hx. destruct Hx as [Hx1 Hx2].
      rewrite app_nil_r in Hx1. unfold E in Hx1. apply filter_In in Hx1. tauto. }
    assert (HND : NoDup (PN ++ ([] ++ usort AC))).
    { cbn [app]. apply NoDup_app_disj; [exact Hnodup | apply NoDup_usort; apply NoDup_udedup |].
      intros x Hx Hx2. apply (proj1 (In_usort _ _)) in Hx2. destruct (HAC x Hx2) as [Hn _]. unfold notPN in Hn.
      apply negb_true_iff in Hn. apply (proj2 (mem_ustr_In x PN)) in Hx. congruence. }
    assert (Hfresh : forall n, In n (PN ++ ([] ++ usort AC)) -> amem n (@nil (ustring * pval)) = false) by reflexivity.
    pose proof (loop_keys _ _ _ _ _ _ HND Hfresh EL) as Hkeys. cbn [map app] in Hkeys.
    assert (Hkw : forall n j, alookup n kw = Some j -> nullish j = false /\ plain_json j = true /\ n <> ext_key).
    { intros n j Hj. destruct (plain_dict_lookup kw n j Hp Hj) as [A B]. repeat split; auto.
      intros En. subst n. rewrite Hext in Hj. discriminate. }
    assert (Hstored : forall x, In x AC -> amem x S = true).
    { intros x Hx. destruct (HAC x Hx) as [Hn Hk].
      unfold akeys in Hk. apply in_map_iff in Hk. destruct Hk as [[k j] [Ek Hk]]. cbn [fst] in Ek. subst k.
      assert (Hm : amem x kw = true) by (apply amem_In; apply in_map_iff; exists (x, j); auto).
      unfold amem in Hm. destruct (alookup x kw) as [j' |] eqn:Ej; try discriminate.
      destruct (Hkw x j' Ej) as [Hnn _].
      eapply loop_custom_stored; [exact HND | | apply slot_of_none; exact Hn | exact Ej | exact Hnn | exact EL].
      apply in_or_app. right. cbn [app]. apply (proj2 (In_usort _ _)). exact Hx. }
    assert (HSkeys : forall m, amem m S = true -> In m PN \/ In m AC).
    { intros m Hm. apply amem_In in Hm. rewrite Hkeys in Hm. apply filter_In in Hm. destruct Hm as [Hm _].
      apply in_app_or in Hm. destruct Hm as [Hm | Hm]; [left; exact Hm | right]. cbn [app] in Hm. apply (proj1 (In_usort _ _)) in Hm. exact Hm. }
    assert (Hwk : forall m, amem m (written S) = true -> amem m S = true).
    { intros m Hm. unfold amem in *. rewrite alookup_written in Hm. destruct (alookup m S); auto. }
    assert (Hres : forall sl, In sl (cslots c) -> mem_ustr (sname sl) reserved_names = false /\
                    (sname sl = ext_key -> sdef sl = DNone)).
    { intros sl Hin. rewrite forallb_forall in Hslots. pose proof (Hslots sl Hin) as Hok. unfold slot_ok in Hok.
      apply andb_true_iff in Hok. destruct Hok as [Hok Hx]. apply andb_true_iff in Hok. destruct Hok as [_ Hr].
      apply negb_true_iff in Hr. split; auto. intros En. rewrite En in Hx. rewrite ustr_eqb_refl in Hx. cbn [negb orb] in Hx.
      destruct (sdef sl); try discriminate. reflexivity. }
    assert (Hcp' : alookup cp_key (written S) = None).
    { apply amem_alookup_none. destruct (amem cp_key (written S)) eqn:Em; auto. exfalso.
      destruct (HSkeys _ (Hwk _ Em)) as [Hm | Hm].
      - unfold PN in Hm. apply in_map_iff in Hm. destruct Hm as [sl [En Hin]]. destruct (Hres sl Hin) as [Hr _].
        rewrite En in Hr. unfold cp_key, reserved_names in Hr. cbn [map mem_ustr] in Hr. rewrite ustr_eqb_refl in Hr. discriminate.
      - destruct (HAC _ Hm) as [_ Hk]. assert (amem cp_key kw = true) by (apply amem_In; exact Hk).
        unfold amem in H0. rewrite Hcp in H0. discriminate. }
    assert (Hext' : alookup ext_key (written S) = None).
    { apply amem_alookup_none. destruct (amem ext_key (written S)) eqn:Em; auto. exfalso.
      pose proof (Hwk _ Em) as HmS.
      destruct (HSkeys _ HmS) as [Hm | Hm].
      - unfold PN in Hm. apply in_map_iff in Hm. destruct Hm as [sl [En Hin]]. destruct (Hres sl Hin) as [_ Hd].
        assert (amem ext_key S = false).
        { eapply (loop_slot_absent kw (PN ++ ([] ++ usort AC)) [] (flag0 AC) S hc0 ext_key sl HND);
            [reflexivity | rewrite <- En; apply slot_of_unique; exact Hin | apply Hd; exact En | exact Hext | exact EL]. }
        congruence.
      - destruct (HAC _ Hm) as [_ Hk]. assert (amem ext_key kw = true) by (apply amem_In; exact Hk).
        unfold amem in H0. rewrite Hext in H0. discriminate. }
    assert (Hgiven : forall m, amem m kw = true -> amem m S = true).
    { intros m Hm. unfold amem in Hm. destruct (alookup m kw) as [j |] eqn:Ej; try discriminate.
      destruct (Hkw m j Ej) as [Hnn _].
      eapply loop_given_stored; [exact HND | | exact Ej | exact Hnn | exact EL].
      destruct (mem_ustr m PN) eqn:Epn.
      - apply in_or_app. left. apply mem_ustr_In. exact Epn.
      - apply in_or_app. right. cbn [app]. apply (proj2 (In_usort _ _)). unfold AC. apply (proj2 (In_udedup _ _)).
        rewrite app_nil_r. apply filter_In. split; [| unfold notPN; rewrite Epn; reflexivity].
        unfold E. apply filter_In. split; [| unfold notPN; rewrite Epn; reflexivity].
        unfold akeys. apply alookup_In in Ej. apply (in_map fst) in Ej. exact Ej. }
    split; [| split; [| exact Hgiven]].
    2:{ intros m Hm. destruct (HSkeys _ (Hwk _ Hm)) as [A | A]; [left; exact A | right].
        destruct (HAC _ A) as [_ Hk]. apply amem_In. exact Hk. }
    (* the re-run *)
    rewrite (cg_plain fuel (written S) Hcp' Hext'). cbv zeta.
    assert (HE' : filter notPN (akeys (written S)) = usort AC).
    { rewrite akeys_written. rewrite Hkeys. cbn [app]. rewrite !filter_app.
      rewrite (filter_all_false _ notPN).
      2:{ intros x Hx. apply filter_In in Hx. destruct Hx as [Hx _]. apply filter_In in Hx. destruct Hx as [Hx _].
          unfold notPN. apply negb_false_iff. apply mem_ustr_In. exact Hx. }
      cbn [app].
      rewrite (filter_all_true _ (fun n => amem n S) (usort AC)) by (intros x Hx; apply Hstored; apply (proj1 (In_usort _ _)); exact Hx).
      rewrite (filter_all_true _ (fun k => negb (mem_ustr k (defaulted_names c S))) (usort AC)).
      2:{ intros x Hx. apply (proj1 (In_usort _ _)) in Hx. destruct (HAC x Hx) as [Hn _]. apply negb_true_iff.
          destruct (mem_ustr x (defaulted_names c S)) eqn:Ed; auto. apply defaulted_are_slots in Ed.
          unfold notPN, PN in Hn. rewrite Ed in Hn. discriminate. }
      apply filter_all_true. intros x Hx. apply (proj1 (In_usort _ _)) in Hx. apply (HAC x Hx). }
    rewrite HE'.
    assert (HAC' : udedup (filter notPN (usort AC ++ [])) = usort AC).
    { rewrite app_nil_r. rewrite filter_all_true by (intros x Hx; apply (proj1 (In_usort _ _)) in Hx; apply (HAC x Hx)).
      apply udedup_NoDup_id. apply NoDup_usort. apply NoDup_udedup. }
    rewrite HAC'.
    assert (Hchk' : usort AC = [] \/ allow = true).
    { destruct Hchk as [He | Ha]; [left | right; exact Ha]. unfold AC. rewrite He. reflexivity. }
    rewrite (extra_match _ (usort AC) allow _ _ Hchk').
    rewrite forallb_usort. rewrite Epre.
    rewrite usort_idem.
    assert (Hf0 : flag0 (usort AC) = flag0 AC).
    { unfold flag0. destruct (vr_flag_from_stored vr); auto. pose proof (usort_nil AC) as Hn.
      destruct (usort AC); destruct AC; auto; discriminate. }
    rewrite Hf0.
    rewrite (loop_rerun kw (written S) (defaulted_names c S) _ _ _ S hc0 HND Hfresh EL).
    - cbn [bind]. rewrite (cg_tail_perm fuel AC (usort AC)); [exact H | intros f; apply existsb_usort].
    - intros n j _. apply Hkw.
    - intros n _. apply mem_defaulted.
    - intros n _. apply alookup_written.
  Qed.

  (* ---------------------------------------------------------------- what a given value becomes *)
  Lemma step_given_value : forall K n s hc s' hc' j,
    alookup n K = Some j -> nullish j = false -> step K n s hc = Ok (s', hc') ->
    match slot_of c n with
    | None => alookup n s' = Some (PJ j)
    | Some sl => exists v h, alookup n s' = Some v /\ CK (skind sl) allow interop j = Ok (v, h)
    end.
  Proof.
    intros K n s hc s' hc' j Hk Hn H. unfold step in H. rewrite assign_raw_spec in H. rewrite Hk, Hn in H.
    destruct (slot_of c n) as [sl |] eqn:Es.
    - destruct (slot_of_In n sl Es) as [_ En]. subst n. unfold bind in H.
      destruct (CP c sl allow interop vrefs (aset (sname sl) (PJ j) s)) as [[a b] | |] eqn:Ec; try discriminate.
      inv_ok H. destruct (cp_given_inv _ _ _ _ _ Ec) as [v [Hv [_ Ea]]]. cbn [fst]. rewrite Ea.
      exists v, b. rewrite alookup_aset_same. auto.
    - inv_ok H. apply alookup_aset_same.
  Qed.

  Lemma loop_given_value : forall K l s hc S hcf n j,
    NoDup l -> In n l -> alookup n K = Some j -> nullish j = false ->
    LOOP K [] [] l s hc = Ok (S, hcf) ->
    match slot_of c n with
    | None => alookup n S = Some (PJ j)
    | Some sl => exists v h, alookup n S = Some v /\ CK (skind sl) allow interop j = Ok (v, h)
    end.
  Proof.
    induction l as [| m rest IH]; intros s hc S hcf n j ND Hin Hk Hn H; [contradiction |].
    rewrite loop_cons in H. unfold bind in H.
    destruct (step K m s hc) as [[s1 h1] | |] eqn:Es; try discriminate. cbn [fst snd] in H.
    inversion ND; subst. destruct Hin as [E | Hin].
    - subst m. rewrite (loop_frame _ _ _ _ _ _ n H H2). eapply step_given_value; eauto.
    - eapply IH; eauto.
  Qed.

  (* what a successful construct_generic on plain input consists of *)
  Lemma cg_unfold : forall fuel kw o,
    plain_dict kw = true ->
    CG fuel c allow interop kw [] vrefs = Ok o ->
    exists AC S hc0 hc,
      NoDup (PN ++ ([] ++ usort AC)) /\
      (forall n, amem n kw = true -> In n (PN ++ ([] ++ usort AC))) /\
      LOOP kw [] [] (PN ++ ([] ++ usort AC)) [] (flag0 AC) = Ok (S, hc0) /\
      o = PObject (cid c) S (defaulted_names c S) hc.
  Proof.
    intros fuel kw o Hp H.
    destruct (plain_dict_no_key kw Hp) as [Hcp Hext].
    apply amem_alookup_none in Hcp. apply amem_alookup_none in Hext.
    rewrite (cg_plain fuel kw Hcp Hext) in H. cbv zeta in H.
    set (E := filter notPN (akeys kw)) in *.
    set (AC := udedup (filter notPN (E ++ []))) in *.
    assert (Hchk : E = [] \/ allow = true).
    { destruct E; [left; reflexivity |]. destruct allow eqn:Ea; [right; reflexivity | discriminate H]. }
    rewrite (extra_match _ E allow _ _ Hchk) in H.
    match type of H with (if ?g then _ else _) = _ => destruct g eqn:Epre; try discriminate end.
    unfold bind in H.
    destruct (LOOP kw [] [] (PN ++ ([] ++ usort AC)) [] (flag0 AC)) as [[S hc0] | |] eqn:EL; try discriminate.
    destruct (cg_tail_shape _ _ _ _ _ H) as [hc Ho]. subst o.
    exists AC, S, hc0, hc.
    assert (HAC : forall x, In x AC -> notPN x = true).
    { intros x Hx. unfold AC in Hx. apply (proj1 (In_udedup _ _)) in Hx. apply filter_In in Hx. tauto. }
    repeat split; auto.
    - cbn [app]. apply NoDup_app_disj; [exact Hnodup | apply NoDup_usort; apply NoDup_udedup |].
      intros x Hx Hx2. apply (proj1 (In_usort _ _)) in Hx2. pose proof (HAC x Hx2) as Hn. unfold notPN in Hn.
      apply negb_true_iff in Hn. apply (proj2 (mem_ustr_In x PN)) in Hx. congruence.
    - intros m Hm. destruct (mem_ustr m PN) eqn:Epn.
      + apply in_or_app. left. apply mem_ustr_In. exact Epn.
      + apply in_or_app. right. cbn [app]. apply (proj2 (In_usort _ _)). unfold AC. apply (proj2 (In_udedup _ _)).
        rewrite app_nil_r. apply filter_In. split; [| unfold notPN; rewrite Epn; reflexivity].
        unfold E. apply filter_In. split; [| unfold notPN; rewrite Epn; reflexivity].
        apply amem_In in Hm. exact Hm.
  Qed.

  Lemma cg_given_value : forall fuel kw S dfl hc n j,
    plain_dict kw = true ->
    CG fuel c allow interop kw [] vrefs = Ok (PObject (cid c) S dfl hc) ->
    alookup n kw = Some j ->
    match slot_of c n with
    | None => alookup n S = Some (PJ j)
    | Some sl => exists v h, alookup n S = Some v /\ CK (skind sl) allow interop j = Ok (v, h)
    end.
  Proof.
    intros fuel kw S dfl hc n j Hp H Hj.
    destruct (cg_unfold fuel kw _ Hp H) as [AC [S' [hc0 [hc' [HND [Hin [EL Eo]]]]]]]. inversion Eo; subst.
    destruct (plain_dict_lookup kw n j Hp Hj) as [Hn _].
    eapply loop_given_value; [exact HND | | exact Hj | exact Hn | exact EL].
    apply Hin. unfold amem. rewrite Hj. reflexivity.
  Qed.

  (* a name that was not given and has no default stays absent *)
  Lemma loop_absent : forall K l s hc S hcf n,
    alookup n K = None -> (forall sl, slot_of c n = Some sl -> sdef sl = DNone) -> amem n s = false ->
    LOOP K [] [] l s hc = Ok (S, hcf) -> amem n S = false.
  Proof.
    induction l as [| m rest IH]; intros s hc S hcf n Hk Hd Hf H.
    - cbn [assign_loop] in H. inv_ok H. exact Hf.
    - rewrite loop_cons in H. unfold bind in H.
      destruct (step K m s hc) as [[s1 h1] | |] eqn:Es; try discriminate. cbn [fst snd] in H.
      assert (Hf1 : amem n s1 = false).
      { destruct (ustr_eqb m n) eqn:E.
        - apply ustr_eqb_eq in E. subst m. destruct (slot_of c n) as [sl |] eqn:Esl.
          + eapply (step_absent_stays K n s hc s1 h1 sl); auto.
          + unfold step in Es. rewrite assign_raw_spec in Es. rewrite Esl, Hk in Es. inv_ok Es. exact Hf.
        - unfold amem. rewrite (sos_frame _ _ _ n (step_shape _ _ _ _ _ _ Es)); [exact Hf |].
          intros E2. subst. rewrite ustr_eqb_refl in E. discriminate. }
      exact (IH s1 h1 S hcf n Hk Hd Hf1 H).
  Qed.

  Lemma cg_absent : forall fuel kw S dfl hc n,
    plain_dict kw = true ->
    CG fuel c allow interop kw [] vrefs = Ok (PObject (cid c) S dfl hc) ->
    alookup n kw = None ->
    (forall sl, slot_of c n = Some sl -> sdef sl = DNone) ->
    amem n S = false.
  Proof.
    intros fuel kw S dfl hc n Hp H Hn Hd.
    destruct (cg_unfold fuel kw _ Hp H) as [AC [S' [hc0 [hc' [HND [Hin [EL Eo]]]]]]]. inversion Eo; subst.
    exact (loop_absent kw _ [] _ S' hc0 n Hn Hd eq_refl EL).
  Qed.

  (* a slot with a default that was not given is filled *)
  Lemma step_default_present : forall K n s hc s' hc' sl,
    alookup n K = None -> amem n s = false -> slot_of c n = Some sl -> sdef sl <> DNone ->
    step K n s hc = Ok (s', hc') ->
    amem n s' = true /\
    (forall fv al, skind sl = KFixed fv al -> sdef sl = DFixed -> alookup n s' = Some (PJ (JStr fv))).
  Proof.
    intros K n s hc s' hc' sl Hk Hf Hs Hd H. unfold step in H. rewrite assign_raw_spec in H. rewrite Hs, Hk in H.
    destruct (slot_of_In n sl Hs) as [_ En]. subst n. apply amem_alookup_none in Hf.
    unfold bind in H.
    destruct (CP c sl allow interop vrefs s) as [[a b] | |] eqn:Ec; try discriminate. inv_ok H. cbn [fst].
    unfold check_property, default_value, bind in Ec. rewrite Hf in Ec.
    destruct (sdef sl) eqn:Ed; try contradiction.
    - destruct (skind sl) eqn:Eknd; try discriminate. cbn [fst snd] in Ec.
      unfold clean_present in Ec. rewrite alookup_aset_same in Ec. rewrite Eknd in Ec. cbn [clean_kind] in Ec.
      rewrite jvalue_eqb_refl in Ec. unfold bind in Ec.
      destruct (refs_ok c sl vrefs (PJ (JStr v))); try discriminate. inv_ok Ec. rewrite aset_aset.
      unfold amem. rewrite alookup_aset_same. split; auto. intros fv al E _. inv E. reflexivity.
    - destruct (skind sl) eqn:Eknd; try discriminate. unfold bind in Ec.
      destruct (ts_clean_now (vr_year_pad vr) p c0 (e_now ev)) as [[us txt] | |]; try discriminate.
      cbn [fst snd] in Ec. unfold clean_present in Ec. rewrite alookup_aset_same in Ec. inv_ok Ec.
      unfold amem. rewrite alookup_aset_same. split; auto. intros fv al E. discriminate.
    - destruct (skind sl) eqn:Eknd; try discriminate. cbn [fst snd] in Ec.
      unfold clean_present in Ec. rewrite alookup_aset_same in Ec.
      match type of Ec with match ?g with _ => _ end = _ => destruct g as [[v0 h0] | |]; try discriminate end.
      unfold bind in Ec. destruct (refs_ok c sl vrefs v0); try discriminate. inv_ok Ec. rewrite aset_aset.
      unfold amem. rewrite alookup_aset_same. split; auto. intros fv al E. discriminate.
    - cbn [fst snd] in Ec. unfold clean_present in Ec. rewrite alookup_aset_same in Ec.
      match type of Ec with match ?g with _ => _ end = _ => destruct g as [[v0 h0] | |]; try discriminate end.
      unfold bind in Ec. destruct (refs_ok c sl vrefs v0); try discriminate. inv_ok Ec. rewrite aset_aset.
      unfold amem. rewrite alookup_aset_same. split; auto. intros fv al _ E. discriminate.
  Qed.

  Lemma loop_default_present : forall K l s hc S hcf n sl,
    NoDup l -> In n l -> (forall m, In m l -> amem m s = false) ->
    alookup n K = None -> slot_of c n = Some sl -> sdef sl <> DNone ->
    LOOP K [] [] l s hc = Ok (S, hcf) ->
    amem n S = true /\
    (forall fv al, skind sl = KFixed fv al -> sdef sl = DFixed -> alookup n S = Some (PJ (JStr fv))).
  Proof.
    induction l as [| m rest IH]; intros s hc S hcf n sl ND Hin Hfr Hk Hs Hd H; [contradiction |].
    rewrite loop_cons in H. unfold bind in H.
    destruct (step K m s hc) as [[s1 h1] | |] eqn:Es; try discriminate. cbn [fst snd] in H.
    inversion ND; subst. destruct Hin as [E | Hin].
    - subst m. unfold amem. rewrite (loop_frame _ _ _ _ _ _ n H H2).
      destruct (step_default_present _ _ _ _ _ _ _ Hk (Hfr n (or_introl eq_refl)) Hs Hd Es) as [A B].
      unfold amem in A. split; auto.
    - eapply (IH s1 h1 S hcf n sl); eauto.
      intros m0 Hm0. unfold amem. rewrite (sos_frame _ _ _ m0 (step_shape _ _ _ _ _ _ Es)).
      + apply Hfr. right. exact Hm0.
      + intros E2. subst. contradiction.
  Qed.

  Lemma cg_default_present : forall fuel kw S dfl hc n sl,
    plain_dict kw = true ->
    CG fuel c allow interop kw [] vrefs = Ok (PObject (cid c) S dfl hc) ->
    alookup n kw = None -> slot_of c n = Some sl -> sdef sl <> DNone ->
    amem n S = true /\
    (forall fv al, skind sl = KFixed fv al -> sdef sl = DFixed -> alookup n S = Some (PJ (JStr fv))).
  Proof.
    intros fuel kw S dfl hc n sl Hp H Hn Hs Hd.
    destruct (cg_unfold fuel kw _ Hp H) as [AC [S' [hc0 [hc' [HND [Hin [EL Eo]]]]]]]. inversion Eo; subst.
    assert (Hinn : In n (PN ++ [] ++ usort AC)).
    { apply in_or_app. left. destruct (slot_of_In n sl Hs) as [Hsl En]. subst n. unfold PN. apply in_map. exact Hsl. }
    exact (loop_default_present kw _ [] _ S' hc0 n sl HND Hinn (fun _ _ => eq_refl) Hn Hs Hd EL).
  Qed.

  (* a clock default that was not given: what is stored is the cleaned clock reading *)
  Lemma step_default_now : forall K n s hc s' hc' sl p c0,
    alookup n K = None -> amem n s = false -> slot_of c n = Some sl -> sdef sl = DNow -> skind sl = KTime p c0 ->
    step K n s hc = Ok (s', hc') ->
    exists us txt, alookup n s' = Some (PTime us txt) /\ ts_clean_now (vr_year_pad vr) p c0 (e_now ev) = Ok (us, txt).
  Proof.
    intros K n s hc s' hc' sl p c0 Hk Hf Hs Hd Hkd H. unfold step in H. rewrite assign_raw_spec in H. rewrite Hs, Hk in H.
    destruct (slot_of_In n sl Hs) as [_ En]. subst n. apply amem_alookup_none in Hf.
    unfold bind in H.
    destruct (CP c sl allow interop vrefs s) as [[a b] | |] eqn:Ec; try discriminate. inv_ok H. cbn [fst].
    unfold check_property, default_value, bind in Ec. rewrite Hf, Hd, Hkd in Ec.
    destruct (ts_clean_now (vr_year_pad vr) p c0 (e_now ev)) as [[us txt] | |]; try discriminate.
    cbn [fst snd] in Ec. unfold clean_present in Ec. rewrite alookup_aset_same in Ec. inv_ok Ec.
    exists us, txt. rewrite alookup_aset_same. auto.
  Qed.

  Lemma loop_default_now : forall K l s hc S hcf n sl p c0,
    NoDup l -> In n l -> (forall m, In m l -> amem m s = false) ->
    alookup n K = None -> slot_of c n = Some sl -> sdef sl = DNow -> skind sl = KTime p c0 ->
    LOOP K [] [] l s hc = Ok (S, hcf) ->
    exists us txt, alookup n S = Some (PTime us txt) /\ ts_clean_now (vr_year_pad vr) p c0 (e_now ev) = Ok (us, txt).
  Proof.
    induction l as [| m rest IH]; intros s hc S hcf n sl p c0 ND Hin Hfr Hk Hs Hd Hkd H; [contradiction |].
    rewrite loop_cons in H. unfold bind in H.
    destruct (step K m s hc) as [[s1 h1] | |] eqn:Es; try discriminate. cbn [fst snd] in H.
    inversion ND; subst. destruct Hin as [E | Hin].
    - subst m. rewrite (loop_frame _ _ _ _ _ _ n H H2).
      exact (step_default_now _ _ _ _ _ _ _ _ _ Hk (Hfr n (or_introl eq_refl)) Hs Hd Hkd Es).
    - eapply (IH s1 h1 S hcf n sl); eauto.
      intros m0 Hm0. unfold amem. rewrite (sos_frame _ _ _ m0 (step_shape _ _ _ _ _ _ Es)).
      + apply Hfr. right. exact Hm0.
      + intros E2. subst. contradiction.
  Qed.

  Lemma cg_default_now : forall fuel kw S dfl hc n sl p c0,
    plain_dict kw = true ->
    CG fuel c allow interop kw [] vrefs = Ok (PObject (cid c) S dfl hc) ->
    alookup n kw = None -> slot_of c n = Some sl -> sdef sl = DNow -> skind sl = KTime p c0 ->
    exists us txt, alookup n S = Some (PTime us txt) /\ ts_clean_now (vr_year_pad vr) p c0 (e_now ev) = Ok (us, txt).
  Proof.
    intros fuel kw S dfl hc n sl p c0 Hp H Hn Hs Hd Hkd.
    destruct (cg_unfold fuel kw _ Hp H) as [AC [S' [hc0 [hc' [HND [Hin [EL Eo]]]]]]]. inversion Eo; subst.
    assert (Hinn : In n (PN ++ [] ++ usort AC)).
    { apply in_or_app. left. destruct (slot_of_In n sl Hs) as [Hsl En]. subst n. unfold PN. apply in_map. exact Hsl. }
    exact (loop_default_now kw _ [] _ S' hc0 n sl p c0 HND Hinn (fun _ _ => eq_refl) Hn Hs Hd Hkd EL).
  Qed.

  (* ---------------------------------------------------------------- nothing is stored that would be written as null / [] *)
  Definition nonnull_values (s : list (ustring * pval)) : Prop :=
    forall n v, alookup n s = Some v -> nullish (encode false v) = false.

  Lemma nonnull_aset : forall n v s, nonnull_values s -> nullish (encode false v) = false -> nonnull_values (aset n v s).
  Proof.
    intros n v s Hs Hv m x Hm. destruct (ustr_eqb m n) eqn:E.
    - apply ustr_eqb_eq in E. subst m. rewrite alookup_aset_same in Hm. inv Hm. exact Hv.
    - rewrite alookup_aset_other in Hm; [eapply Hs; eauto |]. intros E2. subst. rewrite ustr_eqb_refl in E. discriminate.
  Qed.

  Lemma step_nonnull : forall K n s hc s' hc',
    (forall j, alookup n K = Some j -> nullish j = false /\ plain_json j = true /\ n <> ext_key) ->
    amem n s = false ->
    step K n s hc = Ok (s', hc') -> nonnull_values s -> nonnull_values s'.
  Proof.
    intros K n s hc s' hc' HK Hf H Hs.
    destruct (alookup n K) as [j |] eqn:Ek.
    - destruct (HK j eq_refl) as [Hn [Hp Hne]].
      pose proof (step_given_value _ _ _ _ _ _ _ Ek Hn H) as Hv.
      destruct (step_shape _ _ _ _ _ _ H) as [E | [v E]]; subst s'; [exact Hs |].
      apply nonnull_aset; auto. rewrite alookup_aset_same in Hv.
      destruct (slot_of c n) as [sl |] eqn:Es.
      + destruct Hv as [v0 [h [E1 E2]]]. inv E1.
        pose proof (slot_of_ok _ _ Es) as Hok. unfold slot_ok in Hok.
        apply andb_true_iff in Hok. destruct Hok as [Hok _]. apply andb_true_iff in Hok. destruct Hok as [Hok _].
        apply andb_true_iff in Hok. destruct Hok as [Hkind _].
        destruct (slot_of_In n sl Es) as [_ En].
        assert (Hkp : kind_proved vr P (skind sl) = true).
        { apply orb_true_iff in Hkind. destruct Hkind as [Hk | Hk]; auto. apply ustr_eqb_eq in Hk. congruence. }
        eapply (clean_kind_not_nullish vr w rc rp ro P Hrc); eauto.
      + inv Hv. cbn [encode]. exact Hn.
    - (* not given: a default, or nothing *)
      unfold step in H. rewrite assign_raw_spec in H. rewrite Ek in H.
      destruct (slot_of c n) as [sl |] eqn:Es; [| inv_ok H; exact Hs].
      destruct (slot_of_In n sl Es) as [_ En]. subst n. apply amem_alookup_none in Hf.
      pose proof (slot_of_ok _ _ Es) as Hok. unfold slot_ok in Hok.
      apply andb_true_iff in Hok. destruct Hok as [Hok _]. apply andb_true_iff in Hok. destruct Hok as [Hok _].
      apply andb_true_iff in Hok. destruct Hok as [_ Hdef].
      unfold bind in H.
      destruct (CP c sl allow interop vrefs s) as [[a b] | |] eqn:Ec; try discriminate. inv_ok H. cbn [fst].
      unfold check_property, default_value, bind in Ec. rewrite Hf in Ec.
      destruct (sdef sl) eqn:Ed.
      + cbn [fst snd] in Ec. unfold clean_present in Ec. rewrite Hf in Ec. inv_ok Ec. exact Hs.
      + destruct (skind sl) eqn:Eknd; try discriminate. cbn [fst snd] in Ec.
        unfold clean_present in Ec. rewrite alookup_aset_same in Ec. rewrite Eknd in Ec. cbn [clean_kind] in Ec.
        rewrite jvalue_eqb_refl in Ec. unfold bind in Ec.
        destruct (refs_ok c sl vrefs (PJ (JStr v))); try discriminate. inv_ok Ec. rewrite aset_aset.
        apply nonnull_aset; auto.
      + destruct (skind sl) eqn:Eknd; try discriminate. unfold bind in Ec.
        destruct (ts_clean_now (vr_year_pad vr) p c0 (e_now ev)) as [[us txt] | |]; try discriminate.
        cbn [fst snd] in Ec. unfold clean_present in Ec. rewrite alookup_aset_same in Ec. inv_ok Ec.
        apply nonnull_aset; auto.
      + destruct (skind sl) eqn:Eknd; try discriminate. cbn [fst snd] in Ec.
        unfold clean_present in Ec. rewrite alookup_aset_same in Ec. rewrite Eknd in Ec.
        cbn [clean_kind] in Ec. unfold bind in Ec.
        destruct (validate_id vr (prefix ++ e_uuid4 ev) v (Some prefix) interop); try discriminate.
        destruct (refs_ok c sl vrefs (PJ (JStr (prefix ++ e_uuid4 ev)))); try discriminate. inv_ok Ec. rewrite aset_aset.
        apply nonnull_aset; auto.
      + destruct (skind sl) eqn:Eknd; try discriminate. destruct j; try discriminate. cbn [fst snd] in Ec.
        unfold clean_present in Ec. rewrite alookup_aset_same in Ec. rewrite Eknd in Ec. cbn [clean_kind clean_bool] in Ec.
        unfold bind in Ec. destruct (refs_ok c sl vrefs (PJ (JBool b0))); try discriminate. inv_ok Ec. rewrite aset_aset.
        apply nonnull_aset; auto.
  Qed.

  Lemma loop_nonnull : forall K l s hc S hcf,
    NoDup l -> (forall n, In n l -> amem n s = false) ->
    (forall n j, In n l -> alookup n K = Some j -> nullish j = false /\ plain_json j = true /\ n <> ext_key) ->
    LOOP K [] [] l s hc = Ok (S, hcf) -> nonnull_values s -> nonnull_values S.
  Proof.
    induction l as [| n rest IH]; intros s hc S hcf ND Hf HK H Hs.
    - cbn [assign_loop] in H. inv_ok H. exact Hs.
    - rewrite loop_cons in H. unfold bind in H.
      destruct (step K n s hc) as [[s1 h1] | |] eqn:Es; try discriminate. cbn [fst snd] in H.
      inversion ND; subst.
      eapply (IH s1 h1 S hcf); eauto.
      + intros m Hm. unfold amem. rewrite (sos_frame _ _ _ m (step_shape _ _ _ _ _ _ Es)).
        * apply Hf. right. exact Hm.
        * intros E2. subst. contradiction.
      + intros m j Hm. apply HK. right. exact Hm.
      + eapply step_nonnull; eauto.
        * intros j. apply HK. left. reflexivity.
        * apply Hf. left. reflexivity.
  Qed.

  Lemma cg_written_nonnull : forall fuel kw S dfl hc,
    plain_dict kw = true ->
    CG fuel c allow interop kw [] vrefs = Ok (PObject (cid c) S dfl hc) ->
    forall n j, alookup n (written S) = Some j -> nullish j = false.
  Proof.
    intros fuel kw S dfl hc Hp H n j Hj.
    destruct (cg_unfold fuel kw _ Hp H) as [AC [S' [hc0 [hc' [HND [Hin [EL Eo]]]]]]]. inversion Eo; subst.
    destruct (plain_dict_no_key kw Hp) as [_ Hext]. apply amem_alookup_none in Hext.
    assert (Hnn : nonnull_values S').
    { assert (HK : forall m j0, In m (PN ++ [] ++ usort AC) -> alookup m kw = Some j0 ->
                   nullish j0 = false /\ plain_json j0 = true /\ m <> ext_key).
      { intros m j0 _ Hj0. destruct (plain_dict_lookup kw m j0 Hp Hj0) as [A B]. repeat split; auto.
        intros En. subst m. rewrite Hext in Hj0. discriminate. }
      assert (H0 : nonnull_values (@nil (ustring * pval))) by (intros m v Hm; discriminate).
      exact (loop_nonnull kw _ [] _ S' hc0 HND (fun _ _ => eq_refl) HK EL H0). }
    rewrite alookup_written in Hj. destruct (alookup n S') as [v |] eqn:Ev; try discriminate.
    destruct (mem_ustr n (defaulted_names c S')); try discriminate. inv Hj. eapply Hnn; eauto.
  Qed.

  Lemma cg_nodup : forall fuel kw S dfl hc,
    plain_dict kw = true ->
    CG fuel c allow interop kw [] vrefs = Ok (PObject (cid c) S dfl hc) -> NoDup (map fst S).
  Proof.
    intros fuel kw S dfl hc Hp H.
    destruct (cg_unfold fuel kw _ Hp H) as [AC [S' [hc0 [hc' [HND [Hin [EL Eo]]]]]]]. inversion Eo; subst.
    rewrite (loop_keys kw _ [] _ S' hc0 HND (fun _ _ => eq_refl) EL). cbn [map app]. apply NoDup_filter. exact HND.
  Qed.

  Lemma cg_written_members_nonnull : forall fuel kw S dfl hc,
    plain_dict kw = true ->
    CG fuel c allow interop kw [] vrefs = Ok (PObject (cid c) S dfl hc) ->
    forall kv, In kv (written S) -> jvalue_eqb (snd kv) JNull = false.
  Proof.
    intros fuel kw S dfl hc Hp H [n j] Hin. cbn [snd].
    assert (Hl : alookup n (written S) = Some j).
    { apply alookup_NoDup; auto.
      pose proof (akeys_written S) as Ek. unfold akeys in Ek. rewrite Ek.
      apply NoDup_filter. eapply cg_nodup; eauto. }
    pose proof (cg_written_nonnull fuel kw S dfl hc Hp H n j Hl) as Hn. destruct j; auto; discriminate.
  Qed.

  (* ---------------------------------------------------------------- every stored value is written as plain JSON *)
  Definition plain_values (s : list (ustring * pval)) : Prop :=
    forall n v, alookup n s = Some v -> plain_json (encode false v) = true.

  Lemma plain_aset : forall n v s, plain_values s -> plain_json (encode false v) = true -> plain_values (aset n v s).
  Proof.
    intros n v s Hs Hv m x Hm. destruct (ustr_eqb m n) eqn:E.
    - apply ustr_eqb_eq in E. subst m. rewrite alookup_aset_same in Hm. inv Hm. exact Hv.
    - rewrite alookup_aset_other in Hm; [eapply Hs; eauto |]. intros E2. subst. rewrite ustr_eqb_refl in E. discriminate.
  Qed.

  Lemma step_plain : forall K n s hc s' hc',
    (forall j, alookup n K = Some j -> nullish j = false /\ plain_json j = true /\ n <> ext_key) ->
    amem n s = false ->
    step K n s hc = Ok (s', hc') -> plain_values s -> plain_values s'.
  Proof.
    intros K n s hc s' hc' HK Hf H Hs.
    destruct (alookup n K) as [j |] eqn:Ek.
    - destruct (HK j eq_refl) as [Hn [Hp Hne]].
      pose proof (step_given_value _ _ _ _ _ _ _ Ek Hn H) as Hv.
      destruct (step_shape _ _ _ _ _ _ H) as [E | [v E]]; subst s'; [exact Hs |].
      apply plain_aset; auto. rewrite alookup_aset_same in Hv.
      destruct (slot_of c n) as [sl |] eqn:Es.
      + destruct Hv as [v0 [h [E1 E2]]]. inv E1.
        pose proof (slot_of_ok _ _ Es) as Hok. unfold slot_ok in Hok.
        apply andb_true_iff in Hok. destruct Hok as [Hok _]. apply andb_true_iff in Hok. destruct Hok as [Hok _].
        apply andb_true_iff in Hok. destruct Hok as [Hkind _].
        destruct (slot_of_In n sl Es) as [_ En].
        assert (Hkp : kind_proved vr P (skind sl) = true).
        { apply orb_true_iff in Hkind. destruct Hkind as [Hk | Hk]; auto. apply ustr_eqb_eq in Hk. congruence. }
        eapply (clean_kind_plain vr w rc rp ro P Hrc); eauto.
      + inv Hv. cbn [encode]. exact Hp.
    - unfold step in H. rewrite assign_raw_spec in H. rewrite Ek in H.
      destruct (slot_of c n) as [sl |] eqn:Es; [| inv_ok H; exact Hs].
      destruct (slot_of_In n sl Es) as [_ En]. subst n. apply amem_alookup_none in Hf.
      pose proof (slot_of_ok _ _ Es) as Hok. unfold slot_ok in Hok.
      apply andb_true_iff in Hok. destruct Hok as [Hok _]. apply andb_true_iff in Hok. destruct Hok as [Hok _].
      apply andb_true_iff in Hok. destruct Hok as [_ Hdef].
      unfold bind in H.
      destruct (CP c sl allow interop vrefs s) as [[a b] | |] eqn:Ec; try discriminate. inv_ok H. cbn [fst].
      unfold check_property, default_value, bind in Ec. rewrite Hf in Ec.
      destruct (sdef sl) eqn:Ed.
      + cbn [fst snd] in Ec. unfold clean_present in Ec. rewrite Hf in Ec. inv_ok Ec. exact Hs.
      + destruct (skind sl) eqn:Eknd; try discriminate. cbn [fst snd] in Ec.
        unfold clean_present in Ec. rewrite alookup_aset_same in Ec. rewrite Eknd in Ec. cbn [clean_kind] in Ec.
        rewrite jvalue_eqb_refl in Ec. unfold bind in Ec.
        destruct (refs_ok c sl vrefs (PJ (JStr v))); try discriminate. inv_ok Ec. rewrite aset_aset.
        apply plain_aset; auto.
      + destruct (skind sl) eqn:Eknd; try discriminate. unfold bind in Ec.
        destruct (ts_clean_now (vr_year_pad vr) p c0 (e_now ev)) as [[us txt] | |]; try discriminate.
        cbn [fst snd] in Ec. unfold clean_present in Ec. rewrite alookup_aset_same in Ec. inv_ok Ec.
        apply plain_aset; auto.
      + destruct (skind sl) eqn:Eknd; try discriminate. cbn [fst snd] in Ec.
        unfold clean_present in Ec. rewrite alookup_aset_same in Ec. rewrite Eknd in Ec.
        cbn [clean_kind] in Ec. unfold bind in Ec.
        destruct (validate_id vr (prefix ++ e_uuid4 ev) v (Some prefix) interop); try discriminate.
        destruct (refs_ok c sl vrefs (PJ (JStr (prefix ++ e_uuid4 ev)))); try discriminate. inv_ok Ec. rewrite aset_aset.
        apply plain_aset; auto.
      + destruct (skind sl) eqn:Eknd; try discriminate. destruct j; try discriminate. cbn [fst snd] in Ec.
        unfold clean_present in Ec. rewrite alookup_aset_same in Ec. rewrite Eknd in Ec. cbn [clean_kind clean_bool] in Ec.
        unfold bind in Ec. destruct (refs_ok c sl vrefs (PJ (JBool b0))); try discriminate. inv_ok Ec. rewrite aset_aset.
        apply plain_aset; auto.
  Qed.

  Lemma loop_plain : forall K l s hc S hcf,
    NoDup l -> (forall n, In n l -> amem n s = false) ->
    (forall n j, In n l -> alookup n K = Some j -> nullish j = false /\ plain_json j = true /\ n <> ext_key) ->
    LOOP K [] [] l s hc = Ok (S, hcf) -> plain_values s -> plain_values S.
  Proof.
    induction l as [| n rest IH]; intros s hc S hcf ND Hf HK H Hs.
    - cbn [assign_loop] in H. inv_ok H. exact Hs.
    - rewrite loop_cons in H. unfold bind in H.
      destruct (step K n s hc) as [[s1 h1] | |] eqn:Es; try discriminate. cbn [fst snd] in H.
      inversion ND; subst.
      eapply (IH s1 h1 S hcf); eauto.
      + intros m Hm. unfold amem. rewrite (sos_frame _ _ _ m (step_shape _ _ _ _ _ _ Es)).
        * apply Hf. right. exact Hm.
        * intros E2. subst. contradiction.
      + intros m j Hm. apply HK. right. exact Hm.
      + eapply step_plain; eauto.
        * intros j. apply HK. left. reflexivity.
        * apply Hf. left. reflexivity.
  Qed.

  (* the members an object is written with are plain JSON again *)
  Lemma cg_written_plain : forall fuel kw o,
    plain_dict kw = true ->
    CG fuel c allow interop kw [] vrefs = Ok o ->
    exists S hc, o = PObject (cid c) S (defaulted_names c S) hc /\ plain_dict (written S) = true.
  Proof.
    intros fuel kw o Hp H.
    destruct (cg_idem fuel kw o Hp H) as [S [hc [Eo [Hre [Hkeys Hgiven]]]]]. subst o. exists S, hc. split; auto.
    destruct (cg_unfold fuel kw _ Hp H) as [AC [S' [hc0 [hc' [HND [Hin [EL Eo]]]]]]]. inversion Eo; subst S' hc'. clear Eo.
    destruct (plain_dict_no_key kw Hp) as [Hcp Hext].
    assert (HK : forall m j0, In m (PN ++ [] ++ usort AC) -> alookup m kw = Some j0 ->
                 nullish j0 = false /\ plain_json j0 = true /\ m <> ext_key).
    { intros m j0 _ Hj0. destruct (plain_dict_lookup kw m j0 Hp Hj0) as [A B]. repeat split; auto.
      intros En. subst m. apply amem_alookup_none in Hext. rewrite Hext in Hj0. discriminate. }
    assert (Hpl : plain_values S).
    { assert (H0 : plain_values (@nil (ustring * pval))) by (intros m v Hm; discriminate).
      exact (loop_plain kw _ [] _ S hc0 HND (fun _ _ => eq_refl) HK EL H0). }
    (* no custom_properties / extensions member: the re-run above went through cg_plain on (written S) *)
    assert (Hnokey : forall r, In r [cp_key; ext_key] -> amem r (written S) = false).
    { intros r Hr. destruct (amem r (written S)) eqn:Ea; auto. exfalso.
      assert (HrS : amem r S = true).
      { unfold amem in *. rewrite alookup_written in Ea. destruct (alookup r S); auto. }
      destruct (Hkeys r Ea) as [Hpn | Hkw].
      - unfold PN in Hpn. apply in_map_iff in Hpn. destruct Hpn as [sl [En Hsl]].
        rewrite forallb_forall in Hslots. pose proof (Hslots sl Hsl) as Hok. unfold slot_ok in Hok.
        apply andb_true_iff in Hok. destruct Hok as [Hok Hx]. apply andb_true_iff in Hok. destruct Hok as [_ Hr0].
        apply negb_true_iff in Hr0.
        destruct Hr as [Hr | [Hr | []]]; subst r.
        + rewrite En in Hr0. unfold cp_key, reserved_names in Hr0. cbn [map mem_ustr] in Hr0. rewrite ustr_eqb_refl in Hr0. discriminate.
        + rewrite En in Hx. rewrite ustr_eqb_refl in Hx. cbn [negb orb] in Hx.
          assert (amem ext_key S = false).
          { eapply (loop_slot_absent kw (PN ++ ([] ++ usort AC)) [] (flag0 AC) S hc0 ext_key sl HND);
              [reflexivity | rewrite <- En; apply slot_of_unique; exact Hsl | destruct (sdef sl); try discriminate; reflexivity
              | apply amem_alookup_none; exact Hext | exact EL]. }
          congruence.
      - destruct Hr as [Hr | [Hr | []]]; subst r; congruence. }
    unfold plain_dict. apply forallb_forall. intros [n j] Hinm.
    assert (Hl : alookup n (written S) = Some j).
    { apply alookup_NoDup; auto. pose proof (akeys_written S) as Ek. unfold akeys in Ek. rewrite Ek.
      apply NoDup_filter. eapply cg_nodup; eauto. }
    unfold plain_member. cbn [fst snd].
    assert (N1 : ustr_eqb n cp_key = false).
    { destruct (ustr_eqb n cp_key) eqn:E; auto. apply ustr_eqb_eq in E. subst n.
      pose proof (Hnokey cp_key (or_introl eq_refl)) as Hx. unfold amem in Hx. rewrite Hl in Hx. discriminate. }
    assert (N2 : ustr_eqb n ext_key = false).
    { destruct (ustr_eqb n ext_key) eqn:E; auto. apply ustr_eqb_eq in E. subst n.
      pose proof (Hnokey ext_key (or_intror (or_introl eq_refl))) as Hx. unfold amem in Hx. rewrite Hl in Hx. discriminate. }
    rewrite N1, N2. cbn [negb andb].
    rewrite (cg_written_nonnull fuel kw S _ hc Hp H n j Hl). cbn [negb andb].
    rewrite alookup_written in Hl. destruct (alookup n S) as [v |] eqn:Ev; try discriminate.
    destruct (mem_ustr n (defaulted_names c S)); try discriminate. inv Hl. eapply Hpl; eauto.
  Qed.
End Obj.

(* Proofs/FiltersLaws.v -- conjunction = intersection, more filters shrink,
   FilterSet combination (query argument / attached / composite-passed reach
   the same evaluation), every answer satisfies every filter, the closed
   forms of the operators, timestamps as instants (and the witnesses of the
   two defective variants).                                               *)
From Coq Require Import NArith ZArith List String Bool Permutation Lia.
From V Require Import Base.UString Model.Filters Spec.FilterSpec Proofs.FiltersBasics Proofs.FiltersOpt Proofs.FiltersFs.
Import ListNotations.

(* ---- conjunction ---- *)

Lemma all_hold_app : forall mode fl1 fl2 o,
  all_hold mode (fl1 ++ fl2) o = bind (all_hold mode fl1 o) (fun b => if b then all_hold mode fl2 o else Ok false).
Proof.
  induction fl1 as [|f fl1 IH]; intros fl2 o; simpl; auto.
  destruct (check_filter mode f o) as [[|]|e]; simpl; auto.
Qed.

Lemma holds_b_app : forall mode fl1 fl2 o,
  holds_b mode (fl1 ++ fl2) o = holds_b mode fl1 o && holds_b mode fl2 o.
Proof.
  intros. unfold holds_b. rewrite all_hold_app. destruct (all_hold mode fl1 o) as [[|]|e]; simpl; auto.
Qed.

Lemma defined_on_app : forall mode fl1 fl2 o,
  defined_on mode fl1 o -> defined_on mode fl2 o -> defined_on mode (fl1 ++ fl2) o.
Proof.
  intros mode fl1 fl2 o [b1 H1] [b2 H2]. unfold defined_on. rewrite all_hold_app, H1. simpl. destruct b1; eauto.
Qed.

Lemma defined_on_app_l : forall mode fl1 fl2 o, defined_on mode (fl1 ++ fl2) o -> defined_on mode fl1 o.
Proof.
  intros mode fl1 fl2 o [b H]. rewrite all_hold_app in H. unfold defined_on.
  destruct (all_hold mode fl1 o) as [b1|e]; eauto; discriminate.
Qed.

Lemma filter_filter : forall {A} (f g : A -> bool) (l : list A),
  filter g (filter f l) = filter (fun x => f x && g x) l.
Proof.
  induction l as [|x l IH]; simpl; auto. destruct (f x); simpl; [destruct (g x)|]; rewrite IH; auto.
Qed.

Lemma filter_ext_in : forall {A} (f g : A -> bool) (l : list A),
  (forall x, In x l -> f x = g x) -> filter f l = filter g l.
Proof.
  induction l as [|x l IH]; simpl; intro H; auto. rewrite (H x (or_introl eq_refl)). rewrite IH; auto.
Qed.

Theorem conj_is_intersection_lemma : forall mode fl1 fl2 objs r1 r2,
  apply_filters mode fl1 objs = Ok r1 -> apply_filters mode fl2 objs = Ok r2 ->
  apply_filters mode (fl1 ++ fl2) objs = Ok (filter (holds_b mode fl2) r1) /\
  (forall o, In o (filter (holds_b mode fl2) r1) <-> In o r1 /\ In o r2).
Proof.
  intros mode fl1 fl2 objs r1 r2 H1 H2. apply apply_filters_ok in H1. apply apply_filters_ok in H2.
  destruct H1 as [D1 ->]. destruct H2 as [D2 ->]. split.
  - apply apply_filters_ok. split.
    + rewrite Forall_forall in *. intros o Ho. apply defined_on_app; auto.
    + rewrite filter_filter. apply filter_ext_in. intros. symmetry. apply holds_b_app.
  - intro o. rewrite !filter_In. tauto.
Qed.

Theorem more_filters_shrink_lemma : forall mode fl extra objs r',
  apply_filters mode (fl ++ extra) objs = Ok r' ->
  exists r, apply_filters mode fl objs = Ok r /\ r' = filter (holds_b mode extra) r /\ incl r' r.
Proof.
  intros mode fl extra objs r' H. apply apply_filters_ok in H. destruct H as [D ->].
  exists (filter (holds_b mode fl) objs). split; [|split].
  - apply apply_filters_ok. split; auto. rewrite Forall_forall in *. intros o Ho. eapply defined_on_app_l; eauto.
  - rewrite filter_filter. apply filter_ext_in. intros. apply holds_b_app.
  - intros o Ho. apply filter_In in Ho. destruct Ho as [Ho Hh]. rewrite holds_b_app in Hh.
    apply andb_true_iff in Hh. apply filter_In. tauto.
Qed.

Theorem more_filters_shrink_front_lemma : forall mode fl extra objs r r',
  apply_filters mode (extra ++ fl) objs = Ok r' -> apply_filters mode fl objs = Ok r ->
  r' = filter (holds_b mode extra) r /\ incl r' r.
Proof.
  intros mode fl extra objs r r' H' H. apply apply_filters_ok in H. apply apply_filters_ok in H'.
  destruct H as [D ->]. destruct H' as [D' ->]. split.
  - rewrite filter_filter. apply filter_ext_in. intros. rewrite holds_b_app. apply andb_comm.
  - intros o Ho. apply filter_In in Ho. destruct Ho as [Ho Hh]. rewrite holds_b_app in Hh.
    apply andb_true_iff in Hh. apply filter_In. tauto.
Qed.

(* ---- every answer satisfies every filter ---- *)

Lemma apply_filters_answers : forall mode fl objs r o,
  apply_filters mode fl objs = Ok r -> In o r -> In o objs /\ holds_b mode fl o = true.
Proof. intros mode fl objs r o H Ho. apply apply_filters_ok in H. destruct H as [_ ->]. apply filter_In in Ho. auto. Qed.

Lemma search_unversioned_answers : forall mode fl es ai r o,
  search_unversioned mode fl es ai = Ok r -> In o r -> holds_b mode fl o = true.
Proof.
  intros mode fl es ai r o H Ho. unfold search_unversioned in H. apply bind_ok in H. destruct H as [files [_ H]].
  unfold check_files in H. eapply apply_filters_answers; eauto.
Qed.

Lemma search_versioned_answers : forall mode fl es ai r o,
  search_versioned mode fl es ai = Ok r -> In o r -> holds_b mode fl o = true.
Proof.
  intros mode fl es ai r o H Ho. unfold search_versioned in H. apply bind_ok in H. destruct H as [dirs [_ H]].
  apply bind_ok in H. destruct H as [r1 [H1 H]]. apply bind_ok in H. destruct H as [r2 [H2 H]]. inversion H; subst.
  apply in_app_or in Ho. destruct Ho as [Ho | Ho].
  - unfold check_files in H1. eapply apply_filters_answers; eauto.
  - eapply search_unversioned_answers; eauto.
Qed.

Lemma search_dirs_answers : forall mode fl ai dirs r o,
  search_dirs mode fl dirs ai = Ok r -> In o r -> holds_b mode fl o = true.
Proof.
  induction dirs as [|[d es] dirs IH]; simpl; intros r o H Ho.
  - inversion H; subst. contradiction.
  - apply bind_ok in H. destruct H as [r1 [H1 H]]. apply bind_ok in H. destruct H as [r2 [H2 H]]. inversion H; subst.
    apply in_app_or in Ho. destruct Ho as [Ho | Ho]; [|eapply IH; eauto].
    destruct (is_versioned_type_dir d es); [eapply search_versioned_answers | eapply search_unversioned_answers]; eauto.
Qed.

Theorem fs_search_answers_hold : forall mode om t fl r o,
  fs_search mode om t fl = Ok r -> In o r -> forall f, In f fl -> check_filter mode f o = Ok true.
Proof.
  intros mode om t fl r o H Ho. apply holds_b_true. unfold fs_search in H.
  apply bind_ok in H. destruct H as [[at_ ai] [_ H]]. apply bind_ok in H. destruct H as [dirs [_ H]].
  eapply search_dirs_answers; eauto.
Qed.

(* ---- FilterSet.add and the complete query ---- *)

Definition no_fuzzy_dups (l : list flt) : Prop :=
  forall f g, In f l -> In g l -> filter_eqb f g = true -> f = g.

Lemma no_fuzzy_dups_incl : forall l l', incl l' l -> no_fuzzy_dups l -> no_fuzzy_dups l'.
Proof. intros l l' Hi H f g Hf Hg. apply H; auto. Qed.

Lemma fset_add_keeps : forall new cur f, In f cur -> In f (fset_add cur new).
Proof.
  induction new as [|g new IH]; simpl; intros cur f H; auto.
  apply IH. destruct (existsb (fun h => filter_eqb g h) cur); auto. apply in_or_app. auto.
Qed.

Lemma fset_add_incl : forall new cur f, In f (fset_add cur new) -> In f cur \/ In f new.
Proof.
  induction new as [|g new IH]; simpl; intros cur f H; auto.
  apply IH in H. destruct H as [H | H]; auto.
  destruct (existsb (fun h => filter_eqb g h) cur); auto.
  apply in_app_or in H. destruct H as [H | [H | []]]; auto.
Qed.

Lemma all_hold_drop_dup : forall mode cur f rest o,
  In f cur -> all_hold mode (cur ++ f :: rest) o = all_hold mode (cur ++ rest) o.
Proof.
  intros mode cur f rest o Hin. rewrite !all_hold_app.
  destruct (all_hold mode cur o) as [[|]|e] eqn:E; simpl; auto.
  rewrite all_hold_true in E. rewrite (E f Hin). reflexivity.
Qed.

Lemma fset_add_all_hold : forall mode new cur o,
  no_fuzzy_dups (cur ++ new) -> all_hold mode (fset_add cur new) o = all_hold mode (cur ++ new) o.
Proof.
  induction new as [|g new IH]; intros cur o Hn; simpl.
  - rewrite app_nil_r. reflexivity.
  - destruct (existsb (fun h => filter_eqb g h) cur) eqn:E.
    + apply existsb_exists in E. destruct E as [h [Hh Hgh]].
      assert (g = h). { apply Hn; auto; apply in_or_app; [right; left | left]; auto. } subst h.
      rewrite all_hold_drop_dup; auto. apply IH.
      eapply no_fuzzy_dups_incl; [|exact Hn]. intros x Hx. apply in_app_or in Hx. apply in_or_app. destruct Hx; auto. right; right; auto.
    + rewrite IH; rewrite <- app_assoc; simpl; auto.
Qed.

Lemma all_hold_ext_app : forall mode a a' b o,
  all_hold mode a o = all_hold mode a' o -> all_hold mode (a ++ b) o = all_hold mode (a' ++ b) o.
Proof. intros. rewrite !all_hold_app. rewrite H. reflexivity. Qed.

Theorem complete_query_verdict : forall mode q att comp o,
  no_fuzzy_dups (q ++ att ++ comp) ->
  all_hold mode (complete_query q att comp) o = all_hold mode (q ++ att ++ comp) o.
Proof.
  intros mode q att comp o Hn. unfold complete_query.
  set (A := fset_add [] q). set (B := fset_add A att).
  assert (HA : forall f, In f A -> In f q).
  { intros f Hf. apply fset_add_incl in Hf. destruct Hf as [[] | Hf]; auto. }
  assert (HB : forall f, In f B -> In f (q ++ att)).
  { intros f Hf. apply fset_add_incl in Hf. apply in_or_app. destruct Hf as [Hf | Hf]; auto. }
  assert (EA : all_hold mode A o = all_hold mode q o).
  { unfold A. rewrite fset_add_all_hold; auto. simpl.
    eapply no_fuzzy_dups_incl; [|exact Hn]. intros x Hx. apply in_or_app. auto. }
  assert (EB : all_hold mode B o = all_hold mode (q ++ att) o).
  { unfold B. rewrite fset_add_all_hold.
    - apply all_hold_ext_app. auto.
    - eapply no_fuzzy_dups_incl; [|exact Hn]. intros x Hx. apply in_app_or in Hx. apply in_or_app.
      destruct Hx as [Hx | Hx]; auto. right. apply in_or_app. auto. }
  rewrite fset_add_all_hold.
  - rewrite (all_hold_ext_app mode B (q ++ att) comp o EB). rewrite <- app_assoc. reflexivity.
  - eapply no_fuzzy_dups_incl; [|exact Hn]. intros x Hx. apply in_app_or in Hx.
    destruct Hx as [Hx | Hx].
    + apply HB in Hx. apply in_app_or in Hx. apply in_or_app. destruct Hx; auto. right. apply in_or_app. auto.
    + apply in_or_app. right. apply in_or_app. auto.
Qed.

Lemma apply_filters_ext : forall mode fl fl' objs,
  (forall o, all_hold mode fl o = all_hold mode fl' o) -> apply_filters mode fl objs = apply_filters mode fl' objs.
Proof.
  intros mode fl fl' objs H. induction objs as [|o objs IH]; simpl; auto. rewrite H, IH. reflexivity.
Qed.

Lemma complete_query_covers : forall q att comp f,
  no_fuzzy_dups (q ++ att ++ comp) -> In f (q ++ att ++ comp) -> In f (complete_query q att comp).
Proof.
  intros q att comp f Hn Hf. unfold complete_query.
  assert (Hgen : forall new cur g, no_fuzzy_dups (cur ++ new) -> In g (cur ++ new) -> In g (fset_add cur new)).
  { induction new as [|h new IH]; intros cur g Hnd Hg; simpl.
    - rewrite app_nil_r in Hg. auto.
    - apply in_app_or in Hg. destruct Hg as [Hg | [Hg | Hg]].
      + apply fset_add_keeps. destruct (existsb _ cur); auto. apply in_or_app. auto.
      + subst h. apply fset_add_keeps. destruct (existsb (fun h0 => filter_eqb g h0) cur) eqn:E.
        * apply existsb_exists in E. destruct E as [h [Hh Hgh]].
          assert (g = h). { apply Hnd; auto; apply in_or_app; [right; left | left]; auto. } subst. auto.
        * apply in_or_app. right. left. auto.
      + destruct (existsb (fun h0 => filter_eqb h h0) cur) eqn:E.
        * apply IH.
          -- eapply no_fuzzy_dups_incl; [|exact Hnd]. intros x Hx. apply in_app_or in Hx. apply in_or_app. destruct Hx; auto. right; right; auto.
          -- apply in_or_app. auto.
        * apply IH.
          -- rewrite <- app_assoc. simpl. auto.
          -- apply in_or_app. auto. }
  assert (HA : forall g, In g (fset_add [] q) -> In g q).
  { intros g Hg. apply fset_add_incl in Hg. destruct Hg as [[] | Hg]; auto. }
  assert (HB : forall g, In g (fset_add (fset_add [] q) att) -> In g (q ++ att)).
  { intros g Hg. apply fset_add_incl in Hg. apply in_or_app. destruct Hg as [Hg | Hg]; auto. }
  apply in_app_or in Hf. destruct Hf as [Hf | Hf].
  - apply fset_add_keeps. apply fset_add_keeps. apply Hgen; simpl; auto.
    eapply no_fuzzy_dups_incl; [|exact Hn]. intros x Hx. apply in_or_app. auto.
  - apply in_app_or in Hf. destruct Hf as [Hf | Hf].
    + apply fset_add_keeps. apply Hgen.
      * eapply no_fuzzy_dups_incl; [|exact Hn]. intros x Hx. apply in_app_or in Hx. apply in_or_app.
        destruct Hx as [Hx | Hx]; auto. right. apply in_or_app. auto.
      * apply in_or_app. auto.
    + apply Hgen.
      * eapply no_fuzzy_dups_incl; [|exact Hn]. intros x Hx. apply in_app_or in Hx.
        destruct Hx as [Hx | Hx].
        -- apply HB in Hx. apply in_app_or in Hx. apply in_or_app. destruct Hx; auto. right. apply in_or_app. auto.
        -- apply in_or_app. right. apply in_or_app. auto.
      * apply in_or_app. auto.
Qed.

(* the three ways filters reach a source end in one evaluation *)
Theorem mem_query_is_naive : forall mode data q att comp,
  no_fuzzy_dups (q ++ att ++ comp) ->
  mem_query mode data q att comp = apply_filters mode (q ++ att ++ comp) (mem_objects data).
Proof.
  intros. unfold mem_query. apply apply_filters_ext. intro o. apply complete_query_verdict. auto.
Qed.

Theorem source_answers_satisfy : forall mode om s q comp r o f,
  no_fuzzy_dups (q ++ (match s with SMem _ a => a | SFs _ a => a end) ++ comp) ->
  source_query mode om s q comp = Ok r -> In o r ->
  In f (q ++ (match s with SMem _ a => a | SFs _ a => a end) ++ comp) -> check_filter mode f o = Ok true.
Proof.
  intros mode om s q comp r o f Hn H Ho Hf. destruct s as [data att | t att]; simpl in *.
  - unfold mem_query in H. destruct (apply_filters_answers _ _ _ _ _ H Ho) as [_ Hh].
    rewrite holds_b_true in Hh. apply Hh. apply complete_query_covers; auto.
  - unfold fs_query in H. eapply fs_search_answers_hold; eauto. apply complete_query_covers; auto.
Qed.

(* ---- composite ---- *)

Lemma assoc_set_in : forall {B} k (v : B) l x, In x (map snd (assoc_set k v l)) -> x = v \/ In x (map snd l).
Proof.
  induction l as [|[k' v'] l IH]; simpl; intros x H.
  - destruct H as [H | []]; auto.
  - destruct (py_eq k k'); simpl in H.
    + destruct H as [H | H]; auto.
    + destruct H as [H | H]; auto. apply IH in H. destruct H; auto.
Qed.

Lemma deduplicate_in : forall l acc r o,
  deduplicate acc l = Ok r -> In o r -> In o (map snd acc) \/ In o l.
Proof.
  induction l as [|x l IH]; simpl; intros acc r o H Ho.
  - inversion H; subst. auto.
  - apply bind_ok in H. destruct H as [k [_ H]]. destruct (IH _ _ _ H Ho) as [Hin | Hin]; auto.
    apply assoc_set_in in Hin. destruct Hin as [-> | Hin]; auto.
Qed.

Lemma concat_res_in : forall {A} (l : list (res (list A))) r x,
  concat_res l = Ok r -> In x r -> exists r0, In (Ok r0) l /\ In x r0.
Proof.
  induction l as [|a l IH]; simpl; intros r x H Hx.
  - inversion H; subst. contradiction.
  - apply bind_ok in H. destruct H as [ra [Ha H]]. apply bind_ok in H. destruct H as [rb [Hb H]]. inversion H; subst.
    apply in_app_or in Hx. destruct Hx as [Hx | Hx].
    + exists ra. split; auto.
    + destruct (IH _ _ Hb Hx) as [r0 [H0 Hx0]]. exists r0. split; auto.
Qed.

Theorem composite_answers_from_members : forall mode om members catt q outer r o,
  comp_query mode om members catt q outer = Ok r -> In o r ->
  exists s r0, In s members /\
    source_query mode om s q (fset_add (fset_add [] catt) outer) = Ok r0 /\ In o r0.
Proof.
  intros mode om members catt q outer r o H Ho. unfold comp_query in H.
  apply bind_ok in H. destruct H as [all_data [Hc H]].
  assert (Hin : In o all_data).
  { destruct all_data as [|x l]; [inversion H; subst; contradiction|].
    destruct (deduplicate_in _ _ _ _ H Ho) as [[] | Hin]; auto. }
  destruct (concat_res_in _ _ _ Hc Hin) as [r0 [Hr0 Ho0]].
  apply in_map_iff in Hr0. destruct Hr0 as [s [Hs Hm]]. exists s, r0. auto.
Qed.

(* ---- closed forms of the operators ---- *)

Lemma any_res_app : forall {A} (g : A -> res bool) (a b : list A),
  any_res g (a ++ b) = bind (any_res g a) (fun r => if r then Ok true else any_res g b).
Proof.
  induction a as [|x a IH]; intro b; simpl; auto.
  destruct (g x) as [[|]|e]; simpl; auto.
Qed.

Fixpoint concat_opt {A} (l : list (option (list A))) : option (list A) :=
  match l with
  | [] => Some []
  | Some a :: l' => match concat_opt l' with Some b => Some (a ++ b)%list | None => None end
  | None :: _ => None
  end.

(* the values a dotted path reaches (lists stand for their elements at every step) *)
Fixpoint path_values (segs : list ustring) (o : pv) : option (list pv) :=
  match segs with
  | [] => None
  | p :: rest =>
      match o with
      | VDict m =>
          match plookup p m with
          | None => Some []
          | Some x =>
              let elems := match x with VList l => l | _ => [x] end in
              match rest with
              | [] => Some elems
              | _ :: _ => concat_opt (map (path_values rest) elems)
              end
          end
      | _ => None
      end
  end.

Lemma any_res_single : forall {A} (g : A -> res bool) x, any_res g [x] = g x.
Proof. intros. simpl. destruct (g x) as [[|]|e]; auto. Qed.

Theorem check_path_any : forall mode f segs o vs,
  path_values segs o = Some vs -> check_path mode f segs o = any_res (check_property mode f) vs.
Proof.
  induction segs as [|p rest IH]; intros o vs H; simpl in H; try discriminate.
  destruct o as [| | | | | | | |m]; try discriminate.
  cbn [check_path]. destruct (plookup p m) as [x|]; [|inversion H; subst; reflexivity].
  destruct rest as [|p2 rest2].
  - inversion H; subst. destruct x; try (symmetry; apply any_res_single). reflexivity.
  - assert (Hl : forall l vs0, concat_opt (map (path_values (p2 :: rest2)) l) = Some vs0 ->
                 any_res (check_path mode f (p2 :: rest2)) l = any_res (check_property mode f) vs0).
    { induction l as [|e l IHl]; intros vs0 Hc; cbn [map concat_opt] in Hc.
      - inversion Hc; subst. reflexivity.
      - destruct (path_values (p2 :: rest2) e) as [a|] eqn:Ea; try discriminate.
        destruct (concat_opt (map (path_values (p2 :: rest2)) l)) as [b|] eqn:Eb; try discriminate.
        inversion Hc; subst. rewrite any_res_app. cbn [any_res]. rewrite (IH e a Ea). rewrite (IHl b eq_refl). reflexivity. }
    destruct x; try (rewrite <- (Hl [_] vs H); rewrite any_res_single; reflexivity).
    apply Hl. auto.
Qed.

(* an object without the (first) property never matches, whatever the operator *)
Theorem absent_property_false : forall mode f m,
  plookup (hd [] (split_dot (fprop f))) m = None -> check_filter mode f (VDict m) = Ok false.
Proof.
  intros mode f m H. unfold check_filter. destruct (split_dot (fprop f)) as [|p rest] eqn:E.
  - exfalso. unfold split_dot in E. generalize (@nil N) as cur, E. clear.
    induction (fprop f) as [|c s IH]; simpl; intros cur E; try discriminate.
    destruct (N.eqb c 46); try discriminate. eapply IH; eauto.
  - simpl in H. cbn [check_path]. rewrite H. reflexivity.
Qed.

Definition cmpZ (o : fop) (a b : Z) : bool :=
  match o with
  | OEq => Z.eqb a b | ONe => negb (Z.eqb a b)
  | OGt => Z.ltb b a | OLt => Z.ltb a b | OGe => Z.leb b a | OLe => Z.leb a b
  | _ => false
  end.

Definition cmpS (o : fop) (a b : ustring) : bool :=
  match o with
  | OEq => ustr_eqb a b | ONe => negb (ustr_eqb a b)
  | OGt => ustr_ltb b a | OLt => ustr_ltb a b | OGe => negb (ustr_ltb a b) | OLe => negb (ustr_ltb b a)
  | OIn => is_substr a b | OContains => is_substr b a
  end.

(* numbers (bool is an int; a float is m/1024): exact comparison of the values *)
Theorem op_numbers : forall mode f x a b,
  num_of x = Some a -> num_of (fval f) = Some b -> is_cmp_op (fop_ f) = true ->
  check_property mode f x = Ok (cmpZ (fop_ f) a b).
Proof.
  intros mode f x a b Hx Hv Hop. unfold check_property.
  assert (Hc : coerce mode (fop_ f) x (fval f) = Ok (x, fval f)).
  { destruct x; simpl in Hx; try discriminate; destruct (fval f); simpl in Hv; try discriminate; reflexivity. }
  rewrite Hc. cbn [bind].
  destruct x; simpl in Hx; try discriminate; destruct (fval f); simpl in Hv; try discriminate;
    inversion Hx; inversion Hv; subst; destruct (fop_ f); simpl in Hop; try discriminate; reflexivity.
Qed.

(* strings (that do not read as timestamps, in the repaired variant): code point order, substring for in / contains *)
Theorem op_strings : forall mode f a b,
  (mode = InstantOnDicts -> parse_ts a = None) -> fval f = VStr b ->
  check_property mode f (VStr a) = Ok (cmpS (fop_ f) a b).
Proof.
  intros mode f a b Hts Hv. unfold check_property. rewrite coerce_str; auto. cbn [bind]. rewrite Hv.
  destruct (fop_ f); reflexivity.
Qed.

(* `in` with a list of values: equal to one of them *)
Theorem op_in_list : forall mode f x l,
  fop_ f = OIn -> fval f = VTuple l ->
  check_property mode f x = Ok (existsb (py_eq x) l).
Proof.
  intros mode f x l Hop Hv. unfold check_property. rewrite Hop, Hv.
  destruct x; try reflexivity; destruct mode; reflexivity.
Qed.

(* a timestamp property of a parsed object against a timestamp string: instants *)
Theorem ts_on_objects_lemma : forall mode f t s t',
  fval f = VStr s -> parse_ts s = Some t' -> is_cmp_op (fop_ f) = true ->
  check_property mode f (VTime t) = Ok (cmpZ (fop_ f) t t').
Proof.
  intros mode f t s t' Hv Hp Hop. unfold check_property. rewrite Hv. simpl coerce. rewrite Hp. cbn [bind].
  destruct (fop_ f); simpl in Hop; try discriminate; reflexivity.
Qed.

Theorem ts_bad_string_raises : forall mode f t s,
  fval f = VStr s -> parse_ts s = None -> check_property mode f (VTime t) = Raise EValueError.
Proof. intros mode f t s Hv Hp. unfold check_property. rewrite Hv. simpl coerce. rewrite Hp. reflexivity. Qed.

(* repaired variant: timestamp text kept in a dictionary is compared as an instant *)
Theorem ts_on_dicts_repaired_lemma : forall f xs t s t',
  fval f = VStr s -> parse_ts xs = Some t -> parse_ts s = Some t' -> is_cmp_op (fop_ f) = true ->
  check_property InstantOnDicts f (VStr xs) = Ok (cmpZ (fop_ f) t t').
Proof.
  intros f xs t s t' Hv Hx Hp Hop. unfold check_property. rewrite Hv. simpl coerce. rewrite Hop, Hx, Hp. cbn [bind].
  destruct (fop_ f); simpl in Hop; try discriminate; reflexivity.
Qed.

(* the code as it is: text comparison, which is not instant comparison *)
Theorem ts_on_dicts_refuted_lemma :
  exists xs s t t', parse_ts xs = Some t /\ parse_ts s = Some t' /\ (t < t')%Z /\
    check_property TextOnDicts (F "modified" OGt (vs "2020-01-01T00:00:00.5Z")) (VStr xs) = Ok true /\
    s = u "2020-01-01T00:00:00.5Z".
Proof.
  exists (u "2020-01-01T00:00:00Z"), (u "2020-01-01T00:00:00.5Z"), 1577836800000000%Z, 1577836800500000%Z.
  repeat split; vm_compute; reflexivity.
Qed.

(* ---- the code's shortcuts outside tyid_wf: two witnesses ---- *)

Local Open Scope string_scope.

Definition w_obj : pv := vd [("type", vs "identity"); ("id", vs "identity--1"); ("name", vs "i")].
Definition w_tree : fs := [(u "identity", [TFile (u "identity--1.json") w_obj])].

Lemma w_tree_Inv : forall mode, Inv mode w_tree.
Proof.
  intro mode. split.
  - repeat constructor. simpl. tauto.
  - constructor; [|constructor]. split.
    + repeat constructor. simpl. tauto.
    + intros e [<- | []]. simpl. intros stem Hs.
      assert (Hs' : (stem ++ dot_json)%list = (u "identity--1" ++ dot_json)%list) by (rewrite <- Hs; reflexivity).
      apply app_inv_tail in Hs'. subst stem. clear Hs.
      split; [reflexivity|]. exists [(u "type", vs "identity"); (u "id", vs "identity--1"); (u "name", vs "i")].
      repeat split; try reflexivity; intros _; vm_compute; reflexivity.
Qed.

Theorem opt_in_string_refuted_lemma : forall mode,
  Inv mode w_tree /\
  naive mode [F "type" OIn (vs "identity,x-foo")] w_tree = Ok [w_obj] /\
  fs_search mode OptAnyValue w_tree [F "type" OIn (vs "identity,x-foo")] = Ok [] /\
  fs_search mode OptStringsOnly w_tree [F "type" OIn (vs "identity,x-foo")] = Ok [w_obj].
Proof.
  intro mode. split; [apply w_tree_Inv|]. destruct mode; repeat split; vm_compute; reflexivity.
Qed.

Theorem opt_nonstring_refuted_lemma : forall mode,
  Inv mode w_tree /\
  naive mode [F "id" OEq (VInt 5)] w_tree = Ok [] /\
  fs_search mode OptAnyValue w_tree [F "id" OEq (VInt 5)] = Raise EAttributeError /\
  fs_search mode OptStringsOnly w_tree [F "id" OEq (VInt 5)] = Ok [].
Proof.
  intro mode. split; [apply w_tree_Inv|]. destruct mode; repeat split; vm_compute; reflexivity.
Qed.

(* the hypotheses of the main theorem are satisfiable, with a non-empty answer *)
Lemma w_example : forall mode om,
  Inv mode w_tree /\ tyid_wf om [F "id" OEq (vs "identity--1"); F "type" ONe (vs "tool")] /\
  naive mode [F "id" OEq (vs "identity--1"); F "type" ONe (vs "tool")] w_tree = Ok [w_obj] /\
  fs_search mode om w_tree [F "id" OEq (vs "identity--1"); F "type" ONe (vs "tool")] = Ok [w_obj].
Proof.
  intros mode om. split; [apply w_tree_Inv|]. split; [destruct om; [vm_compute; reflexivity | exact I]|].
  destruct mode, om; split; vm_compute; reflexivity.
Qed.

(* ---- the laws on the filesystem route ---- *)

Lemma tyid_wf_app : forall om fl1 fl2, tyid_wf om fl1 -> tyid_wf om fl2 -> tyid_wf om (fl1 ++ fl2).
Proof. intros om fl1 fl2 H1 H2. destruct om; simpl in *; auto. rewrite forallb_app. rewrite H1, H2. reflexivity. Qed.

Lemma tyid_wf_app_l : forall om fl1 fl2, tyid_wf om (fl1 ++ fl2) -> tyid_wf om fl1.
Proof. intros om fl1 fl2 H. destruct om; simpl in *; auto. rewrite forallb_app in H. apply andb_true_iff in H. tauto. Qed.

Theorem fs_conj_is_intersection_lemma : forall mode om t fl1 fl2 r1 r2,
  Inv mode t -> tyid_wf om fl1 -> tyid_wf om fl2 ->
  naive mode fl1 t = Ok r1 -> naive mode fl2 t = Ok r2 ->
  exists q1 q2 q12,
    fs_search mode om t fl1 = Ok q1 /\ fs_search mode om t fl2 = Ok q2 /\
    fs_search mode om t (fl1 ++ fl2) = Ok q12 /\
    forall o, In o q12 <-> In o q1 /\ In o q2.
Proof.
  intros mode om t fl1 fl2 r1 r2 HInv W1 W2 N1 N2.
  destruct (conj_is_intersection_lemma mode fl1 fl2 (scan t) r1 r2 N1 N2) as [N12 Hmem].
  destruct (opt_sound_complete_lemma mode om t fl1 r1 HInv W1 N1) as [q1 [Q1 P1]].
  destruct (opt_sound_complete_lemma mode om t fl2 r2 HInv W2 N2) as [q2 [Q2 P2]].
  destruct (opt_sound_complete_lemma mode om t (fl1 ++ fl2) _ HInv (tyid_wf_app _ _ _ W1 W2) N12) as [q12 [Q12 P12]].
  exists q1, q2, q12. repeat split; auto.
  - apply (Permutation_in _ P1). apply Hmem. apply (Permutation_in _ (Permutation_sym P12)). auto.
  - apply (Permutation_in _ P2). apply Hmem. apply (Permutation_in _ (Permutation_sym P12)). auto.
  - intros [H1 H2]. apply (Permutation_in _ P12). apply Hmem. split.
    + apply (Permutation_in _ (Permutation_sym P1)). auto.
    + apply (Permutation_in _ (Permutation_sym P2)). auto.
Qed.

Theorem fs_more_filters_shrink_lemma : forall mode om t fl extra r',
  Inv mode t -> tyid_wf om (fl ++ extra) ->
  naive mode (fl ++ extra) t = Ok r' ->
  exists q q', fs_search mode om t fl = Ok q /\ fs_search mode om t (fl ++ extra) = Ok q' /\ incl q' q.
Proof.
  intros mode om t fl extra r' HInv W N.
  destruct (more_filters_shrink_lemma mode fl extra (scan t) r' N) as [r [Nr [_ Hincl]]].
  destruct (opt_sound_complete_lemma mode om t fl r HInv (tyid_wf_app_l _ _ _ W) Nr) as [q [Q P]].
  destruct (opt_sound_complete_lemma mode om t (fl ++ extra) r' HInv W N) as [q' [Q' P']].
  exists q, q'. repeat split; auto. intros o Ho.
  apply (Permutation_in _ P). apply Hincl. apply (Permutation_in _ (Permutation_sym P')). auto.
Qed.

Theorem find_opts_never_raises_lemma : forall om fl, tyid_wf om fl -> exists a, find_opts om fl = Ok a.
Proof. intros om fl H. destruct (find_opts_spec om fl H) as [at_ [ai [E _]]]. eauto. Qed.

(* ---- all_versions: attached filters apply to these answers too ---- *)

Theorem mem_all_versions_answers_lemma : forall mode data i att comp r o,
  mem_all_versions mode data i att comp = Ok r -> In o r ->
  In o (mem_versions data i) /\ forall f, In f (comp ++ att) -> check_filter mode f o = Ok true.
Proof.
  intros mode data i att comp r o H Ho. unfold mem_all_versions in H.
  destruct (apply_filters_answers _ _ _ _ _ H Ho) as [Hin Hh]. split; auto. apply holds_b_true. auto.
Qed.

Theorem fs_all_versions_answers_lemma : forall mode om t i att comp r o f,
  no_fuzzy_dups ([mkf t_id OEq i] ++ att ++ comp) ->
  fs_all_versions mode om t i att comp = Ok r -> In o r ->
  In f ([mkf t_id OEq i] ++ att ++ comp) -> check_filter mode f o = Ok true.
Proof.
  intros mode om t i att comp r o f Hn H Ho Hf. unfold fs_all_versions, fs_query in H.
  eapply fs_search_answers_hold; eauto. apply complete_query_covers; auto.
Qed.

(* ---- closed forms asked for by the audit: `contains`, and = / != across kinds ---- *)

Lemma coerce_list : forall mode op l fv, coerce mode op (VList l) fv = Ok (VList l, fv).
Proof. intros. destruct fv; reflexivity. Qed.
Lemma coerce_dict : forall mode op m fv, coerce mode op (VDict m) fv = Ok (VDict m, fv).
Proof. intros. destruct fv; reflexivity. Qed.

(* `contains` on a list value: the filter value equals (==) one of the elements *)
Theorem op_contains_list : forall mode f l,
  fop_ f = OContains -> (forall d, fval f <> VDict d) ->
  check_property mode f (VList l) = Ok (existsb (py_eq (fval f)) l).
Proof.
  intros mode f l Hop Hnd. unfold check_property. rewrite coerce_list. cbn [bind]. rewrite Hop.
  destruct (fval f); try reflexivity. exfalso. eapply Hnd; eauto.
Qed.

(* `contains` with a dict as filter value on a dict property: it equals one of the property's VALUES *)
Theorem op_contains_dict_value : forall mode f d m,
  fop_ f = OContains -> fval f = VDict d ->
  check_property mode f (VDict m) = Ok (existsb (py_eq (VDict d)) (map snd m)).
Proof.
  intros mode f d m Hop Hv. unfold check_property. rewrite coerce_dict. cbn [bind]. rewrite Hop, Hv. reflexivity.
Qed.

(* `contains` with a string on a dict property: it is one of the KEYS *)
Theorem op_contains_dict_key : forall mode f k m,
  fop_ f = OContains -> fval f = VStr k ->
  check_property mode f (VDict m) = Ok (match plookup k m with Some _ => true | None => false end).
Proof.
  intros mode f k m Hop Hv. unfold check_property. rewrite coerce_dict. cbn [bind]. rewrite Hop, Hv. reflexivity.
Qed.

(* a list-valued property: `contains` is asked of every element ("any element"), e.g. labels contains "x"
   holds when "x" is a substring of one of the labels *)
Theorem op_contains_on_list_property : forall mode f p m l,
  split_dot (fprop f) = [p] -> plookup p m = Some (VList l) ->
  check_filter mode f (VDict m) = any_res (check_property mode f) l.
Proof. intros mode f p m l Hs Hl. unfold check_filter. rewrite Hs. cbn [check_path]. rewrite Hl. reflexivity. Qed.

(* = and != between values of different kinds (a number is never == a string, a list never == a tuple, ...) *)
Inductive vkind := KNone | KNum | KStr | KTime | KList | KTuple | KDict.
Definition kind_of (x : pv) : vkind :=
  match x with
  | VNone => KNone | VBool _ | VInt _ | VFloat _ => KNum | VStr _ => KStr | VTime _ => KTime
  | VList _ => KList | VTuple _ => KTuple | VDict _ => KDict
  end.

Lemma py_eq_other_kind : forall x v, kind_of x <> kind_of v -> py_eq x v = false.
Proof. intros x v H. destruct x, v; try reflexivity; exfalso; apply H; reflexivity. Qed.

Theorem op_eq_other_kind : forall mode f x,
  kind_of x <> kind_of (fval f) -> coerce mode (fop_ f) x (fval f) = Ok (x, fval f) ->
  (fop_ f = OEq -> check_property mode f x = Ok false) /\ (fop_ f = ONe -> check_property mode f x = Ok true).
Proof.
  intros mode f x Hk Hc. unfold check_property. rewrite Hc. cbn [bind].
  split; intro Hop; rewrite Hop; rewrite (py_eq_other_kind _ _ Hk); reflexivity.
Qed.

(* the text comparison of the code as it is, on a concrete pair *)
Theorem ts_on_dicts_refuted_concrete :
  parse_ts (u "2020-01-01T00:00:00Z") = Some 1577836800000000%Z /\
  parse_ts (u "2020-01-01T00:00:00.5Z") = Some 1577836800500000%Z /\
  check_property TextOnDicts (F "modified" OGt (vs "2020-01-01T00:00:00.5Z")) (vs "2020-01-01T00:00:00Z") = Ok true /\
  check_property InstantOnDicts (F "modified" OGt (vs "2020-01-01T00:00:00.5Z")) (vs "2020-01-01T00:00:00Z") = Ok false.
Proof. repeat split; vm_compute; reflexivity. Qed.

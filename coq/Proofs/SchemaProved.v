(* Proofs/SchemaProved.v -- which part of the class tables the C02 theorem covers so far, as explicit
   boolean predicates (the theorem is `strict_sound_partial` until every predicate below is constantly
   true): leaf_proved (property kinds whose per-kind soundness lemma is proved), constr_proved
   (co-constraint forms), init_proved (class-specific __init__ forms), and class_proved, which closes
   them over the classes a class can embed.  Definitions only.                                     *)
From Coq Require Import NArith ZArith List String Bool.
From V Require Import Base.UString Base.Json Model.SchemaTypes Model.PyBase Model.Schema
     Spec.SchemaRefine Proofs.SchemaScope Proofs.SchemaObject.
Import ListNotations.

Definition leaf_proved (k : pkind) : bool :=
  match k with
  | KString | KPattern | KObjRef _ | KOpenVocab _ | KFixed _ _ | KInt _ _ | KBool | KEnum _
  | KHex | KBinary | KSelector | KDict _ | KTime _ _ => true
  | _ => false
  end.

Definition constr_proved (k : constr) : bool :=
  match k with
  | CSkipBaseCheck | CAtLeastOne _ | CAtLeastOneDefault | CMutEx _ | CDepends _ _ | CProcessExt => true
  | _ => false
  end.

(* the property names a constraint reads *)
Fixpoint ccond_names (q : ccond) : list ustring :=
  match q with
  | QTruthy p | QIsTrue p | QIsNotFalse p | QIsNotNone p | QHas p => [p]
  | QLt a b | QLe a b => [a; b]
  | QAnd a b | QOr a b => ccond_names a ++ ccond_names b
  | QNot a => ccond_names a
  end.

Fixpoint constr_names (c : cls) (k : constr) : list ustring :=
  match k with
  | CAtLeastOne ps | CMutEx ps => ps
  | CAtLeastOneDefault => default_checked c
  | CDepends ps ds => ps ++ ds
  | CRaiseIf q _ => ccond_names q
  | CWhen q body => ccond_names q ++ flat_map (constr_names c) body
  | CTlp _ => map u ["definition_type"; "definition"; "id"; "created"]%string
  | CPatternValidator _ => map u ["pattern"; "pattern_type"; "pattern_version"]%string
  | CLegalHashes _ => [u "hashes"]
  | CSocketOptions => [u "options"]
  | CProcessExt => default_checked c ++ [u "extensions"]
  | CSkipBaseCheck | COpaque _ => []
  end.

(* properties with a constant default: the ones serialization may leave out *)
Definition dconst_names (c : cls) : list ustring :=
  map sname (filter (fun s => match sdef s with DConst _ => true | _ => false end) (cslots c)).

Definition uses_default_checked (k : constr) : bool :=
  match k with CAtLeastOneDefault | CProcessExt => true | _ => false end.

Definition init_proved (i : preinit) : bool :=
  match i with
  | INone | IObservedDataWarn | IBundleObjects | IPositional _ | IIndicatorPatternVersion => true
  | _ => false
  end.

(* cp: "the class with this id is covered", one nesting level down *)
Fixpoint kind_proved (cp : ustring -> bool) (k : pkind) : bool :=
  match k with
  | KList k' => kind_proved cp k'
  | KEmbedded cid | KListOf cid => cp cid
  | _ => leaf_proved k
  end.

(* table well-formedness the proof relies on: distinct property names, constant defaults in scope, and
   -- 2.1 observables -- an `id` property of the class's own type (the deterministic id is written there) *)
Definition ext_constr (c : cls) : list constr :=
  match cfamily c with FExt => [CAtLeastOneDefault] | _ => [] end.

Definition class_wf (c : cls) : bool :=
  unodup (map sname (cslots c)) &&
  (* no constraint reads a property that serialization may leave out, nor (2.1 observables) the id *)
  forallb (fun k => forallb (fun p => negb (mem_ustr p (dconst_names c))) (constr_names c k)) (ext_constr c ++ ccons c) &&
  (* "at least one of the class's properties" ranges over a non-empty list *)
  (negb (existsb uses_default_checked (ext_constr c ++ ccons c)) || match default_checked c with [] => false | _ => true end) &&
  forallb (fun s => match sdef s with DConst j => jscope j | _ => true end) (cslots c) &&
  match cfamily c, cver c with
  | FSco, V21 =>
    forallb (fun k => negb (mem_ustr (u "id") (constr_names c k))) (ext_constr c ++ ccons c) &&
    match ctype c, find_slot c (u "id") with
    | Some t, Some s => match skind s, sdef s with
                        | KId p V21, DUuid4 => ustr_eqb p (t ++ u "--")
                        | _, _ => false
                        end
    | _, _ => false
    end
  | _, _ => true
  end.

Fixpoint class_proved (n : nat) (w : world) (cid : ustring) : bool :=
  match n with
  | O => false
  | S m =>
    match find_class (wclasses w) cid with
    | Some c => init_proved (cinit c) && class_wf c &&
                forallb (fun s => kind_proved (class_proved m w) (skind s)) (cslots c) &&
                forallb constr_proved (ext_constr c ++ ccons c)
    | None => false
    end
  end.

(* Proofs/SchemaProved.v -- which part of the class tables the C02 theorem covers so far, as explicit
   boolean predicates (the theorem is `strict_sound_partial` until every predicate below is constantly
   true): leaf_proved (property kinds whose per-kind soundness lemma is proved), constr_proved
   (co-constraint forms), init_proved (class-specific __init__ forms), and class_proved, which closes
   them over the classes a class can embed.  Definitions only.                                     *)
From Coq Require Import NArith ZArith List String Bool.
From V Require Import Base.UString Base.Json Model.SchemaTypes Model.PyBase Model.Schema
     Spec.SchemaRefine Proofs.SchemaScope Proofs.SchemaObject.
Import ListNotations.

Definition leaf_proved (k : pkind) : bool :=
  match k with
  | KString | KPattern | KObjRef _ | KOpenVocab _ | KFixed _ _ | KInt _ _ | KBool | KEnum _
  | KHex | KBinary | KSelector | KDict _ | KTime _ _ => true
  | _ => false
  end.

Definition constr_proved (k : constr) : bool :=
  match k with
  | CSkipBaseCheck => true
  | _ => false
  end.

Definition init_proved (i : preinit) : bool :=
  match i with
  | INone | IObservedDataWarn | IBundleObjects | IPositional _ | IIndicatorPatternVersion => true
  | _ => false
  end.

(* cp: "the class with this id is covered", one nesting level down *)
Fixpoint kind_proved (cp : ustring -> bool) (k : pkind) : bool :=
  match k with
  | KList k' => kind_proved cp k'
  | KEmbedded cid | KListOf cid => cp cid
  | _ => leaf_proved k
  end.

(* table well-formedness the proof relies on: distinct property names, constant defaults in scope, and
   -- 2.1 observables -- an `id` property of the class's own type (the deterministic id is written there) *)
Definition class_wf (c : cls) : bool :=
  unodup (map sname (cslots c)) &&
  forallb (fun s => match sdef s with DConst j => jscope j | _ => true end) (cslots c) &&
  match cfamily c, cver c with
  | FSco, V21 =>
    match ctype c, find_slot c (u "id") with
    | Some t, Some s => match skind s with
                        | KId p V21 => ustr_eqb p (t ++ u "--")
                        | _ => false
                        end
    | _, _ => false
    end
  | _, _ => true
  end.

Definition ext_constr (c : cls) : list constr :=
  match cfamily c with FExt => [CAtLeastOneDefault] | _ => [] end.

Fixpoint class_proved (n : nat) (w : world) (cid : ustring) : bool :=
  match n with
  | O => false
  | S m =>
    match find_class (wclasses w) cid with
    | Some c => init_proved (cinit c) && class_wf c &&
                forallb (fun s => kind_proved (class_proved m w) (skind s)) (cslots c) &&
                forallb constr_proved (ext_constr c ++ ccons c)
    | None => false
    end
  end.

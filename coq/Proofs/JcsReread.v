(* Proofs/JcsReread.v -- the fixed point through a reader that interprets numbers,
   under the hypothesis (stated, not assumed) that reading the decimal text of a double
   and taking repr gives back the repr built from its shortest digits.             *)
From Coq Require Import String NArith ZArith List Bool Lia.
From V Require Import Base.UString Base.Json Model.JcsText Model.Jcs Spec.Rfc8785 Spec.JcsSpec Spec.JsonParse
  Spec.NumValue Spec.Reread
  Proofs.JcsNumFacts Proofs.JcsCanonFacts Proofs.JcsWsFacts Proofs.JcsParseFacts Proofs.JcsNumValue.
Import ListNotations.
Open Scope N_scope.

Section Reread.
  Variable is_double : bool -> list N -> Z -> Prop.
  Variable rr : ustring -> ustring.
  Hypothesis Hwf : forall neg ds n, is_double neg ds n -> wf_digits ds.
  Hypothesis Hread : forall neg ds n t, is_double neg ds n -> denotes t neg ds n -> rr t = py_repr neg ds n.
  Hypothesis Hzero : rr [c_0] = [c_0; c_dot; c_0].

  Definition rl (v : jvalue) : jvalue := reread_deep rr (lit_deep v).

  Lemma rl_number : forall r, double_repr is_double r -> canon (rl (JFloat r)) = canon (JFloat r).
  Proof.
    intros r [E|[E|[neg [ds [n [D E]]]]]]; subst r.
    - unfold rl. simpl. rewrite Hzero. reflexivity.
    - unfold rl. simpl. rewrite Hzero. reflexivity.
    - pose proof (Hwf _ _ _ D) as W. unfold rl. cbn [lit_deep emit_num].
      rewrite (num_es6_proof neg ds n W). cbn [reread_deep].
      rewrite (Hread neg ds n _ D (es6_denotes_proof neg ds n W)). reflexivity.
  Qed.

  Lemma canon_rl : forall v, nums_double is_double v -> canon (rl v) = canon v.
  Proof.
    induction v as [|b|z|r|s|l IH|m IH] using jvalue_nested_ind; intro N; try reflexivity.
    - inversion N.
    - inversion N; subst. apply rl_number. assumption.
    - unfold rl. cbn [lit_deep reread_deep]. rewrite !canon_arr_eq. rewrite !map_map. f_equal. f_equal.
      apply map_ext_Forall. inversion N; subst. rewrite Forall_forall in *. intros x Hx. apply IH; auto.
    - unfold rl. cbn [lit_deep reread_deep]. rewrite !canon_obj_eq. rewrite !map_map. f_equal.
      apply map_ext_Forall. inversion N as [| | | | |m0 Nm]; subst. rewrite Forall_forall in *. intros kv Hkv.
      unfold on_snd. cbn [fst snd]. f_equal. apply (IH kv Hkv). apply Nm. exact Hkv.
  Qed.

  Lemma nums_double_wf : forall v, nums_double is_double v -> nums_wf v.
  Proof.
    induction v as [|b|z|r|s|l IH|m IH] using jvalue_nested_ind; intro N; try constructor.
    - inversion N as [| |r0 [E|[E|[neg [ds [n [D E]]]]]]| | |]; subst.
      + split; [discriminate|repeat constructor].
      + split; [discriminate|repeat constructor].
      + split; [apply py_repr_nonempty|].
        eapply Forall_impl; [|apply py_repr_rc; exact (proj1 (proj2 (Hwf _ _ _ D)))]. apply repr_char_numc.
    - inversion N; subst. rewrite Forall_forall in *. intros x Hx. apply IH; auto.
    - inversion N as [| | | | |m0 Nm]; subst. rewrite Forall_forall in *. intros kv Hkv. apply IH; auto.
  Qed.

  Lemma nums_double_sort_deep : forall v, nums_double is_double v -> nums_double is_double (sort_deep v).
  Proof.
    induction v as [|b|z|r|s|l IH|m IH] using jvalue_nested_ind; intro C; try exact C.
    - simpl. constructor. inversion C; subst. rewrite Forall_map. rewrite Forall_forall in *. intros x Hx. apply IH; auto.
    - simpl. constructor. inversion C as [| | | | |m0 Cm]; subst.
      rewrite Forall_forall in *. intros kv Hkv. apply (proj1 (spec_sort_In _ _ _)) in Hkv.
      apply in_map_iff in Hkv. destruct Hkv as [kv0 [E Hin]]. subst kv. simpl. apply IH; auto.
  Qed.

  (* canonicalize(json.loads(t)) = t *)
  Theorem canon_reread_fixpoint_proof : forall v t, nums_double is_double v -> canon v = JOk t ->
    parse_json t = Some (json_of v) /\ canon (reread_deep rr (json_of v)) = JOk t.
  Proof.
    intros v t N C. split; [apply canon_parse_proof; [exact C|apply nums_double_wf; exact N]|].
    unfold json_of. change (reread_deep rr (lit_deep (sort_deep v))) with (rl (sort_deep v)).
    rewrite canon_rl by (apply nums_double_sort_deep; exact N).
    rewrite canon_fixpoint_proof; [exact C|]. eapply canon_ok_keys_scalar. exact C.
  Qed.
End Reread.

(* Proofs/SchemaCovCons.v -- C02 coverage extension: soundness of the co-constraint evaluation for the
   forms of the larger coverage predicate (Proofs/SchemaCovProved.v:constr_proved2): the forms of
   Proofs/SchemaConstr.v plus CRaiseIf and CWhen (over the condition language without timestamp
   comparison: cond_ok) and CLegalHashes; and the fact that a constraint only reads the properties it
   names (every form), used where the deterministic id is written over the default.                *)
From Coq Require Import NArith ZArith List String Bool Lia.
From V Require Import Base.UString Base.Json Model.SchemaTypes Model.PyBase Model.Schema
     Spec.StixValid Spec.SchemaRefine Proofs.SchemaBasics Proofs.SchemaValidMono Proofs.SchemaScope
     Proofs.SchemaObject Proofs.SchemaProved Proofs.SchemaConstr Proofs.SchemaCovProved Proofs.SchemaCovInv Proofs.SchemaCovInv2.
Import ListNotations.

Local Arguments u : simpl never.

(* ---------- truthiness of a stored value and of its serialization ---------- *)
Lemma valid_kind_empty_obj sp pok n k : truthy_safe k = true -> valid_kind sp pok n k (JObj []) = false.
Proof. destruct n; [reflexivity|]. destruct k; try discriminate; intros _; reflexivity. Qed.

Lemma truthy_enc sp pok x k n :
  nice x -> truthy_safe k = true -> valid_kind sp pok n k (encode false x) = true ->
  ptruthy x = truthy (encode false x).
Proof.
  intros Hn Hk Hv. destruct x as [j|us t|l|m|cid inner dfl hc].
  - reflexivity.
  - simpl in *. destruct t; [contradiction | reflexivity].
  - rewrite encode_PArr. destruct l; reflexivity.
  - rewrite encode_PMap. destruct m; reflexivity.
  - rewrite encode_PObject in *. destruct inner as [|kv inner]; [reflexivity|].
    destruct (filter (kept false dfl) (kv :: inner)) eqn:Ef; [|reflexivity].
    simpl in Hv. rewrite valid_kind_empty_obj in Hv by auto. discriminate.
Qed.

Lemma truthy_safe_refines k k' : truthy_safe k = true -> kind_refines k k' = true -> truthy_safe k' = true.
Proof. destruct k; destruct k'; simpl; auto; discriminate. Qed.

Lemma stringy_refines k k' : is_stringy k = true -> kind_refines k k' = true -> is_stringy k' = true.
Proof. destruct k; destruct k'; simpl; auto; discriminate. Qed.

Lemma stringy_valid_inv sp pok m k j : is_stringy k = true -> valid_kind sp pok m k j = true -> exists s, j = JStr s.
Proof.
  destruct m; [discriminate|]. destruct k; try discriminate; intros _; simpl; destruct j; try discriminate; eauto.
Qed.

Lemma assoc_alookup k (m : list (ustring * ustring)) : assoc k m = alookup k m.
Proof. induction m as [|[k' v] m IH]; simpl; auto. Qed.

(* ---------- a constraint reads only the properties it names ---------- *)
Lemma alookup_aset_notin {A} (key p : ustring) (v : A) st (names : list ustring) :
  ~ In key names -> In p names -> alookup p (aset key v st) = alookup p st.
Proof. intros Hn Hp. apply alookup_aset_other. apply ustr_eqb_neq. intros ->. auto. Qed.

Lemma amem_aset_notin {A} (key p : ustring) (v : A) st (names : list ustring) :
  ~ In key names -> In p names -> amem p (aset key v st) = amem p st.
Proof. intros Hn Hp. unfold amem. erewrite alookup_aset_notin; eauto. Qed.

Lemma eval_ccond_aset q key v st :
  ~ In key (ccond_names q) -> eval_ccond q (aset key v st) = eval_ccond q st.
Proof.
  induction q; cbn [eval_ccond ccond_names]; intros Hn; unfold pget.
  - rewrite (alookup_aset_notin key p v st _ Hn) by (simpl; auto). reflexivity.
  - rewrite (alookup_aset_notin key p v st _ Hn) by (simpl; auto). reflexivity.
  - rewrite (alookup_aset_notin key p v st _ Hn) by (simpl; auto). reflexivity.
  - rewrite (amem_aset_notin key p v st _ Hn) by (simpl; auto). reflexivity.
  - rewrite (amem_aset_notin key p v st _ Hn) by (simpl; auto). reflexivity.
  - rewrite (alookup_aset_notin key a v st _ Hn) by (simpl; auto).
    rewrite (alookup_aset_notin key b v st _ Hn) by (simpl; auto). reflexivity.
  - rewrite (alookup_aset_notin key a v st _ Hn) by (simpl; auto).
    rewrite (alookup_aset_notin key b v st _ Hn) by (simpl; auto). reflexivity.
  - rewrite IHq1, IHq2; auto; intros Hin; apply Hn; apply in_or_app; auto.
  - rewrite IHq1, IHq2; auto; intros Hin; apply Hn; apply in_or_app; auto.
  - rewrite IHq; auto.
Qed.

Lemma at_least_one_aset_notin ps key v st : ~ In key ps -> at_least_one ps (aset key v st) = at_least_one ps st.
Proof.
  intros Hn. unfold at_least_one. destruct ps as [|p0 ps]; auto.
  rewrite (existsb_ext_in _ (fun p => amem p st)); auto. intros x Hx. eapply amem_aset_notin; eauto.
Qed.

Lemma eval_constr_aset_gen vr pok c key v st : forall fuel k,
  ~ In key (constr_names c k) -> eval_constr vr pok fuel c (aset key v st) k = eval_constr vr pok fuel c st k.
Proof.
  induction fuel as [|f IH]; intros k Hn; [reflexivity|].
  destruct k; cbn [eval_constr]; cbn [constr_names] in Hn.
  - apply at_least_one_aset_notin; auto.
  - apply at_least_one_aset_notin; auto.
  - rewrite (filter_ext_in' _ (fun p => amem p st)); auto. intros x Hx. eapply amem_aset_notin; eauto.
    apply udedup_In. auto.
  - assert (E : depends_ok ps ds (aset key v st) = depends_ok ps ds st); [|rewrite E; auto].
    unfold depends_ok. apply forallb_ext_in. intros p Hp. apply forallb_ext_in. intros dp Hdp. unfold pget.
    rewrite (amem_aset_notin key p v st _ Hn) by (apply in_or_app; auto).
    rewrite (amem_aset_notin key dp v st _ Hn) by (apply in_or_app; auto).
    rewrite (alookup_aset_notin key p v st _ Hn) by (apply in_or_app; auto). reflexivity.
  - rewrite eval_ccond_aset; auto.
  - rewrite eval_ccond_aset by (intros Hin; apply Hn; apply in_or_app; auto).
    destruct (eval_ccond c0 st) as [[|]| |]; cbn [bind]; auto.
    apply constr_all_ext. intros x Hx. apply IH. intros Hin. apply Hn. apply in_or_app. right.
    apply in_flat_map. eauto.
  - unfold check_tlp, pget.
    rewrite !(alookup_aset_notin key _ v st _ Hn) by (simpl; tauto). reflexivity.
  - unfold pget. rewrite !(alookup_aset_notin key _ v st _ Hn) by (simpl; tauto). reflexivity.
  - unfold pget. rewrite !(alookup_aset_notin key _ v st _ Hn) by (simpl; tauto). reflexivity.
  - unfold pget. rewrite !(alookup_aset_notin key _ v st _ Hn) by (simpl; tauto). reflexivity.
  - rewrite at_least_one_aset_notin by (intros Hin; apply Hn; apply in_or_app; auto).
    rewrite (amem_aset_notin key (u "extensions") v st _ Hn) by (apply in_or_app; right; simpl; auto). reflexivity.
  - reflexivity.
  - reflexivity.
Qed.

(* the stored properties with the value of a present property written over (every constraint form) *)
Lemma facts_aset2 vr sp pok c sc key v setting :
  facts vr sp pok c sc setting -> entry_ok sp pok sc key v -> amem key setting = true ->
  (forall k, In k ((match cfamily c with FExt => [CAtLeastOneDefault] | _ => [] end) ++ ccons c) ->
             ~ In key (constr_names c k)) ->
  facts vr sp pok c sc (aset key v setting).
Proof.
  intros (HInv & Hreq & Hdef & fuel & Hall) Hv Hk Hcons.
  split; [apply Inv_aset; auto|]. split; [|split].
  - intros s' Hs' Hr. rewrite amem_aset_present; auto.
  - intros s Hs Hd. rewrite amem_aset_present; auto.
  - exists fuel. rewrite <- Hall. apply constr_all_ext. intros k Hin. apply eval_constr_aset_gen; auto.
Qed.

(* ---------- soundness ---------- *)
Lemma cp2_when c q body :
  constr_proved2 c (CWhen q body) = true ->
  cond_ok c q = true /\ forall x, In x body -> constr_proved2 c x = true /\ uses_default_checked x = false.
Proof.
  simpl. intros H. apply andb_true_iff in H. destruct H as [Hq Hb]. split; auto.
  induction body as [|y body IH]; intros x Hx; [destruct Hx|].
  apply andb_true_iff in Hb. destruct Hb as [Hb1 Hb2]. apply andb_true_iff in Hb1. destruct Hb1 as [Hy Hu].
  destruct Hx as [<- | Hx]; auto. split; auto. apply negb_true_iff. auto.
Qed.

Section CovCons.
  Variable vr : variant.
  Hypothesis Hsock : vr_sock_int vr = true.
  Variable sp : world.
  Variable pok : ver -> ustring -> bool.
  Variables c sc : cls.
  Hypothesis Hfam : cfamily c = cfamily sc.
  Hypothesis Hslots : forall s, In s (cslots c) ->
      exists s', find_slot sc (sname s) = Some s' /\ kind_refines (skind s) (skind s') = true.
  Variable setting : list (ustring * pval).
  Hypothesis HInv : Inv sp pok sc setting.
  Hypothesis HM : Imodel c setting.

  Let HT : Itime c setting := proj1 HM.

  Notation mem := (members c setting).

  Lemma Hsub : forall s, In s (cslots c) -> exists s', find_slot sc (sname s) = Some s'.
  Proof. intros s Hs. destruct (Hslots s Hs) as [s' [A _]]. eauto. Qed.

  Lemma truthy_members p x :
    match find_slot c p with Some s => truthy_safe (skind s) || is_marking_kind (skind s) | None => false end = true ->
    alookup p setting = Some x -> ptruthy x = truthy (encode false x).
  Proof.
    intros Hc Hx. destruct (find_slot c p) as [s|] eqn:Es; try discriminate.
    destruct (find_slot_spec _ _ _ Es) as [Hs Hname].
    apply orb_true_iff in Hc. destruct Hc as [Hc | Hc].
    - destruct (Hslots s Hs) as [s' [Hf Hkr]]. rewrite Hname in Hf.
      destruct HInv as [_ Hent]. destruct (Hent p x (alookup_In _ _ _ Hx)) as [Hn [s'' [Hf' [m Hm]]]].
      rewrite Hf in Hf'. injection Hf' as <-.
      apply (truthy_enc sp pok x (skind s') m Hn); [eapply truthy_safe_refines; eauto | exact Hm].
    - pose proof HM as (_ & _ & _ & HK). rewrite <- Hname in Hx. destruct (HK s x Hs Hc Hx) as [T _]. exact T.
  Qed.

  (* a timestamp property that is set: its serialized text denotes the stored instant *)
  Lemma time_members p v :
    time_slot c p = true -> mem_ustr p (dconst_names c) = false ->
    time_of (pget p setting) = Some v ->
    exists txt, jget p mem = Some (JStr txt) /\ instant_of_text txt = Some v.
  Proof.
    unfold time_slot, pget, jget. intros Hs Hd Ht. rewrite lookup_members by auto.
    destruct (find_slot c p) as [s|] eqn:Es; try discriminate.
    destruct (find_slot_spec _ _ _ Es) as [Hin Hname].
    destruct (alookup p setting) as [x|] eqn:Ex; try discriminate.
    destruct x as [|us txt| | |]; try discriminate. injection Ht as <-.
    exists txt. split; auto. rewrite <- Hname in Ex. exact (HT s _ Hin Hs Ex).
  Qed.

  Lemma cond_sound : forall q r,
    cond_ok c q = true ->
    (forall p, In p (ccond_names q) -> mem_ustr p (dconst_names c) = false) ->
    eval_ccond q setting = Ok r -> jcond q mem = Some r.
  Proof.
    induction q; intros r Hc Hn H; cbn [eval_ccond] in H; cbn [jcond cond_ok ccond_names] in *.
    - (* QTruthy *)
      injection H as <-. f_equal. unfold jget, pget. rewrite lookup_members by (apply Hn; simpl; auto).
      destruct (alookup p setting) as [x|] eqn:Ex; auto. symmetry. eapply truthy_members; eauto.
    - (* QIsTrue *)
      injection H as <-. f_equal. unfold jget, pget. rewrite lookup_members by (apply Hn; simpl; auto).
      destruct (alookup p setting) as [x|]; auto.
      destruct (encode false x) eqn:Ex; try (destruct x as [[]| | | |]; try discriminate Ex; reflexivity).
      apply encode_JBool_inv in Ex. subst x. reflexivity.
    - (* QIsNotFalse *)
      injection H as <-. f_equal. unfold jget, pget. rewrite lookup_members by (apply Hn; simpl; auto).
      destruct (alookup p setting) as [x|]; auto.
      destruct (encode false x) eqn:Ex; try (destruct x as [[]| | | |]; try discriminate Ex; reflexivity).
      apply encode_JBool_inv in Ex. subst x. reflexivity.
    - (* QIsNotNone *) injection H as <-. f_equal. apply jhas_members. apply Hn. simpl; auto.
    - (* QHas *) injection H as <-. f_equal. apply jhas_members. apply Hn. simpl; auto.
    - (* QLt *)
      apply andb_true_iff in Hc. destruct Hc as [Hca Hcb].
      destruct (time_of (pget a setting)) as [x|] eqn:Ea; try discriminate.
      destruct (time_of (pget b setting)) as [y|] eqn:Eb; try discriminate.
      destruct (time_members a x Hca (Hn a (or_introl eq_refl)) Ea) as [ta [Ja Ia]].
      destruct (time_members b y Hcb (Hn b (or_intror (or_introl eq_refl))) Eb) as [tb [Jb Ib]].
      rewrite Ja, Jb, Ia, Ib. injection H as <-. reflexivity.
    - (* QLe *)
      apply andb_true_iff in Hc. destruct Hc as [Hca Hcb].
      destruct (time_of (pget a setting)) as [x|] eqn:Ea; try discriminate.
      destruct (time_of (pget b setting)) as [y|] eqn:Eb; try discriminate.
      destruct (time_members a x Hca (Hn a (or_introl eq_refl)) Ea) as [ta [Ja Ia]].
      destruct (time_members b y Hcb (Hn b (or_intror (or_introl eq_refl))) Eb) as [tb [Jb Ib]].
      rewrite Ja, Jb, Ia, Ib. injection H as <-. reflexivity.
    - (* QAnd *)
      apply andb_true_iff in Hc. destruct Hc as [Hc1 Hc2]. inv_bind H.
      rewrite (IHq1 a Hc1) by (auto; intros p Hp; apply Hn; apply in_or_app; auto).
      destruct a.
      + apply IHq2; auto. intros p Hp; apply Hn; apply in_or_app; auto.
      + injection Hb as <-. reflexivity.
    - (* QOr *)
      apply andb_true_iff in Hc. destruct Hc as [Hc1 Hc2]. inv_bind H.
      rewrite (IHq1 a Hc1) by (auto; intros p Hp; apply Hn; apply in_or_app; auto).
      destruct a.
      + injection Hb as <-. reflexivity.
      + apply IHq2; auto. intros p Hp; apply Hn; apply in_or_app; auto.
    - (* QNot *)
      inv_bind H. rewrite (IHq a Hc Hn Ha). injection Hb as <-. reflexivity.
  Qed.

  Lemma constr_sound2 : forall fuel k,
    constr_proved2 c k = true ->
    (forall p, In p (constr_names c k) -> mem_ustr p (dconst_names c) = false) ->
    (uses_default_checked k = true -> default_checked c <> []) ->
    eval_constr vr pok fuel c setting k = Ok tt ->
    exists n, jconstr pok n sc mem k = true.
  Proof.
    induction fuel as [|f IH]; intros k Hp Hn Hd H; [discriminate|].
    destruct (constr_proved k) eqn:Ecp.
    { exists 1%nat. destruct HInv as [ND _]. eapply (constr_sound vr pok c sc Hfam Hsub); eauto. }
    destruct k; try discriminate Ecp; try (simpl in Hp; discriminate Hp).
    - (* CRaiseIf *)
      simpl in Hp. cbn [eval_constr] in H. inv_bind H. destruct a; try discriminate.
      exists 1%nat. change (jconstr_body pok (jconstr pok 0 sc mem) sc mem (CRaiseIf c0 e) = true).
      cbn [jconstr_body]. rewrite (cond_sound c0 false Hp Hn Ha). reflexivity.
    - (* CWhen *)
      destruct (cp2_when _ _ _ Hp) as [Hq Hbody]. cbn [eval_constr] in H. inv_bind H.
      assert (Hjc : jcond c0 mem = Some a).
      { apply cond_sound; auto. intros p Hpn. apply Hn. simpl. apply in_or_app. auto. }
      destruct a.
      + assert (HN : exists N, forall x, In x body -> jconstr pok N sc mem x = true).
        { apply forall_exists_bound.
          - intros n m x Hle. apply jconstr_mono. auto.
          - intros x Hx. destruct (Hbody x Hx) as [Hx1 Hx2]. apply (IH x); auto.
            + intros p Hpn. apply Hn. simpl. apply in_or_app. right. apply in_flat_map. eauto.
            + rewrite Hx2. discriminate.
            + eapply constr_all_In; eauto. }
        destruct HN as [N HN]. exists (S N).
        change (jconstr_body pok (jconstr pok N sc mem) sc mem (CWhen c0 body) = true).
        cbn [jconstr_body]. rewrite Hjc. apply forallb_forall. auto.
      + exists 1%nat. change (jconstr_body pok (jconstr pok 0 sc mem) sc mem (CWhen c0 body) = true).
        cbn [jconstr_body]. rewrite Hjc. reflexivity.
    - (* CTlp *)
      exists 1%nat. change (jconstr_body pok (jconstr pok 0 sc mem) sc mem (CTlp v) = true).
      cbn [jconstr_body]. cbn [eval_constr] in H. unfold check_tlp, jget, pget in *.
      simpl in Hp. unfold tlp_ok in Hp.
      destruct (find_slot c (u "definition_type")) as [s1|] eqn:Es1; try discriminate.
      destruct (find_slot c (u "definition")) as [s2|] eqn:Es2; try discriminate.
      apply andb_true_iff in Hp. destruct Hp as [Hstr Hmk].
      destruct (find_slot_spec _ _ _ Es1) as [Hin1 Hname1]. destruct (find_slot_spec _ _ _ Es2) as [Hin2 Hname2].
      pose proof HM as (_ & HP & _ & HK).
      rewrite (lookup_members c setting (u "definition_type")) by (apply Hn; simpl; auto).
      destruct (alookup (u "definition_type") setting) as [x|] eqn:E1; [|reflexivity].
      assert (Hpj : is_pj x).
      { apply (HP s1 x Hin1); [destruct (skind s1); try discriminate; reflexivity | rewrite Hname1; exact E1]. }
      destruct Hpj as [j ->]. cbn [encode]. destruct j as [| | | |dt| |]; try reflexivity.
      destruct (ustr_eqb dt (u "tlp")); cbn [negb] in *; [|reflexivity].
      rewrite (lookup_members c setting (u "definition")) by (apply Hn; simpl; auto).
      destruct (alookup (u "definition") setting) as [[| | | |k dinner dfl hc]|] eqn:E2; try discriminate H.
      rewrite <- Hname2 in E2. destruct (HK s2 _ Hin2 Hmk E2) as [_ Hel]. specialize (Hel _ _ _ _ eq_refl).
      rewrite encode_PObject. rewrite jlookup_alookup, alookup_map_encode. unfold kept.
      rewrite (alookup_filter_keys (fun k => false || negb (mem_ustr k dfl))). rewrite Hel. cbn [orb negb].
      destruct (alookup (u "tlp") dinner) as [[[| | | |color| |]| | | |]|]; try discriminate H. cbn [encode].
      unfold tlp_table. rewrite assoc_alookup. unfold tlp_ids in H.
      match type of H with match ?a with _ => _ end = _ => destruct a as [id|] end; [|first [discriminate H | reflexivity]].
      rewrite (lookup_members c setting (u "id")) by (apply Hn; simpl; auto).
      rewrite (lookup_members c setting (u "created")) by (apply Hn; simpl; auto).
      destruct (alookup (u "id") setting) as [[[| | | |i| |]| | | |]|]; try discriminate H.
      destruct (alookup (u "created") setting) as [[|us txt| | |]|]; try discriminate H. cbn [encode].
      destruct (ustr_eqb i id) eqn:Ei; cbn [negb] in H; try discriminate.
      unfold tlp_created_text in H. destruct (ustr_eqb txt (u "2017-01-20T00:00:00.000Z")) eqn:Et; try discriminate.
      simpl. rewrite Ei, Et. reflexivity.
    - (* CPatternValidator *)
      exists 1%nat. change (jconstr_body pok (jconstr pok 0 sc mem) sc mem (CPatternValidator v) = true).
      cbn [jconstr_body]. cbn [eval_constr] in H. unfold jget, pget in *.
      destruct v.
      + (* 2.0: always *)
        rewrite lookup_members by (apply Hn; simpl; auto).
        destruct (alookup (u "pattern") setting) as [[[| | | |p| |]| | | |]|]; try discriminate H.
        cbn [encode]. destruct (pok V20 p); [reflexivity|discriminate].
      + (* 2.1: only stix patterns, by pattern_version *)
        simpl in Hp. unfold pat21_ok in Hp.
        destruct (find_slot c (u "pattern_type")) as [s|] eqn:Es; try discriminate.
        apply andb_true_iff in Hp. destruct Hp as [Hreq Hstr].
        destruct (find_slot_spec _ _ _ Es) as [Hin Hname].
        pose proof HM as (_ & HP & HR & _).
        pose proof (HR s Hin Hreq) as Ham. rewrite Hname in Ham. apply amem_alookup in Ham. destruct Ham as [x Ex].
        assert (Hpj : is_pj x).
        { apply (HP s x Hin); [destruct (skind s); try discriminate; reflexivity | rewrite Hname; exact Ex]. }
        destruct Hpj as [j ->].
        destruct (Hslots s Hin) as [s' [Hf Hkr]]. rewrite Hname in Hf.
        destruct HInv as [_ Hent]. destruct (Hent _ _ (alookup_In _ _ _ Ex)) as [_ [s'' [Hf' [m Hm]]]].
        rewrite Hf in Hf'. injection Hf' as <-. cbn [encode] in Hm.
        destruct (stringy_valid_inv _ _ _ _ _ (stringy_refines _ _ Hstr Hkr) Hm) as [pt ->].
        rewrite Ex in H.
        rewrite (lookup_members c setting (u "pattern_type")) by (apply Hn; simpl; auto). rewrite Ex. cbn [encode].
        destruct (ustr_eqb pt (u "stix")); cbn [negb] in *; [|reflexivity].
        rewrite (lookup_members c setting (u "pattern")) by (apply Hn; simpl; auto).
        rewrite (lookup_members c setting (u "pattern_version")) by (apply Hn; simpl; auto).
        destruct (alookup (u "pattern") setting) as [[[| | | |p| |]| | | |]|]; try discriminate H.
        destruct (alookup (u "pattern_version") setting) as [[[| | | |pv| |]| | | |]|]; try discriminate H.
        cbn [encode].
        destruct (ustr_eqb pv (u "2.1")) eqn:E21.
        * apply ustr_eqb_eq in E21. subst pv. replace (ustr_eqb (u "2.1") (u "2.0")) with false by reflexivity.
          destruct (pok V21 p); [reflexivity|discriminate].
        * destruct (ustr_eqb pv (u "2.0")); [|discriminate]. destruct (pok V20 p); [reflexivity|discriminate].
    - (* CLegalHashes *)
      exists 1%nat. change (jconstr_body pok (jconstr pok 0 sc mem) sc mem (CLegalHashes names) = true).
      cbn [jconstr_body]. cbn [eval_constr] in H. unfold jget, pget in *.
      rewrite lookup_members by (apply Hn; simpl; auto).
      destruct (alookup (u "hashes") setting) as [x|]; auto.
      destruct x as [j|us t|l|m|cid inner dfl hc]; try discriminate.
      rewrite encode_PMap.
      destruct (forallb (fun kv => mem_ustr (fst kv) names) m) eqn:E; try discriminate.
      rewrite forallb_forall in *. intros kv Hin. apply in_map_iff in Hin. destruct Hin as [kv1 [<- Hin]].
      simpl. auto.
    - (* CSocketOptions (repaired variant: integers proper) *)
      exists 1%nat. change (jconstr_body pok (jconstr pok 0 sc mem) sc mem CSocketOptions = true).
      cbn [jconstr_body]. cbn [eval_constr] in H. unfold jget, pget in *.
      rewrite lookup_members by (apply Hn; simpl; auto).
      destruct (alookup (u "options") setting) as [x|]; auto.
      destruct x as [j|us t|l|m|cid inner dfl hc]; try discriminate.
      destruct j as [| | | | | |om]; try discriminate. cbn [encode].
      match type of H with (if ?b then _ else _) = _ => destruct b eqn:E; try discriminate end.
      rewrite forallb_forall in *. intros kv Hin. specialize (E kv Hin). rewrite Hsock in E.
      unfold socket_prefixes in E. destruct (snd kv); exact E.
  Qed.
End CovCons.

(* Proofs/SchemaCovKinds.v -- C02 coverage extension: soundness of clean for every kind of the larger
   coverage predicate (Proofs/SchemaCovProved.v:kind_proved2): the leaves of Proofs/SchemaLeaf.v plus
   KId, KRef, KHashes, KFloat, KMarking; lists and embedded objects as in Proofs/SchemaKinds.v; and
   ExtensionsProperty (KExtensions), given the statement for the constructors it calls.            *)
From Coq Require Import NArith ZArith List String Bool Lia.
From V Require Import Base.UString Base.Json Model.SchemaTypes Model.PyBase Model.Schema
     Spec.StixValid Spec.SchemaRefine Proofs.SchemaBasics Proofs.SchemaValidMono Proofs.SchemaScope
     Proofs.SchemaTime Proofs.SchemaLeaf Proofs.SchemaObject Proofs.SchemaProved Proofs.SchemaKinds
     Proofs.SchemaCovRef Proofs.SchemaCovHashes Proofs.SchemaCovFloat Proofs.SchemaCovProved.
Import ListNotations.

Local Arguments u : simpl never.

(* the object carries `type: t` and serializes it *)
Definition typed (t : ustring) (o : pval) : Prop :=
  exists k inner dfl hc, o = PObject k inner dfl hc /\ alookup (u "type") inner = Some (PJ (JStr t)) /\
                         mem_ustr (u "type") dfl = false.

Lemma typed_lookup t o : typed t o -> exists m, encode false o = JObj m /\ jlookup (u "type") m = Some (JStr t).
Proof.
  intros (k & inner & dfl & hc & -> & Hl & Hd). rewrite encode_PObject. eexists. split; [reflexivity|].
  rewrite jlookup_alookup, alookup_map_encode. unfold kept.
  rewrite (alookup_filter_keys (fun k => false || negb (mem_ustr k dfl))). rewrite Hd, Hl. reflexivity.
Qed.

Section CovKinds.
  Variable vr : variant.
  Variables w sp : world.
  Variable pok : ver -> ustring -> bool.
  Variable rc : ustring -> bool -> bool -> list (ustring * jvalue) -> result pval.
  Variable rp : bool -> bool -> list (ustring * jvalue) -> result pval.
  Variable ro : ver -> list (ustring * ustring) -> bool -> list (ustring * jvalue) -> result pval.

  Hypothesis Hvr : variant_sound vr = true.
  Hypothesis Href : world_refines w sp = true.

  Notation SK := (sound_kind vr w sp pok rc rp ro).
  Notation SA := (sound_at vr w sp pok rc rp ro).

  Lemma leaf_sound2 k k' : leaf_proved2 k = true -> kind_refines k k' = true -> SK k k'.
  Proof.
    destruct (vr_flags vr Hvr) as (Hhex & Hkey & Hsel & Hhash & Huuid & Hpad & Hext & Hsock).
    intros Hl Hr. unfold leaf_proved2 in Hl.
    destruct (leaf_proved k) eqn:El; [apply leaf_sound; auto|]. cbn [orb] in Hl.
    apply sound_at_kind.
    destruct k; try discriminate El; try discriminate Hl.
    - (* KId *) destruct k'; simpl in Hr; try discriminate. apply andb_true_iff in Hr. destruct Hr.
      apply cov_sound_id; auto.
    - (* KFloat *) destruct k'; simpl in Hr; try discriminate. apply andb_true_iff in Hr. destruct Hr.
      apply cov_sound_float; auto.
    - (* KHashes *) destruct k'; try (simpl in Hr; discriminate). apply cov_sound_hashes; auto.
    - (* KRef *) destruct k'; try (simpl in Hr; discriminate). apply cov_sound_ref; auto.
    - (* KMarking *) intros x pv hc n H. discriminate H.
  Qed.

  (* ---- composite kinds ---- *)
  Variable cp : ustring -> bool.
  Hypothesis IHrc : forall cid d o, cp cid = true -> dict_scope d = true ->
                                    rc cid false false d = Ok o -> good sp pok cid o.

  (* ExtensionsProperty *)
  Definition ext_entry_ok (vv : ver) (kv : ustring * pval) : Prop :=
    exists cid, assoc (fst kv) (rextensions (reg_of w vv)) = Some cid /\
                exists n, valid_obj sp pok n cid (encode false (snd kv)) = true.

  Lemma assoc_In' k m v : assoc k m = Some v -> In (k, v) m.
  Proof. apply assoc_In. Qed.

  Lemma ext_loop_sound vv :
    forallb (fun kc => cp (snd kc)) (rextensions (reg_of w vv)) = true ->
    forall l acc hc0 pv hc,
      forallb (fun kv => entry_scope (fst kv) (snd kv) && jscope (snd kv)) l = true ->
      (forall kv, In kv acc -> ext_entry_ok vv kv) ->
      ext_loop vr w rc vv false false l acc hc0 = Ok (pv, hc) ->
      exists acc', pv = PMap acc' /\ hc = hc0 /\ (forall kv, In kv acc' -> ext_entry_ok vv kv) /\
                   (l <> [] \/ acc <> [] -> acc' <> []).
  Proof.
    intros Hcp. induction l as [|[key sub] l IH]; intros acc hc0 pv hc Hsc Hacc H.
    - simpl in H. injection H as <- <-. exists acc. split; [auto|split; [auto|split; [auto|]]].
      intros [E | E]; auto.
    - cbn [ext_loop] in H. cbn [forallb fst snd] in Hsc.
      apply andb_true_iff in Hsc. destruct Hsc as [Hkv Hl]. apply andb_true_iff in Hkv. destruct Hkv as [Hes Hjs].
      unfold class_for in H.
      destruct (assoc key (rextensions (reg_of w vv))) as [cid|] eqn:Ea.
      + destruct sub as [| | | | | |sd]; try discriminate.
        inv_bind H. inv_bind Hb.
        assert (Hc : cp cid = true).
        { rewrite forallb_forall in Hcp. apply (Hcp (key, cid)). apply assoc_In. exact Ea. }
        destruct (IHrc cid sd a0 Hc Hjs Hba) as (inner & dfl & -> & n & Hn).
        cbn [pval_has_custom] in Hbb. rewrite orb_false_r in Hbb.
        destruct hc0; cbn [negb andb] in Hbb; try discriminate.
        assert (Hacc1 : forall kv, In kv (acc ++ [(key, PObject cid inner dfl false)]) -> ext_entry_ok vv kv).
        { intros kv Hin. apply in_app_or in Hin. destruct Hin as [Hin | [<- | []]]; auto.
          exists cid. split; [exact Ea|]. exists n. exact Hn. }
        destruct (IH _ false pv hc Hl Hacc1 Hbb) as (acc' & E1 & E2 & E3 & E4).
        exists acc'. split; [auto|split; [auto|split; [auto|]]]. intros _. apply E4. right.
        destruct acc; discriminate.
      + unfold entry_scope, key_scope in Hes.
        apply andb_true_iff in Hes. destruct Hes as [Hes _]. apply andb_true_iff in Hes. destruct Hes as [_ Hes].
        apply negb_true_iff in Hes. rewrite Hes in H. discriminate.
  Qed.

  Lemma sound_extensions vv vv' :
    ver_eqb vv vv' = true ->
    forallb (fun kc => cp (snd kc)) (rextensions (reg_of w vv)) = true ->
    SK (KExtensions vv) (KExtensions vv').
  Proof.
    destruct (vr_flags vr Hvr) as (_ & _ & _ & _ & _ & _ & Hext & _).
    intros Ev Hcp x pv hc Hx H. apply ver_eqb_eq in Ev. subst vv'.
    cbn [clean_kind] in H. inv_bind H. destruct x; simpl in Ha; try discriminate. injection Ha as <-.
    destruct m as [|kv0 m0] eqn:Em.
    { rewrite Hext in Hb. discriminate. }
    rewrite <- Em in *.
    assert (Hnil : forall kv : ustring * pval, In kv [] -> ext_entry_ok vv kv) by (intros kv []).
    rewrite jscope_obj in Hx.
    destruct (ext_loop_sound vv Hcp m [] false pv hc Hx Hnil Hb) as (acc' & -> & -> & Hent & Hne).
    split; [auto|split; [exact I|]].
    assert (HN : exists N, forall kv, In kv acc' ->
                exists cid, assoc (fst kv) (rextensions (reg_of w vv)) = Some cid /\
                            valid_obj sp pok N cid (encode false (snd kv)) = true).
    { apply (forall_exists_bound
               (fun N kv => exists cid, assoc (fst kv) (rextensions (reg_of w vv)) = Some cid /\
                                        valid_obj sp pok N cid (encode false (snd kv)) = true)).
      - intros n1 n2 kv Hle [cid [A B]]. exists cid. split; auto. eapply valid_obj_mono; eauto.
      - intros kv Hin. destruct (Hent kv Hin) as [cid [A [n B]]]. exists n, cid. auto. }
    destruct HN as [N HN]. exists (S N).
    rewrite encode_PMap.
    change (forallb (fun kv => match assoc (fst kv) (rextensions (s_reg sp vv)) with
                               | Some cid => valid_obj sp pok N cid (snd kv)
                               | None => ustr_prefix (u "extension-definition--") (fst kv)
                                         && valid_id vv (Some (u "extension-definition--")) (fst kv)
                                         && no_empties (snd kv)
                               end) (map (fun kv => (fst kv, encode false (snd kv))) acc')
            && negb (Nat.eqb (List.length (map (fun kv => (fst kv, encode false (snd kv))) acc')) 0) = true).
    apply andb_true_iff. split.
    - rewrite forallb_forall. intros kv Hin. apply in_map_iff in Hin. destruct Hin as [kv1 [<- Hin]].
      destruct (HN kv1 Hin) as [cid [A B]]. cbn [fst snd]. unfold s_reg.
      rewrite <- (world_refines_reg_of _ _ vv Href). rewrite A. exact B.
    - rewrite map_length. destruct acc'; simpl; auto. exfalso. apply Hne; auto. left. subst m. discriminate.
  Qed.

  (* ObservableProperty *)
  Hypothesis IHro : forall vv refs d o, dict_scope d = true -> ro vv refs false d = Ok o ->
      exists t k, assoc t (robservables (reg_of w vv)) = Some k /\
                  (class_typed w k t = true -> typed t o) /\ (cp k = true -> good sp pok k o).

  Definition obs_entry_ok (vv : ver) (kv : ustring * pval) : Prop :=
    exists t k, assoc t (robservables (reg_of w vv)) = Some k /\ typed t (snd kv) /\
                exists n, valid_obj sp pok n k (encode false (snd kv)) = true.

  Lemma obs_loop_sound vv refs :
    forallb (fun kc => cp (snd kc) && class_typed w (snd kc) (fst kc)) (robservables (reg_of w vv)) = true ->
    forall l acc hc0 pv hc,
      forallb (fun kv => entry_scope (fst kv) (snd kv) && jscope (snd kv)) l = true ->
      (forall kv, In kv acc -> obs_entry_ok vv kv) ->
      obs_loop ro vv refs false l acc hc0 = Ok (pv, hc) ->
      exists acc', pv = PMap acc' /\ hc = hc0 /\ (forall kv, In kv acc' -> obs_entry_ok vv kv) /\
                   (l <> [] \/ acc <> [] -> acc' <> []).
  Proof.
    intros Hcp. induction l as [|[key sub] l IH]; intros acc hc0 pv hc Hsc Hacc H.
    - simpl in H. injection H as <- <-. exists acc. split; [auto|split; [auto|split; [auto|]]].
      intros [E | E]; auto.
    - cbn [obs_loop] in H. cbn [forallb fst snd] in Hsc.
      apply andb_true_iff in Hsc. destruct Hsc as [Hkv Hl]. apply andb_true_iff in Hkv. destruct Hkv as [_ Hjs].
      destruct sub as [| | | | | |od]; try discriminate.
      inv_bind H.
      destruct (IHro vv refs od a Hjs Ha) as (t & k & Hassoc & Hty & Hgood).
      rewrite forallb_forall in Hcp. pose proof (Hcp (t, k) (assoc_In _ _ _ Hassoc)) as Hck. cbn [fst snd] in Hck.
      apply andb_true_iff in Hck. destruct Hck as [Hck Htk].
      pose proof (Hty Htk) as Htyped.
      destruct (Hgood Hck) as (inner & dfl & -> & n & Hn).
      rewrite orb_false_r in Hb. destruct hc0; cbn [negb andb] in Hb; try discriminate.
      assert (Hacc1 : forall kv, In kv (acc ++ [(key, PObject k inner dfl false)]) -> obs_entry_ok vv kv).
      { intros kv Hin. apply in_app_or in Hin. destruct Hin as [Hin | [<- | []]]; auto.
        exists t, k. split; [exact Hassoc|]. split; [exact Htyped|]. exists n. exact Hn. }
      destruct (IH _ false pv hc Hl Hacc1 Hb) as (acc' & E1 & E2 & E3 & E4).
      exists acc'. split; [auto|split; [auto|split; [auto|]]]. intros _. apply E4. right.
      destruct acc; discriminate.
  Qed.

  Lemma sound_observable vv vv' :
    ver_eqb vv vv' = true ->
    forallb (fun kc => cp (snd kc) && class_typed w (snd kc) (fst kc)) (robservables (reg_of w vv)) = true ->
    SK (KObservable vv) (KObservable vv').
  Proof.
    intros Ev Hcp x pv hc Hx H. apply ver_eqb_eq in Ev. subst vv'.
    cbn [clean_kind] in H. inv_bind H. destruct x; simpl in Ha; try discriminate. injection Ha as <-.
    destruct m as [|kv0 m0] eqn:Em; [discriminate|]. rewrite <- Em in *.
    inv_bind Hb.
    assert (Hnil : forall kv : ustring * pval, In kv [] -> obs_entry_ok vv kv) by (intros kv []).
    rewrite jscope_obj in Hx.
    destruct (obs_loop_sound vv a Hcp m [] false pv hc Hx Hnil Hbb) as (acc' & -> & -> & Hent & Hne).
    split; [auto|split; [exact I|]].
    assert (HN : exists N, forall kv, In kv acc' ->
                exists t k, assoc t (robservables (reg_of w vv)) = Some k /\ typed t (snd kv) /\
                            valid_obj sp pok N k (encode false (snd kv)) = true).
    { apply (forall_exists_bound
               (fun N kv => exists t k, assoc t (robservables (reg_of w vv)) = Some k /\ typed t (snd kv) /\
                                        valid_obj sp pok N k (encode false (snd kv)) = true)).
      - intros n1 n2 kv Hle (t & k & A & B & C). exists t, k. split; auto. split; auto. eapply valid_obj_mono; eauto.
      - intros kv Hin. destruct (Hent kv Hin) as (t & k & A & B & n & C). exists n, t, k. auto. }
    destruct HN as [N HN]. exists (S N).
    rewrite encode_PMap.
    change (negb (Nat.eqb (List.length (map (fun kv => (fst kv, encode false (snd kv))) acc')) 0) &&
            forallb (fun kv => match snd kv with
                               | JObj om =>
                                 match jlookup (u "type") om with
                                 | Some (JStr t) => match assoc t (robservables (s_reg sp vv)) with
                                                    | Some cid => valid_obj sp pok N cid (snd kv)
                                                    | None => false
                                                    end
                                 | _ => false
                                 end
                               | _ => false
                               end) (map (fun kv => (fst kv, encode false (snd kv))) acc') = true).
    apply andb_true_iff. split.
    - rewrite map_length. destruct acc'; simpl; auto. exfalso. apply Hne; auto. left. subst m. discriminate.
    - rewrite forallb_forall. intros kv Hin. apply in_map_iff in Hin. destruct Hin as [kv1 [<- Hin]].
      destruct (HN kv1 Hin) as (t & k & A & B & C). cbn [fst snd].
      destruct (typed_lookup _ _ B) as [om [Eo Et]]. rewrite Eo in *. rewrite Et. unfold s_reg.
      rewrite <- (world_refines_reg_of _ _ vv Href). rewrite A. exact C.
  Qed.

  Lemma kind_sound2 : forall k k', kind_proved2 w cp k = true -> kind_refines k k' = true -> SK k k'.
  Proof.
    induction k; intros k' Hp Hr; try (apply leaf_sound2; auto; fail).
    - (* KEmbedded *)
      simpl in Hp. destruct k'; simpl in Hr; try discriminate. apply ustr_eqb_eq in Hr. subst cls0.
      intros v pv hc Hv H. simpl in H. destruct v; try discriminate. inv_bind H. inv_bind Hb.
      destruct (IHrc cls m a0 Hp Hv Hba) as (inner & dfl & -> & n & Hn).
      simpl in Hbb. inversion Hbb; subst. split; auto. split; [exact I|]. exists (S n). exact Hn.
    - (* KObservable *)
      simpl in Hp. destruct k'; simpl in Hr; try discriminate. apply sound_observable; auto.
    - (* KExtensions *)
      simpl in Hp. destruct k'; simpl in Hr; try discriminate. apply sound_extensions; auto.
    - (* KList *)
      simpl in Hp. destruct k'; simpl in Hr; try discriminate.
      intros v pv hc Hv H. cbn [clean_kind] in H. inv_bind H. inv_bind Hb.
      apply finish_list_inv in Hbb. destruct Hbb as (res & -> & Hne & -> & ->).
      destruct (clean_items_sound vr w sp pok rc rp ro k k' a res false (IHk k' Hp Hr) (list_items_scope _ _ Hv Ha) Hba) as [_ [n Hn]].
      split; auto. split; [exact I|]. exists (S n). rewrite encode_PArr. simpl. rewrite forallb_map.
      rewrite Hn, andb_true_r. destruct res; simpl; auto; contradiction.
    - (* KListOf *)
      simpl in Hp. destruct k'; simpl in Hr; try discriminate. apply ustr_eqb_eq in Hr. subst cls0.
      intros v pv hc Hv H. cbn [clean_kind] in H. inv_bind H. inv_bind Hb.
      apply finish_list_inv in Hbb. destruct Hbb as (res & -> & Hne & -> & ->).
      destruct (listof_items_sound sp pok rc rp cp IHrc cls a res false Hp (list_items_scope _ _ Hv Ha) Hba) as [n Hn].
      split; auto. split; [exact I|]. exists (S n). rewrite encode_PArr. simpl. rewrite forallb_map.
      rewrite Hn, andb_true_r. destruct res; simpl; auto; contradiction.
  Qed.
End CovKinds.

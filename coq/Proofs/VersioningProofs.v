(* Proofs/VersioningProofs.v -- lemmas behind Props/C05.v *)
From Coq Require Import String ZArith NArith List Bool Lia Sorting.Sorted.
From V Require Import Base.UString Base.Json Model.Timestamp Model.Versioning Spec.VersioningSpec Proofs.VersioningFacts.
Import ListNotations.
Open Scope list_scope. Open Scope Z_scope.

Ltac Zify.zify_post_hook ::= Z.to_euclidean_division_equations.

Definition kmod : ustring := u "modified".
Definition good_ver (v : sver) : Prop := v = V20 \/ v = V21.

(* the offset a parsed value carries: a naive value is localised to UTC in NaiveUtc mode *)
Definition norm_off (nm : naive_mode) (o : option Z) : option Z :=
  match o, nm with None, NaiveUtc => Some 0 | _, _ => o end.

Lemma norm_off_idem : forall nm o, norm_off nm (norm_off nm o) = norm_off nm o.
Proof. intros [] [o|]; reflexivity. Qed.

Section Proofs.
  Variable T : vtables.
  Variable nm : naive_mode.
  Variable cp : sver -> ustring -> pval -> pval.        (* clean_prop: arbitrary *)
  Variable ck : sver -> pdict -> option string.          (* ctor_check: arbitrary *)

  (* ---- parse_ts ---- *)
  Lemma parse_ts_dt : forall v l o,
    parse_ts nm v (Some (PDt l o)) = Ok (stored_trunc PMilli (pconstraint_of v) l, norm_off nm o).
  Proof. intros v l o. cbn [parse_ts parse_into]. destruct o, nm; reflexivity. Qed.

  (* whatever parses, parses to a value that is already truncated and localised *)
  Lemma parse_ts_shape : forall v x l o, parse_ts nm v x = Ok (l, o) ->
    stored_trunc PMilli (pconstraint_of v) l = l /\ norm_off nm o = o.
  Proof.
    intros v x l o H. destruct x as [[j|l0 o0|y m d]|]; [| |cbn [parse_ts] in H|cbn [parse_ts] in H; discriminate].
    - cbn [parse_ts] in H. destruct j; try discriminate. cbn [parse_into] in H. destruct (parse_strptime s); [|discriminate].
      inversion H; subst. split; [apply stored_trunc_milli_idem|now destruct nm].
    - rewrite parse_ts_dt in H. inversion H; subst.
      split; [apply stored_trunc_milli_idem|apply norm_off_idem].
    - cbn [parse_into] in H. inversion H; subst. split; [apply stored_trunc_milli_idem|now destruct nm].
  Qed.

  Lemma parse_ts_idem : forall v x l o, parse_ts nm v x = Ok (l, o) -> parse_ts nm v (Some (PDt l o)) = Ok (l, o).
  Proof. intros v x l o H. apply parse_ts_shape in H as [H1 H2]. rewrite parse_ts_dt. now rewrite H1, H2. Qed.

  (* a value that parses is a non-None, truthy value *)
  Lemma parse_ts_truthy : forall v x r, parse_ts nm v (Some x) = Ok r -> truthy x = true /\ is_none x = false.
  Proof.
    intros v x r H. destruct x as [j|l o|y m d]; cbn [parse_ts] in H; [|split; reflexivity|split; reflexivity].
    destruct j; try discriminate. destruct s; [|split; reflexivity].
    cbn in H. discriminate.
  Qed.

  Lemma ser_value_idem : forall v x l o, parse_ts nm v x = Ok (l, o) ->
    ser_value nm v (Some (PDt l o)) = ser_value nm v x.
  Proof. intros v x l o H. unfold ser_value. now rewrite (parse_ts_idem v x l o H), H. Qed.

  (* ---- inversion of new_version ---- *)
  Definition revoked_flag (d : pdict) : bool :=
    match plookup (u "revoked") d with Some r => truthy r | None => false end.

  Lemma new_version_ok : forall c d ch now d', new_version T nm cp ck c d ch now = Ok d' ->
    exists v locked old,
      check_versionable T c d = Ok v /\ revoked_flag d = false /\ sco_locked T d = Ok locked /\
      existsb (fun k => has_key k ch) (t_unmod T ++ locked) = false /\
      parse_ts nm v (version_time d) = Ok old /\
      ((exists s nmv dlt, plookup kmod ch = Some s /\ parse_ts nm v (Some s) = Ok nmv /\
                          ts_diff nmv old = Some dlt /\ 0 < dlt /\
                          construct nm cp ck c (drop_none (update d ch)) = Ok d')
       \/ (exists l o, plookup kmod ch = None /\ fudge v old now = Ok (l, o) /\
                       construct nm cp ck c (drop_none (update d (ch ++ [(kmod, PDt l o)]))) = Ok d')).
  Proof.
    intros c d ch now d' H. unfold new_version in H.
    destruct (check_versionable T c d) as [v|e] eqn:CV; [|discriminate].
    fold (revoked_flag d) in H. destruct (revoked_flag d) eqn:RV; [discriminate|].
    destruct (sco_locked T d) as [locked|e] eqn:SL; [|discriminate].
    destruct (existsb (fun k => has_key k ch) (t_unmod T ++ locked)) eqn:EX; [discriminate|].
    fold (version_time d) in H.
    destruct (parse_ts nm v (version_time d)) as [old|e] eqn:PO; [|discriminate].
    exists v, locked, old. repeat (split; [reflexivity || assumption|]).
    fold kmod in H. destruct (plookup kmod ch) as [s|] eqn:PM.
    - left. destruct (parse_ts nm v (Some s)) as [nmv|e] eqn:PS; [|discriminate].
      destruct (ts_diff nmv old) as [dlt|] eqn:TD; [|discriminate].
      destruct (dlt <=? 0) eqn:LE; [discriminate|]. apply Z.leb_gt in LE.
      exists s, nmv, dlt. repeat (split; [reflexivity || assumption|]). exact H.
    - right. destruct (fudge v old now) as [[l o]|e] eqn:FU; [|discriminate].
      exists l, o. repeat (split; [reflexivity|]). exact H.
  Qed.

  Lemma check_versionable_ver : forall c d v, check_versionable T c d = Ok v -> get_stix_version T c d = Ok v.
  Proof.
    intros c d v H. unfold check_versionable in H. destruct c as [v0| |]; try discriminate.
    - destruct (has_versioning_keys T d); [exact H|]. cbn [get_stix_version] in *.
      destruct (match class_versionable T v0 (plookup (u "type") d) with Some b => b | None => false end); [|discriminate].
      destruct (has_key (u "created") d); [exact H|discriminate].
    - destruct (has_versioning_keys T d); [exact H|].
      destruct (get_stix_version T CDict d) as [v1|e]; [|discriminate].
      destruct (match class_versionable T v1 (plookup (u "type") d) with Some b => b | None => true end); [|discriminate].
      destruct (has_key (u "created") d); [exact H|discriminate].
  Qed.

  Lemma check_versionable_object : forall v0 d v, check_versionable T (CObject v0) d = Ok v -> v = v0.
  Proof. intros v0 d v H. apply check_versionable_ver in H. cbn in H. now inversion H. Qed.

  (* ---- the dictionary the constructor receives, and what it keeps ---- *)
  Lemma plookup_clean_all : forall v k d, plookup k (clean_all cp v d) = option_map (cp v k) (plookup k d).
  Proof.
    intros v k d. induction d as [|[k0 x0] r IH]; [reflexivity|]. cbn [clean_all map fst snd plookup].
    destruct (ustr_eqb k k0) eqn:E; [|exact IH]. apply ustr_eqb_eq in E. now subst.
  Qed.

  Lemma keys_clean_all : forall v d, keys (clean_all cp v d) = keys d.
  Proof. intros v d. unfold keys, clean_all. rewrite map_map. reflexivity. Qed.

  (* the stored value of a property other than modified: as handed over for a dict, cleaned for an object *)
  Definition stored (c : carrier) (k : ustring) (x : option pval) : option pval :=
    match c with CObject v => option_map (cp v k) x | _ => x end.

  Lemma construct_other : forall c d d' k, construct nm cp ck c d = Ok d' -> ustr_eqb k kmod = false ->
    plookup k d' = stored c k (plookup k d).
  Proof.
    intros c d d' k H N. unfold construct in H. destruct c as [v| |]; try (inversion H; reflexivity).
    destruct (ck v d); [discriminate|].
    fold kmod in H. cbn [stored]. destruct (plookup kmod d) as [m|].
    - destruct (parse_ts nm v (Some m)) as [[l o]|e]; [|discriminate]. inversion H; subst.
      rewrite plookup_set_key_other by assumption. apply plookup_clean_all.
    - inversion H; subst. apply plookup_clean_all.
  Qed.

  Lemma construct_dict : forall d d', construct nm cp ck CDict d = Ok d' -> d' = d.
  Proof. intros d d' H. cbn in H. now inversion H. Qed.

  Lemma construct_nodup : forall c d d', construct nm cp ck c d = Ok d' -> NoDup (keys d) -> NoDup (keys d').
  Proof.
    intros c d d' H N. unfold construct in H. destruct c as [v| |]; try (inversion H; subst; exact N).
    destruct (ck v d); [discriminate|].
    destruct (plookup (u "modified") d) as [m|].
    - destruct (parse_ts nm v (Some m)) as [[l o]|e]; [|discriminate]. inversion H; subst.
      apply nodup_set_key. now rewrite keys_clean_all.
    - inversion H; subst. now rewrite keys_clean_all.
  Qed.

  (* serialized time of `modified` after construction = that of the raw value handed to the constructor *)
  Lemma construct_modified : forall c d d' x v, construct nm cp ck c d = Ok d' ->
    (forall v0, c = CObject v0 -> v0 = v) ->
    plookup kmod d = Some x -> (exists r, parse_ts nm v (Some x) = Ok r) ->
    exists y, plookup kmod d' = Some y /\ truthy y = true /\ is_none y = false /\
              ser_value nm v (Some y) = ser_value nm v (Some x).
  Proof.
    intros c d d' x v H CV PX [r PR]. unfold construct in H. fold kmod in H.
    destruct c as [v0| |].
    - destruct (ck v0 d); [discriminate|]. rewrite PX in H.
      rewrite (CV v0 eq_refl) in H. rewrite PR in H. destruct r as [l o]. inversion H; subst.
      exists (PDt l o). rewrite plookup_set_key_same. repeat (split; [reflexivity|]). now apply ser_value_idem.
    - inversion H; subst. exists x. destruct (parse_ts_truthy v x r PR). auto.
    - inversion H; subst. exists x. destruct (parse_ts_truthy v x r PR). auto.
  Qed.

  Lemma version_time_modified : forall d y, plookup kmod d = Some y -> truthy y = true -> is_none y = false ->
    version_time d = Some y.
  Proof. intros d y P Tr N. unfold version_time, pget. fold kmod. now rewrite P, N, Tr. Qed.

  (* ---- strictly newer ---- *)
  Definition later (v : sver) (d d' : pdict) : Prop :=
    exists a b, ser_value nm v (version_time d) = Some a /\ ser_value nm v (version_time d') = Some b /\ a < b.

  Lemma later_trans : forall v d1 d2 d3, later v d1 d2 -> later v d2 d3 -> later v d1 d3.
  Proof.
    intros v d1 d2 d3 (a & b & A & B & L) (b' & c & B' & C & L'). rewrite B in B'. inversion B'; subst.
    exists a, c. repeat split; try assumption. lia.
  Qed.

  Lemma trunc_exact_shape : forall l, stored_trunc PMilli CExact l = l -> l mod 1000 = 0.
  Proof. intros l H. rewrite stored_trunc_milli_exact in H. lia. Qed.

  (* the arithmetic core on the model's (fields, offset) pairs: the value produced by
     _fudge_modified serializes strictly later than the old one, whatever the clock reads *)
  Lemma fudge_later : forall v old now l o, good_ver v ->
    stored_trunc PMilli (pconstraint_of v) (fst old) = fst old -> norm_off nm (snd old) = snd old ->
    fudge v old now = Ok (l, o) ->
    exists b, ser_value nm v (Some (PDt l o)) = Some b /\ utc_of old < b.
  Proof.
    intros v [lo oo] now l o GV SH NO H. cbn [fst snd] in *. unfold fudge, ts_diff in H.
    destruct oo as [o0|]; [|discriminate]. cbn [fst snd] in H.
    unfold ser_value. rewrite parse_ts_dt. unfold utc_of. cbn [fst snd].
    destruct GV as [-> | ->]; cbn [pconstraint_of] in *.
    - apply trunc_exact_shape in SH. rewrite stored_trunc_milli_exact.
      destruct (now - 0 - (lo - o0) <? 1000) eqn:E; inversion H; subst; eexists; (split; [reflexivity|]).
      + assert (NO' : norm_off nm (Some o0) = Some o0) by (destruct nm; reflexivity). rewrite NO'. cbn [fst snd]. lia.
      + assert (NO' : norm_off nm (Some 0) = Some 0) by (destruct nm; reflexivity). rewrite NO'. cbn [fst snd].
        apply Z.ltb_ge in E. lia.
    - cbn [stored_trunc].
      destruct (now - 0 - (lo - o0) <=? 0) eqn:E; inversion H; subst; eexists; (split; [reflexivity|]).
      + assert (NO' : norm_off nm (Some o0) = Some o0) by (destruct nm; reflexivity). rewrite NO'. cbn [fst snd]. lia.
      + assert (NO' : norm_off nm (Some 0) = Some 0) by (destruct nm; reflexivity). rewrite NO'. cbn [fst snd].
        apply Z.leb_gt in E. lia.
  Qed.

  Lemma ts_diff_utc : forall a b dlt, ts_diff a b = Some dlt -> dlt = utc_of a - utc_of b.
  Proof.
    intros [la [oa|]] [lb [ob|]] dlt H; cbn in H; try discriminate; inversion H; unfold utc_of; cbn; lia.
  Qed.

  Lemma nodup_kw_clock : forall ch x, plookup kmod ch = None -> NoDup (keys ch) -> NoDup (keys (ch ++ [(kmod, x)])).
  Proof.
    intros ch x P N. unfold keys. rewrite map_app. cbn [map fst].
    assert (NI : ~ In kmod (map fst ch)).
    { intros I. apply has_key_in in I. unfold has_key in I. rewrite P in I. discriminate. }
    clear P. induction ch as [|[k v] r IH]; cbn; [constructor; [tauto|constructor]|].
    inversion N; subst. constructor.
    - rewrite in_app_iff. cbn. intros [I|[I|[]]]; [contradiction|]. subst. apply NI. now left.
    - apply IH; [assumption|]. intros I. apply NI. now right.
  Qed.

  (* the entry the constructor receives under `modified` *)
  Lemma plookup_kw_modified_clock : forall d ch x, is_none x = false ->
    plookup kmod (drop_none (update d (ch ++ [(kmod, x)]))) = Some x.
  Proof.
    intros d ch x N. rewrite update_app. unfold update at 1. cbn [fold_left fst snd].
    set (d1 := update d ch).
    assert (P : plookup kmod (set_key kmod x d1) = Some x) by apply plookup_set_key_same.
    revert P. generalize (set_key kmod x d1). intros d2.
    induction d2 as [|[k0 v0] r IH]; intros P; [discriminate|]. rewrite drop_none_cons. cbn [snd]. cbn [plookup] in P.
    destruct (ustr_eqb kmod k0) eqn:E.
    - inversion P; subst. rewrite N. cbn [negb plookup]. now rewrite E.
    - destruct (is_none v0); cbn [negb plookup]; [|rewrite E]; now apply IH.
  Qed.

  Theorem nv_strict_lemma : forall c d ch now d' v, good_ver v -> NoDup (keys d) -> NoDup (keys ch) ->
    check_versionable T c d = Ok v -> new_version T nm cp ck c d ch now = Ok d' -> later v d d'.
  Proof.
    intros c d ch now d' v GV ND NC CV H.
    destruct (new_version_ok c d ch now d' H) as (v' & locked & old & CV' & _ & _ & _ & PO & Cases).
    rewrite CV in CV'. inversion CV'; subst v'. clear CV'.
    assert (CO : forall v0, c = CObject v0 -> v0 = v).
    { intros v0 ->. symmetry. now apply check_versionable_object with d. }
    destruct old as [lo oo]. destruct (parse_ts_shape v _ lo oo PO) as [SH NO].
    unfold later. unfold ser_value at 1. rewrite PO.
    destruct Cases as [(s & nmv & dlt & PM & PS & TD & POS & CON) | (l & o & PM & FU & CON)].
    - (* caller-supplied modified *)
      destruct (parse_ts_truthy v s nmv PS) as [TR NN].
      assert (PX : plookup kmod (drop_none (update d ch)) = Some s).
      { rewrite plookup_drop_none by (now apply nodup_update). unfold pget.
        rewrite plookup_update_nodup by assumption. now rewrite PM, NN. }
      destruct (construct_modified c _ d' s v CON CO PX (ex_intro _ nmv PS)) as (y & PY & TY & NY & SY).
      rewrite (version_time_modified d' y PY TY NY). rewrite SY. unfold ser_value. rewrite PS.
      exists (utc_of (lo, oo)), (utc_of nmv). repeat split. apply ts_diff_utc in TD. lia.
    - (* clock *)
      destruct (fudge_later v (lo, oo) now l o GV SH NO FU) as (b & SB & LT).
      assert (PX : plookup kmod (drop_none (update d (ch ++ [(kmod, PDt l o)]))) = Some (PDt l o))
        by (now apply plookup_kw_modified_clock).
      assert (PR : exists r, parse_ts nm v (Some (PDt l o)) = Ok r) by (rewrite parse_ts_dt; eauto).
      destruct (construct_modified c _ d' (PDt l o) v CON CO PX PR) as (y & PY & TY & NY & SY).
      rewrite (version_time_modified d' y PY TY NY). rewrite SY.
      exists (utc_of (lo, oo)), b. repeat split; assumption.
  Qed.

  (* ---- exact change set ---- *)
  Definition requested (ch : pdict) (d : pdict) (k : ustring) : option pval :=
    match plookup k ch with
    | Some v => if is_none v then None else Some v       (* a change to None removes the property *)
    | None => pget k d
    end.

  Lemma pget_drop_none : forall k d, NoDup (keys d) -> pget k (drop_none d) = pget k d.
  Proof.
    intros k d N. unfold pget at 1. rewrite plookup_drop_none by assumption.
    destruct (pget k d) as [v|] eqn:E; [|reflexivity]. apply pget_some in E as [_ E]. now rewrite E.
  Qed.

  Lemma pget_update : forall k d kw, NoDup (keys kw) -> pget k (update d kw) = requested kw d k.
  Proof.
    intros k d kw N. unfold pget at 1, requested. rewrite plookup_update_nodup by assumption.
    destruct (plookup k kw); reflexivity.
  Qed.

  (* every property other than modified holds what was requested -- as handed over in a dict, in its
     cleaned form in an object *)
  Theorem nv_exact_lemma : forall c d ch now d', NoDup (keys d) -> NoDup (keys ch) ->
    new_version T nm cp ck c d ch now = Ok d' ->
    forall k, ustr_eqb k kmod = false -> plookup k d' = stored c k (requested ch d k).
  Proof.
    intros c d ch now d' ND NC H k NK.
    destruct (new_version_ok c d ch now d' H) as (v & locked & old & _ & _ & _ & _ & _ & Cases).
    destruct Cases as [(s & nmv & dlt & PM & PS & TD & POS & CON) | (l & o & PM & FU & CON)].
    - rewrite (construct_other _ _ _ k CON NK). f_equal. rewrite plookup_drop_none by (now apply nodup_update).
      now apply pget_update.
    - rewrite (construct_other _ _ _ k CON NK). f_equal. rewrite plookup_drop_none by (now apply nodup_update).
      rewrite pget_update by (now apply nodup_kw_clock). unfold requested. rewrite plookup_app.
      destruct (plookup k ch); [reflexivity|]. cbn [plookup]. now rewrite NK.
  Qed.

  (* for a dict that is the Python-level get() *)
  Corollary nv_exact_dict_lemma : forall d ch now d', NoDup (keys d) -> NoDup (keys ch) ->
    new_version T nm cp ck CDict d ch now = Ok d' ->
    forall k, ustr_eqb k kmod = false -> pget k d' = requested ch d k.
  Proof.
    intros d ch now d' ND NC H k NK. pose proof (nv_exact_lemma CDict d ch now d' ND NC H k NK) as E. cbn [stored] in E.
    unfold pget. rewrite E. destruct (requested ch d k) as [x|] eqn:R; [|reflexivity].
    assert (N : is_none x = false); [|now rewrite N].
    unfold requested in R. destruct (plookup k ch) as [y|].
    - destruct (is_none y) eqn:Ny; [discriminate|]. now inversion R; subst.
    - now apply pget_some in R.
  Qed.

  (* ---- refusals ---- *)
  Lemma existsb_has_key_false : forall (l : list ustring) ch k, existsb (fun k => has_key k ch) l = false -> In k l -> has_key k ch = false.
  Proof.
    intros l ch k H I. destruct (has_key k ch) eqn:E; [|reflexivity].
    assert (X : existsb (fun k => has_key k ch) l = true) by (apply existsb_exists; eauto). congruence.
  Qed.

  Theorem nv_unmodifiable_lemma : forall c d ch now k, In k (t_unmod T) -> has_key k ch = true ->
    forall d', new_version T nm cp ck c d ch now <> Ok d'.
  Proof.
    intros c d ch now k I HK d' H.
    destruct (new_version_ok c d ch now d' H) as (v & locked & old & _ & _ & _ & EX & _).
    assert (F := existsb_has_key_false _ ch k EX ltac:(apply in_or_app; now left)). congruence.
  Qed.

  Theorem nv_sco_locked_lemma : forall c d ch now locked k, sco_locked T d = Ok locked -> In k locked -> has_key k ch = true ->
    forall d', new_version T nm cp ck c d ch now <> Ok d'.
  Proof.
    intros c d ch now locked k SL I HK d' H.
    destruct (new_version_ok c d ch now d' H) as (v & locked' & old & _ & _ & SL' & EX & _).
    rewrite SL in SL'. inversion SL'; subst locked'.
    assert (F := existsb_has_key_false _ ch k EX ltac:(apply in_or_app; now right)). congruence.
  Qed.

  (* when the contributing properties are locked: a 2.1 observable whose id is a version-5 UUID *)
  Lemma sco_locked_uuid5 : forall d ty id contrib,
    detect T d = Ok V21 -> plookup (u "type") d = Some (PJ (JStr ty)) -> sco_lookup ty (t_sco21 T) = Some contrib ->
    plookup (u "id") d = Some (PJ (JStr id)) -> uuid_shape 0 (last36 id) = true -> is_uuid5 (last36 id) = true ->
    sco_locked T d = Ok contrib.
  Proof. intros d ty id contrib D Ty SC Id SH U5. unfold sco_locked. now rewrite D, Ty, SC, Id, SH, U5. Qed.

  (* an unmodifiable property holds what it held (in its cleaned form, in an object) *)
  Theorem nv_identity_stored_lemma : forall c d ch now d' k, NoDup (keys d) -> NoDup (keys ch) ->
    new_version T nm cp ck c d ch now = Ok d' -> In k (t_unmod T) -> ustr_eqb k kmod = false ->
    plookup k d' = stored c k (pget k d).
  Proof.
    intros c d ch now d' k ND NC H I NK. rewrite (nv_exact_lemma c d ch now d' ND NC H k NK).
    destruct (new_version_ok c d ch now d' H) as (v & locked & old & _ & _ & _ & EX & _).
    assert (F := existsb_has_key_false _ ch k EX ltac:(apply in_or_app; now left)).
    unfold requested, has_key in *. destruct (plookup k ch); [discriminate|reflexivity].
  Qed.

  (* ... which is the value itself when cleaning leaves the object's own, already clean, value alone
     (always so for a dict) *)
  Theorem nv_identity_lemma : forall c d ch now d' k, NoDup (keys d) -> NoDup (keys ch) ->
    new_version T nm cp ck c d ch now = Ok d' -> In k (t_unmod T) -> ustr_eqb k kmod = false ->
    (forall x, pget k d = Some x -> stored c k (Some x) = Some x) ->
    pget k d' = pget k d.
  Proof.
    intros c d ch now d' k ND NC H I NK ST.
    pose proof (nv_identity_stored_lemma c d ch now d' k ND NC H I NK) as E. unfold pget at 1. rewrite E.
    destruct (pget k d) as [x|] eqn:P.
    - rewrite (ST x eq_refl). apply pget_some in P as [_ N]. now rewrite N.
    - destruct c; reflexivity.
  Qed.

  Theorem supplied_modified_lemma : forall c d ch now d' v s, good_ver v -> NoDup (keys d) -> NoDup (keys ch) ->
    check_versionable T c d = Ok v -> plookup kmod ch = Some s -> new_version T nm cp ck c d ch now = Ok d' ->
    exists a b, ser_value nm v (version_time d) = Some a /\ ser_value nm v (Some s) = Some b /\
                ser_value nm v (version_time d') = Some b /\ a < b.
  Proof.
    intros c d ch now d' v s GV ND NC CV PMs H.
    destruct (new_version_ok c d ch now d' H) as (v' & locked & old & CV' & _ & _ & _ & PO & Cases).
    rewrite CV in CV'. inversion CV'; subst v'. clear CV'.
    assert (CO : forall v0, c = CObject v0 -> v0 = v).
    { intros v0 ->. symmetry. now apply check_versionable_object with d. }
    destruct Cases as [(s' & nmv & dlt & PM & PS & TD & POS & CON) | (l & o & PM & _)]; [|fold kmod in PMs; congruence].
    rewrite PMs in PM. inversion PM; subst s'.
    destruct (parse_ts_truthy v s nmv PS) as [TR NN].
    assert (PX : plookup kmod (drop_none (update d ch)) = Some s).
    { rewrite plookup_drop_none by (now apply nodup_update). unfold pget.
      rewrite plookup_update_nodup by assumption. now rewrite PMs, NN. }
    destruct (construct_modified c _ d' s v CON CO PX (ex_intro _ nmv PS)) as (y & PY & TY & NY & SY).
    exists (utc_of old), (utc_of nmv). unfold ser_value at 1 2. rewrite PO, PS.
    rewrite (version_time_modified d' y PY TY NY), SY. unfold ser_value. rewrite PS.
    repeat split. apply ts_diff_utc in TD. lia.
  Qed.

  (* ---- revoked objects ---- *)
  Lemma revoked_new_version : forall c d ch now, revoked_flag d = true -> forall d', new_version T nm cp ck c d ch now <> Ok d'.
  Proof.
    intros c d ch now R d' H. destruct (new_version_ok c d ch now d' H) as (v & locked & old & _ & R' & _). congruence.
  Qed.

  Theorem revoked_final_lemma : forall c d o, revoked_flag d = true -> forall d', apply_op T nm cp ck c d o <> New d'.
  Proof.
    intros c d o R d' H.
    assert (K : forall ch n a, new_version T nm cp ck c d ch n <> Ok a) by (intros ch n a; now apply revoked_new_version).
    destruct o; cbn [apply_op] in H.
    - destruct (new_version T nm cp ck c d changes now) eqn:E; [now apply K in E|discriminate].
    - unfold revoke in H. fold (revoked_flag d) in H. rewrite R in H. destruct c; discriminate.
    - unfold add_markings in H. destruct (new_version T nm cp ck c d _ now) eqn:E; [now apply K in E|discriminate].
    - unfold remove_markings in H. destruct (marking_list d); [discriminate|].
      destruct (negb _); [discriminate|].
      destruct (filter _ _).
      + destruct (new_version T nm cp ck c d _ now) eqn:E; [now apply K in E|discriminate].
      + destruct (new_version T nm cp ck c d _ now) eqn:E; [now apply K in E|discriminate].
    - unfold clear_markings in H. destruct (new_version T nm cp ck c d _ now) eqn:E; [now apply K in E|discriminate].
    - unfold set_markings, clear_markings in H. destruct (new_version T nm cp ck c d _ now1) eqn:E; [now apply K in E|discriminate].
  Qed.

  Lemma revoke_ok : forall c d now d', revoke T nm cp ck c d now = Ok d' ->
    new_version T nm cp ck c d [(u "revoked", PJ (JBool true))] now = Ok d'.
  Proof.
    intros c d now d' H. unfold revoke in H. destruct c; try discriminate;
      destruct (match plookup (u "revoked") d with Some r => truthy r | None => false end); try discriminate; exact H.
  Qed.

  Theorem revoke_sets_lemma : forall c d now d', NoDup (keys d) ->
    (forall v0, c = CObject v0 -> truthy (cp v0 (u "revoked") (PJ (JBool true))) = true) ->   (* clean(True) is true *)
    revoke T nm cp ck c d now = Ok d' -> revoked_flag d' = true.
  Proof.
    intros c d now d' ND CL H. apply revoke_ok in H.
    assert (NC : NoDup (keys [(u "revoked", PJ (JBool true))])) by (constructor; [tauto|constructor]).
    pose proof (nv_exact_lemma c d _ now d' ND NC H (u "revoked") eq_refl) as E.
    unfold requested in E. cbn [plookup] in E. rewrite ustr_eqb_refl in E. cbn [is_none] in E.
    unfold revoked_flag. rewrite E. destruct c as [v0| |]; cbn [stored option_map]; [now apply CL|reflexivity|reflexivity].
  Qed.

  (* ---- no clock reading can make a legal operation fail ---- *)
  Lemma construct_total : forall c d x, plookup kmod d = Some x ->
    (forall v0, c = CObject v0 -> ck v0 d = None /\ exists r, parse_ts nm v0 (Some x) = Ok r) ->
    exists d', construct nm cp ck c d = Ok d'.
  Proof.
    intros c d x P H. unfold construct. fold kmod. destruct c as [v0| |]; eauto.
    destruct (H v0 eq_refl) as [A [[l o] E]]. rewrite A, P, E. eauto.
  Qed.

  (* for an object: provided the class accepts the changed properties with any modified time *)
  Theorem nv_succeeds_lemma : forall c d ch v locked l o, check_versionable T c d = Ok v ->
    revoked_flag d = false -> sco_locked T d = Ok locked ->
    existsb (fun k => has_key k ch) (t_unmod T ++ locked) = false -> plookup kmod ch = None ->
    parse_ts nm v (version_time d) = Ok (l, Some o) ->
    (forall v0 l' o', c = CObject v0 -> ck v0 (drop_none (update d (ch ++ [(kmod, PDt l' o')]))) = None) ->
    forall now, exists d', new_version T nm cp ck c d ch now = Ok d'.
  Proof.
    intros c d ch v locked l o CV RV SL EX PM PO ACC now. unfold new_version. rewrite CV.
    fold (revoked_flag d). rewrite RV, SL, EX. fold (version_time d). rewrite PO. fold kmod. rewrite PM.
    assert (F : exists l' o', fudge v (l, Some o) now = Ok (l', o')).
    { unfold fudge, ts_diff. cbn [fst snd]. destruct v; [destruct (_ <? _)|destruct (_ <=? _)|destruct (_ <=? _)]; eauto. }
    destruct F as (l' & o' & F). rewrite F.
    apply construct_total with (PDt l' o'); [now apply plookup_kw_modified_clock|].
    intros v0 E. split; [now apply ACC|]. rewrite parse_ts_dt. eauto.
  Qed.
End Proofs.

(* Proofs/PatternEqCmp.v -- the comparators of compare/*.py (as modelled in
   Model/PatternEq.v) are lawful: reflexive, antisymmetric (cmp y x is the
   opposite of cmp x y) and transitive in the strong sense of a total
   preorder (tr3).  Everything the normaliser does with a comparator (sort,
   group, membership, final comparison) is justified by these three laws.   *)
From Coq Require Import NArith ZArith QArith List Bool Permutation Lia.
From Coq Require Import Lqa.
From V Require Import Base.UString Model.PatternEq Spec.PatternSemantics.
Import ListNotations.

(* ------------------------------------------------------------------ *)
(* the laws                                                            *)

Definition lex2 (a b : comparison) : comparison := match a with Eq => b | c => c end.

(* transitivity of a three-way comparison, for one ordered triple *)
Definition tr3 (cxy cyz cxz : comparison) : Prop :=
  (cxy = Eq -> cxz = cyz) /\ (cyz = Eq -> cxz = cxy) /\
  (cxy = Lt -> cyz = Lt -> cxz = Lt) /\ (cxy = Gt -> cyz = Gt -> cxz = Gt).

Section Laws.
  Context {A : Type} (cmp : A -> A -> comparison).
  Definition c_refl (x : A) : Prop := cmp x x = Eq.
  Definition c_sym (x : A) : Prop := forall y, cmp y x = CompOpp (cmp x y).
  Definition c_trans (x : A) : Prop := forall y z, tr3 (cmp x y) (cmp y z) (cmp x z).
  Definition lawful : Prop := (forall x, c_refl x) /\ (forall x, c_sym x) /\ (forall x, c_trans x).
End Laws.

Lemma tr3_lex2 : forall a b c a' b' c',
    tr3 a b c -> (a = Eq -> b = Eq -> tr3 a' b' c') -> tr3 (lex2 a a') (lex2 b b') (lex2 c c').
Proof.
  unfold tr3. intros a b c a' b' c' [H1 [H2 [H3 H4]]] K.
  destruct a, b;
    try (specialize (H1 eq_refl)); try (specialize (H2 eq_refl));
    try (specialize (H3 eq_refl eq_refl)); try (specialize (H4 eq_refl eq_refl));
    subst; simpl; try (specialize (K eq_refl eq_refl)); try tauto;
      try (repeat split; intros; try discriminate; try reflexivity; congruence).
Qed.

Lemma tr3_const : forall c, tr3 c c c.
Proof. unfold tr3; destruct c; repeat split; intros; congruence. Qed.

Lemma CompOpp_lex2 : forall a b, CompOpp (lex2 a b) = lex2 (CompOpp a) (CompOpp b).
Proof. destruct a; reflexivity. Qed.

Lemma lex2_eq : forall a b, lex2 a b = Eq -> a = Eq /\ b = Eq.
Proof. destruct a; simpl; intros; try discriminate; auto. Qed.

(* a comparator read through a function *)
Lemma pull_refl : forall {A B} (f : A -> B) cmp x, c_refl cmp (f x) -> c_refl (fun a b => cmp (f a) (f b)) x.
Proof. unfold c_refl; auto. Qed.
Lemma pull_sym : forall {A B} (f : A -> B) cmp x, c_sym cmp (f x) -> c_sym (fun a b => cmp (f a) (f b)) x.
Proof. unfold c_sym; auto. Qed.
Lemma pull_trans : forall {A B} (f : A -> B) cmp x, c_trans cmp (f x) -> c_trans (fun a b => cmp (f a) (f b)) x.
Proof. unfold c_trans; auto. Qed.

(* ------------------------------------------------------------------ *)
(* iter_lex_cmp                                                        *)

Lemma cmp_lex_cons : forall {A} (cmp : A -> A -> comparison) x r1 y r2,
    cmp_lex cmp (x :: r1) (y :: r2) = lex2 (cmp x y) (cmp_lex cmp r1 r2).
Proof. intros. simpl. destruct (cmp x y); reflexivity. Qed.

Lemma lex_refl : forall {A} (cmp : A -> A -> comparison) l, Forall (c_refl cmp) l -> cmp_lex cmp l l = Eq.
Proof.
  induction 1 as [|x l Hx _ IH]; [reflexivity|].
  rewrite cmp_lex_cons, Hx. exact IH.
Qed.

Lemma lex_sym : forall {A} (cmp : A -> A -> comparison) l1,
    Forall (c_sym cmp) l1 -> forall l2, cmp_lex cmp l2 l1 = CompOpp (cmp_lex cmp l1 l2).
Proof.
  induction 1 as [|x l Hx _ IH]; intros [|y l2]; try reflexivity.
  rewrite !cmp_lex_cons, CompOpp_lex2, <- IH, <- Hx. reflexivity.
Qed.

Lemma lex_trans : forall {A} (cmp : A -> A -> comparison) l1,
    Forall (c_trans cmp) l1 -> forall l2 l3, tr3 (cmp_lex cmp l1 l2) (cmp_lex cmp l2 l3) (cmp_lex cmp l1 l3).
Proof.
  induction 1 as [|x l Hx _ IH]; intros [|y l2] [|z l3];
    try (unfold tr3; simpl; repeat split; intros; try discriminate; reflexivity).
  rewrite !cmp_lex_cons. apply tr3_lex2; [apply Hx | intros; apply IH].
Qed.

Lemma lex_lawful : forall {A} (cmp : A -> A -> comparison), lawful cmp -> lawful (cmp_lex cmp).
Proof.
  intros A cmp [R [S T]]. split; [|split]; intro l.
  - apply lex_refl, Forall_forall; auto.
  - intro l2. apply lex_sym, Forall_forall; auto.
  - intros l2 l3. apply lex_trans, Forall_forall; auto.
Qed.

Lemma lex_eq_Forall2 : forall {A} (cmp : A -> A -> comparison) l1 l2,
    cmp_lex cmp l1 l2 = Eq -> Forall2 (fun x y => cmp x y = Eq) l1 l2.
Proof.
  induction l1 as [|x l1 IH]; intros [|y l2] E; try discriminate; [constructor|].
  rewrite cmp_lex_cons in E. apply lex2_eq in E. destruct E. constructor; auto.
Qed.

Lemma Forall2_lex_eq : forall {A} (cmp : A -> A -> comparison) l1 l2,
    Forall2 (fun x y => cmp x y = Eq) l1 l2 -> cmp_lex cmp l1 l2 = Eq.
Proof. induction 1; [reflexivity|]. rewrite cmp_lex_cons, H. exact IHForall2. Qed.

Lemma lex_eq_eq : forall {A} (cmp : A -> A -> comparison),
    (forall x y, cmp x y = Eq -> x = y) -> forall l1 l2, cmp_lex cmp l1 l2 = Eq -> l1 = l2.
Proof.
  intros A cmp Hc l1 l2 E. apply lex_eq_Forall2 in E. induction E; [reflexivity|].
  f_equal; auto.
Qed.

(* ------------------------------------------------------------------ *)
(* base comparators                                                    *)

Lemma Zcmp_tr3 : forall x y z : Z, tr3 (x ?= y)%Z (y ?= z)%Z (x ?= z)%Z.
Proof.
  intros. unfold tr3.
  destruct (Z.compare_spec x y), (Z.compare_spec y z), (Z.compare_spec x z);
    repeat split; intros; try discriminate; try reflexivity; exfalso; lia.
Qed.

Lemma Zcmp_lawful : lawful Z.compare.
Proof.
  split; [|split]; intro x.
  - apply Z.compare_refl.
  - intro y. apply Z.compare_antisym.
  - intros y z. apply Zcmp_tr3.
Qed.

Lemma Ncmp_tr3 : forall x y z : N, tr3 (x ?= y)%N (y ?= z)%N (x ?= z)%N.
Proof.
  intros. unfold tr3.
  destruct (N.compare_spec x y), (N.compare_spec y z), (N.compare_spec x z);
    repeat split; intros; try discriminate; try reflexivity; exfalso; lia.
Qed.

Lemma Ncmp_lawful : lawful N.compare.
Proof.
  split; [|split]; intro x.
  - apply N.compare_refl.
  - intro y. apply N.compare_antisym.
  - intros y z. apply Ncmp_tr3.
Qed.

Lemma ustr_compare_lex : forall a b, ustr_compare a b = cmp_lex N.compare a b.
Proof.
  induction a as [|x a IH]; intros [|y b]; try reflexivity.
Qed.

Lemma ustr_lawful : lawful ustr_compare.
Proof.
  destruct (lex_lawful N.compare Ncmp_lawful) as [R [S T]].
  split; [|split]; intro x; unfold c_refl, c_sym, c_trans; intros; rewrite ?ustr_compare_lex; [apply R | apply S | apply T].
Qed.

Lemma ustr_compare_eq : forall a b, ustr_compare a b = Eq -> a = b.
Proof.
  intros a b. rewrite ustr_compare_lex. apply lex_eq_eq. intros x y. apply N.compare_eq.
Qed.

Lemma bool_cmp_lawful : lawful bool_cmp.
Proof.
  split; [|split]; intro x.
  - destruct x; reflexivity.
  - intro y; destruct x, y; reflexivity.
  - intros y z; destruct x, y, z; unfold tr3; simpl; repeat split; intros; try discriminate; reflexivity.
Qed.

Lemma neg_cmp_lawful : lawful neg_cmp.
Proof.
  split; [|split]; intro x.
  - destruct x; reflexivity.
  - intro y; destruct x, y; reflexivity.
  - intros y z; destruct x, y, z; unfold tr3; simpl; repeat split; intros; try discriminate; reflexivity.
Qed.

(* ------------------------------------------------------------------ *)
(* numbers: generic_cmp on an int/float pair is the order of the rationals *)

Lemma pow10_spec : forall e, Zpos (pow10 e) = (10 ^ Z.of_N e)%Z.
Proof. destruct e; simpl; [reflexivity|]. apply Pos2Z.inj_pow. Qed.

Lemma num_cmp_Q : forall m1 e1 m2 e2, num_cmp m1 e1 m2 e2 = Qcompare (m1 # pow10 e1) (m2 # pow10 e2).
Proof. intros. unfold num_cmp, Qcompare. simpl. rewrite !pow10_spec. reflexivity. Qed.

Lemma Qcmp_tr3 : forall x y z : Q, tr3 (x ?= y)%Q (y ?= z)%Q (x ?= z)%Q.
Proof.
  intros. unfold tr3.
  destruct (Qcompare_spec x y), (Qcompare_spec y z), (Qcompare_spec x z);
    repeat split; intros; try discriminate; try reflexivity; exfalso; lra.
Qed.

Lemma Qcmp_refl : forall x : Q, (x ?= x)%Q = Eq.
Proof. intro x. apply Qeq_alt. reflexivity. Qed.

Lemma Qcmp_sym : forall x y : Q, (y ?= x)%Q = CompOpp (x ?= y)%Q.
Proof. intros. symmetry. apply Qcompare_antisym. Qed.

Local Opaque num_cmp.

Lemma prim_cmp_lawful : lawful prim_cmp.
Proof.
  destruct ustr_lawful as [UR [US UT]]. destruct Zcmp_lawful as [ZR [ZS ZT]]. destruct bool_cmp_lawful as [BR [BS BT]].
  split; [|split]; intro x.
  - destruct x; unfold c_refl; simpl; rewrite ?num_cmp_Q; first [apply Qcmp_refl | apply UR | apply ZR | apply BR].
  - intro y. destruct x, y; simpl; rewrite ?num_cmp_Q; first [reflexivity | apply Qcmp_sym | apply US | apply ZS | apply BS].
  - intros y z. destruct x, y, z; simpl; rewrite ?num_cmp_Q;
      first [apply Qcmp_tr3 | apply UT | apply ZT | apply BT
            | (unfold tr3; repeat split; intros; try discriminate; reflexivity)].
Qed.

Lemma isort_pull_lawful : forall {A} (cmp : list A -> list A -> comparison) (f : list A -> list A),
    lawful cmp -> lawful (fun a b => cmp (f a) (f b)).
Proof.
  intros A cmp f [R [S T]]. split; [|split]; intro x.
  - apply (pull_refl f cmp), R.
  - apply (pull_sym f cmp), S.
  - apply (pull_trans f cmp), T.
Qed.

Lemma list_cmp_lawful : lawful list_cmp.
Proof. exact (isort_pull_lawful (cmp_lex prim_cmp) (isort prim_cmp) (lex_lawful prim_cmp prim_cmp_lawful)). Qed.

Lemma const_cmp_lawful : lawful const_cmp.
Proof.
  destruct prim_cmp_lawful as [PR [PS PT]]. destruct list_cmp_lawful as [LR [LS LT]].
  split; [|split]; intro x.
  - destruct x; simpl; [apply PR | apply LR].
  - intro y. destruct x, y; simpl; first [reflexivity | apply PS | apply LS].
  - intros y z. destruct x, y, z; simpl;
      first [apply PT | apply LT | (unfold tr3; repeat split; intros; try discriminate; reflexivity)].
Qed.

(* ------------------------------------------------------------------ *)
(* paths, operators, atoms                                             *)

Lemma step_cmp_lawful : lawful step_cmp.
Proof.
  destruct ustr_lawful as [UR [US UT]]. destruct Zcmp_lawful as [ZR [ZS ZT]].
  split; [|split]; intro x.
  - destruct x; simpl; [apply UR | apply ZR].
  - intro y. destruct x, y; simpl; first [reflexivity | apply US | apply ZS].
  - intros y z. destruct x, y, z; simpl;
      first [apply UT | apply ZT | (unfold tr3; repeat split; intros; try discriminate; reflexivity)].
Qed.

Lemma step_cmp_eq : forall a b, step_cmp a b = Eq -> a = b.
Proof.
  destruct a, b; simpl; intro E; try discriminate.
  - f_equal. apply ustr_compare_eq; assumption.
  - f_equal. apply Z.compare_eq; assumption.
Qed.

Lemma cop_cmp_lawful : lawful cop_cmp.
Proof.
  destruct Ncmp_lawful as [R [S T]]. split; [|split]; intro x; unfold cop_cmp.
  - apply R.
  - intro y. apply S.
  - intros y z. apply T.
Qed.

Lemma cop_cmp_eq : forall a b, cop_cmp a b = Eq -> a = b.
Proof. destruct a, b; simpl; intro E; try discriminate; reflexivity. Qed.

Lemma neg_cmp_eq : forall a b, neg_cmp a b = Eq -> a = b.
Proof. destruct a, b; simpl; intro E; try discriminate; reflexivity. Qed.

Lemma atom_cmp_form : forall x y,
    atom_cmp x y =
    lex2 (ustr_compare (a_type x) (a_type y))
         (lex2 (cmp_lex step_cmp (a_path x) (a_path y))
               (lex2 (cop_cmp (a_op x) (a_op y))
                     (lex2 (neg_cmp (a_neg x) (a_neg y)) (const_cmp (a_rhs x) (a_rhs y))))).
Proof.
  intros. unfold atom_cmp, path_cmp.
  destruct (ustr_compare (a_type x) (a_type y)); simpl; try reflexivity.
  destruct (cmp_lex step_cmp (a_path x) (a_path y)); simpl; try reflexivity.
  destruct (cop_cmp (a_op x) (a_op y)); simpl; try reflexivity.
  destruct (neg_cmp (a_neg x) (a_neg y)); reflexivity.
Qed.

Lemma atom_cmp_lawful : lawful atom_cmp.
Proof.
  destruct ustr_lawful as [UR [US UT]]. destruct (lex_lawful step_cmp step_cmp_lawful) as [PR [PS PT]].
  destruct cop_cmp_lawful as [OR [OS OT]]. destruct neg_cmp_lawful as [NR [NS NT]].
  destruct const_cmp_lawful as [KR [KS KT]].
  split; [|split]; intro x.
  - unfold c_refl. rewrite atom_cmp_form, UR, PR, OR, NR. apply KR.
  - intro y. rewrite !atom_cmp_form, !CompOpp_lex2, <- US, <- PS, <- OS, <- NS, <- KS. reflexivity.
  - intros y z. rewrite !atom_cmp_form.
    repeat (apply tr3_lex2; [first [apply UT | apply PT | apply OT | apply NT] | intros _ _]). apply KT.
Qed.

(* ------------------------------------------------------------------ *)
(* induction principles for the nested ASTs                            *)

Fixpoint cexpr_ind' (P : cexpr -> Prop)
         (HA : forall a, P (Atom a))
         (HAnd : forall l, Forall P l -> P (CAnd l))
         (HOr : forall l, Forall P l -> P (COr l)) (e : cexpr) {struct e} : P e :=
  let go := fix go (l : list cexpr) : Forall P l :=
              match l with
              | [] => Forall_nil P
              | x :: r => Forall_cons x (cexpr_ind' P HA HAnd HOr x) (go r)
              end in
  match e with
  | Atom a => HA a
  | CAnd l => HAnd l (go l)
  | COr l => HOr l (go l)
  end.

Fixpoint oexpr_ind' (P : oexpr -> Prop)
         (HObs : forall c, P (Obs c))
         (HAnd : forall l, Forall P l -> P (OAnd l))
         (HOr : forall l, Forall P l -> P (OOr l))
         (HFby : forall l, Forall P l -> P (OFby l))
         (HQ : forall e q, P e -> P (OQual e q)) (e : oexpr) {struct e} : P e :=
  let go := fix go (l : list oexpr) : Forall P l :=
              match l with
              | [] => Forall_nil P
              | x :: r => Forall_cons x (oexpr_ind' P HObs HAnd HOr HFby HQ x) (go r)
              end in
  match e with
  | Obs c => HObs c
  | OAnd l => HAnd l (go l)
  | OOr l => HOr l (go l)
  | OFby l => HFby l (go l)
  | OQual e' q => HQ e' q (oexpr_ind' P HObs HAnd HOr HFby HQ e')
  end.

(* ------------------------------------------------------------------ *)
(* comparison_expression_cmp                                           *)

Lemma ccmp_refl : forall e, c_refl ccmp e.
Proof.
  destruct atom_cmp_lawful as [AR _].
  induction e using cexpr_ind'; unfold c_refl; simpl; [apply AR | apply lex_refl; assumption ..].
Qed.

Lemma ccmp_sym : forall e, c_sym ccmp e.
Proof.
  destruct atom_cmp_lawful as [_ [AS _]].
  induction e using cexpr_ind'; intros [b | l2 | l2]; simpl; try reflexivity;
    first [apply AS | apply lex_sym; assumption].
Qed.

Lemma ccmp_trans : forall e, c_trans ccmp e.
Proof.
  destruct atom_cmp_lawful as [_ [_ AT]].
  induction e using cexpr_ind'; intros [b | l2 | l2] [c | l3 | l3]; simpl;
    first [apply AT | apply lex_trans; assumption
          | (unfold tr3; repeat split; intros; try discriminate; reflexivity)].
Qed.

Lemma ccmp_lawful : lawful ccmp.
Proof. split; [exact ccmp_refl | split; [exact ccmp_sym | exact ccmp_trans]]. Qed.

(* ------------------------------------------------------------------ *)
(* qualifiers and observation_expression_cmp                           *)

Lemma qual_cmp_form : forall s1 t1 s2 t2,
    qual_cmp (QStartStop s1 t1) (QStartStop s2 t2) = lex2 (s1 ?= s2)%Z (t1 ?= t2)%Z.
Proof. intros. simpl. destruct (s1 ?= s2)%Z; reflexivity. Qed.

Lemma qual_cmp_lawful : lawful qual_cmp.
Proof.
  destruct Zcmp_lawful as [ZR [ZS ZT]].
  split; [|split]; intro x.
  - destruct x; unfold c_refl; rewrite ?qual_cmp_form; simpl; rewrite ?num_cmp_Q, ?ZR;
      first [apply ZR | apply Qcmp_refl | reflexivity].
  - intro y. destruct x, y; rewrite ?qual_cmp_form, ?CompOpp_lex2; simpl; rewrite ?num_cmp_Q;
      first [reflexivity | apply ZS | apply Qcmp_sym | (rewrite <- !ZS; reflexivity)].
  - intros y z. destruct x, y, z; rewrite ?qual_cmp_form; simpl; rewrite ?num_cmp_Q;
      first [apply ZT | apply Qcmp_tr3
            | (apply tr3_lex2; [apply ZT | intros _ _; apply ZT])
            | (unfold tr3; simpl; repeat split; intros; try discriminate; reflexivity)].
Qed.

(* comparator-equal qualifiers: identical, or WITHIN with the same number of seconds *)
Definition qual_same (a b : qual) : Prop :=
  match a, b with
  | QWithin m1 e1, QWithin m2 e2 => (m1 * 10 ^ Z.of_N e2 = m2 * 10 ^ Z.of_N e1)%Z
  | _, _ => a = b
  end.

Lemma qual_cmp_eq : forall a b, qual_cmp a b = Eq -> qual_same a b.
Proof.
  destruct a, b; intro E; try discriminate.
  - simpl in E. apply Z.compare_eq in E. simpl. congruence.
  - simpl. Local Transparent num_cmp. unfold qual_cmp, num_cmp in E. Local Opaque num_cmp. apply Z.compare_eq in E. exact E.
  - rewrite qual_cmp_form in E. apply lex2_eq in E. destruct E as [E1 E2].
    apply Z.compare_eq in E1. apply Z.compare_eq in E2. simpl. congruence.
Qed.

Lemma ocmp_qual : forall e1 q1 e2 q2, ocmp (OQual e1 q1) (OQual e2 q2) = lex2 (qual_cmp q1 q2) (ocmp e1 e2).
Proof. intros. simpl. destruct (qual_cmp q1 q2); reflexivity. Qed.

Lemma ocmp_refl : forall e, c_refl ocmp e.
Proof.
  destruct qual_cmp_lawful as [QR _].
  induction e using oexpr_ind'; unfold c_refl.
  - simpl. apply ccmp_refl.
  - simpl. apply lex_refl; assumption.
  - simpl. apply lex_refl; assumption.
  - simpl. apply lex_refl; assumption.
  - rewrite ocmp_qual, QR. exact IHe.
Qed.

Lemma ocmp_sym : forall e, c_sym ocmp e.
Proof.
  destruct qual_cmp_lawful as [_ [QS _]].
  induction e using oexpr_ind'; intros [c2 | l2 | l2 | l2 | e2 q2]; try reflexivity.
  - simpl. apply ccmp_sym.
  - simpl. apply lex_sym; assumption.
  - simpl. apply lex_sym; assumption.
  - simpl. apply lex_sym; assumption.
  - rewrite !ocmp_qual, CompOpp_lex2, <- QS, <- IHe. reflexivity.
Qed.

Lemma ocmp_trans : forall e, c_trans ocmp e.
Proof.
  destruct qual_cmp_lawful as [_ [_ QT]].
  induction e using oexpr_ind'; intros [c2 | l2 | l2 | l2 | e2 q2] [c3 | l3 | l3 | l3 | e3 q3];
    try (unfold tr3; simpl; repeat split; intros; try discriminate; reflexivity).
  - simpl. apply ccmp_trans.
  - simpl. apply lex_trans; assumption.
  - simpl. apply lex_trans; assumption.
  - simpl. apply lex_trans; assumption.
  - rewrite !ocmp_qual. apply tr3_lex2; [apply QT | intros _ _; apply IHe].
Qed.

Lemma ocmp_lawful : lawful ocmp.
Proof. split; [exact ocmp_refl | split; [exact ocmp_sym | exact ocmp_trans]]. Qed.

(* consequences used everywhere *)
Lemma lawful_eq_sym : forall {A} (cmp : A -> A -> comparison), lawful cmp -> forall x y, cmp x y = Eq -> cmp y x = Eq.
Proof. intros A cmp [_ [S _]] x y E. rewrite (S x y), E. reflexivity. Qed.

Lemma lawful_eq_trans : forall {A} (cmp : A -> A -> comparison), lawful cmp ->
    forall x y z, cmp x y = Eq -> cmp y z = Eq -> cmp x z = Eq.
Proof. intros A cmp [_ [_ T]] x y z E1 E2. destruct (T x y z) as [H1 _]. rewrite (H1 E1). exact E2. Qed.

Lemma lawful_eq_l : forall {A} (cmp : A -> A -> comparison), lawful cmp ->
    forall x y z, cmp x y = Eq -> cmp x z = cmp y z.
Proof. intros A cmp [_ [_ T]] x y z E. destruct (T x y z) as [H1 _]. exact (H1 E). Qed.

Lemma lawful_eq_r : forall {A} (cmp : A -> A -> comparison), lawful cmp ->
    forall x y z, cmp y z = Eq -> cmp x z = cmp x y.
Proof. intros A cmp [_ [_ T]] x y z E. destruct (T x y z) as [_ [H2 _]]. exact (H2 E). Qed.

(* Proofs/FiltersFs.v -- the optimised filesystem query against the scan:
   _get_matching_dir_entries (white list = lookups by name, black list = a
   filter of the listing), _search_unversioned, _search_versioned, the loop
   over type directories, and the theorem of DESIGN Appendix A.2.          *)
From Coq Require Import NArith ZArith List Bool Permutation Lia.
From V Require Import Base.UString Model.Filters Spec.FilterSpec Proofs.FiltersBasics Proofs.FiltersOpt.
Import ListNotations.

(* ---- list helpers ---- *)

Lemma NoDup_app_intro : forall {A} (a b : list A),
  NoDup a -> NoDup b -> (forall x, In x a -> ~ In x b) -> NoDup (a ++ b).
Proof.
  induction a as [|x a IH]; simpl; intros b Ha Hb H; auto.
  inversion Ha; subst. constructor.
  - intro Hin. apply in_app_or in Hin. destruct Hin as [Hin | Hin]; auto. apply (H x); auto.
  - apply IH; auto.
Qed.

Lemma NoDup_map_inj : forall {A B} (f : A -> B) (l : list A) x y,
  NoDup (map f l) -> In x l -> In y l -> f x = f y -> x = y.
Proof.
  induction l as [|a l IH]; simpl; intros x y Hn Hx Hy E; [contradiction|].
  inversion Hn as [|b l' Hnot Hn']; subst.
  destruct Hx as [Hx | Hx]; destruct Hy as [Hy | Hy]; subst; auto.
  - exfalso. apply Hnot. rewrite E. apply in_map. auto.
  - exfalso. apply Hnot. rewrite <- E. apply in_map. auto.
Qed.

Lemma flat_map_filter : forall {A B} (f : A -> list B) (P : A -> bool) (l : list A),
  flat_map f (filter P l) = flat_map (fun x => if P x then f x else []) l.
Proof.
  induction l as [|x l IH]; simpl; auto. destruct (P x); simpl; rewrite IH; auto.
Qed.

Lemma flat_map_ext_in : forall {A B} (f g : A -> list B) (l : list A),
  (forall x, In x l -> f x = g x) -> flat_map f l = flat_map g l.
Proof.
  induction l as [|x l IH]; simpl; intro H; auto. rewrite (H x (or_introl eq_refl)). rewrite IH; auto.
Qed.

Lemma Permutation_flat_map_l : forall {A B} (f : A -> list B) (l l' : list A),
  Permutation l l' -> Permutation (flat_map f l) (flat_map f l').
Proof.
  intros A B f l l' H. induction H; simpl; auto.
  - apply Permutation_app_head. auto.
  - rewrite !app_assoc. apply Permutation_app_tail. apply Permutation_app_comm.
  - eapply Permutation_trans; eauto.
Qed.

Lemma map_res_ok_map : forall {A B} (g : A -> res B) (h : A -> B) (l : list A),
  (forall x, In x l -> g x = Ok (h x)) -> map_res g l = Ok (map h l).
Proof.
  induction l as [|x l IH]; simpl; intro H; auto.
  rewrite (H x (or_introl eq_refl)). simpl. rewrite IH; auto.
Qed.

Lemma strs_map : forall s, strs s -> exists ss, s = map VStr ss.
Proof.
  induction s as [|x s IH]; intro H.
  - exists []. reflexivity.
  - inversion H as [|y l Hx Hs]; subst. apply is_vstr_inv in Hx. destruct Hx as [a ->].
    destruct (IH Hs) as [ss ->]. exists (a :: ss). reflexivity.
Qed.

Lemma NoDup_map_VStr : forall ss, NoDup (map VStr ss) -> NoDup ss.
Proof. intros ss H. eapply NoDup_map_inv; eauto. Qed.

Lemma in_map_VStr : forall a ss, In (VStr a) (map VStr ss) <-> In a ss.
Proof.
  intros a ss. split; intro H.
  - apply in_map_iff in H. destruct H as [b [E Hb]]. inversion E; subst. auto.
  - apply in_map. auto.
Qed.

(* ---- os.path.splitext ---- *)

Lemma split_last_dot_app : forall s a b, split_last_dot s = Some (a, b) -> s = (a ++ b)%list.
Proof.
  induction s as [|c s IH]; simpl; intros a b H; try discriminate.
  destruct (split_last_dot s) as [[stem ext]|] eqn:E.
  - inversion H; subst. simpl. f_equal. apply IH. auto.
  - destruct (N.eqb c 46); inversion H; subst. reflexivity.
Qed.

Lemma splitext_app : forall n a b, splitext n = (a, b) -> n = (a ++ b)%list.
Proof.
  intros n a b H. unfold splitext in H. destruct (split_last_dot n) as [[stem ext]|] eqn:E.
  - destruct (has_nondot stem).
    + inversion H; subst. apply split_last_dot_app. auto.
    + inversion H; subst. rewrite app_nil_r. auto.
  - inversion H; subst. rewrite app_nil_r. auto.
Qed.

Lemma split_last_dot_json : forall stem, split_last_dot (stem ++ dot_json) = Some (stem, dot_json).
Proof.
  induction stem as [|c stem IH]; simpl.
  - reflexivity.
  - rewrite IH. reflexivity.
Qed.

Lemma splitext_json : forall stem, has_nondot stem = true -> splitext (stem ++ dot_json) = (stem, dot_json).
Proof. intros stem H. unfold splitext. rewrite split_last_dot_json. rewrite H. reflexivity. Qed.

Lemma visible_name : forall n, file_visible n = true -> n = (fst (splitext n) ++ dot_json)%list.
Proof.
  intros n H. unfold file_visible in H. destruct (splitext n) as [a b] eqn:E. simpl in *.
  apply ustr_eqb_eq in H. subst b. apply splitext_app. auto.
Qed.

(* ---- the white-list branch of _get_matching_dir_entries ---- *)

Section Lookup.
  Context {E : Type}.
  Variable key : E -> ustring.
  Variable pass : E -> bool.
  Variable ext : ustring.
  Variable es : list E.

  Definition pick (s : ustring) : list E :=
    match find (fun e => ustr_eqb (key e) (s ++ ext)) es with
    | Some e => if pass e then [e] else []
    | None => []
    end.

  Definition named_in (ss : list ustring) (e : E) : bool :=
    existsb (fun s => ustr_eqb (key e) (s ++ ext)) ss.

  Lemma white_lookup_strs : forall ss,
    white_lookup key pass ext es (map VStr ss) = Ok (flat_map pick ss).
  Proof.
    intro ss. unfold white_lookup.
    rewrite (map_res_ok_map _ (fun v => match v with VStr s => pick s | _ => [] end)).
    - simpl. rewrite map_map. rewrite flat_map_concat_map. reflexivity.
    - intros x Hx. apply in_map_iff in Hx. destruct Hx as [s [<- _]]. reflexivity.
  Qed.

  Lemma in_pick : forall s e, In e (pick s) -> In e es /\ pass e = true /\ key e = (s ++ ext)%list.
  Proof.
    intros s e H. unfold pick in H.
    destruct (find (fun e0 => ustr_eqb (key e0) (s ++ ext)) es) as [e'|] eqn:F; [|contradiction].
    destruct (pass e') eqn:P; [|contradiction]. destruct H as [H | []]. subst e'.
    apply find_some in F. destruct F as [F1 F2]. apply ustr_eqb_eq in F2. auto.
  Qed.

  Lemma pick_in : forall s e, NoDup (map key es) -> In e es -> pass e = true -> key e = (s ++ ext)%list -> In e (pick s).
  Proof.
    intros s e Hn He Hp Hk. unfold pick.
    destruct (find (fun e0 => ustr_eqb (key e0) (s ++ ext)) es) as [e'|] eqn:F.
    - apply find_some in F. destruct F as [F1 F2]. apply ustr_eqb_eq in F2.
      assert (e' = e) by (eapply NoDup_map_inj; eauto; congruence). subst e'. rewrite Hp. left; auto.
    - exfalso. apply (find_none _ _ F) in He. rewrite Hk in He. rewrite ustr_eqb_refl in He. discriminate.
  Qed.

  Lemma pick_perm : forall ss, NoDup (map key es) -> NoDup ss ->
    Permutation (flat_map pick ss) (filter (fun e => pass e && named_in ss e) es).
  Proof.
    intros ss Hk Hs. apply NoDup_Permutation.
    - induction ss as [|s ss IH]; simpl; [constructor|].
      inversion Hs as [|s' ss' Hnot Hs']; subst. apply NoDup_app_intro; auto.
      + unfold pick. destruct (find _ es) as [e'|]; [destruct (pass e')|]; repeat constructor; auto.
      + intros x Hx Hx'. apply in_pick in Hx. destruct Hx as [_ [_ Hkx]].
        apply in_flat_map in Hx'. destruct Hx' as [s2 [Hs2 Hx2]]. apply in_pick in Hx2. destruct Hx2 as [_ [_ Hkx2]].
        rewrite Hkx in Hkx2. apply app_inv_tail in Hkx2. subst s2. contradiction.
    - apply NoDup_filter. eapply NoDup_map_inv; eauto.
    - intro e. split; intro H.
      + apply in_flat_map in H. destruct H as [s [Hs1 He]]. apply in_pick in He. destruct He as [He [Hp Hke]].
        apply filter_In. split; auto. rewrite Hp. simpl. unfold named_in. apply existsb_exists.
        exists s. split; auto. rewrite Hke. apply ustr_eqb_refl.
      + apply filter_In in H. destruct H as [He H]. apply andb_true_iff in H. destruct H as [Hp Hn].
        unfold named_in in Hn. apply existsb_exists in Hn. destruct Hn as [s [Hs1 Hke]]. apply ustr_eqb_eq in Hke.
        apply in_flat_map. exists s. split; auto. apply pick_in; auto.
  Qed.

  Lemma named_in_true : forall ss e s, In s ss -> key e = (s ++ ext)%list -> named_in ss e = true.
  Proof.
    intros ss e s Hs Hk. unfold named_in. apply existsb_exists. exists s. split; auto. rewrite Hk. apply ustr_eqb_refl.
  Qed.

  Lemma named_in_inv : forall ss e, named_in ss e = true -> exists s, In s ss /\ key e = (s ++ ext)%list.
  Proof.
    intros ss e H. unfold named_in in H. apply existsb_exists in H. destruct H as [s [Hs Hk]].
    apply ustr_eqb_eq in Hk. eauto.
  Qed.
End Lookup.

(* what an AuthSet selects, as one predicate on the listing *)
Definition sel_pred {E} (key : E -> ustring) (pass : E -> bool) (ext : ustring) (ss : list ustring) : E -> bool :=
  fun e => pass e && named_in key ext ss e.

(* ---- selected entries against visible objects ---- *)

Section Keep.
  Variable mode : ts_mode.
  Variable fl : list flt.
  Let keep := holds_b mode fl.
  Let defd := defined_on mode fl.

  Lemma sel_objs_general : forall {E} (es sel : list E) (P : E -> bool) (objf vis : E -> list pv),
    Permutation sel (filter P es) ->
    (forall e, In e es -> (P e = true -> objf e = vis e) /\ (P e = false -> filter keep (vis e) = [])) ->
    Forall defd (flat_map vis es) ->
    exists r, apply_filters mode fl (flat_map objf sel) = Ok r /\ Permutation r (filter keep (flat_map vis es)).
  Proof.
    intros E es sel P objf vis Hperm Hpt Hdef.
    assert (Hsel : forall e, In e sel -> In e es /\ P e = true).
    { intros e He. apply (Permutation_in _ Hperm) in He. apply filter_In in He. auto. }
    assert (Hd : Forall defd (flat_map objf sel)).
    { apply Forall_flat_map. rewrite Forall_forall. intros e He. destruct (Hsel e He) as [He1 He2].
      destruct (Hpt e He1) as [Ht _]. rewrite (Ht He2).
      apply Forall_flat_map in Hdef. rewrite Forall_forall in Hdef. auto. }
    exists (filter keep (flat_map objf sel)). split; [apply apply_filters_total; auto|].
    eapply Permutation_trans.
    { apply Permutation_filter. apply Permutation_flat_map_l. exact Hperm. }
    rewrite flat_map_filter. rewrite !filter_flat_map.
    rewrite (flat_map_ext_in _ (fun e => filter keep (vis e))); auto.
    intros e He. destruct (Hpt e He) as [Ht Hf]. destruct (P e) eqn:EP.
    - rewrite Ht; auto.
    - rewrite Hf; auto.
  Qed.

  (* ---- inside one type directory ---- *)

  Variable d : ustring.
  Variable es : list tentry.
  Variable ai : auth.
  Hypothesis Hdir : dir_ok mode (d, es).
  Hypothesis Hai : auth_strs ai.
  Hypothesis Hprune : forall n o, placed mode d n o -> keep o = true -> auth_pass ai n.

  Let objfile (e : tentry) : list pv := match e with TFile _ o => [o] | TDir _ _ => [] end.

  Lemma keep_false_of : forall n o, placed mode d n o -> ~ auth_pass ai n -> keep o = false.
  Proof.
    intros n o Hpl Hn. destruct (keep o) eqn:K; auto. exfalso. apply Hn. eapply Hprune; eauto.
  Qed.

  Lemma versions_placed : forall n files o,
    In (TDir n files) es -> In o (entry_versions (TDir n files)) -> placed mode d n o.
  Proof.
    intros n files o He Ho. destruct Hdir as [_ Hok]. specialize (Hok _ He). simpl in Hok.
    simpl in Ho. apply in_map_iff in Ho. destruct Ho as [[fn o'] [E Hin]]. simpl in E. subst o'.
    unfold version_files in Hin. apply filter_In in Hin. destruct Hin as [Hin Hv]. simpl in Hv.
    eapply Hok; eauto.
  Qed.

  Lemma file_placed : forall n o,
    In (TFile n o) es -> file_visible n = true ->
    has_nondot (fst (splitext n)) = true /\ placed mode d (fst (splitext n)) o.
  Proof.
    intros n o He Hv. destruct Hdir as [_ Hok]. specialize (Hok _ He). simpl in Hok.
    apply Hok. apply visible_name. auto.
  Qed.

  Lemma matching_id_files_spec :
    exists sel P, matching_id_files es ai = Ok sel /\ Permutation sel (filter P es) /\
      forall e, In e es -> (P e = true -> objfile e = entry_files e) /\ (P e = false -> filter keep (entry_files e) = []).
  Proof.
    pose proof keep_false_of as Hkf. pose proof Hai as Hai'. pose proof Hdir as [Hnd Hok]. simpl in Hnd, Hok.
    destruct ai as [[|] vals]; simpl in Hai'.
    - (* white *)
      destruct Hai' as [Hs Hn]. destruct (strs_map _ Hs) as [ss ->]. apply NoDup_map_VStr in Hn.
      exists (flat_map (pick tname (fun e => negb (is_tdir e)) dot_json es) ss),
             (sel_pred tname (fun e => negb (is_tdir e)) dot_json ss).
      split; [apply white_lookup_strs|]. split; [apply pick_perm; auto|].
      intros e He. unfold sel_pred. destruct e as [n files | n o]; simpl.
      + split; intro; auto; discriminate.
      + split; intro H.
        * apply named_in_inv in H. destruct H as [s [Hs1 Hk]]. simpl in Hk.
          destruct (Hok _ He s Hk) as [Hnd1 _]. unfold file_visible. rewrite Hk. rewrite splitext_json by auto.
          cbn [snd]. rewrite ustr_eqb_refl. reflexivity.
        * destruct (file_visible n) eqn:V; auto.
          destruct (file_placed n o He V) as [_ Hpl]. simpl.
          rewrite (Hkf _ _ Hpl); auto.
          simpl. intro Hin. apply in_map_VStr in Hin.
          rewrite (named_in_true tname dot_json ss (TFile n o) _ Hin) in H; [discriminate|].
          simpl. apply visible_name. auto.
    - (* black *)
      eexists. eexists. split; [reflexivity|]. split; [apply Permutation_refl|].
      intros e He. destruct e as [n files | n o]; simpl.
      + split; intro; auto; discriminate.
      + unfold file_visible. destruct (splitext n) as [stem ext] eqn:Es. simpl.
        destruct (ustr_eqb ext dot_json) eqn:V; simpl.
        * assert (Hv : file_visible n = true) by (unfold file_visible; rewrite Es; auto).
          destruct (file_placed n o He Hv) as [_ Hpl]. rewrite Es in Hpl. simpl in Hpl.
          split; intro H; auto.
          apply negb_false_iff in H. apply pset_mem_str in H. simpl.
          rewrite (Hkf _ _ Hpl); auto.
        * split; intro; auto; discriminate.
  Qed.

  Lemma matching_id_dirs_spec :
    exists sel P, matching_id_dirs es ai = Ok sel /\ Permutation sel (filter P es) /\
      forall e, In e es -> (P e = false -> filter keep (entry_versions e) = []).
  Proof.
    pose proof keep_false_of as Hkf. pose proof Hai as Hai'. pose proof Hdir as [Hnd Hok]. simpl in Hnd, Hok.
    destruct ai as [[|] vals]; simpl in Hai'.
    - destruct Hai' as [Hs Hn]. destruct (strs_map _ Hs) as [ss ->]. apply NoDup_map_VStr in Hn.
      exists (flat_map (pick tname is_tdir [] es) ss), (sel_pred tname is_tdir [] ss).
      split; [apply white_lookup_strs|]. split; [apply pick_perm; auto|].
      intros e He H. unfold sel_pred in H. destruct e as [n files | n o]; auto.
      simpl in H. apply filter_none. intros o Ho.
      apply (Hkf n); [eapply versions_placed; eauto|].
      simpl. intro Hin. apply in_map_VStr in Hin.
      rewrite (named_in_true tname [] ss (TDir n files) _ Hin) in H; [discriminate|].
      simpl. rewrite app_nil_r. reflexivity.
    - eexists. eexists. split; [reflexivity|]. split; [apply Permutation_refl|].
      intros e He H. destruct e as [n files | n o]; auto.
      simpl in H. apply negb_false_iff in H. apply pset_mem_str in H.
      apply filter_none. intros o Ho. apply (Hkf n); [eapply versions_placed; eauto|].
      simpl. auto.
  Qed.

  Lemma search_unversioned_spec :
    Forall defd (flat_map entry_files es) ->
    exists r, search_unversioned mode fl es ai = Ok r /\ Permutation r (filter keep (flat_map entry_files es)).
  Proof.
    intro Hdef. destruct matching_id_files_spec as [sel [P [Hsel [Hperm Hpt]]]].
    unfold search_unversioned. rewrite Hsel. cbn [bind]. unfold check_files.
    apply (sel_objs_general es sel P objfile entry_files); auto.
  Qed.

  Lemma search_versioned_spec :
    Forall defd (flat_map entry_versions es ++ flat_map entry_files es) ->
    exists r, search_versioned mode fl es ai = Ok r /\
              Permutation r (filter keep (flat_map entry_versions es ++ flat_map entry_files es)).
  Proof.
    intro Hdef. apply Forall_app in Hdef. destruct Hdef as [Hd1 Hd2].
    destruct matching_id_dirs_spec as [sel [P [Hsel [Hperm Hpt]]]].
    unfold search_versioned. rewrite Hsel. cbn [bind]. unfold check_files.
    destruct (sel_objs_general es sel P entry_versions entry_versions Hperm) as [r1 [Hr1 Hp1]]; auto.
    change (fun e : tentry => match e with
                              | TDir _ files => map snd (version_files files)
                              | TFile _ _ => []
                              end) with entry_versions.
    rewrite Hr1. cbn [bind].
    destruct (search_unversioned_spec Hd2) as [r2 [Hr2 Hp2]]. rewrite Hr2. cbn [bind].
    eexists. split; [reflexivity|]. rewrite filter_app. apply Permutation_app; auto.
  Qed.

  Lemma search_one_spec :
    Forall defd (scan_dir (d, es)) ->
    exists r, (if is_versioned_type_dir d es then search_versioned mode fl es ai
               else search_unversioned mode fl es ai) = Ok r /\
              Permutation r (filter keep (scan_dir (d, es))).
  Proof.
    unfold scan_dir. simpl. intro Hdef. destruct (is_versioned_type_dir d es).
    - apply search_versioned_spec. auto.
    - simpl in *. apply search_unversioned_spec. auto.
  Qed.
End Keep.

(* every visible object of a type directory is in its place *)
Lemma scan_dir_placed : forall mode d es o,
  dir_ok mode (d, es) -> In o (scan_dir (d, es)) -> exists n, placed mode d n o.
Proof.
  intros mode d es o Hdir Ho. unfold scan_dir in Ho. simpl in Ho. apply in_app_or in Ho. destruct Ho as [Ho | Ho].
  - destruct (is_versioned_type_dir d es); [|contradiction].
    apply in_flat_map in Ho. destruct Ho as [e [He Ho]]. destruct e as [n files | n o']; [|contradiction].
    exists n. destruct Hdir as [_ Hok]. specialize (Hok _ He). simpl in Hok.
    simpl in Ho. apply in_map_iff in Ho. destruct Ho as [[fn o2] [E Hin]]. simpl in E. subst o2.
    unfold version_files in Hin. apply filter_In in Hin. destruct Hin as [Hin Hv]. eapply Hok; eauto.
  - apply in_flat_map in Ho. destruct Ho as [e [He Ho]]. destruct e as [n files | n o']; [contradiction|].
    simpl in Ho. destruct (file_visible n) eqn:V; [|contradiction]. destruct Ho as [-> | []].
    destruct Hdir as [_ Hok]. specialize (Hok _ He). simpl in Hok.
    exists (fst (splitext n)). apply Hok. apply visible_name. auto.
Qed.

(* ---- the loop over type directories ---- *)

Lemma search_dirs_spec : forall mode fl ai dirs,
  (forall d, In d dirs ->
     exists r, (if is_versioned_type_dir (fst d) (snd d) then search_versioned mode fl (snd d) ai
                else search_unversioned mode fl (snd d) ai) = Ok r /\
               Permutation r (filter (holds_b mode fl) (scan_dir d))) ->
  exists r, search_dirs mode fl dirs ai = Ok r /\
            Permutation r (filter (holds_b mode fl) (flat_map scan_dir dirs)).
Proof.
  induction dirs as [|[d es] dirs IH]; intro H; simpl.
  - exists []. split; auto.
  - destruct (H (d, es) (or_introl eq_refl)) as [r1 [Hr1 Hp1]]. simpl in Hr1. rewrite Hr1. cbn [bind].
    destruct IH as [r2 [Hr2 Hp2]]. { intros d0 Hd0. apply H. right; auto. }
    rewrite Hr2. cbn [bind]. eexists. split; [reflexivity|]. rewrite filter_app. apply Permutation_app; auto.
Qed.

Lemma matching_type_dirs_spec : forall mode fl (t : fs) at_,
  Inv mode t -> auth_strs at_ ->
  (forall d n o, placed mode d n o -> holds_b mode fl o = true -> auth_pass at_ d) ->
  exists sel P, matching_type_dirs t at_ = Ok sel /\ Permutation sel (filter P t) /\
    forall dd, In dd t -> P dd = false -> filter (holds_b mode fl) (scan_dir dd) = [].
Proof.
  intros mode fl t at_ [Hnd Hdirs] Hat Hprune. rewrite Forall_forall in Hdirs.
  assert (Hkf : forall d es, In (d, es) t -> ~ auth_pass at_ d -> filter (holds_b mode fl) (scan_dir (d, es)) = []).
  { intros d es Hin Hn. apply filter_none. intros o Ho.
    destruct (scan_dir_placed mode d es o (Hdirs _ Hin) Ho) as [n Hpl].
    destruct (holds_b mode fl o) eqn:K; auto. exfalso. apply Hn. eapply Hprune; eauto. }
  destruct at_ as [[|] vals]; simpl in Hat.
  - destruct Hat as [Hs Hn]. destruct (strs_map _ Hs) as [ss ->]. apply NoDup_map_VStr in Hn.
    exists (flat_map (pick fst (fun _ => true) [] t) ss), (sel_pred fst (fun _ => true) [] ss).
    split; [apply white_lookup_strs|]. split; [apply pick_perm; auto|].
    intros [d es] Hin H. unfold sel_pred in H. simpl in H. apply Hkf; auto.
    simpl. intro Hi. apply in_map_VStr in Hi.
    rewrite (named_in_true fst [] ss (d, es) _ Hi) in H; [discriminate|]. simpl. rewrite app_nil_r. reflexivity.
  - eexists. eexists. split; [reflexivity|]. split; [apply Permutation_refl|].
    intros [d es] Hin H. simpl in H. apply negb_false_iff in H. apply pset_mem_str in H. apply Hkf; auto.
Qed.

(* ---- Appendix A.2 ---- *)

Theorem opt_sound_complete_lemma : forall mode om t fl r,
  Inv mode t -> tyid_wf om fl ->
  naive mode fl t = Ok r ->
  exists r', fs_search mode om t fl = Ok r' /\ Permutation r r'.
Proof.
  intros mode om t fl r HInv Hwf Hnaive. unfold naive in Hnaive.
  apply apply_filters_ok in Hnaive. destruct Hnaive as [Hdef ->].
  destruct (find_opts_spec om fl Hwf) as [at_ [ai [Hopts [Hat [Hai Hprune]]]]].
  unfold fs_search. rewrite Hopts. cbn [bind].
  destruct (matching_type_dirs_spec mode fl t at_ HInv Hat) as [sel [P [Hsel [Hperm Hpt]]]].
  { intros d n o Hpl Hk. apply (Hprune mode d n o Hpl Hk). }
  rewrite Hsel. cbn [bind].
  assert (Hselin : forall dd, In dd sel -> In dd t).
  { intros dd Hdd. apply (Permutation_in _ Hperm) in Hdd. apply filter_In in Hdd. tauto. }
  destruct (search_dirs_spec mode fl ai sel) as [r' [Hr' Hp']].
  { intros [d es] Hin. simpl. apply search_one_spec.
    - destruct HInv as [_ Hdirs]. rewrite Forall_forall in Hdirs. apply Hdirs. apply Hselin. auto.
    - auto.
    - intros n o Hpl Hk. apply (Hprune mode d n o Hpl Hk).
    - unfold scan in Hdef. apply Forall_flat_map in Hdef. rewrite Forall_forall in Hdef. apply Hdef. apply Hselin. auto. }
  exists r'. split; auto. apply Permutation_sym. eapply Permutation_trans; [exact Hp'|].
  eapply Permutation_trans.
  { apply Permutation_filter. apply Permutation_flat_map_l. exact Hperm. }
  rewrite flat_map_filter. unfold scan. rewrite !filter_flat_map.
  rewrite (flat_map_ext_in _ (fun dd => filter (holds_b mode fl) (scan_dir dd))); auto.
  intros dd Hdd. destruct (P dd) eqn:EP; auto. rewrite (Hpt dd Hdd EP). reflexivity.
Qed.

Theorem opt_raise_lemma : forall mode om t fl e,
  Inv mode t -> tyid_wf om fl ->
  fs_search mode om t fl = Raise e -> exists e', naive mode fl t = Raise e'.
Proof.
  intros mode om t fl e HInv Hwf Hr.
  destruct (naive mode fl t) as [r|e'] eqn:N; [|eauto].
  destruct (opt_sound_complete_lemma mode om t fl r HInv Hwf N) as [r' [Hr' _]]. congruence.
Qed.

(* the scan is what an unfiltered query returns, in the order it returns it *)
Lemma apply_no_filters : forall mode objs, apply_filters mode [] objs = Ok objs.
Proof. induction objs as [|o objs IH]; simpl; auto. rewrite IH. reflexivity. Qed.

Lemma filter_true : forall {A} (l : list A), filter (fun _ => true) l = l.
Proof. induction l; simpl; auto. rewrite IHl. auto. Qed.

Lemma search_unversioned_nofilter : forall mode es,
  search_unversioned mode [] es (Auth false []) = Ok (flat_map entry_files es).
Proof.
  intros mode es. unfold search_unversioned. simpl. unfold check_files. rewrite apply_no_filters. f_equal.
  induction es as [|e es IH]; simpl; auto. destruct e as [n files | n o]; simpl; auto.
  unfold file_visible. destruct (splitext n) as [stem ext]. simpl.
  destruct (ustr_eqb ext dot_json); simpl; rewrite IH; auto.
Qed.

Lemma search_versioned_nofilter : forall mode es,
  search_versioned mode [] es (Auth false []) = Ok (flat_map entry_versions es ++ flat_map entry_files es).
Proof.
  intros mode es. unfold search_versioned. simpl. unfold check_files. rewrite apply_no_filters. cbn [bind].
  rewrite search_unversioned_nofilter. cbn [bind]. f_equal. f_equal.
  induction es as [|e es IH]; simpl; auto. destruct e as [n files | n o]; simpl; auto. rewrite IH. auto.
Qed.

Theorem scan_is_unfiltered_query_lemma : forall mode om t, fs_search mode om t [] = Ok (scan t).
Proof.
  intros mode om t. unfold fs_search. assert (Hf : find_opts om [] = Ok (Auth false [], Auth false [])) by reflexivity.
  rewrite Hf. cbn [bind]. simpl matching_type_dirs. rewrite filter_true. cbn [bind].
  unfold scan. induction t as [|[d es] t IH]; simpl; auto.
  unfold scan_dir at 1. simpl. destruct (is_versioned_type_dir d es).
  - rewrite search_versioned_nofilter. cbn [bind]. rewrite IH. reflexivity.
  - rewrite search_unversioned_nofilter. cbn [bind]. rewrite IH. reflexivity.
Qed.

(* Proofs/C19Src.v -- the interpreter of step lists (Model/RegistryFlow.v) run on the
   lists the model transcribes is the model's register_* function; class_for_type
   is the category dispatch with the exclusive `else`.                          *)
From Coq Require Import NArith List String Bool.
From V Require Import Base.UString Model.Registry Model.RegistryFlow Proofs.RegistryFacts.
Import ListNotations.

Lemma interp_object_flow : forall vt r V n d cls,
  interp vt (plain_ctx V n d cls) model_object_flow None r = register_object vt r V n d cls.
Proof.
  intros. unfold model_object_flow, register_object, reg_insert. simpl.
  destruct (validate_props vt V false d); simpl; auto; try (destruct (lookup r V Objects n); reflexivity).
Qed.

Lemma interp_marking_flow : forall vt r V n d cls,
  interp vt (plain_ctx V n d cls) model_marking_flow None r = register_marking vt r V n d cls.
Proof.
  intros. unfold model_marking_flow, register_marking, reg_insert. simpl.
  destruct (validate_type vt V n); simpl; auto.
  destruct (validate_props vt V false d); simpl; auto; try (destruct (lookup r V Markings n); reflexivity).
Qed.

Lemma interp_observable_flow : forall vt r V n d cls,
  interp vt (plain_ctx V n d cls) model_observable_flow None r = register_observable vt r V n d cls.
Proof.
  intros. unfold model_observable_flow, register_observable, reg_insert. simpl.
  destruct (validate_props vt V (version_eqb V V20) d); simpl; auto; try (destruct (lookup r V Observables n); reflexivity).
Qed.

Lemma interp_extension_flow : forall vt r V n xt user cls,
  interp vt (extension_ctx V n xt user cls) model_extension_flow None r = register_extension vt r V n xt user cls.
Proof.
  intros. unfold model_extension_flow, register_extension, extension_ctx, reg_insert.
  cbn [interp cx_ver cx_name cx_cls cx_props cx_empty].
  set (nested := match xt with None => dict_of_pairs user | Some XToplevel => [(s_extension_type, KPlain)]
                               | Some _ => dict_update [(s_extension_type, KPlain)] (dict_of_pairs user) end).
  set (toplevel := match xt with Some XToplevel => Some (dict_of_pairs user) | _ => None end).
  destruct (validate_ext_name vt V n); cbn [negb]; [|reflexivity].
  destruct (version_eqb V V21 && negb (ustr_suffix s_dash_ext n || ustr_prefix s_extdef n)); [reflexivity|].
  destruct (is_nil nested || match toplevel with Some [] => true | _ => false end); [reflexivity|].
  destruct (validate_props vt V false (dict_update nested match toplevel with Some t => t | None => [] end)); cbn [negb]; [|reflexivity].
  destruct (lookup r V Extensions n); reflexivity.
Qed.

(* class_for_type with a category looks in that category only; without one, in the four in order *)
Lemma cft_with_category_lemma : forall r n V k,
  class_for_type r n (version_text V) (Some (match k with Objects => u "objects" | Observables => u "observables"
                                                        | Markings => u "markings" | Extensions => u "extensions" end))
  = lookup r V k n.
Proof.
  intros. unfold class_for_type. rewrite version_of_text. destruct k; vm_compute category_of; reflexivity.
Qed.

Lemma cft_without_category_lemma : forall r n V,
  class_for_type r n (version_text V) None
  = fold_right (fun k acc => orelse (lookup r V k n) acc) None model_cft_search_order.
Proof.
  intros. unfold class_for_type. rewrite version_of_text. simpl.
  destruct (lookup r V Objects n), (lookup r V Observables n), (lookup r V Markings n), (lookup r V Extensions n); reflexivity.
Qed.

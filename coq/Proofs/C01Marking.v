(* Proofs/C01Marking.v -- the class __init__ that wraps a value before the generic constructor runs
   (MarkingDefinition: `definition` becomes an instance of the registered marking class; in 2.0 the
   precision of `created` is switched per instance by the presence of a fraction in its text).
   Part 1: whether the written text of a timestamp has a "." (the 2.0 precision switch reads it back).
   Part 2: a constructor run with a pre-wrapped value is a run of the generic constructor without one,
           on a class whose wrapped property is an embedded object of a reserved class id served by the
           strict recursive constructor (so the whole theory of Proofs/C01Object.v applies to it).   *)
From Coq Require Import NArith ZArith List String Bool Lia.
From V Require Import Base.UString Base.Json Model.SchemaTypes Model.PyBase Model.Schema.
From V Require Import Model.Calendar Model.Timestamp Proofs.TimestampFacts Proofs.StrptimeFacts Proofs.C15Proofs.
From V Require Import Proofs.C01Basics Proofs.C01Kinds Proofs.C01KindsAll Proofs.C01Sort Proofs.C01Object.
Import ListNotations.

(* ------------------------------------------------------------------ Part 1: the "." of a written timestamp *)
Definition dotted (s : ustring) : bool := existsb (N.eqb 46) s.

Lemma dotted_has_dot : forall s, dotted s = has_dot s.
Proof.
  intros s. unfold dotted, has_dot. induction s as [| c r IH]; cbn [existsb]; [reflexivity |].
  rewrite IH. rewrite N.eqb_sym. reflexivity.
Qed.

Lemma has_dot_cons : forall c r, has_dot (c :: r) = (c =? 46)%N || has_dot r.
Proof. reflexivity. Qed.

Lemma format_has_dot : forall p c t,
  has_dot (format Pad4 p c t) = match frac_digits p c (f_us (fields_of t)) with [] => false | _ => true end.
Proof.
  intros p c t. unfold format, year_text, pad2.
  repeat (rewrite has_dot_app || rewrite has_dot_cons).
  rewrite !has_dot_text_of by apply digitsn_isdigit.
  unfold ch_dash, ch_T, ch_colon, ch_Z. cbn [N.eqb Pos.eqb orb].
  destruct (frac_digits p c (f_us (fields_of t))) as [| x r] eqn:E; [reflexivity |].
  rewrite has_dot_cons. unfold ch_dot. cbn [N.eqb Pos.eqb orb]. reflexivity.
Qed.

(* millisecond precision always writes a fraction *)
Lemma milli_frac_nonempty : forall c us, frac_digits Timestamp.PMilli c us <> [].
Proof.
  intros c us. unfold frac_digits. destruct c.
  - pose proof (digitsn_length 6 us) as L. destruct (digitsn 6 us) as [| a [| b [| d r]]]; cbn [length] in L; try lia.
    cbn [firstn]. discriminate.
  - unfold ljust3. destruct (rstrip0 (digitsn 6 us)) as [| a [| b [| d r]]]; cbn; discriminate.
Qed.

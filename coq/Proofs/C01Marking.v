(* Proofs/C01Marking.v -- the class __init__ that wraps a value before the generic constructor runs
   (MarkingDefinition: `definition` becomes an instance of the registered marking class; in 2.0 the
   precision of `created` is switched per instance by the presence of a fraction in its text).
   Part 1: whether the written text of a timestamp has a "." (the 2.0 precision switch reads it back).
   Part 2: a constructor run with a pre-wrapped value is a run of the generic constructor without one,
           on a class whose wrapped property is an embedded object of a reserved class id served by the
           strict recursive constructor (so the whole theory of Proofs/C01Object.v applies to it).   *)
From Coq Require Import NArith ZArith List String Bool Lia.
From V Require Import Model.Calendar Model.Timestamp Proofs.TimestampFacts Proofs.StrptimeFacts Proofs.C15Proofs.
From V Require Import Base.UString Base.Json Model.SchemaTypes Model.PyBase Model.Schema.
From V Require Import Proofs.C01Basics Proofs.C01Kinds Proofs.C01KindsAll Proofs.C01Sort Proofs.C01Object.
Import ListNotations.

(* ------------------------------------------------------------------ Part 1: the "." of a written timestamp *)
Definition dotted (s : ustring) : bool := existsb (N.eqb 46) s.

Lemma dotted_has_dot : forall s, dotted s = has_dot s.
Proof.
  intros s. unfold dotted, has_dot. induction s as [| c r IH]; cbn [existsb]; [reflexivity |].
  rewrite IH. rewrite N.eqb_sym. reflexivity.
Qed.

Lemma has_dot_cons : forall c r, has_dot (c :: r) = (c =? 46)%N || has_dot r.
Proof. reflexivity. Qed.

Lemma format_has_dot : forall p c t,
  has_dot (format Pad4 p c t) = match frac_digits p c (f_us (fields_of t)) with [] => false | _ => true end.
Proof.
  intros p c t. unfold format, year_text, pad2.
  repeat (rewrite has_dot_app || rewrite has_dot_cons).
  rewrite !has_dot_text_of by apply digitsn_isdigit.
  unfold ch_dash, ch_T, ch_colon, ch_Z. cbn [N.eqb Pos.eqb orb].
  destruct (frac_digits p c (f_us (fields_of t))) as [| x r] eqn:E; [reflexivity |].
  rewrite has_dot_cons. unfold ch_dot. cbn [N.eqb Pos.eqb orb]. reflexivity.
Qed.

(* millisecond precision always writes a fraction *)
Lemma milli_frac_nonempty : forall c us, frac_digits Timestamp.PMilli c us <> [].
Proof.
  intros c us. unfold frac_digits. destruct c.
  - pose proof (digitsn_length 6 us) as L. destruct (digitsn 6 us) as [| a r]; [discriminate L |].
    cbn [firstn]. discriminate.
  - unfold ljust3. destruct (rstrip0 (digitsn 6 us)) as [| a r]; cbn; discriminate.
Qed.

(* a postcondition on every result of a regex fragment: it holds if it holds of whatever the continuation returns *)
Section Post.
  Variable A : Type.
  Variable Q : A -> Prop.
  Definition kpost (k : Timestamp.kont A) : Prop := forall v s r, k v s = Some r -> Q r.
  Definition spost (k : ustring -> option A) : Prop := forall s r, k s = Some r -> Q r.

  Lemma one_post : forall cls k, kpost k -> spost (Timestamp.one A cls k).
  Proof. intros cls k Hk s r H. unfold Timestamp.one in H. destruct s as [| c s']; try discriminate. destruct (cls c); try discriminate. eauto. Qed.

  Lemma two_post : forall c1 c2 k, kpost k -> spost (Timestamp.two A c1 c2 k).
  Proof.
    intros c1 c2 k Hk. unfold Timestamp.two. apply one_post. intros a s r H. revert H. apply one_post. intros b s' r' H'. eauto.
  Qed.

  Lemma orelse_post : forall a b, spost a -> spost b -> spost (Timestamp.orelse A a b).
  Proof. intros a b Ha Hb s r H. unfold Timestamp.orelse in H. destruct (a s) eqn:E; [inversion H; subst; eauto | eauto]. Qed.

  Lemma space_then_post : forall cls k, kpost k -> spost (Timestamp.space_then A cls k).
  Proof.
    intros cls k Hk s r H. unfold Timestamp.space_then in H. destruct s as [| c s']; try discriminate.
    destruct c as [| p]; try discriminate. do 6 (destruct p; try discriminate). revert H. apply one_post. exact Hk.
  Qed.

  Lemma lit_post : forall c c' k, spost k -> spost (Timestamp.lit A c c' k).
  Proof.
    intros c c' k Hk s r H. unfold Timestamp.lit in H. destruct s as [| x s']; try discriminate.
    destruct ((x =? c)%N || (x =? c')%N); try discriminate. eauto.
  Qed.

  Lemma re_Y_post : forall k, kpost k -> spost (Timestamp.re_Y A k).
  Proof.
    intros k Hk. unfold Timestamp.re_Y. apply one_post. intros a s r H. revert H. apply one_post. intros b s1 r1 H1. revert H1.
    apply one_post. intros c s2 r2 H2. revert H2. apply one_post. intros d s3 r3 H3. eauto.
  Qed.
  Lemma re_m_post : forall k, kpost k -> spost (Timestamp.re_m A k).
  Proof. intros k Hk. unfold Timestamp.re_m. repeat apply orelse_post; try apply two_post; try apply one_post; exact Hk. Qed.
  Lemma re_d_post : forall k, kpost k -> spost (Timestamp.re_d A k).
  Proof. intros k Hk. unfold Timestamp.re_d. repeat apply orelse_post; try apply two_post; try apply one_post; try apply space_then_post; exact Hk. Qed.
  Lemma re_H_post : forall k, kpost k -> spost (Timestamp.re_H A k).
  Proof. intros k Hk. unfold Timestamp.re_H. repeat apply orelse_post; try apply two_post; try apply one_post; exact Hk. Qed.
  Lemma re_M_post : forall k, kpost k -> spost (Timestamp.re_M A k).
  Proof. intros k Hk. unfold Timestamp.re_M. repeat apply orelse_post; try apply two_post; try apply one_post; exact Hk. Qed.
  Lemma re_S_post : forall k, kpost k -> spost (Timestamp.re_S A k).
  Proof. intros k Hk. unfold Timestamp.re_S. repeat apply orelse_post; try apply two_post; try apply one_post; exact Hk. Qed.
End Post.

(* without a "." the pattern without the fraction is used: the microsecond field is 0 *)
Lemma regex_nofrac_us : forall s y m d hh mm ss us rest,
  Timestamp.regex_match false s = Some (y, m, d, hh, mm, ss, us, rest) -> us = 0%Z.
Proof.
  intros s y m d hh mm ss us rest H.
  set (Q := fun r : Timestamp.ptuple => match r with (_, _, _, _, _, _, us0, _) => us0 = 0%Z end).
  assert (HQ : Q (y, m, d, hh, mm, ss, us, rest)); [| exact HQ].
  revert H. generalize (y, m, d, hh, mm, ss, us, rest). revert s. change (spost Timestamp.ptuple Q (Timestamp.regex_match false)).
  unfold Timestamp.regex_match.
  apply re_Y_post. intros y0 s0 r0 H0. revert H0. apply lit_post.
  apply re_m_post. intros m0 s1 r1 H1. revert H1. apply lit_post.
  apply re_d_post. intros d0 s2 r2 H2. revert H2. apply lit_post.
  apply re_H_post. intros h0 s3 r3 H3. revert H3. apply lit_post.
  apply re_M_post. intros i0 s4 r4 H4. revert H4. apply lit_post.
  apply re_S_post. intros x0 s5 r5 H5. revert H5. apply lit_post.
  intros s6 r6 H6. inversion H6. reflexivity.
Qed.

Lemma fus_whole_second : forall t, (t mod us_per_sec = 0)%Z -> f_us (fields_of t) = 0%Z.
Proof.
  intros t H. unfold fields_of. destruct (civil_of_days (t / us_per_day)) as [[y m] d]. cbn [f_us].
  rewrite <- Znumtheory.Zmod_div_mod; [exact H | reflexivity | reflexivity |].
  exists 86400%Z. reflexivity.
Qed.

Lemma ts_clean_milli_dotted : forall s us txt, ts_clean true SchemaTypes.PMilli SchemaTypes.CExact s = Ok (us, txt) -> dotted txt = true.
Proof.
  intros s us txt H. unfold ts_clean in H. destruct (parse_strptime s); try discriminate. inversion H; subst.
  rewrite dotted_has_dot, format_has_dot. cbn [ts_prec ts_constr].
  pose proof (milli_frac_nonempty Timestamp.CExact (f_us (fields_of (stored_trunc Timestamp.PMilli Timestamp.CExact z)))) as N.
  destruct (frac_digits _ _ _); [contradiction | reflexivity].
Qed.

Lemma ts_clean_now_milli_dotted : forall now us txt, ts_clean_now true SchemaTypes.PMilli SchemaTypes.CExact now = Ok (us, txt) -> dotted txt = true.
Proof.
  intros now us txt H. unfold ts_clean_now in H. destruct (in_range now); try discriminate. inversion H; subst.
  rewrite dotted_has_dot, format_has_dot. cbn [ts_prec ts_constr].
  pose proof (milli_frac_nonempty Timestamp.CExact (f_us (fields_of (stored_trunc Timestamp.PMilli Timestamp.CExact now)))) as N.
  destruct (frac_digits _ _ _); [contradiction | reflexivity].
Qed.

(* a text without "." read at a precision other than milliseconds is written without "." *)
Lemma ts_clean_undotted : forall p c s us txt,
  ts_clean true p c s = Ok (us, txt) -> dotted s = false -> p <> SchemaTypes.PMilli -> dotted txt = false.
Proof.
  intros p c s us txt H Hd Hp. unfold ts_clean in H. destruct (parse_strptime s) as [t |] eqn:E; try discriminate.
  inversion H; subst. rewrite dotted_has_dot in *. rewrite format_has_dot.
  unfold parse_strptime in E. rewrite Hd in E.
  destruct (regex_match false s) as [[[[[[[[y m] d] hh] mm] ss] us0] rest] |] eqn:R; try discriminate.
  pose proof (regex_nofrac_us _ _ _ _ _ _ _ _ _ R) as U. subst us0.
  destruct rest; try discriminate. destruct (valid_fields y m d hh mm ss 0); try discriminate. inversion E; subst t.
  assert (T : (instant_of y m d hh mm ss 0 mod us_per_sec = 0)%Z).
  { unfold instant_of. rewrite Z.add_0_r. apply Z.mod_mul. discriminate. }
  assert (F : f_us (fields_of (stored_trunc (ts_prec p) (ts_constr c) (instant_of y m d hh mm ss 0))) = 0%Z).
  { apply fus_whole_second. destruct p, c; cbn [ts_prec ts_constr stored_trunc]; try exact T; try contradiction.
    - change 1000000%Z with us_per_sec. rewrite T. rewrite Z.sub_0_r. exact T. }
  rewrite F. destruct p, c; try contradiction; reflexivity.
Qed.

(* ------------------------------------------------------------------ Part 2: the wrapped property *)
Definition MARK : ustring := u "<wrapped marking>".

Definition wrap_slot (d : ustring) (s : slot) : slot :=
  if ustr_eqb (sname s) d then {| sname := sname s; skind := KEmbedded MARK; sreq := sreq s; sdef := sdef s |} else s.

Definition wrap_cls (d : ustring) (c : cls) : cls :=
  {| cid := cid c; cver := cver c; ctype := ctype c; cfamily := cfamily c; cslots := map (wrap_slot d) (cslots c);
     ccons := ccons c; cinit := cinit c; cidcontrib := cidcontrib c; cserialize_tlp := cserialize_tlp c |}.

Lemma wrap_sname : forall d s, sname (wrap_slot d s) = sname s.
Proof. intros d s. unfold wrap_slot. destruct (ustr_eqb (sname s) d); reflexivity. Qed.
Lemma wrap_sreq : forall d s, sreq (wrap_slot d s) = sreq s.
Proof. intros d s. unfold wrap_slot. destruct (ustr_eqb (sname s) d); reflexivity. Qed.
Lemma wrap_sdef : forall d s, sdef (wrap_slot d s) = sdef s.
Proof. intros d s. unfold wrap_slot. destruct (ustr_eqb (sname s) d); reflexivity. Qed.

Lemma wrap_PN : forall d c, PN (wrap_cls d c) = PN c.
Proof.
  intros d c. unfold PN, wrap_cls. cbn [cslots]. rewrite map_map. apply map_ext. intros s. apply wrap_sname.
Qed.

Lemma wrap_slot_of : forall d c n, slot_of (wrap_cls d c) n = option_map (wrap_slot d) (slot_of c n).
Proof.
  intros d c n. unfold slot_of, wrap_cls. cbn [cslots]. induction (cslots c) as [| s r IH]; cbn [map find option_map]; [reflexivity |].
  rewrite wrap_sname. destruct (ustr_eqb (sname s) n); [reflexivity | exact IH].
Qed.

Lemma wrap_defaulted : forall d c S, defaulted_names (wrap_cls d c) S = defaulted_names c S.
Proof.
  intros d c S. unfold defaulted_names, wrap_cls. cbn [cslots].
  induction (cslots c) as [| s r IH]; cbn [map filter]; [reflexivity |].
  rewrite wrap_sreq, wrap_sdef, wrap_sname.
  match goal with |- context [if ?b then _ else _] => destruct b end; cbn [map]; [rewrite wrap_sname, IH | rewrite IH]; reflexivity.
Qed.

Lemma wrap_required : forall d c (S : list (ustring * pval)),
  existsb (fun s => sreq s && negb (amem (sname s) S)) (cslots (wrap_cls d c)) =
  existsb (fun s => sreq s && negb (amem (sname s) S)) (cslots c).
Proof.
  intros d c S. unfold wrap_cls. cbn [cslots]. induction (cslots c) as [| s r IH]; cbn [map existsb]; [reflexivity |].
  rewrite wrap_sreq, wrap_sname, IH. reflexivity.
Qed.

Lemma wrap_default_checked : forall d c, default_checked (wrap_cls d c) = default_checked c.
Proof.
  intros d c. unfold default_checked. cbn [cfamily wrap_cls cslots]. rewrite map_map.
  f_equal. apply map_ext. intros s. apply wrap_sname.
Qed.

Lemma constr_all_ext : forall (g h : constr -> result unit) l, (forall x, g x = h x) -> constr_all g l = constr_all h l.
Proof. intros g h l E. induction l as [| x r IH]; cbn [constr_all]; [reflexivity |]. rewrite E, IH. reflexivity. Qed.

Lemma wrap_eval_constr : forall vr po d c fuel inner k,
  eval_constr vr po fuel (wrap_cls d c) inner k = eval_constr vr po fuel c inner k.
Proof.
  intros vr po d c. induction fuel as [| f IH]; intros inner k; [reflexivity |].
  cbn [eval_constr]. destruct k; try reflexivity; try (rewrite wrap_default_checked; reflexivity).
  match goal with |- context [eval_ccond ?q ?i] => destruct (eval_ccond q i) as [[] | |] end; cbn [bind]; try reflexivity.
  apply constr_all_ext. intros x. apply IH.
Qed.

(* kinds whose cleaning does not call the recursive constructor for the reserved class id *)
Fixpoint kind_avoids (M : ustring) (k : pkind) : bool :=
  match k with
  | KEmbedded cid0 | KListOf cid0 => negb (ustr_eqb cid0 M)
  | KList k' => kind_avoids M k'
  | KObservable _ | KStixObject _ | KExtensions _ => false
  | _ => true
  end.

Lemma clean_items_ext : forall (f g : jvalue -> result (pval * bool)) l, (forall x, f x = g x) -> clean_items f l = clean_items g l.
Proof. intros f g l E. induction l as [| x r IH]; cbn [clean_items]; [reflexivity |]. rewrite E, IH. reflexivity. Qed.

Section Ext.
  Variable vr : variant.
  Variable w : world.
  Variable M : ustring.
  Variable rc rc2 : ustring -> bool -> bool -> list (ustring * jvalue) -> result pval.
  Variable rp : bool -> bool -> list (ustring * jvalue) -> result pval.
  Variable ro : ver -> list (ustring * ustring) -> bool -> list (ustring * jvalue) -> result pval.
  Hypothesis Hagree : forall cid0 a i x, ustr_eqb cid0 M = false -> rc2 cid0 a i x = rc cid0 a i x.

  Lemma listof_items_ext : forall cid0 a i l, ustr_eqb cid0 M = false ->
    listof_items rc2 cid0 a i l = listof_items rc cid0 a i l.
  Proof.
    intros cid0 a i l Hc. induction l as [| x r IH]; cbn [listof_items]; [reflexivity |].
    destruct x; try reflexivity. rewrite Hagree by exact Hc. rewrite IH. reflexivity.
  Qed.

  Lemma clean_kind_ext : forall k, kind_avoids M k = true ->
    forall a i jv, clean_kind vr w rc2 rp ro k a i jv = clean_kind vr w rc rp ro k a i jv.
  Proof.
    induction k; intros Hk a i jv; cbn [kind_avoids] in Hk; try discriminate; cbn [clean_kind]; try reflexivity.
    - apply negb_true_iff in Hk. destruct jv; try reflexivity. rewrite Hagree by exact Hk. reflexivity.
    - destruct (list_items jv) as [l | |]; cbn [bind]; try reflexivity. rewrite (clean_items_ext _ _ l (fun x => IHk Hk a i x)). reflexivity.
    - apply negb_true_iff in Hk. destruct (list_items jv) as [l | |]; cbn [bind]; try reflexivity. rewrite listof_items_ext by exact Hk. reflexivity.
  Qed.
End Ext.

Lemma alookup_aremove_other : forall (A : Type) n d (K : list (ustring * A)), n <> d -> alookup n (aremove d K) = alookup n K.
Proof.
  intros A n d K Hn. induction K as [| [k x] r IH]; cbn [aremove alookup]; [reflexivity |].
  destruct (ustr_eqb d k) eqn:Ed.
  - apply ustr_eqb_eq in Ed. subst k. destruct (ustr_eqb n d) eqn:En; [apply ustr_eqb_eq in En; contradiction | reflexivity].
  - cbn [alookup]. rewrite IH. reflexivity.
Qed.

Lemma filter_akeys_aremove : forall (A : Type) (f : ustring -> bool) d (K : list (ustring * A)),
  f d = false -> filter f (akeys (aremove d K)) = filter f (akeys K).
Proof.
  intros A f d K Hf. unfold akeys. induction K as [| [k x] r IH]; cbn [aremove map filter fst]; [reflexivity |].
  destruct (ustr_eqb d k) eqn:Ed.
  - apply ustr_eqb_eq in Ed. subst k. rewrite Hf. reflexivity.
  - cbn [map filter fst]. rewrite IH. reflexivity.
Qed.

Section Wrap.
  Variable vr : variant.
  Variable ev : env.
  Variable w : world.
  Variable pattern_ok : ver -> ustring -> bool.
  Variable selectors_ok : list (ustring * pval) -> pval -> result bool.
  Variable rc rc2 : ustring -> bool -> bool -> list (ustring * jvalue) -> result pval.
  Variable rp : bool -> bool -> list (ustring * jvalue) -> result pval.
  Variable ro : ver -> list (ustring * ustring) -> bool -> list (ustring * jvalue) -> result pval.
  Hypothesis Hagree : forall cid0 a i x, ustr_eqb cid0 MARK = false -> rc2 cid0 a i x = rc cid0 a i x.

  Variable c : cls.
  Variable a interop : bool.
  Variable vrefs : option (list (ustring * ustring)).
  Variable d : ustring.
  Variable m : pval.
  Variable dd K0 : list (ustring * jvalue).
  Variable sd : slot.
  Hypothesis Hd : slot_of c d = Some sd.
  Hypothesis Hdnone : sdef sd = DNone.
  Hypothesis HK0 : alookup d K0 = Some (JObj dd).
  Hypothesis Hres : reserved_kw dd = Ok tt.
  Hypothesis Hm : rc2 MARK a false dd = Ok m.
  Hypothesis Hhc : pval_has_custom m = false.
  Hypothesis Hobj : match m with PJ _ => False | _ => True end.
  Hypothesis Hext : alookup ext_key K0 = None.
  Hypothesis Hav : forall sl, In sl (cslots c) -> sname sl <> d ->
    kind_avoids MARK (skind sl) = true \/ (sname sl = ext_key /\ sdef sl = DNone).

  Notation LHS := (assign_loop vr ev w rc rp ro c a interop vrefs (aremove d K0) [] [(d, m)]).
  Notation RSTEP := (step vr ev w rc2 rp ro (wrap_cls d c) a interop vrefs K0).
  Notation RHS := (assign_loop vr ev w rc2 rp ro (wrap_cls d c) a interop vrefs K0 [] []).

  Lemma lhs_cons : forall n rest s hc, amem n s = false ->
    LHS (n :: rest) s hc = do r <- RSTEP n s hc; LHS rest (fst r) (snd r).
  Proof.
    intros n rest s hc Hf. cbn [assign_loop]. unfold step. rewrite wrap_slot_of.
    destruct (ustr_eqb n d) eqn:End.
    - (* the wrapped property *)
      apply ustr_eqb_eq in End. subst n. rewrite Hd. cbn [option_map].
      unfold assign_raw at 1. cbn [alookup]. rewrite ustr_eqb_refl.
      rewrite assign_raw_spec. rewrite HK0. cbn [nullish].
      destruct (slot_of_In c d sd Hd) as [_ Esd].
      (* left: the instance is kept *)
      assert (L : check_property vr ev w rc rp ro c sd a interop vrefs (aset d m s) = Ok (aset d m s, false)).
      { unfold check_property, default_value. rewrite Esd. rewrite alookup_aset_same. cbn [bind fst snd].
        unfold clean_present. rewrite Esd. rewrite alookup_aset_same.
        destruct m; try contradiction; rewrite Hhc; rewrite andb_false_r; destruct (vr_marking_flag vr); reflexivity. }
      (* right: the dictionary is constructed by the strict recursive constructor *)
      assert (R : check_property vr ev w rc2 rp ro (wrap_cls d c) (wrap_slot d sd) a interop vrefs (aset d (PJ (JObj dd)) s)
                  = Ok (aset d m s, false)).
      { assert (Ew : wrap_slot d sd = {| sname := d; skind := KEmbedded MARK; sreq := sreq sd; sdef := sdef sd |}).
        { unfold wrap_slot. rewrite Esd, ustr_eqb_refl. reflexivity. }
        rewrite Ew.
        unfold check_property, default_value. cbn [sname]. rewrite alookup_aset_same. cbn [bind fst snd].
        unfold clean_present. cbn [sname skind]. rewrite alookup_aset_same.
        cbn [clean_kind]. rewrite Hres. cbn [bind]. rewrite Hm.
        cbn [bind]. rewrite Hhc. rewrite andb_false_r.
        assert (Hr : refs_ok (wrap_cls d c) {| sname := d; skind := KEmbedded MARK; sreq := sreq sd; sdef := sdef sd |} vrefs m = Ok tt).
        { unfold refs_ok. cbn [skind].
          destruct (cfamily (wrap_cls d c)); try reflexivity. destruct (cver (wrap_cls d c)); try reflexivity.
          destruct vrefs; reflexivity. }
        rewrite Hr. cbn [bind]. rewrite aset_aset. reflexivity. }
      rewrite L, R. reflexivity.
    - (* every other name *)
      assert (Hne : n <> d) by (intros E; subst; rewrite ustr_eqb_refl in End; discriminate).
      assert (S1 : assign_raw (aremove d K0) [] [(d, m)] n s = assign_raw K0 [] [] n s).
      { unfold assign_raw. cbn [alookup]. rewrite End. rewrite alookup_aremove_other by exact Hne. reflexivity. }
      rewrite S1.
      destruct (slot_of c n) as [sl |] eqn:Esl; cbn [option_map]; [| reflexivity].
      destruct (slot_of_In c n sl Esl) as [Hin En].
      assert (Hw : wrap_slot d sl = sl).
      { unfold wrap_slot. rewrite En, End. reflexivity. }
      rewrite Hw.
      assert (E : check_property vr ev w rc rp ro c sl a interop vrefs (assign_raw K0 [] [] n s) =
                  check_property vr ev w rc2 rp ro (wrap_cls d c) sl a interop vrefs (assign_raw K0 [] [] n s)).
      { destruct (Hav sl Hin) as [Hk | [Hn Hdf]]; [congruence | |].
        - unfold check_property. destruct (default_value vr ev sl (assign_raw K0 [] [] n s)) as [[s2 isnow] | |]; cbn [bind fst snd]; try reflexivity.
          unfold clean_present. destruct (alookup (sname sl) s2) as [raw |]; try reflexivity.
          destruct isnow; try reflexivity. destruct raw; try reflexivity.
          rewrite (clean_kind_ext vr w MARK rc rc2 rp ro Hagree (skind sl) Hk). reflexivity.
        - (* the extensions property: nothing given, no default, nothing cleaned *)
          assert (Hs1 : assign_raw K0 [] [] n s = s).
          { rewrite assign_raw_spec. rewrite <- En, Hn, Hext. reflexivity. }
          rewrite Hs1. apply amem_alookup_none in Hf.
          unfold check_property, default_value. rewrite En, Hf, Hdf. cbn [bind fst snd].
          unfold clean_present. rewrite En, Hf. reflexivity. }
      rewrite E. unfold bind. destruct (check_property vr ev w rc2 rp ro (wrap_cls d c) sl a interop vrefs (assign_raw K0 [] [] n s)) as [[x y] | |];
        reflexivity.
  Qed.

  Lemma loop_wrap : forall l s hc, NoDup l -> (forall n, In n l -> amem n s = false) -> LHS l s hc = RHS l s hc.
  Proof.
    induction l as [| n rest IH]; intros s hc ND Hf; [reflexivity |].
    rewrite lhs_cons by (apply Hf; left; reflexivity). rewrite loop_cons.
    destruct (RSTEP n s hc) as [[s1 h1] | |] eqn:Es; cbn [bind fst snd]; try reflexivity.
    inversion ND; subst. apply IH; auto.
    intros k Hk. unfold amem. rewrite (sos_frame _ _ _ k (step_shape vr ev w rc2 rp ro (wrap_cls d c) a interop vrefs _ _ _ _ _ _ Es)).
    - apply Hf. right. exact Hk.
    - intros E2. subst. contradiction.
  Qed.

  (* cg_plain with a pre-wrapped value *)
  Lemma cg_plain_pre : forall rcx cx fuel kw pre,
    alookup cp_key kw = None -> alookup ext_key kw = None ->
    construct_generic vr ev w pattern_ok selectors_ok rcx rp ro fuel cx a interop kw pre vrefs =
    let E := filter (notPN cx) (akeys kw) in
    match E, a with
    | _ :: _, false => Err EExtra
    | _, _ =>
      let AC := udedup (filter (notPN cx) (E ++ [])) in
      if (match cver cx with V21 => negb (forallb re_prefix21 AC) | V20 => false end) then Err EInvalidValue else
      do r <- assign_loop vr ev w rcx rp ro cx a interop vrefs kw [] pre (PN cx ++ ([] ++ usort AC)) [] (flag0 vr AC);
      cg_tail vr pattern_ok selectors_ok cx a fuel AC r
    end.
  Proof.
    intros rcx cx fuel kw pre Hcp Hx. unfold construct_generic.
    change (u "custom_properties") with cp_key. change (u "extensions") with ext_key.
    rewrite Hcp. rewrite (aremove_absent _ cp_key kw) by (apply amem_alookup_none; exact Hcp).
    rewrite Hx. cbn [bind]. rewrite andb_false_r.
    fold (PN cx). fold (notPN cx). cbn [akeys map app].
    destruct (filter (notPN cx) (akeys kw)) as [| e0 E0]; reflexivity.
  Qed.

  Lemma wrap_cg_tail : forall fuel AC r,
    cg_tail vr pattern_ok selectors_ok (wrap_cls d c) a fuel AC r = cg_tail vr pattern_ok selectors_ok c a fuel AC r.
  Proof.
    intros fuel AC [S hc0]. unfold cg_tail. rewrite wrap_required, wrap_defaulted. cbn [ccons cfamily cid wrap_cls].
    rewrite (constr_all_ext _ _ _ (wrap_eval_constr vr pattern_ok d c fuel S)). reflexivity.
  Qed.

  Hypothesis Hnodup : NoDup (map sname (cslots c)).
  Hypothesis Hcp : alookup cp_key K0 = None.

  (* the constructor with the pre-wrapped value = the generic constructor of the wrapping class on all the arguments *)
  Theorem cg_wrap : forall fuel,
    construct_generic vr ev w pattern_ok selectors_ok rc rp ro fuel c a interop (aremove d K0) [(d, m)] vrefs =
    construct_generic vr ev w pattern_ok selectors_ok rc2 rp ro fuel (wrap_cls d c) a interop K0 [] vrefs.
  Proof.
    intros fuel.
    destruct (slot_of_In c d sd Hd) as [Hsdin Esd].
    assert (Hdpn : notPN c d = false).
    { unfold notPN. apply negb_false_iff. apply mem_ustr_In. unfold PN. rewrite <- Esd. apply in_map. exact Hsdin. }
    assert (Hne1 : cp_key <> d).
    { intros E. rewrite <- E in HK0. rewrite Hcp in HK0. discriminate. }
    assert (Hne2 : ext_key <> d).
    { intros E. rewrite <- E in HK0. rewrite Hext in HK0. discriminate. }
    rewrite (cg_plain_pre rc c fuel (aremove d K0) [(d, m)])
      by (rewrite alookup_aremove_other; assumption).
    rewrite (cg_plain vr ev w pattern_ok selectors_ok rc2 rp ro (wrap_cls d c) a interop vrefs fuel K0 Hcp Hext).
    cbv zeta. unfold notPN. rewrite wrap_PN. fold (notPN c).
    rewrite (filter_akeys_aremove _ (notPN c) d K0 Hdpn).
    set (E := filter (notPN c) (akeys K0)).
    set (AC := udedup (filter (notPN c) (E ++ []))).
    cbn [cver wrap_cls].
    assert (HX : (if (match cver c with V21 => negb (forallb re_prefix21 AC) | V20 => false end) then Err EInvalidValue else
                  do r <- assign_loop vr ev w rc rp ro c a interop vrefs (aremove d K0) [] [(d, m)] (PN c ++ ([] ++ usort AC)) [] (flag0 vr AC);
                  cg_tail vr pattern_ok selectors_ok c a fuel AC r) =
                 (if (match cver c with V21 => negb (forallb re_prefix21 AC) | V20 => false end) then Err EInvalidValue else
                  do r <- assign_loop vr ev w rc2 rp ro (wrap_cls d c) a interop vrefs K0 [] [] (PN c ++ ([] ++ usort AC)) [] (flag0 vr AC);
                  cg_tail vr pattern_ok selectors_ok (wrap_cls d c) a fuel AC r)).
    { destruct (match cver c with V21 => negb (forallb re_prefix21 AC) | V20 => false end); [reflexivity |].
      rewrite loop_wrap.
      + unfold bind. destruct (assign_loop vr ev w rc2 rp ro (wrap_cls d c) a interop vrefs K0 [] [] (PN c ++ [] ++ usort AC) [] (flag0 vr AC));
          try reflexivity. rewrite wrap_cg_tail. reflexivity.
      + cbn [app]. apply NoDup_app_disj; [exact Hnodup | apply NoDup_usort; apply NoDup_udedup |].
        intros x Hx Hx2. apply (proj1 (In_usort _ _)) in Hx2. unfold AC in Hx2. apply (proj1 (In_udedup _ _)) in Hx2.
        apply filter_In in Hx2. destruct Hx2 as [_ Hn]. unfold notPN in Hn. apply negb_true_iff in Hn.
        apply (proj2 (mem_ustr_In x (PN c))) in Hx. congruence.
      + intros; reflexivity. }
    rewrite HX. reflexivity.
  Qed.
End Wrap.

(* Proofs/PatternEqSort.v -- sorting with a lawful comparator is insensitive
   to the order of the input (up to comparator-equality), and respects
   comparator-equality of the elements; so does the groupby-dedupe.  This is
   what makes the normal form independent of operand and set-member order. *)
From Coq Require Import List Bool Permutation Lia.
From V Require Import Base.UString Model.PatternEq Proofs.PatternEqCmp Proofs.PatternEqLists.
Import ListNotations.

Section Sort.
  Context {A : Type} (cmp : A -> A -> comparison).
  Hypothesis L : lawful cmp.

  Definition ceq (x y : A) : Prop := cmp x y = Eq.

  Lemma ceq_refl : forall x, ceq x x.
  Proof. destruct L as [R _]. exact R. Qed.
  Lemma ceq_sym : forall x y, ceq x y -> ceq y x.
  Proof. apply (lawful_eq_sym cmp L). Qed.
  Lemma ceq_trans : forall x y z, ceq x y -> ceq y z -> ceq x z.
  Proof. apply (lawful_eq_trans cmp L). Qed.

  Lemma F2ceq_refl : forall l, Forall2 ceq l l.
  Proof. induction l; constructor; [apply ceq_refl | assumption]. Qed.

  Lemma F2ceq_sym : forall l l', Forall2 ceq l l' -> Forall2 ceq l' l.
  Proof. induction 1; constructor; [apply ceq_sym; assumption | assumption]. Qed.

  Lemma F2ceq_trans : forall l1 l2 l3, Forall2 ceq l1 l2 -> Forall2 ceq l2 l3 -> Forall2 ceq l1 l3.
  Proof.
    intros l1 l2 l3 H1. revert l3. induction H1; intros l3 H2; inversion H2; subst; constructor.
    - eapply ceq_trans; eassumption.
    - apply IHForall2; assumption.
  Qed.

  Lemma cmp_respects : forall x x' y y', ceq x x' -> ceq y y' -> cmp x y = cmp x' y'.
  Proof.
    intros x x' y y' Hx Hy.
    rewrite (lawful_eq_l cmp L x x' y Hx).
    symmetry. apply (lawful_eq_r cmp L x' y y' Hy).
  Qed.

  Lemma insert_respects : forall x x' s s', ceq x x' -> Forall2 ceq s s' -> Forall2 ceq (insert cmp x s) (insert cmp x' s').
  Proof.
    intros x x' s s' Hx HF. induction HF as [|y y' r r' Hy HF IH]; simpl.
    - constructor; [exact Hx | constructor].
    - rewrite <- (cmp_respects x x' y y' Hx Hy). destruct (cmp x y).
      + constructor; [exact Hx | constructor; assumption].
      + constructor; [exact Hx | constructor; assumption].
      + constructor; [exact Hy | exact IH].
  Qed.

  Lemma isort_respects : forall l l', Forall2 ceq l l' -> Forall2 ceq (isort cmp l) (isort cmp l').
  Proof.
    induction 1; simpl; [constructor|]. unfold isort in *. simpl. apply insert_respects; assumption.
  Qed.

  Lemma cmp_gt_lt : forall x y, cmp x y = Gt -> cmp y x = Lt.
  Proof. intros x y E. destruct L as [_ [S _]]. rewrite (S x y), E. reflexivity. Qed.
  Lemma cmp_lt_gt : forall x y, cmp x y = Lt -> cmp y x = Gt.
  Proof. intros x y E. destruct L as [_ [S _]]. rewrite (S x y), E. reflexivity. Qed.

  (* x > z and not (y > z) give x > y *)
  Lemma gt_of_gt_ngt : forall x y z, cmp x z = Gt -> cmp y z <> Gt -> cmp x y = Gt.
  Proof.
    intros x y z Hx Hy. destruct L as [_ [S T]].
    destruct (T x y z) as [T1 [T2 [T3 T4]]].
    destruct (cmp x y) eqn:Exy; [| |reflexivity].
    - specialize (T1 eq_refl). rewrite Hx in T1. symmetry in T1. contradiction.
    - destruct (cmp y z) eqn:Eyz.
      + specialize (T2 eq_refl). congruence.
      + specialize (T3 eq_refl eq_refl). congruence.
      + contradiction Hy; reflexivity.
  Qed.

  (* two insertions commute, up to comparator-equality *)
  Lemma insert_comm : forall x y s, Forall2 ceq (insert cmp x (insert cmp y s)) (insert cmp y (insert cmp x s)).
  Proof.
    intros x y. induction s as [|z r IH]; simpl.
    - destruct (cmp x y) eqn:Exy.
      + rewrite (ceq_sym x y Exy). repeat constructor; [exact Exy | apply ceq_sym; exact Exy].
      + rewrite (cmp_lt_gt x y Exy). apply F2ceq_refl.
      + rewrite (cmp_gt_lt x y Exy). apply F2ceq_refl.
    - destruct (cmp y z) eqn:Eyz; destruct (cmp x z) eqn:Exz; simpl; rewrite ?Eyz, ?Exz.
      + (* y = z, x = z *)
        destruct (cmp x y) eqn:Exy.
        * rewrite (ceq_sym x y Exy). constructor; [exact Exy | constructor; [apply ceq_sym; exact Exy | apply F2ceq_refl]].
        * rewrite (cmp_lt_gt x y Exy). simpl. rewrite ?Exz, ?Eyz. apply F2ceq_refl.
        * rewrite (cmp_gt_lt x y Exy). simpl. rewrite ?Exz, ?Eyz. apply F2ceq_refl.
      + (* y = z, x < z *)
        destruct (cmp x y) eqn:Exy.
        * rewrite (ceq_sym x y Exy). constructor; [exact Exy | constructor; [apply ceq_sym; exact Exy | apply F2ceq_refl]].
        * rewrite (cmp_lt_gt x y Exy). simpl. rewrite ?Exz, ?Eyz. apply F2ceq_refl.
        * rewrite (cmp_gt_lt x y Exy). simpl. rewrite ?Exz, ?Eyz. apply F2ceq_refl.
      + (* y = z, x > z: x > y *)
        assert (Exy : cmp x y = Gt) by (apply (gt_of_gt_ngt x y z Exz); rewrite Eyz; discriminate).
        rewrite Exy. simpl. rewrite ?Exz, ?Eyz. apply F2ceq_refl.
      + destruct (cmp x y) eqn:Exy.
        * rewrite (ceq_sym x y Exy). constructor; [exact Exy | constructor; [apply ceq_sym; exact Exy | apply F2ceq_refl]].
        * rewrite (cmp_lt_gt x y Exy). simpl. rewrite ?Exz, ?Eyz. apply F2ceq_refl.
        * rewrite (cmp_gt_lt x y Exy). simpl. rewrite ?Exz, ?Eyz. apply F2ceq_refl.
      + destruct (cmp x y) eqn:Exy.
        * rewrite (ceq_sym x y Exy). constructor; [exact Exy | constructor; [apply ceq_sym; exact Exy | apply F2ceq_refl]].
        * rewrite (cmp_lt_gt x y Exy). simpl. rewrite ?Exz, ?Eyz. apply F2ceq_refl.
        * rewrite (cmp_gt_lt x y Exy). simpl. rewrite ?Exz, ?Eyz. apply F2ceq_refl.
      + assert (Exy : cmp x y = Gt) by (apply (gt_of_gt_ngt x y z Exz); rewrite Eyz; discriminate).
        rewrite Exy. simpl. rewrite ?Exz, ?Eyz. apply F2ceq_refl.
      + (* y > z, x = z: y > x *)
        assert (Eyx : cmp y x = Gt) by (apply (gt_of_gt_ngt y x z Eyz); rewrite Exz; discriminate).
        rewrite Eyx. simpl. rewrite ?Exz, ?Eyz. apply F2ceq_refl.
      + assert (Eyx : cmp y x = Gt) by (apply (gt_of_gt_ngt y x z Eyz); rewrite Exz; discriminate).
        rewrite Eyx. simpl. rewrite ?Exz, ?Eyz. apply F2ceq_refl.
      + (* both greater *)
        constructor; [apply ceq_refl | exact IH].
  Qed.

  Lemma isort_perm_eq : forall l l', Permutation l l' -> Forall2 ceq (isort cmp l) (isort cmp l').
  Proof.
    induction 1.
    - constructor.
    - unfold isort in *. simpl. apply insert_respects; [apply ceq_refl | assumption].
    - unfold isort. simpl. apply insert_comm.
    - eapply F2ceq_trans; eassumption.
  Qed.

  Lemma dedupe_from_respects : forall l l' f f', ceq f f' -> Forall2 ceq l l' ->
                                                 Forall2 ceq (dedupe_from cmp f l) (dedupe_from cmp f' l').
  Proof.
    intros l l' f f' Hf HF. revert f f' Hf. induction HF as [|y y' r r' Hy HF IH]; intros f f' Hf; simpl; [constructor|].
    rewrite <- (cmp_respects f f' y y' Hf Hy). destruct (is_eq (cmp f y)).
    - apply IH; exact Hf.
    - constructor; [exact Hy | apply IH; exact Hy].
  Qed.

  Lemma dedupe_respects : forall l l', Forall2 ceq l l' -> Forall2 ceq (dedupe cmp l) (dedupe cmp l').
  Proof.
    intros l l' HF. destruct HF as [|x x' r r' Hx HF]; simpl; [constructor|].
    constructor; [exact Hx | apply dedupe_from_respects; assumption].
  Qed.
End Sort.

(* ------------------------------------------------------------------ *)
(* sort-and-dedupe computes a canonical representative of the SET of its
   elements up to comparator-equality                                  *)
From Coq Require Import Sorted.

Section Canon.
  Context {A : Type} (cmp : A -> A -> comparison).
  Hypothesis L : lawful cmp.

  Definition covers (u w : list A) : Prop := forall x, In x u -> exists y, In y w /\ ceq cmp x y.
  Definition clt (x y : A) : Prop := cmp x y = Lt.

  Lemma clt_trans : forall x y z, clt x y -> clt y z -> clt x z.
  Proof. intros x y z H1 H2. destruct L as [_ [_ T]]. destruct (T x y z) as [_ [_ [T3 _]]]. apply T3; assumption. Qed.

  Lemma clt_ceq_l : forall x x' y, ceq cmp x x' -> clt x y -> clt x' y.
  Proof. intros x x' y E H. unfold clt in *. rewrite <- (lawful_eq_l cmp L x x' y E). exact H. Qed.

  Lemma clt_ceq_r : forall x y y', ceq cmp y y' -> clt x y -> clt x y'.
  Proof.
    intros x y y' E H. unfold clt in *. rewrite <- H. symmetry.
    apply (cmp_respects cmp L x x y y'); [apply (ceq_refl cmp L) | exact E].
  Qed.

  Lemma clt_irrefl : forall x y, ceq cmp x y -> ~ clt x y.
  Proof. intros x y E H. unfold clt, ceq in *. congruence. Qed.

  (* insertion sort: adjacent elements are not decreasing *)
  Definition nogt (x y : A) : Prop := cmp x y <> Gt.

  Lemma insert_sorted' : forall x l, Sorted nogt l -> Sorted nogt (insert cmp x l).
  Proof.
    intros x l. induction 1 as [|y r Hs IH Hd]; simpl; [repeat constructor|].
    destruct (cmp x y) eqn:E.
    - constructor; [constructor; assumption | constructor; unfold nogt; rewrite E; discriminate].
    - constructor; [constructor; assumption | constructor; unfold nogt; rewrite E; discriminate].
    - constructor; [exact IH|].
      assert (Hyx : nogt y x) by (unfold nogt; rewrite (cmp_gt_lt cmp L x y E); discriminate).
      destruct r as [|z r']; simpl; [constructor; exact Hyx|].
      destruct (cmp x z); constructor; try exact Hyx. inversion Hd; assumption.
  Qed.

  Lemma isort_sorted' : forall l, Sorted nogt (isort cmp l).
  Proof. induction l as [|x l IH]; [constructor|]. unfold isort in *. simpl. apply insert_sorted'. exact IH. Qed.

  (* after dedupe: strictly increasing *)
  Lemma dedupe_from_strict : forall l f, Sorted nogt (f :: l) -> Sorted clt (f :: dedupe_from cmp f l).
  Proof.
    induction l as [|y r IH]; intros f Hs; simpl; [repeat constructor|].
    inversion Hs as [|? ? Hs' Hd]; subst. inversion Hd as [|? ? Hfy]; subst.
    destruct (is_eq (cmp f y)) eqn:E.
    - apply is_eq_true in E. apply IH. inversion Hs' as [|? ? Hr Hdy]; subst. constructor; [exact Hr|].
      destruct r as [|z r']; constructor. inversion Hdy as [|? ? Hyz]; subst. unfold nogt in *.
      rewrite (lawful_eq_l cmp L f y z E). exact Hyz.
    - constructor; [apply IH; exact Hs'|]. constructor. unfold clt, nogt in *.
      destruct (cmp f y); [discriminate E | reflexivity | contradiction Hfy; reflexivity].
  Qed.

  Lemma sortdedupe_strict : forall l, StronglySorted clt (dedupe cmp (isort cmp l)).
  Proof.
    intro l. apply Sorted_StronglySorted; [intros x y z; apply clt_trans|].
    pose proof (isort_sorted' l) as Hs. destruct (isort cmp l) as [|f r]; [constructor|]. simpl. apply dedupe_from_strict. exact Hs.
  Qed.

  Lemma sortdedupe_covers : forall l, covers l (dedupe cmp (isort cmp l)) /\ incl (dedupe cmp (isort cmp l)) l.
  Proof.
    intro l. split.
    - intros x Hx. assert (Hx' : In x (isort cmp l)) by (apply (Permutation_in x (Permutation_sym (isort_perm cmp l)) Hx)).
      destruct (dedupe_cover cmp _ x Hx') as [y [Hy [->|Ey]]].
      + exists x. split; [exact Hy | apply (ceq_refl cmp L)].
      + exists y. split; [exact Hy | apply (ceq_sym cmp L); exact Ey].
    - intros x Hx. apply (Permutation_in x (isort_perm cmp l)). apply (dedupe_incl cmp _ x Hx).
  Qed.

  (* two strictly increasing lists covering each other are pointwise comparator-equal *)
  Lemma strict_canon : forall U W, StronglySorted clt U -> StronglySorted clt W -> covers U W -> covers W U -> Forall2 (ceq cmp) U W.
  Proof.
    induction U as [|x U IH]; intros W SU SW CU CW.
    - destruct W as [|y W]; [constructor|]. destruct (CW y (or_introl eq_refl)) as [z [[] _]].
    - destruct W as [|y W]; [destruct (CU x (or_introl eq_refl)) as [z [[] _]]|].
      inversion SU as [|? ? SU' HxU]; subst. inversion SW as [|? ? SW' HyW]; subst.
      rewrite Forall_forall in HxU, HyW.
      assert (Hxy : ceq cmp x y).
      { destruct (cmp x y) eqn:E; [exact E | |].
        - (* x < y: x is covered by some y_j >= y *)
          exfalso. destruct (CU x (or_introl eq_refl)) as [yj [Hyj Ej]]. destruct Hyj as [<-|Hyj].
          + apply (clt_irrefl x y Ej). exact E.
          + apply (clt_irrefl x yj Ej). apply (clt_trans x y yj); [exact E | apply HyW; exact Hyj].
        - exfalso. assert (Eyx : clt y x) by (apply (cmp_gt_lt cmp L); exact E).
          destruct (CW y (or_introl eq_refl)) as [xi [Hxi Ei]]. destruct Hxi as [<-|Hxi].
          + apply (clt_irrefl y x Ei). exact Eyx.
          + apply (clt_irrefl y xi Ei). apply (clt_trans y x xi); [exact Eyx | apply HxU; exact Hxi]. }
      constructor; [exact Hxy|]. apply IH; try assumption.
      + intros x' Hx'. destruct (CU x' (or_intror Hx')) as [yj [Hyj Ej]]. destruct Hyj as [<-|Hyj]; [|exists yj; auto].
        exfalso. apply (clt_irrefl x x'); [|apply HxU; exact Hx'].
        apply (ceq_trans cmp L x y x' Hxy). apply (ceq_sym cmp L). exact Ej.
      + intros y' Hy'. destruct (CW y' (or_intror Hy')) as [xi [Hxi Ei]]. destruct Hxi as [<-|Hxi]; [|exists xi; auto].
        exfalso. apply (clt_irrefl y y'); [|apply HyW; exact Hy'].
        apply (ceq_trans cmp L y x y'); [apply (ceq_sym cmp L); exact Hxy | apply (ceq_sym cmp L); exact Ei].
  Qed.

  Lemma covers_trans : forall u v w, covers u v -> covers v w -> covers u w.
  Proof.
    intros u v w H1 H2 x Hx. destruct (H1 x Hx) as [y [Hy Exy]]. destruct (H2 y Hy) as [z [Hz Eyz]].
    exists z. split; [exact Hz | apply (ceq_trans cmp L x y z); assumption].
  Qed.

  Lemma covers_incl : forall u w, incl u w -> covers u w.
  Proof. intros u w Hi x Hx. exists x. split; [apply Hi; exact Hx | apply (ceq_refl cmp L)]. Qed.

  (* the set lemma *)
  Theorem sortdedupe_set : forall u w, covers u w -> covers w u ->
                                       Forall2 (ceq cmp) (dedupe cmp (isort cmp u)) (dedupe cmp (isort cmp w)).
  Proof.
    intros u w Cuw Cwu. destruct (sortdedupe_covers u) as [Cu Iu]. destruct (sortdedupe_covers w) as [Cw Iw].
    apply strict_canon; try apply sortdedupe_strict.
    - apply (covers_trans _ u); [apply covers_incl; exact Iu|]. apply (covers_trans _ w); assumption.
    - apply (covers_trans _ w); [apply covers_incl; exact Iw|]. apply (covers_trans _ u); assumption.
  Qed.
End Canon.

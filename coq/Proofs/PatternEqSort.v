(* Proofs/PatternEqSort.v -- sorting with a lawful comparator is insensitive
   to the order of the input (up to comparator-equality), and respects
   comparator-equality of the elements; so does the groupby-dedupe.  This is
   what makes the normal form independent of operand and set-member order. *)
From Coq Require Import List Bool Permutation Lia.
From V Require Import Base.UString Model.PatternEq Proofs.PatternEqCmp Proofs.PatternEqLists.
Import ListNotations.

Section Sort.
  Context {A : Type} (cmp : A -> A -> comparison).
  Hypothesis L : lawful cmp.

  Definition ceq (x y : A) : Prop := cmp x y = Eq.

  Lemma ceq_refl : forall x, ceq x x.
  Proof. destruct L as [R _]. exact R. Qed.
  Lemma ceq_sym : forall x y, ceq x y -> ceq y x.
  Proof. apply (lawful_eq_sym cmp L). Qed.
  Lemma ceq_trans : forall x y z, ceq x y -> ceq y z -> ceq x z.
  Proof. apply (lawful_eq_trans cmp L). Qed.

  Lemma F2ceq_refl : forall l, Forall2 ceq l l.
  Proof. induction l; constructor; [apply ceq_refl | assumption]. Qed.

  Lemma F2ceq_sym : forall l l', Forall2 ceq l l' -> Forall2 ceq l' l.
  Proof. induction 1; constructor; [apply ceq_sym; assumption | assumption]. Qed.

  Lemma F2ceq_trans : forall l1 l2 l3, Forall2 ceq l1 l2 -> Forall2 ceq l2 l3 -> Forall2 ceq l1 l3.
  Proof.
    intros l1 l2 l3 H1. revert l3. induction H1; intros l3 H2; inversion H2; subst; constructor.
    - eapply ceq_trans; eassumption.
    - apply IHForall2; assumption.
  Qed.

  Lemma cmp_respects : forall x x' y y', ceq x x' -> ceq y y' -> cmp x y = cmp x' y'.
  Proof.
    intros x x' y y' Hx Hy.
    rewrite (lawful_eq_l cmp L x x' y Hx).
    symmetry. apply (lawful_eq_r cmp L x' y y' Hy).
  Qed.

  Lemma insert_respects : forall x x' s s', ceq x x' -> Forall2 ceq s s' -> Forall2 ceq (insert cmp x s) (insert cmp x' s').
  Proof.
    intros x x' s s' Hx HF. induction HF as [|y y' r r' Hy HF IH]; simpl.
    - constructor; [exact Hx | constructor].
    - rewrite <- (cmp_respects x x' y y' Hx Hy). destruct (cmp x y).
      + constructor; [exact Hx | constructor; assumption].
      + constructor; [exact Hx | constructor; assumption].
      + constructor; [exact Hy | exact IH].
  Qed.

  Lemma isort_respects : forall l l', Forall2 ceq l l' -> Forall2 ceq (isort cmp l) (isort cmp l').
  Proof.
    induction 1; simpl; [constructor|]. unfold isort in *. simpl. apply insert_respects; assumption.
  Qed.

  Lemma cmp_gt_lt : forall x y, cmp x y = Gt -> cmp y x = Lt.
  Proof. intros x y E. destruct L as [_ [S _]]. rewrite (S x y), E. reflexivity. Qed.
  Lemma cmp_lt_gt : forall x y, cmp x y = Lt -> cmp y x = Gt.
  Proof. intros x y E. destruct L as [_ [S _]]. rewrite (S x y), E. reflexivity. Qed.

  (* x > z and not (y > z) give x > y *)
  Lemma gt_of_gt_ngt : forall x y z, cmp x z = Gt -> cmp y z <> Gt -> cmp x y = Gt.
  Proof.
    intros x y z Hx Hy. destruct L as [_ [S T]].
    destruct (T x y z) as [T1 [T2 [T3 T4]]].
    destruct (cmp x y) eqn:Exy; [| |reflexivity].
    - specialize (T1 eq_refl). rewrite Hx in T1. symmetry in T1. contradiction.
    - destruct (cmp y z) eqn:Eyz.
      + specialize (T2 eq_refl). congruence.
      + specialize (T3 eq_refl eq_refl). congruence.
      + contradiction Hy; reflexivity.
  Qed.

  (* two insertions commute, up to comparator-equality *)
  Lemma insert_comm : forall x y s, Forall2 ceq (insert cmp x (insert cmp y s)) (insert cmp y (insert cmp x s)).
  Proof.
    intros x y. induction s as [|z r IH]; simpl.
    - destruct (cmp x y) eqn:Exy.
      + rewrite (ceq_sym x y Exy). repeat constructor; [exact Exy | apply ceq_sym; exact Exy].
      + rewrite (cmp_lt_gt x y Exy). apply F2ceq_refl.
      + rewrite (cmp_gt_lt x y Exy). apply F2ceq_refl.
    - destruct (cmp y z) eqn:Eyz; destruct (cmp x z) eqn:Exz; simpl; rewrite ?Eyz, ?Exz.
      + (* y = z, x = z *)
        destruct (cmp x y) eqn:Exy.
        * rewrite (ceq_sym x y Exy). constructor; [exact Exy | constructor; [apply ceq_sym; exact Exy | apply F2ceq_refl]].
        * rewrite (cmp_lt_gt x y Exy). simpl. rewrite ?Exz, ?Eyz. apply F2ceq_refl.
        * rewrite (cmp_gt_lt x y Exy). simpl. rewrite ?Exz, ?Eyz. apply F2ceq_refl.
      + (* y = z, x < z *)
        destruct (cmp x y) eqn:Exy.
        * rewrite (ceq_sym x y Exy). constructor; [exact Exy | constructor; [apply ceq_sym; exact Exy | apply F2ceq_refl]].
        * rewrite (cmp_lt_gt x y Exy). simpl. rewrite ?Exz, ?Eyz. apply F2ceq_refl.
        * rewrite (cmp_gt_lt x y Exy). simpl. rewrite ?Exz, ?Eyz. apply F2ceq_refl.
      + (* y = z, x > z: x > y *)
        assert (Exy : cmp x y = Gt) by (apply (gt_of_gt_ngt x y z Exz); rewrite Eyz; discriminate).
        rewrite Exy. simpl. rewrite ?Exz, ?Eyz. apply F2ceq_refl.
      + destruct (cmp x y) eqn:Exy.
        * rewrite (ceq_sym x y Exy). constructor; [exact Exy | constructor; [apply ceq_sym; exact Exy | apply F2ceq_refl]].
        * rewrite (cmp_lt_gt x y Exy). simpl. rewrite ?Exz, ?Eyz. apply F2ceq_refl.
        * rewrite (cmp_gt_lt x y Exy). simpl. rewrite ?Exz, ?Eyz. apply F2ceq_refl.
      + destruct (cmp x y) eqn:Exy.
        * rewrite (ceq_sym x y Exy). constructor; [exact Exy | constructor; [apply ceq_sym; exact Exy | apply F2ceq_refl]].
        * rewrite (cmp_lt_gt x y Exy). simpl. rewrite ?Exz, ?Eyz. apply F2ceq_refl.
        * rewrite (cmp_gt_lt x y Exy). simpl. rewrite ?Exz, ?Eyz. apply F2ceq_refl.
      + assert (Exy : cmp x y = Gt) by (apply (gt_of_gt_ngt x y z Exz); rewrite Eyz; discriminate).
        rewrite Exy. simpl. rewrite ?Exz, ?Eyz. apply F2ceq_refl.
      + (* y > z, x = z: y > x *)
        assert (Eyx : cmp y x = Gt) by (apply (gt_of_gt_ngt y x z Eyz); rewrite Exz; discriminate).
        rewrite Eyx. simpl. rewrite ?Exz, ?Eyz. apply F2ceq_refl.
      + assert (Eyx : cmp y x = Gt) by (apply (gt_of_gt_ngt y x z Eyz); rewrite Exz; discriminate).
        rewrite Eyx. simpl. rewrite ?Exz, ?Eyz. apply F2ceq_refl.
      + (* both greater *)
        constructor; [apply ceq_refl | exact IH].
  Qed.

  Lemma isort_perm_eq : forall l l', Permutation l l' -> Forall2 ceq (isort cmp l) (isort cmp l').
  Proof.
    induction 1.
    - constructor.
    - unfold isort in *. simpl. apply insert_respects; [apply ceq_refl | assumption].
    - unfold isort. simpl. apply insert_comm.
    - eapply F2ceq_trans; eassumption.
  Qed.

  Lemma dedupe_from_respects : forall l l' f f', ceq f f' -> Forall2 ceq l l' ->
                                                 Forall2 ceq (dedupe_from cmp f l) (dedupe_from cmp f' l').
  Proof.
    intros l l' f f' Hf HF. revert f f' Hf. induction HF as [|y y' r r' Hy HF IH]; intros f f' Hf; simpl; [constructor|].
    rewrite <- (cmp_respects f f' y y' Hf Hy). destruct (is_eq (cmp f y)).
    - apply IH; exact Hf.
    - constructor; [exact Hy | apply IH; exact Hy].
  Qed.

  Lemma dedupe_respects : forall l l', Forall2 ceq l l' -> Forall2 ceq (dedupe cmp l) (dedupe cmp l').
  Proof.
    intros l l' HF. destruct HF as [|x x' r r' Hx HF]; simpl; [constructor|].
    constructor; [exact Hx | apply dedupe_from_respects; assumption].
  Qed.
End Sort.

(* Proofs/C01LibInstance.v -- the class set of the generated tables (Gen/Tables.v, from /repo) that
   the round-trip theorem covers, evaluated by the kernel on every build.            *)
From Coq Require Import NArith ZArith List String Bool.
From V Require Import Base.UString Base.Json Model.SchemaTypes Model.PyBase Model.Schema.
From V Require Import Proofs.C01Roundtrip Proofs.C01Parse Proofs.C01Bundle Proofs.C01Observed Gen.Tables.
Import ListNotations.

Definition lib_proved_ids : list ustring := Eval vm_compute in proved_ids variant_repaired lib.

Lemma lib_proved_ids_eq : proved_ids variant_repaired lib = lib_proved_ids.
Proof. vm_compute. reflexivity. Qed.

Lemma lib_proved_closed : closed_ok variant_repaired lib lib_proved_ids = true.
Proof. vm_compute. reflexivity. Qed.

(* ... and with the wrapping __init__ forms (MarkingDefinition) admitted: the set of the constructor-level round trip *)
Definition lib_proved_idsw : list ustring := Eval vm_compute in proved_idsw variant_repaired lib.

Lemma lib_proved_closedw : closed_okw variant_repaired lib lib_proved_idsw = true.
Proof. vm_compute. reflexivity. Qed.

Lemma lib_proved_sub : forallb (fun k => mem_ustr k lib_proved_idsw) lib_proved_ids = true.
Proof. vm_compute. reflexivity. Qed.

Definition lib_unproved_ids0 : list ustring :=
  Eval vm_compute in filter (fun x => negb (mem_ustr x lib_proved_idsw)) (map cid (wclasses lib)).

(* how many of the classes are covered; the check prints both lists into the evidence *)
Definition lib_coverage0 : nat * nat := Eval vm_compute in (List.length lib_proved_idsw, List.length (wclasses lib)).

(* parse entry points: the proved classes whose tables also pass parse_class_ok *)
Definition lib_parse_ids : list ustring :=
  Eval vm_compute in filter (fun k => match find_class (wclasses lib) k with Some c => parse_class_ok lib c | None => false end) lib_proved_ids.

Lemma lib_parse_sub : forallb (fun k => mem_ustr k lib_proved_ids) lib_parse_ids = true.
Proof. vm_compute. reflexivity. Qed.

Lemma lib_parse_ok : forallb (fun k => match find_class (wclasses lib) k with Some c => parse_class_ok lib c | None => false end) lib_parse_ids = true.
Proof. vm_compute. reflexivity. Qed.

(* ... and over the wider constructor-level set (with MarkingDefinition and 2.1 Indicator) *)
Definition lib_parse_idsw : list ustring :=
  Eval vm_compute in filter (fun k => match find_class (wclasses lib) k with Some c => parse_class_ok lib c | None => false end) lib_proved_idsw.

Lemma lib_parse_subw : forallb (fun k => mem_ustr k lib_proved_idsw) lib_parse_idsw = true.
Proof. vm_compute. reflexivity. Qed.

Lemma lib_parse_okw : forallb (fun k => match find_class (wclasses lib) k with Some c => parse_class_ok lib c | None => false end) lib_parse_idsw = true.
Proof. vm_compute. reflexivity. Qed.

(* ... and the set of the C04 theorems: plain __init__ forms and the 2.1 Indicator one *)
Definition lib_proved_idsi : list ustring := Eval vm_compute in proved_idsi variant_repaired lib.

Lemma lib_proved_closedi : closed_oki variant_repaired lib lib_proved_idsi = true.
Proof. vm_compute. reflexivity. Qed.

Definition lib_parse_idsi : list ustring :=
  Eval vm_compute in filter (fun k => match find_class (wclasses lib) k with Some c => parse_class_ok lib c | None => false end) lib_proved_idsi.

Lemma lib_parse_subi : forallb (fun k => mem_ustr k lib_proved_idsi) lib_parse_idsi = true.
Proof. vm_compute. reflexivity. Qed.

Lemma lib_parse_oki : forallb (fun k => match find_class (wclasses lib) k with Some c => parse_class_ok lib c | None => false end) lib_parse_idsi = true.
Proof. vm_compute. reflexivity. Qed.

Lemma lib_registry_ok : registry_ok lib = true.
Proof. vm_compute. reflexivity. Qed.

(* the Bundle classes the Bundle theorem covers (Proofs/C01Bundle.v: bundle_ok, members through the parse-level theorem) *)
Definition lib_bundle_ids : list ustring :=
  Eval vm_compute in filter (fun k => match find_class (wclasses lib) k with
                                      | Some c => bundle_ok variant_repaired lib lib_proved_ids c
                                      | None => false
                                      end) (map cid (wclasses lib)).

Lemma lib_bundle_okb : forallb (fun k => match find_class (wclasses lib) k with
                                         | Some c => bundle_ok variant_repaired lib lib_proved_ids c
                                         | None => false
                                         end) lib_bundle_ids = true.
Proof. vm_compute. reflexivity. Qed.

(* ... and over the wider sets: members may be of any class of lib_parse_idsw (incl. MarkingDefinition, 2.1 Indicator) *)
Lemma lib_bundle_okbw : forallb (fun k => match find_class (wclasses lib) k with
                                          | Some c => bundle_ok variant_repaired lib lib_proved_idsw c
                                          | None => false
                                          end) lib_bundle_ids = true.
Proof. vm_compute. reflexivity. Qed.

(* ObservedData in its 2.1 form (no `objects` member): Proofs/C01Observed.v *)
Definition lib_observed_ids : list ustring :=
  Eval vm_compute in filter (fun k => match find_class (wclasses lib) k with
                                      | Some c => observed_ok variant_repaired lib lib_proved_idsw c
                                      | None => false
                                      end) (filter (fun x => negb (mem_ustr x lib_bundle_ids)) lib_unproved_ids0).

Lemma lib_observed_okb : forallb (fun k => match find_class (wclasses lib) k with
                                           | Some c => observed_ok variant_repaired lib lib_proved_idsw c
                                           | None => false
                                           end) lib_observed_ids = true.
Proof. vm_compute. reflexivity. Qed.

(* ObservedData in its 2.0 form (an `objects` dictionary of observables): Proofs/C01Observed.v, observed20_roundtrip *)
Definition lib_observed20_ids : list ustring :=
  Eval vm_compute in filter (fun k => match find_class (wclasses lib) k with
                                      | Some c => observed20_ok variant_repaired lib lib_proved_idsw c
                                      | None => false
                                      end) (filter (fun x => negb (mem_ustr x lib_bundle_ids)) lib_unproved_ids0).

Lemma lib_observed20_okb : forallb (fun k => match find_class (wclasses lib) k with
                                             | Some c => observed20_ok variant_repaired lib lib_proved_idsw c
                                             | None => false
                                             end) lib_observed20_ids = true.
Proof. vm_compute. reflexivity. Qed.

(* classes covered by neither theorem *)
Definition lib_unproved_ids : list ustring :=
  Eval vm_compute in filter (fun x => negb (mem_ustr x lib_bundle_ids) && negb (mem_ustr x lib_observed_ids) && negb (mem_ustr x lib_observed20_ids)) lib_unproved_ids0.

Definition lib_coverage : nat * nat :=
  Eval vm_compute in (List.length lib_proved_idsw + List.length lib_bundle_ids, List.length (wclasses lib))%nat.

(* Proofs/C01Basics.v -- induction principle for Schema.pval, facts about the
   association-list helpers of Model/Schema.v and about the stable sorts of
   Model/Serialize.v.  Used by the C01 and C04 proofs.                        *)
From Coq Require Import NArith ZArith List String Bool Lia Permutation Sorted.
From V Require Import Base.UString Base.Json Model.SchemaTypes Model.PyBase Model.Schema Model.Serialize.
Import ListNotations.

(* ------------------------------------------------------------------ ustr_eqb *)
Lemma ustr_eqb_refl : forall a, ustr_eqb a a = true.
Proof. induction a; simpl; auto. rewrite N.eqb_refl. auto. Qed.

Lemma ustr_eqb_eq : forall a b, ustr_eqb a b = true <-> a = b.
Proof.
  induction a; destruct b; simpl; split; intros H; try discriminate; auto.
  - apply andb_true_iff in H. destruct H as [H1 H2]. apply N.eqb_eq in H1. apply IHa in H2. congruence.
  - inversion H; subst. rewrite N.eqb_refl. simpl. apply IHa. reflexivity.
Qed.

Lemma ustr_eqb_neq : forall a b, ustr_eqb a b = false <-> a <> b.
Proof.
  intros a b. split; intros H.
  - intros E. apply ustr_eqb_eq in E. congruence.
  - destruct (ustr_eqb a b) eqn:E; auto. apply ustr_eqb_eq in E. contradiction.
Qed.

Lemma ustr_eqb_sym : forall a b, ustr_eqb a b = ustr_eqb b a.
Proof.
  intros a b. destruct (ustr_eqb a b) eqn:E.
  - apply ustr_eqb_eq in E. subst. symmetry. apply ustr_eqb_refl.
  - symmetry. apply ustr_eqb_neq. apply ustr_eqb_neq in E. congruence.
Qed.

Lemma mem_ustr_In : forall x l, mem_ustr x l = true <-> In x l.
Proof.
  induction l; simpl; split; intros H; try discriminate; try contradiction.
  - apply orb_true_iff in H. destruct H as [H | H].
    + left. apply ustr_eqb_eq in H. auto.
    + right. apply IHl. auto.
  - apply orb_true_iff. destruct H as [H | H].
    + left. subst. apply ustr_eqb_refl.
    + right. apply IHl. auto.
Qed.

(* ------------------------------------------------------------------ pval: nested induction *)
Section PInd.
  Variable P : pval -> Prop.
  Hypothesis Hj : forall j, P (PJ j).
  Hypothesis Ht : forall us t, P (PTime us t).
  Hypothesis Ha : forall l, Forall P l -> P (PArr l).
  Hypothesis Hm : forall m, Forall (fun kv => P (snd kv)) m -> P (PMap m).
  Hypothesis Ho : forall c inner dfl hc, Forall (fun kv => P (snd kv)) inner -> P (PObject c inner dfl hc).

  Fixpoint pval_nested_ind (v : pval) : P v :=
    match v with
    | PJ j => Hj j
    | PTime us t => Ht us t
    | PArr l => Ha l ((fix go (l : list pval) : Forall P l :=
                         match l with
                         | [] => Forall_nil _
                         | x :: xs => Forall_cons _ (pval_nested_ind x) (go xs)
                         end) l)
    | PMap m => Hm m ((fix go (m : list (ustring * pval)) : Forall (fun kv => P (snd kv)) m :=
                         match m with
                         | [] => Forall_nil _
                         | kv :: xs => Forall_cons _ (pval_nested_ind (snd kv)) (go xs)
                         end) m)
    | PObject c inner dfl hc =>
      Ho c inner dfl hc ((fix go (m : list (ustring * pval)) : Forall (fun kv => P (snd kv)) m :=
                            match m with
                            | [] => Forall_nil _
                            | kv :: xs => Forall_cons _ (pval_nested_ind (snd kv)) (go xs)
                            end) inner)
    end.
End PInd.

(* ------------------------------------------------------------------ encode, unfolded *)
Definition enc_list (incl : bool) (l : list pval) : list jvalue := map (encode incl) l.
Definition enc_members (incl : bool) (m : list (ustring * pval)) : list (ustring * jvalue) :=
  map (fun kv => (fst kv, encode incl (snd kv))) m.
Definition kept (incl : bool) (dfl : list ustring) (inner : list (ustring * pval)) : list (ustring * pval) :=
  filter (fun kv => incl || negb (mem_ustr (fst kv) dfl)) inner.

Lemma encode_arr : forall incl l, encode incl (PArr l) = JArr (enc_list incl l).
Proof.
  intros. unfold enc_list. simpl. f_equal; try reflexivity; induction l; simpl; congruence.
Qed.

Lemma encode_map : forall incl m, encode incl (PMap m) = JObj (enc_members incl m).
Proof.
  intros. unfold enc_members. simpl. f_equal; try reflexivity; induction m as [| [k x] r IH]; simpl; congruence.
Qed.

Lemma encode_obj : forall incl c inner dfl hc,
  encode incl (PObject c inner dfl hc) = JObj (enc_members incl (kept incl dfl inner)).
Proof.
  intros. unfold enc_members, kept. simpl. f_equal. induction inner as [| [k x] r IH]; simpl; auto.
  destruct (incl || negb (mem_ustr k dfl)); simpl; congruence.
Qed.

(* ------------------------------------------------------------------ association lists *)
Lemma alookup_In : forall (A : Type) k (m : list (ustring * A)) v, alookup k m = Some v -> In (k, v) m.
Proof.
  induction m as [| [k' v'] r IH]; simpl; intros v H; try discriminate.
  destruct (ustr_eqb k k') eqn:E.
  - apply ustr_eqb_eq in E. inversion H; subst. left. reflexivity.
  - right. apply IH. exact H.
Qed.

Lemma alookup_NoDup : forall (A : Type) k (v : A) m,
  NoDup (map fst m) -> In (k, v) m -> alookup k m = Some v.
Proof.
  induction m as [| [k' v'] r IH]; simpl; intros ND H; try contradiction.
  inversion ND; subst.
  destruct H as [H | H].
  - inversion H; subst. rewrite ustr_eqb_refl. reflexivity.
  - destruct (ustr_eqb k k') eqn:E.
    + apply ustr_eqb_eq in E. subst. exfalso. apply H2. apply (in_map fst) in H. exact H.
    + apply IH; auto.
Qed.

Lemma aset_keys_in : forall (A : Type) k (v : A) m, amem k m = true -> map fst (aset k v m) = map fst m.
Proof.
  unfold amem. induction m as [| [k' v'] r IH]; simpl; intros H; try discriminate.
  destruct (ustr_eqb k k') eqn:E; simpl.
  - apply ustr_eqb_eq in E. subst. reflexivity.
  - f_equal. apply IH. exact H.
Qed.

Lemma aset_keys_notin : forall (A : Type) k (v : A) m, amem k m = false -> map fst (aset k v m) = map fst m ++ [k].
Proof.
  unfold amem. induction m as [| [k' v'] r IH]; simpl; intros H; auto.
  destruct (ustr_eqb k k') eqn:E; simpl; try discriminate.
  f_equal. apply IH. exact H.
Qed.

Lemma amem_In : forall (A : Type) k (m : list (ustring * A)), amem k m = true <-> In k (map fst m).
Proof.
  unfold amem. induction m as [| [k' v'] r IH]; simpl; split; intros H; try discriminate; try contradiction.
  - destruct (ustr_eqb k k') eqn:E.
    + left. apply ustr_eqb_eq in E. auto.
    + right. apply IH. exact H.
  - destruct (ustr_eqb k k') eqn:E; auto.
    destruct H as [H | H].
    + subst. rewrite ustr_eqb_refl in E. discriminate.
    + apply IH. exact H.
Qed.

Lemma aset_NoDup : forall (A : Type) k (v : A) m, NoDup (map fst m) -> NoDup (map fst (aset k v m)).
Proof.
  intros A k v m ND. destruct (amem k m) eqn:E.
  - rewrite aset_keys_in; auto.
  - rewrite aset_keys_notin; auto.
    assert (H : ~ In k (map fst m)).
    { intros Hin. apply amem_In in Hin. congruence. }
    clear E. induction (map fst m) as [| a l IH]; simpl.
    + constructor; auto; constructor.
    + inversion ND; subst. constructor.
      * intros Hin. apply in_app_or in Hin. destruct Hin as [Hin | [Hin | []]]; auto.
        subst. apply H. left. reflexivity.
      * apply IH; auto. intros Hin. apply H. right. exact Hin.
Qed.

(* ------------------------------------------------------------------ stable sorts are permutations *)
Lemma zinsert_perm : forall (A : Type) (key : A -> Z) x l, Permutation (zinsert key x l) (x :: l).
Proof.
  induction l as [| y r IH]; simpl; auto.
  destruct (key x <=? key y)%Z; auto.
  eapply perm_trans. apply perm_skip. apply IH. apply perm_swap.
Qed.

Lemma zsort_perm : forall (A : Type) (key : A -> Z) l, Permutation (zsort key l) l.
Proof.
  induction l as [| x r IH]; simpl; auto.
  eapply perm_trans. apply zinsert_perm. apply perm_skip. exact IH.
Qed.

Lemma kinsert_perm : forall (A : Type) (x : ustring * A) l, Permutation (kinsert x l) (x :: l).
Proof.
  induction l as [| y r IH]; simpl; auto.
  destruct (ustr_ltb (fst y) (fst x)); auto.
  eapply perm_trans. apply perm_skip. apply IH. apply perm_swap.
Qed.

Lemma ksort_perm : forall (A : Type) (l : list (ustring * A)), Permutation (ksort l) l.
Proof.
  induction l as [| x r IH]; simpl; auto.
  eapply perm_trans. apply kinsert_perm. apply perm_skip. exact IH.
Qed.

(* a list whose keys are already in non-decreasing order is left alone (stability) *)
Lemma zsort_sorted_id : forall (A : Type) (key : A -> Z) l,
  Sorted (fun a b => (key a <= key b)%Z) l -> zsort key l = l.
Proof.
  induction l as [| x r IH]; simpl; intros S; auto.
  inversion S; subst. rewrite IH; auto.
  destruct r as [| y r']; simpl; auto.
  inversion H2; subst. apply Z.leb_le in H0. rewrite H0. reflexivity.
Qed.

(* Proofs/PatternPath.v -- C10: what the visitor makes of an object path.
   The tree of pathStep nodes is flattened (collapse_lists), then the while
   loop of visitObjectPath (path_loop) pairs names with index steps.          *)
From Coq Require Import NArith ZArith List String Bool Lia.
From V Require Import Model.PatternSyntax Spec.PatternSpec Proofs.PatternR Proofs.PatternNumbers Proofs.PatternLit.
Import ListNotations.
Open Scope N_scope.


(* the value a path step visits to *)
Definition step_val (s : pstep) : vres :=
  match s with
  | KeyStep n =>
      match tk n with
      | KString => VConst (CString (slice_1_m1 (tx n)) false)
      | _ => VComp (ABasic (tx n))
      end
  | IndexStep i =>
      match tk i with
      | KASTERISK => VTok i
      | _ => VConst (CInt (match py_int (tx i) with Some z => z | None => 0%Z end))
      end
  end.

Lemma step_val_not_list : forall s, match step_val s with VList _ | VNone => False | _ => True end.
Proof. intros [n|i]; cbn; [destruct (tk n)|destruct (tk i)]; exact I. Qed.

Lemma collapse_one : forall v, match v with VList _ => False | _ => True end -> collapse_lists [v] = [v].
Proof. intros v H. destruct v; try reflexivity. contradiction. Qed.

Lemma collapse_vlist : forall x, collapse_lists [VList x] = x.
Proof. intros x. cbn. apply app_nil_r. Qed.

Lemma collapse_cons : forall v r, collapse_lists (v :: r) = collapse_lists [v] ++ collapse_lists r.
Proof. intros v r. destruct v; cbn; try reflexivity. rewrite app_nil_r. reflexivity. Qed.

Lemma collapse_app : forall a b, collapse_lists (a ++ b) = collapse_lists a ++ collapse_lists b.
Proof.
  induction a as [|v a IH]; intros b; [reflexivity|].
  cbn [app]. rewrite (collapse_cons v (a ++ b)), (collapse_cons v a), IH, app_assoc. reflexivity.
Qed.

Lemma v_pstep_ok : forall s, wf_pstep s = true -> v_pstep s = Ok (step_val s).
Proof.
  intros [n|i] H; cbn [wf_pstep] in H; unfold kind_in in H; apply andb_true_iff in H; destruct H as [Hk Hok].
  - destruct n as [k s]. cbn [tk] in Hk. destruct k; cbn in Hk; try discriminate.
    + unfold token_ok in Hok. cbn [tk tx] in Hok.
      unfold PatternSyntax.v_pstep. rewrite (string_tok_visit (Tok KString s) eq_refl Hok). reflexivity.
    + reflexivity.
  - destruct i as [k s]. cbn [tk] in Hk. unfold token_ok in Hok. cbn [tk tx] in Hok.
    destruct k; cbn in Hk; try discriminate.
    + destruct (py_int_intneg s Hok) as [z Hz]. unfold PatternSyntax.v_pstep, PatternSyntax.visit_terminal, step_val. cbn [tk tx]. rewrite Hz. reflexivity.
    + destruct (py_int_intpos s Hok) as [z Hz]. unfold PatternSyntax.v_pstep, PatternSyntax.visit_terminal, step_val. cbn [tk tx]. rewrite Hz. reflexivity.
    + reflexivity.
Qed.

Lemma v_opc_ok : forall c, wf_opc c = true ->
  exists v, v_opc c = Ok v /\ collapse_lists [v] = map step_val (opc_steps c) /\ v <> VNone.
Proof.
  induction c as [s|l IH r]; intros H.
  - cbn [wf_opc] in H. exists (step_val s). cbn [PatternSyntax.v_opc opc_steps map]. split; [apply v_pstep_ok; exact H|].
    pose proof (step_val_not_list s) as Hn. split.
    + apply collapse_one. destruct (step_val s); tauto.
    + intros E. rewrite E in Hn. exact Hn.
  - cbn [wf_opc] in H. apply andb_true_iff in H. destruct H as [Hl Hr].
    destruct (IH Hl) as [vl [El [Cl Nl]]].
    exists (VList (collapse_lists [vl; step_val r])).
    split; [|split; [|discriminate]].
    + cbn [PatternSyntax.v_opc]. rewrite El, (v_pstep_ok r Hr).
      unfold visit_children. cbn [seq_results bind].
      destruct vl; try (exfalso; apply Nl; reflexivity); reflexivity.
    + rewrite collapse_vlist.
      rewrite (collapse_cons vl [step_val r]), Cl.
      cbn [opc_steps]. rewrite map_app. cbn [map]. f_equal.
      apply collapse_one. pose proof (step_val_not_list r). destruct (step_val r); tauto.
Qed.

(* what visitObjectPath computes, on the flattened list of step values.  A
   quoted first component keeps its quotes in the name (str() of the
   StringConstant), so the first value is a basic component in both cases. *)
Definition sv_path (p : objpath) : result apath :=
  pp <- path_loop (VComp (ABasic (tx (op_first p))) :: map step_val (path_steps p)) ;;
  comps <- create_components pp ;;
  Ok (APath (tx (op_type p)) comps).

Lemma quoted_text : forall s, string_ok s = true -> [c_quote] ++ slice_1_m1 s ++ [c_quote] = s.
Proof.
  intros s H. destruct (string_ok_shape s H) as [body [E _]]. subst s.
  rewrite slice_1_m1_quoted. reflexivity.
Qed.

Lemma v_first_ok : forall t, kind_in t [KIdent; KString] = true ->
  (cs' <- visit_children [visit_terminal t] ;; m_first_component cs') = Ok (VComp (ABasic (tx t))).
Proof.
  intros [k s] H. unfold kind_in in H. apply andb_true_iff in H. destruct H as [Hk Hok].
  cbn [tk] in Hk. destruct k; cbn in Hk; try discriminate.
  - unfold token_ok in Hok. cbn [tk tx] in Hok.
    rewrite (string_tok_visit (Tok KString s) eq_refl Hok).
    cbn. unfold PatternSyntax.str_const, print_string_const. cbn. rewrite app_nil_r.
    pose proof (quoted_text s Hok) as Q. cbn in Q. rewrite Q. reflexivity.
  - reflexivity.
Qed.

Lemma v_type_ok : forall t, kind_in t [KIdent; KIdentHyphen] = true ->
  (cs' <- visit_children [visit_terminal t] ;; m_first cs') = Ok (VTok t).
Proof.
  intros [k s] H. unfold kind_in in H. apply andb_true_iff in H. destruct H as [Hk _].
  cbn [tk] in Hk. destruct k; cbn in Hk; try discriminate; reflexivity.
Qed.

Lemma v_path_ok : forall p, wf_path p = true -> v_path p = (ap <- sv_path p ;; Ok (VPath ap)).
Proof.
  intros [ty first rest] H. unfold wf_path in H. cbn [op_type op_first op_rest] in H.
  apply andb_true_iff in H. destruct H as [H Hr]. apply andb_true_iff in H. destruct H as [Hty Hf].
  unfold PatternSyntax.v_path, sv_path, path_steps. cbn [op_type op_first op_rest].
  rewrite (v_type_ok ty Hty), (v_first_ok first Hf).
  destruct rest as [c|].
  - destruct (v_opc_ok c Hr) as [v [Ev [Cv Nv]]]. cbn [app]. rewrite Ev.
    unfold visit_children. cbn [seq_results bind tokv aggregate].
    unfold PatternSyntax.m_object_path. cbn [skipn].
    rewrite (collapse_cons (VComp (ABasic (tx first))) [v]), Cv. cbn [collapse_lists app].
    destruct (path_loop _) as [pp|e]; [|reflexivity]. cbn [bind child nth_error as_tok].
    destruct (create_components pp); reflexivity.
  - cbn [app]. unfold visit_children. cbn [seq_results bind tokv aggregate].
    unfold PatternSyntax.m_object_path. cbn [skipn collapse_lists map].
    destruct (path_loop _) as [pp|e]; [|reflexivity]. cbn [bind child nth_error as_tok].
    destruct (create_components pp); reflexivity.
Qed.

(* ------------------------------------------------------------------ *)
(** * The property path, explicitly *)


Definition pend_val (c : pending) : vres :=
  match c with PName n => VComp (ABasic n) | PStr b => VConst (CString b false) end.


(* the side condition on a path (beyond wf): no index step directly after an
   index step (finding C10-index-after-index-attributeerror) *)


Lemma step_val_key : forall n, step_val (KeyStep n) = pend_val (pend_of_key n).
Proof. intros n. unfold step_val, pend_of_key. destruct (tk n); reflexivity. Qed.

Lemma create_emit : forall c, create_component (pend_val c) = Ok (emit c).
Proof. intros [n|b]; reflexivity. Qed.

Lemma loop_comps : forall l cur, comps_sem cur l = true ->
  (pp <- path_loop (pend_val cur :: map step_val l) ;; create_components pp) = Ok (comps cur l).
Proof.
  fix IH 1. intros l cur H. destruct l as [|s r].
  - cbn [map PatternSyntax.path_loop bind create_components]. rewrite create_emit. reflexivity.
  - destruct s as [n|i].
    + (* key step: emit cur, continue *)
      cbn [comps_sem] in H.
      cbn [map comps]. rewrite step_val_key.
      specialize (IH r (pend_of_key n) H).
      assert (E : path_loop (pend_val cur :: pend_val (pend_of_key n) :: map step_val r) =
                  (r0 <- path_loop (pend_val (pend_of_key n) :: map step_val r) ;; Ok (pend_val cur :: r0))).
      { cbn [PatternSyntax.path_loop]. destruct (pend_of_key n); reflexivity. }
      rewrite E. destruct (path_loop (pend_val (pend_of_key n) :: map step_val r)) as [pp|e]; [|discriminate].
      cbn [bind] in IH |- *. cbn [create_components]. rewrite create_emit. cbn [bind]. rewrite IH. reflexivity.
    + (* index step: merge with cur *)
      cbn [comps_sem] in H.
      cbn [map comps].
      assert (E : path_loop (pend_val cur :: step_val (IndexStep i) :: map step_val r) =
                  (r0 <- path_loop (map step_val r) ;; Ok (VComp (AList (idx_name cur) (idx_of i)) :: r0))).
      { unfold step_val, idx_of. destruct cur as [n|b];
          destruct (tk i); cbn [PatternSyntax.path_loop pend_val PatternSyntax.py_str bind idx_name star_quoted repaired];
            destruct (path_loop (map step_val r)); reflexivity. }
      rewrite E. clear E.
      destruct r as [|s' r'].
      * cbn [map PatternSyntax.path_loop bind create_components create_component]. reflexivity.
      * destruct s' as [n'|i']; [|discriminate H].
        specialize (IH r' (pend_of_key n') H).
        cbn [map]. rewrite step_val_key.
        destruct (path_loop (pend_val (pend_of_key n') :: map step_val r')) as [pp|e]; [|discriminate].
        cbn [bind] in IH |- *. cbn [create_components create_component]. cbn [bind]. rewrite IH. reflexivity.
Qed.


Lemma sv_path_ok : forall p, path_sem p = true -> sv_path p = Ok (sv_path_v p).
Proof.
  intros p H. unfold sv_path, sv_path_v, path_sem in *.
  pose proof (loop_comps (path_steps p) (PName (tx (op_first p))) H) as L. cbn [pend_val] in L.
  destruct (path_loop _) as [pp|e]; [|discriminate]. cbn [bind] in L |- *. rewrite L. reflexivity.
Qed.

Lemma v_path_value : forall p, wf_path p = true -> path_sem p = true -> v_path p = Ok (VPath (sv_path_v p)).
Proof. intros p Hw Hs. rewrite (v_path_ok p Hw), (sv_path_ok p Hs). reflexivity. Qed.

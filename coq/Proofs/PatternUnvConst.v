(* Proofs/PatternUnvConst.v -- C10: constants and paths of the object model and
   the tokens / path steps `unvisit` gives them: lexical class, meaning, and
   (for values of the shape the visitor produces) what the visitor reads back. *)
From Coq Require Import NArith ZArith List String Bool Lia.
From V Require Import Model.PatternSyntax Spec.PatternSpec Proofs.PatternR Proofs.PatternNumbers Proofs.PatternLit Proofs.PatternPath
  Proofs.PatternCmp Proofs.PatternObs Proofs.PatternEscape Proofs.PatternTokens Proofs.PatternMeaning.
Import ListNotations.
Open Scope N_scope.

Lemma ustr_eqb_eq : forall a b, ustr_eqb a b = true <-> a = b.
Proof.
  induction a as [|x a IH]; intros [|y b]; cbn [ustr_eqb]; split; intros H; try discriminate; try reflexivity.
  - apply andb_true_iff in H. destruct H as [H1 H2]. apply N.eqb_eq in H1. apply IH in H2. subst. reflexivity.
  - inversion H; subst. rewrite N.eqb_refl. cbn. apply IH. reflexivity.
Qed.

Lemma ustr_eqb_refl : forall a, ustr_eqb a a = true.
Proof. intros a. apply ustr_eqb_eq. reflexivity. Qed.

(* ------------------------------------------------------------------ *)
(** * Constants *)


Lemma fnorm_b_spec : forall f, fnorm_b f = true <-> fnorm f.
Proof.
  intros f. unfold fnorm_b, fnorm. rewrite !andb_true_iff, !ustr_eqb_eq. tauto.
Qed.

(* a constant that prints to one token of the grammar (lists are handled by the set literal) *)

(* the constant is of the shape the visitor produces (string bodies kept raw) *)

Definition const_tok (c : aconst) : token :=
  match pr_const c with [T t] => t | _ => t_EOF end.

Lemma tok_of_const_leaf : forall c, const_ok c = true -> tok_of_const c = Some (const_tok c).
Proof. intros c H. unfold PatternSyntax.tok_of_const, const_tok. destruct c; try reflexivity. discriminate H. Qed.

Lemma string_token_ok : forall body, lex_body body <> None -> string_ok (c_quote :: body ++ [c_quote]) = true.
Proof.
  intros body H. unfold string_ok, lex_string. change (c_quote =? c_quote) with true. cbn iota.
  rewrite rev_app_distr. cbn [rev List.app]. change (c_quote =? c_quote) with true. cbn iota.
  rewrite rev_involutive. destruct (lex_body body); [reflexivity|congruence].
Qed.

Lemma prefixed_body_make : forall letter b, prefixed_body letter (letter :: c_quote :: b ++ [c_quote]) = Some b.
Proof.
  intros letter b. unfold prefixed_body. rewrite N.eqb_refl. change (c_quote =? c_quote) with true.
  unfold last_is. rewrite last_last, removelast_last. change (c_quote =? c_quote) with true. reflexivity.
Qed.

Definition kinds_of (c : aconst) : list tkind :=
  match c with
  | CString _ _ => [KString] | CTimestamp _ => [KTimestamp] | CInt _ => [KIntPos; KIntNeg]
  | CFloat _ => [KFloatPos; KFloatNeg] | CBool _ => [KBool] | CBinary _ => [KBinary] | CHex _ => [KHex]
  | CList _ => []
  end.

Lemma kind_in_make : forall t ks, existsb (tkind_eqb (tk t)) ks = true -> token_ok t = true -> kind_in t ks = true.
Proof. intros t ks H1 H2. unfold kind_in. rewrite H1, H2. reflexivity. Qed.

(* the token of a constant: lexical class, what the visitor needs, and what it reads back *)
Lemma const_token : forall c, const_ok c = true ->
  kind_in (const_tok c) (kinds_of c) = true /\ lit_sem (const_tok c) = true /\
  match c with
  | CString v true => sv_lit (const_tok c) = CString (escape v) false
  | _ => sv_lit (const_tok c) = c
  end.
Proof.
  intros c H. destruct c as [v q|t|z|f|b|v|v|l]; cbn [const_ok] in H; unfold const_tok; cbn [PatternSyntax.pr_const kinds_of].
  - (* string *)
    assert (L : lex_body (if q then escape v else v) <> None).
    { destruct q; [rewrite lex_body_escape; discriminate|]. cbn [orb] in H. destruct (lex_body v); [discriminate|discriminate]. }
    pose proof (string_token_ok _ L) as S. unfold print_string_const. cbn [List.app].
    split; [apply kind_in_make; [reflexivity|exact S]|]. split; [reflexivity|].
    destruct q; unfold sv_lit; rewrite (string_tok_visit (Tok KString _) eq_refl S); cbn [tx]; rewrite slice_1_m1_quoted; reflexivity.
  - (* timestamp *)
    destruct (ts_token_ok t H) as [T1 T2].
    split; [apply kind_in_make; [reflexivity|exact T1]|].
    split; [unfold lit_sem; cbn [tk tx]; rewrite T2; reflexivity|].
    unfold sv_lit, PatternSyntax.visit_terminal. cbn [tk tx]. rewrite print_ts_body. change (116 =? 116) with true. cbn iota.
    rewrite print_ts_body in T2. rewrite T2. reflexivity.
  - (* int *)
    destruct (int_tok_kind z) as [K O]. fold (int_tok z).
    split; [apply kind_in_make; [destruct K as [K|K]; rewrite K; reflexivity|exact O]|].
    split; [destruct K as [K|K]; unfold lit_sem; rewrite K; reflexivity|].
    unfold sv_lit, PatternSyntax.visit_terminal. destruct K as [K|K]; rewrite K; unfold int_tok; cbn [tx]; rewrite py_int_dec; reflexivity.
  - (* float *)
    apply andb_true_iff in H. destruct H as [H Hsh].
    pose proof (proj1 (fnorm_b_spec f) H) as Hn.
    destruct (float_print_parse f Hn) as [P [K O]]. fold (float_tok f).
    split; [apply kind_in_make; [destruct K as [K|K]; rewrite K; reflexivity|exact O]|].
    split; [destruct K as [K|K]; unfold lit_sem; rewrite K; unfold float_tok; cbn [tx]; rewrite P; exact Hsh|].
    unfold sv_lit, PatternSyntax.visit_terminal. destruct K as [K|K]; rewrite K; unfold float_tok; cbn [tx]; rewrite P; reflexivity.
  - (* bool *)
    split; [apply kind_in_make; [reflexivity|destruct b; reflexivity]|]. split; [reflexivity|]. destruct b; reflexivity.
  - (* binary *)
    assert (E : u "b'" ++ v ++ [c_quote] = 98 :: c_quote :: v ++ [c_quote]) by reflexivity. rewrite E.
    split; [apply kind_in_make; [reflexivity|]|].
    + unfold token_ok, binary_ok. cbn [tk tx]. rewrite prefixed_body_make. exact H.
    + split; [reflexivity|]. unfold sv_lit, PatternSyntax.visit_terminal, mk_binary_from_tree. cbn [tk tx bind].
      rewrite prefixed_body_make, H. reflexivity.
  - (* hex *)
    assert (E : u "h'" ++ v ++ [c_quote] = 104 :: c_quote :: v ++ [c_quote]) by reflexivity. rewrite E.
    split; [apply kind_in_make; [reflexivity|]|].
    + unfold token_ok, hex_ok. cbn [tk tx]. rewrite prefixed_body_make. exact H.
    + split; [reflexivity|].
      unfold sv_lit, PatternSyntax.visit_terminal. cbn [tk tx]. rewrite mk_hex_rep, prefixed_body_make, H. reflexivity.
  - discriminate H.
Qed.

Lemma kinds_primitive : forall c t, kind_in t (kinds_of c) = true -> kind_in t primitive_kinds = true.
Proof.
  intros c t H. apply (kind_in_weaken _ _ _ H). intros k.
  destruct c; destruct k; cbn; intros E; try discriminate; reflexivity.
Qed.

Lemma kinds_orderable : forall c t, (match c with CBool _ => False | _ => True end) ->
  kind_in t (kinds_of c) = true -> kind_in t orderable_kinds = true.
Proof.
  intros c t Hc H. apply (kind_in_weaken _ _ _ H). intros k.
  destruct c; try contradiction; destruct k; cbn; intros E; try discriminate; reflexivity.
Qed.

(* meaning of the token = meaning of the constant *)
Lemma const_meaning : forall c, const_ok c = true -> m_tok (const_tok c) = ma_const c.
Proof.
  intros c H. destruct (const_token c H) as [K [S V]].
  rewrite <- (lit_meaning _ (kinds_primitive c _ K) S).
  destruct c as [v [|]|t|z|f|b|v|v|l]; try (rewrite V; reflexivity).
  rewrite V. cbn [ma_const]. rewrite unescape_escape. reflexivity.
Qed.

(* Proofs/C04Parse.v -- the C04 theorems at the level of stix2.parse (no version named), for the parse entry
   points `pids` of the parse-level round trip (Proofs/C01Parse.v):
     flag_iff_strict_reparse   an allow_custom=True parse returns flag false  <->  the allow_custom=False parse of the
                               object's own encoding succeeds
     strict_custom_free        what an allow_custom=False parse returns is custom-free at every depth (Spec/CustomFree.v)
   A parse of a covered class is a constructor run of that class (parse_inv / parse_intro), so these are the
   constructor-level theorems (Proofs/C04Flag.v, C04CustomFree.v) composed with the parse-level round trip.     *)
From Coq Require Import NArith ZArith List String Bool Lia.
From V Require Import Base.UString Base.Json Model.SchemaTypes Model.PyBase Model.Schema.
From V Require Import Proofs.C01Basics Proofs.C01Kinds Proofs.C01KindsAll Proofs.C01Object Proofs.C01Roundtrip Proofs.C01Parse
  Proofs.C04Strict Proofs.C04Modes Proofs.C04Flag Spec.CustomFree Proofs.C04CustomFree.
Import ListNotations.

Section P.
  Variable vr : variant.
  Variable ev : env.
  Variable w : world.
  Variable pattern_ok : ver -> ustring -> bool.
  Variable selectors_ok : list (ustring * pval) -> pval -> result bool.
  Hypothesis Hpad : vr_year_pad vr = true.
  Hypothesis Hflip : vr_ref_flip_unreg vr = true.
  Variable ids : list ustring.
  Hypothesis Hclosed : closed_oki vr w ids = true.
  Hypothesis Hreg : registry_ok w = true.
  Variable pids : list ustring.
  Hypothesis Hsub : forallb (fun k => mem_ustr k ids) pids = true.
  Hypothesis Hpc : forallb (fun k => match find_class (wclasses w) k with Some c => parse_class_ok w c | None => false end) pids = true.

  Notation RUN := (run vr ev w pattern_ok selectors_ok).

  Lemma pids_ids : forall ci, mem_ustr ci pids = true -> mem_ustr ci ids = true.
  Proof. intros ci H. rewrite forallb_forall in Hsub. apply Hsub. apply mem_ustr_In. exact H. Qed.

  Theorem flag_iff_strict_reparse_parse : forall fuel interop d ci Sv dfl hc,
    plain_dict d = true -> mem_ustr ci pids = true ->
    (amem id_key d = true \/ forall t, alookup type_key d = Some (JStr t) -> amem t (robservables (wreg21 w)) = false) ->
    RUN fuel (RParse true interop None d) = Ok (PObject ci Sv dfl hc) ->
    (hc = false <-> exists o', RUN fuel (RParse false interop None (omem (PObject ci Sv dfl hc))) = Ok o').
  Proof.
    intros fuel interop d ci Sv dfl hc Hp Hmp Hid H.
    destruct fuel as [| f]; [cbn [run] in H; discriminate |].
    destruct (parse_roundtrip_full vr ev w pattern_ok selectors_ok Hpad ids (closed_oki_weaken vr w ids Hclosed) Hreg pids Hsub Hpc (S f) true interop d ci Sv dfl hc
                Hp Hmp Hid H) as [R1 [Hpl _]].
    set (o := PObject ci Sv dfl hc) in *.
    destruct (parse_inv vr ev w pattern_ok selectors_ok pids f true interop (omem o) ci Sv dfl hc Hmp R1) as [t [vv [Ety [Edet [Ecf Er]]]]].
    fold o in Er. pose proof (pids_ids ci Hmp) as Hm.
    split.
    - intros Hh. exists o.
      assert (Hs : RUN f (RConstruct ci false interop (omem o) None) = Ok o).
      { apply (run_mode vr ev w pattern_ok selectors_ok Hflip ids Hclosed f ci true false interop (omem o) None o Hm Hpl Er).
        unfold o. cbn [pval_has_custom]. exact Hh. }
      apply (parse_intro vr ev w pattern_ok selectors_ok f false interop (omem o) t vv ci o Ety Edet Ecf Hs).
      unfold o. cbn [pval_has_custom]. rewrite Hh. apply andb_false_r.
    - intros [o' Hs].
      pose proof (parse_inv2 vr ev w pattern_ok selectors_ok f false interop (omem o) t vv ci o' Ety Edet Ecf Hs) as Hc.
      pose proof (strict_construct_flag_plain vr ev w pattern_ok selectors_ok f ci interop (omem o) None o' Hpl Hc) as Hh'.
      pose proof (run_mode vr ev w pattern_ok selectors_ok Hflip ids Hclosed f ci false true interop (omem o) None o' Hm Hpl Hc Hh') as Ha.
      rewrite Er in Ha. inversion Ha. subst o'. unfold o in Hh'. cbn [pval_has_custom] in Hh'. exact Hh'.
  Qed.

  Theorem strict_custom_free_parse : forall f interop d ci Sv dfl hc,
    plain_dict d = true -> mem_ustr ci pids = true ->
    RUN (S f) (RParse false interop None d) = Ok (PObject ci Sv dfl hc) ->
    cf_obj w f ci (PObject ci Sv dfl hc) = true.
  Proof.
    intros f interop d ci Sv dfl hc Hp Hmp H.
    destruct (parse_inv vr ev w pattern_ok selectors_ok pids f false interop d ci Sv dfl hc Hmp H) as [t [vv [_ [_ [_ Er]]]]].
    exact (run_strict_custom_free vr ev w pattern_ok selectors_ok ids Hclosed f ci interop d None _ (pids_ids ci Hmp) Hp Er).
  Qed.
End P.

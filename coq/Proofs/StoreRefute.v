(* Proofs/StoreRefute.v -- what the stores do outside the domain of the
   refinement theorems: concrete histories, evaluated by the kernel
   (property C11).                                                            *)
From Coq Require Import NArith ZArith List Bool String.
From V Require Import Base.UString Model.Store Model.StoreRun Model.StoreCases Spec.StoreSpec.
Import ListNotations.
Open Scope list_scope.

Definition w_id : ustring := u "x-unreg--00000001-0000-4000-8000-000000000001".
Definition w_ty : ustring := u "x-unreg".
Definition w_t0 : ustring := u "2020-01-01T00:00:00Z".
Definition w_t1 : ustring := u "2020-01-01T00:00:00.5Z".
(* parse_into_datetime on the two texts of the witness *)
Definition w_iot : ustring -> option Z := inst_tbl [(w_t0, 1577836800000000%Z); (w_t1, 1577836800500000%Z)].
Definition w_a : obj := mkObj w_id w_ty (VText w_t0) (VInst 1420070400000000%Z) 1 [].
Definition w_b : obj := mkObj w_id w_ty (VText w_t1) (VInst 1420070400000000%Z) 2 [].

(* the instant a `modified` value denotes *)
Definition vinst (iot : ustring -> option Z) (k : vkey) : option Z :=
  match k with VInst t => Some t | VNaive t => Some t | VText s => iot s | VNone => None end.

(* text-ordered `modified` of dictionary-kept content: both stores return the
   EARLIER version as the latest *)
Lemma latest_text_refuted_l :
  mem_get [] w_id (mem_run TextOrder w_iot [w_a; w_b]) = Some w_a /\
  fs_get [] w_id (fs_run TextOrder w_iot ts2fn_dec [w_a; w_b]) = Ok (Some w_a) /\
  In w_b [w_a; w_b] /\ oid w_b = w_id /\
  vinst w_iot (omod w_a) = Some 1577836800000000%Z /\ vinst w_iot (omod w_b) = Some 1577836800500000%Z.
Proof. vm_compute. repeat split; auto. Qed.

(* the repaired reading (timestamp text counts as the instant it denotes): the later one *)
Lemma latest_text_chrono_l :
  mem_get [] w_id (mem_run Chrono w_iot [w_a; w_b]) = Some (norm_obj Chrono w_iot w_b) /\
  fs_get [] w_id (fs_run Chrono w_iot ts2fn_dec [w_a; w_b]) = Ok (Some (norm_obj Chrono w_iot w_b)).
Proof. vm_compute. auto. Qed.

(* a version built from a timezone-naive datetime next to an aware one *)
Definition n_id : ustring := u "identity--00000001-0000-4000-8000-000000000001".
Definition n_ty : ustring := u "identity".
Definition n_a : obj := mkObj n_id n_ty (VInst 1577836800000000%Z) (VInst 1420070400000000%Z) 1 [].
Definition n_b : obj := mkObj n_id n_ty (VNaive 1577836801000000%Z) (VInst 1420070400000000%Z) 2 [].

Lemma naive_refuted_l : forall mode iot,
  mem_outcomes mode iot [n_a; n_b] [] = [None; Some EType] /\
  mem_all [] n_id (mem_run mode iot [n_a; n_b]) = [n_a; n_b] /\
  mem_get [] n_id (mem_run mode iot [n_a; n_b]) = Some n_a /\
  fs_outcomes mode iot ts2fn_dec [n_a; n_b] [] = [None; None] /\
  fs_get [] n_id (fs_run mode iot ts2fn_dec [n_a; n_b]) = Ok (Some (aware_obj n_b)).
Proof. intros [|] iot; vm_compute; repeat split; reflexivity. Qed.

(* an id used both with and without `modified` (outside the domain: `uniform`):
   the memory store drops every version without an exception, the filesystem
   store keeps all and its lookup raises KeyError *)
Definition m_v1 : obj := mkObj w_id w_ty (VInst 1%Z) VNone 1 [].
Definition m_v2 : obj := mkObj w_id w_ty (VInst 2%Z) VNone 2 [].
Definition m_u : obj := mkObj w_id w_ty VNone VNone 3 [].

Lemma mixed_kind_refuted_l : forall mode iot,
  mem_outcomes mode iot [m_v1; m_v2; m_u] [] = [None; None; None] /\
  mem_objs (mem_run mode iot [m_v1; m_v2; m_u]) = [m_u] /\
  fs_outcomes mode iot ts2fn_dec [m_v1; m_v2; m_u] [] = [None; None; None] /\
  map fobj (fs_run mode iot ts2fn_dec [m_v1; m_v2; m_u]) = [m_v1; m_v2; m_u] /\
  fs_get [] w_id (fs_run mode iot ts2fn_dec [m_v1; m_v2; m_u]) = Err EKey.
Proof. intros [|] iot; vm_compute; repeat split; reflexivity. Qed.

(* re-adding an existing (id, modified) with different content: the one
   documented difference between the stores *)
Definition r_a : obj := mkObj n_id n_ty (VInst 5%Z) VNone 1 [].
Definition r_b : obj := mkObj n_id n_ty (VInst 5%Z) VNone 2 [].

Lemma readd_difference_l : forall mode iot,
  mem_outcomes mode iot [r_a; r_b] [] = [None; None] /\
  mem_get [] n_id (mem_run mode iot [r_a; r_b]) = Some r_a /\
  mem_all [] n_id (mem_run mode iot [r_a; r_b]) = [r_b] /\
  fs_outcomes mode iot ts2fn_dec [r_a; r_b] [] = [None; Some EOverwrite] /\
  fs_get [] n_id (fs_run mode iot ts2fn_dec [r_a; r_b]) = Ok (Some r_a) /\
  fs_all [] n_id (fs_run mode iot ts2fn_dec [r_a; r_b]) = [r_a].
Proof. intros [|] iot; vm_compute; repeat split; reflexivity. Qed.

(* the hypotheses of the theorems are satisfiable: a small population in the domain *)
Definition d_objs : list obj := [n_a; mkObj n_id n_ty (VInst 1577836801000000%Z) (VInst 1420070400000000%Z) 2 []; m_u].

From Coq Require Import Lia.
From V Require Import Proofs.StoreBase Proofs.StoreMem Proofs.StoreFs.

Lemma uniform_dec_list : forall L,
  forallb (fun o => forallb (fun o' => negb (ustr_eqb (oid o) (oid o')) ||
                                       Bool.eqb (is_vnone (omod o)) (is_vnone (omod o'))) L) L = true -> uniform L.
Proof.
  intros L H o o' Ho Ho' E. rewrite forallb_forall in H. specialize (H _ Ho). rewrite forallb_forall in H. specialize (H _ Ho').
  apply orb_true_iff in H. destruct H as [H|H].
  - apply negb_true_iff in H. apply s_eqb_neq in H. contradiction.
  - apply Bool.eqb_prop in H. destruct (omod o), (omod o'); simpl in H; split; intros X; try discriminate; auto.
Qed.

Lemma d_objs_ok : Forall fs_ok d_objs /\ uniform d_objs /\ NoDup (map vkey_of d_objs).
Proof.
  split; [|split].
  - repeat constructor; simpl; auto; try discriminate; intros; vm_compute; reflexivity.
  - apply uniform_dec_list. vm_compute. reflexivity.
  - repeat constructor; simpl; intros H; repeat (destruct H as [H|H]; try discriminate); auto.
Qed.

Lemma w_objs_ok : Forall fs_ok (map (norm_obj Chrono w_iot) [w_a; w_b]) /\ uniform (map (norm_obj Chrono w_iot) [w_a; w_b]).
Proof.
  split.
  - repeat constructor; simpl; auto; try discriminate; intros; vm_compute; reflexivity.
  - apply uniform_dec_list. vm_compute. reflexivity.
Qed.

Lemma inj_names : exists f : Z -> ustring, forall a b, f a = f b -> a = b.
Proof.
  exists (fun z => [Z.to_N z; Z.to_N (- z)]). intros a b H. inversion H. lia.
Qed.

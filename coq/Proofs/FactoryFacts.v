(* Proofs/FactoryFacts.v -- ObjectFactory.create (Model/Factory.v): explicit
   arguments win, defaults fill the rest, list properties are appended to the
   default (or replace it), None removes a list default.                      *)
From Coq Require Import NArith ZArith List Bool.
From V Require Import Base.UString Model.Store Model.Factory Proofs.StoreBase.
Import ListNotations.
Open Scope list_scope.

Arguments step_list : simpl never.
Notation dget := (dict_get ustr_eqb).
Notation dset := (dict_set ustr_eqb).

Lemma dget_set_same : forall (d : fdict) k v, dget (dset d k v) k = Some v.
Proof. intros. apply dict_get_set_same. apply s_eqb_eq. Qed.

Lemma dget_set_other : forall (d : fdict) k v k', k <> k' -> dget (dset d k v) k' = dget d k'.
Proof. intros. apply dict_get_set_other; auto. apply s_eqb_eq. Qed.

Lemma dget_remove_same : forall (d : fdict) k, dget (dict_remove d k) k = None.
Proof.
  induction d as [|[k0 v0] r IH]; intros k; simpl; auto.
  destruct (ustr_eqb k0 k) eqn:E; auto. simpl. rewrite E. auto.
Qed.

Lemma dget_remove_other : forall (d : fdict) k k', k <> k' -> dget (dict_remove d k) k' = dget d k'.
Proof.
  induction d as [|[k0 v0] r IH]; intros k k' N; simpl; auto.
  destruct (ustr_eqb k0 k) eqn:E.
  - apply s_eqb_eq in E. subst k0. rewrite (proj2 (s_eqb_neq k k') N). apply IH. exact N.
  - simpl. destruct (ustr_eqb k0 k'); auto.
Qed.

Lemma remove_keys_incl : forall (d : fdict) k x, In x (map fst (dict_remove d k)) -> In x (map fst d).
Proof.
  induction d as [|[k0 v0] r IH]; intros k x H; simpl in *; auto.
  destruct (ustr_eqb k0 k); simpl in *; [right; eauto | destruct H; [left; auto | right; eauto]].
Qed.

Lemma remove_NoDup : forall (d : fdict) k, NoDup (map fst d) -> NoDup (map fst (dict_remove d k)).
Proof.
  induction d as [|[k0 v0] r IH]; intros k ND; simpl; auto.
  inversion ND; subst. destruct (ustr_eqb k0 k); simpl; auto.
  constructor; auto. intros H. apply H1. eapply remove_keys_incl; eauto.
Qed.

(* properties.update with the keyword arguments: a keyword present wins, the others keep the value *)
Lemma dget_update : forall (kw d : fdict) k, NoDup (map fst kw) ->
  dget (dict_update d kw) k = match dget kw k with Some v => Some v | None => dget d k end.
Proof.
  unfold dict_update. induction kw as [|[k0 v0] r IH]; intros d k ND; simpl; auto.
  inversion ND; subst. rewrite IH; auto.
  destruct (ustr_eqb k0 k) eqn:E.
  - apply s_eqb_eq in E. subst k0.
    assert (dget r k = None) as Hn by (apply dict_get_None; [apply s_eqb_eq | auto]).
    rewrite Hn. apply dget_set_same.
  - destruct (dget r k); auto. apply dget_set_other. apply s_eqb_neq. auto.
Qed.

Lemma k_ext_omr : k_ext <> k_omr.
Proof. intros H. apply s_eqb_eq in H. vm_compute in H. discriminate. Qed.

Definition is_list_prop (k : ustring) : bool := existsb (ustr_eqb k) list_props.

Lemma is_list_prop_cases : forall k, is_list_prop k = true <-> k = k_ext \/ k = k_omr.
Proof.
  intros k. unfold is_list_prop, list_props. simpl. rewrite orb_false_r, orb_true_iff, !s_eqb_eq. tauto.
Qed.

(* one round of the list loop: what it does to the key it is about and that it leaves the others alone *)
Lemma step_other : forall (props kw : fdict) p k, p <> k ->
  dget (fst (step_list (props, kw) p)) k = dget props k /\ dget (snd (step_list (props, kw) p)) k = dget kw k.
Proof.
  intros props kw p k N. unfold step_list.
  destruct (dget kw p) as [kv|]; [|auto]. destruct (dget props p) as [dv|]; [|auto].
  destruct kv; simpl; rewrite ?dget_remove_other, ?dget_set_other; auto.
Qed.

Lemma step_NoDup : forall (props kw : fdict) p, NoDup (map fst kw) -> NoDup (map fst (snd (step_list (props, kw) p))).
Proof.
  intros props kw p ND. unfold step_list.
  destruct (dget kw p) as [kv|]; [|auto]. destruct (dget props p) as [dv|]; [|auto].
  destruct kv; simpl; apply remove_NoDup; auto.
Qed.

Definition merged (dv : option fval) (kv : fval) : option fval :=
  match dv, kv with
  | Some d, FNone => None
  | Some d, _ => Some (FMany (base_list d ++ add_list kv))
  | None, _ => Some kv
  end.

Lemma step_same : forall (props kw : fdict) p kv, dget kw p = Some kv ->
  let st := step_list (props, kw) p in
  match dget (snd st) p with Some v => Some v | None => dget (fst st) p end = merged (dget props p) kv.
Proof.
  intros props kw p kv H. unfold step_list. rewrite H.
  destruct (dget props p) as [dv|] eqn:Ed; simpl.
  - destruct kv; simpl; rewrite dget_remove_same; rewrite ?dget_remove_same, ?dget_set_same; reflexivity.
  - rewrite H. destruct kv; reflexivity.
Qed.

Lemma let_pair : forall (A B C : Type) (f : A -> B -> C) (pk : A * B),
  (let (a, b) := pk in f a b) = f (fst pk) (snd pk).
Proof. intros A B C f [a b]. reflexivity. Qed.

Lemma create_nonempty : forall la (d kw : fdict), kw <> [] ->
  create la d kw = dict_update (fst (if la then fold_left step_list list_props (d, kw) else (d, kw)))
                               (snd (if la then fold_left step_list list_props (d, kw) else (d, kw))).
Proof.
  intros la d kw H. destruct kw as [|x r]; [contradiction|]. unfold create.
  apply (let_pair _ _ _ dict_update).
Qed.

(* the state after the two rounds of the list loop, property by property *)
Lemma loop_other : forall (d kw : fdict) k, NoDup (map fst kw) -> k_ext <> k -> k_omr <> k ->
  let st := fold_left step_list list_props (d, kw) in
  dget (fst st) k = dget d k /\ dget (snd st) k = dget kw k /\ NoDup (map fst (snd st)).
Proof.
  intros d kw k ND N1 N2. unfold list_props. simpl.
  destruct (step_other d kw k_ext k N1) as [A1 A2].
  pose proof (step_NoDup d kw k_ext ND) as ND1.
  set (sp1 := step_list (d, kw) k_ext) in *. clearbody sp1. destruct sp1 as [p1 k1]. cbn [fst snd] in *.
  destruct (step_other p1 k1 k_omr k N2) as [B1 B2].
  pose proof (step_NoDup p1 k1 k_omr ND1) as ND2.
  set (sp2 := step_list (p1, k1) k_omr) in *. clearbody sp2. destruct sp2 as [p2 k2]. cbn [fst snd] in *.
  split; [congruence|]. split; [congruence|auto].
Qed.

Lemma step_absent : forall (props kw : fdict) p, dget kw p = None -> step_list (props, kw) p = (props, kw).
Proof. intros props kw p H. unfold step_list. rewrite H. reflexivity. Qed.

Lemma loop_list : forall (d kw : fdict) k, NoDup (map fst kw) -> is_list_prop k = true ->
  let st := fold_left step_list list_props (d, kw) in
  NoDup (map fst (snd st)) /\
  match dget kw k with
  | None => dget (snd st) k = None /\ dget (fst st) k = dget d k
  | Some kv => match dget (snd st) k with Some v => Some v | None => dget (fst st) k end = merged (dget d k) kv
  end.
Proof.
  intros d kw k ND Hl. unfold list_props. simpl.
  pose proof (step_NoDup d kw k_ext ND) as ND1.
  apply is_list_prop_cases in Hl. destruct Hl as [E|E]; subst k.
  - destruct (dget kw k_ext) as [kv|] eqn:Ek.
    + pose proof (step_same d kw k_ext kv Ek) as A. cbv zeta in A.
      set (sp1 := step_list (d, kw) k_ext) in *. clearbody sp1. destruct sp1 as [p1 k1]. cbn [fst snd] in *.
      destruct (step_other p1 k1 k_omr k_ext (fun X => k_ext_omr (eq_sym X))) as [B1 B2].
      pose proof (step_NoDup p1 k1 k_omr ND1) as ND2.
      set (sp2 := step_list (p1, k1) k_omr) in *. clearbody sp2. destruct sp2 as [p2 k2]. cbn [fst snd] in *. split; auto. rewrite B2, B1. exact A.
    + rewrite (step_absent d kw k_ext Ek) in *. simpl.
      destruct (step_other d kw k_omr k_ext (fun X => k_ext_omr (eq_sym X))) as [B1 B2].
      pose proof (step_NoDup d kw k_omr ND) as ND2.
      set (sp2 := step_list (d, kw) k_omr) in *. clearbody sp2. destruct sp2 as [p2 k2]. cbn [fst snd] in *. split; auto. split; congruence.
  - destruct (step_other d kw k_ext k_omr k_ext_omr) as [A1 A2].
    set (sp1 := step_list (d, kw) k_ext) in *. clearbody sp1. destruct sp1 as [p1 k1]. cbn [fst snd] in *.
    pose proof (step_NoDup p1 k1 k_omr ND1) as ND2.
    destruct (dget kw k_omr) as [kv|] eqn:Ek.
    + assert (dget k1 k_omr = Some kv) as H' by congruence.
      pose proof (step_same p1 k1 k_omr kv H') as B. cbv zeta in B.
      set (sp2 := step_list (p1, k1) k_omr) in *. clearbody sp2. destruct sp2 as [p2 k2]. cbn [fst snd] in *. split; auto. rewrite B, A1. reflexivity.
    + assert (dget k1 k_omr = None) as H' by congruence.
      rewrite (step_absent p1 k1 k_omr H') in *. simpl. split; auto.
Qed.

(* a property that is not passed keeps its default (or stays absent) *)
Theorem create_default : forall la (defaults kw : fdict) k, NoDup (map fst kw) ->
  dget kw k = None -> dget (create la defaults kw) k = dget defaults k.
Proof.
  intros la d kw k ND H. destruct kw as [|x r] eqn:Ekw; [reflexivity|]. rewrite <- Ekw in *.
  rewrite create_nonempty; [|rewrite Ekw; discriminate].
  destruct la.
  - destruct (is_list_prop k) eqn:Hl.
    + destruct (loop_list d kw k ND Hl) as [ND2 A]. cbv zeta in *. rewrite H in A. destruct A as [A1 A2].
      rewrite dget_update; auto. rewrite A1. exact A2.
    + assert (k_ext <> k /\ k_omr <> k) as [N1 N2] by (split; intros X; subst k; vm_compute in Hl; discriminate).
      destruct (loop_other d kw k ND N1 N2) as [A1 [A2 ND2]]. cbv zeta in *.
      rewrite dget_update; auto. rewrite A2, H. exact A1.
  - simpl. rewrite dget_update; auto. rewrite H. reflexivity.
Qed.

(* an explicit argument for a property that is not a list property wins over the default *)
Theorem create_explicit : forall la (defaults kw : fdict) k v, NoDup (map fst kw) ->
  is_list_prop k = false -> dget kw k = Some v -> dget (create la defaults kw) k = Some v.
Proof.
  intros la d kw k v ND Hl H. destruct kw as [|x r] eqn:Ekw; [discriminate|]. rewrite <- Ekw in *.
  rewrite create_nonempty; [|rewrite Ekw; discriminate].
  destruct la.
  - assert (k_ext <> k /\ k_omr <> k) as [N1 N2] by (split; intros X; subst k; vm_compute in Hl; discriminate).
    destruct (loop_other d kw k ND N1 N2) as [A1 [A2 ND2]]. cbv zeta in *.
    rewrite dget_update; auto. rewrite A2, H. reflexivity.
  - simpl. rewrite dget_update; auto. rewrite H. reflexivity.
Qed.

(* without list_append every explicit argument replaces the default *)
Theorem create_replace : forall (defaults kw : fdict) k v, NoDup (map fst kw) ->
  dget kw k = Some v -> dget (create false defaults kw) k = Some v.
Proof.
  intros d kw k v ND H. destruct kw as [|x r] eqn:Ekw; [discriminate|]. rewrite <- Ekw in *.
  rewrite create_nonempty; [|rewrite Ekw; discriminate]. simpl.
  rewrite dget_update; auto. rewrite H. reflexivity.
Qed.

(* with list_append a list property that is passed: appended to the default (a single default or argument
   counting as a one-element list); None removes the default; without a default the argument as it is *)
Theorem create_list_append : forall (defaults kw : fdict) k kv, NoDup (map fst kw) ->
  is_list_prop k = true -> dget kw k = Some kv ->
  dget (create true defaults kw) k = merged (dget defaults k) kv.
Proof.
  intros d kw k kv ND Hl H. destruct kw as [|x r] eqn:Ekw; [discriminate|]. rewrite <- Ekw in *.
  rewrite create_nonempty; [|rewrite Ekw; discriminate].
  destruct (loop_list d kw k ND Hl) as [ND2 A]. cbv zeta in *. rewrite H in A.
  rewrite dget_update; auto.
Qed.

(* a default `created` is also the default `modified` *)
Theorem default_created_is_modified : forall d v,
  dget (set_default_created d v) k_created = Some v /\ dget (set_default_created d v) k_modified = Some v.
Proof.
  intros d v. unfold set_default_created. split.
  - rewrite dget_set_other; [apply dget_set_same|]. intros X. apply s_eqb_eq in X. vm_compute in X. discriminate.
  - apply dget_set_same.
Qed.

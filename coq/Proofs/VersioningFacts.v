(* Proofs/VersioningFacts.v *)
From Coq Require Import ZArith List Bool Lia.
From V Require Import Base.UString Model.Versioning Spec.VersioningSpec.

(* Proofs/VersioningFacts.v -- dictionaries as association lists (lookup,
   update, dropping None), and the arithmetic of _fudge_modified.             *)
From Coq Require Import String ZArith NArith List Bool Lia.
From V Require Import Base.UString Base.Json Model.Timestamp Model.Versioning Spec.VersioningSpec.
Import ListNotations.
Open Scope list_scope. Open Scope Z_scope.

(* ---- strings ---- *)
Lemma ustr_eqb_refl : forall s, ustr_eqb s s = true.
Proof. induction s as [|c r IH]; cbn; [reflexivity|]. now rewrite N.eqb_refl, IH. Qed.

Lemma ustr_eqb_eq : forall a b, ustr_eqb a b = true <-> a = b.
Proof.
  induction a as [|x a IH]; intros [|y b]; cbn; split; intros H; try reflexivity; try discriminate.
  - apply andb_true_iff in H as [H1 H2]. apply N.eqb_eq in H1. apply IH in H2. now subst.
  - inversion H; subst. now rewrite N.eqb_refl, ustr_eqb_refl.
Qed.

Lemma ustr_eqb_neq : forall a b, ustr_eqb a b = false <-> a <> b.
Proof.
  intros a b. split; intros H.
  - intros E. apply ustr_eqb_eq in E. congruence.
  - destruct (ustr_eqb a b) eqn:E; [|reflexivity]. apply ustr_eqb_eq in E. contradiction.
Qed.

Lemma ustr_eqb_sym : forall a b, ustr_eqb a b = ustr_eqb b a.
Proof.
  intros a b. destruct (ustr_eqb a b) eqn:E.
  - apply ustr_eqb_eq in E. subst. now rewrite ustr_eqb_refl.
  - symmetry. apply ustr_eqb_neq. apply ustr_eqb_neq in E. congruence.
Qed.

Lemma mem_In : forall k l, mem k l = true <-> In k l.
Proof.
  induction l as [|x r IH]; cbn; [split; [discriminate|tauto]|].
  rewrite orb_true_iff, IH, ustr_eqb_eq. split; intros [H|H]; auto.
Qed.

(* ---- lookup ---- *)
Definition keys (d : pdict) : list ustring := map fst d.

Lemma plookup_not_in : forall k d, ~ In k (keys d) -> plookup k d = None.
Proof.
  induction d as [|[k' v] r IH]; cbn; intros H; [reflexivity|].
  destruct (ustr_eqb k k') eqn:E; [apply ustr_eqb_eq in E; subst; tauto|]. apply IH. tauto.
Qed.

Lemma plookup_in : forall k d v, plookup k d = Some v -> In k (keys d).
Proof.
  induction d as [|[k' v'] r IH]; cbn; intros v H; [discriminate|].
  destruct (ustr_eqb k k') eqn:E; [apply ustr_eqb_eq in E; now left|]. right. now apply IH with v.
Qed.

Lemma has_key_in : forall k d, has_key k d = true <-> In k (keys d).
Proof.
  intros k d. unfold has_key. split; intros H.
  - destruct (plookup k d) eqn:E; [now apply plookup_in with p|discriminate].
  - destruct (plookup k d) eqn:E; [reflexivity|]. exfalso. revert H E. induction d as [|[k' v] r IH]; cbn; [tauto|].
    intros [H|H]; destruct (ustr_eqb k k') eqn:E; try discriminate; auto.
    subst. now rewrite ustr_eqb_refl in E.
Qed.

Lemma plookup_app : forall k a b, plookup k (a ++ b) = match plookup k a with Some v => Some v | None => plookup k b end.
Proof.
  induction a as [|[k' v] r IH]; intros b; cbn; [reflexivity|]. destruct (ustr_eqb k k'); [reflexivity|apply IH].
Qed.

(* ---- set_key / update ---- *)
Lemma plookup_set_key_same : forall k v d, plookup k (set_key k v d) = Some v.
Proof.
  induction d as [|[k' v'] r IH]; cbn; [now rewrite ustr_eqb_refl|].
  destruct (ustr_eqb k k') eqn:E; cbn; rewrite E; [reflexivity|exact IH].
Qed.

Lemma plookup_set_key_other : forall k k' v d, ustr_eqb k k' = false -> plookup k (set_key k' v d) = plookup k d.
Proof.
  intros k k' v d N. induction d as [|[k0 v0] r IH]; cbn; [now rewrite N|].
  destruct (ustr_eqb k' k0) eqn:E; cbn.
  - apply ustr_eqb_eq in E. subst k0. now rewrite N.
  - destruct (ustr_eqb k k0); [reflexivity|exact IH].
Qed.

Lemma keys_set_key_in : forall x k v d, In x (keys (set_key k v d)) -> x = k \/ In x (keys d).
Proof.
  induction d as [|[k0 v0] r IH]; cbn; [intros [H|[]]; left; congruence|].
  destruct (ustr_eqb k k0) eqn:E; cbn; [tauto|]. intros [H|H]; [auto|]. destruct (IH H); auto.
Qed.

Lemma nodup_set_key : forall k v d, NoDup (keys d) -> NoDup (keys (set_key k v d)).
Proof.
  induction d as [|[k0 v0] r IH]; cbn; intros H; [constructor; [tauto|constructor]|].
  inversion H; subst. destruct (ustr_eqb k k0) eqn:E; cbn; [constructor; assumption|].
  constructor; [|now apply IH]. intros I. apply keys_set_key_in in I as [I|I]; [|contradiction].
  subst. now rewrite ustr_eqb_refl in E.
Qed.

Lemma update_cons : forall d kv kw, update d (kv :: kw) = update (set_key (fst kv) (snd kv) d) kw.
Proof. reflexivity. Qed.

Lemma update_app : forall d a b, update d (a ++ b) = update (update d a) b.
Proof. intros. unfold update. apply fold_left_app. Qed.

Lemma nodup_update : forall kw d, NoDup (keys d) -> NoDup (keys (update d kw)).
Proof. induction kw as [|kv r IH]; intros d H; [exact H|]. rewrite update_cons. apply IH. now apply nodup_set_key. Qed.

(* the last binding of a name in the keyword list wins; Python keyword arguments are distinct,
   so under NoDup that is the only one *)
Lemma plookup_update_nodup : forall k kw d, NoDup (keys kw) ->
  plookup k (update d kw) = match plookup k kw with Some v => Some v | None => plookup k d end.
Proof.
  induction kw as [|[k0 v0] r IH]; intros d H; [reflexivity|].
  rewrite update_cons. inversion H; subst. rewrite IH by assumption. cbn [fst snd plookup].
  destruct (ustr_eqb k k0) eqn:E.
  - apply ustr_eqb_eq in E. subst k0. rewrite (plookup_not_in k r) by assumption. apply plookup_set_key_same.
  - destruct (plookup k r); [reflexivity|]. now apply plookup_set_key_other.
Qed.

(* ---- dropping None ---- *)
Lemma keys_drop_none_in : forall x d, In x (keys (drop_none d)) -> In x (keys d).
Proof.
  induction d as [|[k v] r IH]; cbn; [tauto|]. destruct (negb (is_none v)); cbn; intros H; [destruct H; auto|auto].
Qed.

Lemma nodup_drop_none : forall d, NoDup (keys d) -> NoDup (keys (drop_none d)).
Proof.
  induction d as [|[k v] r IH]; cbn; intros H; [constructor|]. inversion H; subst.
  destruct (negb (is_none v)); cbn; [|now apply IH]. constructor; [|now apply IH].
  intros I. apply keys_drop_none_in in I. contradiction.
Qed.

Lemma drop_none_cons : forall kv r,
  drop_none (kv :: r) = if negb (is_none (snd kv)) then kv :: drop_none r else drop_none r.
Proof. reflexivity. Qed.

Lemma plookup_drop_none : forall k d, NoDup (keys d) -> plookup k (drop_none d) = pget k d.
Proof.
  unfold pget. induction d as [|[k0 v0] r IH]; intros H; [reflexivity|]. inversion H; subst.
  rewrite drop_none_cons. cbn [snd plookup].
  destruct (ustr_eqb k k0) eqn:E.
  - apply ustr_eqb_eq in E. subst k0. destruct (is_none v0) eqn:N; cbn [negb].
    + rewrite IH by assumption. now rewrite (plookup_not_in k r).
    + cbn [plookup]. now rewrite ustr_eqb_refl.
  - destruct (is_none v0); cbn [negb plookup]; [|rewrite E]; now apply IH.
Qed.

Lemma drop_none_no_none : forall k d v, plookup k (drop_none d) = Some v -> is_none v = false.
Proof.
  induction d as [|[k0 v0] r IH]; intros v H; [discriminate|]. rewrite drop_none_cons in H. cbn [snd] in H.
  destruct (is_none v0) eqn:N; cbn [negb] in H; [now apply IH|]. cbn [plookup] in H.
  destruct (ustr_eqb k k0); [inversion H; subst; exact N|now apply IH].
Qed.

Lemma pget_some : forall k d v, pget k d = Some v -> plookup k d = Some v /\ is_none v = false.
Proof.
  unfold pget. intros k d v H. destruct (plookup k d) as [x|]; [|discriminate].
  destruct (is_none x) eqn:N; [discriminate|]. inversion H; subst. auto.
Qed.

(* ---- the arithmetic of _fudge_modified (DESIGN Appendix A.1) ---- *)
Definition fudge20 (o n : Z) : Z := if n - o <? 1000 then o + 1000 else n.
Definition fudge21 (o n : Z) : Z := if n <=? o then o + 1 else n.

Ltac Zify.zify_post_hook ::= Z.to_euclidean_division_equations.

(* every clock reading: earlier, equal, less than a millisecond later, later *)
Lemma fudge20_strict : forall old now, ser20 (fudge20 (ser20 old) now) > ser20 old.
Proof. intros old now. unfold fudge20, ser20. destruct (now - (old - old mod 1000) <? 1000) eqn:E; lia. Qed.

Lemma fudge21_strict : forall old now, ser21 (fudge21 (ser21 old) now) > ser21 old.
Proof. intros old now. unfold fudge21, ser21. destruct (now <=? old) eqn:E; lia. Qed.

(* the rule of one version applied at the precision of the other is not strict: both
   branches are needed as they are *)
Lemma fudge21_rule_at_ms_precision_not_strict : exists old now, ~ ser20 (fudge21 (ser20 old) now) > ser20 old.
Proof. exists 1500, 1999. vm_compute. intros H. discriminate. Qed.

Lemma stored_trunc_milli_exact : forall t, stored_trunc PMilli CExact t = t - t mod 1000.
Proof. intros t. cbn [stored_trunc]. lia. Qed.

Lemma stored_trunc_milli_idem : forall c t, stored_trunc PMilli c (stored_trunc PMilli c t) = stored_trunc PMilli c t.
Proof. intros [] t; cbn [stored_trunc]; lia. Qed.

(* ---- boolean comparisons of the generated tables with the frozen ones ---- *)
Definition subset (a b : list ustring) : bool := forallb (fun k => mem k b) a.
Definition seteq (a b : list ustring) : bool := subset a b && subset b a.
Definition reg_agree (r1 r2 : list (bool * ustring * bool)) : bool :=
  forallb (fun row => match row with
                      | (b, ty, v) => match reg_lookup b ty r2 with Some v' => Bool.eqb v v' | None => false end
                      end) r1.
Definition sco_agree (s1 s2 : list (ustring * list ustring)) : bool :=
  forallb (fun row => match sco_lookup (fst row) s2 with Some ps => seteq (snd row) ps | None => false end) s1.

(* Proofs/PatternEqDnf.v -- the comparison-level DNFTransformer preserves the
   meaning of a comparison expression.

   The delicate point is the pruning: a distributed AND whose duplication
   raises ValueError (no common root type) is dropped.  Because an atom is
   false on an object of another type, an AND whose root-type sets have an
   empty intersection is false everywhere -- but the ValueError can also come
   from INSIDE an operand being duplicated (an OR one of whose operands is an
   impossible AND aborts the duplication of the whole OR).  That never
   happens on what the pipeline feeds to DNF: after the flatten/order/absorb
   settle loop no OR is an operand of an OR, so every operand set element is
   an atom, an OR-free AND, or the (validated) output of an earlier
   distribution.  The theorem is therefore stated for flat inputs (cdnf_flat)
   and for validated inputs (cdnf_clean), which is what the recursive calls
   on freshly built nodes see.                                            *)
From Coq Require Import NArith ZArith List Bool Permutation Lia String.
From V Require Import Base.UString Model.PatternEq Spec.PatternSemantics Proofs.PatternEqCmp Proofs.PatternEqLists
     Proofs.PatternEqC.
Import ListNotations.

(* ------------------------------------------------------------------ *)
(* strings, sets of type names                                         *)

Lemma ustr_eqb_eq : forall a b, ustr_eqb a b = true <-> a = b.
Proof.
  induction a as [|x a IH]; intros [|y b]; simpl; split; intro E; try discriminate; try reflexivity.
  - apply andb_true_iff in E. destruct E as [E1 E2]. apply N.eqb_eq in E1. apply IH in E2. congruence.
  - inversion E; subst. rewrite N.eqb_refl. simpl. apply IH. reflexivity.
Qed.

Lemma ustr_eqb_refl : forall a, ustr_eqb a a = true.
Proof. intro a. apply ustr_eqb_eq. reflexivity. Qed.

Lemma ustr_eqb_sym : forall a b, ustr_eqb a b = ustr_eqb b a.
Proof.
  intros a b. apply eq_iff_eq_true. rewrite !ustr_eqb_eq. split; congruence.
Qed.

Lemma mem_In : forall x a, mem_ustr x a = true <-> In x a.
Proof.
  intros x a. unfold mem_ustr. rewrite existsb_exists. split.
  - intros [y [Hy Ey]]. apply ustr_eqb_eq in Ey. subst y. exact Hy.
  - intro Hx. exists x. split; [exact Hx | apply ustr_eqb_refl].
Qed.

Lemma mem_inter : forall x a b, mem_ustr x (inter_ustr a b) = mem_ustr x a && mem_ustr x b.
Proof.
  intros x a b. apply eq_iff_eq_true. rewrite andb_true_iff, !mem_In. unfold inter_ustr.
  rewrite filter_In, mem_In. tauto.
Qed.

Lemma mem_union : forall x a b, mem_ustr x (union_ustr a b) = mem_ustr x a || mem_ustr x b.
Proof.
  intros x a b. apply eq_iff_eq_true. rewrite orb_true_iff, !mem_In. unfold union_ustr.
  rewrite in_app_iff, filter_In, negb_true_iff.
  destruct (mem_ustr x a) eqn:Ma.
  - apply mem_In in Ma. tauto.
  - assert (~ In x a) by (intro Hx; apply mem_In in Hx; congruence). tauto.
Qed.

Lemma mem_nil_false : forall x, mem_ustr x [] = false.
Proof. reflexivity. Qed.

(* ------------------------------------------------------------------ *)
(* mapM                                                                *)

Lemma mapM_err : forall {A B} (f : A -> res B) l e, mapM f l = Err e -> exists x, In x l /\ f x = Err e.
Proof.
  induction l as [|x l IH]; simpl; intros e E; [discriminate|].
  destruct (f x) eqn:Ex.
  - destruct (mapM f l) eqn:El; [discriminate|]. inversion E; subst.
    destruct (IH e eq_refl) as [y [Hy Ey]]. exists y. auto.
  - inversion E; subst. exists x. auto.
Qed.

(* ------------------------------------------------------------------ *)
(* root types                                                          *)

Definition nonempty_rt (r : rtset) : Prop := forall s, r = Some s -> s <> [].

Lemma rt_step_ok : forall o cur arg r, rt_step o cur arg = Ok r -> exists s nw, arg = Some s /\ r = Some nw /\ nw <> [].
Proof.
  intros o cur [s|] r E; simpl in E; [|discriminate].
  match type of E with match ?nw with _ => _ end = _ => destruct nw as [|y nw'] eqn:En end; [discriminate|].
  inversion E. exists s, (y :: nw'). repeat split; congruence.
Qed.

Lemma rt_fold_nonempty : forall o rs cur r, rt_fold o cur rs = Ok r -> nonempty_rt cur -> nonempty_rt r.
Proof.
  induction rs as [|a rs IH]; simpl; intros cur r E Hc.
  - inversion E; subst. exact Hc.
  - destruct (rt_step o cur a) as [cur'|] eqn:Es; [|discriminate].
    apply (IH _ _ E). destruct (rt_step_ok _ _ _ _ Es) as [s [nw [_ [-> Hn]]]]. intros s' Es'. inversion Es'; subst. exact Hn.
Qed.

Lemma rt_dupe_nonempty : forall e r, rt_dupe e = Ok r -> nonempty_rt r.
Proof.
  intros [a|l|l] r E; simpl in E.
  - inversion E. intros s Es. inversion Es. discriminate.
  - destruct (mapM rt_dupe l); [|discriminate]. apply (rt_fold_nonempty _ _ _ _ E). intros s Es. discriminate.
  - destruct (mapM rt_dupe l); [|discriminate]. apply (rt_fold_nonempty _ _ _ _ E). intros s Es. discriminate.
Qed.

(* an OR of sets never fails with ValueError *)
Lemma rt_fold_or_not_value : forall rs cur,
    nonempty_rt cur -> Forall nonempty_rt rs -> rt_fold BOr cur rs <> Err EValue.
Proof.
  induction rs as [|a rs IH]; simpl; intros cur Hc Hrs; [discriminate|].
  inversion Hrs; subst.
  destruct (rt_step BOr cur a) as [cur'|e] eqn:Es.
  - apply IH; [|assumption]. destruct (rt_step_ok _ _ _ _ Es) as [s [nw [_ [-> Hn]]]]. intros s' Es'. inversion Es'; subst. exact Hn.
  - destruct a as [s|]; simpl in Es; [|inversion Es; discriminate].
    assert (Hs : s <> []) by (apply H1; reflexivity).
    destruct cur as [c|]; simpl in Es.
    + destruct (union_ustr c s) eqn:Eu; [|discriminate].
      unfold union_ustr in Eu. apply app_eq_nil in Eu. destruct Eu as [Ec _]. exfalso. apply (Hc c); auto.
    + destruct s; [congruence | discriminate].
Qed.

(* membership through the folds *)
Lemma rt_fold_and_mem : forall t rs cur r,
    rt_fold BAnd cur rs = Ok r ->
    (forall c, cur = Some c -> mem_ustr t c = true) ->
    Forall (fun a => forall s, a = Some s -> mem_ustr t s = true) rs ->
    forall s, r = Some s -> mem_ustr t s = true.
Proof.
  induction rs as [|a rs IH]; simpl; intros cur r E Hc Hrs s Es.
  - inversion E; subst. apply Hc; reflexivity.
  - inversion Hrs; subst. destruct (rt_step BAnd cur a) as [cur'|] eqn:Est; [|discriminate].
    apply (IH _ _ E); auto.
    intros c Ec. subst cur'. destruct a as [sa|]; simpl in Est; [|discriminate].
    destruct cur as [c0|].
    + destruct (inter_ustr c0 sa) eqn:Ei; [discriminate|]. inversion Est; subst.
      rewrite <- Ei, mem_inter. rewrite Hc by reflexivity. rewrite H1 by reflexivity. reflexivity.
    + destruct sa; [discriminate|]. inversion Est; subst. apply H1; reflexivity.
Qed.

Lemma rt_fold_and_value : forall t rs cur,
    rt_fold BAnd cur rs = Err EValue ->
    (forall c, cur = Some c -> mem_ustr t c = true) ->
    Forall (fun a => forall s, a = Some s -> mem_ustr t s = true) rs -> False.
Proof.
  induction rs as [|a rs IH]; simpl; intros cur E Hc Hrs; [discriminate|].
  inversion Hrs; subst. destruct (rt_step BAnd cur a) as [cur'|e] eqn:Est.
  - apply (IH _ E); auto.
    intros c Ec. subst cur'. destruct a as [sa|]; simpl in Est; [|discriminate].
    destruct cur as [c0|].
    + destruct (inter_ustr c0 sa) eqn:Ei; [discriminate|]. inversion Est; subst.
      rewrite <- Ei, mem_inter. rewrite Hc by reflexivity. rewrite H1 by reflexivity. reflexivity.
    + destruct sa; [discriminate|]. inversion Est; subst. apply H1; reflexivity.
  - inversion E; subst. destruct a as [sa|]; simpl in Est; [|discriminate].
    destruct cur as [c0|].
    + destruct (inter_ustr c0 sa) eqn:Ei; [|discriminate].
      assert (M : mem_ustr t (inter_ustr c0 sa) = true)
        by (rewrite mem_inter, Hc, H1; reflexivity).
      rewrite Ei in M. discriminate.
    + destruct sa; [|discriminate]. specialize (H1 [] eq_refl). discriminate.
Qed.

Lemma rt_fold_or_mem : forall t rs cur r,
    rt_fold BOr cur rs = Ok r ->
    ((exists c, cur = Some c /\ mem_ustr t c = true) \/ (exists s, In (Some s) rs /\ mem_ustr t s = true)) ->
    exists s, r = Some s /\ mem_ustr t s = true.
Proof.
  induction rs as [|a rs IH]; simpl; intros cur r E Hm.
  - inversion E; subst. destruct Hm as [[c [Ec Mc]]|[s [[] _]]]. exists c. auto.
  - destruct (rt_step BOr cur a) as [cur'|] eqn:Est; [|discriminate].
    apply (IH _ _ E).
    destruct a as [sa|]; simpl in Est; [|discriminate].
    destruct Hm as [[c [Ec Mc]]|[s [[Es|Hin] Ms]]].
    + left. subst cur. destruct (union_ustr c sa) eqn:Eu; [discriminate|]. inversion Est; subst.
      eexists. split; [reflexivity|]. rewrite <- Eu, mem_union, Mc. reflexivity.
    + left. inversion Es; subst sa. destruct cur as [c|].
      * destruct (union_ustr c s) eqn:Eu; [discriminate|]. inversion Est; subst.
        eexists. split; [reflexivity|]. rewrite <- Eu, mem_union, Ms. apply orb_true_r.
      * destruct s; [discriminate|]. inversion Est; subst. eexists. split; [reflexivity | exact Ms].
    + right. exists s. auto.
Qed.

Lemma rt_fold_all_some : forall o rs cur r, rt_fold o cur rs = Ok r -> Forall (fun a => exists s, a = Some s) rs.
Proof.
  induction rs as [|a rs IH]; simpl; intros cur r E; [constructor|].
  destruct (rt_step o cur a) as [cur'|] eqn:Est; [|discriminate].
  constructor; [|apply (IH _ _ E)]. destruct (rt_step_ok _ _ _ _ Est) as [s [_ [-> _]]]. exists s; reflexivity.
Qed.

(* ------------------------------------------------------------------ *)
(* shapes                                                              *)

Definition is_cor (e : cexpr) : bool := match e with COr _ => true | _ => false end.
Definition is_okb {A} (r : res A) : bool := match r with Ok _ => true | Err _ => false end.

(* no OR anywhere *)
Fixpoint or_freeb (e : cexpr) : bool :=
  match e with Atom _ => true | CAnd l => forallb or_freeb l | COr _ => false end.

(* every AND node can be duplicated (passes the constructor's root-type rule) *)
Fixpoint cleanb (e : cexpr) : bool :=
  match e with
  | Atom _ => true
  | CAnd l => forallb cleanb l && is_okb (rt_dupe e)
  | COr l => forallb cleanb l
  end.

(* no OR is an operand of an OR *)
Fixpoint flatb (e : cexpr) : bool :=
  match e with
  | Atom _ => true
  | CAnd l => forallb flatb l
  | COr l => forallb (fun c => flatb c && negb (is_cor c)) l
  end.

Definition goodb (e : cexpr) : bool := cleanb e || or_freeb e.

Lemma Forall2_In_l : forall {A B} (R : A -> B -> Prop) l1 l2 a, Forall2 R l1 l2 -> In a l1 -> exists b, In b l2 /\ R a b.
Proof.
  induction 1; intros Hin; [destruct Hin|]. destruct Hin as [->|Hin].
  - exists y. split; [left; reflexivity | assumption].
  - destruct (IHForall2 Hin) as [b [Hb Rb]]. exists b. split; [right; exact Hb | exact Rb].
Qed.

Lemma Forall2_In_r : forall {A B} (R : A -> B -> Prop) l1 l2 b, Forall2 R l1 l2 -> In b l2 -> exists a, In a l1 /\ R a b.
Proof.
  induction 1; intros Hin; [destruct Hin|]. destruct Hin as [->|Hin].
  - exists x. split; [left; reflexivity | assumption].
  - destruct (IHForall2 Hin) as [a [Ha Ra]]. exists a. split; [right; exact Ha | exact Ra].
Qed.

Lemma rt_ok_clean : forall e r, rt_dupe e = Ok r -> cleanb e = true.
Proof.
  induction e using cexpr_ind'; intros r E; [reflexivity | |].
  - assert (Hc : forallb cleanb l = true).
    { simpl in E. destruct (mapM rt_dupe l) as [rs|] eqn:Em; [|discriminate].
      apply mapM_Forall2 in Em. apply forallb_forall. intros c Hc.
      destruct (Forall2_In_l _ _ _ c Em Hc) as [rc [_ Ec]]. rewrite Forall_forall in H. apply (H c Hc rc Ec). }
    cbn [cleanb]. rewrite Hc, E. reflexivity.
  - simpl in *. destruct (mapM rt_dupe l) as [rs|] eqn:Em; [|discriminate].
    apply mapM_Forall2 in Em. apply forallb_forall. intros c Hc.
    destruct (Forall2_In_l _ _ _ c Em Hc) as [rc [_ Ec]]. rewrite Forall_forall in H. apply (H c Hc rc Ec).
Qed.

Lemma clean_not_value : forall e, cleanb e = true -> rt_dupe e <> Err EValue.
Proof.
  induction e using cexpr_ind'; intro C.
  - simpl. discriminate.
  - cbn [cleanb] in C. apply andb_true_iff in C. destruct C as [_ C].
    intro E. rewrite E in C. discriminate C.
  - simpl in C. simpl. destruct (mapM rt_dupe l) as [rs|e0] eqn:Em.
    + apply rt_fold_or_not_value; [intros s Es; discriminate|].
      apply mapM_Forall2 in Em. apply Forall_forall. intros r Hr.
      destruct (Forall2_In_r _ _ _ r Em Hr) as [c [_ Ec]]. apply (rt_dupe_nonempty _ _ Ec).
    + apply mapM_err in Em. destruct Em as [c [Hc Ec]]. intro E. inversion E; subst e0.
      rewrite Forall_forall in H. apply (H c Hc); [|exact Ec]. rewrite forallb_forall in C. apply C; exact Hc.
Qed.

Section DnfSound.
  Variable obj : Type.
  Variable otype : obj -> ustring.
  Variable H : ustring -> list step -> cop -> bool -> dconst -> obj -> bool.
  Hypothesis Hden : respects_denotation obj H.

  Notation csem := (csem obj otype H).

  (* an expression is true only on objects of one of its root types *)
  Lemma rt_sound : forall e ts x, rt_dupe e = Ok (Some ts) -> csem e x = true -> mem_ustr (otype x) ts = true.
  Proof.
    induction e using cexpr_ind'; intros ts x E S.
    - simpl in E. inversion E; subst. simpl in S. unfold asem in S. apply andb_true_iff in S. destruct S as [S _].
      apply ustr_eqb_eq in S. apply mem_In. left. exact S.
    - simpl in E. destruct (mapM rt_dupe l) as [rs|] eqn:Em; [|discriminate]. apply mapM_Forall2 in Em.
      simpl in S. rewrite forallb_forall in S.
      apply (rt_fold_and_mem (otype x) rs None (Some ts) E); [intros c Ec; discriminate | | reflexivity].
      apply Forall_forall. intros r Hr s Es. subst r.
      destruct (Forall2_In_r _ _ _ _ Em Hr) as [c [Hc Ec]]. rewrite Forall_forall in H0.
      apply (H0 c Hc s x Ec). apply S; exact Hc.
    - simpl in E. destruct (mapM rt_dupe l) as [rs|] eqn:Em; [|discriminate]. apply mapM_Forall2 in Em.
      simpl in S. apply existsb_exists in S. destruct S as [c [Hc Sc]].
      destruct (Forall2_In_l _ _ _ c Em Hc) as [r [Hr Ec]].
      pose proof (rt_fold_all_some _ _ _ _ E) as Hs. rewrite Forall_forall in Hs. destruct (Hs r Hr) as [s ->].
      rewrite Forall_forall in H0. pose proof (H0 c Hc s x Ec Sc) as M.
      destruct (rt_fold_or_mem (otype x) rs None (Some ts) E) as [s' [Es' Ms']].
      + right. exists s. auto.
      + inversion Es'; subst. exact Ms'.
  Qed.

  Lemma forallb_false_in : forall {A} (f : A -> bool) l a, In a l -> f a = false -> forallb f l = false.
  Proof.
    intros A f l a Ha Fa. destruct (forallb f l) eqn:F; [|reflexivity].
    rewrite forallb_forall in F. rewrite (F a Ha) in Fa. discriminate.
  Qed.

  (* dropping a distributed AND whose duplication raises ValueError is sound
     as soon as that holds for its operands *)
  Lemma rtsem_and : forall s x,
      (forall a, In a s -> rt_dupe a = Err EValue -> csem a x = false) ->
      rt_dupe (CAnd s) = Err EValue -> csem (CAnd s) x = false.
  Proof.
    intros s x Hs E. simpl in E. destruct (mapM rt_dupe s) as [rs|e0] eqn:Em.
    - apply mapM_Forall2 in Em. simpl. destruct (forallb (fun e' => csem e' x) s) eqn:F; [exfalso|reflexivity].
      rewrite forallb_forall in F.
      apply (rt_fold_and_value (otype x) rs None E); [intros c Ec; discriminate|].
      apply Forall_forall. intros r Hr t Et. subst r.
      destruct (Forall2_In_r _ _ _ _ Em Hr) as [c [Hc Ec]]. apply (rt_sound c t x Ec). apply F; exact Hc.
    - inversion E; subst e0. apply mapM_err in Em. destruct Em as [c [Hc Ec]].
      simpl. apply (forallb_false_in _ _ c Hc). apply Hs; assumption.
  Qed.

  Lemma or_free_rtsem : forall e x, or_freeb e = true -> rt_dupe e = Err EValue -> csem e x = false.
  Proof.
    induction e using cexpr_ind'; intros x F E.
    - simpl in E. discriminate.
    - apply rtsem_and; [|exact E]. intros a Ha Ea. rewrite Forall_forall in H0. apply H0; auto.
      simpl in F. rewrite forallb_forall in F. apply F; exact Ha.
    - simpl in F. discriminate.
  Qed.

  Lemma good_rtsem : forall e x, goodb e = true -> rt_dupe e = Err EValue -> csem e x = false.
  Proof.
    intros e x G E. unfold goodb in G. apply orb_true_iff in G. destruct G as [C|F].
    - exfalso. apply (clean_not_value e C E).
    - apply or_free_rtsem; assumption.
  Qed.
End DnfSound.

(* ------------------------------------------------------------------ *)
(* itertools.product and the two piles                                 *)

Lemma existsb_flat_map : forall {A B} (f : B -> bool) (h : A -> list B) l,
    existsb f (flat_map h l) = existsb (fun a => existsb f (h a)) l.
Proof. induction l; simpl; [reflexivity|]. rewrite existsb_app, IHl. reflexivity. Qed.

Lemma existsb_map : forall {A B} (f : B -> bool) (h : A -> B) l, existsb f (map h l) = existsb (fun a => f (h a)) l.
Proof. induction l; simpl; congruence. Qed.

Lemma existsb_ext : forall {A} (f g : A -> bool) l, (forall a, f a = g a) -> existsb f l = existsb g l.
Proof. induction l; simpl; intros; [reflexivity|]. rewrite H, IHl; auto. Qed.

Lemma existsb_andb_l : forall {A} (b : bool) (f : A -> bool) l, b && existsb f l = existsb (fun a => b && f a) l.
Proof. induction l; simpl; [apply andb_false_r|]. rewrite <- IHl. destruct b, (f a), (existsb f l); reflexivity. Qed.

Lemma existsb_andb_r : forall {A} (b : bool) (f : A -> bool) l, existsb f l && b = existsb (fun a => f a && b) l.
Proof. induction l; simpl; [reflexivity|]. rewrite <- IHl. destruct b, (f a), (existsb f l); reflexivity. Qed.

Lemma product_sem : forall {A} (g : A -> bool) ors,
    forallb (fun ops => existsb g ops) ors = existsb (fun p => forallb g p) (product ors).
Proof.
  induction ors as [|l r IH]; simpl; [reflexivity|].
  rewrite existsb_flat_map, IH.
  rewrite existsb_andb_r. apply existsb_ext. intro a. rewrite existsb_map. simpl. apply existsb_andb_l.
Qed.

Lemma product_In : forall {A} (ors : list (list A)) p a,
    In p (product ors) -> In a p -> exists ops, In ops ors /\ In a ops.
Proof.
  induction ors as [|l r IH]; simpl; intros p a Hp Ha.
  - destruct Hp as [<-|[]]. destruct Ha.
  - apply in_flat_map in Hp. destruct Hp as [x [Hx Hp]]. apply in_map_iff in Hp. destruct Hp as [q [<- Hq]].
    destruct Ha as [<-|Ha].
    + exists l. auto.
    + destruct (IH q a Hq Ha) as [ops [Ho Hao]]. exists ops. auto.
Qed.

Lemma split_or_spec : forall l ors others,
    split_or l = (ors, others) ->
    (forall a, In a others -> In a l /\ is_cor a = false) /\
    (forall ops, In ops ors -> In (COr ops) l) /\
    (ors = [] -> others = l).
Proof.
  induction l as [|x l IH]; simpl; intros ors others E.
  - inversion E; subst. split; [|split]; intros; try contradiction; reflexivity.
  - destruct (split_or l) as [ors' others'] eqn:Es. destruct (IH _ _ eq_refl) as [H1 [H2 H3]].
    destruct x as [a|la|lo]; inversion E; subst; (split; [|split]).
    + intros b [<-|Hb]; [split; [left; reflexivity | reflexivity]|]. destruct (H1 b Hb). auto.
    + intros ops Ho. right. auto.
    + intro En. rewrite (H3 En). reflexivity.
    + intros b [<-|Hb]; [split; [left; reflexivity | reflexivity]|]. destruct (H1 b Hb). auto.
    + intros ops Ho. right. auto.
    + intro En. rewrite (H3 En). reflexivity.
    + intros b Hb. destruct (H1 b Hb). auto.
    + intros ops [<-|Ho]; [left; reflexivity | right; auto].
    + intro En. discriminate.
Qed.

Section DnfSound2.
  Variable obj : Type.
  Variable otype : obj -> ustring.
  Variable H : ustring -> list step -> cop -> bool -> dconst -> obj -> bool.
  Hypothesis Hden : respects_denotation obj H.

  Notation csem := (csem obj otype H).

  Lemma split_or_sem : forall x l ors others,
      split_or l = (ors, others) ->
      forallb (fun e => csem e x) l =
      forallb (fun e => csem e x) others && forallb (fun ops => existsb (fun e => csem e x) ops) ors.
  Proof.
    induction l as [|e l IH]; simpl; intros ors others E.
    - inversion E; subst. reflexivity.
    - destruct (split_or l) as [ors' others'] eqn:Es. rewrite (IH _ _ eq_refl).
      destruct e as [a|la|lo]; inversion E; subst; simpl.
      + rewrite andb_assoc. reflexivity.
      + rewrite andb_assoc. reflexivity.
      + rewrite !andb_assoc. f_equal. apply andb_comm.
  Qed.

  (* meaning of the distributed operand sets *)
  Lemma distribute_sem : forall x l ors others,
      split_or l = (ors, others) ->
      csem (CAnd l) x = existsb (fun s => csem (CAnd s) x) (map (fun p => (others ++ p)%list) (product ors)).
  Proof.
    intros x l ors others E. simpl. rewrite (split_or_sem x l ors others E).
    rewrite (product_sem (fun e => csem e x) ors), existsb_andb_l, existsb_map.
    apply existsb_ext. intro p. rewrite forallb_app. reflexivity.
  Qed.

  Lemma dnf_prune_spec : forall x sets kept,
      dnf_prune sets = Ok kept ->
      (forall s, In s sets -> rt_dupe (CAnd s) = Err EValue -> csem (CAnd s) x = false) ->
      existsb (fun s => csem (CAnd s) x) sets = existsb (fun k => csem k x) kept /\
      Forall (fun k => exists s, In s sets /\ k = CAnd s /\ cleanb k = true) kept.
  Proof.
    induction sets as [|s r IH]; intros kept E Hs.
    - simpl in E. inversion E; subst. split; [reflexivity | constructor].
    - cbn [dnf_prune] in E. destruct (rt_dupe (CAnd s)) as [rt|e] eqn:Er.
      + destruct (dnf_prune r) as [k|] eqn:Ek; [|discriminate]. inversion E; subst.
        destruct (IH k eq_refl) as [I1 I2]; [intros s' Hs'; apply Hs; right; exact Hs'|].
        split.
        * cbn [existsb]. rewrite I1. reflexivity.
        * constructor.
          -- exists s. split; [left; reflexivity | split; [reflexivity | apply (rt_ok_clean _ _ Er)]].
          -- eapply Forall_impl; [|exact I2]. intros a [s' [Hs' Ea]]. exists s'. split; [right; exact Hs' | exact Ea].
      + destruct e; try discriminate.
        destruct (IH kept E) as [I1 I2]; [intros s' Hs'; apply Hs; right; exact Hs'|].
        split.
        * cbn [existsb]. rewrite (Hs s (or_introl eq_refl) Er), I1. reflexivity.
        * eapply Forall_impl; [|exact I2]. intros a [s' [Hs' Ea]]. exists s'. split; [right; exact Hs' | exact Ea].
  Qed.
End DnfSound2.

(* ------------------------------------------------------------------ *)
(* unfolding cdnf                                                      *)

Lemma cdnf_atom_inv : forall fuel a e' ch, cdnf fuel (Atom a) = Ok (e', ch) -> e' = Atom a.
Proof. destruct fuel; simpl; intros a e' ch E; [discriminate | inversion E; reflexivity]. Qed.

Lemma cdnf_or_inv : forall fuel l e' ch,
    cdnf fuel (COr l) = Ok (e', ch) ->
    exists f rs, fuel = S f /\ mapM (cdnf f) l = Ok rs /\ e' = COr (map fst rs).
Proof.
  destruct fuel as [|f]; simpl; intros l e' ch E; [discriminate|].
  apply bind_ok in E. destruct E as [rs [Em E]]. inversion E; subst. exists f, rs. auto.
Qed.

Lemma cdnf_and_inv : forall fuel l e' ch,
    cdnf fuel (CAnd l) = Ok (e', ch) ->
    exists f rs ors others,
      fuel = S f /\ mapM (cdnf f) l = Ok rs /\ split_or (map fst rs) = (ors, others) /\
      ((ors = [] /\ e' = CAnd (map fst rs)) \/
       (ors <> [] /\ exists kept kids,
           dnf_prune (map (fun p => (others ++ p)%list) (product ors)) = Ok kept /\
           mapM (fun c => r <- cdnf f c ;; Ok (fst r)) kept = Ok kids /\ e' = COr kids)).
Proof.
  destruct fuel as [|f]; simpl; intros l e' ch E; [discriminate|].
  apply bind_ok in E. destruct E as [rs [Em E]].
  destruct (split_or (map fst rs)) as [ors others] eqn:Es.
  exists f, rs, ors, others. repeat (split; [reflexivity || assumption|]).
  destruct ors as [|o1 ors'].
  - left. inversion E; subst. auto.
  - right. split; [discriminate|].
    apply bind_ok in E. destruct E as [kept [Ek E]]. apply bind_ok in E. destruct E as [kids [Ekids E]].
    exists kept, kids. destruct (existsb is_empty_or kids); [discriminate|]. inversion E; subst. auto.
Qed.

Lemma Forall2_impl : forall {A B} (P Q : A -> B -> Prop) l1 l2,
    (forall a b, P a b -> Q a b) -> Forall2 P l1 l2 -> Forall2 Q l1 l2.
Proof. induction 2; constructor; auto. Qed.

Lemma Forall2_map_fst_eq : forall {A B} (l : list A) (rs : list (A * B)),
    Forall2 (fun c r => fst r = c) l rs -> map fst rs = l.
Proof. induction 1; simpl; congruence. Qed.

(* a node that is not an OR and whose DNF is not an OR contains no OR at all and is left alone *)
Lemma cdnf_non_or : forall fuel e e' ch,
    cdnf fuel e = Ok (e', ch) -> is_cor e = false -> is_cor e' = false -> or_freeb e = true /\ e' = e.
Proof.
  induction fuel as [|f IH]; intros e e' ch E N N'; [discriminate|].
  destruct e as [a|l|l]; [| |discriminate].
  - apply cdnf_atom_inv in E. subst. auto.
  - apply cdnf_and_inv in E. destruct E as [f' [rs [ors [others [Ef [Em [Es Ecase]]]]]]]. inversion Ef; subst f'.
    destruct Ecase as [[En Ee]|[_ [kept [kids [_ [_ Ee]]]]]]; [|subst e'; discriminate].
    subst ors e'. destruct (split_or_spec _ _ _ Es) as [H1 [_ H3]]. pose proof (H3 eq_refl) as Eo. subst others.
    apply mapM_Forall2 in Em.
    assert (Hn : forall a, In a (map fst rs) -> is_cor a = false) by (intros a Ha; apply (H1 a Ha)).
    assert (HF : Forall2 (fun c r => or_freeb c = true /\ fst r = c) l rs).
    { clear -Em Hn IH. induction Em as [|c r l rs Ec Em IHm]; constructor.
      - assert (Nr : is_cor (fst r) = false) by (apply (Hn (fst r)); left; reflexivity).
        destruct r as [c' ch']. simpl in *. apply (IH c c' ch' Ec); [|exact Nr].
        destruct c as [a|la|lo]; try reflexivity. destruct f; [discriminate|].
        simpl in Ec. apply bind_ok in Ec. destruct Ec as [rs' [_ Ec]]. inversion Ec; subst. discriminate.
      - apply IHm. intros a Ha. apply Hn. right. exact Ha. }
    split.
    + simpl. apply forallb_forall. intros c Hc. destruct (Forall2_In_l _ _ _ c HF Hc) as [r [_ [Fc _]]]. exact Fc.
    + f_equal. apply Forall2_map_fst_eq. apply (Forall2_impl _ _ _ _ (fun a b (HH : or_freeb a = true /\ fst b = a) => proj2 HH) HF).
Qed.

Section DnfSound3.
  Variable obj : Type.
  Variable otype : obj -> ustring.
  Variable H : ustring -> list step -> cop -> bool -> dconst -> obj -> bool.
  Hypothesis Hden : respects_denotation obj H.

  Notation csem := (csem obj otype H).

  Definition clean_ok (f : nat) : Prop :=
    forall e e' ch, cleanb e = true -> cdnf f e = Ok (e', ch) -> cleanb e' = true /\ forall x, csem e' x = csem e x.

  (* the distribution step, given that the operands are good and the recursive calls behave *)
  Lemma distribute_step : forall f l' ors others kept kids,
      clean_ok f ->
      split_or l' = (ors, others) ->
      (forall a, In a others -> goodb a = true) ->
      (forall ops a, In ops ors -> In a ops -> goodb a = true) ->
      dnf_prune (map (fun p => (others ++ p)%list) (product ors)) = Ok kept ->
      mapM (fun c => r <- cdnf f c ;; Ok (fst r)) kept = Ok kids ->
      cleanb (COr kids) = true /\ forall x, csem (COr kids) x = csem (CAnd l') x.
  Proof.
    intros f l' ors others kept kids IH Es Go Gp Ek Ekids.
    assert (Hsets : forall x s, In s (map (fun p => (others ++ p)%list) (product ors)) ->
                           rt_dupe (CAnd s) = Err EValue -> csem (CAnd s) x = false).
    { intros x s Hs Er. apply (rtsem_and obj otype H); [|exact Er].
      intros a Ha. apply (good_rtsem obj otype H).
      apply in_map_iff in Hs. destruct Hs as [p [<- Hp]]. apply in_app_or in Ha. destruct Ha as [Ha|Ha].
      - apply Go; exact Ha.
      - destruct (product_In ors p a Hp Ha) as [ops [Ho Hao]]. apply (Gp ops a Ho Hao). }
    apply mapM_Forall2 in Ekids.
    assert (HK : Forall2 (fun k kid => cleanb kid = true /\ forall x, csem kid x = csem k x) kept kids).
    { pose proof (fun x => proj2 (dnf_prune_spec obj otype H x _ _ Ek (Hsets x))) as Hk.
      assert (Hclean : Forall (fun k => cleanb k = true) kept).
      { destruct kept as [|k0 kept0]; [constructor|].
        (* any object will do to extract the cleanliness fact; none needed if there is no object: use the statement directly *)
        clear -Ek. revert Ek. generalize (map (fun p => (others ++ p)%list) (product ors)). intro sets.
        generalize (k0 :: kept0). clear. intros kept. revert kept.
        induction sets as [|s r IHs]; intros kept E.
        - simpl in E. inversion E. constructor.
        - cbn [dnf_prune] in E. destruct (rt_dupe (CAnd s)) as [rt|e] eqn:Er.
          + destruct (dnf_prune r) as [k|] eqn:Ekk; [|discriminate]. inversion E; subst.
            constructor; [apply (rt_ok_clean _ _ Er) | apply IHs; reflexivity].
          + destruct e; try discriminate. apply IHs; exact E. }
      clear Hk. revert Hclean. clear -Ekids IH. induction Ekids as [|k kid kept kids Ek _ IHk]; intro Hc; constructor.
      - inversion Hc as [|k1 kept1 Ck Ckept]; subst. apply bind_ok in Ek. destruct Ek as [[e' ch] [Ed Er]].
        inversion Er as [Ekid]. simpl in Ekid. rewrite <- Ekid. apply (IH k e' ch); assumption.
      - inversion Hc; subst. apply IHk; assumption. }
    split.
    - simpl. apply forallb_forall. intros kid Hkid. destruct (Forall2_In_r _ _ _ kid HK Hkid) as [k [_ [Ck _]]]. exact Ck.
    - intro x. rewrite (distribute_sem obj otype H x l' ors others Es).
      destruct (dnf_prune_spec obj otype H x _ _ Ek (Hsets x)) as [-> _].
      simpl. symmetry. apply (Forall2_existsb (fun k => csem k x) (fun kid => csem kid x)).
      eapply Forall2_impl; [|exact HK]. simpl. intros a b [_ Eab]. symmetry. apply Eab.
  Qed.

  (* validated input (what the recursive calls on freshly built nodes see) *)
  Lemma cdnf_clean : forall f, clean_ok f.
  Proof.
    induction f as [|f IH]; intros e e' ch C E; [discriminate|].
    destruct e as [a|l|l].
    - apply cdnf_atom_inv in E. subst. auto.
    - apply cdnf_and_inv in E. destruct E as [f' [rs [ors [others [Ef [Em [Es Ecase]]]]]]]. inversion Ef; subst f'.
      apply mapM_Forall2 in Em.
      cbn [cleanb] in C. apply andb_true_iff in C. destruct C as [Cl Ck]. rewrite forallb_forall in Cl.
      assert (HF : Forall2 (fun c r => cleanb (fst r) = true /\ forall x, csem (fst r) x = csem c x) l rs).
      { clear -Em Cl IH. induction Em as [|c r l rs Ec Em IHm]; constructor.
        - destruct r as [c' ch']. apply (IH c c' ch'); [apply Cl; left; reflexivity | exact Ec].
        - apply IHm. intros a Ha. apply Cl. right. exact Ha. }
      assert (Hsem : forall x, csem (CAnd (map fst rs)) x = csem (CAnd l) x).
      { intro x. simpl. symmetry. apply (Forall2_forallb (fun c => csem c x) (fun c => csem c x)).
        rewrite <- (map_id l) at 1. clear -HF. induction HF; simpl; constructor; [symmetry; apply H0 | assumption]. }
      assert (Hclean' : forall a, In a (map fst rs) -> cleanb a = true).
      { intros a Ha. apply in_map_iff in Ha. destruct Ha as [r [<- Hr]].
        destruct (Forall2_In_r _ _ _ r HF Hr) as [c [_ [Cr _]]]. exact Cr. }
      destruct (split_or_spec _ _ _ Es) as [H1 [H2 H3]].
      destruct Ecase as [[En Ee]|[Nn [kept [kids [Ek [Ekids Ee]]]]]].
      + subst ors e'. pose proof (H3 eq_refl) as Eo. subst others.
        assert (Hn : forall a, In a (map fst rs) -> is_cor a = false) by (intros a Ha; apply (H1 a Ha)).
        assert (El : map fst rs = l).
        { apply Forall2_map_fst_eq. clear -Em Hn. induction Em as [|c r l rs Ec Em IHm]; constructor.
          - assert (Nr : is_cor (fst r) = false) by (apply (Hn (fst r)); left; reflexivity).
            destruct r as [c' ch']. simpl in *.
            apply (cdnf_non_or f c c' ch' Ec); [|exact Nr].
            destruct c as [a|la|lo]; try reflexivity. apply cdnf_or_inv in Ec. destruct Ec as [f0 [rs0 [_ [_ Ec]]]]. subst c'. discriminate.
          - apply IHm. intros a Ha. apply Hn. right. exact Ha. }
        rewrite El. split; [|auto]. cbn [cleanb]. apply andb_true_iff. split; [apply forallb_forall; exact Cl | exact Ck].
      + subst e'.
        destruct (distribute_step f (map fst rs) ors others kept kids IH Es) as [Ckids Skids]; auto.
        * intros a Ha. unfold goodb. rewrite (Hclean' a (proj1 (H1 a Ha))). reflexivity.
        * intros ops a Ho Ha. unfold goodb. pose proof (Hclean' _ (H2 ops Ho)) as Co. simpl in Co.
          rewrite forallb_forall in Co. rewrite (Co a Ha). reflexivity.
        * split; [exact Ckids|]. intro x. rewrite Skids. apply Hsem.
    - apply cdnf_or_inv in E. destruct E as [f' [rs [Ef [Em Ee]]]]. inversion Ef; subst f' e'.
      apply mapM_Forall2 in Em. simpl in C. rewrite forallb_forall in C.
      assert (HF : Forall2 (fun c r => cleanb (fst r) = true /\ forall x, csem (fst r) x = csem c x) l rs).
      { clear -Em C IH. induction Em as [|c r l rs Ec Em IHm]; constructor.
        - destruct r as [c' ch']. apply (IH c c' ch'); [apply C; left; reflexivity | exact Ec].
        - apply IHm. intros a Ha. apply C. right. exact Ha. }
      split.
      + simpl. apply forallb_forall. intros a Ha. apply in_map_iff in Ha. destruct Ha as [r [<- Hr]].
        destruct (Forall2_In_r _ _ _ r HF Hr) as [c [_ [Cr _]]]. exact Cr.
      + intro x. simpl. symmetry. apply (Forall2_existsb (fun c => csem c x) (fun c => csem c x)).
        rewrite <- (map_id l) at 1. clear -HF. induction HF; simpl; constructor; [symmetry; apply H0 | assumption].
  Qed.
End DnfSound3.

Section DnfSound4.
  Variable obj : Type.
  Variable otype : obj -> ustring.
  Variable H : ustring -> list step -> cop -> bool -> dconst -> obj -> bool.
  Hypothesis Hden : respects_denotation obj H.

  Notation csem := (csem obj otype H).

  Lemma good_or_operands : forall ops, goodb (COr ops) = true -> forall a, In a ops -> goodb a = true.
  Proof.
    intros ops G a Ha. unfold goodb in G. simpl in G. rewrite orb_false_r in G. rewrite forallb_forall in G.
    unfold goodb. rewrite (G a Ha). reflexivity.
  Qed.

  (* flat input: what the settle loop hands to DNF *)
  Lemma cdnf_flat : forall f e e' ch,
      flatb e = true -> cdnf f e = Ok (e', ch) ->
      (forall x, csem e' x = csem e x) /\
      (if is_cor e then exists ops, e' = COr ops /\ forallb goodb ops = true else goodb e' = true).
  Proof.
    induction f as [|f IH]; intros e e' ch F E; [discriminate|].
    destruct e as [a|l|l].
    - apply cdnf_atom_inv in E. subst. split; [auto | reflexivity].
    - apply cdnf_and_inv in E. destruct E as [f' [rs [ors [others [Ef [Em [Es Ecase]]]]]]]. inversion Ef; subst f'.
      apply mapM_Forall2 in Em. simpl in F. rewrite forallb_forall in F.
      assert (HF : Forall2 (fun c r => (forall x, csem (fst r) x = csem c x) /\
                                       (if is_cor c then exists ops, fst r = COr ops /\ forallb goodb ops = true
                                        else goodb (fst r) = true)) l rs).
      { clear -Em F IH. induction Em as [|c r l rs Ec Em IHm]; constructor.
        - destruct r as [c' ch']. apply (IH c c' ch'); [apply F; left; reflexivity | exact Ec].
        - apply IHm. intros a Ha. apply F. right. exact Ha. }
      assert (Hsem : forall x, csem (CAnd (map fst rs)) x = csem (CAnd l) x).
      { intro x. simpl. symmetry. apply (Forall2_forallb (fun c => csem c x) (fun c => csem c x)).
        rewrite <- (map_id l) at 1. clear -HF. induction HF; simpl; constructor; [symmetry; apply H0 | assumption]. }
      destruct (split_or_spec _ _ _ Es) as [H1 [H2 H3]].
      assert (Hn : forall a, In a others -> is_cor a = false) by (intros a Ha; apply (H1 a Ha)).
      (* an output that is not an OR comes from an input that is not an OR *)
      assert (Hout : forall c r, In r rs -> cdnf f c = Ok r -> is_cor (fst r) = false -> is_cor c = false).
      { intros c [c' ch'] _ Ec Nr. destruct c as [a|la|lo]; try reflexivity.
        apply cdnf_or_inv in Ec. destruct Ec as [f0 [rs0 [_ [_ Ec]]]]. simpl in Nr. subst c'. discriminate. }
      destruct Ecase as [[En Ee]|[Nn [kept [kids [Ek [Ekids Ee]]]]]].
      + subst ors e'. pose proof (H3 eq_refl) as Eo. subst others.
        assert (HX : Forall2 (fun c r => or_freeb c = true /\ fst r = c) l rs).
        { clear -Em Hn. induction Em as [|c r l rs Ec Em IHm]; constructor.
          - assert (Nr : is_cor (fst r) = false) by (apply (Hn (fst r)); left; reflexivity).
            destruct r as [c' ch']. simpl in *. apply (cdnf_non_or f c c' ch' Ec); [|exact Nr].
            destruct c as [a|la|lo]; try reflexivity. apply cdnf_or_inv in Ec. destruct Ec as [f0 [rs0 [_ [_ Ec]]]]. subst c'. discriminate.
          - apply IHm. intros a Ha. apply Hn. right. exact Ha. }
        assert (El : map fst rs = l)
          by (apply Forall2_map_fst_eq; apply (Forall2_impl _ _ _ _ (fun a b (HH : or_freeb a = true /\ fst b = a) => proj2 HH) HX)).
        rewrite El. split; [auto|]. simpl. unfold goodb. simpl. apply orb_true_iff. right.
        apply forallb_forall. intros c Hc. destruct (Forall2_In_l _ _ _ c HX Hc) as [r [_ [Fc _]]]. exact Fc.
      + subst e'.
        destruct (distribute_step obj otype H f (map fst rs) ors others kept kids (cdnf_clean obj otype H f) Es) as [Ckids Skids]; auto.
        * intros a Ha. destruct (H1 a Ha) as [Hin Na]. apply in_map_iff in Hin. destruct Hin as [r [Er Hr]].
          destruct (Forall2_In_r _ _ _ r HF Hr) as [c [Hc [_ Gc]]].
          destruct (Forall2_In_r _ _ _ r Em Hr) as [c2 [Hc2 Ec2]].
          (* c and c2 are the same position; use the output shape instead *)
          destruct (is_cor c) eqn:Ic.
          -- destruct Gc as [ops [Eo _]]. subst a. rewrite Eo in Na. discriminate Na.
          -- subst a. exact Gc.
        * intros ops a Ho Ha. pose proof (H2 ops Ho) as Hin. apply in_map_iff in Hin. destruct Hin as [r [Er Hr]].
          destruct (Forall2_In_r _ _ _ r HF Hr) as [c [Hc [_ Gc]]].
          destruct (is_cor c).
          -- destruct Gc as [ops' [Eo Go]]. rewrite Er in Eo. inversion Eo; subst ops'.
             rewrite forallb_forall in Go. apply Go; exact Ha.
          -- rewrite Er in Gc. apply (good_or_operands ops Gc a Ha).
        * split; [intro x; rewrite Skids; apply Hsem|]. simpl. unfold goodb. rewrite Ckids. reflexivity.
    - apply cdnf_or_inv in E. destruct E as [f' [rs [Ef [Em Ee]]]]. inversion Ef; subst f' e'.
      apply mapM_Forall2 in Em. simpl in F. rewrite forallb_forall in F.
      assert (HF : Forall2 (fun c r => (forall x, csem (fst r) x = csem c x) /\ goodb (fst r) = true) l rs).
      { clear -Em F IH. induction Em as [|c r l rs Ec Em IHm]; constructor.
        - destruct r as [c' ch'].
          assert (Fc : flatb c && negb (is_cor c) = true) by (apply F; left; reflexivity).
          apply andb_true_iff in Fc. destruct Fc as [Fc Nc]. apply negb_true_iff in Nc.
          destruct (IH c c' ch' Fc Ec) as [S G]. rewrite Nc in G. split; assumption.
        - apply IHm. intros a Ha. apply F. right. exact Ha. }
      split.
      + intro x. simpl. symmetry. apply (Forall2_existsb (fun c => csem c x) (fun c => csem c x)).
        rewrite <- (map_id l) at 1. clear -HF. induction HF; simpl; constructor; [symmetry; apply H0 | assumption].
      + simpl. exists (map fst rs). split; [reflexivity|]. apply forallb_forall. intros a Ha.
        apply in_map_iff in Ha. destruct Ha as [r [<- Hr]]. destruct (Forall2_In_r _ _ _ r HF Hr) as [c [_ [_ Gr]]]. exact Gr.
  Qed.
End DnfSound4.

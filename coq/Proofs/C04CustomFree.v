(* Proofs/C04CustomFree.v -- strict_custom_free: what "no custom content at any depth" means for a
   constructed object (cf_obj: every member is a property of its class; hash dictionaries use
   specification names only; references name registered types without the x- prefix; embedded
   objects and lists of objects are custom-free in turn; no object carries the custom flag), and the
   proof that every allow_custom=False constructor run returns such an object.          *)
From Coq Require Import NArith ZArith List String Bool Lia Permutation.
From V Require Import Base.UString Base.Json Model.SchemaTypes Model.PyBase Model.Schema.
From V Require Import Proofs.C01Basics Proofs.C01Kinds Proofs.C01Float Proofs.C01KindsAll Proofs.C01Sort Proofs.C01Object
  Proofs.C01Roundtrip Proofs.C01Parse Proofs.C04Strict Proofs.C04Flag Spec.CustomFree.
Import ListNotations.


Section KindCF.
  Variable vr : variant.
  Variable w : world.
  Variable rc : ustring -> bool -> bool -> list (ustring * jvalue) -> result pval.
  Variable rp : bool -> bool -> list (ustring * jvalue) -> result pval.
  Variable ro : ver -> list (ustring * ustring) -> bool -> list (ustring * jvalue) -> result pval.
  Variable P : ustring -> bool.
  Variable cfo : ustring -> pval -> bool.

  Notation CK := (clean_kind vr w rc rp ro).

  Hypothesis Hrc : forall cid0 i d o, P cid0 = true -> plain_dict d = true -> rc cid0 false i d = Ok o -> cfo cid0 o = true.
  Hypothesis Hnoobs : forall vv, P (obs_tag vv) = false.

  Lemma hashes_loop_cf : forall names l acc hc p h,
    hashes_loop vr names false l acc hc = Ok (p, h) -> hc = false ->
    forallb (fun kv : ustring * pval => mem_ustr (fst kv) names) acc = true ->
    exists acc', p = PMap acc' /\ forallb (fun kv : ustring * pval => mem_ustr (fst kv) names) acc' = true.
  Proof.
    intros names. induction l as [| [k hv] r IH]; intros acc hc p h H Hc Ha.
    - cbn [hashes_loop] in H. inv_ok H. eauto.
    - rewrite hashes_loop_step in H. destruct (hash_value_ok vr k hv).
      + destruct (hash_target names k) as [n c] eqn:T. cbn [negb andb] in H. subst hc. cbn [orb] in H.
        destruct c; try discriminate.
        eapply IH; [exact H | reflexivity |].
        assert (Hn : mem_ustr n names = true).
        { unfold hash_target in T. destruct (infer_hash k) as [alg |].
          - destruct (hash_spec_name names alg) as [n' |] eqn:Sp; [| discriminate]. injection T as T1. subst n'.
            unfold hash_spec_name in Sp. apply find_some in Sp. destruct Sp as [Sp _]. apply in_rev in Sp.
            apply mem_ustr_In. exact Sp.
          - injection T as T1 T2. subst n. apply negb_false_iff in T2. exact T2. }
        clear - Ha Hn. induction acc as [| [k' v'] a IHa]; cbn [aset forallb fst].
        * rewrite Hn. reflexivity.
        * cbn [forallb fst] in Ha. apply andb_true_iff in Ha. destruct Ha as [A1 A2].
          destruct (ustr_eqb n k'); cbn [forallb fst]; [rewrite Hn, A2 | rewrite A1, (IHa A2)]; reflexivity.
      + destruct (infer_hash k); [destruct hv; discriminate |]. inv_ok H. eauto.
  Qed.

  Theorem clean_kind_cf : forall k, kind_proved vr P k = true ->
    forall interop v p hc, plain_json v = true ->
    CK k false interop v = Ok (p, hc) -> cf_val w cfo k p = true.
  Proof.
    induction k; intros Hk interop jv pv hcv Hv H; cbn [kind_proved] in Hk; try discriminate;
      try (rewrite Hnoobs in Hk; discriminate); cbn [cf_val]; try reflexivity;
      cbn [clean_kind] in H; try discriminate.
    - (* hashes *)
      unfold clean_hashes, bind in H. destruct (clean_dictionary vr v jv); try discriminate.
      destruct (hashes_loop_cf names a [] false pv hcv H eq_refl eq_refl) as [acc' [Ep Ha]]. subst pv. exact Ha.
    - (* reference *)
      unfold clean_reference, bind in H.
      destruct (py_str jv) as [s | |]; try discriminate.
      destruct (validate_id vr s v None interop); try discriminate.
      match type of H with (if ?b then _ else _) = _ => destruct b; try discriminate end.
      cbn [negb andb] in H.
      match type of H with (if ?b then _ else _) = _ => destruct b eqn:Eh; try discriminate end.
      inv_ok H. apply orb_false_iff in Eh. destruct Eh as [E1 E2]. apply negb_false_iff in E1. rewrite E1, E2. reflexivity.
    - (* embedded *)
      destruct jv; try discriminate. unfold bind in H.
      destruct (reserved_kw m) as [[] | |]; try discriminate.
      destruct (rc cls false false m) as [o | |] eqn:Eo; try discriminate.
      rewrite plain_json_obj in Hv.
      destruct (negb false && pval_has_custom o); try discriminate. inv_ok H. eapply Hrc; eauto.
    - (* list *)
      unfold bind in H. destruct (list_items jv) as [l | |] eqn:El; try discriminate.
      destruct (clean_items (CK k false interop) l) as [[res h] | |] eqn:Ec; try discriminate.
      destruct (finish_list_encode _ _ _ _ _ H) as [Ep Eh]. subst pv hcv.
      pose proof (list_items_plain jv l Hv El) as Hl. clear H El.
      revert res h Ec. induction l as [| x r IHl]; intros res h Ec; cbn [clean_items] in Ec.
      + inv_ok Ec. reflexivity.
      + unfold bind in Ec. destruct (CK k false interop x) as [[p hc] | |] eqn:Ex; try discriminate.
        destruct (clean_items (CK k false interop) r) as [[res' h'] | |] eqn:Er; try discriminate. inv_ok Ec.
        cbn [forallb] in Hl. apply andb_true_iff in Hl. destruct Hl as [Hx Hr].
        cbn [fst forallb]. rewrite (IHk Hk interop x p hc Hx Ex). cbn [andb]. eapply IHl; eauto.
    - (* list of objects *)
      unfold bind in H. destruct (list_items jv) as [l | |] eqn:El; try discriminate.
      destruct (listof_items rc cls false interop l) as [[res h] | |] eqn:Ec; try discriminate.
      destruct (finish_list_encode _ _ _ _ _ H) as [Ep Eh]. subst pv hcv.
      pose proof (list_items_plain jv l Hv El) as Hl. clear H El.
      revert res h Ec. induction l as [| x r IHl]; intros res h Ec; cbn [listof_items] in Ec.
      + inv_ok Ec. reflexivity.
      + destruct x; try discriminate. unfold bind in Ec.
        cbn [forallb] in Hl. apply andb_true_iff in Hl. destruct Hl as [Hx Hr]. rewrite plain_json_obj in Hx.
        destruct (reserved_kw m) as [[] | |]; try discriminate.
        destruct (rc cls false interop m) as [o | |] eqn:Eo; try discriminate.
        destruct (listof_items rc cls false interop r) as [[res' h'] | |] eqn:Er; try discriminate. inv_ok Ec.
        cbn [fst forallb]. rewrite (Hrc cls interop m o Hk Hx Eo). cbn [andb]. eapply IHl; eauto.
  Qed.
End KindCF.

(* ------------------------------------------------------------------ one class *)
Section ObjCF.
  Variable vr : variant.
  Variable ev : env.
  Variable w : world.
  Variable pattern_ok : ver -> ustring -> bool.
  Variable selectors_ok : list (ustring * pval) -> pval -> result bool.
  Variable rc : ustring -> bool -> bool -> list (ustring * jvalue) -> result pval.
  Variable rp : bool -> bool -> list (ustring * jvalue) -> result pval.
  Variable ro : ver -> list (ustring * ustring) -> bool -> list (ustring * jvalue) -> result pval.
  Variable P : ustring -> bool.
  Variable cfo : ustring -> pval -> bool.
  Hypothesis Hrc : forall cid0 i d o, P cid0 = true -> plain_dict d = true -> rc cid0 false i d = Ok o -> cfo cid0 o = true.
  Hypothesis Hnoobs : forall vv, P (obs_tag vv) = false.

  Variable c : cls.
  Variable interop : bool.
  Variable vrefs : option (list (ustring * ustring)).
  Hypothesis Hnodup : NoDup (map sname (cslots c)).
  Hypothesis Hslots : forallb (slot_ok vr P) (cslots c) = true.

  Notation CK := (clean_kind vr w rc rp ro).
  Notation STEP := (step vr ev w rc rp ro c false interop vrefs).
  Notation LOOP := (assign_loop vr ev w rc rp ro c false interop vrefs).

  (* every stored member is a property of the class and its value is custom-free *)
  Definition cf_values (s : list (ustring * pval)) : Prop :=
    forall n v, alookup n s = Some v -> exists sl, slot_of c n = Some sl /\ cf_val w cfo (skind sl) v = true.

  Lemma cf_aset : forall n sl v s, cf_values s -> slot_of c n = Some sl -> cf_val w cfo (skind sl) v = true ->
    cf_values (aset n v s).
  Proof.
    intros n sl v s Hs Hsl Hv m x Hm. destruct (ustr_eqb m n) eqn:E.
    - apply ustr_eqb_eq in E. subst m. rewrite alookup_aset_same in Hm. inv Hm. eauto.
    - rewrite alookup_aset_other in Hm; [eapply Hs; eauto |]. intros E2. subst. rewrite ustr_eqb_refl in E. discriminate.
  Qed.

  Lemma step_cf : forall K n sl s hc s' hc',
    (forall j, alookup n K = Some j -> nullish j = false /\ plain_json j = true /\ n <> ext_key) ->
    amem n s = false -> slot_of c n = Some sl ->
    STEP K n s hc = Ok (s', hc') -> cf_values s -> cf_values s'.
  Proof.
    intros K n sl s hc s' hc' HK Hf Es H Hs.
    pose proof (slot_of_ok vr P c Hslots _ _ Es) as Hok. unfold slot_ok in Hok.
    apply andb_true_iff in Hok. destruct Hok as [Hok _]. apply andb_true_iff in Hok. destruct Hok as [Hok _].
    apply andb_true_iff in Hok. destruct Hok as [Hkind Hdef].
    destruct (slot_of_In c n sl Es) as [_ En].
    destruct (alookup n K) as [j |] eqn:Ek.
    - destruct (HK j eq_refl) as [Hn [Hp Hne]].
      pose proof (step_given_value vr ev w rc rp ro c false interop vrefs _ _ _ _ _ _ _ Ek Hn H) as Hv.
      destruct (step_shape vr ev w rc rp ro c false interop vrefs _ _ _ _ _ _ H) as [E | [v E]]; subst s'; [exact Hs |].
      rewrite Es in Hv. rewrite alookup_aset_same in Hv. destruct Hv as [v0 [h [E1 E2]]]. inv E1.
      assert (Hkp : kind_proved vr P (skind sl) = true).
      { apply orb_true_iff in Hkind. destruct Hkind as [Hk | Hk]; auto. apply ustr_eqb_eq in Hk. congruence. }
      eapply cf_aset; eauto. eapply (clean_kind_cf vr w rc rp ro P cfo Hrc Hnoobs); eauto.
    - unfold step in H. rewrite assign_raw_spec in H. rewrite Ek in H. rewrite Es in H.
      subst n. apply amem_alookup_none in Hf.
      unfold bind in H.
      destruct (check_property vr ev w rc rp ro c sl false interop vrefs s) as [[a b] | |] eqn:Ec; try discriminate. inv_ok H. cbn [fst].
      unfold check_property, default_value, bind in Ec. rewrite Hf in Ec.
      destruct (sdef sl) eqn:Ed.
      + cbn [fst snd] in Ec. unfold clean_present in Ec. rewrite Hf in Ec. inv_ok Ec. exact Hs.
      + destruct (skind sl) eqn:Eknd; try discriminate. cbn [fst snd] in Ec.
        unfold clean_present in Ec. rewrite alookup_aset_same in Ec. rewrite Eknd in Ec. cbn [clean_kind] in Ec.
        rewrite jvalue_eqb_refl in Ec. unfold bind in Ec.
        destruct (refs_ok c sl vrefs (PJ (JStr v))); try discriminate. inv_ok Ec. rewrite aset_aset.
        eapply cf_aset; eauto. rewrite Eknd. reflexivity.
      + destruct (skind sl) eqn:Eknd; try discriminate. unfold bind in Ec.
        destruct (ts_clean_now (vr_year_pad vr) p c0 (e_now ev)) as [[us txt] | |]; try discriminate.
        cbn [fst snd] in Ec. unfold clean_present in Ec. rewrite alookup_aset_same in Ec. inv_ok Ec.
        eapply cf_aset; eauto. rewrite Eknd. reflexivity.
      + destruct (skind sl) eqn:Eknd; try discriminate. cbn [fst snd] in Ec.
        unfold clean_present in Ec. rewrite alookup_aset_same in Ec. rewrite Eknd in Ec.
        cbn [clean_kind] in Ec. unfold bind in Ec.
        destruct (validate_id vr (prefix ++ e_uuid4 ev) v (Some prefix) interop); try discriminate.
        destruct (refs_ok c sl vrefs (PJ (JStr (prefix ++ e_uuid4 ev)))); try discriminate. inv_ok Ec. rewrite aset_aset.
        eapply cf_aset; eauto. rewrite Eknd. reflexivity.
      + destruct (skind sl) eqn:Eknd; try discriminate. destruct j; try discriminate. cbn [fst snd] in Ec.
        unfold clean_present in Ec. rewrite alookup_aset_same in Ec. rewrite Eknd in Ec. cbn [clean_kind clean_bool] in Ec.
        unfold bind in Ec. destruct (refs_ok c sl vrefs (PJ (JBool b0))); try discriminate. inv_ok Ec. rewrite aset_aset.
        eapply cf_aset; eauto. rewrite Eknd. reflexivity.
  Qed.

  Lemma loop_cf : forall K l s hc S hcf,
    NoDup l -> (forall n, In n l -> amem n s = false) -> (forall n, In n l -> exists sl, slot_of c n = Some sl) ->
    (forall n j, In n l -> alookup n K = Some j -> nullish j = false /\ plain_json j = true /\ n <> ext_key) ->
    LOOP K [] [] l s hc = Ok (S, hcf) -> cf_values s -> cf_values S.
  Proof.
    induction l as [| n rest IH]; intros s hc S hcf ND Hf Hsl HK H Hs.
    - cbn [assign_loop] in H. inv_ok H. exact Hs.
    - rewrite loop_cons in H. unfold bind in H.
      destruct (STEP K n s hc) as [[s1 h1] | |] eqn:Es; try discriminate. cbn [fst snd] in H.
      inversion ND; subst.
      destruct (Hsl n (or_introl eq_refl)) as [sl Hn].
      eapply (IH s1 h1 S hcf); eauto.
      + intros m Hm. unfold amem. rewrite (sos_frame _ _ _ m (step_shape vr ev w rc rp ro c false interop vrefs _ _ _ _ _ _ Es)).
        * apply Hf. right. exact Hm.
        * intros E2. subst. contradiction.
      + intros m Hm. apply Hsl. right. exact Hm.
      + intros m j Hm. apply HK. right. exact Hm.
      + eapply step_cf; eauto.
        * intros j. apply HK. left. reflexivity.
        * apply Hf. left. reflexivity.
  Qed.

  Lemma cf_values_forallb : forall S, cf_values S -> NoDup (map fst S) ->
    forallb (fun kv => match slot_of c (fst kv) with
                       | Some sl => cf_val w cfo (skind sl) (snd kv)
                       | None => false
                       end) S = true.
  Proof.
    intros S H ND. apply forallb_forall. intros [n v] Hin. cbn [fst snd].
    destruct (H n v (alookup_NoDup _ _ _ _ ND Hin)) as [sl [E1 E2]]. rewrite E1. exact E2.
  Qed.

  (* a strict generic constructor run on plain keyword arguments *)
  Lemma cg_cf : forall fuel kw o,
    plain_dict kw = true ->
    construct_generic vr ev w pattern_ok selectors_ok rc rp ro fuel c false interop kw [] vrefs = Ok o ->
    exists S, o = PObject (cid c) S (defaulted_names c S) false /\ cf_values S /\ NoDup (map fst S).
  Proof.
    intros fuel kw o Hp H.
    pose proof (cg_nodup vr ev w pattern_ok selectors_ok rc rp ro c false interop vrefs Hnodup fuel kw) as Hcn.
    destruct (plain_dict_no_key kw Hp) as [Hcp Hext].
    apply amem_alookup_none in Hcp. apply amem_alookup_none in Hext.
    pose proof H as H0.
    rewrite (cg_plain vr ev w pattern_ok selectors_ok rc rp ro c false interop vrefs fuel kw Hcp Hext) in H.
    cbv zeta in H.
    destruct (filter (notPN c) (akeys kw)) as [| e0 E0] eqn:HE; try discriminate.
    cbn [app filter udedup] in H.
    match type of H with (if ?g then _ else _) = _ => destruct g eqn:Epre; try discriminate end.
    unfold bind in H.
    match type of H with match ?g with _ => _ end = _ => destruct g as [[S0 hc0] | |] eqn:EL; try discriminate end.
    assert (Hhc : o = PObject (cid c) S0 (defaulted_names c S0) false).
    { unfold cg_tail in H.
      destruct (existsb (fun s => sreq s && negb (amem (sname s) S0)) (cslots c)); try discriminate.
      unfold bind in H.
      match type of H with match ?g with _ => _ end = _ => destruct g as [[] | |]; try discriminate end.
      match type of H with match ?g with _ => _ end = _ => destruct g as [[] | |]; try discriminate end.
      match type of H with (if ?g then _ else _) = _ => destruct g; try discriminate end. inv_ok H. reflexivity. }
    subst o. exists S0. split; [reflexivity |]. split; [| eapply Hcn; eauto].
    assert (Hl : forall n, In n (PN c ++ usort []) -> In n (PN c)).
    { intros n Hn. apply in_app_or in Hn. destruct Hn as [Hn | Hn]; auto. apply (proj1 (In_usort _ _)) in Hn. contradiction. }
    eapply (loop_cf kw (PN c ++ usort []) [] _ S0 hc0); [| | | | exact EL |].
    - apply NoDup_app_disj; [exact Hnodup | apply NoDup_usort; constructor |].
      intros x _ Hx. apply (proj1 (In_usort _ _)) in Hx. contradiction.
    - intros; reflexivity.
    - intros n Hn. apply Hl in Hn. unfold PN in Hn. apply in_map_iff in Hn. destruct Hn as [sl [En Hsl]].
      exists sl. rewrite <- En. apply slot_of_unique; auto.
    - intros n j _ Hj. destruct (plain_dict_lookup kw n j Hp Hj) as [A B]. repeat split; auto.
      intros En. subst n. rewrite Hext in Hj. discriminate.
    - intros n v Hn. discriminate.
  Qed.
End ObjCF.

(* ------------------------------------------------------------------ the knot *)
Lemma forallb_aset : forall (f : ustring * pval -> bool) n v s,
  forallb f s = true -> f (n, v) = true -> forallb f (aset n v s) = true.
Proof.
  intros f n v. induction s as [| [k x] r IH]; intros Hs Hv; cbn [aset forallb].
  - rewrite Hv. reflexivity.
  - cbn [forallb] in Hs. apply andb_true_iff in Hs. destruct Hs as [A B].
    destruct (ustr_eqb n k); cbn [forallb]; [rewrite Hv, B | rewrite A, (IH B Hv)]; reflexivity.
Qed.

Section RunCF.
  Variable vr : variant.
  Variable ev : env.
  Variable w : world.
  Variable pattern_ok : ver -> ustring -> bool.
  Variable selectors_ok : list (ustring * pval) -> pval -> result bool.
  Variable ids : list ustring.
  Hypothesis Hclosed : closed_oki vr w ids = true.

  Notation RUN := (run vr ev w pattern_ok selectors_ok).

  Definition claim_cf (fuel : nat) : Prop :=
    forall kid interop kw vrefs o,
      mem_ustr kid ids = true -> plain_dict kw = true ->
      RUN fuel (RConstruct kid false interop kw vrefs) = Ok o -> cf_obj w fuel kid o = true.

  Theorem run_strict_custom_free : forall fuel, claim_cf fuel.
  Proof.
    induction fuel as [| f IH]; intros kid interop kw vrefs o Hm Hp H.
    - cbn [run] in H. discriminate.
    - cbn [run] in H.
      destruct (find_class (wclasses w) kid) as [c |] eqn:Ef; try discriminate.
      pose proof (ids_class_oki vr w ids Hclosed kid c Hm Ef) as Hok. unfold class_oki in Hok.
      apply andb_true_iff in Hok. destruct Hok as [Hok Hidslot]. apply andb_true_iff in Hok. destruct Hok as [Hok Hinit].
      apply andb_true_iff in Hok. destruct Hok as [Hnd Hslots]. apply nodupb_NoDup in Hnd.
      destruct (amem (u "_valid_refs") kw || amem (u "allow_custom") kw || amem (u "interoperability") kw || amem (u "self") kw);
        try discriminate.
      set (vrf := match cfamily c with FSco => Some match vrefs with Some r => r | None => [] end | _ => None end) in *.
      set (rc := fun k a0 i kw0 => RUN f (RConstruct k a0 i kw0 None)) in *.
      set (rp := fun a0 i d => RUN f (RParse a0 i None d)) in *.
      set (ro := fun vv refs a0 d => RUN f (RParseObs (Some vv) refs a0 false d)) in *.
      assert (Hrc : forall cid0 i d o0, nestable w ids cid0 = true -> plain_dict d = true -> rc cid0 false i d = Ok o0 ->
                                        cf_obj w f cid0 o0 = true).
      { intros cid0 i d o0 Hn Hd Ho. unfold nestable in Hn. apply andb_true_iff in Hn. destruct Hn as [Hn _].
        eapply IH; eauto. }
      unfold bind in H.
      assert (Hgen : exists kw1 obj, plain_dict kw1 = true /\
                construct_generic vr ev w pattern_ok selectors_ok rc rp ro (S f) c false interop kw1 [] vrf = Ok obj /\
                match obj, cfamily c, cver c with
                | PObject ocid inner dfl hc, FSco, V21 =>
                  if amem (u "id") kw then Ok obj
                  else if existsb (fun p => amem p inner) (cidcontrib c) then
                    match ctype c with
                    | Some t => Ok (PObject ocid (aset (u "id") (PJ (JStr (t ++ u "--" ++ e_uuid5 ev))) inner) dfl hc)
                    | None => Unmodelled
                    end
                  else Ok obj
                | _, _, _ => Ok obj
                end = Ok o).
      { unfold ind_ok in Hinit.
        destruct (cinit c) as [| names | | | | |] eqn:Ei; cbn [init_ok orb] in Hinit; try discriminate.
        - match type of H with match ?g with _ => _ end = _ => destruct g as [obj | |] eqn:Eg; try discriminate end.
          exists kw, obj. repeat split; auto.
        - match type of H with match ?g with _ => _ end = _ => destruct g as [obj | |] eqn:Eg; try discriminate end.
          eexists; exists obj. split; [| split; [exact Eg | exact H]].
          unfold plain_dict in *. apply forallb_forall. intros x Hx. apply filter_In in Hx. destruct Hx as [Hx _].
          rewrite forallb_forall in Hp. apply Hp. exact Hx.
        - change (match construct_generic vr ev w pattern_ok selectors_ok rc rp ro (S f) c false interop (ind_kw kw) [] vrf with
                  | Ok obj => match obj, cfamily c, cver c with
                              | PObject ocid inner dfl hc, FSco, V21 =>
                                if amem (u "id") kw then Ok obj
                                else if existsb (fun p => amem p inner) (cidcontrib c) then
                                  match ctype c with
                                  | Some t => Ok (PObject ocid (aset (u "id") (PJ (JStr (t ++ u "--" ++ e_uuid5 ev))) inner) dfl hc)
                                  | None => Unmodelled
                                  end
                                else Ok obj
                              | _, _, _ => Ok obj
                              end
                  | Err e => Err e
                  | Unmodelled => Unmodelled
                  end = Ok o) in H.
          match type of H with match ?g with _ => _ end = _ => destruct g as [obj | |] eqn:Eg; try discriminate end.
          exists (ind_kw kw), obj. split; [apply ind_kw_plain; exact Hp |]. split; [exact Eg | exact H].
        - match type of H with match ?g with _ => _ end = _ => destruct g as [obj | |] eqn:Eg; try discriminate end.
          exists kw, obj. repeat split; auto.
        - match type of H with match ?g with _ => _ end = _ => destruct g as [obj | |] eqn:Eg; try discriminate end.
          exists kw, obj. repeat split; auto. }
      destruct Hgen as [kw1 [obj [Hp1 [Hcg Hpost]]]].
      destruct (cg_cf vr ev w pattern_ok selectors_ok rc rp ro (nestable w ids) (cf_obj w f) Hrc (nestable_no_tag w ids) c interop vrf Hnd Hslots
                  (S f) kw1 obj Hp1 Hcg) as [S0 [Eobj [Hcf HndS]]].
      subst obj.
      pose proof (cf_values_forallb w (cf_obj w f) c S0 Hcf HndS) as Hall.
      pose proof (find_class_cid _ _ _ Ef) as Ecid. subst kid.
      assert (Hbase : cf_obj w (S f) (cid c) (PObject (cid c) S0 (defaulted_names c S0) false) = true).
      { cbn [cf_obj]. rewrite ustr_eqb_refl, Ef. cbn [negb andb]. exact Hall. }
      destruct (cfamily c) eqn:Efam; try (inv Hpost; exact Hbase).
      destruct (cver c) eqn:Ever; try (inv Hpost; exact Hbase).
      destruct (amem (u "id") kw); [inv Hpost; exact Hbase |].
      destruct (existsb (fun p => amem p S0) (cidcontrib c)); [| inv Hpost; exact Hbase].
      destruct (ctype c) as [t |]; try discriminate. inv Hpost.
      cbn [cf_obj]. rewrite ustr_eqb_refl, Ef. cbn [negb andb].
      apply forallb_aset; [exact Hall |]. cbn [fst snd].
      match goal with |- match slot_of c ?x with _ => _ end = true => change x with (u "id") end.
      unfold is_sco21 in Hidslot. rewrite Efam, Ever in Hidslot. cbn [negb orb] in Hidslot.
      destruct (slot_of c (u "id")) as [sl |] eqn:Esl; try discriminate.
      pose proof (slot_of_ok vr _ c Hslots _ _ Esl) as Hok. unfold slot_ok in Hok.
      apply andb_true_iff in Hok. destruct Hok as [Hok _]. apply andb_true_iff in Hok. destruct Hok as [Hok _].
      apply andb_true_iff in Hok. destruct Hok as [_ Hdef].
      destruct (sdef sl); try discriminate. destruct (skind sl); try discriminate. reflexivity.
  Qed.

  (* either mode: an object returned with flag false is custom-free (the allow_custom=True case through the
     mode-independence theorem, Proofs/C04Flag.v, which needs the repaired reference inversion) *)
  Theorem run_unflagged_custom_free : vr_ref_flip_unreg vr = true ->
    forall fuel kid a interop kw vrefs o,
      mem_ustr kid ids = true -> plain_dict kw = true ->
      RUN fuel (RConstruct kid a interop kw vrefs) = Ok o -> pval_has_custom o = false ->
      cf_obj w fuel kid o = true.
  Proof.
    intros Hflip fuel kid a interop kw vrefs o Hm Hp H Hh.
    eapply run_strict_custom_free; eauto.
    eapply (run_mode vr ev w pattern_ok selectors_ok Hflip ids Hclosed); eauto.
  Qed.
End RunCF.

(* Proofs/C01Serialize.v -- the serialization layer (Model/Serialize.v) against
   Spec/JsonValue.v:
     - every option set writes the same JSON value as the plain encoder with the same
       include_optional_defaults (sort_keys and pretty only permute members, at every depth;
       indent / compact separators do not touch the members at all);
     - the two encoders differ exactly by the members named in the object's
       defaulted-optional list, at every depth;
     - pretty=True writes the top-level members in the order of the object's own
       property list (which construct builds in class order: Proofs/C01Construct.v). *)
From Coq Require Import NArith ZArith List String Bool Lia Permutation Sorted.
From V Require Import Base.UString Base.Json Model.SchemaTypes Model.PyBase Model.Schema Model.Serialize.
From V Require Import Spec.JsonValue Proofs.C01Basics.
Import ListNotations.

(* ------------------------------------------------------------------ jequiv basics *)
Lemma jequiv_refl : forall j, jequiv j j.
Proof.
  induction j using jvalue_nested_ind; try constructor.
  - induction H; constructor; auto.
  - apply je_obj with (m' := m); auto.
    induction H; constructor; auto.
Qed.

Lemma Forall2_map_r : forall (A B : Type) (R : A -> B -> Prop) (f : A -> B) l,
  Forall (fun x => R x (f x)) l -> Forall2 R l (map f l).
Proof. induction 1; simpl; constructor; auto. Qed.

(* ------------------------------------------------------------------ sort_keys *)
Lemma jsort_obj : forall m, jsort (JObj m) = JObj (ksort (map (fun kv => (fst kv, jsort (snd kv))) m)).
Proof.
  intros; simpl; repeat f_equal; try reflexivity; try (induction m as [| [k x] r IH]; simpl; congruence).
Qed.

Lemma jsort_arr : forall l, jsort (JArr l) = JArr (map jsort l).
Proof. intros; simpl; repeat f_equal; try reflexivity; try (induction l; simpl; congruence). Qed.

Lemma sort_keys_same_value : forall j, jequiv j (jsort j).
Proof.
  induction j using jvalue_nested_ind; [simpl; constructor | simpl; constructor | simpl; constructor | simpl; constructor | simpl; constructor | |].
  - rewrite jsort_arr. constructor. apply Forall2_map_r. exact H.
  - rewrite jsort_obj.
    apply je_obj with (m' := map (fun kv => (fst kv, jsort (snd kv))) m).
    + apply Forall2_map_r. eapply Forall_impl; [| exact H]. simpl. intros a Ha. split; auto.
    + apply Permutation_sym. apply ksort_perm.
Qed.

(* ------------------------------------------------------------------ pretty *)
Section Pretty.
  Variable fuel : nat.
  Variable top : pval.
  Variable incl : bool.

  Let pe := pretty_enc fuel top incl.
  Let pr := pretty_raw fuel top.

  Lemma pretty_raw_obj : forall m,
    pr (JObj m) = JObj (sorted_members fuel top (map (fun kv => (fst kv, PJ (snd kv), pr (snd kv))) m)).
  Proof.
    intros; unfold pr; simpl; repeat f_equal; try reflexivity; try (induction m as [| [k x] r IH]; simpl; congruence).
  Qed.

  Lemma pretty_raw_arr : forall l, pr (JArr l) = JArr (map pr l).
  Proof. intros; unfold pr; simpl; repeat f_equal; try reflexivity; try (induction l; simpl; congruence). Qed.

  Lemma pretty_enc_arr : forall l, pe (PArr l) = JArr (map pe l).
  Proof. intros; unfold pe; simpl; repeat f_equal; try reflexivity; try (induction l; simpl; congruence). Qed.

  Lemma pretty_enc_map : forall m,
    pe (PMap m) = JObj (sorted_members fuel top (map (fun kv => (fst kv, snd kv, pe (snd kv))) m)).
  Proof.
    intros; unfold pe; simpl; repeat f_equal; try reflexivity; try (induction m as [| [k x] r IH]; simpl; congruence).
  Qed.

  Lemma pretty_enc_obj : forall c inner dfl hc,
    pe (PObject c inner dfl hc) =
    JObj (sorted_members fuel top (map (fun kv => (fst kv, snd kv, pe (snd kv))) (kept incl dfl inner))).
  Proof.
    intros. unfold pe, kept. simpl. f_equal. f_equal. induction inner as [| [k x] r IH]; simpl; auto.
    destruct (incl || negb (mem_ustr k dfl)); simpl; congruence.
  Qed.

  Lemma sorted_members_perm : forall l, Permutation (project l) (sorted_members fuel top l).
  Proof.
    intros. unfold sorted_members, project. apply Permutation_map. apply Permutation_sym. apply zsort_perm.
  Qed.

  Lemma pretty_raw_same_value : forall j, jequiv j (pr j).
  Proof.
    induction j using jvalue_nested_ind; [unfold pr; simpl; constructor | unfold pr; simpl; constructor | unfold pr; simpl; constructor | unfold pr; simpl; constructor | unfold pr; simpl; constructor | |].
    - rewrite pretty_raw_arr. constructor. apply Forall2_map_r. exact H.
    - rewrite pretty_raw_obj.
      apply je_obj with (m' := project (map (fun kv => (fst kv, PJ (snd kv), pr (snd kv))) m)).
      + unfold project. rewrite map_map. simpl. apply Forall2_map_r.
        eapply Forall_impl; [| exact H]. simpl. intros a Ha. split; auto.
      + apply sorted_members_perm.
  Qed.

  Lemma pretty_same_value : forall v, jequiv (encode incl v) (pe v).
  Proof.
    induction v using pval_nested_ind.
    - simpl. apply pretty_raw_same_value.
    - simpl. constructor.
    - rewrite encode_arr, pretty_enc_arr. constructor. unfold enc_list.
      induction H; simpl; constructor; auto.
    - rewrite encode_map, pretty_enc_map.
      apply je_obj with (m' := project (map (fun kv => (fst kv, snd kv, pe (snd kv))) m)).
      + unfold project, enc_members. rewrite map_map. simpl.
        induction H; simpl; constructor; auto.
      + apply sorted_members_perm.
    - rewrite encode_obj, pretty_enc_obj.
      apply je_obj with (m' := project (map (fun kv => (fst kv, snd kv, pe (snd kv))) (kept incl dfl inner))).
      + unfold project, enc_members. rewrite map_map. simpl.
        assert (HF : Forall (fun kv => jequiv (encode incl (snd kv)) (pe (snd kv))) (kept incl dfl inner)).
        { unfold kept. apply Forall_forall. intros x Hx. apply filter_In in Hx. destruct Hx as [Hx _].
          rewrite Forall_forall in H. apply H. exact Hx. }
        induction HF; simpl; constructor; auto.
      + apply sorted_members_perm.
  Qed.
End Pretty.

(* every option set writes the JSON value of the plain encoder with the same include_optional_defaults *)
Theorem options_same_value : forall (o : sopts) (obj : pval),
  jequiv (encode (o_incl o) obj) (serialize_value o obj).
Proof.
  intros o obj. unfold serialize_value.
  destruct (o_pretty o).
  - apply pretty_same_value.
  - destruct (o_sort_keys o).
    + apply sort_keys_same_value.
    + apply jequiv_refl.
Qed.

(* indent and compact separators are text-layer options: the ordered members do not depend on them *)
Theorem indent_compact_irrelevant : forall p i s n1 c1 n2 c2 obj,
  serialize_value {| o_pretty := p; o_incl := i; o_sort_keys := s; o_indent := n1; o_compact := c1 |} obj =
  serialize_value {| o_pretty := p; o_incl := i; o_sort_keys := s; o_indent := n2; o_compact := c2 |} obj.
Proof. reflexivity. Qed.

(* ------------------------------------------------------------------ the two encoders *)
(* omitted v small full: `small` is `full` without exactly the members that an object's
   defaulted-optional list names, at every depth of the stored value v *)
Fixpoint omitted (v : pval) (s f : jvalue) {struct v} : Prop :=
  match v with
  | PJ j => s = j /\ f = j
  | PTime _ t => s = JStr t /\ f = JStr t
  | PArr l =>
    exists ls lf, s = JArr ls /\ f = JArr lf /\
      (fix go (l : list pval) (ls lf : list jvalue) : Prop :=
         match l, ls, lf with
         | [], [], [] => True
         | x :: l', a :: ls', b :: lf' => omitted x a b /\ go l' ls' lf'
         | _, _, _ => False
         end) l ls lf
  | PMap m =>
    exists ms mf, s = JObj ms /\ f = JObj mf /\
      (fix go (m : list (ustring * pval)) (ms mf : list (ustring * jvalue)) : Prop :=
         match m, ms, mf with
         | [], [], [] => True
         | (k, x) :: m', (k1, a) :: ms', (k2, b) :: mf' => k1 = k /\ k2 = k /\ omitted x a b /\ go m' ms' mf'
         | _, _, _ => False
         end) m ms mf
  | PObject _ inner dfl _ =>
    exists ms mf, s = JObj ms /\ f = JObj mf /\
      (fix go (m : list (ustring * pval)) (ms mf : list (ustring * jvalue)) : Prop :=
         match m, mf with
         | [], [] => ms = []
         | (k, x) :: m', (k2, b) :: mf' =>
           k2 = k /\
           if mem_ustr k dfl
           then (exists a, omitted x a b) /\ go m' ms mf'                       (* left out *)
           else match ms with
                | (k1, a) :: ms' => k1 = k /\ omitted x a b /\ go m' ms' mf'   (* kept, in place *)
                | [] => False
                end
         | _, _ => False
         end) inner ms mf
  end.

Theorem encoders_differ_by_defaulted : forall v, omitted v (encode false v) (encode true v).
Proof.
  induction v using pval_nested_ind.
  - simpl. auto.
  - simpl. auto.
  - rewrite !encode_arr. simpl. exists (enc_list false l), (enc_list true l). repeat split.
    unfold enc_list. induction H; simpl; auto.
  - rewrite !encode_map. simpl. exists (enc_members false m), (enc_members true m). repeat split.
    unfold enc_members. induction H as [| [k x] r Hx Hr IH]; simpl; auto.
  - rewrite !encode_obj. simpl.
    exists (enc_members false (kept false dfl inner)), (enc_members true (kept true dfl inner)). repeat split.
    unfold enc_members, kept. simpl.
    induction H as [| [k x] r Hx Hr IH]; simpl; auto.
    split; auto.
    destruct (mem_ustr k dfl); simpl.
    + split; auto. exists (encode false x). exact Hx.
    + repeat split; auto.
Qed.

(* ------------------------------------------------------------------ pretty: top-level order *)
Lemma index_of_lt_acc : forall k l i, (index_of k l i = -1 \/ i <= index_of k l i)%Z.
Proof.
  induction l as [| x r IH]; simpl; intros i; auto.
  destruct (ustr_eqb k x); [right; lia |].
  destruct (IH (i + 1)%Z); [left; auto | right; lia].
Qed.

Lemma index_of_head : forall k r i, index_of k (k :: r) i = i.
Proof. intros. simpl. rewrite ustr_eqb_refl. reflexivity. Qed.

Lemma index_of_tail : forall k x r i, x <> k -> index_of k (x :: r) i = index_of k r (i + 1)%Z.
Proof.
  intros. simpl. destruct (ustr_eqb k x) eqn:E; auto. apply ustr_eqb_eq in E. congruence.
Qed.

Lemma index_of_In : forall k l i, In k l -> (i <= index_of k l i)%Z.
Proof.
  induction l as [| x r IH]; simpl; intros i H; try contradiction.
  destruct (ustr_eqb k x) eqn:E; [lia |].
  destruct H as [H | H]; [subst; rewrite ustr_eqb_refl in E; discriminate |].
  specialize (IH (i + 1)%Z H). lia.
Qed.

(* positions of the members of a sub-list of a duplicate-free key list increase *)
Lemma index_of_sorted_sub : forall (keys : list ustring) (sub : list ustring) i,
  NoDup keys ->
  (forall k, In k sub -> In k keys) ->
  (exists f, sub = filter f keys) ->
  Sorted (fun a b => (index_of a keys i <= index_of b keys i)%Z) sub.
Proof.
  induction keys as [| x r IH]; intros sub i ND Hin [f Hf].
  - simpl in Hf. subst. constructor.
  - inversion ND; subst. cbn [filter].
    assert (Hrest : Sorted (fun a b => (index_of a (x :: r) i <= index_of b (x :: r) i)%Z) (filter f r)).
    { assert (S0 := IH (filter f r) (i + 1)%Z H2).
      assert (S1 : Sorted (fun a b : ustring => (index_of a r (i + 1) <= index_of b r (i + 1))%Z) (filter f r)).
      { apply S0. intros k Hk. apply filter_In in Hk. tauto. exists f. reflexivity. }
      clear S0.
      assert (Hne : forall k, In k (filter f r) -> x <> k).
      { intros k Hk E. subst. apply filter_In in Hk. tauto. }
      revert S1 Hne. generalize (filter f r). intros l S1.
      induction S1 as [| a l' Sl IHl Hd]; intros Hne; constructor.
      - apply IHl. intros k Hk. apply Hne. right. exact Hk.
      - destruct Hd as [| b l'' Hab]; constructor.
        rewrite !index_of_tail; auto; apply Hne; simpl; auto. }
    destruct (f x).
    + constructor; auto.
      destruct (filter f r) as [| b l'] eqn:El; constructor.
      rewrite index_of_head. rewrite index_of_tail.
      * assert (In b r). { assert (In b (filter f r)) by (rewrite El; left; reflexivity). apply filter_In in H. tauto. }
        pose proof (index_of_In b r (i + 1)%Z H). lia.
      * intros E. subst. assert (In b (filter f r)) by (rewrite El; left; reflexivity).
        apply filter_In in H. tauto.
    + exact Hrest.
Qed.

Section TopLevel.
  Variable c : ustring.
  Variable inner : list (ustring * pval).
  Variable dfl : list ustring.
  Variable hc : bool.
  Variable incl : bool.

  Let obj := PObject c inner dfl hc.

  (* hypotheses of the theorem, all decidable on a given object:
     the object's member names are distinct (construct guarantees it), none is a digit string
     (find_property_index returns int(key) for those), and every top-level value equals itself
     under Python's == (false only for values containing NaN) *)
  Hypothesis Hnodup : NoDup (map fst inner).
  Hypothesis Hnodigit : forallb (fun kv => negb (key_isdigit (fst kv))) inner = true.
  Hypothesis Hrefl : forallb (fun kv => pyeq (snd kv) (snd kv)) inner = true.

  Lemma fpi_top : forall fuel k x, In (k, x) inner ->
    find_property_index (S fuel) obj k x = index_of k (map fst inner) 0%Z.
  Proof.
    intros fuel k x Hin. unfold find_property_index.
    rewrite forallb_forall in Hnodigit. specialize (Hnodigit _ Hin). simpl in Hnodigit.
    apply negb_true_iff in Hnodigit. rewrite Hnodigit.
    simpl. rewrite (alookup_NoDup _ k x inner Hnodup Hin).
    rewrite forallb_forall in Hrefl. specialize (Hrefl _ Hin). simpl in Hrefl. rewrite Hrefl.
    reflexivity.
  Qed.

  Theorem pretty_toplevel_order : forall fuel ms,
    pretty_enc (S fuel) obj incl obj = JObj ms ->
    map fst ms = map fst (kept incl dfl inner).
  Proof.
    intros fuel ms H. unfold obj in H. rewrite pretty_enc_obj in H. inversion H; subst. clear H.
    unfold sorted_members.
    set (tr := map (fun kv : ustring * pval => (fst kv, snd kv, pretty_enc (S fuel) (PObject c inner dfl hc) incl (snd kv)))
                   (kept incl dfl inner)).
    assert (Hs : zsort (sort_key (S fuel) (PObject c inner dfl hc)) tr = tr).
    { apply zsort_sorted_id.
      assert (Hk : forall t, In t tr -> sort_key (S fuel) (PObject c inner dfl hc) t = index_of (fst (fst t)) (map fst inner) 0%Z).
      { intros t Ht. unfold tr in Ht. apply in_map_iff in Ht. destruct Ht as [[k x] [E Hkx]]. subst t.
        unfold sort_key. simpl. apply fpi_top. unfold kept in Hkx. apply filter_In in Hkx. tauto. }
      assert (Hsub : Sorted (fun a b => (index_of a (map fst inner) 0 <= index_of b (map fst inner) 0)%Z)
                            (map (fun t : ustring * pval * jvalue => fst (fst t)) tr)).
      { unfold tr. rewrite map_map. simpl.
        apply index_of_sorted_sub; auto.
        - intros k Hk0. apply in_map_iff in Hk0. destruct Hk0 as [[k' x] [E Hk0]]. simpl in E. subst.
          unfold kept in Hk0. apply filter_In in Hk0. destruct Hk0 as [Hk0 _]. apply (in_map fst) in Hk0. exact Hk0.
        - (* the kept names are a filter of the names: names are distinct, so filter by membership *)
          exists (fun k => existsb (fun kv => ustr_eqb (fst kv) k) (kept incl dfl inner)).
          unfold kept.
          clear Hk Hnodigit Hrefl. induction inner as [| [k x] r IH]; simpl; auto.
          inversion Hnodup; subst.
          assert (Hr : forall g, existsb (fun kv : ustring * pval => ustr_eqb (fst kv) k) (filter g r) = false).
          { intros g. apply not_true_is_false. intros E. apply existsb_exists in E. destruct E as [[k' x'] [E1 E2]].
            simpl in E2. apply ustr_eqb_eq in E2. subst. apply filter_In in E1. destruct E1 as [E1 _].
            apply H1. apply (in_map fst) in E1. exact E1. }
          destruct (incl || negb (mem_ustr k dfl)); simpl.
          + rewrite ustr_eqb_refl. simpl. f_equal.
            rewrite IH; auto. apply filter_ext_in. intros a Ha.
            destruct (ustr_eqb k a) eqn:E; auto. apply ustr_eqb_eq in E. subst. contradiction.
          + rewrite Hr. apply IH; auto. }
      clear - Hk Hsub. induction tr as [| t r IH]; constructor.
      - apply IH. intros t' Ht'. apply Hk. right. exact Ht'. simpl in Hsub. inversion Hsub; auto.
      - destruct r as [| t2 r']; constructor.
        rewrite !Hk; simpl; auto. simpl in Hsub. inversion Hsub; subst. inversion H2; subst. exact H0. }
    rewrite Hs. unfold project, tr. rewrite !map_map. simpl. reflexivity.
  Qed.
End TopLevel.

(* Proofs/VersioningText.v -- the bridge between C05 and C15: the instant
   `ser_value` assigns to a version time is exactly what the text written by
   the library for that value denotes (strict reader of Spec/TimestampSpec.v),
   so "strictly later" on ser_value is "strictly later after serialization". *)
From Coq Require Import String ZArith NArith List Bool Lia.
From V Require Import Base.UString Base.Json Model.Calendar Model.Timestamp Model.Versioning Spec.TimestampSpec
  Spec.VersioningSpec Proofs.TimestampFacts Proofs.C15Proofs Proofs.VersioningFacts Proofs.VersioningProofs.
Import ListNotations.
Open Scope list_scope. Open Scope Z_scope.

Ltac Zify.zify_post_hook ::= Z.to_euclidean_division_equations.

(* the Python value as the input of parse_into_datetime / TimestampProperty.clean *)
Definition tsinput_of (x : pval) : option tsinput :=
  match x with
  | PDt l o => Some (InDatetime l o)
  | PDate y m d => Some (InDate y m d)
  | PJ (JStr s) => Some (InStr s)
  | _ => None
  end.

(* UTC offsets are whole multiples of the serialization unit (every whole-second offset is);
   date objects are real dates (Python's always are) *)
Definition value_ok (v : sver) (x : pval) : Prop :=
  match x with
  | PDt _ (Some o) => o mod unit_of SMilli (sc (pconstraint_of v)) = 0
  | PDate y m d => valid_fields y m d 0 0 0 0 = true
  | _ => True
  end.

Lemma floor_in_range_inv : forall p c t, in_range (floor_to p c t) = true -> in_range t = true.
Proof.
  intros p c t R. unfold in_range, max_instant, floor_to in *. apply andb_true_iff in R as [R0 R1].
  apply Z.leb_le in R0. apply Z.ltb_lt in R1. apply andb_true_iff.
  destruct (unit_cases p c) as [E|[E|E]]; rewrite E in *; split; try apply Z.leb_le; try apply Z.ltb_lt; lia.
Qed.

Lemma text_of_instant : forall c t0 t, in_range t = true -> t = floor_to SMilli (sc c) t0 ->
  exists rd, spec_read (format Pad4 PMilli c t0) = Some rd /\ denotes rd t.
Proof.
  intros c t0 t R E. subst t. apply floor_in_range_inv in R. exact (fmt_denotes_lemma PMilli c t0 R).
Qed.

Theorem ser_text_lemma : forall nm v x t, good_ver v -> value_ok v x ->
  ser_value nm v (Some x) = Some t -> in_range t = true ->
  exists i txt rd, tsinput_of x = Some i /\ write nm Pad4 PMilli (pconstraint_of v) i = Ok txt /\
                   spec_read txt = Some rd /\ denotes rd t.
Proof.
  intros nm v x t GV VO S R. unfold ser_value in S.
  destruct (parse_ts nm v (Some x)) as [[l0 o0]|e] eqn:P; [|discriminate]. injection S as ET.
  destruct x as [j|l o|y m d].
  - destruct j; cbn [parse_ts] in P; try discriminate. cbn [parse_into] in P.
    destruct (parse_strptime s) as [t0|] eqn:PS; [|discriminate].
    assert (l0 = stored_trunc PMilli (pconstraint_of v) t0 /\ o0 = Some 0) as [-> ->] by (split; congruence).
    unfold utc_of in ET. cbn [fst snd] in ET. rewrite Z.sub_0_r in ET.  rewrite stored_trunc_floor in ET. change (sp PMilli) with SMilli in ET.
    destruct (text_of_instant (pconstraint_of v) t0 t R (eq_sym ET)) as (rd & SR & DN).
    exists (InStr s), (format Pad4 PMilli (pconstraint_of v) t0), rd. repeat split; try assumption.
    now destruct (write_string_lemma nm PMilli (pconstraint_of v) s t0 PS).
  - rewrite parse_ts_dt in P. 
    assert (l0 = stored_trunc PMilli (pconstraint_of v) l /\ o0 = norm_off nm o) as [-> ->] by (split; congruence).
    unfold utc_of in ET. cbn [fst snd] in ET. rewrite stored_trunc_floor in ET. change (sp PMilli) with SMilli in ET.
    destruct o as [o|].
    + cbn [value_ok] in VO. 
      assert (NO : norm_off nm (Some o) = Some o) by (destruct nm; reflexivity). rewrite NO in ET.
      rewrite <- (floor_shift SMilli (sc (pconstraint_of v)) l o VO) in ET.
      destruct (text_of_instant (pconstraint_of v) (l - o) t R (eq_sym ET)) as (rd & SR & DN).
      exists (InDatetime l (Some o)), (format Pad4 PMilli (pconstraint_of v) (l - o)), rd. repeat split; try assumption.
      apply write_aware_lemma; [|exact VO]. rewrite <- ET in R. now apply floor_in_range_inv in R.
    + assert (E : t = floor_to SMilli (sc (pconstraint_of v)) l) by (rewrite <- ET; destruct nm; cbn; lia).
      destruct (text_of_instant (pconstraint_of v) l t R E) as (rd & SR & DN).
      exists (InDatetime l None), (format Pad4 PMilli (pconstraint_of v) l), rd. repeat split; try assumption.
      apply write_naive_lemma. rewrite E in R. now apply floor_in_range_inv in R.
  - cbn [parse_ts parse_into] in P. 
    assert (l0 = stored_trunc PMilli (pconstraint_of v) (instant_of y m d 0 0 0 0) /\ o0 = Some 0) as [-> ->] by (split; congruence).
    unfold utc_of in ET. cbn [fst snd] in ET. rewrite Z.sub_0_r in ET. rewrite stored_trunc_floor in ET. change (sp PMilli) with SMilli in ET.
    destruct (text_of_instant (pconstraint_of v) _ t R (eq_sym ET)) as (rd & SR & DN).
    exists (InDate y m d), (format Pad4 PMilli (pconstraint_of v) (instant_of y m d 0 0 0 0)), rd. repeat split; try assumption.
    now apply write_date_lemma.
Qed.

(* the two serialized texts of an original and its new version denote strictly increasing instants *)
Theorem nv_strict_text_lemma : forall T nm cp ck c d ch now d' v xo xn, good_ver v -> NoDup (keys d) -> NoDup (keys ch) ->
  check_versionable T c d = Ok v -> new_version T nm cp ck c d ch now = Ok d' ->
  version_time d = Some xo -> version_time d' = Some xn -> value_ok v xo -> value_ok v xn ->
  (forall t, ser_value nm v (Some xo) = Some t -> in_range t = true) ->
  (forall t, ser_value nm v (Some xn) = Some t -> in_range t = true) ->
  exists io i_n txt_o txt_n rd_o rd_n a b,
    tsinput_of xo = Some io /\ tsinput_of xn = Some i_n /\
    write nm Pad4 PMilli (pconstraint_of v) io = Ok txt_o /\ write nm Pad4 PMilli (pconstraint_of v) i_n = Ok txt_n /\
    spec_read txt_o = Some rd_o /\ spec_read txt_n = Some rd_n /\ denotes rd_o a /\ denotes rd_n b /\ a < b.
Proof.
  intros T nm cp ck c d ch now d' v xo xn GV ND NC CV H VO VN OKo OKn Ro Rn.
  destruct (nv_strict_lemma T nm cp ck c d ch now d' v GV ND NC CV H) as (a & b & A & B & L).
  rewrite VO in A. rewrite VN in B.
  destruct (ser_text_lemma nm v xo a GV OKo A (Ro a A)) as (io & to & ro & I1 & W1 & S1 & D1).
  destruct (ser_text_lemma nm v xn b GV OKn B (Rn b B)) as (i_n & tn & rn & I2 & W2 & S2 & D2).
  exists io, i_n, to, tn, ro, rn, a, b. repeat split; assumption.
Qed.

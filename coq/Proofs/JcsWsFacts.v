(* Proofs/JcsWsFacts.v -- the canonical text has no whitespace outside string
   literals (RFC 8785 3.2.1), and convert2es6 only emits characters of its input
   plus 0 . -                                                                    *)
From Coq Require Import String NArith ZArith List Bool Lia Sorted Permutation.
From V Require Import Base.UString Base.Json Model.JcsText Model.Jcs Spec.Rfc8785 Spec.JcsSpec
  Proofs.JcsNumFacts Proofs.JcsEscFacts Proofs.JcsCanonFacts.
Import ListNotations.
Open Scope N_scope.

(* ---- characters of the number text ------------------------------------------------ *)
Section Chars.
  Variable P : N -> Prop.
  Hypothesis P0 : P c_0.
  Hypothesis Pdot : P c_dot.
  Hypothesis Pminus : P c_minus.

  Lemma Forall_repeat : forall (c : N) m, P c -> Forall P (repeat c m).
  Proof. induction m; simpl; intro; constructor; auto. Qed.

  Lemma strip_exp_zero_chars : forall es, Forall P es -> Forall P (strip_exp_zero es).
  Proof.
    intros es H. unfold strip_exp_zero. destruct (ustr_eqb (firstn 1 (skipn 2 es)) [c_0]); [|exact H].
    apply Forall_app. split; [apply Forall_firstn'|apply Forall_skipn']; exact H.
  Qed.

  Lemma convert2es6_chars : forall r t, convert2es6 r = JOk t -> Forall P r -> Forall P t.
  Proof.
    intros r t H F. unfold convert2es6 in H.
    destruct (is_zero_repr r); [inversion H; subst; repeat constructor; exact P0|].
    destruct (find_idx c_n r); [discriminate|].
    destruct (split_sign r) as [pySign pyDouble] eqn:Es.
    assert (Fs : Forall P pySign /\ Forall P pyDouble).
    { unfold split_sign in Es. destruct (find_idx c_minus r) as [[|n]|]; inversion Es; subst;
        split; auto; try (repeat constructor; exact Pminus). exact (Forall_skipn' _ P 1 r F). }
    destruct Fs as [Fs Fd].
    destruct (split_exp pyDouble) as [[[pyExpStr pyDouble'] pyExpVal]|e] eqn:Ee; [|discriminate].
    assert (Fe : Forall P pyExpStr /\ Forall P pyDouble').
    { unfold split_exp in Ee. destruct (find_idx c_e pyDouble) as [[|q]|].
      - inversion Ee; subst. split; [constructor|exact Fd].
      - destruct (py_int (skipn 1 (strip_exp_zero (skipn (S q) pyDouble)))); [|discriminate].
        inversion Ee; subst. split; [apply strip_exp_zero_chars; exact (Forall_skipn' _ P (S q) pyDouble Fd)|exact (Forall_firstn' _ P (S q) pyDouble Fd)].
      - inversion Ee; subst. split; [constructor|exact Fd]. }
    destruct Fe as [Fe Fd'].
    destruct (strip_dot0 (split_dot pyDouble')) as [[pyFirst pyDot] pyLast] eqn:Ed.
    assert (Fp : Forall P pyFirst /\ Forall P pyDot /\ Forall P pyLast).
    { unfold strip_dot0, split_dot in Ed. destruct (find_idx c_dot pyDouble') as [[|q]|].
      - destruct (ustr_eqb [] [c_0]); inversion Ed; subst; repeat split; auto; constructor.
      - destruct (ustr_eqb (skipn (S (S q)) pyDouble') [c_0]); inversion Ed; subst; repeat split;
          try exact (Forall_firstn' _ P (S q) pyDouble' Fd'); try exact (Forall_skipn' _ P (S (S q)) pyDouble' Fd');
          repeat constructor; exact Pdot.
      - destruct (ustr_eqb [] [c_0]); inversion Ed; subst; repeat split; auto; constructor. }
    destruct Fp as [Ff [Fdot Fl]].
    inversion H; subst. unfold assemble.
    destruct ((0 <? pyExpVal)%Z && (pyExpVal <? 21)%Z).
    - repeat (apply Forall_app; split); auto. apply Forall_repeat. exact P0.
    - destruct ((pyExpVal <? 0)%Z && (-7 <? pyExpVal)%Z).
      + repeat (apply Forall_app; split); auto; try (repeat constructor; auto). apply Forall_repeat. exact P0.
      + repeat (apply Forall_app; split); auto.
  Qed.
End Chars.

(* the repr layout only uses digits . e + - *)
Lemma py_repr_rc : forall neg ds n, Forall (fun d => d < 10) ds -> Forall repr_char (py_repr neg ds n).
Proof.
  intros neg ds n H. pose proof (dchars_isdig ds H) as HD. unfold py_repr.
  apply Forall_app. split.
  { destruct neg; simpl; [|constructor]. constructor; [|constructor]. right; right; right; right. reflexivity. }
  assert (R0 : repr_char c_0) by (left; unfold isdig, c_0; lia).
  assert (Rd : repr_char c_dot) by (right; left; reflexivity).
  destruct ((-4 <? n)%Z && (n <=? 16)%Z).
  - destruct (n <=? 0)%Z.
    + constructor; auto. constructor; auto. apply Forall_app. split; [apply rc_dig, repeat0_isdig|apply rc_dig; exact HD].
    + destruct (n <? Z.of_nat (length ds))%Z.
      * apply Forall_app. split; [apply rc_dig, dchars_isdig, Forall_firstn'; exact H|].
        constructor; auto. apply rc_dig, dchars_isdig, Forall_skipn'; exact H.
      * apply Forall_app. split; [apply rc_dig; exact HD|].
        apply Forall_app. split; [apply rc_dig, repeat0_isdig|constructor; [exact Rd|constructor; [exact R0|constructor]]].
  - apply Forall_app. split; [|apply exp_text_py_rc].
    destruct ds as [|d [|d2 rest]]; simpl; [constructor| |].
    + inversion HD; subst. constructor; [left; assumption|constructor].
    + inversion HD; subst. constructor; [left; assumption|]. constructor; auto. apply rc_dig. assumption.
Qed.

Lemma strip_trailing_zeros_Forall : forall (P : N -> Prop) ds, Forall P ds -> Forall P (strip_trailing_zeros ds).
Proof.
  induction 1 as [|d r Hd Hr IH]; simpl; [constructor|].
  destruct (strip_trailing_zeros r) as [|x y] eqn:E.
  - destruct (d =? 0); constructor; auto.
  - constructor; auto.
Qed.

Lemma digit_vals_lt10 : forall s, Forall isdig s -> Forall (fun d => d < 10) (digit_vals s).
Proof. induction 1; simpl; constructor; auto. unfold isdig in *. lia. Qed.

Lemma int_float_repr_rc : forall z r, int_float_repr z = Some r -> Forall repr_char r.
Proof.
  intros z r H. unfold int_float_repr in H. destruct (z =? 0)%Z.
  - inversion H; subst. assert (R0 : repr_char c_0) by (left; unfold isdig, c_0; lia).
    constructor; [exact R0|]. constructor; [right; left; reflexivity|]. constructor; [exact R0|constructor].
  - destruct (Z.abs z <=? 9007199254740992)%Z; [|discriminate]. inversion H; subst.
    apply py_repr_rc. apply strip_trailing_zeros_Forall. apply digit_vals_lt10. apply dec_show_isdig.
Qed.

(* ---- scanning --------------------------------------------------------------------------- *)
Definition plain (c : N) : Prop := ~ is_ws c /\ c <> 34.

Definition good (t : ustring) : Prop :=
  exists X, Forall (fun c => ~ is_ws c) X /\ forall rest, outside false (t ++ rest) = X ++ outside false rest.

Lemma good_nil : good [].
Proof. exists []. split; [constructor|reflexivity]. Qed.

Lemma good_app : forall a b, good a -> good b -> good (a ++ b).
Proof.
  intros a b [X [HX EX]] [Y [HY EY]]. exists (X ++ Y). split; [apply Forall_app; auto|].
  intro rest. rewrite <- app_assoc. rewrite EX, EY. rewrite app_assoc. reflexivity.
Qed.

Lemma good_plain : forall t, Forall plain t -> good t.
Proof.
  intros t H. exists t. split.
  - eapply Forall_impl; [|exact H]. intros c [Hc _]. exact Hc.
  - intro rest. induction H as [|c t [Hc1 Hc2] Ht IH]; [reflexivity|].
    simpl. apply N.eqb_neq in Hc2. rewrite Hc2. f_equal. exact IH.
Qed.

Lemma hex_lower_plain : forall n, hex_lower n <> 92 /\ hex_lower n <> 34.
Proof. intro n. unfold hex_lower. destruct (N.ltb_spec n 10); lia. Qed.

Lemma outside_escape_char : forall c r, outside true (escape_char c ++ r) = outside true r.
Proof.
  intros c r. unfold escape_char, c_bslash, c_quote, c_0.
  destruct (N.eqb_spec c 92); [reflexivity|]. destruct (N.eqb_spec c 34); [reflexivity|].
  destruct (N.eqb_spec c 8); [reflexivity|]. destruct (N.eqb_spec c 12); [reflexivity|].
  destruct (N.eqb_spec c 10); [reflexivity|]. destruct (N.eqb_spec c 13); [reflexivity|].
  destruct (N.eqb_spec c 9); [reflexivity|].
  destruct (N.ltb_spec c 32).
  - destruct (hex_lower_plain (c / 16)) as [A1 A2]. destruct (hex_lower_plain (c mod 16)) as [B1 B2].
    apply N.eqb_neq in A1, A2, B1, B2.
    cbn [app outside]. change (92 =? 92) with true. cbn iota.
    change (48 =? 92) with false. change (48 =? 34) with false. cbn iota.
    rewrite A1, A2, B1, B2. reflexivity.
  - cbn [app outside]. apply N.eqb_neq in n, n0. rewrite n, n0. reflexivity.
Qed.

Lemma outside_escape : forall s r, outside true (escape s ++ c_quote :: r) = outside false r.
Proof.
  induction s as [|c s IH]; intro r.
  - reflexivity.
  - unfold escape. simpl flat_map. rewrite <- app_assoc. rewrite outside_escape_char. apply IH.
Qed.

Lemma good_str : forall s, good (str_text s).
Proof.
  intro s. exists []. split; [constructor|]. intro rest.
  unfold str_text. rewrite <- canon_escape_minimal_proof. simpl.
  rewrite <- app_assoc. simpl. apply outside_escape.
Qed.

Lemma repr_char_plain : forall c, repr_char c -> plain c.
Proof.
  intros c H. unfold repr_char, isdig, c_dot, c_e, c_plus, c_minus, plain, is_ws in *. lia.
Qed.

Lemma good_join : forall ps, Forall good ps -> good (join_with [c_comma] ps).
Proof.
  induction 1 as [|p ps Hp Hps IH]; [apply good_nil|].
  destruct ps as [|q ps]; [exact Hp|].
  change (join_with [c_comma] (p :: q :: ps)) with (p ++ [c_comma] ++ join_with [c_comma] (q :: ps)).
  apply good_app; [exact Hp|]. apply good_app; [|exact IH].
  apply good_plain. repeat constructor; unfold is_ws, c_comma; lia.
Qed.

Lemma good_wrap : forall o c ps, plain o -> plain c -> Forall good ps -> good (o :: join_with [c_comma] ps ++ [c]).
Proof.
  intros o c ps Ho Hc H. change (o :: join_with [c_comma] ps ++ [c]) with ([o] ++ join_with [c_comma] ps ++ [c]).
  apply good_app; [apply good_plain; constructor; [exact Ho|constructor]|].
  apply good_app; [apply good_join; exact H|apply good_plain; constructor; [exact Hc|constructor]].
Qed.

Lemma sequence_ok2 : forall rs ps, sequence rs = JOk ps -> Forall2 (fun r p => r = JOk p) rs ps.
Proof.
  induction rs as [|r rs IH]; intros ps H.
  - inversion H. constructor.
  - simpl in H. destruct r as [a|e]; [|discriminate].
    destruct (sequence rs) as [l|e] eqn:E; [|discriminate]. inversion H; subst.
    constructor; [reflexivity|apply IH; reflexivity].
Qed.

Lemma emit_good : forall v t, emit v = JOk t -> nums_clean v -> good t.
Proof.
  induction v as [|b|z|r|s|l IH|m IH] using jvalue_nested_ind; intros t H C.
  - inversion H; subst. apply good_plain. repeat constructor; unfold is_ws; lia.
  - destruct b; inversion H; subst; apply good_plain; repeat constructor; unfold is_ws; lia.
  - simpl in H. destruct (int_float_repr z) as [r|] eqn:E; [|unfold int_too_big in H; destruct (float_overflows z); discriminate].
    apply good_plain. apply (convert2es6_chars plain) with (r := r); auto;
      try (unfold plain, is_ws, c_0, c_dot, c_minus; lia).
    eapply Forall_impl; [|eapply int_float_repr_rc; exact E]. apply repr_char_plain.
  - simpl in H. inversion C; subst. apply good_plain.
    apply (convert2es6_chars plain) with (r := r); auto; unfold plain, is_ws, c_0, c_dot, c_minus; lia.
  - inversion H; subst. apply good_str.
  - simpl in H. unfold wrap in H. destruct (sequence (map emit l)) as [ps|e] eqn:E; [|discriminate].
    inversion H; subst. apply good_wrap; try (unfold plain, is_ws, c_lbrack, c_rbrack; lia).
    apply sequence_ok2 in E. inversion C as [| | | | |l0 Cl|]; subst. clear H C.
    revert ps E. induction l as [|x l IHl]; intros ps E; inversion E; subst; constructor.
    + inversion IH; subst. inversion Cl; subst. eauto.
    + inversion IH; subst. inversion Cl; subst. apply IHl; auto.
  - simpl in H. unfold wrap in H.
    destruct (sequence (map (fun kv => emit_member (fst kv, emit (snd kv))) m)) as [ps|e] eqn:E; [|discriminate].
    inversion H; subst. apply good_wrap; try (unfold plain, is_ws, c_lbrace, c_rbrace; lia).
    apply sequence_ok2 in E. inversion C as [| | | | | |m0 Cm]; subst. clear H C.
    revert ps E. induction m as [|kv m IHm]; intros ps E; inversion E as [|? ? ? ? Hh Ht]; subst; constructor.
    + inversion IH; subst. inversion Cm; subst. unfold emit_member in Hh. simpl in Hh.
      destruct (emit (snd kv)) as [body|e] eqn:Eb; [|discriminate]. inversion Hh; subst.
      change (good (str_text (fst kv) ++ [c_colon] ++ body)).
      apply good_app; [apply good_str|]. apply good_app; [|eauto].
      apply good_plain. repeat constructor; unfold is_ws, c_colon; lia.
    + inversion IH; subst. inversion Cm; subst. apply IHm; auto.
Qed.

Lemma nums_clean_sort_deep : forall v, nums_clean v -> nums_clean (sort_deep v).
Proof.
  induction v as [|b|z|r|s|l IH|m IH] using jvalue_nested_ind; intro C; try exact C.
  - simpl. constructor. inversion C; subst. rewrite Forall_map. rewrite Forall_forall in *. intros x Hx. apply IH; auto.
  - simpl. constructor. inversion C as [| | | | | |m0 Cm]; subst.
    rewrite Forall_forall in *. intros kv Hkv. apply (proj1 (spec_sort_In _ _ _)) in Hkv.
    apply in_map_iff in Hkv. destruct Hkv as [kv0 [E Hin]]. subst kv. simpl. apply IH; auto.
Qed.

Lemma canon_no_ws_proof : forall v t, canon v = JOk t -> nums_clean v ->
  Forall (fun c => ~ is_ws c) (outside false t).
Proof.
  intros v t H C. apply canon_emit_ok_proof in H.
  destruct (emit_good _ _ H (nums_clean_sort_deep v C)) as [X [HX EX]].
  specialize (EX []). rewrite app_nil_r in EX. simpl in EX. rewrite app_nil_r in EX. rewrite EX. exact HX.
Qed.

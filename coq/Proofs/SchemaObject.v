(* Proofs/SchemaObject.v -- the object-level lemma of C02: what _STIXBase.__init__ (construct_generic)
   returns in strict mode, for input in scope, encodes to an object the specification's class accepts:
   no unknown property, every present value valid for its slot, every required property present, every
   co-constraint met -- from per-slot soundness of clean and soundness of the constraint evaluation.  *)
From Coq Require Import NArith ZArith List String Bool Lia.
From V Require Import Base.UString Base.Json Model.SchemaTypes Model.PyBase Model.Schema
     Spec.StixValid Spec.SchemaRefine Proofs.SchemaBasics Proofs.SchemaValidMono Proofs.SchemaScope Proofs.SchemaTime.
Import ListNotations.

(* names as a set *)
Fixpoint unodup (l : list ustring) : bool :=
  match l with [] => true | x :: r => negb (mem_ustr x r) && unodup r end.

Lemma unodup_NoDup l : unodup l = true -> NoDup l.
Proof.
  induction l; simpl; intros H; constructor.
  - apply andb_true_iff in H. destruct H as [H _]. apply negb_true_iff in H. apply mem_ustr_false in H. auto.
  - apply andb_true_iff in H. tauto.
Qed.

Lemma In_aset_nodup {A} k (v : A) m k2 x :
  NoDup (map fst m) -> In (k2, x) (aset k v m) -> (k2 = k /\ x = v) \/ (In (k2, x) m /\ k2 <> k).
Proof.
  induction m as [|[k' v'] m IH]; simpl; intros ND H.
  - destruct H as [H | []]. inversion H; auto.
  - inversion ND as [|? ? Hnotin ND']; subst. destruct (ustr_eqb k k') eqn:E.
    + apply ustr_eqb_eq in E. subst k'. destruct H as [H | H].
      * inversion H; auto.
      * right. split; auto. intros ->. apply Hnotin. apply in_map_iff. exists (k, x). auto.
    + destruct H as [H | H].
      * inversion H; subst. right. split; auto. intros ->. rewrite ustr_eqb_refl in E. discriminate.
      * destruct (IH ND' H) as [Hx | [Hx Hn]]; auto.
Qed.

(* a bound that works for every element *)
Lemma forall_exists_bound {A} (P : nat -> A -> Prop) (l : list A) :
  (forall (n m : nat) x, (n <= m)%nat -> P n x -> P m x) ->
  (forall x, In x l -> exists n, P n x) -> exists N, forall x, In x l -> P N x.
Proof.
  intros Mono. induction l as [|a l IH]; intros H.
  - exists 0%nat. intros x [].
  - destruct (H a (or_introl eq_refl)) as [n Hn].
    destruct IH as [N HN]. { intros x Hx. apply H. right. auto. }
    exists (Nat.max n N). intros x [-> | Hx].
    + eapply Mono; [|exact Hn]. lia.
    + eapply Mono; [|apply HN; auto]. lia.
Qed.

Lemma find_self_nodup (l : list slot) s :
  NoDup (map sname l) -> In s l -> find (fun x => ustr_eqb (sname x) (sname s)) l = Some s.
Proof.
  induction l as [|a l IH]; simpl; intros ND Hin; [tauto|].
  inversion ND as [|? ? Hnotin ND']; subst. destruct Hin as [-> | Hin].
  - rewrite ustr_eqb_refl. auto.
  - destruct (ustr_eqb (sname a) (sname s)) eqn:E; [|apply IH; auto].
    apply ustr_eqb_eq in E. exfalso. apply Hnotin. rewrite E. apply in_map. auto.
Qed.

Section Obj.
  Variable vr : variant.
  Variable ev : env.
  Variables w sp : world.
  Variable pok : ver -> ustring -> bool.
  Variable sok : list (ustring * pval) -> pval -> result bool.
  Variable rc : ustring -> bool -> bool -> list (ustring * jvalue) -> result pval.
  Variable rp : bool -> bool -> list (ustring * jvalue) -> result pval.
  Variable ro : ver -> list (ustring * ustring) -> bool -> list (ustring * jvalue) -> result pval.

  Hypothesis Hpad : vr_year_pad vr = true.

  (* what is claimed of a constructed object *)
  Definition good (cid : ustring) (o : pval) : Prop :=
    exists inner dfl, o = PObject cid inner dfl false /\
                      exists n, valid_obj sp pok n cid (encode false o) = true.

  Definition sound_kind (k k' : pkind) : Prop :=
    forall v pv hc, jscope v = true -> clean_kind vr w rc rp ro k false false v = Ok (pv, hc) ->
                    hc = false /\ exists n, valid_kind sp pok n k' (encode false pv) = true.

  Variables c sc : cls.     (* the library's class and the specification's class of the same id *)

  Hypothesis Hnames : unodup (map sname (cslots c)) = true.
  Hypothesis Hslots : forall s, In s (cslots c) ->
      exists s', find_slot sc (sname s) = Some s' /\ kind_refines (skind s) (skind s') = true /\
                 sound_kind (skind s) (skind s').
  Hypothesis Hdconst : forall s j, In s (cslots c) -> sdef s = DConst j -> jscope j = true.
  Hypothesis Hreq : forall s', In s' (cslots sc) -> spec_requires sc s' = true ->
      exists s, find_slot c (sname s') = Some s /\ always_present s = true.

  Definition entry_ok (n : ustring) (x : pval) : Prop :=
    exists s', find_slot sc n = Some s' /\ exists m, valid_kind sp pok m (skind s') (encode false x) = true.

  Definition Inv (setting : list (ustring * pval)) : Prop :=
    NoDup (map fst setting) /\ forall k x, In (k, x) setting -> entry_ok k x.

  Lemma slot_of_spec n s : slot_of c n = Some s -> In s (cslots c) /\ sname s = n.
  Proof.
    unfold slot_of. intros H. apply find_some in H. destruct H as [H1 H2]. apply ustr_eqb_eq in H2. auto.
  Qed.

  Lemma find_slot_spec cl n s : find_slot cl n = Some s -> In s (cslots cl) /\ sname s = n.
  Proof.
    unfold find_slot. intros H. apply find_some in H. destruct H as [H1 H2]. apply ustr_eqb_eq in H2. auto.
  Qed.

  (* with distinct names, the slot found by name is the slot *)
  Lemma slot_of_self s : In s (cslots c) -> slot_of c (sname s) = Some s.
  Proof. intros H. unfold slot_of. apply find_self_nodup; auto. apply unodup_NoDup. exact Hnames. Qed.

  Definition default_present (s : slot) : bool := match sdef s with DFixed | DNow | DUuid4 => true | _ => false end.

  Lemma Inv_aset setting n v : Inv setting -> entry_ok n v -> Inv (aset n v setting).
  Proof.
    intros [ND H] Hv. split.
    - apply keys_aset_nodup. auto.
    - intros k x Hin. apply In_aset_nodup in Hin; auto. destruct Hin as [[-> ->] | [Hin _]]; auto.
  Qed.

  (* ---- one property ---- *)
  Lemma check_property_ok s vrefs setting1 setting' hc' :
    In s (cslots c) ->
    NoDup (map fst setting1) ->
    (forall k x, In (k, x) setting1 -> k <> sname s -> entry_ok k x) ->
    match alookup (sname s) setting1 with
    | Some (PJ j) => jscope j = true
    | Some x => entry_ok (sname s) x /\ pval_has_custom x = false
    | None => True
    end ->
    check_property vr ev w rc rp ro c s false false vrefs setting1 = Ok (setting', hc') ->
    hc' = false /\ Inv setting' /\
    (forall k, amem k setting1 = true -> amem k setting' = true) /\
    (forall k, amem k setting' = true -> amem k setting1 = true \/ k = sname s) /\
    (default_present s = true -> amem (sname s) setting' = true).
  Proof.
    intros Hs ND Hothers Hraw H.
    destruct (Hslots s Hs) as [s' [Hf [Hkr Hsk]]].
    unfold check_property in H. set (n := sname s) in *.
    (* a uniform treatment of "the value at n is raw JSON j in scope, everything else is fine" *)
    assert (Clean : forall st j,
               NoDup (map fst st) ->
               (forall k x, In (k, x) st -> k <> n -> entry_ok k x) ->
               alookup n st = Some (PJ j) -> jscope j = true ->
               match clean_kind vr w rc rp ro (skind s) false false j with
               | Ok (v, hc) =>
                 do _ <- (match cfamily c, cver c, vrefs with
                          | FSco, V20, Some refs =>
                            let chk (allowed : list ustring) (r : pval) : result unit :=
                                match r with
                                | PJ (JStr key) =>
                                  match alookup key refs with
                                  | None => Err EInvalidObjRef
                                  | Some t => match allowed with
                                              | [] => Ok tt
                                              | _ => if mem_ustr t allowed then Ok tt else Err EInvalidObjRef
                                              end
                                  end
                                | _ => Unmodelled
                                end in
                            match skind s, v with
                            | KObjRef allowed, _ => if ustr_prefix (rev (u "_ref")) (rev n) then chk allowed v else Ok tt
                            | KList (KObjRef allowed), PArr l =>
                              if ustr_prefix (rev (u "_refs")) (rev n) then
                                (fix go (l : list pval) : result unit :=
                                   match l with [] => Ok tt | x :: r => do _ <- chk allowed x; go r end) l
                              else Ok tt
                            | _, _ => Ok tt
                            end
                          | _, _, _ => Ok tt
                          end);
                 Ok (aset n v st, hc)
               | Err e => Err EInvalidValue
               | Unmodelled => Unmodelled
               end = Ok (setting', hc') ->
               hc' = false /\ Inv setting' /\
               (forall k, amem k st = true -> amem k setting' = true) /\
               (forall k, amem k setting' = true -> amem k st = true \/ k = n) /\
               amem n setting' = true).
    { intros st j NDst Hoth Hl Hj Hc.
      destruct (clean_kind vr w rc rp ro (skind s) false false j) as [[v hc]| |] eqn:Ec; try discriminate.
      inv_bind Hc. inversion Hcb; subst. clear Hcb Hca.
      destruct (Hsk j v hc' Hj Ec) as [-> [m Hm]].
      split; auto. split; [|split; [|split]].
      - split; [apply keys_aset_nodup; auto|].
        intros k x Hin. apply In_aset_nodup in Hin; auto. destruct Hin as [[-> ->] | [Hin Hne]].
        + exists s'. split; eauto.
        + apply Hoth; auto.
      - intros k Hk. rewrite amem_aset, Hk. apply orb_true_r.
      - intros k Hk. rewrite amem_aset in Hk. apply orb_true_iff in Hk. destruct Hk as [Hk | Hk]; auto.
        right. apply ustr_eqb_eq. auto.
      - rewrite amem_aset, ustr_eqb_refl. auto. }
    destruct (alookup n setting1) as [raw|] eqn:El.
    - (* a value was given (or wrapped by the class __init__) *)
      simpl in H. rewrite El in H.
      destruct raw as [j| | | |].
      + destruct (Clean setting1 j ND Hothers El Hraw H) as (A & B & C & D & E). repeat split; auto; apply B.
      + inversion H; subst. destruct Hraw as [He Hc]. repeat split; auto.
        * intros k x Hin. destruct (ustr_eqb k n) eqn:E.
          -- apply ustr_eqb_eq in E. subst k. rewrite (alookup_In_nodup _ _ _ ND Hin) in El. inversion El; subst. auto.
          -- apply Hothers; auto. apply ustr_eqb_neq. auto.
        * intros _. apply amem_alookup. eauto.
      + inversion H; subst. destruct Hraw as [He Hc]. repeat split; auto.
        * intros k x Hin. destruct (ustr_eqb k n) eqn:E.
          -- apply ustr_eqb_eq in E. subst k. rewrite (alookup_In_nodup _ _ _ ND Hin) in El. inversion El; subst. auto.
          -- apply Hothers; auto. apply ustr_eqb_neq. auto.
        * intros _. apply amem_alookup. eauto.
      + inversion H; subst. destruct Hraw as [He Hc]. repeat split; auto.
        * intros k x Hin. destruct (ustr_eqb k n) eqn:E.
          -- apply ustr_eqb_eq in E. subst k. rewrite (alookup_In_nodup _ _ _ ND Hin) in El. inversion El; subst. auto.
          -- apply Hothers; auto. apply ustr_eqb_neq. auto.
        * intros _. apply amem_alookup. eauto.
      + inversion H; subst. destruct Hraw as [He Hc]. repeat split; auto.
        * intros k x Hin. destruct (ustr_eqb k n) eqn:E.
          -- apply ustr_eqb_eq in E. subst k. rewrite (alookup_In_nodup _ _ _ ND Hin) in El. inversion El; subst. auto.
          -- apply Hothers; auto. apply ustr_eqb_neq. auto.
        * intros _. apply amem_alookup. eauto.
    - (* nothing given: the default, if any *)
      assert (Absent : forall k x, In (k, x) setting1 -> k <> n).
      { intros k x Hin ->. rewrite (alookup_In_nodup _ _ _ ND Hin) in El. discriminate. }
      assert (Hoth' : forall st v, st = aset n v setting1 -> forall k x, In (k, x) st -> k <> n -> entry_ok k x).
      { intros st v -> k x Hin Hne. apply In_aset_nodup in Hin; auto. destruct Hin as [[-> _] | [Hin _]]; [contradiction|].
        apply Hothers; auto. }
      destruct (sdef s) eqn:Ed.
      + (* no default *)
        simpl in H. rewrite El in H. inversion H; subst. repeat split; auto.
        * intros k x Hin. apply Hothers; auto. eapply Absent; eauto.
        * unfold default_present. rewrite Ed. discriminate.
      + (* fixed *)
        destruct (skind s) eqn:Ek; try discriminate. simpl in H. rewrite alookup_aset_same in H.
        rewrite <- Ek in H.
        destruct (Clean (aset n (PJ (JStr v)) setting1) (JStr v)) as (A & B & C & D & E); auto.
        { apply keys_aset_nodup; auto. }
        { eapply Hoth'; eauto. }
        { apply alookup_aset_same. }
        repeat split; auto; try apply B.
        * intros k Hk. apply C. rewrite amem_aset, Hk. apply orb_true_r.
        * intros k Hk. destruct (D k Hk) as [Hk' | Hk']; auto. rewrite amem_aset in Hk'.
          apply orb_true_iff in Hk'. destruct Hk' as [Hk' | Hk']; auto. right. apply ustr_eqb_eq. auto.
      + (* the clock *)
        destruct (skind s) eqn:Ek; try discriminate.
        destruct (ts_clean_now (vr_year_pad vr) p c0 (e_now ev)) as [r| |] eqn:Et; try discriminate.
        simpl in H. rewrite alookup_aset_same in H. inversion H; subst. clear H.
        assert (Hv : entry_ok n (PTime (fst r) (snd r))).
        { exists s'. split; auto. rewrite Ek in Hkr. destruct (skind s') eqn:Ek'; simpl in Hkr; try discriminate.
          apply andb_true_iff in Hkr. destruct Hkr as [Hp Hc].
          assert (p0 = p) by (destruct p, p0; simpl in Hp; auto; discriminate).
          assert (c1 = c0) by (destruct c0, c1; simpl in Hc; auto; discriminate). subst.
          exists 1%nat. simpl. rewrite Hpad in Et. eapply ts_clean_now_valid; eauto. }
        repeat split; auto.
        * apply keys_aset_nodup; auto.
        * intros k x Hin. apply In_aset_nodup in Hin; auto. destruct Hin as [[-> ->] | [Hin _]]; auto.
          apply Hothers; auto. eapply Absent; eauto.
        * intros k Hk. rewrite amem_aset, Hk. apply orb_true_r.
        * intros k Hk. rewrite amem_aset in Hk. apply orb_true_iff in Hk. destruct Hk as [Hk | Hk]; auto.
          right. apply ustr_eqb_eq. auto.
        * intros _. rewrite amem_aset, ustr_eqb_refl. auto.
      + (* uuid4 *)
        destruct (skind s) eqn:Ek; try discriminate. simpl in H. rewrite alookup_aset_same in H.
        rewrite <- Ek in H.
        destruct (Clean (aset n (PJ (JStr (prefix ++ e_uuid4 ev))) setting1) (JStr (prefix ++ e_uuid4 ev))) as (A & B & C & D & E); auto.
        { apply keys_aset_nodup; auto. }
        { eapply Hoth'; eauto. }
        { apply alookup_aset_same. }
        repeat split; auto; try apply B.
        * intros k Hk. apply C. rewrite amem_aset, Hk. apply orb_true_r.
        * intros k Hk. destruct (D k Hk) as [Hk' | Hk']; auto. rewrite amem_aset in Hk'.
          apply orb_true_iff in Hk'. destruct Hk' as [Hk' | Hk']; auto. right. apply ustr_eqb_eq. auto.
      + (* a constant *)
        simpl in H. rewrite alookup_aset_same in H.
        destruct (Clean (aset n (PJ j) setting1) j) as (A & B & C & D & E); auto.
        { apply keys_aset_nodup; auto. }
        { eapply Hoth'; eauto. }
        { apply alookup_aset_same. }
        { eapply Hdconst; eauto. }
        repeat split; auto; try apply B.
        * intros k Hk. apply C. rewrite amem_aset, Hk. apply orb_true_r.
        * intros k Hk. destruct (D k Hk) as [Hk' | Hk']; auto. rewrite amem_aset in Hk'.
          apply orb_true_iff in Hk'. destruct Hk' as [Hk' | Hk']; auto. right. apply ustr_eqb_eq. auto.
        * unfold default_present. rewrite Ed. discriminate.
  Qed.
End Obj.

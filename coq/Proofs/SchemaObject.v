(* Proofs/SchemaObject.v -- the object-level lemma of C02: what _STIXBase.__init__ (construct_generic)
   returns in strict mode, for input in scope, encodes to an object the specification's class accepts:
   no unknown property, every present value valid for its slot, every required property present, every
   co-constraint met -- from per-slot soundness of clean and soundness of the constraint evaluation.  *)
From Coq Require Import NArith ZArith List String Bool Lia.
From V Require Import Base.UString Base.Json Model.SchemaTypes Model.PyBase Model.Schema
     Spec.StixValid Spec.SchemaRefine Proofs.SchemaBasics Proofs.SchemaValidMono Proofs.SchemaScope Proofs.SchemaTime.
Import ListNotations.

(* names as a set *)
Fixpoint unodup (l : list ustring) : bool :=
  match l with [] => true | x :: r => negb (mem_ustr x r) && unodup r end.

Lemma unodup_NoDup l : unodup l = true -> NoDup l.
Proof.
  induction l; simpl; intros H; constructor.
  - apply andb_true_iff in H. destruct H as [H _]. apply negb_true_iff in H. apply mem_ustr_false in H. auto.
  - apply andb_true_iff in H. tauto.
Qed.

Lemma In_aset_nodup {A} k (v : A) m k2 x :
  NoDup (map fst m) -> In (k2, x) (aset k v m) -> (k2 = k /\ x = v) \/ (In (k2, x) m /\ k2 <> k).
Proof.
  induction m as [|[k' v'] m IH]; simpl; intros ND H.
  - destruct H as [H | []]. inversion H; auto.
  - inversion ND as [|? ? Hnotin ND']; subst. destruct (ustr_eqb k k') eqn:E.
    + apply ustr_eqb_eq in E. subst k'. destruct H as [H | H].
      * inversion H; auto.
      * right. split; auto. intros ->. apply Hnotin. apply in_map_iff. exists (k, x). auto.
    + destruct H as [H | H].
      * inversion H; subst. right. split; auto. intros ->. rewrite ustr_eqb_refl in E. discriminate.
      * destruct (IH ND' H) as [Hx | [Hx Hn]]; auto.
Qed.

(* a bound that works for every element *)
Lemma forall_exists_bound {A} (P : nat -> A -> Prop) (l : list A) :
  (forall (n m : nat) x, (n <= m)%nat -> P n x -> P m x) ->
  (forall x, In x l -> exists n, P n x) -> exists N, forall x, In x l -> P N x.
Proof.
  intros Mono. induction l as [|a l IH]; intros H.
  - exists 0%nat. intros x [].
  - destruct (H a (or_introl eq_refl)) as [n Hn].
    destruct IH as [N HN]. { intros x Hx. apply H. right. auto. }
    exists (Nat.max n N). intros x [-> | Hx].
    + eapply Mono; [|exact Hn]. lia.
    + eapply Mono; [|apply HN; auto]. lia.
Qed.

Lemma find_self_nodup (l : list slot) s :
  NoDup (map sname l) -> In s l -> find (fun x => ustr_eqb (sname x) (sname s)) l = Some s.
Proof.
  induction l as [|a l IH]; simpl; intros ND Hin; [tauto|].
  inversion ND as [|? ? Hnotin ND']; subst. destruct Hin as [-> | Hin].
  - rewrite ustr_eqb_refl. auto.
  - destruct (ustr_eqb (sname a) (sname s)) eqn:E; [|apply IH; auto].
    apply ustr_eqb_eq in E. exfalso. apply Hnotin. rewrite E. apply in_map. auto.
Qed.

Section Obj.
  Variable vr : variant.
  Variable ev : env.
  Variables w sp : world.
  Variable pok : ver -> ustring -> bool.
  Variable sok : list (ustring * pval) -> pval -> result bool.
  Variable rc : ustring -> bool -> bool -> list (ustring * jvalue) -> result pval.
  Variable rp : bool -> bool -> list (ustring * jvalue) -> result pval.
  Variable ro : ver -> list (ustring * ustring) -> bool -> list (ustring * jvalue) -> result pval.

  Hypothesis Hpad : vr_year_pad vr = true.

  (* what is claimed of a constructed object *)
  Definition good (cid : ustring) (o : pval) : Prop :=
    exists inner dfl, o = PObject cid inner dfl false /\
                      exists n, valid_obj sp pok n cid (encode false o) = true.

  Definition sound_kind (k k' : pkind) : Prop :=
    forall v pv hc, jscope v = true -> clean_kind vr w rc rp ro k false false v = Ok (pv, hc) ->
                    hc = false /\ nice pv /\ exists n, valid_kind sp pok n k' (encode false pv) = true.

  Variables c sc : cls.     (* the library's class and the specification's class of the same id *)

  Hypothesis Hnames : unodup (map sname (cslots c)) = true.
  Hypothesis Hslots : forall s, In s (cslots c) ->
      exists s', find_slot sc (sname s) = Some s' /\ kind_refines (skind s) (skind s') = true /\
                 sound_kind (skind s) (skind s').
  Hypothesis Hdconst : forall s j, In s (cslots c) -> sdef s = DConst j -> jscope j = true.
  Hypothesis Hreq : forall s', In s' (cslots sc) -> spec_requires sc s' = true ->
      exists s, find_slot c (sname s') = Some s /\ always_present s = true.

  Definition entry_ok (n : ustring) (x : pval) : Prop :=
    nice x /\ exists s', find_slot sc n = Some s' /\ exists m, valid_kind sp pok m (skind s') (encode false x) = true.

  Definition Inv (setting : list (ustring * pval)) : Prop :=
    NoDup (map fst setting) /\ forall k x, In (k, x) setting -> entry_ok k x.

  Lemma slot_of_spec n s : slot_of c n = Some s -> In s (cslots c) /\ sname s = n.
  Proof.
    unfold slot_of. intros H. apply find_some in H. destruct H as [H1 H2]. apply ustr_eqb_eq in H2. auto.
  Qed.

  Lemma find_slot_spec cl n s : find_slot cl n = Some s -> In s (cslots cl) /\ sname s = n.
  Proof.
    unfold find_slot. intros H. apply find_some in H. destruct H as [H1 H2]. apply ustr_eqb_eq in H2. auto.
  Qed.

  (* with distinct names, the slot found by name is the slot *)
  Lemma slot_of_self s : In s (cslots c) -> slot_of c (sname s) = Some s.
  Proof. intros H. unfold slot_of. apply find_self_nodup; auto. apply unodup_NoDup. exact Hnames. Qed.

  Definition default_present (s : slot) : bool := match sdef s with DFixed | DNow | DUuid4 => true | _ => false end.

  Lemma Inv_aset setting n v : Inv setting -> entry_ok n v -> Inv (aset n v setting).
  Proof.
    intros [ND H] Hv. split.
    - apply keys_aset_nodup. auto.
    - intros k x Hin. apply In_aset_nodup in Hin; auto. destruct Hin as [[-> ->] | [Hin _]]; auto.
  Qed.

  (* ---- one property ---- *)
  (* clean of the value present at the slot's name *)
  Lemma clean_present_ok s vrefs st isnow setting' hc' :
    In s (cslots c) ->
    NoDup (map fst st) ->
    (forall k x, In (k, x) st -> k <> sname s -> entry_ok k x) ->
    match alookup (sname s) st with
    | Some (PJ j) => isnow = false /\ jscope j = true
    | Some x => entry_ok (sname s) x /\ pval_has_custom x = false
    | None => True
    end ->
    clean_present vr w rc rp ro c s false false vrefs st isnow = Ok (setting', hc') ->
    hc' = false /\ Inv setting' /\
    (forall k, amem k st = true -> amem k setting' = true) /\
    (forall k, amem k setting' = true -> amem k st = true \/ k = sname s) /\
    (amem (sname s) st = true -> amem (sname s) setting' = true).
  Proof.
    intros Hs ND Hoth Hraw H.
    destruct (Hslots s Hs) as [s' [Hf [Hkr Hsk]]].
    unfold clean_present in H. set (n := sname s) in *.
    destruct (alookup n st) as [raw|] eqn:El.
    - assert (Keep : forall x, alookup n st = Some x -> entry_ok n x -> Inv st).
      { intros x Ex Hx. split; auto. intros k y Hin. destruct (ustr_eqb k n) eqn:E.
        - apply ustr_eqb_eq in E. subst k. rewrite (alookup_In_nodup _ _ _ ND Hin) in Ex. inversion Ex; subst. auto.
        - apply Hoth; auto. apply ustr_eqb_neq. auto. }
      destruct raw as [j| | | |].
      + destruct Hraw as [-> Hraw].
        destruct (clean_kind vr w rc rp ro (skind s) false false j) as [[v hc]| |] eqn:Ec; try discriminate.
        inv_bind H. inversion Hb; subst. clear Hb Ha.
        destruct (Hsk j v hc' Hraw Ec) as [-> [Hnice [m Hm]]].
        split; auto. split; [|split; [|split]].
        * split; [apply keys_aset_nodup; auto|].
          intros k x Hin. apply In_aset_nodup in Hin; auto. destruct Hin as [[-> ->] | [Hin Hne]].
          -- split; auto. exists s'. split; eauto.
          -- apply Hoth; auto.
        * intros k Hk. rewrite amem_aset, Hk. apply orb_true_r.
        * intros k Hk. rewrite amem_aset in Hk. apply orb_true_iff in Hk. destruct Hk as [Hk | Hk]; auto.
          right. apply ustr_eqb_eq. auto.
        * intros _. rewrite amem_aset, ustr_eqb_refl. auto.
      + destruct Hraw as [He Hc]. assert (setting' = st /\ hc' = false) as [-> ->].
        { destruct isnow; [inversion H; subst; auto|]. rewrite Hc in H. rewrite andb_false_r in H.
          destruct (vr_marking_flag vr); inversion H; subst; auto. }
        split; [auto|split; [apply (Keep _ El He)|repeat split; auto]].
      + destruct Hraw as [He Hc]. assert (setting' = st /\ hc' = false) as [-> ->].
        { destruct isnow; [inversion H; subst; auto|]. rewrite Hc in H. rewrite andb_false_r in H.
          destruct (vr_marking_flag vr); inversion H; subst; auto. }
        split; [auto|split; [apply (Keep _ El He)|repeat split; auto]].
      + destruct Hraw as [He Hc]. assert (setting' = st /\ hc' = false) as [-> ->].
        { destruct isnow; [inversion H; subst; auto|]. rewrite Hc in H. rewrite andb_false_r in H.
          destruct (vr_marking_flag vr); inversion H; subst; auto. }
        split; [auto|split; [apply (Keep _ El He)|repeat split; auto]].
      + destruct Hraw as [He Hc]. assert (setting' = st /\ hc' = false) as [-> ->].
        { destruct isnow; [inversion H; subst; auto|]. rewrite Hc in H. rewrite andb_false_r in H.
          destruct (vr_marking_flag vr); inversion H; subst; auto. }
        split; [auto|split; [apply (Keep _ El He)|repeat split; auto]].
    - inversion H; subst. split; [auto|]. split; [split; [auto|]|repeat split; auto].
      intros k x Hin. apply Hoth; auto. intros ->. rewrite (alookup_In_nodup _ _ _ ND Hin) in El. discriminate.
  Qed.

  Lemma check_property_ok s vrefs setting1 setting' hc' :
    In s (cslots c) ->
    NoDup (map fst setting1) ->
    (forall k x, In (k, x) setting1 -> k <> sname s -> entry_ok k x) ->
    match alookup (sname s) setting1 with
    | Some (PJ j) => jscope j = true
    | Some x => entry_ok (sname s) x /\ pval_has_custom x = false
    | None => True
    end ->
    check_property vr ev w rc rp ro c s false false vrefs setting1 = Ok (setting', hc') ->
    hc' = false /\ Inv setting' /\
    (forall k, amem k setting1 = true -> amem k setting' = true) /\
    (forall k, amem k setting' = true -> amem k setting1 = true \/ k = sname s) /\
    (default_present s = true -> amem (sname s) setting' = true).
  Proof.
    intros Hs ND Hothers Hraw H.
    destruct (Hslots s Hs) as [s' [Hf [Hkr Hsk]]].
    unfold check_property in H. inv_bind H. destruct a as [st isnow]. simpl in Hb.
    unfold default_value in Ha. set (n := sname s) in *.
    destruct (alookup n setting1) as [raw|] eqn:El.
    - (* a value was given (or wrapped by the class __init__) *)
      inversion Ha; subst. clear Ha.
      destruct (clean_present_ok s vrefs st false setting' hc' Hs ND Hothers) as (A & B & C & D & E); auto.
      { fold n. rewrite El. destruct raw; auto. }
      split; [|split; [|split; [|split]]]; auto. intros _. apply E. apply amem_alookup. eauto.
    - (* nothing given: the default, if any *)
      assert (Absent : forall k x, In (k, x) setting1 -> k <> n).
      { intros k x Hin ->. rewrite (alookup_In_nodup _ _ _ ND Hin) in El. discriminate. }
      assert (Hoth' : forall v k x, In (k, x) (aset n v setting1) -> k <> n -> entry_ok k x).
      { intros v k x Hin Hne. apply In_aset_nodup in Hin; auto. destruct Hin as [[-> _] | [Hin _]]; [contradiction|].
        apply Hothers; auto. }
      (* what happens once a default v has been put in *)
      assert (Put : forall v isn,
                 st = aset n v setting1 -> isnow = isn ->
                 match v with
                 | PJ j => isn = false /\ jscope j = true
                 | x => entry_ok n x /\ pval_has_custom x = false
                 end ->
                 hc' = false /\ Inv setting' /\
                 (forall k, amem k setting1 = true -> amem k setting' = true) /\
                 (forall k, amem k setting' = true -> amem k setting1 = true \/ k = n) /\
                 amem n setting' = true).
      { intros v isn -> -> Hv.
        destruct (clean_present_ok s vrefs (aset n v setting1) isn setting' hc' Hs) as (A & B & C & D & E); auto.
        all: try (apply keys_aset_nodup; auto; fail).
        all: try (intros k x Hin Hne; eapply Hoth'; eauto; fail).
        all: try (fold n; rewrite alookup_aset_same; exact Hv).
        - split; [|split; [|split; [|split]]]; auto.
          + intros k Hk. apply C. rewrite amem_aset, Hk. apply orb_true_r.
          + intros k Hk. destruct (D k Hk) as [Hk' | Hk']; auto. rewrite amem_aset in Hk'.
            apply orb_true_iff in Hk'. destruct Hk' as [Hk' | Hk']; auto. right. apply ustr_eqb_eq. auto.
          + apply E. rewrite amem_aset, ustr_eqb_refl. auto. }
      destruct (sdef s) eqn:Ed.
      + (* no default *)
        inversion Ha; subst. clear Ha.
        destruct (clean_present_ok s vrefs st false setting' hc' Hs ND Hothers) as (A & B & C & D & E); auto.
        { fold n. rewrite El. auto. }
        all: split; [|split; [|split; [|split]]]; auto.
        all: try (unfold default_present; rewrite Ed; discriminate).
      + (* fixed *)
        destruct (skind s) eqn:Ek; try discriminate. inversion Ha; subst. clear Ha.
        destruct (Put (PJ (JStr v)) false) as (A & B & C & D & E); auto.
        all: split; [|split; [|split; [|split]]]; auto.
      + (* the clock *)
        destruct (skind s) eqn:Ek; try discriminate.
        destruct (ts_clean_now (vr_year_pad vr) p c0 (e_now ev)) as [r| |] eqn:Et; try discriminate.
        simpl in Ha. inversion Ha; subst. clear Ha.
        destruct (Put (PTime (fst r) (snd r)) true) as (A & B & C & D & E); auto.
        { rewrite Hpad in Et. pose proof (ts_clean_now_valid _ _ _ _ Et) as Hvt.
          split; auto. split; [simpl; eapply valid_timestamp_nonempty; eauto|].
          exists s'. split; auto. destruct (skind s') eqn:Ek'; simpl in Hkr; try discriminate.
          apply andb_true_iff in Hkr. destruct Hkr as [Hp Hc].
          assert (p0 = p) by (destruct p, p0; simpl in Hp; auto; discriminate).
          assert (c1 = c0) by (destruct c0, c1; simpl in Hc; auto; discriminate). subst.
          exists 1%nat. simpl. exact Hvt. }
        all: split; [|split; [|split; [|split]]]; auto.
      + (* uuid4 *)
        destruct (skind s) eqn:Ek; try discriminate. inversion Ha; subst. clear Ha.
        destruct (Put (PJ (JStr (prefix ++ e_uuid4 ev))) false) as (A & B & C & D & E); auto.
        all: split; [|split; [|split; [|split]]]; auto.
      + (* a constant *)
        inversion Ha; subst. clear Ha.
        destruct (Put (PJ j) false) as (A & B & C & D & E); auto.
        { split; auto. eapply Hdconst; eauto. }
        all: split; [|split; [|split; [|split]]]; auto.
        all: try (unfold default_present; rewrite Ed; discriminate).
  Qed.

  (* ---- the loop over the class's properties ---- *)
  Variable kwargs : list (ustring * jvalue).
  Hypothesis Hkw : dict_scope kwargs = true.
  Variable pre : list (ustring * pval).
  Hypothesis Hpre : forall n x, alookup n pre = Some x ->
      match x with PJ _ => False | _ => True end /\ entry_ok n x /\ pval_has_custom x = false.

  Lemma assign_raw_spec n setting :
    alookup n setting = None ->
    let st := assign_raw kwargs [] pre n setting in
    NoDup (map fst setting) -> 
    NoDup (map fst st) /\
    (forall k x, In (k, x) st -> k <> n -> In (k, x) setting) /\
    (forall k, amem k setting = true -> amem k st = true) /\
    (forall k, amem k st = true -> amem k setting = true \/ k = n) /\
    match alookup n st with
    | Some (PJ j) => jscope j = true
    | Some x => entry_ok n x /\ pval_has_custom x = false
    | None => True
    end.
  Proof.
    intros El st ND. unfold assign_raw in st.
    assert (Same : st = setting -> NoDup (map fst st) /\
      (forall k x, In (k, x) st -> k <> n -> In (k, x) setting) /\
      (forall k, amem k setting = true -> amem k st = true) /\
      (forall k, amem k st = true -> amem k setting = true \/ k = n) /\
      match alookup n st with
      | Some (PJ j) => jscope j = true
      | Some x => entry_ok n x /\ pval_has_custom x = false
      | None => True
      end).
    { intros ->. rewrite El. split; [auto|split; [auto|split; [auto|split; auto]]]. }
    assert (Set_ : forall v, st = aset n v setting ->
      match v with PJ j => jscope j = true | x => entry_ok n x /\ pval_has_custom x = false end ->
      NoDup (map fst st) /\
      (forall k x, In (k, x) st -> k <> n -> In (k, x) setting) /\
      (forall k, amem k setting = true -> amem k st = true) /\
      (forall k, amem k st = true -> amem k setting = true \/ k = n) /\
      match alookup n st with
      | Some (PJ j) => jscope j = true
      | Some x => entry_ok n x /\ pval_has_custom x = false
      | None => True
      end).
    { intros v -> Hv. rewrite alookup_aset_same. split; [apply keys_aset_nodup; auto|]. split; [|split; [|split; [|exact Hv]]].
      - intros k x Hin Hne. apply In_aset_nodup in Hin; auto. destruct Hin as [[-> _]|[Hin _]]; [contradiction|auto].
      - intros k Hk. rewrite amem_aset, Hk. apply orb_true_r.
      - intros k Hk. rewrite amem_aset in Hk. apply orb_true_iff in Hk. destruct Hk as [Hk|Hk]; auto.
        right. apply ustr_eqb_eq. auto. }
    subst st. destruct (alookup n pre) as [pv|] eqn:Ep.
    - apply (Set_ pv); auto. destruct (Hpre _ _ Ep) as (A & B & C). destruct pv; auto; contradiction.
    - simpl. destruct (alookup n kwargs) as [v|] eqn:Ek.
      + pose proof (dict_scope_lookup _ _ _ Hkw Ek) as Hv.
        destruct v as [|b|z|r|t|l|m].
        * apply Same; auto.
        * apply (Set_ (PJ (JBool b))); auto.
        * apply (Set_ (PJ (JInt z))); auto.
        * apply (Set_ (PJ (JFloat r))); auto.
        * apply (Set_ (PJ (JStr t))); auto.
        * destruct l as [|x l]; [apply Same; auto | apply (Set_ (PJ (JArr (x :: l)))); auto].
        * apply (Set_ (PJ (JObj m))); auto.
      + apply Same; auto.
  Qed.

  Lemma assign_loop_ok vrefs : forall l setting setting' hc',
    NoDup l -> (forall n, In n l -> exists s, slot_of c n = Some s) ->
    (forall k, amem k setting = true -> ~ In k l) ->
    Inv setting ->
    assign_loop vr ev w rc rp ro c false false vrefs kwargs [] pre l setting false = Ok (setting', hc') ->
    hc' = false /\ Inv setting' /\
    (forall k, amem k setting = true -> amem k setting' = true) /\
    (forall n s, In n l -> slot_of c n = Some s -> default_present s = true -> amem n setting' = true).
  Proof.
    induction l as [|n rest IH]; intros setting setting' hc' NDl Hsl Hfresh HInv H.
    - simpl in H. inversion H; subst. split; [auto|split; [auto|split; [auto|]]]. intros n s [].
    - simpl in H. inversion NDl as [|? ? Hn NDrest]; subst.
      destruct (Hsl n (or_introl eq_refl)) as [s Hs]. rewrite Hs in H.
      destruct (slot_of_spec _ _ Hs) as [Hin Hname].
      assert (El : alookup n setting = None).
      { apply amem_false. destruct (amem n setting) eqn:E; auto. exfalso. apply (Hfresh n E). left; auto. }
      destruct HInv as [ND Hent].
      destruct (assign_raw_spec n setting El ND) as (ND1 & Hold & Hmono1 & Hkeys1 & Hraw).
      set (st := assign_raw kwargs [] pre n setting) in *.
      inv_bind H. destruct a as [st2 hc2]. simpl in Hb.
      destruct (check_property_ok s vrefs st st2 hc2 Hin ND1) as (A & B & C & D & E).
      { rewrite Hname. intros k x Hk Hne. apply Hent. apply Hold; auto. }
      { rewrite Hname. exact Hraw. }
      { exact Ha. }
      subst hc2. simpl in Hb.
      destruct (IH st2 setting' hc' NDrest) as (A' & B' & C' & D'); auto.
      { intros m Hm. apply Hsl. right; auto. }
      { intros k Hk Hin'. destruct (D k Hk) as [Hk' | ->].
        - destruct (Hkeys1 k Hk') as [Hk'' | ->].
          + apply (Hfresh k Hk''). right; auto.
          + apply Hn; auto.
        - rewrite Hname in Hin'. apply Hn; auto. }
      split; [auto|split; [auto|split; [auto|]]].
      intros m s0 [<- | Hm] Hs0 Hd.
      + rewrite Hs in Hs0. inversion Hs0; subst s0. apply C'. rewrite <- Hname. apply E; auto.
      + eapply D'; eauto.
  Qed.

  (* ---- the whole constructor ---- *)
  Hypothesis Hfind : find_class (wclasses sp) (cid c) = Some sc.
  Hypothesis Hfam : cfamily c = cfamily sc.

  (* the members of the serialized object *)
  Definition members (setting : list (ustring * pval)) : list (ustring * jvalue) :=
    map (fun kv => (fst kv, encode false (snd kv))) (filter (kept false (defaulted_names c setting)) setting).

  (* soundness of the constraint evaluation for this class (Proofs/SchemaConstr.v) *)
  Hypothesis Hcon : forall fuel setting,
      Inv setting ->
      constr_all (eval_constr vr pok fuel c setting)
                 ((match cfamily c with FExt => [CAtLeastOneDefault] | _ => [] end) ++ ccons c) = Ok tt ->
      exists n, forallb (jconstr pok n sc (members setting))
                        ((match cfamily sc with FExt => [CAtLeastOneDefault] | _ => [] end) ++ ccons sc) = true.

  Lemma ext_scan_scope hs exts b :
    forallb (fun kv => entry_scope (fst kv) (snd kv) && jscope (snd kv)) exts = true ->
    ext_scan vr w hs exts = Ok b -> b = false.
  Proof.
    revert b. induction exts as [|[eid e] exts IH]; simpl; intros b Hsc H.
    - inversion H; auto.
    - apply andb_true_iff in Hsc. destruct Hsc as [Hsc1 Hsc2]. apply andb_true_iff in Hsc1. destruct Hsc1 as [_ He].
      inv_bind H. assert (a = false).
      { unfold ext_is_toplevel in Ha. destruct e; try (destruct (vr_ext_scan_guard vr); inversion Ha; auto; fail).
        inversion Ha. apply dict_scope_not_toplevel. exact He. }
      subst a. auto.
  Qed.

  Lemma defaulted_not_present s :
    In s (cslots c) -> always_present s = true -> forall setting, mem_ustr (sname s) (defaulted_names c setting) = false.
  Proof.
    intros Hs Hap setting. apply mem_ustr_false. unfold defaulted_names. intros Hin.
    apply in_map_iff in Hin. destruct Hin as [s2 [Hn Hf]]. apply filter_In in Hf. destruct Hf as [Hs2 Hc].
    assert (s2 = s).
    { pose proof (slot_of_self s2 Hs2) as A. rewrite Hn in A. rewrite (slot_of_self s Hs) in A. inversion A; auto. }
    subst s2. apply andb_true_iff in Hc. destruct Hc as [Hr Hd].
    unfold always_present in Hap. apply negb_true_iff in Hr. rewrite Hr in Hap. simpl in Hap.
    destruct (sdef s); discriminate.
  Qed.

  (* what the constructor establishes about the stored properties *)
  Definition facts (setting : list (ustring * pval)) : Prop :=
    Inv setting /\
    (forall s', In s' (cslots sc) -> spec_requires sc s' = true -> amem (sname s') setting = true) /\
    (forall s, In s (cslots c) -> default_present s = true -> amem (sname s) setting = true) /\
    exists fuel, constr_all (eval_constr vr pok fuel c setting)
                            ((match cfamily c with FExt => [CAtLeastOneDefault] | _ => [] end) ++ ccons c) = Ok tt.

  Lemma construct_generic_facts fuel kwargs0 vrefs o :
    kwargs0 = kwargs ->
    construct_generic vr ev w pok sok rc rp ro fuel c false false kwargs0 pre vrefs = Ok o ->
    exists setting, o = PObject (cid c) setting (defaulted_names c setting) false /\ facts setting.
  Proof.
    intros -> H. unfold construct_generic in H.
    rewrite (dict_scope_no_custom _ Hkw) in H. rewrite (aremove_absent _ _ (dict_scope_no_custom _ Hkw)) in H.
    cbn [bind] in H.
    (* the extension scan finds no unregistered toplevel-property-extension in scope *)
    match type of H with bind ?scan _ = _ => destruct scan as [b| |] eqn:Escan; try discriminate end.
    assert (b = false).
    { destruct (alookup (u "extensions") kwargs) as [ev0|] eqn:Ee; [|inversion Escan; auto].
      destruct (negb (truthy ev0)); [inversion Escan; auto|].
      pose proof (dict_scope_lookup _ _ _ Hkw Ee) as Hev0.
      destruct ev0; try (destruct (vr_ext_scan_guard vr); inversion Escan; auto; fail).
      eapply ext_scan_scope; [apply dict_scope_forall; exact Hev0 | exact Escan]. }
    subst b. cbn [bind] in H. cbv zeta in H.
    set (prop_names := map sname (cslots c)) in *.
    destruct (filter (fun k => negb (mem_ustr k prop_names)) (akeys kwargs)) as [|x xs] eqn:Eextra; [|discriminate].
    rewrite andb_false_r in H. simpl in H.
    replace (if vr_flag_from_stored vr then false else false) with false in H by (destruct (vr_flag_from_stored vr); auto).
    rewrite andb_false_r in H.
    destruct (match cver c with V20 => false | V21 => false end) eqn:Ev; [destruct (cver c); discriminate|].
    replace (match cver c with V20 => false | V21 => negb true end) with false in H by (destruct (cver c); auto).
    rewrite app_nil_r in H.
    match type of H with bind ?lp _ = _ => destruct lp as [[setting hc]| |] eqn:Eloop; try discriminate end.
    cbn [bind] in H.
    destruct (assign_loop_ok vrefs prop_names [] setting hc) as (Hhc & HInv & _ & Hdef); auto.
    { apply unodup_NoDup. exact Hnames. }
    { intros n Hn. unfold prop_names in Hn. apply in_map_iff in Hn. destruct Hn as [s [<- Hs]].
      exists s. apply slot_of_self; auto. }
    { intros k Hk. discriminate. }
    { split; [constructor | intros k x []]. }
    subst hc.
    destruct (existsb (fun s => sreq s && negb (amem (sname s) setting)) (cslots c)) eqn:Emiss; [discriminate|].
    inv_bind H. inv_bind Hb. clear Ha. simpl in Hbb. inversion Hbb; subst o. clear Hbb.
    exists setting. split; auto. destruct a0. split; [auto|split; [|split; [|eauto]]].
    2: { intros s Hs Hd. eapply Hdef; eauto. unfold prop_names. apply in_map. auto. apply slot_of_self. auto. }
    intros s' Hs' Er. destruct (Hreq s' Hs' Er) as [s [Hfs Hap]].
    destruct (find_slot_spec _ _ _ Hfs) as [Hs Hn].
    unfold always_present in Hap. destruct (sreq s) eqn:Esr.
    - rewrite <- Hn. destruct (amem (sname s) setting) eqn:Ea; auto.
      exfalso. assert (existsb (fun s => sreq s && negb (amem (sname s) setting)) (cslots c) = true).
      { apply existsb_exists. exists s. split; auto. rewrite Esr, Ea. auto. }
      congruence.
    - simpl in Hap. rewrite <- Hn. eapply Hdef; eauto.
      + unfold prop_names. apply in_map. auto.
      + apply slot_of_self. auto.
  Qed.

  (* ... and what follows from it about the serialized object *)
  Lemma facts_good setting : facts setting -> good (cid c) (PObject (cid c) setting (defaulted_names c setting) false).
  Proof.
    intros (HInv & Hpresent & _ & fuel & Hall).
    exists setting, (defaulted_names c setting). split; auto.
    destruct (Hcon fuel setting HInv Hall) as [nc Hnc].
    assert (Hmem : exists N, forall kv, In kv (members setting) ->
               match find (fun s => ustr_eqb (sname s) (fst kv)) (cslots sc) with
               | Some s => valid_kind sp pok N (skind s) (snd kv) = true
               | None => False
               end).
    { apply forall_exists_bound.
      - intros n m kv Hle. destruct (find _ (cslots sc)); auto. apply valid_kind_mono; auto.
      - intros kv Hin. unfold members in Hin. apply in_map_iff in Hin. destruct Hin as [[k x] [<- Hin]].
        apply filter_In in Hin. destruct Hin as [Hin _]. simpl.
        destruct HInv as [_ Hent]. destruct (Hent k x Hin) as [_ [s' [Hf [m Hm]]]].
        unfold find_slot in Hf. rewrite Hf. eauto. }
    destruct Hmem as [N HN].
    exists (S (Nat.max N nc)).
    rewrite encode_PObject. fold (members setting).
    change (valid_obj_body sp (valid_kind sp pok (Nat.max N nc)) (jconstr pok (S (Nat.max N nc))) (cid c) (JObj (members setting)) = true).
    unfold valid_obj_body. rewrite Hfind.
    apply andb_true_iff. split; [apply andb_true_iff; split|].
    - rewrite forallb_forall. intros kv Hin. specialize (HN kv Hin).
      destruct (find _ (cslots sc)); [|contradiction]. eapply valid_kind_mono; [|exact HN]. lia.
    - rewrite forallb_forall. intros s' Hs'. destruct (spec_required sc s') eqn:Er; auto. simpl.
      pose proof (Hpresent s' Hs' Er) as Hpres.
      destruct (Hreq s' Hs' Er) as [s [Hfs Hap]].
      destruct (find_slot_spec _ _ _ Hfs) as [Hs Hn].
      rewrite jlookup_alookup. unfold members, kept. rewrite alookup_map_encode.
      rewrite (alookup_filter_keys (fun k => false || negb (mem_ustr k (defaulted_names c setting)))).
      rewrite <- Hn at 1. rewrite (defaulted_not_present s Hs Hap). simpl.
      apply amem_alookup in Hpres. destruct Hpres as [v Hv]. rewrite Hv. auto.
    - rewrite <- Hfam in *. revert Hnc. apply forallb_imp. intros k _. apply jconstr_mono. lia.
  Qed.

  Lemma construct_generic_ok fuel kwargs0 vrefs o :
    kwargs0 = kwargs ->
    construct_generic vr ev w pok sok rc rp ro fuel c false false kwargs0 pre vrefs = Ok o ->
    good (cid c) o.
  Proof.
    intros E H. destruct (construct_generic_facts fuel kwargs0 vrefs o E H) as (setting & -> & F).
    apply facts_good. exact F.
  Qed.
End Obj.

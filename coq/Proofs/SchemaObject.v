(* Proofs/SchemaObject.v -- the object-level lemma of C02: what _STIXBase.__init__ (construct_generic)
   returns in strict mode, for input in scope, encodes to an object the specification's class accepts:
   no unknown property, every present value valid for its slot, every required property present, every
   co-constraint met -- from per-slot soundness of clean and soundness of the constraint evaluation.  *)
From Coq Require Import NArith ZArith List String Bool Lia.
From V Require Import Base.UString Base.Json Model.SchemaTypes Model.PyBase Model.Schema
     Spec.StixValid Spec.SchemaRefine Proofs.SchemaBasics Proofs.SchemaValidMono Proofs.SchemaScope Proofs.SchemaTime.
Import ListNotations.

(* names as a set *)
Fixpoint unodup (l : list ustring) : bool :=
  match l with [] => true | x :: r => negb (mem_ustr x r) && unodup r end.

Lemma unodup_NoDup l : unodup l = true -> NoDup l.
Proof.
  induction l; simpl; intros H; constructor.
  - apply andb_true_iff in H. destruct H as [H _]. apply negb_true_iff in H. apply mem_ustr_false in H. auto.
  - apply andb_true_iff in H. tauto.
Qed.

Lemma In_aset_nodup {A} k (v : A) m k2 x :
  NoDup (map fst m) -> In (k2, x) (aset k v m) -> (k2 = k /\ x = v) \/ (In (k2, x) m /\ k2 <> k).
Proof.
  induction m as [|[k' v'] m IH]; simpl; intros ND H.
  - destruct H as [H | []]. inversion H; auto.
  - inversion ND as [|? ? Hnotin ND']; subst. destruct (ustr_eqb k k') eqn:E.
    + apply ustr_eqb_eq in E. subst k'. destruct H as [H | H].
      * inversion H; auto.
      * right. split; auto. intros ->. apply Hnotin. apply in_map_iff. exists (k, x). auto.
    + destruct H as [H | H].
      * inversion H; subst. right. split; auto. intros ->. rewrite ustr_eqb_refl in E. discriminate.
      * destruct (IH ND' H) as [Hx | [Hx Hn]]; auto.
Qed.

(* a bound that works for every element *)
Lemma forall_exists_bound {A} (P : nat -> A -> Prop) (l : list A) :
  (forall (n m : nat) x, (n <= m)%nat -> P n x -> P m x) ->
  (forall x, In x l -> exists n, P n x) -> exists N, forall x, In x l -> P N x.
Proof.
  intros Mono. induction l as [|a l IH]; intros H.
  - exists 0%nat. intros x [].
  - destruct (H a (or_introl eq_refl)) as [n Hn].
    destruct IH as [N HN]. { intros x Hx. apply H. right. auto. }
    exists (Nat.max n N). intros x [-> | Hx].
    + eapply Mono; [|exact Hn]. lia.
    + eapply Mono; [|apply HN; auto]. lia.
Qed.

Lemma find_self_nodup (l : list slot) s :
  NoDup (map sname l) -> In s l -> find (fun x => ustr_eqb (sname x) (sname s)) l = Some s.
Proof.
  induction l as [|a l IH]; simpl; intros ND Hin; [tauto|].
  inversion ND as [|? ? Hnotin ND']; subst. destruct Hin as [-> | Hin].
  - rewrite ustr_eqb_refl. auto.
  - destruct (ustr_eqb (sname a) (sname s)) eqn:E; [|apply IH; auto].
    apply ustr_eqb_eq in E. exfalso. apply Hnotin. rewrite E. apply in_map. auto.
Qed.

Section Obj.
  Variable vr : variant.
  Variable ev : env.
  Variables w sp : world.
  Variable pok : ver -> ustring -> bool.
  Variable sok : list (ustring * pval) -> pval -> result bool.
  Variable rc : ustring -> bool -> bool -> list (ustring * jvalue) -> result pval.
  Variable rp : bool -> bool -> list (ustring * jvalue) -> result pval.
  Variable ro : ver -> list (ustring * ustring) -> bool -> list (ustring * jvalue) -> result pval.

  Hypothesis Hpad : vr_year_pad vr = true.

  (* what is claimed of a constructed object *)
  Definition good (cid : ustring) (o : pval) : Prop :=
    exists inner dfl, o = PObject cid inner dfl false /\
                      exists n, valid_obj sp pok n cid (encode false o) = true.

  Definition sound_kind (k k' : pkind) : Prop :=
    forall v pv hc, jscope v = true -> clean_kind vr w rc rp ro k false false v = Ok (pv, hc) ->
                    hc = false /\ exists n, valid_kind sp pok n k' (encode false pv) = true.

  Variables c sc : cls.     (* the library's class and the specification's class of the same id *)

  Hypothesis Hnames : unodup (map sname (cslots c)) = true.
  Hypothesis Hslots : forall s, In s (cslots c) ->
      exists s', find_slot sc (sname s) = Some s' /\ kind_refines (skind s) (skind s') = true /\
                 sound_kind (skind s) (skind s').
  Hypothesis Hdconst : forall s j, In s (cslots c) -> sdef s = DConst j -> jscope j = true.
  Hypothesis Hreq : forall s', In s' (cslots sc) -> spec_requires sc s' = true ->
      exists s, find_slot c (sname s') = Some s /\ always_present s = true.

  Definition entry_ok (n : ustring) (x : pval) : Prop :=
    exists s', find_slot sc n = Some s' /\ exists m, valid_kind sp pok m (skind s') (encode false x) = true.

  Definition Inv (setting : list (ustring * pval)) : Prop :=
    NoDup (map fst setting) /\ forall k x, In (k, x) setting -> entry_ok k x.

  Lemma slot_of_spec n s : slot_of c n = Some s -> In s (cslots c) /\ sname s = n.
  Proof.
    unfold slot_of. intros H. apply find_some in H. destruct H as [H1 H2]. apply ustr_eqb_eq in H2. auto.
  Qed.

  Lemma find_slot_spec cl n s : find_slot cl n = Some s -> In s (cslots cl) /\ sname s = n.
  Proof.
    unfold find_slot. intros H. apply find_some in H. destruct H as [H1 H2]. apply ustr_eqb_eq in H2. auto.
  Qed.

  (* with distinct names, the slot found by name is the slot *)
  Lemma slot_of_self s : In s (cslots c) -> slot_of c (sname s) = Some s.
  Proof. intros H. unfold slot_of. apply find_self_nodup; auto. apply unodup_NoDup. exact Hnames. Qed.

  Definition default_present (s : slot) : bool := match sdef s with DFixed | DNow | DUuid4 => true | _ => false end.

  Lemma Inv_aset setting n v : Inv setting -> entry_ok n v -> Inv (aset n v setting).
  Proof.
    intros [ND H] Hv. split.
    - apply keys_aset_nodup. auto.
    - intros k x Hin. apply In_aset_nodup in Hin; auto. destruct Hin as [[-> ->] | [Hin _]]; auto.
  Qed.

  (* ---- one property ---- *)
  (* clean of the value present at the slot's name *)
  Lemma clean_present_ok s vrefs st isnow setting' hc' :
    In s (cslots c) ->
    NoDup (map fst st) ->
    (forall k x, In (k, x) st -> k <> sname s -> entry_ok k x) ->
    match alookup (sname s) st with
    | Some (PJ j) => isnow = false /\ jscope j = true
    | Some x => entry_ok (sname s) x /\ pval_has_custom x = false
    | None => True
    end ->
    clean_present vr w rc rp ro c s false false vrefs st isnow = Ok (setting', hc') ->
    hc' = false /\ Inv setting' /\
    (forall k, amem k st = true -> amem k setting' = true) /\
    (forall k, amem k setting' = true -> amem k st = true \/ k = sname s) /\
    (amem (sname s) st = true -> amem (sname s) setting' = true).
  Proof.
    intros Hs ND Hoth Hraw H.
    destruct (Hslots s Hs) as [s' [Hf [Hkr Hsk]]].
    unfold clean_present in H. set (n := sname s) in *.
    destruct (alookup n st) as [raw|] eqn:El.
    - assert (Keep : forall x, alookup n st = Some x -> entry_ok n x -> Inv st).
      { intros x Ex Hx. split; auto. intros k y Hin. destruct (ustr_eqb k n) eqn:E.
        - apply ustr_eqb_eq in E. subst k. rewrite (alookup_In_nodup _ _ _ ND Hin) in Ex. inversion Ex; subst. auto.
        - apply Hoth; auto. apply ustr_eqb_neq. auto. }
      destruct raw as [j| | | |].
      + destruct Hraw as [-> Hraw].
        destruct (clean_kind vr w rc rp ro (skind s) false false j) as [[v hc]| |] eqn:Ec; try discriminate.
        inv_bind H. inversion Hb; subst. clear Hb Ha.
        destruct (Hsk j v hc' Hraw Ec) as [-> [m Hm]].
        split; auto. split; [|split; [|split]].
        * split; [apply keys_aset_nodup; auto|].
          intros k x Hin. apply In_aset_nodup in Hin; auto. destruct Hin as [[-> ->] | [Hin Hne]].
          -- exists s'. split; eauto.
          -- apply Hoth; auto.
        * intros k Hk. rewrite amem_aset, Hk. apply orb_true_r.
        * intros k Hk. rewrite amem_aset in Hk. apply orb_true_iff in Hk. destruct Hk as [Hk | Hk]; auto.
          right. apply ustr_eqb_eq. auto.
        * intros _. rewrite amem_aset, ustr_eqb_refl. auto.
      + destruct Hraw as [He Hc]. assert (setting' = st /\ hc' = false) as [-> ->].
        { destruct isnow; inversion H; subst; auto. }
        repeat split; auto; try (eapply Keep; eauto; fail). apply (Keep _ eq_refl He). apply (Keep _ eq_refl He).
      + destruct Hraw as [He Hc]. assert (setting' = st /\ hc' = false) as [-> ->].
        { destruct isnow; inversion H; subst; auto. }
        repeat split; auto. apply (Keep _ eq_refl He). apply (Keep _ eq_refl He).
      + destruct Hraw as [He Hc]. assert (setting' = st /\ hc' = false) as [-> ->].
        { destruct isnow; inversion H; subst; auto. }
        repeat split; auto. apply (Keep _ eq_refl He). apply (Keep _ eq_refl He).
      + destruct Hraw as [He Hc]. assert (setting' = st /\ hc' = false) as [-> ->].
        { destruct isnow; inversion H; subst; auto. }
        repeat split; auto. apply (Keep _ eq_refl He). apply (Keep _ eq_refl He).
    - inversion H; subst. repeat split; auto.
      intros k x Hin. apply Hoth; auto. intros ->. rewrite (alookup_In_nodup _ _ _ ND Hin) in El. discriminate.
  Qed.

  Lemma check_property_ok s vrefs setting1 setting' hc' :
    In s (cslots c) ->
    NoDup (map fst setting1) ->
    (forall k x, In (k, x) setting1 -> k <> sname s -> entry_ok k x) ->
    match alookup (sname s) setting1 with
    | Some (PJ j) => jscope j = true
    | Some x => entry_ok (sname s) x /\ pval_has_custom x = false
    | None => True
    end ->
    check_property vr ev w rc rp ro c s false false vrefs setting1 = Ok (setting', hc') ->
    hc' = false /\ Inv setting' /\
    (forall k, amem k setting1 = true -> amem k setting' = true) /\
    (forall k, amem k setting' = true -> amem k setting1 = true \/ k = sname s) /\
    (default_present s = true -> amem (sname s) setting' = true).
  Proof.
    intros Hs ND Hothers Hraw H.
    destruct (Hslots s Hs) as [s' [Hf [Hkr Hsk]]].
    unfold check_property in H. inv_bind H. destruct a as [st isnow]. simpl in Hb.
    unfold default_value in Ha. set (n := sname s) in *.
    destruct (alookup n setting1) as [raw|] eqn:El.
    - (* a value was given (or wrapped by the class __init__) *)
      inversion Ha; subst. clear Ha.
      destruct (clean_present_ok s vrefs st false setting' hc' Hs ND Hothers) as (A & B & C & D & E); auto.
      { fold n. rewrite El. destruct raw; auto. }
      repeat split; auto; try apply B. intros _. apply E. apply amem_alookup. eauto.
    - (* nothing given: the default, if any *)
      assert (Absent : forall k x, In (k, x) setting1 -> k <> n).
      { intros k x Hin ->. rewrite (alookup_In_nodup _ _ _ ND Hin) in El. discriminate. }
      assert (Hoth' : forall v k x, In (k, x) (aset n v setting1) -> k <> n -> entry_ok k x).
      { intros v k x Hin Hne. apply In_aset_nodup in Hin; auto. destruct Hin as [[-> _] | [Hin _]]; [contradiction|].
        apply Hothers; auto. }
      (* what happens once a default v has been put in *)
      assert (Put : forall v isn,
                 st = aset n v setting1 -> isnow = isn ->
                 match v with
                 | PJ j => isn = false /\ jscope j = true
                 | x => entry_ok n x /\ pval_has_custom x = false
                 end ->
                 hc' = false /\ Inv setting' /\
                 (forall k, amem k setting1 = true -> amem k setting' = true) /\
                 (forall k, amem k setting' = true -> amem k setting1 = true \/ k = n) /\
                 amem n setting' = true).
      { intros v isn -> -> Hv.
        destruct (clean_present_ok s vrefs (aset n v setting1) isn setting' hc' Hs) as (A & B & C & D & E); auto.
        - apply keys_aset_nodup; auto.
        - fold n. rewrite alookup_aset_same. exact Hv.
        - repeat split; auto; try apply B.
          + intros k Hk. apply C. rewrite amem_aset, Hk. apply orb_true_r.
          + intros k Hk. destruct (D k Hk) as [Hk' | Hk']; auto. rewrite amem_aset in Hk'.
            apply orb_true_iff in Hk'. destruct Hk' as [Hk' | Hk']; auto. right. apply ustr_eqb_eq. auto.
          + apply E. rewrite amem_aset, ustr_eqb_refl. auto. }
      destruct (sdef s) eqn:Ed.
      + (* no default *)
        inversion Ha; subst. clear Ha.
        destruct (clean_present_ok s vrefs st false setting' hc' Hs ND Hothers) as (A & B & C & D & E); auto.
        { fold n. rewrite El. auto. }
        repeat split; auto; try apply B. unfold default_present. rewrite Ed. discriminate.
      + (* fixed *)
        destruct (skind s) eqn:Ek; try discriminate. inversion Ha; subst. clear Ha.
        destruct (Put (PJ (JStr v)) false) as (A & B & C & D & E); auto.
        repeat split; auto; apply B.
      + (* the clock *)
        destruct (skind s) eqn:Ek; try discriminate.
        destruct (ts_clean_now (vr_year_pad vr) p c0 (e_now ev)) as [r| |] eqn:Et; try discriminate.
        simpl in Ha. inversion Ha; subst. clear Ha.
        destruct (Put (PTime (fst r) (snd r)) true) as (A & B & C & D & E); auto.
        { split; auto. exists s'. split; auto. rewrite Ek in Hkr. destruct (skind s') eqn:Ek'; simpl in Hkr; try discriminate.
          apply andb_true_iff in Hkr. destruct Hkr as [Hp Hc].
          assert (p0 = p) by (destruct p, p0; simpl in Hp; auto; discriminate).
          assert (c1 = c0) by (destruct c0, c1; simpl in Hc; auto; discriminate). subst.
          exists 1%nat. simpl. rewrite Hpad in Et. eapply ts_clean_now_valid; eauto. }
        repeat split; auto; apply B.
      + (* uuid4 *)
        destruct (skind s) eqn:Ek; try discriminate. inversion Ha; subst. clear Ha.
        destruct (Put (PJ (JStr (prefix ++ e_uuid4 ev))) false) as (A & B & C & D & E); auto.
        repeat split; auto; apply B.
      + (* a constant *)
        inversion Ha; subst. clear Ha.
        destruct (Put (PJ j) false) as (A & B & C & D & E); auto.
        { eapply Hdconst; eauto. }
        repeat split; auto; try apply B. unfold default_present. rewrite Ed. discriminate.
  Qed.
End Obj.

(* Proofs/NamingFacts.v -- the recognisers of Model/Registry.v against the
   declarative naming rules of Spec/NamingSpec.v.                            *)
From Coq Require Import NArith List String Bool Arith Lia.
From V Require Import Base.UString Model.Registry Spec.NamingSpec Proofs.RegistryFacts.
Import ListNotations.
Open Scope N_scope.

Definition sv (V : version) : spec_version := match V with V20 => Stix20 | V21 => Stix21 end.

(* ---------------- character classes ---------------- *)

Lemma is_lower_spec : forall c, is_lower c = true <-> lower_letter c.
Proof. intros. unfold is_lower, lower_letter. rewrite andb_true_iff, !N.leb_le. tauto. Qed.

Lemma is_digit_spec : forall c, is_digit c = true <-> digit c.
Proof. intros. unfold is_digit, digit. rewrite andb_true_iff, !N.leb_le. tauto. Qed.

Lemma is_type_char_spec : forall c, is_type_char c = true <-> type_char c.
Proof.
  intros. unfold is_type_char, is_alnum, is_hyphen, type_char.
  rewrite !orb_true_iff, is_lower_spec, is_digit_spec, N.eqb_eq. tauto.
Qed.

Lemma is_prop_char_spec : forall c, is_prop_char c = true <-> prop_char c.
Proof.
  intros. unfold is_prop_char, is_alnum, prop_char.
  rewrite !orb_true_iff, is_lower_spec, is_digit_spec, N.eqb_eq. tauto.
Qed.

Lemma forallb_type_char : forall s, forallb is_type_char s = true <-> Forall type_char s.
Proof.
  intros. rewrite forallb_forall, Forall_forall. split; intros H x I; apply is_type_char_spec; auto.
Qed.

Lemma forallb_prop_char : forall s, forallb is_prop_char s = true <-> Forall prop_char s.
Proof.
  intros. rewrite forallb_forall, Forall_forall. split; intros H x I; apply is_prop_char_spec; auto.
Qed.

Lemma alnum_not_hyphen : forall c, is_alnum c = true -> is_hyphen c = false.
Proof.
  intros c H. unfold is_alnum, is_lower, is_digit, is_hyphen in *.
  apply N.eqb_neq. intro E. subst. vm_compute in H. discriminate.
Qed.

Lemma alnum_type_char : forall c, is_alnum c = true -> is_type_char c = true.
Proof. intros. unfold is_type_char. rewrite H. reflexivity. Qed.

Lemma hyphen_type_char : forall c, is_hyphen c = true -> is_type_char c = true.
Proof. intros. unfold is_type_char. rewrite H. apply orb_true_r. Qed.

Lemma not_alnum_hyphen_type_char : forall c, is_alnum c = false -> is_hyphen c = false -> is_type_char c = false.
Proof. intros. unfold is_type_char. rewrite H, H0. reflexivity. Qed.

Lemma newline_not_type_char : is_type_char 10 = false.
Proof. reflexivity. Qed.

Lemma lower_type_char : forall c, is_lower c = true -> is_type_char c = true.
Proof. intros. unfold is_type_char, is_alnum. rewrite H. reflexivity. Qed.

(* ---------------- strip_nl ---------------- *)

Lemma strip_nl_sound : forall s w, strip_nl s = Some w -> s = w ++ [10].
Proof.
  induction s as [|c t IH]; intros w H; [discriminate|].
  destruct t as [|c2 t'].
  - simpl in H. destruct (is_newline c) eqn:E; inversion H. apply N.eqb_eq in E. subst. reflexivity.
  - change (strip_nl (c :: c2 :: t')) with (match strip_nl (c2 :: t') with Some w => Some (c :: w) | None => None end) in H.
    destruct (strip_nl (c2 :: t')) as [w'|] eqn:S; inversion H. subst. simpl. f_equal. apply IH. reflexivity.
Qed.

Lemma strip_nl_complete : forall w, strip_nl (w ++ [10]) = Some w.
Proof.
  induction w as [|c w IH]; [reflexivity|].
  simpl. destruct (w ++ [10]) as [|x l] eqn:E.
  - destruct w; discriminate.
  - rewrite IH. reflexivity.
Qed.

Lemma strip_nl_spec : forall s w, strip_nl s = Some w <-> s = w ++ [10].
Proof. intros. split; [apply strip_nl_sound | intros ->; apply strip_nl_complete]. Qed.

(* ---------------- the 2.0 automaton ---------------- *)

Fixpoint ndhb (s : ustring) : bool :=
  match s with
  | c :: t => match t with
              | c2 :: _ => negb (is_hyphen c && is_hyphen c2) && ndhb t
              | [] => true
              end
  | [] => true
  end.

Lemma ndhb_spec : forall s, ndhb s = true <-> no_double_hyphen s.
Proof.
  induction s as [|c t IH]; [simpl; tauto|].
  destruct t as [|c2 t']; [simpl; tauto|].
  change (ndhb (c :: c2 :: t')) with (negb (is_hyphen c && is_hyphen c2) && ndhb (c2 :: t')).
  change (no_double_hyphen (c :: c2 :: t')) with (~ (c = 45 /\ c2 = 45) /\ no_double_hyphen (c2 :: t')).
  rewrite andb_true_iff, IH, negb_true_iff, andb_false_iff. unfold is_hyphen. rewrite !N.eqb_neq. split.
  - intros [[H | H] H2]; split; auto; intros [A B]; auto.
  - intros [H H2]. split; auto. destruct (N.eq_dec c 45); [right; intro; apply H; auto | left; auto].
Qed.

Definition starts_hyphen (s : ustring) : bool := match s with c :: _ => is_hyphen c | [] => false end.

Lemma lang20_run_hyp : forall s,
  lang20_from QRun s = forallb is_type_char s && ndhb s
  /\ lang20_from QHyp s = forallb is_type_char s && ndhb s && negb (starts_hyphen s).
Proof.
  induction s as [|c t [IH1 IH2]]; [split; reflexivity|].
  assert (N : ndhb (c :: t) = match t with c2 :: _ => negb (is_hyphen c && is_hyphen c2) && ndhb t | [] => true end)
    by (destruct t; reflexivity).
  cbn [lang20_from forallb starts_hyphen].
  destruct (is_alnum c) eqn:A.
  - pose proof (alnum_not_hyphen c A) as H. rewrite (alnum_type_char c A), N, H.
    split; rewrite IH1; destruct t; simpl; auto; rewrite ?andb_true_r; auto.
  - destruct (is_hyphen c) eqn:H.
    + rewrite (hyphen_type_char c H), N. split.
      * rewrite IH2. destruct t as [|c2 t']; [reflexivity|].
        cbn [starts_hyphen andb negb]. destruct (forallb is_type_char (c2 :: t')), (ndhb (c2 :: t')), (is_hyphen c2); reflexivity.
      * cbn [negb]. rewrite andb_false_r. reflexivity.
    + rewrite (not_alnum_hyphen_type_char c A H). split; reflexivity.
Qed.

Lemma lang20_lead : forall s,
  lang20_from QLead s = forallb is_type_char s && ndhb s && negb (starts_hyphen s) && negb (is_nil s).
Proof.
  destruct s as [|c t]; [reflexivity|].
  assert (N : ndhb (c :: t) = match t with c2 :: _ => negb (is_hyphen c && is_hyphen c2) && ndhb t | [] => true end)
    by (destruct t; reflexivity).
  cbn [lang20_from forallb starts_hyphen is_nil negb]. rewrite andb_true_r.
  destruct (is_alnum c) eqn:A.
  - pose proof (alnum_not_hyphen c A) as H. rewrite (alnum_type_char c A), N, H.
    rewrite (proj1 (lang20_run_hyp t)). destruct t; simpl; auto; rewrite ?andb_true_r; auto.
  - destruct (is_hyphen c) eqn:H.
    + cbn [negb]. rewrite andb_false_r. reflexivity.
    + rewrite (not_alnum_hyphen_type_char c A H). reflexivity.
Qed.

(* for names of two or more characters the 2.0 language is: only [a-z0-9-], no two hyphens in a row *)
Lemma lang20_char : forall s, (2 <= List.length s)%nat -> lang20 s = forallb is_type_char s && ndhb s.
Proof.
  intros s L. destruct s as [|c [|c2 t']]; simpl in L; try lia.
  unfold lang20.
  change (lang20_from Q0 (c :: c2 :: t')) with
    (if is_alnum c then lang20_from QRun (c2 :: t')
     else if is_hyphen c then lang20_from QLead (c2 :: t') else false).
  change (ndhb (c :: c2 :: t')) with (negb (is_hyphen c && is_hyphen c2) && ndhb (c2 :: t')).
  change (forallb is_type_char (c :: c2 :: t')) with (is_type_char c && forallb is_type_char (c2 :: t')).
  destruct (is_alnum c) eqn:A.
  - pose proof (alnum_not_hyphen c A) as H. rewrite (alnum_type_char c A), H.
    rewrite (proj1 (lang20_run_hyp _)). reflexivity.
  - destruct (is_hyphen c) eqn:H.
    + rewrite (hyphen_type_char c H), lang20_lead. cbn [starts_hyphen is_nil negb andb].
      destruct (forallb is_type_char (c2 :: t')), (ndhb (c2 :: t')), (is_hyphen c2); reflexivity.
    + rewrite (not_alnum_hyphen_type_char c A H). reflexivity.
Qed.

(* ---------------- the type-name rule ---------------- *)

Lemma length_bounds : forall (s : ustring),
  ((type_len_min <=? List.length s)%nat && (List.length s <=? type_len_max)%nat = true) <-> (3 <= List.length s <= 250)%nat.
Proof.
  intros. unfold type_len_min, type_len_max. rewrite andb_true_iff, !Nat.leb_le. tauto.
Qed.

Lemma lang21_spec : forall s, lang21 s = true <-> Forall type_char s /\ begins_with_letter s.
Proof.
  intros. destruct s as [|c t]; simpl.
  - split; [discriminate|]. intros [_ [c [t [F _]]]]. discriminate.
  - rewrite andb_true_iff, forallb_type_char, is_lower_spec. split.
    + intros [L F]. split.
      * constructor; auto. apply is_type_char_spec. apply lower_type_char. apply is_lower_spec. exact L.
      * exists c, t. auto.
    + intros [F [c' [t' [E L]]]]. inversion E; subst. inversion F; subst. auto.
Qed.

(* the language each version's regex denotes (before the end anchor and the length test) *)
Definition lang (V : version) : ustring -> bool := match V with V20 => lang20 | V21 => lang21 end.

Lemma validate_type_unfold : forall vt V s,
  validate_type vt V s =
  with_end (match V with V20 => end20 vt | V21 => end21 vt end) (lang V) s
  && (type_len_min <=? List.length s)%nat && (List.length s <=? type_len_max)%nat.
Proof. intros. destruct V; reflexivity. Qed.

Lemma lang_spec : forall V s, (3 <= List.length s <= 250)%nat ->
  (lang V s = true <-> Forall type_char s /\ match sv V with Stix20 => no_double_hyphen s | Stix21 => begins_with_letter s end).
Proof.
  intros V s L. destruct V; simpl.
  - rewrite lang20_char by lia. rewrite andb_true_iff, forallb_type_char, ndhb_spec. tauto.
  - apply lang21_spec.
Qed.

Definition end_of (vt : variant) (V : version) : end_mode := match V with V20 => end20 vt | V21 => end21 vt end.

(* repaired anchors: the recogniser is exactly the rule *)
Lemma type_name_rule_lemma : forall vt V s,
  end_of vt V = Strict -> (validate_type vt V s = true <-> spec_type_name (sv V) s).
Proof.
  intros vt V s E. rewrite validate_type_unfold. fold (end_of vt V). rewrite E.
  unfold with_end. simpl dollar. rewrite orb_false_r, <- andb_assoc, andb_true_iff, length_bounds.
  unfold spec_type_name. split.
  - intros [A B]. apply (lang_spec V s B) in A. destruct A. destruct V; simpl in *; auto.
  - intros [A [B C]]. split; auto. apply (lang_spec V s B). destruct V; simpl in *; auto.
Qed.

(* `$` anchors: exactly the rule, or a name of the rule's language followed by one newline
   (the newline counting towards the length) *)
Lemma type_name_rule_dollar_lemma : forall vt V s,
  end_of vt V = Dollar ->
  (validate_type vt V s = true <->
   (3 <= List.length s <= 250)%nat /\ (lang V s = true \/ exists w, s = w ++ [10] /\ lang V w = true)).
Proof.
  intros vt V s E. rewrite validate_type_unfold. fold (end_of vt V). rewrite E.
  unfold with_end. simpl dollar. rewrite <- andb_assoc, andb_true_iff, length_bounds, orb_true_iff. cbn [andb].
  split.
  - intros [[A | A] B]; split; auto. destruct (strip_nl s) as [w|] eqn:S; [|discriminate].
    right. exists w. split; auto. apply strip_nl_spec. exact S.
  - intros [B [A | [w [S A]]]]; split; auto. right. apply strip_nl_spec in S. rewrite S. exact A.
Qed.

Lemma not_type_name_with_newline : forall V w, ~ spec_type_name V (w ++ [10]).
Proof.
  intros V w [F _]. rewrite Forall_forall in F. specialize (F 10). 
  assert (type_char 10) by (apply F; rewrite in_app_iff; right; left; reflexivity).
  apply is_type_char_spec in H. discriminate.
Qed.

Lemma type_name_rule_dollar_refuted_lemma : forall vt V,
  end_of vt V = Dollar -> exists s, validate_type vt V s = true /\ ~ spec_type_name (sv V) s.
Proof.
  intros vt V E. exists [97; 98; 99; 10]. split.
  - rewrite validate_type_unfold. fold (end_of vt V). rewrite E. destruct V; reflexivity.
  - apply (not_type_name_with_newline (sv V) [97; 98; 99]).
Qed.

(* whatever the anchors: a name that breaks the rule and does not end in a newline is refused *)
Lemma type_name_refused_lemma : forall vt V s,
  ~ spec_type_name (sv V) s -> (forall w, s <> w ++ [10]) -> validate_type vt V s = false.
Proof.
  intros vt V s NS NN. destruct (validate_type vt V s) eqn:VT; auto. exfalso.
  destruct (end_of vt V) eqn:E.
  - apply (type_name_rule_dollar_lemma vt V s E) in VT. destruct VT as [B [A | [w [S _]]]].
    + apply NS. unfold spec_type_name. apply (lang_spec V s B) in A. destruct A. destruct V; simpl in *; auto.
    + apply (NN w). exact S.
  - apply (type_name_rule_lemma vt V s E) in VT. contradiction.
Qed.

(* the 2.1 recogniser does admit consecutive hyphens (a SHOULD NOT of the specification) *)
Lemma type21_admits_double_hyphen : forall vt, validate_type vt V21 [120; 45; 45; 100] = true.
Proof. intros. rewrite validate_type_unfold. unfold with_end. reflexivity. Qed.

(* ---------------- the property-name rule ---------------- *)

Lemma re_prefix21_spec : forall s, re_prefix21 s = true <-> begins_with_letter s.
Proof.
  destruct s as [|c t]; simpl.
  - split; [discriminate|]. intros [c [t [F _]]]. discriminate.
  - rewrite is_lower_spec. split.
    + intros. exists c, t. auto.
    + intros [c' [t' [E L]]]. inversion E; subst. auto.
Qed.

Lemma re_propname_spec : forall s, re_propname s = true <-> Forall prop_char s /\ (3 <= List.length s <= 250)%nat.
Proof.
  intros. unfold re_propname. rewrite !andb_true_iff, forallb_prop_char, !Nat.leb_le. tauto.
Qed.

Lemma prop_name_rule_lemma : forall vt V s,
  pmode vt = FullRule -> (validate_prop_name vt V s = true <-> spec_prop_name (sv V) s).
Proof.
  intros vt V s E. unfold validate_prop_name, spec_prop_name. rewrite E.
  rewrite andb_true_iff, orb_true_iff, re_propname_spec, ustr_eqb_eq. unfold id_name.
  destruct V; simpl.
  - tauto.
  - rewrite re_prefix21_spec. tauto.
Qed.

Lemma prop_name_firstchar_lemma : forall vt V s,
  pmode vt = FirstCharOnly ->
  validate_prop_name vt V s = match V with V20 => true | V21 => re_prefix21 s end.
Proof. intros. unfold validate_prop_name. rewrite H. destruct V; simpl; auto. apply andb_true_r. Qed.

Lemma prop_name_rule_firstchar_refuted_lemma : forall vt V,
  pmode vt = FirstCharOnly -> exists s, validate_prop_name vt V s = true /\ ~ spec_prop_name (sv V) s.
Proof.
  intros vt V E. exists [97; 66]. (* "aB" *) split.
  - rewrite prop_name_firstchar_lemma by exact E. destruct V; reflexivity.
  - intros [[F | [F L]] _]; [discriminate | simpl in L; lia].
Qed.

(* Proofs/NamingFacts.v -- the recognisers of Model/Registry.v against the
   declarative naming rules of Spec/NamingSpec.v.                            *)
From Coq Require Import NArith List String Bool Arith Lia.
From V Require Import Base.UString Model.Registry Spec.NamingSpec Proofs.RegistryFacts.
Import ListNotations.
Open Scope N_scope.

Definition sv (V : version) : spec_version := match V with V20 => Stix20 | V21 => Stix21 end.

(* ---------------- character classes ---------------- *)

Lemma is_lower_spec : forall c, is_lower c = true <-> lower_letter c.
Proof. intros. unfold is_lower, lower_letter. rewrite andb_true_iff, !N.leb_le. tauto. Qed.

Lemma is_digit_spec : forall c, is_digit c = true <-> digit c.
Proof. intros. unfold is_digit, digit. rewrite andb_true_iff, !N.leb_le. tauto. Qed.

Lemma is_type_char_spec : forall c, is_type_char c = true <-> type_char c.
Proof.
  intros. unfold is_type_char, is_alnum, is_hyphen, type_char.
  rewrite !orb_true_iff, is_lower_spec, is_digit_spec, N.eqb_eq. tauto.
Qed.

Lemma is_prop_char_spec : forall c, is_prop_char c = true <-> prop_char c.
Proof.
  intros. unfold is_prop_char, is_alnum, prop_char.
  rewrite !orb_true_iff, is_lower_spec, is_digit_spec, N.eqb_eq. tauto.
Qed.

Lemma forallb_type_char : forall s, forallb is_type_char s = true <-> Forall type_char s.
Proof.
  intros. rewrite forallb_forall, Forall_forall. split; intros H x I; apply is_type_char_spec; auto.
Qed.

Lemma forallb_prop_char : forall s, forallb is_prop_char s = true <-> Forall prop_char s.
Proof.
  intros. rewrite forallb_forall, Forall_forall. split; intros H x I; apply is_prop_char_spec; auto.
Qed.

Lemma alnum_not_hyphen : forall c, is_alnum c = true -> is_hyphen c = false.
Proof.
  intros c H. unfold is_alnum, is_lower, is_digit, is_hyphen in *.
  apply N.eqb_neq. intro E. subst. vm_compute in H. discriminate.
Qed.

Lemma alnum_type_char : forall c, is_alnum c = true -> is_type_char c = true.
Proof. intros. unfold is_type_char. rewrite H. reflexivity. Qed.

Lemma hyphen_type_char : forall c, is_hyphen c = true -> is_type_char c = true.
Proof. intros. unfold is_type_char. rewrite H. apply orb_true_r. Qed.

Lemma not_alnum_hyphen_type_char : forall c, is_alnum c = false -> is_hyphen c = false -> is_type_char c = false.
Proof. intros. unfold is_type_char. rewrite H, H0. reflexivity. Qed.

Lemma newline_not_type_char : is_type_char 10 = false.
Proof. reflexivity. Qed.

Lemma lower_type_char : forall c, is_lower c = true -> is_type_char c = true.
Proof. intros. unfold is_type_char, is_alnum. rewrite H. reflexivity. Qed.

(* ---------------- strip_nl ---------------- *)

Lemma strip_nl_sound : forall s w, strip_nl s = Some w -> s = w ++ [10].
Proof.
  induction s as [|c t IH]; intros w H; [discriminate|].
  destruct t as [|c2 t'].
  - simpl in H. destruct (is_newline c) eqn:E; inversion H. apply N.eqb_eq in E. subst. reflexivity.
  - change (strip_nl (c :: c2 :: t')) with (match strip_nl (c2 :: t') with Some w => Some (c :: w) | None => None end) in H.
    destruct (strip_nl (c2 :: t')) as [w'|] eqn:S; inversion H. subst. simpl. f_equal. apply IH. reflexivity.
Qed.

Lemma strip_nl_complete : forall w, strip_nl (w ++ [10]) = Some w.
Proof.
  induction w as [|c w IH]; [reflexivity|].
  simpl. destruct (w ++ [10]) as [|x l] eqn:E.
  - destruct w; discriminate.
  - rewrite IH. reflexivity.
Qed.

Lemma strip_nl_spec : forall s w, strip_nl s = Some w <-> s = w ++ [10].
Proof. intros. split; [apply strip_nl_sound | intros ->; apply strip_nl_complete]. Qed.

(* ---------------- the 2.0 automaton ---------------- *)

Fixpoint ndhb (s : ustring) : bool :=
  match s with
  | c :: t => match t with
              | c2 :: _ => negb (is_hyphen c && is_hyphen c2) && ndhb t
              | [] => true
              end
  | [] => true
  end.

Lemma ndhb_spec : forall s, ndhb s = true <-> no_double_hyphen s.
Proof.
  induction s as [|c t IH]; [simpl; tauto|].
  destruct t as [|c2 t']; [simpl; tauto|].
  change (ndhb (c :: c2 :: t')) with (negb (is_hyphen c && is_hyphen c2) && ndhb (c2 :: t')).
  change (no_double_hyphen (c :: c2 :: t')) with (~ (c = 45 /\ c2 = 45) /\ no_double_hyphen (c2 :: t')).
  rewrite andb_true_iff, IH, negb_true_iff, andb_false_iff. unfold is_hyphen. rewrite !N.eqb_neq. split.
  - intros [[H | H] H2]; split; auto; intros [A B]; auto.
  - intros [H H2]. split; auto. destruct (N.eq_dec c 45); [right; intro; apply H; auto | left; auto].
Qed.

Definition starts_hyphen (s : ustring) : bool := match s with c :: _ => is_hyphen c | [] => false end.

Lemma lang20_run_hyp : forall s,
  lang20_from QRun s = forallb is_type_char s && ndhb s
  /\ lang20_from QHyp s = forallb is_type_char s && ndhb s && negb (starts_hyphen s).
Proof.
  induction s as [|c t [IH1 IH2]]; [split; reflexivity|].
  assert (N : ndhb (c :: t) = match t with c2 :: _ => negb (is_hyphen c && is_hyphen c2) && ndhb t | [] => true end)
    by (destruct t; reflexivity).
  cbn [lang20_from forallb starts_hyphen].
  destruct (is_alnum c) eqn:A.
  - pose proof (alnum_not_hyphen c A) as H. rewrite (alnum_type_char c A), N, H.
    split; rewrite IH1; destruct t; simpl; auto; rewrite ?andb_true_r; auto.
  - destruct (is_hyphen c) eqn:H.
    + rewrite (hyphen_type_char c H), N. split.
      * rewrite IH2. destruct t as [|c2 t']; [reflexivity|].
        cbn [starts_hyphen andb negb]. destruct (forallb is_type_char (c2 :: t')), (ndhb (c2 :: t')), (is_hyphen c2); reflexivity.
      * cbn [negb]. rewrite andb_false_r. reflexivity.
    + rewrite (not_alnum_hyphen_type_char c A H). split; reflexivity.
Qed.

Lemma lang20_lead : forall s,
  lang20_from QLead s = forallb is_type_char s && ndhb s && negb (starts_hyphen s) && negb (is_nil s).
Proof.
  destruct s as [|c t]; [reflexivity|].
  assert (N : ndhb (c :: t) = match t with c2 :: _ => negb (is_hyphen c && is_hyphen c2) && ndhb t | [] => true end)
    by (destruct t; reflexivity).
  cbn [lang20_from forallb starts_hyphen is_nil negb]. rewrite andb_true_r.
  destruct (is_alnum c) eqn:A.
  - pose proof (alnum_not_hyphen c A) as H. rewrite (alnum_type_char c A), N, H.
    rewrite (proj1 (lang20_run_hyp t)). destruct t; simpl; auto; rewrite ?andb_true_r; auto.
  - destruct (is_hyphen c) eqn:H.
    + cbn [negb]. rewrite andb_false_r. reflexivity.
    + rewrite (not_alnum_hyphen_type_char c A H). reflexivity.
Qed.

(* for names of two or more characters the 2.0 language is: only [a-z0-9-], no two hyphens in a row *)
Lemma lang20_char : forall s, (2 <= List.length s)%nat -> lang20 s = forallb is_type_char s && ndhb s.
Proof.
  intros s L. destruct s as [|c [|c2 t']]; simpl in L; try lia.
  unfold lang20.
  change (lang20_from Q0 (c :: c2 :: t')) with
    (if is_alnum c then lang20_from QRun (c2 :: t')
     else if is_hyphen c then lang20_from QLead (c2 :: t') else false).
  change (ndhb (c :: c2 :: t')) with (negb (is_hyphen c && is_hyphen c2) && ndhb (c2 :: t')).
  change (forallb is_type_char (c :: c2 :: t')) with (is_type_char c && forallb is_type_char (c2 :: t')).
  destruct (is_alnum c) eqn:A.
  - pose proof (alnum_not_hyphen c A) as H. rewrite (alnum_type_char c A), H.
    rewrite (proj1 (lang20_run_hyp _)). reflexivity.
  - destruct (is_hyphen c) eqn:H.
    + rewrite (hyphen_type_char c H), lang20_lead. cbn [starts_hyphen is_nil negb andb].
      destruct (forallb is_type_char (c2 :: t')), (ndhb (c2 :: t')), (is_hyphen c2); reflexivity.
    + rewrite (not_alnum_hyphen_type_char c A H). reflexivity.
Qed.

(* ---------------- the type-name rule ---------------- *)

Lemma length_bounds : forall (s : ustring),
  ((type_len_min <=? List.length s)%nat && (List.length s <=? type_len_max)%nat = true) <-> (3 <= List.length s <= 250)%nat.
Proof.
  intros. unfold type_len_min, type_len_max. rewrite andb_true_iff, !Nat.leb_le. tauto.
Qed.

Lemma lang21_any_spec : forall s, lang21_any s = true <-> Forall type_char s /\ begins_with_letter s.
Proof.
  intros. destruct s as [|c t]; simpl.
  - split; [discriminate|]. intros [_ [c [t [F _]]]]. discriminate.
  - rewrite andb_true_iff, forallb_type_char, is_lower_spec. split.
    + intros [L F]. split.
      * constructor; auto. apply is_type_char_spec. apply lower_type_char. apply is_lower_spec. exact L.
      * exists c, t. auto.
    + intros [F [c' [t' [E L]]]]. inversion E; subst. inversion F; subst. auto.
Qed.

Lemma lower_alnum : forall c, is_lower c = true -> is_alnum c = true.
Proof. intros. unfold is_alnum. rewrite H. reflexivity. Qed.

Lemma ndhb_cons_nonhyphen : forall c t, is_hyphen c = false -> ndhb (c :: t) = ndhb t.
Proof. intros. destruct t; simpl; auto. rewrite H. reflexivity. Qed.

Lemma lang21_single_char : forall s,
  lang21_single s = match s with [] => false | c :: _ => is_lower c end && forallb is_type_char s && ndhb s.
Proof.
  destruct s as [|c t]; [reflexivity|].
  unfold lang21_single. rewrite (proj1 (lang20_run_hyp t)).
  destruct (is_lower c) eqn:L; [|reflexivity].
  pose proof (alnum_not_hyphen c (lower_alnum c L)) as H.
  rewrite (ndhb_cons_nonhyphen c t H). cbn [forallb]. rewrite (lower_type_char c L). reflexivity.
Qed.

Lemma lang21_single_spec : forall s,
  lang21_single s = true <-> Forall type_char s /\ begins_with_letter s /\ no_double_hyphen s.
Proof.
  intros. rewrite lang21_single_char, !andb_true_iff, forallb_type_char, ndhb_spec.
  destruct s as [|c t].
  - split; [intros [[F _] _]; discriminate | intros [_ [[c [t [F _]]] _]]; discriminate].
  - rewrite is_lower_spec. split.
    + intros [[L F] N]. repeat split; auto. exists c, t. auto.
    + intros [F [[c' [t' [E L]]] N]]. inversion E; subst. auto.
Qed.

(* the language each version's regex denotes (before the end anchor and the length test) *)
Definition lang (vt : variant) (V : version) : ustring -> bool :=
  match V with V20 => lang20 | V21 => lang21 (hyph21 vt) end.

Definition end_of (vt : variant) (V : version) : end_mode := match V with V20 => end20 vt | V21 => end21 vt end.

Lemma validate_type_unfold : forall vt V s,
  validate_type vt V s =
  with_end (end_of vt V) (lang vt V) s
  && (type_len_min <=? List.length s)%nat && (List.length s <=? type_len_max)%nat.
Proof. intros. destruct V; reflexivity. Qed.

(* which hyphen structure / leading character the recogniser of (vt, V) demands *)
Definition hyphens_of (vt : variant) (V : version) (s : ustring) : Prop :=
  match V, hyph21 vt with
  | V21, AnyHyphens => True
  | _, _ => no_double_hyphen s
  end.

Definition leading_of (V : version) (s : ustring) : Prop :=
  match V with V20 => True | V21 => begins_with_letter s end.

Lemma lang_spec : forall vt V s, (2 <= List.length s)%nat ->
  (lang vt V s = true <-> Forall type_char s /\ hyphens_of vt V s /\ leading_of V s).
Proof.
  intros vt V s L. unfold lang, hyphens_of, leading_of. destruct V.
  - rewrite lang20_char by lia. rewrite andb_true_iff, forallb_type_char, ndhb_spec. tauto.
  - destruct (hyph21 vt); simpl.
    + rewrite lang21_any_spec. tauto.
    + rewrite lang21_single_spec. tauto.
Qed.

(* the variants whose recogniser is meant to be exactly the rule *)
Definition strict_type_rule (vt : variant) (V : version) : Prop :=
  end_of vt V = Strict /\ (V = V21 -> hyph21 vt = SingleHyphens).

Lemma strict_hyphens : forall vt V s, (V = V21 -> hyph21 vt = SingleHyphens) -> (hyphens_of vt V s <-> no_double_hyphen s).
Proof. intros vt V s H. unfold hyphens_of. destruct V; [tauto|]. rewrite (H eq_refl). tauto. Qed.

Lemma spec_type_name_alt : forall V s,
  spec_type_name (sv V) s <-> (3 <= List.length s <= 250)%nat /\ Forall type_char s /\ no_double_hyphen s /\ leading_of V s.
Proof. intros. unfold spec_type_name, leading_of. destruct V; simpl; tauto. Qed.

(* repaired recognisers: exactly the rule *)
Lemma type_name_rule_lemma : forall vt V s,
  strict_type_rule vt V -> (validate_type vt V s = true <-> spec_type_name (sv V) s).
Proof.
  intros vt V s [E H]. rewrite validate_type_unfold, E.
  unfold with_end. simpl dollar. rewrite orb_false_r, <- andb_assoc, andb_true_iff, length_bounds.
  rewrite spec_type_name_alt. split.
  - intros [A B]. apply (lang_spec vt V s) in A; [|lia]. rewrite (strict_hyphens vt V s H) in A. tauto.
  - intros [B A]. split; auto. apply (lang_spec vt V s); [lia|]. rewrite (strict_hyphens vt V s H). tauto.
Qed.

(* every variant: what is accepted is in the language of the regex, or is such a
   name followed by one newline when the anchor is `$` (the newline counting
   towards the length) *)
Lemma type_name_accepted_lemma : forall vt V s,
  validate_type vt V s = true <->
  (3 <= List.length s <= 250)%nat /\
  (lang vt V s = true \/ (end_of vt V = Dollar /\ exists w, s = w ++ [10] /\ lang vt V w = true)).
Proof.
  intros vt V s. rewrite validate_type_unfold.
  unfold with_end. rewrite <- andb_assoc, andb_true_iff, length_bounds, orb_true_iff, andb_true_iff.
  split.
  - intros [[A | [D A]] B]; split; auto. destruct (strip_nl s) as [w|] eqn:S; [|discriminate].
    right. split; [destruct (end_of vt V); [reflexivity | discriminate]|].
    exists w. split; auto. apply strip_nl_spec. exact S.
  - intros [B [A | [D [w [S A]]]]]; split; auto. right. rewrite D. split; [reflexivity|].
    apply strip_nl_spec in S. rewrite S. exact A.
Qed.

Lemma not_type_name_with_newline : forall V w, ~ spec_type_name V (w ++ [10]).
Proof.
  intros V w [F _]. rewrite Forall_forall in F. specialize (F 10).
  assert (type_char 10) by (apply F; rewrite in_app_iff; right; left; reflexivity).
  apply is_type_char_spec in H. discriminate.
Qed.

Lemma type_name_rule_dollar_refuted_lemma : forall vt V,
  end_of vt V = Dollar -> exists s, validate_type vt V s = true /\ ~ spec_type_name (sv V) s.
Proof.
  intros vt V E. exists [97; 98; 99; 10]. split.
  - rewrite validate_type_unfold, E. destruct V; [reflexivity|]. unfold lang. destruct (hyph21 vt); reflexivity.
  - apply (not_type_name_with_newline (sv V) [97; 98; 99]).
Qed.

(* the 2.1 recogniser as found admits consecutive hyphens: "x--d" *)
Lemma type_name_rule_double_hyphen_refuted_lemma : forall vt,
  hyph21 vt = AnyHyphens -> exists s, validate_type vt V21 s = true /\ ~ spec_type_name (sv V21) s.
Proof.
  intros vt E. exists [120; 45; 45; 100]. split.
  - rewrite validate_type_unfold. unfold lang. rewrite E. unfold with_end. reflexivity.
  - intros [_ [_ [N _]]]. simpl in N. destruct N as [_ [N _]]. apply N. split; reflexivity.
Qed.

(* whatever the variant: a name that breaks the rule is refused, unless it breaks it
   only by a final newline (`$` anchors) or only by "--" (2.1 regex as found) *)
Lemma type_name_refused_lemma : forall vt V s,
  ~ spec_type_name (sv V) s -> (forall w, s <> w ++ [10]) ->
  (V = V21 -> hyph21 vt = AnyHyphens -> no_double_hyphen s) ->
  validate_type vt V s = false.
Proof.
  intros vt V s NS NN ND. destruct (validate_type vt V s) eqn:VT; auto. exfalso.
  apply type_name_accepted_lemma in VT. destruct VT as [B [A | [_ [w [S _]]]]].
  - apply NS. apply spec_type_name_alt. apply (lang_spec vt V s) in A; [|lia].
    destruct A as [F [H L]]. repeat split; try lia; auto.
    unfold hyphens_of in H. destruct V; auto. destruct (hyph21 vt) eqn:E; auto.
  - apply (NN w). exact S.
Qed.

(* ---------------- the property-name rule ---------------- *)

Lemma re_prefix21_spec : forall s, re_prefix21 s = true <-> begins_with_letter s.
Proof.
  destruct s as [|c t]; simpl.
  - split; [discriminate|]. intros [c [t [F _]]]. discriminate.
  - rewrite is_lower_spec. split.
    + intros. exists c, t. auto.
    + intros [c' [t' [E L]]]. inversion E; subst. auto.
Qed.

Lemma re_propname_spec : forall s, re_propname s = true <-> Forall prop_char s /\ (3 <= List.length s <= 250)%nat.
Proof.
  intros. unfold re_propname. rewrite !andb_true_iff, forallb_prop_char, !Nat.leb_le. tauto.
Qed.

Lemma prop_name_rule_lemma : forall vt V s,
  pmode vt = FullRule -> (validate_prop_name vt V s = true <-> spec_prop_name (sv V) s).
Proof.
  intros vt V s E. unfold validate_prop_name, spec_prop_name. rewrite E.
  rewrite andb_true_iff, orb_true_iff, re_propname_spec, ustr_eqb_eq. unfold id_name.
  destruct V; simpl.
  - tauto.
  - rewrite re_prefix21_spec. tauto.
Qed.

Lemma prop_name_firstchar_lemma : forall vt V s,
  pmode vt = FirstCharOnly ->
  validate_prop_name vt V s = match V with V20 => true | V21 => re_prefix21 s end.
Proof. intros. unfold validate_prop_name. rewrite H. destruct V; simpl; auto. apply andb_true_r. Qed.

Lemma prop_name_rule_firstchar_refuted_lemma : forall vt V,
  pmode vt = FirstCharOnly -> exists s, validate_prop_name vt V s = true /\ ~ spec_prop_name (sv V) s.
Proof.
  intros vt V E. exists [97; 66]. (* "aB" *) split.
  - rewrite prop_name_firstchar_lemma by exact E. destruct V; reflexivity.
  - intros [[F | [F L]] _]; [discriminate | simpl in L; lia].
Qed.

(* ---------------- invalid names are refused and nothing is registered ---------------- *)

(* the name check every decorator performs first *)
Definition name_check (vt : variant) (q : regreq) : bool :=
  match r_kind q with
  | Extensions => validate_ext_name vt (r_ver q) (r_name q)
  | _ => validate_type vt (r_ver q) (r_name q)
  end.

Lemma name_check_refused_lemma : forall vt r q,
  name_check vt q = false -> decorate vt r q = (r, Failed EValue).
Proof.
  intros vt r q H. unfold name_check in H. unfold decorate.
  destruct (r_kind q).
  - rewrite H. reflexivity.
  - rewrite H. reflexivity.
  - unfold register_marking. rewrite H. reflexivity.
  - unfold register_extension. rewrite H. reflexivity.
Qed.

(* objects, observables, markings: a type name that breaks the rule is refused, state unchanged *)
Lemma invalid_type_name_refused_lemma : forall vt r q,
  strict_type_rule vt (r_ver q) -> r_kind q <> Extensions ->
  ~ spec_type_name (sv (r_ver q)) (r_name q) ->
  decorate vt r q = (r, Failed EValue).
Proof.
  intros vt r q S K NS. apply name_check_refused_lemma. unfold name_check.
  destruct (validate_type vt (r_ver q) (r_name q)) eqn:E.
  - apply (type_name_rule_lemma vt _ _ S) in E. contradiction.
  - destruct (r_kind q); auto. contradiction.
Qed.

Lemma ustr_prefix_spec : forall p s, ustr_prefix p s = true <-> exists rest, s = p ++ rest.
Proof.
  induction p as [|x p IH]; intros s; simpl.
  - split; eauto.
  - destruct s as [|y s'].
    + split; [discriminate | intros [rest F]; discriminate].
    + rewrite andb_true_iff, N.eqb_eq, IH. split.
      * intros [-> [rest ->]]. eauto.
      * intros [rest F]. inversion F; subst. eauto.
Qed.

Lemma skipn_app_exact : forall {A} (p rest : list A), skipn (List.length p) (p ++ rest) = rest.
Proof. induction p; simpl; auto. Qed.

(* names of extensions, repaired _register_extension: a type name, or in 2.1 the ID of an
   extension definition over the characters of type names, at most 250 characters long *)
Definition spec_ext_name (V : version) (n : ustring) : Prop :=
  (V = V21 /\ exists rest, n = s_extdef ++ rest /\ Forall type_char rest /\ (List.length n <= 250)%nat)
  \/ ((V = V21 -> ustr_prefix s_extdef n = false) /\ spec_type_name (sv V) n).

Lemma ext_name_rule_lemma : forall vt V n,
  strict_type_rule vt V -> extid vt = OwnRegex ->
  (validate_ext_name vt V n = true <-> spec_ext_name V n).
Proof.
  intros vt V n S X. unfold validate_ext_name, spec_ext_name. rewrite X. destruct V.
  - rewrite (type_name_rule_lemma vt V20 n S). split.
    + intros H. right. split; [discriminate | exact H].
    + intros [[F _] | [_ H]]; [discriminate | exact H].
  - destruct (ustr_prefix s_extdef n) eqn:P.
    + apply ustr_prefix_spec in P. destruct P as [rest ->].
      rewrite skipn_app_exact, andb_true_iff, forallb_type_char, Nat.leb_le. unfold type_len_max. split.
      * intros [F L]. left. split; auto. exists rest. auto.
      * intros [[_ [rest' [E [F L]]]] | [H _]].
        -- apply app_inv_head in E. subst. auto.
        -- specialize (H eq_refl).
           assert (ustr_prefix s_extdef (s_extdef ++ rest) = true) by (apply ustr_prefix_spec; eauto). congruence.
    + rewrite (type_name_rule_lemma vt V21 n S). split.
      * intros H. right. auto.
      * intros [[_ [rest [E _]]] | [_ H]]; auto.
        assert (ustr_prefix s_extdef n = true) by (apply ustr_prefix_spec; eauto). congruence.
Qed.

Lemma invalid_ext_name_refused_lemma : forall vt r q,
  strict_type_rule vt (r_ver q) -> extid vt = OwnRegex -> r_kind q = Extensions ->
  ~ spec_ext_name (r_ver q) (r_name q) ->
  decorate vt r q = (r, Failed EValue).
Proof.
  intros vt r q S X K NS. apply name_check_refused_lemma. unfold name_check. rewrite K.
  destruct (validate_ext_name vt (r_ver q) (r_name q)) eqn:E; auto.
  apply (ext_name_rule_lemma vt _ _ S X) in E. contradiction.
Qed.

(* ---------------- property names ---------------- *)

Lemma dict_set_keys : forall d k v k', In k' (map fst (dict_set d k v)) <-> k' = k \/ In k' (map fst d).
Proof.
  induction d as [|[k0 v0] d IH]; intros; simpl.
  - split; intros [H | H]; auto; contradiction.
  - destruct (ustr_eqb k k0) eqn:E; simpl.
    + apply ustr_eqb_eq in E. subst. split; intros H; intuition (subst; auto).
    + rewrite IH. tauto.
Qed.

Lemma dict_update_keys : forall pairs d k',
  In k' (map fst (dict_update d pairs)) <-> In k' (map fst d) \/ In k' (map fst pairs).
Proof.
  unfold dict_update. induction pairs as [|[k v] pairs IH]; intros; simpl.
  - tauto.
  - rewrite IH, dict_set_keys. simpl. split; intros H; intuition.
Qed.

Lemma dict_of_pairs_keys : forall pairs k', In k' (map fst (dict_of_pairs pairs)) <-> In k' (map fst pairs).
Proof. intros. unfold dict_of_pairs. rewrite dict_update_keys. simpl. tauto. Qed.

Lemma validate_props_bad_key : forall vt V o d n,
  In n (map fst d) -> validate_prop_name vt V n = false -> validate_props vt V o d = false.
Proof.
  intros vt V o d n I H. unfold validate_props. apply andb_false_iff. left.
  destruct (forallb (fun kv => validate_prop_name vt V (fst kv)) d) eqn:F; auto.
  rewrite forallb_forall in F. apply in_map_iff in I. destruct I as [[k v] [E I]]. simpl in E. subst.
  specialize (F _ I). simpl in F. congruence.
Qed.

Lemma in_fst : forall {A B} (l : list (A * B)) a b, In (a, b) l -> In a (map fst l).
Proof. intros. apply in_map_iff. exists (a, b). auto. Qed.

Lemma object_props_keys : forall V user n k, In (n, k) user -> In n (map fst (object_props V user)).
Proof.
  intros V user n k I. unfold object_props.
  assert (H : In (n, k) (filter (fun kv => negb (starts_x kv)) user) \/ In (n, k) (filter starts_x user)).
  { rewrite !filter_In. destruct (starts_x (n, k)); simpl; auto. }
  destruct V; rewrite !map_app, !in_app_iff; destruct H as [H | H]; apply in_fst in H; auto.
Qed.

Lemma observable_props_keys : forall V user n k, In (n, k) user -> In n (map fst (observable_props V user)).
Proof.
  intros V user n k I. unfold observable_props. apply in_fst in I.
  destruct V; rewrite !map_app, !in_app_iff; auto.
Qed.

Lemma finish_raise : forall r0 e, finish r0 (Raise e) = (r0, Failed e).
Proof. reflexivity. Qed.

(* a user property whose name the recogniser refuses: the decorator fails *)
Lemma bad_prop_name_fails : forall vt r q n k,
  In (n, k) (r_props q) -> validate_prop_name vt (r_ver q) n = false ->
  exists e, snd (decorate vt r q) = Failed e.
Proof.
  intros vt r q n k I B. unfold decorate. destruct (r_kind q).
  - destruct (negb (validate_type vt (r_ver q) (r_name q))); [simpl; eauto|].
    destruct (with_extension_name vt r (r_ver q) (r_extname q) XNewSdo) as [r1 [|e]]; [|simpl; eauto].
    unfold register_object.
    rewrite (validate_props_bad_key vt (r_ver q) false _ n); [simpl; eauto | | exact B].
    apply dict_of_pairs_keys. eapply object_props_keys. exact I.
  - destruct (negb (validate_type vt (r_ver q) (r_name q))); [simpl; eauto|].
    destruct (with_extension_name vt r (r_ver q) (r_extname q) XNewSco) as [r1 [|e]]; [|simpl; eauto].
    unfold register_observable.
    rewrite (validate_props_bad_key vt (r_ver q) _ _ n); [simpl; eauto | | exact B].
    apply dict_of_pairs_keys. eapply observable_props_keys. exact I.
  - unfold register_marking.
    destruct (negb (validate_type vt (r_ver q) (r_name q))); [simpl; eauto|].
    rewrite (validate_props_bad_key vt (r_ver q) false _ n); [simpl; eauto | | exact B].
    apply dict_of_pairs_keys. eapply in_fst. exact I.
  - unfold register_extension.
    destruct (negb (validate_ext_name vt (r_ver q) (r_name q))); [simpl; eauto|].
    destruct (version_eqb (r_ver q) V21 && _); [simpl; eauto|].
    destruct (is_nil _ || _); [simpl; eauto|].
    rewrite (validate_props_bad_key vt (r_ver q) false _ n); [simpl; eauto | | exact B].
    apply in_fst in I. apply dict_of_pairs_keys in I.
    destruct (r_exttype q) as [[| | | |]|]; apply dict_update_keys; simpl;
      try (left; apply dict_update_keys; right; exact I);
      try (right; exact I); try (left; exact I).
Qed.

Lemma invalid_prop_name_refused_lemma : forall vt r q n k,
  pmode vt = FullRule -> In (n, k) (r_props q) -> ~ spec_prop_name (sv (r_ver q)) n ->
  exists e, snd (decorate vt r q) = Failed e.
Proof.
  intros vt r q n k P I NS. apply (bad_prop_name_fails vt r q n k I).
  destruct (validate_prop_name vt (r_ver q) n) eqn:E; auto.
  apply (prop_name_rule_lemma vt _ _ P) in E. contradiction.
Qed.

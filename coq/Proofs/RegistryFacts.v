(* Proofs/RegistryFacts.v -- lemmas about Model/Registry.v: the registry as a
   growing partial function, exactness / exclusivity / version scoping of one
   registration, invariants over every history.                              *)
From Coq Require Import NArith List String Bool Arith Lia.
From V Require Import Base.UString Model.Registry.
Import ListNotations.
Open Scope N_scope.

(* ---------------- equality tests ---------------- *)

Lemma ustr_eqb_refl : forall a, ustr_eqb a a = true.
Proof. induction a; simpl; auto. rewrite N.eqb_refl. auto. Qed.

Lemma ustr_eqb_eq : forall a b, ustr_eqb a b = true <-> a = b.
Proof.
  induction a; destruct b; simpl; split; intros H; try congruence; try discriminate; auto.
  - apply andb_true_iff in H. destruct H as [H1 H2]. apply N.eqb_eq in H1. apply IHa in H2. congruence.
  - inversion H; subst. rewrite N.eqb_refl. simpl. apply ustr_eqb_refl.
Qed.

Lemma ustr_eqb_neq : forall a b, ustr_eqb a b = false <-> a <> b.
Proof.
  intros. split; intros H.
  - intro E. apply ustr_eqb_eq in E. congruence.
  - destruct (ustr_eqb a b) eqn:E; auto. apply ustr_eqb_eq in E. contradiction.
Qed.

Lemma version_eqb_eq : forall a b, version_eqb a b = true <-> a = b.
Proof. destruct a, b; simpl; split; congruence. Qed.

Lemma category_eqb_eq : forall a b, category_eqb a b = true <-> a = b.
Proof. destruct a, b; simpl; split; congruence. Qed.

Definition key := (version * category * ustring)%type.
Definition key_of (e : entry) : key := (e_ver e, e_cat e, e_name e).
Definition mk (V : version) (c : category) (n : ustring) (cls : classid) : entry :=
  {| e_ver := V; e_cat := c; e_name := n; e_cls := cls |}.

Lemma entry_at_true : forall V c n e, entry_at V c n e = true <-> key_of e = (V, c, n).
Proof.
  intros. unfold entry_at, key_of. rewrite !andb_true_iff, version_eqb_eq, category_eqb_eq, ustr_eqb_eq.
  split.
  - intros [[A B] C]. congruence.
  - intros H. inversion H. auto.
Qed.

Lemma entry_at_false : forall V c n e, entry_at V c n e = false <-> key_of e <> (V, c, n).
Proof.
  intros. split; intros H.
  - intro E. apply entry_at_true in E. congruence.
  - destruct (entry_at V c n e) eqn:E; auto. apply entry_at_true in E. contradiction.
Qed.

(* ---------------- lookup ---------------- *)

Lemma lookup_app : forall r r' V c n,
  lookup (r ++ r') V c n = match lookup r V c n with Some x => Some x | None => lookup r' V c n end.
Proof. induction r; simpl; intros; auto. destruct (entry_at V c n a); auto. Qed.

Lemma lookup_single : forall V c n cls V' c' n',
  lookup [mk V c n cls] V' c' n' = if entry_at V' c' n' (mk V c n cls) then Some cls else None.
Proof. reflexivity. Qed.

Lemma lookup_none_notin : forall r V c n, lookup r V c n = None <-> ~ In (V, c, n) (map key_of r).
Proof.
  induction r; simpl; intros.
  - tauto.
  - destruct (entry_at V c n a) eqn:E.
    + apply entry_at_true in E. split; [discriminate | intros H; exfalso; apply H; auto].
    + apply entry_at_false in E. rewrite IHr. split.
      * intros H [F | F]; auto.
      * intros H F. apply H. auto.
Qed.

Lemma lookup_some_in : forall r V c n x, lookup r V c n = Some x -> In (mk V c n x) r.
Proof.
  induction r; simpl; intros; try discriminate.
  destruct (entry_at V c n a) eqn:E.
  - apply entry_at_true in E. inversion H; subst. left. destruct a; unfold key_of, mk in *; simpl in *. congruence.
  - right. eauto.
Qed.

Lemma NoDup_snoc : forall {A} (l : list A) x, NoDup l -> ~ In x l -> NoDup (l ++ [x]).
Proof.
  induction l; simpl; intros.
  - constructor; auto.
  - inversion H; subst. constructor.
    + rewrite in_app_iff. simpl. intros [F | [F | []]]; [auto | subst; apply H0; left; reflexivity].
    + apply IHl; auto.
Qed.

Lemma lookup_complete : forall r e, NoDup (map key_of r) -> In e r -> lookup r (e_ver e) (e_cat e) (e_name e) = Some (e_cls e).
Proof.
  induction r; simpl; intros e ND HI; [contradiction|].
  inversion ND; subst. destruct HI as [-> | HI].
  - assert (entry_at (e_ver e) (e_cat e) (e_name e) e = true) by (apply entry_at_true; reflexivity).
    rewrite H. reflexivity.
  - destruct (entry_at (e_ver e) (e_cat e) (e_name e) a) eqn:E.
    + apply entry_at_true in E. exfalso. apply H1. rewrite E. apply (in_map key_of) in HI. exact HI.
    + auto.
Qed.

Lemma keys_distinct_NoDup : forall r, keys_distinct r = true -> NoDup (map key_of r).
Proof.
  induction r; simpl; intros; [constructor|].
  apply andb_true_iff in H. destruct H as [H1 H2]. constructor; auto.
  apply negb_true_iff in H1. intro F. apply in_map_iff in F. destruct F as [e [E I]].
  assert (existsb (entry_at (e_ver a) (e_cat a) (e_name a)) r = true).
  { apply existsb_exists. exists e. split; auto. apply entry_at_true. exact E. }
  congruence.
Qed.

(* ---------------- reg_insert ---------------- *)

Lemma reg_insert_ok : forall r V c n cls r',
  reg_insert r V c n cls = Ok r' -> lookup r V c n = None /\ r' = r ++ [mk V c n cls].
Proof. unfold reg_insert. intros. destruct (lookup r V c n); inversion H. auto. Qed.

Lemma reg_insert_dup : forall r V c n cls c0, lookup r V c n = Some c0 -> reg_insert r V c n cls = Raise EDuplicate.
Proof. unfold reg_insert. intros. rewrite H. reflexivity. Qed.

Lemma reg_insert_raise : forall r V c n cls e, reg_insert r V c n cls = Raise e -> e = EDuplicate /\ exists c0, lookup r V c n = Some c0.
Proof. unfold reg_insert. intros. destruct (lookup r V c n) eqn:E; inversion H. eauto. Qed.

(* the four _register_* functions either raise ValueError / DuplicateRegistrationError
   and return nothing, or perform exactly reg_insert *)
Lemma register_object_ok : forall vt r V n d cls r',
  register_object vt r V n d cls = Ok r' -> reg_insert r V Objects n cls = Ok r'.
Proof. unfold register_object. intros. destruct (negb _); [discriminate | auto]. Qed.

Lemma register_observable_ok : forall vt r V n d cls r',
  register_observable vt r V n d cls = Ok r' -> reg_insert r V Observables n cls = Ok r'.
Proof. unfold register_observable. intros. destruct (negb _); [discriminate | auto]. Qed.

Lemma register_marking_ok : forall vt r V n d cls r',
  register_marking vt r V n d cls = Ok r' -> reg_insert r V Markings n cls = Ok r'.
Proof. unfold register_marking. intros. destruct (negb _); [discriminate|]. destruct (negb _); [discriminate | auto]. Qed.

Lemma register_extension_ok : forall vt r V n xt user cls r',
  register_extension vt r V n xt user cls = Ok r' -> reg_insert r V Extensions n cls = Ok r'.
Proof.
  unfold register_extension. intros.
  destruct (negb (validate_ext_name vt V n)); [discriminate|].
  destruct (version_eqb V V21 && _); [discriminate|].
  destruct (is_nil _ || _); [discriminate|].
  destruct (negb (validate_props _ _ _ _)); [discriminate | auto].
Qed.

Lemma register_object_raise : forall vt r V n d cls e,
  register_object vt r V n d cls = Raise e -> e = EValue \/ (e = EDuplicate /\ exists c0, lookup r V Objects n = Some c0).
Proof. unfold register_object. intros. destruct (negb _); [inversion H; auto|]. apply reg_insert_raise in H. auto. Qed.

Lemma register_observable_raise : forall vt r V n d cls e,
  register_observable vt r V n d cls = Raise e -> e = EValue \/ (e = EDuplicate /\ exists c0, lookup r V Observables n = Some c0).
Proof. unfold register_observable. intros. destruct (negb _); [inversion H; auto|]. apply reg_insert_raise in H. auto. Qed.

Lemma register_marking_raise : forall vt r V n d cls e,
  register_marking vt r V n d cls = Raise e -> e = EValue \/ (e = EDuplicate /\ exists c0, lookup r V Markings n = Some c0).
Proof.
  unfold register_marking. intros. destruct (negb _); [inversion H; auto|]. destruct (negb _); [inversion H; auto|].
  apply reg_insert_raise in H. auto.
Qed.

Lemma register_extension_raise : forall vt r V n xt user cls e,
  register_extension vt r V n xt user cls = Raise e -> e = EValue \/ (e = EDuplicate /\ exists c0, lookup r V Extensions n = Some c0).
Proof.
  unfold register_extension. intros.
  destruct (negb (validate_ext_name vt V n)); [inversion H; auto|].
  destruct (version_eqb V V21 && _); [inversion H; auto|].
  destruct (is_nil _ || _); [inversion H; auto|].
  destruct (negb (validate_props _ _ _ _)); [inversion H; auto|].
  apply reg_insert_raise in H. auto.
Qed.

(* ---------------- the shape of what one decorator call does ---------------- *)

(* the extension a v21 CustomObject / CustomObservable registers on the side *)
Definition side_entry (q : regreq) : option entry :=
  match r_kind q, r_ver q, r_extname q with
  | Objects, V21, Some (c :: en) => Some (mk V21 Extensions (c :: en) (extname_class (c :: en)))
  | Observables, V21, Some (c :: en) => Some (mk V21 Extensions (c :: en) (extname_class (c :: en)))
  | _, _, _ => None
  end.

Definition main_entry (q : regreq) : entry := mk (r_ver q) (r_kind q) (r_name q) (r_cls q).

Lemma wen_cases : forall vt r V extname xt r1 o,
  with_extension_name vt r V extname xt = (r1, o) ->
  (r1 = r /\ (o = Done -> forall c en, ~ (V = V21 /\ extname = Some (c :: en))))
  \/ (exists c en, V = V21 /\ extname = Some (c :: en) /\ lookup r V21 Extensions (c :: en) = None
                   /\ r1 = r ++ [mk V21 Extensions (c :: en) (extname_class (c :: en))]).
Proof.
  unfold with_extension_name. intros.
  destruct V; [left; inversion H; split; auto; intros _ c en [F _]; discriminate|].
  destruct extname as [[|c en]|]; try (left; inversion H; split; auto; intros _ c' en' [_ F]; discriminate).
  destruct (register_extension vt r V21 (c :: en) (Some xt) [] (extname_class (c :: en))) eqn:E.
  - apply register_extension_ok in E. apply reg_insert_ok in E. destruct E as [E1 E2].
    right. exists c, en. destruct (split_dd_1 (c :: en)); inversion H; subst; auto.
  - left. inversion H; subst. split; auto. discriminate.
Qed.

(* r' = r ++ side ++ main, where side is [] or the fresh side extension, and
   main is [] (failure) or the fresh main entry (success) *)
Lemma decorate_shape : forall vt r q r' o,
  decorate vt r q = (r', o) ->
  exists side main,
    r' = r ++ side ++ main
    /\ (side = [] \/ exists e, side_entry q = Some e /\ side = [e] /\ lookup r (e_ver e) (e_cat e) (e_name e) = None)
    /\ ((main = [] /\ exists e, o = Failed e)
        \/ (main = [main_entry q] /\ o = Done
            /\ lookup (r ++ side) (r_ver q) (r_kind q) (r_name q) = None
            /\ (side = [] -> side_entry q = None))).
Proof.
  intros vt r q r' o H. unfold decorate in H.
  destruct (r_kind q) eqn:K.
  - (* Objects *)
    destruct (negb (validate_type vt (r_ver q) (r_name q))).
    { inversion H; subst. exists [], []. rewrite !app_nil_r. split; auto. split; auto. left. eauto. }
    destruct (with_extension_name vt r (r_ver q) (r_extname q) XNewSdo) as [r1 o1] eqn:W.
    apply wen_cases in W. destruct W as [[-> Hno] | [c [en [HV [HX [HL ->]]]]]].
    + destruct o1.
      * destruct (register_object vt r (r_ver q) (r_name q) _ (r_cls q)) eqn:R; simpl in H; inversion H; subst.
        -- apply register_object_ok in R. apply reg_insert_ok in R. destruct R as [R1 ->].
           exists [], [main_entry q]. simpl. split; [unfold main_entry; rewrite K; reflexivity|]. split; auto. right.
           rewrite app_nil_r. repeat split; auto.
           intros _. unfold side_entry. rewrite K. destruct (r_ver q) eqn:EV; auto.
           destruct (r_extname q) as [[|c en]|] eqn:EX; auto. exfalso. apply (Hno eq_refl c en). auto.
        -- exists [], []. rewrite !app_nil_r. split; auto. split; auto. left. eauto.
      * inversion H; subst. exists [], []. rewrite !app_nil_r. split; auto. split; auto. left. eauto.
    + set (se := mk V21 Extensions (c :: en) (extname_class (c :: en))) in *.
      assert (SE : side_entry q = Some se). { unfold side_entry. rewrite K, HV, HX. reflexivity. }
      destruct o1.
      * destruct (register_object vt (r ++ [se]) (r_ver q) (r_name q) _ (r_cls q)) eqn:R; simpl in H; inversion H; subst.
        -- apply register_object_ok in R. apply reg_insert_ok in R. destruct R as [R1 ->].
           exists [se], [main_entry q]. split; [unfold main_entry; rewrite K, <- app_assoc; reflexivity|]. split.
           ++ right. exists se. auto.
           ++ right. repeat split; auto. discriminate.
        -- exists [se], []. rewrite app_nil_r. split; auto. split; [right; exists se; auto | left; eauto].
      * inversion H; subst. exists [se], []. rewrite app_nil_r. split; auto. split; [right; exists se; auto | left; eauto].
  - (* Observables *)
    destruct (negb (validate_type vt (r_ver q) (r_name q))).
    { inversion H; subst. exists [], []. rewrite !app_nil_r. split; auto. split; auto. left. eauto. }
    destruct (with_extension_name vt r (r_ver q) (r_extname q) XNewSco) as [r1 o1] eqn:W.
    apply wen_cases in W. destruct W as [[-> Hno] | [c [en [HV [HX [HL ->]]]]]].
    + destruct o1.
      * destruct (register_observable vt r (r_ver q) (r_name q) _ (r_cls q)) eqn:R; simpl in H; inversion H; subst.
        -- apply register_observable_ok in R. apply reg_insert_ok in R. destruct R as [R1 ->].
           exists [], [main_entry q]. simpl. split; [unfold main_entry; rewrite K; reflexivity|]. split; auto. right.
           rewrite app_nil_r. repeat split; auto.
           intros _. unfold side_entry. rewrite K. destruct (r_ver q) eqn:EV; auto.
           destruct (r_extname q) as [[|c en]|] eqn:EX; auto. exfalso. apply (Hno eq_refl c en). auto.
        -- exists [], []. rewrite !app_nil_r. split; auto. split; auto. left. eauto.
      * inversion H; subst. exists [], []. rewrite !app_nil_r. split; auto. split; auto. left. eauto.
    + set (se := mk V21 Extensions (c :: en) (extname_class (c :: en))) in *.
      assert (SE : side_entry q = Some se). { unfold side_entry. rewrite K, HV, HX. reflexivity. }
      destruct o1.
      * destruct (register_observable vt (r ++ [se]) (r_ver q) (r_name q) _ (r_cls q)) eqn:R; simpl in H; inversion H; subst.
        -- apply register_observable_ok in R. apply reg_insert_ok in R. destruct R as [R1 ->].
           exists [se], [main_entry q]. split; [unfold main_entry; rewrite K, <- app_assoc; reflexivity|]. split.
           ++ right. exists se. auto.
           ++ right. repeat split; auto. discriminate.
        -- exists [se], []. rewrite app_nil_r. split; auto. split; [right; exists se; auto | left; eauto].
      * inversion H; subst. exists [se], []. rewrite app_nil_r. split; auto. split; [right; exists se; auto | left; eauto].
  - (* Markings *)
    assert (SE : side_entry q = None) by (unfold side_entry; rewrite K; reflexivity).
    destruct (register_marking vt r (r_ver q) (r_name q) _ (r_cls q)) eqn:R; simpl in H; inversion H; subst.
    + apply register_marking_ok in R. apply reg_insert_ok in R. destruct R as [R1 ->].
      exists [], [main_entry q]. simpl. split; [unfold main_entry; rewrite K; reflexivity|]. split; auto. right.
      rewrite app_nil_r. repeat split; auto.
    + exists [], []. rewrite !app_nil_r. split; auto. split; auto. left. eauto.
  - (* Extensions *)
    assert (SE : side_entry q = None) by (unfold side_entry; rewrite K; reflexivity).
    destruct (register_extension vt r (r_ver q) (r_name q) _ _ (r_cls q)) eqn:R; simpl in H; inversion H; subst.
    + apply register_extension_ok in R. apply reg_insert_ok in R. destruct R as [R1 ->].
      exists [], [main_entry q]. simpl. split; [unfold main_entry; rewrite K; reflexivity|]. split; auto. right.
      rewrite app_nil_r. repeat split; auto.
    + exists [], []. rewrite !app_nil_r. split; auto. split; auto. left. eauto.
Qed.

(* ---------------- one registration: exact, exclusive, version-scoped ---------------- *)

Lemma side_entry_key : forall q e, side_entry q = Some e -> e_ver e = V21 /\ e_cat e = Extensions /\ r_ver q = V21 /\
                                                     (r_kind q = Objects \/ r_kind q = Observables).
Proof.
  unfold side_entry. intros q e H.
  destruct (r_kind q); try discriminate; destruct (r_ver q); try discriminate;
    destruct (r_extname q) as [[|c en]|]; try discriminate; inversion H; subst; simpl; auto.
Qed.

Lemma lookup_snoc_other : forall r e V c n, key_of e <> (V, c, n) -> lookup (r ++ [e]) V c n = lookup r V c n.
Proof.
  intros. rewrite lookup_app. destruct (lookup r V c n); auto. simpl.
  apply entry_at_false in H. rewrite H. reflexivity.
Qed.

Lemma lookup_snoc_same : forall r e, lookup r (e_ver e) (e_cat e) (e_name e) = None ->
  lookup (r ++ [e]) (e_ver e) (e_cat e) (e_name e) = Some (e_cls e).
Proof.
  intros. rewrite lookup_app, H. simpl.
  assert (entry_at (e_ver e) (e_cat e) (e_name e) e = true) by (apply entry_at_true; reflexivity).
  rewrite H0. reflexivity.
Qed.

Lemma lookup_snoc_grows : forall r e V c n x, lookup r V c n = Some x -> lookup (r ++ [e]) V c n = Some x.
Proof. intros. rewrite lookup_app, H. reflexivity. Qed.

(* after a successful registration exactly the registered name maps to the new
   class (and, with extension_name=, the named extension to its class); every
   other lookup is unchanged *)
Lemma reg_exact_lemma : forall vt r q r',
  decorate vt r q = (r', Done) ->
  lookup r' (r_ver q) (r_kind q) (r_name q) = Some (r_cls q)
  /\ (forall e, side_entry q = Some e -> lookup r' (e_ver e) (e_cat e) (e_name e) = Some (e_cls e))
  /\ (forall V c n, (V, c, n) <> (r_ver q, r_kind q, r_name q) ->
                    (forall e, side_entry q = Some e -> key_of e <> (V, c, n)) ->
                    lookup r' V c n = lookup r V c n).
Proof.
  intros vt r q r' H. apply decorate_shape in H.
  destruct H as [side [main [-> [HS HM]]]].
  destruct HM as [[_ [e F]] | [-> [_ [HL HN]]]]; [discriminate|].
  rewrite app_assoc.
  split; [|split].
  - change (r_ver q) with (e_ver (main_entry q)). change (r_kind q) with (e_cat (main_entry q)).
    change (r_name q) with (e_name (main_entry q)). change (r_cls q) with (e_cls (main_entry q)).
    apply lookup_snoc_same. exact HL.
  - intros e SE. destruct HS as [-> | [e' [SE' [-> HL']]]].
    + rewrite (HN eq_refl) in SE. discriminate.
    + rewrite SE in SE'. inversion SE'; subst e'. apply lookup_snoc_grows. apply lookup_snoc_same. exact HL'.
  - intros V c n Hmain Hside. rewrite lookup_snoc_other by (unfold key_of, main_entry; simpl; congruence).
    destruct HS as [-> | [e' [SE' [-> HL']]]].
    + rewrite app_nil_r. reflexivity.
    + apply lookup_snoc_other. apply Hside. exact SE'.
Qed.

(* a failed registration changes no lookup, except that the side extension of
   extension_name= may already have been registered *)
Lemma reg_failed_frame_lemma : forall vt r q r' e,
  decorate vt r q = (r', Failed e) ->
  (side_entry q = None -> r' = r)
  /\ (forall V c n, (forall s, side_entry q = Some s -> key_of s <> (V, c, n)) -> lookup r' V c n = lookup r V c n).
Proof.
  intros vt r q r' e H. apply decorate_shape in H.
  destruct H as [side [main [-> [HS HM]]]].
  destruct HM as [[-> _] | [_ [F _]]]; [|discriminate].
  rewrite app_nil_r. split.
  - intros SE. destruct HS as [-> | [e' [SE' _]]]; [apply app_nil_r | congruence].
  - intros V c n Hside. destruct HS as [-> | [e' [SE' [-> HL']]]].
    + rewrite app_nil_r. reflexivity.
    + apply lookup_snoc_other. apply Hside. exact SE'.
Qed.

(* a name that is taken: the registration is refused and the earlier class stays *)
Lemma reg_exclusive_lemma : forall vt r q c0,
  lookup r (r_ver q) (r_kind q) (r_name q) = Some c0 ->
  exists e, snd (decorate vt r q) = Failed e
            /\ lookup (fst (decorate vt r q)) (r_ver q) (r_kind q) (r_name q) = Some c0
            /\ (side_entry q = None -> fst (decorate vt r q) = r /\ (e = EDuplicate \/ e = EValue)).
Proof.
  intros vt r q c0 HL.
  destruct (decorate vt r q) as [r' o] eqn:D. simpl.
  pose proof D as D0. apply decorate_shape in D.
  destruct D as [side [main [-> [HS HM]]]].
  destruct HM as [[-> [e ->]] | [_ [_ [HN _]]]].
  - exists e. split; auto. rewrite app_nil_r. split.
    + destruct HS as [-> | [e' [_ [-> _]]]]; [rewrite app_nil_r; auto | apply lookup_snoc_grows; auto].
    + intros SE. destruct HS as [-> | [e' [SE' _]]]; [|congruence]. split; [apply app_nil_r|].
      (* which exception: unfold the four paths *)
      rewrite app_nil_r in D0. unfold decorate in D0.
      unfold side_entry in SE.
      destruct (r_kind q) eqn:K.
      * destruct (negb (validate_type vt (r_ver q) (r_name q))); [inversion D0; auto|].
        assert (W : with_extension_name vt r (r_ver q) (r_extname q) XNewSdo = (r, Done)).
        { unfold with_extension_name. destruct (r_ver q); auto. destruct (r_extname q) as [[|c en]|]; auto. discriminate. }
        rewrite W in D0.
        destruct (register_object vt r (r_ver q) (r_name q) _ (r_cls q)) eqn:R; simpl in D0; inversion D0; subst.
        apply register_object_raise in R. destruct R as [-> | [-> _]]; auto.
      * destruct (negb (validate_type vt (r_ver q) (r_name q))); [inversion D0; auto|].
        assert (W : with_extension_name vt r (r_ver q) (r_extname q) XNewSco = (r, Done)).
        { unfold with_extension_name. destruct (r_ver q); auto. destruct (r_extname q) as [[|c en]|]; auto. discriminate. }
        rewrite W in D0.
        destruct (register_observable vt r (r_ver q) (r_name q) _ (r_cls q)) eqn:R; simpl in D0; inversion D0; subst.
        apply register_observable_raise in R. destruct R as [-> | [-> _]]; auto.
      * destruct (register_marking vt r (r_ver q) (r_name q) _ (r_cls q)) eqn:R; simpl in D0; inversion D0; subst.
        apply register_marking_raise in R. destruct R as [-> | [-> _]]; auto.
      * destruct (register_extension vt r (r_ver q) (r_name q) _ _ (r_cls q)) eqn:R; simpl in D0; inversion D0; subst.
        apply register_extension_raise in R. destruct R as [-> | [-> _]]; auto.
  - exfalso. destruct HS as [-> | [e' [_ [-> _]]]].
    + rewrite app_nil_r in HN. congruence.
    + rewrite (lookup_snoc_grows _ _ _ _ _ _ HL) in HN. discriminate.
Qed.

(* whatever happens, lookups of the other version are untouched *)
Lemma reg_version_scoped_lemma : forall vt r q V c n,
  V <> r_ver q -> lookup (fst (decorate vt r q)) V c n = lookup r V c n.
Proof.
  intros vt r q V c n HV. destruct (decorate vt r q) as [r' o] eqn:D. simpl.
  apply decorate_shape in D. destruct D as [side [main [-> [HS HM]]]].
  assert (A : lookup (r ++ side) V c n = lookup r V c n).
  { destruct HS as [-> | [e' [SE' [-> _]]]]; [rewrite app_nil_r; auto|].
    apply lookup_snoc_other. apply side_entry_key in SE'. destruct SE' as [E1 [_ [E2 _]]].
    unfold key_of. intro F. inversion F. congruence. }
  destruct HM as [[-> _] | [-> _]].
  - rewrite app_nil_r. exact A.
  - rewrite app_assoc, lookup_snoc_other; auto. unfold key_of, main_entry. simpl. intro F. inversion F. congruence.
Qed.

(* the registry only grows: what is registered stays registered, with the same class *)
Lemma decorate_grows : forall vt r q V c n x,
  lookup r V c n = Some x -> lookup (fst (decorate vt r q)) V c n = Some x.
Proof.
  intros vt r q V c n x HL. destruct (decorate vt r q) as [r' o] eqn:D. simpl.
  apply decorate_shape in D. destruct D as [side [main [-> _]]].
  rewrite lookup_app, HL. reflexivity.
Qed.

Lemma decorate_NoDup : forall vt r q, NoDup (map key_of r) -> NoDup (map key_of (fst (decorate vt r q))).
Proof.
  intros vt r q ND. destruct (decorate vt r q) as [r' o] eqn:D. simpl.
  apply decorate_shape in D. destruct D as [side [main [-> [HS HM]]]].
  assert (A : NoDup (map key_of (r ++ side))).
  { destruct HS as [-> | [e' [_ [-> HL]]]]; [rewrite app_nil_r; auto|].
    rewrite map_app. simpl. apply NoDup_snoc; auto. apply lookup_none_notin. exact HL. }
  destruct HM as [[-> _] | [-> [_ [HL _]]]].
  - rewrite app_nil_r. exact A.
  - rewrite app_assoc, map_app. simpl. apply NoDup_snoc; auto. apply lookup_none_notin. exact HL.
Qed.

(* nothing appears in the registry except what a registration put there *)
Lemma decorate_only_registered : forall vt r q V c n x,
  lookup (fst (decorate vt r q)) V c n = Some x ->
  lookup r V c n = Some x
  \/ (V, c, n, x) = (r_ver q, r_kind q, r_name q, r_cls q)
  \/ (exists e, side_entry q = Some e /\ (V, c, n, x) = (e_ver e, e_cat e, e_name e, e_cls e)).
Proof.
  intros vt r q V c n x. destruct (decorate vt r q) as [r' o] eqn:D. simpl.
  apply decorate_shape in D. destruct D as [side [main [-> [HS HM]]]].
  rewrite !lookup_app. destruct (lookup r V c n) eqn:L; [intros H; left; exact H|].
  intros H. right.
  assert (M : lookup main V c n = Some x -> (V, c, n, x) = (r_ver q, r_kind q, r_name q, r_cls q)).
  { destruct HM as [[-> _] | [-> _]]; simpl; [discriminate|].
    destruct (entry_at V c n (main_entry q)) eqn:E; [|discriminate].
    apply entry_at_true in E. unfold key_of, main_entry in E. simpl in E. intros X. inversion X. inversion E. reflexivity. }
  destruct HS as [-> | [e' [SE' [-> _]]]].
  - simpl in H. left. auto.
  - simpl in H. destruct (entry_at V c n e') eqn:E.
    + right. exists e'. split; auto. apply entry_at_true in E. unfold key_of in E. inversion H. inversion E. reflexivity.
    + left. auto.
Qed.

(* ---------------- histories ---------------- *)

Lemma step_lookup_pure : forall vt r o,
  (forall q, o <> Register q) -> fst (step vt r o) = r.
Proof. intros vt r o H. destruct o; simpl; auto. exfalso. eapply H. reflexivity. Qed.

Lemma step_register : forall vt r q, fst (step vt r (Register q)) = fst (decorate vt r q).
Proof. intros. simpl. destruct (decorate vt r q). reflexivity. Qed.

Lemma state_after_cons : forall vt r o ops, state_after vt r (o :: ops) = state_after vt (fst (step vt r o)) ops.
Proof.
  intros. unfold state_after. simpl. destruct (step vt r o) as [r1 ob]. simpl.
  destruct (run vt r1 ops). reflexivity.
Qed.

Lemma state_after_app : forall vt ops1 ops2 r, state_after vt r (ops1 ++ ops2) = state_after vt (state_after vt r ops1) ops2.
Proof.
  induction ops1; intros; simpl.
  - reflexivity.
  - rewrite !state_after_cons. apply IHops1.
Qed.

Lemma step_grows : forall vt r o V c n x, lookup r V c n = Some x -> lookup (fst (step vt r o)) V c n = Some x.
Proof.
  intros. destruct o; try (simpl; assumption).
  rewrite step_register. apply decorate_grows. assumption.
Qed.

Lemma history_grows : forall vt ops r V c n x,
  lookup r V c n = Some x -> lookup (state_after vt r ops) V c n = Some x.
Proof.
  induction ops; intros.
  - exact H.
  - rewrite state_after_cons. apply IHops. apply step_grows. exact H.
Qed.

Lemma history_NoDup : forall vt ops r, NoDup (map key_of r) -> NoDup (map key_of (state_after vt r ops)).
Proof.
  induction ops; intros.
  - exact H.
  - rewrite state_after_cons. apply IHops. destruct a; try (simpl; assumption).
    rewrite step_register. apply decorate_NoDup. assumption.
Qed.

Lemma history_only_registered : forall vt ops r V c n x,
  lookup (state_after vt r ops) V c n = Some x ->
  lookup r V c n = Some x
  \/ exists q, In (Register q) ops
               /\ ((V, c, n, x) = (r_ver q, r_kind q, r_name q, r_cls q)
                   \/ exists e, side_entry q = Some e /\ (V, c, n, x) = (e_ver e, e_cat e, e_name e, e_cls e)).
Proof.
  induction ops; intros r V c n x H.
  - left. exact H.
  - rewrite state_after_cons in H. apply IHops in H. destruct H as [H | [q [I H]]].
    + destruct a; try (left; exact H).
      rewrite step_register in H. apply decorate_only_registered in H.
      destruct H as [H | H]; [left; exact H|]. right. exists q. split; [left; reflexivity | exact H].
    + right. exists q. split; [right; exact I | exact H].
Qed.

(* versions never mix: a history of registrations for one version leaves the other version's lookups alone *)
Lemma history_version_scoped : forall vt ops r V c n,
  (forall q, In (Register q) ops -> r_ver q <> V) ->
  lookup (state_after vt r ops) V c n = lookup r V c n.
Proof.
  induction ops; intros r V c n H.
  - reflexivity.
  - rewrite state_after_cons, IHops by (intros q I; apply H; right; exact I).
    destruct a; try reflexivity.
    rewrite step_register. apply reg_version_scoped_lemma. intro E. apply (H q); [left; reflexivity | auto].
Qed.

(* ---------------- dispatch ---------------- *)

Definition version_text (V : version) : ustring := match V with V20 => s_v20 | V21 => s_v21 end.

Lemma version_of_text : forall V, version_of (version_text V) = Some V.
Proof. destruct V; reflexivity. Qed.

Lemma cft_objects : forall r n V, class_for_type r n (version_text V) (Some (u "objects")) = lookup r V Objects n.
Proof.
  intros. unfold class_for_type. rewrite version_of_text.
  destruct (u "objects") as [|c cs] eqn:E; [vm_compute in E; discriminate|].
  rewrite <- E. replace (category_of (u "objects")) with (Some Objects) by (vm_compute; reflexivity). reflexivity.
Qed.

Lemma cft_observables : forall r n V, class_for_type r n (version_text V) (Some (u "observables")) = lookup r V Observables n.
Proof.
  intros. unfold class_for_type. rewrite version_of_text.
  destruct (u "observables") as [|c cs] eqn:E; [vm_compute in E; discriminate|].
  rewrite <- E. replace (category_of (u "observables")) with (Some Observables) by (vm_compute; reflexivity). reflexivity.
Qed.

Lemma version_text_nonempty : forall V, exists c v, version_text V = c :: v.
Proof. destruct V; simpl; unfold s_v20, s_v21; eauto. Qed.

(* a registered custom object type parses to its class under the version it
   was registered for, after any further history *)
Lemma parse_dispatch_registered_object : forall vt r q r' ops specv has_id ac exts,
  decorate vt r q = (r', Done) -> r_kind q = Objects ->
  parse_dispatch (state_after vt r' ops) (r_name q) specv has_id (Some (version_text (r_ver q))) ac exts
  = DClass (r_cls q).
Proof.
  intros vt r q r' ops specv has_id ac exts D K.
  apply reg_exact_lemma in D. destruct D as [D _]. rewrite K in D.
  apply (history_grows vt ops) in D.
  unfold parse_dispatch, effective_version.
  destruct (version_text_nonempty (r_ver q)) as [c [v E]]. rewrite E, <- E.
  rewrite cft_objects, D. reflexivity.
Qed.

Lemma parse_dispatch_registered_observable : forall vt r q r' ops specv has_id ac,
  decorate vt r q = (r', Done) -> r_kind q = Observables ->
  parse_observable_dispatch (state_after vt r' ops) (r_name q) specv has_id (Some (version_text (r_ver q))) ac
  = DClass (r_cls q).
Proof.
  intros vt r q r' ops specv has_id ac D K.
  apply reg_exact_lemma in D. destruct D as [D _]. rewrite K in D.
  apply (history_grows vt ops) in D.
  unfold parse_observable_dispatch, effective_version.
  destruct (version_text_nonempty (r_ver q)) as [c [v E]]. rewrite E, <- E.
  rewrite cft_observables, D. reflexivity.
Qed.

(* ... and an unregistered name is not parsed into any class *)
Lemma parse_dispatch_unregistered : forall r n specv has_id V exts,
  lookup r V Objects n = None -> lookup r V Observables n = None ->
  parse_dispatch r n specv has_id (Some (version_text V)) false exts
  = if loophole exts then DDict else DExc EParse.
Proof.
  intros. unfold parse_dispatch, effective_version.
  destruct (version_text_nonempty V) as [c [v E]]. rewrite E, <- E.
  rewrite cft_objects, cft_observables, H, H0. reflexivity.
Qed.

(* ---------------- histories: first registration wins, for ever ---------------- *)

Lemma state_after_register : forall vt r q ops,
  state_after vt r (Register q :: ops) = state_after vt (fst (decorate vt r q)) ops.
Proof. intros. rewrite state_after_cons, step_register. reflexivity. Qed.

(* a registration that succeeded at its point of the history decides the lookup of its
   name at every later point *)
Lemma history_registration_sticks : forall vt r ops1 q ops2,
  snd (decorate vt (state_after vt r ops1) q) = Done ->
  lookup (state_after vt r (ops1 ++ Register q :: ops2)) (r_ver q) (r_kind q) (r_name q) = Some (r_cls q).
Proof.
  intros vt r ops1 q ops2 D. rewrite state_after_app, state_after_register.
  apply history_grows.
  destruct (decorate vt (state_after vt r ops1) q) as [r' o] eqn:E. simpl in *. subst o.
  apply reg_exact_lemma in E. apply E.
Qed.

(* ... and every later attempt to take the same (version, category, name) is refused *)
Lemma history_exclusive : forall vt r ops1 q ops2 q',
  snd (decorate vt (state_after vt r ops1) q) = Done ->
  (r_ver q', r_kind q', r_name q') = (r_ver q, r_kind q, r_name q) ->
  exists e, snd (decorate vt (state_after vt r (ops1 ++ Register q :: ops2)) q') = Failed e.
Proof.
  intros vt r ops1 q ops2 q' D K.
  pose proof (history_registration_sticks vt r ops1 q ops2 D) as L.
  inversion K as [[K1 K2 K3]]. rewrite <- K1, <- K2, <- K3 in L.
  destruct (reg_exclusive_lemma vt _ q' _ L) as [e [F _]]. eauto.
Qed.

(* a name that no registration of the history carries (as its own name or as
   extension_name=) looks up exactly as before the history *)
Lemma history_frame : forall vt ops r V c n,
  (forall q, In (Register q) ops ->
     (r_ver q, r_kind q, r_name q) <> (V, c, n) /\ (forall e, side_entry q = Some e -> key_of e <> (V, c, n))) ->
  lookup (state_after vt r ops) V c n = lookup r V c n.
Proof.
  induction ops as [|o ops IH]; intros r V c n H.
  - reflexivity.
  - rewrite state_after_cons, IH by (intros q I; apply H; right; exact I).
    destruct o; try reflexivity.
    rewrite step_register. destruct (H q (or_introl eq_refl)) as [H1 H2].
    destruct (decorate vt r q) as [r' [|e]] eqn:D; simpl.
    + apply reg_exact_lemma in D. destruct D as [_ [_ D]]. apply D; auto.
    + apply reg_failed_frame_lemma in D. destruct D as [_ D]. apply D. exact H2.
Qed.

(* decidable equality of registry keys *)
Lemma key_eq_dec_lemma : forall a b : key, {a = b} + {a <> b}.
Proof.
  intros [[v1 c1] n1] [[v2 c2] n2].
  destruct (list_eq_dec N.eq_dec n1 n2) as [-> | Hn]; [|right; congruence].
  destruct v1, v2; try (right; congruence); destruct c1, c2; try (right; congruence); left; reflexivity.
Qed.

(* ---------------- dispatch without an explicit version (detect_spec_version) ---------------- *)

Lemma lookup_registered_after : forall vt r q r' ops,
  decorate vt r q = (r', Done) ->
  lookup (state_after vt r' ops) (r_ver q) (r_kind q) (r_name q) = Some (r_cls q).
Proof.
  intros vt r q r' ops D. apply history_grows. apply reg_exact_lemma in D. apply D.
Qed.

Lemma not_bundle : forall n, n <> s_bundle -> ustr_eqb n s_bundle = false.
Proof. intros. apply ustr_eqb_neq. assumption. Qed.

(* a 2.1 custom object: the data carries spec_version "2.1" and no version is forced *)
Lemma parse_default_object_21 : forall vt r q r' ops has_id ac exts,
  decorate vt r q = (r', Done) -> r_kind q = Objects -> r_ver q = V21 -> r_name q <> s_bundle ->
  parse_dispatch (state_after vt r' ops) (r_name q) (Some s_v21) has_id None ac exts = DClass (r_cls q).
Proof.
  intros vt r q r' ops has_id ac exts D K V NB.
  pose proof (lookup_registered_after vt r q r' ops D) as L. rewrite K, V in L.
  unfold parse_dispatch, effective_version, detect_spec_version. rewrite (not_bundle _ NB).
  change s_v21 with (version_text V21). rewrite cft_objects, L. reflexivity.
Qed.

(* a 2.0 custom object: no spec_version in the data; detection says 2.0 unless the same name is a 2.1 observable *)
Lemma parse_default_object_20 : forall vt r q r' ops has_id ac exts,
  decorate vt r q = (r', Done) -> r_kind q = Objects -> r_ver q = V20 -> r_name q <> s_bundle ->
  (has_id = false \/ lookup (state_after vt r' ops) V21 Observables (r_name q) = None) ->
  parse_dispatch (state_after vt r' ops) (r_name q) None has_id None ac exts = DClass (r_cls q).
Proof.
  intros vt r q r' ops has_id ac exts D K V NB H.
  pose proof (lookup_registered_after vt r q r' ops D) as L. rewrite K, V in L.
  unfold parse_dispatch, effective_version, detect_spec_version.
  assert (E : (if negb has_id then Some s_v20
               else if ustr_eqb (r_name q) s_bundle then None
                    else match lookup (state_after vt r' ops) V21 Observables (r_name q) with
                         | Some _ => Some s_v21 | None => Some s_v20 end) = Some s_v20).
  { destruct H as [-> | H]; [reflexivity|]. destruct has_id; simpl; auto. rewrite (not_bundle _ NB), H. reflexivity. }
  rewrite E. change s_v20 with (version_text V20). rewrite cft_objects, L. reflexivity.
Qed.

(* a 2.1 custom observable: with an id and no spec_version the detection itself consults the 2.1
   observables registry -- and finds the registration *)
Lemma parse_default_observable_21 : forall vt r q r' ops specv ac,
  decorate vt r q = (r', Done) -> r_kind q = Observables -> r_ver q = V21 -> r_name q <> s_bundle ->
  (specv = None \/ specv = Some s_v21) ->
  parse_observable_dispatch (state_after vt r' ops) (r_name q) specv true None ac = DClass (r_cls q).
Proof.
  intros vt r q r' ops specv ac D K V NB H.
  pose proof (lookup_registered_after vt r q r' ops D) as L. rewrite K, V in L.
  unfold parse_observable_dispatch, effective_version, detect_spec_version. rewrite (not_bundle _ NB).
  destruct H as [-> | ->]; simpl; rewrite ?L; change s_v21 with (version_text V21); rewrite cft_observables, L; reflexivity.
Qed.

(* a 2.0 custom observable: no id, no spec_version *)
Lemma parse_default_observable_20 : forall vt r q r' ops ac,
  decorate vt r q = (r', Done) -> r_kind q = Observables -> r_ver q = V20 ->
  parse_observable_dispatch (state_after vt r' ops) (r_name q) None false None ac = DClass (r_cls q).
Proof.
  intros vt r q r' ops ac D K V.
  pose proof (lookup_registered_after vt r q r' ops D) as L. rewrite K, V in L.
  unfold parse_observable_dispatch, effective_version, detect_spec_version. simpl.
  change s_v20 with (version_text V20). rewrite cft_observables, L. reflexivity.
Qed.

(* markings and extensions: what MarkingDefinition.__init__ / ExtensionsProperty.clean dispatch to *)
Lemma marking_dispatch_registered_lemma : forall vt r q r' ops,
  decorate vt r q = (r', Done) -> r_kind q = Markings ->
  marking_dispatch (state_after vt r' ops) (r_ver q) (r_name q) = DClass (r_cls q).
Proof.
  intros vt r q r' ops D K. pose proof (lookup_registered_after vt r q r' ops D) as L. rewrite K in L.
  unfold marking_dispatch. rewrite L. reflexivity.
Qed.

Lemma extension_dispatch_registered_lemma : forall vt r q r' ops ac ok,
  decorate vt r q = (r', Done) -> r_kind q = Extensions ->
  extension_dispatch (state_after vt r' ops) (r_ver q) (r_name q) ac ok = DClass (r_cls q).
Proof.
  intros vt r q r' ops ac ok D K. pose proof (lookup_registered_after vt r q r' ops D) as L. rewrite K in L.
  unfold extension_dispatch. rewrite L. reflexivity.
Qed.

(* an unregistered marking / extension name is dispatched to no class *)
Lemma marking_dispatch_unregistered_lemma : forall r V n, lookup r V Markings n = None -> marking_dispatch r V n = DExc EValue.
Proof. intros. unfold marking_dispatch. rewrite H. reflexivity. Qed.

Lemma extension_dispatch_unregistered_lemma : forall r V n ac ok, lookup r V Extensions n = None ->
  forall c, extension_dispatch r V n ac ok <> DClass c.
Proof.
  intros r V n ac ok H c. unfold extension_dispatch. rewrite H.
  destruct (ustr_prefix s_extdef n), ok, ac; discriminate.
Qed.

(* Proofs/C14SchemaAgree.v -- the schema interpreter's own model of
   detect_spec_version (Model/Schema.v `detect_version`, used by C01/C03 for the
   class choice) and Model/VersionDetect.v `detect` agree wherever the former
   produces a version: same registry (the 2.1 observable keys of the world),
   same variant of the bundle-without-objects repair.  Neither model is edited. *)
From Coq Require Import NArith ZArith List String Bool.
From V Require Import Base.UString Base.Json Model.SchemaTypes Model.PyBase Model.Schema
  Model.VersionDetect Proofs.C14Detect.
Import ListNotations.

Definition vstr (V : ver) : ustring := match V with V20 => v20 | V21 => v21 end.
Definition obs21_of (w : world) : list ustring := map fst (robservables (wreg21 w)).

Lemma alookup_jlookup : forall k (m : list (ustring * jvalue)), Schema.alookup k m = jlookup k m.
Proof. intros k m. induction m as [|[k' v] r IH]; [reflexivity|]. simpl. destruct (ustr_eqb k k'); [reflexivity|exact IH]. Qed.

Lemma amem_jlookup : forall k (m : list (ustring * jvalue)),
  Schema.amem k m = match jlookup k m with Some _ => true | None => false end.
Proof. intros k m. unfold Schema.amem. rewrite alookup_jlookup. reflexivity. Qed.

Lemma amem_umem : forall t (l : list (ustring * ustring)), Schema.amem t l = umem t (map fst l).
Proof.
  intros t l. unfold Schema.amem, umem. induction l as [|[k v] r IH]; [reflexivity|].
  simpl. destruct (ustr_eqb t k); [reflexivity|exact IH].
Qed.

Lemma bundle_test : forall ty, jvalue_eqb ty (JStr (u "bundle")) = is_bundle_type ty.
Proof. destruct ty; reflexivity. Qed.

Ltac kill := intros; match goal with H : _ = _ |- _ => solve [discriminate H | cbn in H; discriminate H] end.

Section Agree.
Variable vr : variant.
Variable w : world.
Variable md : dmode.
Hypothesis Hmode : vr_detect_default vr = bundle_default md.

Local Notation D := (VersionDetect.detect md (obs21_of w)).

Lemma members_agree : forall g ne objs V,
  (forall o V', g o = Ok (Some V') -> D (JObj o) = DVal (JStr (vstr V'))) ->
  Schema.detect_members vr g ne objs = Ok (Some V) ->
  V = V21 /\ Forall is_ver (map D objs) /\ (objs = [] -> ne = true \/ bundle_default md = true).
Proof.
  intros g ne objs V Hg. induction objs as [|x r IH]; intro H.
  - simpl in H. split; [|split; [constructor|intros _]].
    + destruct ne; [inversion H; reflexivity|]. destruct (vr_detect_default vr); inversion H; reflexivity.
    + destruct ne; [left; reflexivity|]. right. rewrite <- Hmode. destruct (vr_detect_default vr); [reflexivity|discriminate].
  - destruct x; try discriminate. simpl in H. destruct (g m) as [[V'|]| |] eqn:Hgm; try discriminate.
    simpl in H. destruct (IH H) as [HV [Hall _]]. split; [exact HV|split; [|discriminate]].
    cbn [map]. constructor; [|exact Hall]. rewrite (Hg m V' Hgm). destruct V'; [left|right]; reflexivity.
Qed.

Lemma dv_S : forall f d, Schema.detect_version vr w (S f) d =
  match jlookup k_type d with
  | None => if vr_detect_notype_parse vr then Err EParse else Err EKeyError
  | Some ty =>
    match jlookup k_spec_version d with
    | Some sv =>
      if is_bundle_type ty then Ok (Some V20)
      else match sv with
           | JStr s => if ustr_eqb s v21 then Ok (Some V21) else if ustr_eqb s v20 then Ok (Some V20) else Ok None
           | JArr _ | JObj _ => Err ETypeError
           | _ => Ok None
           end
    | None =>
      if negb (match jlookup k_id d with Some _ => true | None => false end) then Ok (Some V20)
      else if is_bundle_type ty then
        match jlookup k_objects d with
        | None => if vr_detect_default vr then Ok (Some V21) else Err EKeyError
        | Some (JArr objs) =>
          Schema.detect_members vr (Schema.detect_version vr w f) (match objs with [] => false | _ => true end) objs
        | Some _ => Unmodelled
        end
      else match ty with
           | JStr t => Ok (Some (if umem t (obs21_of w) then V21 else V20))
           | JArr _ | JObj _ => Err ETypeError
           | _ => Ok (Some V20)
           end
    end
  end.
Proof.
  intros f d.
  transitivity (
      match Schema.alookup (u "type") d with
      | None => if vr_detect_notype_parse vr then Err EParse else Err EKeyError
      | Some ty =>
        match Schema.alookup (u "spec_version") d with
        | Some sv =>
          if jvalue_eqb ty (JStr (u "bundle")) then Ok (Some V20)
          else match sv with
               | JStr s => if ustr_eqb s (u "2.1") then Ok (Some V21) else if ustr_eqb s (u "2.0") then Ok (Some V20)
                           else Ok None
               | JArr _ | JObj _ => Err ETypeError
               | _ => Ok None
               end
        | None =>
          if negb (Schema.amem (u "id") d) then Ok (Some V20)
          else if jvalue_eqb ty (JStr (u "bundle")) then
            match Schema.alookup (u "objects") d with
            | None => if vr_detect_default vr then Ok (Some V21) else Err EKeyError
            | Some (JArr objs) =>
              Schema.detect_members vr (Schema.detect_version vr w f) (match objs with [] => false | _ => true end) objs
            | Some _ => Unmodelled
            end
          else match ty with
               | JStr t => Ok (Some (if Schema.amem t (robservables (wreg21 w)) then V21 else V20))
               | JArr _ | JObj _ => Err ETypeError
               | _ => Ok (Some V20)
               end
        end
      end); [reflexivity|].
  rewrite !alookup_jlookup, amem_jlookup.
  change (u "type") with k_type. change (u "spec_version") with k_spec_version.
  change (u "id") with k_id. change (u "objects") with k_objects.
  change (u "2.1") with v21. change (u "2.0") with v20.
  destruct (jlookup k_type d) as [ty|]; [|reflexivity].
  rewrite !bundle_test, ?alookup_jlookup.
  destruct (jlookup k_spec_version d); [reflexivity|].
  destruct (jlookup k_id d); cbn [negb]; [|reflexivity].
  destruct (is_bundle_type ty); [reflexivity|].
  destruct ty; try reflexivity. rewrite amem_umem. reflexivity.
Qed.

Theorem schema_detect_agrees_pf : forall fuel d,
  (forall V, Schema.detect_version vr w fuel d = Ok (Some V) -> D (JObj d) = DVal (JStr (vstr V))) /\
  (Schema.detect_version vr w fuel d = Ok None ->
     exists sv, D (JObj d) = DVal sv /\ sv <> JStr v20 /\ sv <> JStr v21).
Proof.
  induction fuel as [|f IH]; intro d; [split; simpl; kill|].
  rewrite detect_obj, dv_S. unfold detect_body.
  destruct (jlookup k_type d) as [ty|]; [|destruct (vr_detect_notype_parse vr); split; kill].
  destruct (jlookup k_spec_version d) as [sv|].
  - destruct (is_bundle_type ty).
    + split; [intros V H; inversion H; reflexivity|kill].
    + destruct sv as [| | | |s| |]; try (split; [kill|]).
      all: try (intros _; eexists; split; [reflexivity|split; discriminate]).
      all: try (kill).
      destruct (ustr_eqb s v21) eqn:E1; [|destruct (ustr_eqb s v20) eqn:E0].
      * apply ustr_eqb_eq in E1. subst s. split; [intros V H; inversion H; reflexivity|kill].
      * apply ustr_eqb_eq in E0. subst s. split; [intros V H; inversion H; reflexivity|kill].
      * split; [kill|]. intros _. exists (JStr s). split; [reflexivity|].
        split; intro Hc; inversion Hc; subst s; [rewrite ustr_eqb_refl in E0|rewrite ustr_eqb_refl in E1]; discriminate.
  - destruct (jlookup k_id d) as [i|]; cbn [negb].
    + destruct (is_bundle_type ty).
      * unfold objs_res. destruct (jlookup k_objects d) as [ov|].
        -- destruct ov as [| | | | |objs|]; try (split; kill).
           split; [|intro H].
           ++ intros V H. destruct (members_agree _ _ _ _ (fun o V' => proj1 (IH o) V') H) as [-> [Hall Hnil]].
              destruct objs as [|x r].
              ** destruct (Hnil eq_refl) as [Hc|Hc]; [discriminate|]. unfold empty_max. rewrite Hc. reflexivity.
              ** apply max_with_21_ver. apply seq_max_vers; [exact Hall|auto|left; discriminate].
           ++ exfalso. clear -H Hmode IH.
              assert (forall g ne l, Schema.detect_members vr g ne l <> Ok None) as Hno.
              { intros g ne l. induction l as [|x r IHl]; simpl.
                - destruct ne; [discriminate|]. destruct (vr_detect_default vr); discriminate.
                - destruct x; try discriminate. destruct (g m) as [[V'|]| |]; simpl; try discriminate. exact IHl. }
              exact (Hno _ _ _ H).
        -- rewrite Hmode. destruct (bundle_default md); split; try (kill).
           intros V H. inversion H. reflexivity.
      * destruct ty as [| | | |t| |]; try (split; [intros V H; inversion H; reflexivity|kill]);
          try (split; kill).
        split; [|kill].
        intros V H. inversion H. destruct (umem t (obs21_of w)); reflexivity.
    + split; [intros V H; inversion H; reflexivity|kill].
Qed.
End Agree.

Lemma variants_line_up_pf :
  vr_detect_default variant_pinned = bundle_default pinned_mode /\
  vr_detect_default variant_repaired = bundle_default (mkMode true true).
Proof. split; reflexivity. Qed.

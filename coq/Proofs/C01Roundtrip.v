(* Proofs/C01Roundtrip.v -- the knot: by induction over the fuel of Schema.run, for every class of
   a set `ids` that is closed under nesting and passes the table conditions (closed_ok, evaluated
   by the kernel on the generated tables), the constructor is idempotent on its own output:
     run fuel (RConstruct kid allow interop kw vrefs) = Ok o ->
     run fuel (RConstruct kid allow interop (omem o) vrefs) = Ok o
   on plain JSON input.                                                              *)
From Coq Require Import NArith ZArith List String Bool Lia Permutation.
From V Require Import Base.UString Base.Json Model.SchemaTypes Model.PyBase Model.Schema.
From V Require Import Proofs.C01Basics Proofs.C01Kinds Proofs.C01Float Proofs.C01KindsAll Proofs.C01Sort Proofs.C01Object.
Import ListNotations.

Fixpoint nodupb (l : list ustring) : bool :=
  match l with [] => true | x :: r => negb (mem_ustr x r) && nodupb r end.

Lemma nodupb_NoDup : forall l, nodupb l = true -> NoDup l.
Proof.
  induction l as [| x r IH]; cbn [nodupb]; intros H; constructor.
  - apply andb_true_iff in H. destruct H as [H _]. apply negb_true_iff in H. intros Hin.
    apply (proj2 (mem_ustr_In x r)) in Hin. congruence.
  - apply IH. apply andb_true_iff in H. tauto.
Qed.

(* class-specific __init__ forms the theorem covers so far: those that leave the keyword arguments alone *)
Definition init_ok (vr : variant) (i : preinit) : bool :=
  match i with
  | INone | IObservedDataWarn | IBundleObjects => true
  | IPositional _ => vr_positional_none vr      (* the repaired form: only a null value is dropped *)
  | _ => false
  end.

(* the keyword filter of the positional __init__ form *)
Definition pos_filter (vr : variant) (names : list ustring) (kw : list (ustring * jvalue)) : list (ustring * jvalue) :=
  filter (fun kv => negb (mem_ustr (fst kv) names) ||
                    (if vr_positional_none vr then negb (jvalue_eqb (snd kv) JNull) else truthy (snd kv))) kw.

Lemma pos_filter_id : forall vr names kw,
  vr_positional_none vr = true -> (forall kv, In kv kw -> jvalue_eqb (snd kv) JNull = false) -> pos_filter vr names kw = kw.
Proof.
  intros vr names kw Hv H. unfold pos_filter. apply filter_all_true. intros kv Hin. rewrite Hv. rewrite (H kv Hin).
  cbn [negb]. apply orb_true_r.
Qed.

Lemma plain_members_nonnull : forall kw, plain_dict kw = true -> forall kv, In kv kw -> jvalue_eqb (snd kv) JNull = false.
Proof.
  intros kw Hp kv Hin. unfold plain_dict in Hp. rewrite forallb_forall in Hp. specialize (Hp kv Hin).
  unfold plain_member in Hp. apply andb_true_iff in Hp. destruct Hp as [Hp _]. apply andb_true_iff in Hp. destruct Hp as [_ Hn].
  apply negb_true_iff in Hn. destruct (snd kv); auto; discriminate.
Qed.

Definition is_sco21 (c : cls) : bool :=
  match cfamily c, cver c with FSco, V21 => true | _, _ => false end.

Section Knot.
  Variable vr : variant.
  Variable ev : env.
  Variable w : world.
  Variable pattern_ok : ver -> ustring -> bool.
  Variable selectors_ok : list (ustring * pval) -> pval -> result bool.

  Hypothesis Hpad : vr_year_pad vr = true.

  (* the proved classes, by id *)
  Variable ids : list ustring.

  (* a class that may be nested (embedded object, list of objects): proved, and not a 2.1 observable
     (whose constructor rewrites a missing id afterwards) *)
  Definition nestable (cid0 : ustring) : bool :=
    mem_ustr cid0 ids &&
    match find_class (wclasses w) cid0 with Some c => negb (is_sco21 c) | None => false end.

  Definition class_ok (c : cls) : bool :=
    nodupb (map sname (cslots c)) && forallb (slot_ok vr nestable) (cslots c) && init_ok vr (cinit c) &&
    (negb (is_sco21 c) ||
     match slot_of c (u "id") with Some sl => match sdef sl with DUuid4 => true | _ => false end | None => false end).

  Definition closed_ok : bool :=
    forallb (fun cid0 => match find_class (wclasses w) cid0 with Some c => class_ok c | None => false end) ids.

  Hypothesis Hclosed : closed_ok = true.

  Lemma ids_class_ok : forall kid c, mem_ustr kid ids = true -> find_class (wclasses w) kid = Some c -> class_ok c = true.
  Proof.
    intros kid c Hm Hf. unfold closed_ok in Hclosed. rewrite forallb_forall in Hclosed.
    apply mem_ustr_In in Hm. specialize (Hclosed kid Hm). rewrite Hf in Hclosed. exact Hclosed.
  Qed.

  Lemma ids_found : forall kid, mem_ustr kid ids = true -> exists c, find_class (wclasses w) kid = Some c.
  Proof.
    intros kid Hm. unfold closed_ok in Hclosed. rewrite forallb_forall in Hclosed.
    apply mem_ustr_In in Hm. specialize (Hclosed kid Hm). destruct (find_class (wclasses w) kid); [eauto | discriminate].
  Qed.

  Notation RUN := (run vr ev w pattern_ok selectors_ok).

  (* a 2.1 observable is covered when its id is given (as it always is in serialized text) *)
  Definition id_given (kid : ustring) (kw : list (ustring * jvalue)) : bool :=
    match find_class (wclasses w) kid with
    | Some c => negb (is_sco21 c) || amem (u "id") kw
    | None => true
    end.

  Definition claim (fuel : nat) : Prop :=
    forall kid allow interop kw vrefs o,
      mem_ustr kid ids = true -> plain_dict kw = true -> id_given kid kw = true ->
      RUN fuel (RConstruct kid allow interop kw vrefs) = Ok o ->
      encode false o = JObj (omem o) /\ reserved_kw (omem o) = Ok tt /\
      RUN fuel (RConstruct kid allow interop (omem o) vrefs) = Ok o /\
      plain_dict (omem o) = true.

  Lemma claim_rc : forall f, claim f ->
    rc_idem (fun k a i kw0 => RUN f (RConstruct k a i kw0 None)) nestable.
  Proof.
    intros f Hc cid0 a i d o Hn Hp H. unfold nestable in Hn. apply andb_true_iff in Hn. destruct Hn as [Hm Hs].
    apply (Hc cid0 a i d None o Hm Hp); auto.
    unfold id_given. destruct (find_class (wclasses w) cid0); auto. rewrite Hs. reflexivity.
  Qed.

  Lemma reserved_split : forall (kw : list (ustring * jvalue)),
    amem (u "_valid_refs") kw || amem (u "allow_custom") kw || amem (u "interoperability") kw || amem (u "self") kw = false ->
    amem (u "_valid_refs") kw = false /\ amem (u "allow_custom") kw = false /\
    amem (u "interoperability") kw = false /\ amem (u "self") kw = false.
  Proof.
    intros kw H. apply orb_false_iff in H. destruct H as [H H4]. apply orb_false_iff in H. destruct H as [H H3].
    apply orb_false_iff in H. destruct H as [H1 H2]. auto.
  Qed.

  (* what a successful constructor run is: the class and the generic constructor over the recursive calls *)
  Lemma run_construct_cg : forall f kid allow interop kw vrefs o,
    mem_ustr kid ids = true -> plain_dict kw = true -> id_given kid kw = true ->
    RUN (S f) (RConstruct kid allow interop kw vrefs) = Ok o ->
    exists c, find_class (wclasses w) kid = Some c /\ class_ok c = true /\
      construct_generic vr ev w pattern_ok selectors_ok
        (fun k a i kw0 => RUN f (RConstruct k a i kw0 None))
        (fun a i d => RUN f (RParse a i None d))
        (fun vv refs a d => RUN f (RParseObs (Some vv) refs a false d))
        (S f) c allow interop kw []
        (match cfamily c with FSco => Some match vrefs with Some r => r | None => [] end | _ => None end) = Ok o.
  Proof.
    intros f kid allow interop kw vrefs o Hm Hpl Hid H. cbn [run] in H.
    destruct (find_class (wclasses w) kid) as [c |] eqn:Ef; try discriminate.
    exists c. split; [reflexivity |]. pose proof (ids_class_ok kid c Hm Ef) as Hok. split; [exact Hok |].
    unfold class_ok in Hok.
    apply andb_true_iff in Hok. destruct Hok as [Hok _]. apply andb_true_iff in Hok. destruct Hok as [_ Hinit].
    destruct (amem (u "_valid_refs") kw || amem (u "allow_custom") kw || amem (u "interoperability") kw || amem (u "self") kw);
      try discriminate.
    unfold bind in H.
    destruct (cinit c) as [| names | | | | |]; try discriminate.
    2:{ cbn [init_ok] in Hinit.
        match type of H with context [filter ?g kw] =>
          change (filter g kw) with (pos_filter vr names kw) in H end.
        rewrite (pos_filter_id vr names kw Hinit (plain_members_nonnull kw Hpl)) in H.
        match type of H with match ?g with _ => _ end = _ => destruct g as [obj | |] eqn:Eg; try discriminate end.
        unfold id_given in Hid; rewrite Ef in Hid; unfold is_sco21 in Hid.
        destruct obj; try (inv H; reflexivity).
        destruct (cfamily c); try (inv H; reflexivity); destruct (cver c); try (inv H; reflexivity).
        cbn [negb orb] in Hid; rewrite Hid in H; inv H; reflexivity. }
    all: match type of H with match ?g with _ => _ end = _ => destruct g as [obj | |] eqn:Eg; try discriminate end.
    all: unfold id_given in Hid; rewrite Ef in Hid; unfold is_sco21 in Hid.
    all: destruct obj; try (inv H; reflexivity).
    all: destruct (cfamily c); try (inv H; reflexivity); destruct (cver c); try (inv H; reflexivity).
    all: cbn [negb orb] in Hid; rewrite Hid in H; inv H; reflexivity.
  Qed.

  Theorem run_construct_idem : forall fuel, claim fuel.
  Proof.
    induction fuel as [| f IH]; intros kid allow interop kw vrefs o Hm Hp Hid H.
    - cbn [run] in H. discriminate.
    - cbn [run] in H |- *.
      destruct (find_class (wclasses w) kid) as [c |] eqn:Ef; try discriminate.
      pose proof (ids_class_ok kid c Hm Ef) as Hok. unfold class_ok in Hok.
      apply andb_true_iff in Hok. destruct Hok as [Hok Hidslot]. apply andb_true_iff in Hok. destruct Hok as [Hok Hinit].
      apply andb_true_iff in Hok. destruct Hok as [Hnd Hslots]. apply nodupb_NoDup in Hnd.
      destruct (amem (u "_valid_refs") kw || amem (u "allow_custom") kw || amem (u "interoperability") kw || amem (u "self") kw) eqn:Eres;
        try discriminate.
      destruct (reserved_split kw Eres) as [R1 [R2 [R3 R4]]].
      set (vrf := match cfamily c with FSco => Some match vrefs with Some r => r | None => [] end | _ => None end) in *.
      set (rc := fun k a i kw0 => RUN f (RConstruct k a i kw0 None)) in *.
      set (rp := fun a i d => RUN f (RParse a i None d)) in *.
      set (ro := fun vv refs a d => RUN f (RParseObs (Some vv) refs a false d)) in *.
      pose proof (claim_rc f IH) as Hrc. fold rc in Hrc.
      unfold bind in H.
      assert (Hgen : exists obj,
                construct_generic vr ev w pattern_ok selectors_ok rc rp ro (S f) c allow interop kw [] vrf = Ok obj /\
                match obj, cfamily c, cver c with
                | PObject ocid inner dfl hc, FSco, V21 =>
                  if amem (u "id") kw then Ok obj
                  else if existsb (fun p => amem p inner) (cidcontrib c) then
                    match ctype c with
                    | Some t => Ok (PObject ocid (aset (u "id") (PJ (JStr (t ++ u "--" ++ e_uuid5 ev))) inner) dfl hc)
                    | None => Unmodelled
                    end
                  else Ok obj
                | _, _, _ => Ok obj
                end = Ok o).
      { destruct (cinit c) as [| names | | | | |]; try discriminate.
        2:{ cbn [init_ok] in Hinit.
            match type of H with context [filter ?g kw] => change (filter g kw) with (pos_filter vr names kw) in H end.
            rewrite (pos_filter_id vr names kw Hinit (plain_members_nonnull kw Hp)) in H.
            match type of H with match ?g with _ => _ end = _ => destruct g as [obj | |] eqn:Eg; try discriminate end.
            exists obj; auto. }
        all: match type of H with match ?g with _ => _ end = _ => destruct g as [obj | |] eqn:Eg; try discriminate end;
          exists obj; auto. }
      clear H. destruct Hgen as [obj [Hcg Hpost]].
      destruct (cg_idem vr ev w pattern_ok selectors_ok rc rp ro nestable Hpad Hrc c allow interop vrf Hnd Hslots (S f) kw obj Hp Hcg)
        as [Sv [hc [Eobj [Hre [Hkeys Hgiven]]]]].
      subst obj.
      assert (Eo : o = PObject (cid c) Sv (defaulted_names c Sv) hc).
      { unfold id_given in Hid. rewrite Ef in Hid. unfold is_sco21 in Hid.
        destruct (cfamily c); try (inv_ok Hpost; reflexivity).
        destruct (cver c); try (inv_ok Hpost; reflexivity).
        cbn [negb orb] in Hid. rewrite Hid in Hpost. inv_ok Hpost. reflexivity. }
      subst o.
      assert (Eom : omem (PObject (cid c) Sv (defaulted_names c Sv) hc) = written c Sv).
      { unfold omem. rewrite encode_obj. reflexivity. }
      rewrite Eom.
      assert (Hresv : forall r, In r reserved_names -> amem r kw = false -> amem r (written c Sv) = false).
      { intros r Hr Hk. destruct (amem r (written c Sv)) eqn:Ea; auto. exfalso.
        destruct (Hkeys r Ea) as [Hin | Hin]; [| congruence].
        unfold PN in Hin. apply in_map_iff in Hin. destruct Hin as [sl [En Hsl]].
        rewrite forallb_forall in Hslots. pose proof (Hslots sl Hsl) as Hs. unfold slot_ok in Hs.
        apply andb_true_iff in Hs. destruct Hs as [Hs _]. apply andb_true_iff in Hs. destruct Hs as [_ Hs].
        apply negb_true_iff in Hs. rewrite En in Hs. apply (proj2 (mem_ustr_In r reserved_names)) in Hr. congruence. }
      assert (In1 : In (u "_valid_refs") reserved_names) by (unfold reserved_names; cbn [map In]; repeat (try (left; reflexivity); right)).
      assert (In2 : In (u "allow_custom") reserved_names) by (unfold reserved_names; cbn [map In]; repeat (try (left; reflexivity); right)).
      assert (In3 : In (u "interoperability") reserved_names) by (unfold reserved_names; cbn [map In]; repeat (try (left; reflexivity); right)).
      assert (In4 : In (u "self") reserved_names) by (unfold reserved_names; cbn [map In]; repeat (try (left; reflexivity); right)).
      split; [rewrite encode_obj; reflexivity |].
      assert (Hplw : plain_dict (written c Sv) = true).
      { destruct (cg_written_plain vr ev w pattern_ok selectors_ok rc rp ro nestable Hpad Hrc c allow interop vrf Hnd Hslots (S f) kw _ Hp Hcg)
          as [S2 [hc2 [E2 Hpl2]]]. inversion E2; subst. exact Hpl2. }
      split; [| split; [| exact Hplw]].
      + unfold reserved_kw. rewrite (Hresv _ In2 R2), (Hresv _ In3 R3), (Hresv _ In4 R4). reflexivity.
      + rewrite (Hresv _ In1 R1), (Hresv _ In2 R2), (Hresv _ In3 R3), (Hresv _ In4 R4). cbn [orb].
        fold vrf. fold rc. fold rp. fold ro.
        unfold bind.
        destruct (cinit c) as [| names | | | | |]; try discriminate.
        2: (cbn [init_ok] in Hinit;
            match goal with |- context [filter ?g (written c Sv)] => change (filter g (written c Sv)) with (pos_filter vr names (written c Sv)) end;
            rewrite (pos_filter_id vr names (written c Sv) Hinit
                       (cg_written_members_nonnull vr ev w pattern_ok selectors_ok rc rp ro nestable Hrc c allow interop vrf Hnd Hslots
                          (S f) kw Sv _ hc Hp Hcg))).
        all: rewrite Hre.
        all: unfold id_given in Hid; rewrite Ef in Hid; unfold is_sco21 in Hid, Hidslot.
        all: destruct (cfamily c); try reflexivity; destruct (cver c); try reflexivity.
        all: cbn [negb orb] in Hid, Hidslot.
        all: assert (Hidw : amem (u "id") (written c Sv) = true);
          [ unfold amem; rewrite alookup_written;
            pose proof (Hgiven _ Hid) as Hs; unfold amem in Hs;
            destruct (alookup (u "id") Sv) as [v0 |] eqn:Ev; try discriminate;
            destruct (mem_ustr (u "id") (defaulted_names c Sv)) eqn:Ed; auto;
            exfalso;
            destruct (mem_defaulted vr nestable c Hnd Hslots _ _ Ed) as [sl [b [E1 [E2 _]]]];
            rewrite E1 in Hidslot; rewrite E2 in Hidslot; discriminate
          | rewrite Hidw; reflexivity ].
  Qed.
End Knot.

(* ------------------------------------------------------------------ the proved classes of a world *)
(* greatest set of class ids closed under nesting whose tables pass class_ok: start from every class
   and drop those that fail, a few rounds (the nesting depth of the tables is small) *)
Definition keep_ok (vr : variant) (w : world) (ids : list ustring) : list ustring :=
  filter (fun cid0 => match find_class (wclasses w) cid0 with Some c => class_ok vr w ids c | None => false end) ids.

Fixpoint refine_ids (n : nat) (vr : variant) (w : world) (ids : list ustring) : list ustring :=
  match n with O => ids | S k => refine_ids k vr w (keep_ok vr w ids) end.

Definition proved_ids (vr : variant) (w : world) : list ustring := refine_ids 8 vr w (map cid (wclasses w)).

(* corollaries in the vocabulary of the property *)
Section Corollaries.
  Variable vr : variant.
  Variable ev : env.
  Variable w : world.
  Variable pattern_ok : ver -> ustring -> bool.
  Variable selectors_ok : list (ustring * pval) -> pval -> result bool.
  Hypothesis Hpad : vr_year_pad vr = true.
  Variable ids : list ustring.
  Hypothesis Hclosed : closed_ok vr w ids = true.

  (* constructing from the serialization gives the same object (same class, members, defaulted list, flag) *)
  Theorem construct_roundtrip : forall fuel kid allow interop kw vrefs o,
    mem_ustr kid ids = true -> plain_dict kw = true -> id_given w kid kw = true ->
    run vr ev w pattern_ok selectors_ok fuel (RConstruct kid allow interop kw vrefs) = Ok o ->
    run vr ev w pattern_ok selectors_ok fuel (RConstruct kid allow interop (omem o) vrefs) = Ok o.
  Proof.
    intros fuel kid allow interop kw vrefs o Hm Hp Hid H.
    destruct (run_construct_idem vr ev w pattern_ok selectors_ok Hpad ids Hclosed fuel kid allow interop kw vrefs o Hm Hp Hid H) as [_ [_ [Hr _]]]. exact Hr.
  Qed.

  (* ... hence serializing that object again gives the same ordered members, under every option set *)
  Theorem reserialize_identical_construct : forall fuel kid allow interop kw vrefs o o' (opts : Serialize.sopts),
    mem_ustr kid ids = true -> plain_dict kw = true -> id_given w kid kw = true ->
    run vr ev w pattern_ok selectors_ok fuel (RConstruct kid allow interop kw vrefs) = Ok o ->
    run vr ev w pattern_ok selectors_ok fuel (RConstruct kid allow interop (omem o) vrefs) = Ok o' ->
    Serialize.serialize_value opts o' = Serialize.serialize_value opts o.
  Proof.
    intros fuel kid allow interop kw vrefs o o' opts Hm Hp Hid H H'.
    rewrite (construct_roundtrip fuel kid allow interop kw vrefs o Hm Hp Hid H) in H'. inversion H'. reflexivity.
  Qed.
End Corollaries.

(* Proofs/C01Roundtrip.v -- the knot: by induction over the fuel of Schema.run, for every class of
   a set `ids` that is closed under nesting and passes the table conditions (closed_ok, evaluated
   by the kernel on the generated tables), the constructor is idempotent on its own output:
     run fuel (RConstruct kid allow interop kw vrefs) = Ok o ->
     run fuel (RConstruct kid allow interop (omem o) vrefs) = Ok o
   on plain JSON input.                                                              *)
From Coq Require Import NArith ZArith List String Bool Lia Permutation.
From V Require Import Base.UString Base.Json Model.SchemaTypes Model.PyBase Model.Schema.
From V Require Import Proofs.C01Basics Proofs.C01Kinds Proofs.C01Float Proofs.C01KindsAll Proofs.C01Sort Proofs.C01Object
  Proofs.C04Strict Proofs.C01Marking.
Import ListNotations.

Fixpoint nodupb (l : list ustring) : bool :=
  match l with [] => true | x :: r => negb (mem_ustr x r) && nodupb r end.

Lemma nodupb_NoDup : forall l, nodupb l = true -> NoDup l.
Proof.
  induction l as [| x r IH]; cbn [nodupb]; intros H; constructor.
  - apply andb_true_iff in H. destruct H as [H _]. apply negb_true_iff in H. intros Hin.
    apply (proj2 (mem_ustr_In x r)) in Hin. congruence.
  - apply IH. apply andb_true_iff in H. tauto.
Qed.

(* class-specific __init__ forms the theorem covers so far: those that leave the keyword arguments alone *)
Definition init_ok (vr : variant) (i : preinit) : bool :=
  match i with
  | INone | IObservedDataWarn | IBundleObjects => true
  | IPositional _ => vr_positional_none vr      (* the repaired form: only a null value is dropped *)
  | _ => false
  end.

(* the keyword filter of the positional __init__ form *)
Definition pos_filter (vr : variant) (names : list ustring) (kw : list (ustring * jvalue)) : list (ustring * jvalue) :=
  filter (fun kv => negb (mem_ustr (fst kv) names) ||
                    (if vr_positional_none vr then negb (jvalue_eqb (snd kv) JNull) else truthy (snd kv))) kw.

Lemma pos_filter_id : forall vr names kw,
  vr_positional_none vr = true -> (forall kv, In kv kw -> jvalue_eqb (snd kv) JNull = false) -> pos_filter vr names kw = kw.
Proof.
  intros vr names kw Hv H. unfold pos_filter. apply filter_all_true. intros kv Hin. rewrite Hv. rewrite (H kv Hin).
  cbn [negb]. apply orb_true_r.
Qed.

Lemma plain_members_nonnull : forall kw, plain_dict kw = true -> forall kv, In kv kw -> jvalue_eqb (snd kv) JNull = false.
Proof.
  intros kw Hp kv Hin. unfold plain_dict in Hp. rewrite forallb_forall in Hp. specialize (Hp kv Hin).
  unfold plain_member in Hp. apply andb_true_iff in Hp. destruct Hp as [Hp _]. apply andb_true_iff in Hp. destruct Hp as [_ Hn].
  apply negb_true_iff in Hn. destruct (snd kv); auto; discriminate.
Qed.

Definition is_sco21 (c : cls) : bool :=
  match cfamily c, cver c with FSco, V21 => true | _, _ => false end.


(* ------------------------------------------------------------------ what a generic constructor run gives, in one place *)
Lemma written_facts : forall vr ev w po so rcX rp ro PX (Hpad : vr_year_pad vr = true) (Hrc : rc_idem rcX ro PX) cX a i vrf
    (Hnd : NoDup (map sname (cslots cX))) (Hslots : forallb (slot_ok vr PX) (cslots cX) = true) fuel kw obj,
  plain_dict kw = true ->
  construct_generic vr ev w po so rcX rp ro fuel cX a i kw [] vrf = Ok obj ->
  exists Sv hc, obj = PObject (cid cX) Sv (defaulted_names cX Sv) hc /\
    construct_generic vr ev w po so rcX rp ro fuel cX a i (written cX Sv) [] vrf = Ok obj /\
    plain_dict (written cX Sv) = true /\
    (forall r, In r reserved_names -> amem r kw = false -> amem r (written cX Sv) = false) /\
    (forall n, amem n kw = true -> amem n Sv = true).
Proof.
  intros vr ev w po so rcX rp ro PX Hpad Hrc cX a i vrf Hnd Hslots fuel kw obj Hp Hcg.
  destruct (cg_idem vr ev w po so rcX rp ro PX Hpad Hrc cX a i vrf Hnd Hslots fuel kw obj Hp Hcg)
    as [Sv [hc [Eobj [Hre [Hkeys Hgiven]]]]].
  exists Sv, hc. split; [exact Eobj |]. split; [exact Hre |]. split; [| split; [| exact Hgiven]].
  - destruct (cg_written_plain vr ev w po so rcX rp ro PX Hpad Hrc cX a i vrf Hnd Hslots fuel kw _ Hp Hcg)
      as [S2 [hc2 [E2 Hpl2]]]. rewrite Eobj in E2. inversion E2; subst. exact Hpl2.
  - intros r Hr Hk. destruct (amem r (written cX Sv)) eqn:Ea; auto. exfalso.
    destruct (Hkeys r Ea) as [Hin | Hin]; [| congruence].
    unfold PN in Hin. apply in_map_iff in Hin. destruct Hin as [sl [En Hsl]].
    rewrite forallb_forall in Hslots. pose proof (Hslots sl Hsl) as Hs. unfold slot_ok in Hs.
    apply andb_true_iff in Hs. destruct Hs as [Hs _]. apply andb_true_iff in Hs. destruct Hs as [_ Hs].
    apply negb_true_iff in Hs. rewrite En in Hs. apply (proj2 (mem_ustr_In r reserved_names)) in Hr. congruence.
Qed.

(* a stored member that is not a defaulted optional is written *)
Lemma written_stored : forall vr PX cX (Hnd : NoDup (map sname (cslots cX))) (Hslots : forallb (slot_ok vr PX) (cslots cX) = true) Sv n v,
  alookup n Sv = Some v -> (forall b, v <> PJ (JBool b)) -> alookup n (written cX Sv) = Some (encode false v).
Proof.
  intros vr PX cX Hnd Hslots Sv n v Ev Hnb. rewrite alookup_written, Ev.
  destruct (mem_ustr n (defaulted_names cX Sv)) eqn:Ed; auto.
  destruct (mem_defaulted vr PX cX Hnd Hslots _ _ Ed) as [sl [b [_ [_ E3]]]]. rewrite Ev in E3. inversion E3.
  exfalso. eapply Hnb. eassumption.
Qed.

Lemma cg_object : forall vr ev w po so rc rp ro fuel c a i kw pre vrf o,
  construct_generic vr ev w po so rc rp ro fuel c a i kw pre vrf = Ok o -> exists ci S0 d h, o = PObject ci S0 d h.
Proof.
  intros vr ev w po so rc rp ro fuel c a i kw pre vrf o H. unfold construct_generic in H.
  walk H; inv H; eauto.
Qed.

Lemma run_construct_object : forall vr ev w po so fuel k a i kw vrefs o,
  run vr ev w po so fuel (RConstruct k a i kw vrefs) = Ok o -> exists ci S0 d h, o = PObject ci S0 d h.
Proof.
  intros vr ev w po so fuel k a i kw vrefs o H.
  destruct fuel as [| f]; cbn [run] in H; try discriminate.
  destruct (find_class (wclasses w) k) as [c |] eqn:Ef; try discriminate.
  destruct (amem (u "_valid_refs") kw || amem (u "allow_custom") kw || amem (u "interoperability") kw || amem (u "self") kw);
    try discriminate.
  unfold bind in H.
  match type of H with match ?g with _ => _ end = _ => destruct g as [obj | |] eqn:Eg; try discriminate end.
  assert (Hobj : exists ci S0 d h, obj = PObject ci S0 d h).
  { destruct (cinit c); try discriminate; try (eapply cg_object; exact Eg).
    walk Eg; try discriminate;
      match goal with Hg : construct_generic _ _ _ _ _ _ _ _ _ _ _ _ _ _ _ = Ok _ |- _ => eapply cg_object; exact Hg end. }
  destruct Hobj as [ci [S0 [d [h Eobj]]]]. subst obj.
  destruct (cfamily c); try (inv H; eauto; fail). destruct (cver c); try (inv H; eauto; fail).
  walk H; inv H; eauto.
Qed.

Lemma constr_all_In : forall (g : constr -> result unit) l k, constr_all g l = Ok tt -> In k l -> g k = Ok tt.
Proof.
  induction l as [| x r IH]; intros k H Hin; [contradiction |]. cbn [constr_all] in H. unfold bind in H.
  destruct (g x) as [[] | |] eqn:E; try discriminate. destruct Hin as [E2 | Hin]; [subst; exact E | apply IH; auto].
Qed.

(* a successful generic constructor run passed the class constraints on what it stored *)
Lemma cg_constraints : forall vr ev w po so rc rp ro fuel c a i kw pre vrf ci S0 d h k,
  construct_generic vr ev w po so rc rp ro fuel c a i kw pre vrf = Ok (PObject ci S0 d h) ->
  In k (ccons c) -> eval_constr vr po fuel c S0 k = Ok tt.
Proof.
  intros vr ev w po so rc rp ro fuel c a i kw pre vrf ci S0 d h k H Hin. unfold construct_generic in H.
  walk H; inv H;
    match goal with Hc : constr_all _ _ = Ok ?x |- _ => destruct x; apply (constr_all_In _ _ k Hc); apply in_or_app; right; exact Hin end.
Qed.

(* the 2.0 MarkingDefinition class with `created` at millisecond precision (the model's c_ms) *)
Definition md_ms (c : cls) : cls :=
  {| cid := cid c; cver := cver c; ctype := ctype c; cfamily := cfamily c;
     cslots := map (fun s => if ustr_eqb (sname s) (u "created")
                             then {| sname := sname s; skind := KTime PMilli CExact; sreq := sreq s; sdef := sdef s |}
                             else s) (cslots c);
     ccons := ccons c; cinit := cinit c; cidcontrib := cidcontrib c; cserialize_tlp := cserialize_tlp c |}.

Lemma md_defaulted : forall c S, defaulted_names (md_ms c) S = defaulted_names c S.
Proof.
  intros c S. unfold defaulted_names, md_ms. cbn [cslots].
  induction (cslots c) as [| s r IH]; cbn [map filter]; [reflexivity |].
  destruct (ustr_eqb (sname s) (u "created")); cbn [sreq sdef sname];
    match goal with |- context [if ?b then _ else _] => destruct b end; cbn [map sname]; rewrite IH; reflexivity.
Qed.

Lemma md_ms_PN : forall c, PN (md_ms c) = PN c.
Proof.
  intros c. unfold PN, md_ms. cbn [cslots]. rewrite map_map. apply map_ext. intros s.
  destruct (ustr_eqb (sname s) (u "created")); reflexivity.
Qed.

Lemma md_ms_slot_of : forall c n, ustr_eqb n (u "created") = false -> slot_of (md_ms c) n = slot_of c n.
Proof.
  intros c n Hn. unfold slot_of, md_ms. cbn [cslots]. induction (cslots c) as [| s r IH]; cbn [map find]; [reflexivity |].
  destruct (ustr_eqb (sname s) (u "created")) eqn:Ec; cbn [sname].
  - destruct (ustr_eqb (sname s) n) eqn:En; [| exact IH].
    apply ustr_eqb_eq in En. apply ustr_eqb_eq in Ec. subst n. rewrite Ec in Hn. rewrite ustr_eqb_refl in Hn. discriminate.
  - destruct (ustr_eqb (sname s) n); [reflexivity | exact IH].
Qed.

Definition DEF : ustring := u "definition".
Definition DEFTYPE : ustring := u "definition_type".
Definition CREATED : ustring := u "created".

Section Knot.
  Variable vr : variant.
  Variable ev : env.
  Variable w : world.
  Variable pattern_ok : ver -> ustring -> bool.
  Variable selectors_ok : list (ustring * pval) -> pval -> result bool.

  Hypothesis Hpad : vr_year_pad vr = true.

  (* the proved classes, by id *)
  Variable ids : list ustring.

  (* a class that may be nested (embedded object, list of objects): proved, and not a 2.1 observable
     (whose constructor rewrites a missing id afterwards) *)
  Definition nestable (cid0 : ustring) : bool :=
    mem_ustr cid0 ids &&
    match find_class (wclasses w) cid0 with Some c => negb (is_sco21 c) && negb (is_obs_tag cid0) | None => false end.

  Lemma nestable_no_tag : forall vv, nestable (obs_tag vv) = false.
  Proof.
    intros vv. unfold nestable. destruct (mem_ustr (obs_tag vv) ids); [| reflexivity]. cbn [andb].
    destruct (find_class (wclasses w) (obs_tag vv)); [| reflexivity].
    assert (E : is_obs_tag (obs_tag vv) = true) by (destruct vv; vm_compute; reflexivity).
    rewrite E. apply andb_false_r.
  Qed.

  Definition class_ok (c : cls) : bool :=
    nodupb (map sname (cslots c)) && forallb (slot_ok vr nestable) (cslots c) && init_ok vr (cinit c) &&
    (negb (is_sco21 c) ||
     match slot_of c (u "id") with Some sl => match sdef sl with DUuid4 => true | _ => false end | None => false end).

  Definition closed_ok : bool :=
    forallb (fun cid0 => match find_class (wclasses w) cid0 with Some c => class_ok c | None => false end) ids.

  Lemma ids_class_ok : closed_ok = true ->
    forall kid c, mem_ustr kid ids = true -> find_class (wclasses w) kid = Some c -> class_ok c = true.
  Proof.
    intros Hclosed kid c Hm Hf. unfold closed_ok in Hclosed. rewrite forallb_forall in Hclosed.
    apply mem_ustr_In in Hm. specialize (Hclosed kid Hm). rewrite Hf in Hclosed. exact Hclosed.
  Qed.

  (* ---- classes whose __init__ wraps `definition` (MarkingDefinition) ---- *)
  Definition P2 (cid0 : ustring) : bool := ustr_eqb cid0 MARK || nestable cid0.

  Definition is_dnone (s : slot) : bool := match sdef s with DNone => true | _ => false end.

  (* table conditions on a class c' whose `definition` is wrapped, and on the class that wraps it *)
  Definition md_slots_ok (c' : cls) : bool :=
    let cw := wrap_cls DEF c' in
    nodupb (map sname (cslots c')) && nodupb (map sname (cslots cw)) &&
    forallb (slot_ok vr P2) (cslots cw) &&
    forallb (fun s => ustr_eqb (sname s) DEF || kind_avoids MARK (skind s) || (ustr_eqb (sname s) ext_key && is_dnone s)) (cslots c') &&
    match slot_of c' DEF with Some sd => is_dnone sd | None => false end &&
    match slot_of cw DEF with
    | Some sd => is_dnone sd && match skind sd with KEmbedded k => ustr_eqb k MARK | _ => false end
    | None => false
    end &&
    match slot_of cw DEFTYPE with
    | Some sd => is_dnone sd && match skind sd with KString => true | _ => false end
    | None => false
    end.

  Definition created_ok (cw : cls) (milli : bool) : bool :=
    match slot_of cw CREATED with
    | Some s => match sdef s with DNow => true | _ => false end &&
                match skind s with
                | KTime PAny CExact => negb milli
                | KTime PMilli CExact => milli
                | _ => false
                end
    | None => false
    end.

  Definition md_ok (c : cls) : bool :=
    match cinit c with
    | IMarkingDefinition vv =>
      match cfamily c with FSco => false | _ => true end &&
      forallb (fun kv => nestable (snd kv)) (rmarkings (reg_of w vv)) &&
      md_slots_ok c &&
      match slot_of c DEFTYPE with Some sd => is_dnone sd | None => false end &&
      match vv with
      | V21 => true
      | V20 => vr_md20_default_ms vr && md_slots_ok (md_ms c) &&
               created_ok (wrap_cls DEF c) false && created_ok (wrap_cls DEF (md_ms c)) true
      end
    | _ => false
    end.

  (* ---- the 2.1 Indicator __init__: pattern_version defaults to "2.1" for a stix pattern ---- *)
  Definition PATTERN : ustring := u "pattern".
  Definition PTYPE : ustring := u "pattern_type".
  Definition PVERSION : ustring := u "pattern_version".

  Definition is_string_kind (k : pkind) : bool :=
    match k with KString | KPattern | KOpenVocab _ => true | _ => false end.

  Definition ind_ok (c : cls) : bool :=
    match cinit c with
    | IIndicatorPatternVersion =>
      match slot_of c PTYPE with Some s => is_string_kind (skind s) && is_dnone s | None => false end &&
      match slot_of c PVERSION with Some s => is_string_kind (skind s) | None => false end &&
      existsb (fun k => match k with CPatternValidator V21 => true | _ => false end) (ccons c)
    | _ => false
    end.

  Definition init_okw (c : cls) : bool := init_ok vr (cinit c) || md_ok c || ind_ok c.

  Definition class_okw (c : cls) : bool :=
    nodupb (map sname (cslots c)) && forallb (slot_ok vr nestable) (cslots c) && init_okw c &&
    (negb (is_sco21 c) ||
     match slot_of c (u "id") with Some sl => match sdef sl with DUuid4 => true | _ => false end | None => false end).

  Definition closed_okw : bool :=
    forallb (fun cid0 => match find_class (wclasses w) cid0 with Some c => class_okw c | None => false end) ids.

  Lemma closed_ok_weaken : closed_ok = true -> closed_okw = true.
  Proof.
    unfold closed_ok, closed_okw. intros H. rewrite forallb_forall in *. intros x Hx. specialize (H x Hx).
    destruct (find_class (wclasses w) x) as [c |]; [| discriminate]. unfold class_ok in H. unfold class_okw, init_okw.
    apply andb_true_iff in H. destruct H as [H H4]. apply andb_true_iff in H. destruct H as [H H3].
    rewrite H, H3, H4. reflexivity.
  Qed.

  (* the classes of the C04 theorems: __init__ forms that do not depend on the allow_custom switch and wrap nothing *)
  Definition class_oki (c : cls) : bool :=
    nodupb (map sname (cslots c)) && forallb (slot_ok vr nestable) (cslots c) && (init_ok vr (cinit c) || ind_ok c) &&
    (negb (is_sco21 c) ||
     match slot_of c (u "id") with Some sl => match sdef sl with DUuid4 => true | _ => false end | None => false end).

  Definition closed_oki : bool :=
    forallb (fun cid0 => match find_class (wclasses w) cid0 with Some c => class_oki c | None => false end) ids.

  Lemma closed_ok_oki : closed_ok = true -> closed_oki = true.
  Proof.
    unfold closed_ok, closed_oki. intros H. rewrite forallb_forall in *. intros x Hx. specialize (H x Hx).
    destruct (find_class (wclasses w) x) as [c |]; [| discriminate]. unfold class_ok in H. unfold class_oki.
    apply andb_true_iff in H. destruct H as [H H4]. apply andb_true_iff in H. destruct H as [H H3].
    rewrite H, H3, H4. reflexivity.
  Qed.

  Lemma closed_oki_weaken : closed_oki = true -> closed_okw = true.
  Proof.
    unfold closed_oki, closed_okw. intros H. rewrite forallb_forall in *. intros x Hx. specialize (H x Hx).
    destruct (find_class (wclasses w) x) as [c |]; [| discriminate]. unfold class_oki in H. unfold class_okw, init_okw.
    apply andb_true_iff in H. destruct H as [H H4]. apply andb_true_iff in H. destruct H as [H H3].
    rewrite H, H4. cbn [andb]. rewrite andb_true_r. apply orb_true_iff in H3. destruct H3 as [E | E]; rewrite E; [reflexivity |].
    rewrite !orb_true_r. reflexivity.
  Qed.

  Lemma ids_class_oki : closed_oki = true ->
    forall kid c, mem_ustr kid ids = true -> find_class (wclasses w) kid = Some c -> class_oki c = true.
  Proof.
    intros Hc kid c Hm Hf. unfold closed_oki in Hc. rewrite forallb_forall in Hc.
    apply mem_ustr_In in Hm. specialize (Hc kid Hm). rewrite Hf in Hc. exact Hc.
  Qed.

  Hypothesis Hclosed : closed_okw = true.

  Lemma ids_class_okw : forall kid c, mem_ustr kid ids = true -> find_class (wclasses w) kid = Some c -> class_okw c = true.
  Proof.
    intros kid c Hm Hf. unfold closed_okw in Hclosed. rewrite forallb_forall in Hclosed.
    apply mem_ustr_In in Hm. specialize (Hclosed kid Hm). rewrite Hf in Hclosed. exact Hclosed.
  Qed.

  Lemma ids_found : forall kid, mem_ustr kid ids = true -> exists c, find_class (wclasses w) kid = Some c.
  Proof.
    intros kid Hm. unfold closed_okw in Hclosed. rewrite forallb_forall in Hclosed.
    apply mem_ustr_In in Hm. specialize (Hclosed kid Hm). destruct (find_class (wclasses w) kid); [eauto | discriminate].
  Qed.

  Notation RUN := (run vr ev w pattern_ok selectors_ok).

  (* a 2.1 observable is covered when its id is given (as it always is in serialized text) *)
  Definition id_given (kid : ustring) (kw : list (ustring * jvalue)) : bool :=
    match find_class (wclasses w) kid with
    | Some c => negb (is_sco21 c) || amem (u "id") kw
    | None => true
    end.

  Definition claim (fuel : nat) : Prop :=
    forall kid allow interop kw vrefs o,
      mem_ustr kid ids = true -> plain_dict kw = true -> id_given kid kw = true ->
      RUN fuel (RConstruct kid allow interop kw vrefs) = Ok o ->
      encode false o = JObj (omem o) /\ reserved_kw (omem o) = Ok tt /\
      RUN fuel (RConstruct kid allow interop (omem o) vrefs) = Ok o /\
      plain_dict (omem o) = true.

  Lemma claim_rc : forall f, claim f ->
    rc_idem (fun k a i kw0 => RUN f (RConstruct k a i kw0 None)) (fun vv refs a d => RUN f (RParseObs (Some vv) refs a false d)) nestable.
  Proof.
    intros f Hc. split.
    - intros cid0 a i d o Hn Hp H. unfold nestable in Hn. apply andb_true_iff in Hn. destruct Hn as [Hm Hs].
      apply (Hc cid0 a i d None o Hm Hp); auto.
      unfold id_given. destruct (find_class (wclasses w) cid0); auto. apply andb_true_iff in Hs. destruct Hs as [Hs _]. rewrite Hs. reflexivity.
    - intros vv HP. rewrite nestable_no_tag in HP. discriminate.
  Qed.

  Lemma reserved_split : forall (kw : list (ustring * jvalue)),
    amem (u "_valid_refs") kw || amem (u "allow_custom") kw || amem (u "interoperability") kw || amem (u "self") kw = false ->
    amem (u "_valid_refs") kw = false /\ amem (u "allow_custom") kw = false /\
    amem (u "interoperability") kw = false /\ amem (u "self") kw = false.
  Proof.
    intros kw H. apply orb_false_iff in H. destruct H as [H H4]. apply orb_false_iff in H. destruct H as [H H3].
    apply orb_false_iff in H. destruct H as [H1 H2]. auto.
  Qed.

  (* ---- the constructor, class __init__ and generic part apart ---- *)
  Definition md_cls (vv : ver) (t : ustring) (c : cls) (kw : list (ustring * jvalue)) : cls :=
    match vv, alookup (u "created") kw with
    | V20, Some cr =>
      if ustr_eqb t (u "tlp") || match cr with JStr s => existsb (N.eqb 46) s | _ => false end then md_ms c else c
    | V20, None => if vr_md20_default_ms vr then md_ms c else c
    | _, _ => c
    end.

  Definition md_unmodelled (vv : ver) (t : ustring) (kw : list (ustring * jvalue)) : bool :=
    match vv, alookup (u "created") kw with
    | V20, Some (JStr _) => false
    | V20, Some _ => negb (ustr_eqb t (u "tlp"))
    | _, _ => false
    end.

  Definition GEN (f : nat) :=
    construct_generic vr ev w pattern_ok selectors_ok
      (fun k a i kw0 => RUN f (RConstruct k a i kw0 None))
      (fun a i d => RUN f (RParse a i None d))
      (fun vv refs a d => RUN f (RParseObs (Some vv) refs a false d)) (S f).

  Definition md_expr (f : nat) (c : cls) (vv : ver) (allow interop : bool) (kw : list (ustring * jvalue))
             (vrf : option (list (ustring * ustring))) : result pval :=
    match alookup (u "definition_type") kw, alookup (u "definition") kw with
    | Some dt, Some dv =>
      match dt with
      | JStr t =>
        match class_for w t vv 3%N with
        | None => Err EValueError
        | Some mcid =>
          if md_unmodelled vv t kw then Err EAttributeError else
          do dd <- get_dict dv;
          if amem (u "allow_custom") dd || amem (u "interoperability") dd || amem (u "self") dd then Unmodelled else
          do m <- RUN f (RConstruct mcid false false dd None);
          GEN f (md_cls vv t c kw) allow interop (aremove (u "definition") kw) [(u "definition", m)] vrf
        end
      | JArr _ | JObj _ => Err ETypeError
      | _ => Err EValueError
      end
    | _, _ => GEN f c allow interop kw [] vrf
    end.

  Definition ind_kw (kw : list (ustring * jvalue)) : list (ustring * jvalue) :=
    let g (k : string) := alookup (u k) kw in
    if (match g "pattern"%string with Some v => truthy v | None => false end)
       && jvalue_eqb (match g "pattern_type"%string with Some v => v | None => JNull end) (JStr (u "stix"))
       && negb (match g "pattern_version"%string with Some v => truthy v | None => false end)
    then aset (u "pattern_version") (JStr (u "2.1")) kw else kw.

  Lemma ind_kw_plain : forall kw, plain_dict kw = true -> plain_dict (ind_kw kw) = true.
  Proof.
    intros kw Hp. unfold ind_kw. cbv zeta. match goal with |- context [if ?b then _ else _] => destruct b end; [| exact Hp].
    apply plain_dict_aset; [exact Hp | reflexivity].
  Qed.

  Definition init_expr (f : nat) (c : cls) (allow interop : bool) (kw : list (ustring * jvalue))
             (vrf : option (list (ustring * ustring))) : result pval :=
    match cinit c with
    | INone | IObservedDataWarn | IBundleObjects => GEN f c allow interop kw [] vrf
    | IPositional names => GEN f c allow interop (pos_filter vr names kw) [] vrf
    | IMarkingDefinition vv => md_expr f c vv allow interop kw vrf
    | IIndicatorPatternVersion => GEN f c allow interop (ind_kw kw) [] vrf
    | IOpaque _ => Unmodelled
    end.

  Definition post (c : cls) (kw : list (ustring * jvalue)) (obj : pval) : result pval :=
    match obj, cfamily c, cver c with
    | PObject ocid inner dfl hc, FSco, V21 =>
      if amem (u "id") kw then Ok obj
      else if existsb (fun p => amem p inner) (cidcontrib c) then
        match ctype c with
        | Some t => Ok (PObject ocid (aset (u "id") (PJ (JStr (t ++ u "--" ++ e_uuid5 ev))) inner) dfl hc)
        | None => Unmodelled
        end
      else Ok obj
    | _, _, _ => Ok obj
    end.

  Lemma run_unfold : forall f kid allow interop kw vrefs c,
    find_class (wclasses w) kid = Some c -> init_okw c = true ->
    RUN (S f) (RConstruct kid allow interop kw vrefs) =
    if amem (u "_valid_refs") kw || amem (u "allow_custom") kw || amem (u "interoperability") kw || amem (u "self") kw
    then Unmodelled else
    do obj <- init_expr f c allow interop kw
                (match cfamily c with FSco => Some match vrefs with Some r => r | None => [] end | _ => None end);
    post c kw obj.
  Proof.
    intros f kid allow interop kw vrefs c Ef Hi. cbn [run]. rewrite Ef.
    unfold init_okw, md_ok, ind_ok in Hi. unfold init_expr.
    destruct (cinit c) eqn:Ei; cbn [init_ok orb] in Hi; try discriminate; try reflexivity.
    unfold md_expr, md_cls, md_ms. rewrite Ei. reflexivity.
  Qed.

  (* ---- one level of the induction ---- *)
  Section Level.
    Variable f : nat.
    Hypothesis IH : claim f.

    Notation rc := (fun k a i kw0 => RUN f (RConstruct k a i kw0 None)).
    Notation rp := (fun a i d => RUN f (RParse a i None d)).
    Notation ro := (fun vv refs a d => RUN f (RParseObs (Some vv) refs a false d)).

    (* the recursive constructor with the reserved class id served by the strict constructor of a marking class *)
    Definition rc2 (mcid : ustring) : ustring -> bool -> bool -> list (ustring * jvalue) -> result pval :=
      fun cid0 a0 i0 x => if ustr_eqb cid0 MARK then RUN f (RConstruct mcid false false x None)
                          else RUN f (RConstruct cid0 a0 i0 x None).

    Lemma rc2_agree : forall mcid cid0 a0 i0 x, ustr_eqb cid0 MARK = false -> rc2 mcid cid0 a0 i0 x = rc cid0 a0 i0 x.
    Proof. intros mcid cid0 a0 i0 x E. unfold rc2. rewrite E. reflexivity. Qed.

    Lemma nestable_given : forall k kw, nestable k = true -> id_given k kw = true.
    Proof.
      intros k kw Hn. unfold nestable in Hn. apply andb_true_iff in Hn. destruct Hn as [_ Hs].
      unfold id_given. destruct (find_class (wclasses w) k); auto. apply andb_true_iff in Hs. destruct Hs as [Hs _]. rewrite Hs. reflexivity.
    Qed.

    Lemma rc2_idem : forall mcid, nestable mcid = true -> rc_idem (rc2 mcid) ro P2.
    Proof.
      intros mcid Hn. split.
      - intros cid0 a0 i0 x o HP Hp H. unfold rc2 in *. unfold P2 in HP.
        destruct (ustr_eqb cid0 MARK) eqn:E.
        + pose proof Hn as Hn'. unfold nestable in Hn'. apply andb_true_iff in Hn'. destruct Hn' as [Hm _].
          exact (IH mcid false false x None o Hm Hp (nestable_given mcid x Hn) H).
        + cbn [orb] in HP. exact (proj1 (claim_rc f IH) cid0 a0 i0 x o HP Hp H).
      - intros vv HP. unfold P2 in HP. rewrite nestable_no_tag in HP.
        assert (E : ustr_eqb (obs_tag vv) MARK = false) by (destruct vv; vm_compute; reflexivity).
        rewrite E in HP. discriminate.
    Qed.

    Lemma strict_plain_unflagged : forall k i0 x vrefs0 o,
      plain_dict x = true -> RUN f (RConstruct k false i0 x vrefs0) = Ok o -> pval_has_custom o = false.
    Proof.
      intros k i0 x vrefs0 o Hp H. destruct o as [j | us t | l | m0 | ci inner d hc]; try reflexivity.
      cbn [pval_has_custom]. destruct hc; auto.
      pose proof (run_construct_strict_flag vr ev w pattern_ok selectors_ok f k i0 x vrefs0 ci inner d true H eq_refl) as Hc.
      destruct (plain_dict_no_key x Hp) as [Hn _]. unfold C04Strict.cp, cp_key in *. congruence.
    Qed.

    Lemma md_slots_facts : forall c', md_slots_ok c' = true ->
      NoDup (map sname (cslots c')) /\ NoDup (map sname (cslots (wrap_cls DEF c'))) /\
      forallb (slot_ok vr P2) (cslots (wrap_cls DEF c')) = true /\
      (forall sl, In sl (cslots c') -> sname sl <> DEF ->
         kind_avoids MARK (skind sl) = true \/ (sname sl = ext_key /\ sdef sl = DNone)) /\
      (exists sd, slot_of c' DEF = Some sd /\ sdef sd = DNone) /\
      (exists sd, slot_of (wrap_cls DEF c') DEF = Some sd /\ sdef sd = DNone /\ skind sd = KEmbedded MARK) /\
      (exists sd, slot_of (wrap_cls DEF c') DEFTYPE = Some sd /\ sdef sd = DNone /\ skind sd = KString).
    Proof.
      intros c' H. unfold md_slots_ok in H. cbv zeta in H.
      apply andb_true_iff in H. destruct H as [H H7]. apply andb_true_iff in H. destruct H as [H H6].
      apply andb_true_iff in H. destruct H as [H H5]. apply andb_true_iff in H. destruct H as [H H4].
      apply andb_true_iff in H. destruct H as [H H3]. apply andb_true_iff in H. destruct H as [H1 H2].
      split; [apply nodupb_NoDup; exact H1 |]. split; [apply nodupb_NoDup; exact H2 |]. split; [exact H3 |].
      split; [| split; [| split]].
      - intros sl Hin Hne. rewrite forallb_forall in H4. specialize (H4 sl Hin).
        apply orb_true_iff in H4. destruct H4 as [H4 | H4].
        + apply orb_true_iff in H4. destruct H4 as [H4 | H4]; [apply ustr_eqb_eq in H4; contradiction | left; exact H4].
        + right. apply andb_true_iff in H4. destruct H4 as [A B]. apply ustr_eqb_eq in A. split; auto.
          unfold is_dnone in B. destruct (sdef sl); try discriminate. reflexivity.
      - destruct (slot_of c' DEF) as [sd |]; try discriminate. exists sd. split; auto.
        unfold is_dnone in H5. destruct (sdef sd); try discriminate. reflexivity.
      - destruct (slot_of (wrap_cls DEF c') DEF) as [sd |]; try discriminate. exists sd. split; auto.
        apply andb_true_iff in H6. destruct H6 as [A B]. unfold is_dnone in A.
        destruct (sdef sd); try discriminate. destruct (skind sd); try discriminate. apply ustr_eqb_eq in B. subst. auto.
      - destruct (slot_of (wrap_cls DEF c') DEFTYPE) as [sd |]; try discriminate. exists sd. split; auto.
        apply andb_true_iff in H7. destruct H7 as [A B]. unfold is_dnone in A.
        destruct (sdef sd); try discriminate. destruct (skind sd); try discriminate. auto.
    Qed.

    (* the constructor with the wrapped definition is the generic constructor of the wrapping class *)
    Lemma md_reduce : forall c' mcid allow interop vrf K0 dd m,
      md_slots_ok c' = true ->
      plain_dict K0 = true -> alookup DEF K0 = Some (JObj dd) -> plain_dict dd = true -> reserved_kw dd = Ok tt ->
      RUN f (RConstruct mcid false false dd None) = Ok m ->
      GEN f c' allow interop (aremove DEF K0) [(DEF, m)] vrf =
      construct_generic vr ev w pattern_ok selectors_ok (rc2 mcid) rp ro (S f) (wrap_cls DEF c') allow interop K0 [] vrf.
    Proof.
      intros c' mcid allow interop vrf K0 dd m Hms Hp HK0 Hpd Hres Hm.
      destruct (md_slots_facts c' Hms) as [Hnd' [_ [_ [Hav [[sd [Hd Hdn]] _]]]]].
      destruct (plain_dict_no_key K0 Hp) as [Hcp Hext]. apply amem_alookup_none in Hcp. apply amem_alookup_none in Hext.
      destruct (run_construct_object _ _ _ _ _ _ _ _ _ _ _ _ Hm) as [ci [S0 [d0 [h0 Em]]]].
      unfold GEN.
      assert (Hm2 : rc2 mcid MARK allow false dd = Ok m) by (unfold rc2; rewrite ustr_eqb_refl; exact Hm).
      assert (Hhc : pval_has_custom m = false) by (eapply strict_plain_unflagged; eauto).
      assert (Hobj : match m with PJ _ => False | _ => True end) by (subst m; exact I).
      exact (cg_wrap vr ev w pattern_ok selectors_ok rc (rc2 mcid) rp ro (rc2_agree mcid) c' allow interop vrf DEF m dd K0 sd
               Hd HK0 Hres Hm2 Hhc Hobj Hext Hav Hnd' Hcp (S f)).
    Qed.
    Lemma assoc_In : forall t k m, assoc t m = Some k -> In (t, k) m.
    Proof.
      induction m as [| [k' v'] r IHm]; cbn [assoc]; intros E; try discriminate.
      destruct (ustr_eqb t k') eqn:Et; [apply ustr_eqb_eq in Et; subst; inversion E; left; reflexivity | right; apply IHm; exact E].
    Qed.

    Lemma md_cls_cases : forall vv t c kw, md_cls vv t c kw = c \/ (vv = V20 /\ md_cls vv t c kw = md_ms c).
    Proof.
      intros vv t c kw. unfold md_cls. destruct vv; [| left; reflexivity].
      destruct (alookup (u "created") kw) as [cr |].
      - match goal with |- context [if ?b then _ else _] => destruct b end; auto.
      - destruct (vr_md20_default_ms vr); auto.
    Qed.

    Lemma md_cls_cid : forall vv t c kw, cid (md_cls vv t c kw) = cid c.
    Proof. intros vv t c kw. destruct (md_cls_cases vv t c kw) as [E | [_ E]]; rewrite E; reflexivity. Qed.

    Lemma md_cls_defaulted : forall vv t c kw S, defaulted_names (md_cls vv t c kw) S = defaulted_names c S.
    Proof.
      intros vv t c kw S. destruct (md_cls_cases vv t c kw) as [E | [_ E]]; rewrite E; [reflexivity | apply md_defaulted].
    Qed.

    Lemma written_wrap_md : forall vv t c kw S, written (wrap_cls DEF (md_cls vv t c kw)) S = written c S.
    Proof. intros vv t c kw S. unfold written. rewrite wrap_defaulted, md_cls_defaulted. reflexivity. Qed.

    (* a timestamp stored under `created` is written as its text *)
    Lemma created_written : forall cw Sv us txt,
      NoDup (map sname (cslots cw)) -> forallb (slot_ok vr P2) (cslots cw) = true ->
      alookup CREATED Sv = Some (PTime us txt) -> alookup CREATED (written cw Sv) = Some (JStr txt).
    Proof.
      intros cw Sv us txt Hnd Hsl E. rewrite (written_stored vr P2 cw Hnd Hsl Sv CREATED _ E); [reflexivity |].
      intros b Hb. discriminate.
    Qed.
    Lemma created_ok_facts : forall cw milli, created_ok cw milli = true ->
      exists sC, slot_of cw CREATED = Some sC /\ sdef sC = DNow /\ skind sC = KTime (if milli then PMilli else PAny) CExact.
    Proof.
      intros cw milli H. unfold created_ok in H. destruct (slot_of cw CREATED) as [sC |]; try discriminate.
      exists sC. split; auto. apply andb_true_iff in H. destruct H as [A B].
      destruct (sdef sC); try discriminate. split; auto.
      destruct (skind sC) eqn:E; try discriminate.
      destruct p; try discriminate; destruct c; try discriminate; destruct milli; try discriminate; reflexivity.
    Qed.
    (* 2.0: the precision of `created` chosen from the arguments is chosen again from what was written *)
    Lemma md_rerun_cls : forall c vv t allow interop vrf kw mcid Sv dfl hc,
      plain_dict kw = true ->
      md_unmodelled vv t kw = false ->
      md_slots_ok (md_cls vv t c kw) = true ->
      (vv = V20 -> vr_md20_default_ms vr = true /\ created_ok (wrap_cls DEF c) false = true /\
                   created_ok (wrap_cls DEF (md_ms c)) true = true) ->
      construct_generic vr ev w pattern_ok selectors_ok (rc2 mcid) rp ro (S f) (wrap_cls DEF (md_cls vv t c kw)) allow interop kw [] vrf
        = Ok (PObject (cid (wrap_cls DEF (md_cls vv t c kw))) Sv dfl hc) ->
      md_unmodelled vv t (written c Sv) = false /\ md_cls vv t c (written c Sv) = md_cls vv t c kw.
    Proof.
      intros c vv t allow interop vrf kw mcid Sv dfl hc Hp Hun Hms HV Hcg.
      destruct vv; [| split; reflexivity].
      destruct (HV eq_refl) as [Hv [Hc0 Hc1]]. clear HV.
      destruct (md_slots_facts _ Hms) as [_ [Hndw [Hslw _]]].
      rewrite <- (written_wrap_md V20 t c kw Sv).
      unfold md_unmodelled, md_cls in *. change (u "created") with CREATED in *.
      destruct (ustr_eqb t (u "tlp")) eqn:Etlp.
      - (* the TLP markings: always milliseconds *)
        cbn [orb negb] in *. rewrite Hv in *.
        assert (Ec : (match alookup CREATED kw with Some _ => md_ms c | None => md_ms c end) = md_ms c)
          by (destruct (alookup CREATED kw); reflexivity).
        rewrite Ec in *.
        destruct (alookup CREATED (written (wrap_cls DEF (md_ms c)) Sv)) as [[] |]; split; reflexivity.
      - cbn [orb negb] in *.
        destruct (alookup CREATED kw) as [cr |] eqn:Ecr.
        + destruct cr; try discriminate.
          destruct (existsb (N.eqb 46) s) eqn:Ed.
          * (* a fraction was given *)
            destruct (created_ok_facts _ _ Hc1) as [sC [EsC [EdC EkC]]].
            pose proof (cg_given_value vr ev w pattern_ok selectors_ok (rc2 mcid) rp ro _ allow interop vrf Hndw
                          (S f) kw Sv _ hc CREATED (JStr s) Hp Hcg Ecr) as Hg.
            rewrite EsC in Hg. destruct Hg as [v [h [Ev Eck]]]. rewrite EkC in Eck. cbn [clean_kind] in Eck. unfold bind in Eck.
            rewrite Hpad in Eck.
            destruct (ts_clean true PMilli CExact s) as [[us txt] | |] eqn:Ets; try discriminate. inv_ok Eck. cbn [fst snd] in Ev.
            rewrite (created_written _ _ _ _ Hndw Hslw Ev).
            pose proof (ts_clean_milli_dotted _ _ _ Ets) as Hd. unfold dotted in Hd. rewrite Hd. split; reflexivity.
          * (* no fraction: the class precision (any) writes none *)
            destruct (created_ok_facts _ _ Hc0) as [sC [EsC [EdC EkC]]].
            pose proof (cg_given_value vr ev w pattern_ok selectors_ok (rc2 mcid) rp ro _ allow interop vrf Hndw
                          (S f) kw Sv _ hc CREATED (JStr s) Hp Hcg Ecr) as Hg.
            rewrite EsC in Hg. destruct Hg as [v [h [Ev Eck]]]. rewrite EkC in Eck. cbn [clean_kind] in Eck. unfold bind in Eck.
            rewrite Hpad in Eck.
            destruct (ts_clean true PAny CExact s) as [[us txt] | |] eqn:Ets; try discriminate. inv_ok Eck. cbn [fst snd] in Ev.
            rewrite (created_written _ _ _ _ Hndw Hslw Ev).
            assert (Hd : dotted txt = false) by (eapply (ts_clean_undotted PAny CExact); [exact Ets | exact Ed | discriminate]).
            unfold dotted in Hd. rewrite Hd. split; reflexivity.
        + (* the clock default, kept at millisecond precision *)
          rewrite Hv in *.
          destruct (created_ok_facts _ _ Hc1) as [sC [EsC [EdC EkC]]].
          destruct (cg_default_now vr ev w pattern_ok selectors_ok (rc2 mcid) rp ro _ allow interop vrf Hndw
                      (S f) kw Sv _ hc CREATED sC PMilli CExact Hp Hcg Ecr EsC EdC EkC) as [us [txt [Ev Ets]]].
          rewrite Hpad in Ets.
          rewrite (created_written _ _ _ _ Hndw Hslw Ev).
          pose proof (ts_clean_now_milli_dotted _ _ _ Ets) as Hd. unfold dotted in Hd. rewrite Hd. split; reflexivity.
    Qed.
    Definition idem_result (c : cls) (kw : list (ustring * jvalue)) (obj : pval)
               (rerun : list (ustring * jvalue) -> result pval) : Prop :=
      exists Sv hc, obj = PObject (cid c) Sv (defaulted_names c Sv) hc /\
        rerun (written c Sv) = Ok obj /\
        plain_dict (written c Sv) = true /\
        (forall r, In r reserved_names -> amem r kw = false -> amem r (written c Sv) = false) /\
        (forall n, amem n kw = true -> amem n Sv = true).

    Lemma gen_idem : forall c allow interop kw vrf obj,
      NoDup (map sname (cslots c)) -> forallb (slot_ok vr nestable) (cslots c) = true ->
      plain_dict kw = true ->
      GEN f c allow interop kw [] vrf = Ok obj ->
      idem_result c kw obj (fun kw' => GEN f c allow interop kw' [] vrf).
    Proof.
      intros c allow interop kw vrf obj Hnd Hslots Hp H. unfold GEN in *.
      exact (written_facts vr ev w pattern_ok selectors_ok rc rp ro nestable Hpad (claim_rc f IH) c allow interop vrf Hnd Hslots
               (S f) kw obj Hp H).
    Qed.

    Lemma md_idem : forall c vv allow interop kw vrf obj,
      cinit c = IMarkingDefinition vv -> md_ok c = true ->
      NoDup (map sname (cslots c)) -> forallb (slot_ok vr nestable) (cslots c) = true ->
      plain_dict kw = true ->
      md_expr f c vv allow interop kw vrf = Ok obj ->
      idem_result c kw obj (fun kw' => md_expr f c vv allow interop kw' vrf).
    Proof.
      intros c vv allow interop kw vrf obj Hi Hmd Hnd Hslots Hp H.
      unfold md_ok in Hmd. rewrite Hi in Hmd.
      apply andb_true_iff in Hmd. destruct Hmd as [Hmd HV]. apply andb_true_iff in Hmd. destruct Hmd as [Hmd Hdt].
      apply andb_true_iff in Hmd. destruct Hmd as [Hmd Hms]. apply andb_true_iff in Hmd. destruct Hmd as [_ Hmk].
      destruct (md_slots_facts c Hms) as [_ [_ [_ [_ [[sd0 [Esd0 Edn0]] _]]]]].
      assert (Hdn_def : forall sl, slot_of c DEF = Some sl -> sdef sl = DNone) by (intros sl E; rewrite Esd0 in E; inversion E; subst; exact Edn0).
      assert (Hdn_dt : forall sl, slot_of c DEFTYPE = Some sl -> sdef sl = DNone).
      { intros sl E. rewrite E in Hdt. unfold is_dnone in Hdt. destruct (sdef sl); try discriminate. reflexivity. }
      (* nothing to wrap: the generic constructor, and nothing to wrap afterwards either *)
      assert (Hgen : (alookup DEFTYPE kw = None \/ alookup DEF kw = None) -> GEN f c allow interop kw [] vrf = Ok obj ->
                     idem_result c kw obj (fun kw' => md_expr f c vv allow interop kw' vrf)).
      { intros Habs Hcg. destruct (gen_idem c allow interop kw vrf obj Hnd Hslots Hp Hcg) as [Sv [hc [Eo [Hre [Hpl [Hres Hgiv]]]]]].
        exists Sv, hc. split; [exact Eo |]. split; [| auto].
        subst obj. unfold GEN in Hcg. unfold md_expr. change (u "definition_type") with DEFTYPE. change (u "definition") with DEF.
        destruct Habs as [Ha | Ha].
        - assert (E0 : alookup DEFTYPE (written c Sv) = None).
          { rewrite alookup_written.
            pose proof (cg_absent vr ev w pattern_ok selectors_ok rc rp ro c allow interop vrf Hnd (S f) kw Sv _ hc DEFTYPE Hp Hcg Ha Hdn_dt) as Hab.
            unfold amem in Hab. destruct (alookup DEFTYPE Sv); [discriminate | reflexivity]. }
          rewrite E0. exact Hre.
        - assert (E0 : alookup DEF (written c Sv) = None).
          { rewrite alookup_written.
            pose proof (cg_absent vr ev w pattern_ok selectors_ok rc rp ro c allow interop vrf Hnd (S f) kw Sv _ hc DEF Hp Hcg Ha Hdn_def) as Hab.
            unfold amem in Hab. destruct (alookup DEF Sv); [discriminate | reflexivity]. }
          rewrite E0. destruct (alookup DEFTYPE (written c Sv)); exact Hre. }
      unfold md_expr in H. change (u "definition_type") with DEFTYPE in H. change (u "definition") with DEF in H.
      destruct (alookup DEFTYPE kw) as [dt |] eqn:Edt; [| apply Hgen; auto].
      destruct (alookup DEF kw) as [dv |] eqn:Edv; [| apply Hgen; auto].
      clear Hgen.
      destruct dt as [| | | | t | |]; try discriminate.
      destruct (class_for w t vv 3%N) as [mcid |] eqn:Ecf; try discriminate.
      destruct (md_unmodelled vv t kw) eqn:Eun; try discriminate.
      destruct dv as [| | | | | | dd]; cbn [get_dict bind] in H; try discriminate.
      destruct (amem (u "allow_custom") dd || amem (u "interoperability") dd || amem (u "self") dd) eqn:Er3; try discriminate.
      unfold bind in H.
      destruct (RUN f (RConstruct mcid false false dd None)) as [m | |] eqn:Em; try discriminate.
      (* table facts *)
      assert (Hnm : nestable mcid = true).
      { unfold class_for in Ecf. cbn in Ecf. apply assoc_In in Ecf. rewrite forallb_forall in Hmk. exact (Hmk _ Ecf). }
      assert (Hms' : md_slots_ok (md_cls vv t c kw) = true).
      { destruct (md_cls_cases vv t c kw) as [E | [Ev E]]; rewrite E; [exact Hms |]. subst vv.
        apply andb_true_iff in HV. destruct HV as [HV _]. apply andb_true_iff in HV. destruct HV as [HV _].
        apply andb_true_iff in HV. destruct HV as [_ HV]. exact HV. }
      assert (HV' : vv = V20 -> vr_md20_default_ms vr = true /\ created_ok (wrap_cls DEF c) false = true /\
                                created_ok (wrap_cls DEF (md_ms c)) true = true).
      { intros Ev. subst vv. apply andb_true_iff in HV. destruct HV as [HV H4]. apply andb_true_iff in HV. destruct HV as [HV H3].
        apply andb_true_iff in HV. destruct HV as [H1 _]. auto. }
      destruct (plain_dict_lookup kw DEF (JObj dd) Hp Edv) as [_ Hpd]. rewrite plain_json_obj in Hpd. fold (plain_dict dd) in Hpd.
      assert (Hres : reserved_kw dd = Ok tt).
      { apply orb_false_iff in Er3. destruct Er3 as [Er3 R3]. apply orb_false_iff in Er3. destruct Er3 as [R1 R2].
        unfold reserved_kw. rewrite R1, R2, R3. reflexivity. }
      pose proof Hnm as Hnm'. unfold nestable in Hnm'. apply andb_true_iff in Hnm'. destruct Hnm' as [Hmm _].
      destruct (IH mcid false false dd None m Hmm Hpd (nestable_given mcid dd Hnm) Em) as [E1 [E2 [E3 E4]]].
      (* the run is a generic run of the wrapping class *)
      set (c' := md_cls vv t c kw) in *.
      rewrite (md_reduce c' mcid allow interop vrf kw dd m Hms' Hp Edv Hpd Hres Em) in H.
      destruct (md_slots_facts c' Hms') as [_ [Hndw [Hslw [_ [_ [[sdw [Esdw [Ednw Ekw]]] [st [Est [Ednt Ekt]]]]]]]]].
      destruct (written_facts vr ev w pattern_ok selectors_ok (rc2 mcid) rp ro P2 Hpad (rc2_idem mcid Hnm) (wrap_cls DEF c') allow interop vrf
                  Hndw Hslw (S f) kw obj Hp H) as [Sv [hc [Eo [Hre [Hpl [Hresv Hgiv]]]]]].
      assert (Ew : written (wrap_cls DEF c') Sv = written c Sv) by (apply written_wrap_md).
      assert (Ecid : cid (wrap_cls DEF c') = cid c) by (cbn [cid wrap_cls]; apply md_cls_cid).
      assert (Edfl : defaulted_names (wrap_cls DEF c') Sv = defaulted_names c Sv) by (rewrite wrap_defaulted; apply md_cls_defaulted).
      exists Sv, hc. rewrite <- Ew. split; [rewrite <- Ecid, <- Edfl; exact Eo |]. split; [| auto].
      (* what was written: the type, the wrapped definition *)
      subst obj.
      assert (W1 : alookup DEFTYPE (written (wrap_cls DEF c') Sv) = Some (JStr t)).
      { pose proof (cg_given_value vr ev w pattern_ok selectors_ok (rc2 mcid) rp ro _ allow interop vrf Hndw
                      (S f) kw Sv _ hc DEFTYPE (JStr t) Hp H Edt) as Hg.
        rewrite Est in Hg. destruct Hg as [v [h [Ev Eck]]]. rewrite Ekt in Eck. cbn [clean_kind] in Eck.
        unfold clean_string in Eck. cbn [py_str bind] in Eck. inv_ok Eck.
        rewrite (written_stored vr P2 _ Hndw Hslw Sv DEFTYPE _ Ev); [reflexivity | intros b Hb; discriminate]. }
      assert (W2 : alookup DEF (written (wrap_cls DEF c') Sv) = Some (JObj (omem m))).
      { pose proof (cg_given_value vr ev w pattern_ok selectors_ok (rc2 mcid) rp ro _ allow interop vrf Hndw
                      (S f) kw Sv _ hc DEF (JObj dd) Hp H Edv) as Hg.
        rewrite Esdw in Hg. destruct Hg as [v [h [Ev Eck]]]. rewrite Ekw in Eck. cbn [clean_kind] in Eck.
        rewrite Hres in Eck. cbn [bind] in Eck. unfold rc2 in Eck. rewrite ustr_eqb_refl in Eck. rewrite Em in Eck. cbn [bind] in Eck.
        destruct (negb allow && pval_has_custom m); try discriminate. inv_ok Eck.
        destruct (run_construct_object _ _ _ _ _ _ _ _ _ _ _ _ Em) as [ci [S0 [d0 [h0 Emo]]]].
        rewrite (written_stored vr P2 _ Hndw Hslw Sv DEF _ Ev); [rewrite E1; reflexivity | intros b Hb; subst; discriminate]. }
      destruct (md_rerun_cls c vv t allow interop vrf kw mcid Sv _ hc Hp Eun Hms' HV' H) as [W3 W4].
      rewrite Ew in *.
      unfold md_expr. change (u "definition_type") with DEFTYPE. change (u "definition") with DEF.
      rewrite W1, W2, Ecf, W3. cbn [get_dict bind].
      assert (Er3' : amem (u "allow_custom") (omem m) || amem (u "interoperability") (omem m) || amem (u "self") (omem m) = false).
      { unfold reserved_kw in E2. destruct (amem (u "allow_custom") (omem m)); try discriminate.
        destruct (amem (u "interoperability") (omem m) || amem (u "self") (omem m)) eqn:E; try discriminate.
        cbn [orb]. exact E. }
      rewrite Er3'. rewrite E3. cbn [bind]. rewrite W4. fold c'.
      rewrite (md_reduce c' mcid allow interop vrf (written c Sv) (omem m) m Hms' Hpl W2 E4 E2 E3).
      exact Hre.
    Qed.
    Lemma string_kind_clean : forall k a i j v h, is_string_kind k = true ->
      clean_kind vr w rc rp ro k a i j = Ok (v, h) -> exists s0, v = PJ (JStr s0).
    Proof.
      intros k a i j v h Hk H. destruct k; try discriminate; cbn [clean_kind] in H; unfold clean_string, bind in H;
        destruct (py_str j) as [s0 | |]; try discriminate; inversion H; eauto.
    Qed.

    Lemma ind_idem : forall c allow interop kw vrf obj,
      ind_ok c = true ->
      NoDup (map sname (cslots c)) -> forallb (slot_ok vr nestable) (cslots c) = true ->
      plain_dict kw = true ->
      GEN f c allow interop (ind_kw kw) [] vrf = Ok obj ->
      idem_result c kw obj (fun kw' => GEN f c allow interop (ind_kw kw') [] vrf).
    Proof.
      intros c allow interop kw vrf obj Hio Hnd Hslots Hp H.
      unfold ind_ok in Hio. destruct (cinit c); try discriminate.
      apply andb_true_iff in Hio. destruct Hio as [Hio Hcons]. apply andb_true_iff in Hio. destruct Hio as [Hpt Hpv].
      destruct (slot_of c PTYPE) as [spt |] eqn:Espt; try discriminate.
      apply andb_true_iff in Hpt. destruct Hpt as [Hptk Hptd].
      destruct (slot_of c PVERSION) as [spv |] eqn:Espv; try discriminate.
      apply existsb_exists in Hcons. destruct Hcons as [k [Hkin Hk]].
      assert (Ek : k = CPatternValidator V21) by (destruct k; try discriminate; destruct v; try discriminate; reflexivity).
      subst k.
      (* the arguments after the rewrite *)
      assert (Hkw' : ind_kw kw = kw \/ ind_kw kw = aset PVERSION (JStr (u "2.1")) kw).
      { unfold ind_kw. cbv zeta. match goal with |- context [if ?b then _ else _] => destruct b end; auto. }
      assert (Hp' : plain_dict (ind_kw kw) = true).
      { destruct Hkw' as [E | E]; rewrite E; [exact Hp |]. apply plain_dict_aset; [exact Hp |]. reflexivity. }
      destruct (gen_idem c allow interop (ind_kw kw) vrf obj Hnd Hslots Hp' H) as [Sv [hc [Eo [Hre [Hpl [Hres Hgiv]]]]]].
      exists Sv, hc. split; [exact Eo |].
      assert (Hmono : forall n, amem n kw = true -> amem n (ind_kw kw) = true).
      { intros n Hn. destruct Hkw' as [E | E]; rewrite E; [exact Hn |]. unfold amem in *.
        destruct (ustr_eqb n PVERSION) eqn:En.
        - apply ustr_eqb_eq in En. subst n. rewrite alookup_aset_same. reflexivity.
        - rewrite alookup_aset_other; [exact Hn |]. intros E2. subst. rewrite ustr_eqb_refl in En. discriminate. }
      assert (Hanti : forall r, In r reserved_names -> amem r kw = false -> amem r (ind_kw kw) = false).
      { intros r Hr Hn. destruct Hkw' as [E | E]; rewrite E; [exact Hn |]. unfold amem in *.
        rewrite alookup_aset_other; [exact Hn |]. intros E2. subst r. unfold reserved_names, PVERSION in Hr. cbn [map In] in Hr.
        repeat (destruct Hr as [Hr | Hr]; [vm_compute in Hr; discriminate |]). contradiction. }
      split; [| split; [exact Hpl |]; split; [intros r Hr Hn; apply Hres; auto | intros n Hn; apply Hgiv; auto]].
      (* nothing is rewritten the second time: a stored stix pattern type has passed the validator with its version *)
      assert (Efix : ind_kw (written c Sv) = written c Sv).
      { unfold ind_kw. cbv zeta. change (u "pattern_type") with PTYPE. change (u "pattern_version") with PVERSION.
        destruct (jvalue_eqb (match alookup PTYPE (written c Sv) with Some v => v | None => JNull end) (JStr (u "stix"))) eqn:Eb;
          [| rewrite andb_false_r; reflexivity].
        apply jvalue_eqb_eq in Eb.
        destruct (alookup PTYPE (written c Sv)) as [x |] eqn:Ew; [| discriminate]. subst x.
        assert (Hst : alookup PTYPE Sv = Some (PJ (JStr (u "stix")))).
        { rewrite alookup_written in Ew. destruct (alookup PTYPE Sv) as [v0 |] eqn:Ev; try discriminate.
          destruct (mem_ustr PTYPE (defaulted_names c Sv)); try discriminate. inversion Ew as [Eenc]. clear Ew.
          subst obj. unfold GEN in H.
          destruct (alookup PTYPE (ind_kw kw)) as [j |] eqn:Ej.
          - pose proof (cg_given_value vr ev w pattern_ok selectors_ok rc rp ro c allow interop vrf Hnd (S f) (ind_kw kw) Sv _ hc
                          PTYPE j Hp' H Ej) as Hg. rewrite Espt in Hg. destruct Hg as [v [h [E1 E2]]].
            rewrite Ev in E1. inversion E1; subst v.
            destruct (string_kind_clean _ _ _ _ _ _ Hptk E2) as [s0 Es0]. subst v0. cbn [encode] in Eenc. rewrite Eenc. reflexivity.
          - exfalso.
            assert (Hab : amem PTYPE Sv = false).
            { eapply (cg_absent vr ev w pattern_ok selectors_ok rc rp ro c allow interop vrf Hnd); [exact Hp' | exact H | exact Ej |].
              intros sl Hsl. rewrite Espt in Hsl. inversion Hsl; subst. unfold is_dnone in Hptd. destruct (sdef sl); try discriminate. reflexivity. }
            unfold amem in Hab. rewrite Ev in Hab. discriminate. }
        subst obj. unfold GEN in H.
        pose proof (cg_constraints _ _ _ _ _ _ _ _ _ _ _ _ _ _ _ _ _ _ _ _ H Hkin) as Hc.
        cbn [eval_constr] in Hc. unfold pget in Hc. change (u "pattern_type") with PTYPE in Hc. rewrite Hst in Hc.
        rewrite ustr_eqb_refl in Hc. cbn [negb] in Hc. change (u "pattern_version") with PVERSION in Hc.
        destruct (alookup (u "pattern") Sv) as [[[| | | | p | |] | | | |] |]; try discriminate.
        destruct (alookup PVERSION Sv) as [[[| | | | pv | |] | | | |] |] eqn:Epv; try discriminate.
        assert (Hpvw : alookup PVERSION (written c Sv) = Some (JStr pv)).
        { rewrite (written_stored vr nestable c Hnd Hslots Sv PVERSION _ Epv); [reflexivity | intros b Hb; discriminate]. }
        rewrite Hpvw.
        assert (Hne : pv <> []).
        { intros E. subst pv. vm_compute in Hc. destruct (pattern_ok V21 p); discriminate. }
        cbn [truthy]. destruct pv; [contradiction |]. cbn [negb]. rewrite andb_false_r. reflexivity. }
      cbv beta. rewrite Efix. exact Hre.
    Qed.

    Lemma init_idem : forall c allow interop kw vrf obj,
      class_okw c = true -> plain_dict kw = true ->
      init_expr f c allow interop kw vrf = Ok obj ->
      idem_result c kw obj (fun kw' => init_expr f c allow interop kw' vrf).
    Proof.
      intros c allow interop kw vrf obj Hok Hp H. unfold class_okw in Hok.
      apply andb_true_iff in Hok. destruct Hok as [Hok _]. apply andb_true_iff in Hok. destruct Hok as [Hok Hinit].
      apply andb_true_iff in Hok. destruct Hok as [Hnd Hslots]. apply nodupb_NoDup in Hnd.
      unfold init_okw, md_ok, ind_ok in Hinit. unfold init_expr in *.
      destruct (cinit c) as [| names | | | vv | |] eqn:Ei; cbn [init_ok orb] in Hinit; try discriminate.
      - exact (gen_idem c allow interop kw vrf obj Hnd Hslots Hp H).
      - rewrite !orb_false_r in Hinit.
        rewrite (pos_filter_id vr names kw Hinit (plain_members_nonnull kw Hp)) in H.
        destruct (gen_idem c allow interop kw vrf obj Hnd Hslots Hp H) as [Sv [hc [Eo [Hre [Hpl [Hres Hgiv]]]]]].
        exists Sv, hc. split; [exact Eo |]. split; [| auto].
        rewrite (pos_filter_id vr names (written c Sv) Hinit (plain_members_nonnull _ Hpl)). exact Hre.
      - apply (ind_idem c allow interop kw vrf obj); auto. unfold ind_ok. rewrite Ei. exact Hinit.
      - exact (gen_idem c allow interop kw vrf obj Hnd Hslots Hp H).
      - rewrite orb_false_r in Hinit. apply (md_idem c vv allow interop kw vrf obj Ei); auto. unfold md_ok. rewrite Ei. exact Hinit.
      - exact (gen_idem c allow interop kw vrf obj Hnd Hslots Hp H).
    Qed.
    (* the generic constructor run a successful __init__ amounts to: its class, recursive constructor and arguments *)
    Definition effective (c : cls) (allow interop : bool) (kw : list (ustring * jvalue))
               (vrf : option (list (ustring * ustring))) (obj : pval) : Prop :=
      exists cE rcE PE kwE,
        rc_idem rcE ro PE /\ NoDup (map sname (cslots cE)) /\ forallb (slot_ok vr PE) (cslots cE) = true /\
        construct_generic vr ev w pattern_ok selectors_ok rcE rp ro (S f) cE allow interop kwE [] vrf = Ok obj /\
        plain_dict kwE = true /\ (forall n, n <> PVERSION -> alookup n kwE = alookup n kw) /\
        cid cE = cid c /\ (forall S0, defaulted_names cE S0 = defaulted_names c S0) /\
        (forall n, n <> DEF -> n <> CREATED -> slot_of cE n = slot_of c n) /\ PN cE = PN c.

    Lemma effective_plain : forall c allow interop kw vrf obj,
      NoDup (map sname (cslots c)) -> forallb (slot_ok vr nestable) (cslots c) = true -> plain_dict kw = true ->
      GEN f c allow interop kw [] vrf = Ok obj -> effective c allow interop kw vrf obj.
    Proof.
      intros c allow interop kw vrf obj Hnd Hslots Hp H. exists c, rc, nestable, kw.
      split; [exact (claim_rc f IH) |]. repeat split; auto.
    Qed.

    Lemma init_eff : forall c allow interop kw vrf obj,
      class_okw c = true -> plain_dict kw = true ->
      init_expr f c allow interop kw vrf = Ok obj -> effective c allow interop kw vrf obj.
    Proof.
      intros c allow interop kw vrf obj Hok Hp H. unfold class_okw in Hok.
      apply andb_true_iff in Hok. destruct Hok as [Hok _]. apply andb_true_iff in Hok. destruct Hok as [Hok Hinit].
      apply andb_true_iff in Hok. destruct Hok as [Hnd Hslots]. apply nodupb_NoDup in Hnd.
      unfold init_okw, md_ok, ind_ok in Hinit. unfold init_expr in *.
      destruct (cinit c) as [| names | | | vv | |] eqn:Ei; cbn [init_ok orb] in Hinit; try discriminate.
      - apply effective_plain; auto.
      - rewrite !orb_false_r in Hinit. rewrite (pos_filter_id vr names kw Hinit (plain_members_nonnull kw Hp)) in H.
        apply effective_plain; auto.
      - (* 2.1 Indicator: the arguments with the defaulted pattern_version *)
        assert (Hkw' : ind_kw kw = kw \/ ind_kw kw = aset PVERSION (JStr (u "2.1")) kw).
        { unfold ind_kw. cbv zeta. match goal with |- context [if ?b then _ else _] => destruct b end; auto. }
        exists c, rc, nestable, (ind_kw kw). split; [exact (claim_rc f IH) |]. repeat split; auto.
        + destruct Hkw' as [E | E]; rewrite E; [exact Hp |]. apply plain_dict_aset; [exact Hp | reflexivity].
        + intros n Hn. destruct Hkw' as [E | E]; rewrite E; [reflexivity |]. apply alookup_aset_other. exact Hn.
      - apply effective_plain; auto.
      - (* MarkingDefinition *)
        rewrite orb_false_r in Hinit.
        apply andb_true_iff in Hinit. destruct Hinit as [Hmd HV]. apply andb_true_iff in Hmd. destruct Hmd as [Hmd Hdt].
        apply andb_true_iff in Hmd. destruct Hmd as [Hmd Hms]. apply andb_true_iff in Hmd. destruct Hmd as [_ Hmk].
        unfold md_expr in H. change (u "definition_type") with DEFTYPE in H. change (u "definition") with DEF in H.
        destruct (alookup DEFTYPE kw) as [dt |] eqn:Edt; [| apply effective_plain; auto].
        destruct (alookup DEF kw) as [dv |] eqn:Edv; [| apply effective_plain; auto].
        destruct dt as [| | | | t | |]; try discriminate.
        destruct (class_for w t vv 3%N) as [mcid |] eqn:Ecf; try discriminate.
        destruct (md_unmodelled vv t kw) eqn:Eun; try discriminate.
        destruct dv as [| | | | | | dd]; cbn [get_dict bind] in H; try discriminate.
        destruct (amem (u "allow_custom") dd || amem (u "interoperability") dd || amem (u "self") dd) eqn:Er3; try discriminate.
        unfold bind in H.
        destruct (RUN f (RConstruct mcid false false dd None)) as [m | |] eqn:Em; try discriminate.
        assert (Hnm : nestable mcid = true).
        { unfold class_for in Ecf. cbn in Ecf. apply assoc_In in Ecf. rewrite forallb_forall in Hmk. exact (Hmk _ Ecf). }
        assert (Hms' : md_slots_ok (md_cls vv t c kw) = true).
        { destruct (md_cls_cases vv t c kw) as [E | [Ev E]]; rewrite E; [exact Hms |]. subst vv.
          apply andb_true_iff in HV. destruct HV as [HV _]. apply andb_true_iff in HV. destruct HV as [HV _].
          apply andb_true_iff in HV. destruct HV as [_ HV]. exact HV. }
        destruct (plain_dict_lookup kw DEF (JObj dd) Hp Edv) as [_ Hpd]. rewrite plain_json_obj in Hpd. fold (plain_dict dd) in Hpd.
        assert (Hres : reserved_kw dd = Ok tt).
        { apply orb_false_iff in Er3. destruct Er3 as [Er3 R3]. apply orb_false_iff in Er3. destruct Er3 as [R1 R2].
          unfold reserved_kw. rewrite R1, R2, R3. reflexivity. }
        set (c' := md_cls vv t c kw) in *.
        rewrite (md_reduce c' mcid allow interop vrf kw dd m Hms' Hp Edv Hpd Hres Em) in H.
        destruct (md_slots_facts c' Hms') as [_ [Hndw [Hslw _]]].
        exists (wrap_cls DEF c'), (rc2 mcid), P2, kw.
        split; [exact (rc2_idem mcid Hnm) |]. repeat split; auto.
        + cbn [cid wrap_cls]. apply md_cls_cid.
        + intros S0. rewrite wrap_defaulted. apply md_cls_defaulted.
        + intros n Hn1 Hn2. rewrite wrap_slot_of.
          assert (Ec' : slot_of c' n = slot_of c n).
          { unfold c'. destruct (md_cls_cases vv t c kw) as [E | [_ E]]; rewrite E; [reflexivity |].
            apply md_ms_slot_of. destruct (ustr_eqb n (u "created")) eqn:En; auto. apply ustr_eqb_eq in En. contradiction. }
          rewrite Ec'. destruct (slot_of c n) as [sl |] eqn:Esl; cbn [option_map]; [| reflexivity].
          destruct (slot_of_In c n sl Esl) as [_ En]. unfold wrap_slot. rewrite En.
          destruct (ustr_eqb n DEF) eqn:E2; [apply ustr_eqb_eq in E2; contradiction | reflexivity].
        + rewrite wrap_PN. unfold c'. destruct (md_cls_cases vv t c kw) as [E | [_ E]]; rewrite E; [reflexivity | apply md_ms_PN].
      - apply effective_plain; auto.
    Qed.
  End Level.

  Theorem run_construct_idem : forall fuel, claim fuel.
  Proof.
    induction fuel as [| f IH]; intros kid allow interop kw vrefs o Hm Hp Hid H.
    - cbn [run] in H. discriminate.
    - destruct (ids_found kid Hm) as [c Ef].
      pose proof (ids_class_okw kid c Hm Ef) as Hok.
      assert (Hiw : init_okw c = true).
      { unfold class_okw in Hok. apply andb_true_iff in Hok. destruct Hok as [Hok _]. apply andb_true_iff in Hok. tauto. }
      rewrite (run_unfold f kid allow interop kw vrefs c Ef Hiw) in H.
      rewrite (run_unfold f kid allow interop _ vrefs c Ef Hiw).
      destruct (amem (u "_valid_refs") kw || amem (u "allow_custom") kw || amem (u "interoperability") kw || amem (u "self") kw) eqn:Eres;
        try discriminate.
      destruct (reserved_split kw Eres) as [R1 [R2 [R3 R4]]].
      set (vrf := match cfamily c with FSco => Some match vrefs with Some r => r | None => [] end | _ => None end) in *.
      unfold bind in H.
      destruct (init_expr f c allow interop kw vrf) as [obj | |] eqn:Eg; try discriminate.
      destruct (init_idem f IH c allow interop kw vrf obj Hok Hp Eg) as [Sv [hc [Eobj [Hre [Hplw [Hresv Hgiven]]]]]].
      subst obj.
      pose proof Hok as Hok'. unfold class_okw in Hok'.
      apply andb_true_iff in Hok'. destruct Hok' as [Hok' Hidslot]. apply andb_true_iff in Hok'. destruct Hok' as [Hok' _].
      apply andb_true_iff in Hok'. destruct Hok' as [Hnd Hslots]. apply nodupb_NoDup in Hnd.
      assert (Eo : o = PObject (cid c) Sv (defaulted_names c Sv) hc).
      { unfold id_given in Hid. rewrite Ef in Hid. unfold is_sco21 in Hid. unfold post in H.
        destruct (cfamily c); try (inv_ok H; reflexivity).
        destruct (cver c); try (inv_ok H; reflexivity).
        cbn [negb orb] in Hid. rewrite Hid in H. inv_ok H. reflexivity. }
      subst o.
      assert (Eom : omem (PObject (cid c) Sv (defaulted_names c Sv) hc) = written c Sv).
      { unfold omem. rewrite encode_obj. reflexivity. }
      rewrite Eom.
      assert (In1 : In (u "_valid_refs") reserved_names) by (unfold reserved_names; cbn [map In]; repeat (try (left; reflexivity); right)).
      assert (In2 : In (u "allow_custom") reserved_names) by (unfold reserved_names; cbn [map In]; repeat (try (left; reflexivity); right)).
      assert (In3 : In (u "interoperability") reserved_names) by (unfold reserved_names; cbn [map In]; repeat (try (left; reflexivity); right)).
      assert (In4 : In (u "self") reserved_names) by (unfold reserved_names; cbn [map In]; repeat (try (left; reflexivity); right)).
      split; [rewrite encode_obj; reflexivity |].
      split; [| split; [| exact Hplw]].
      + unfold reserved_kw. rewrite (Hresv _ In2 R2), (Hresv _ In3 R3), (Hresv _ In4 R4). reflexivity.
      + rewrite (Hresv _ In1 R1), (Hresv _ In2 R2), (Hresv _ In3 R3), (Hresv _ In4 R4). cbn [orb].
        fold vrf. cbv beta in Hre. rewrite Hre. cbn [bind]. unfold post.
        unfold id_given in Hid; rewrite Ef in Hid; unfold is_sco21 in Hid, Hidslot.
        destruct (cfamily c); try reflexivity; destruct (cver c); try reflexivity.
        cbn [negb orb] in Hid, Hidslot.
        assert (Hidw : amem (u "id") (written c Sv) = true).
        { unfold amem; rewrite alookup_written.
          pose proof (Hgiven _ Hid) as Hs; unfold amem in Hs.
          destruct (alookup (u "id") Sv) as [v0 |] eqn:Ev; try discriminate.
          destruct (mem_ustr (u "id") (defaulted_names c Sv)) eqn:Ed; auto.
          exfalso.
          destruct (mem_defaulted vr nestable c Hnd Hslots _ _ Ed) as [sl [b [E1 [E2 _]]]].
          rewrite E1 in Hidslot; rewrite E2 in Hidslot; discriminate. }
        rewrite Hidw; reflexivity.
  Qed.
  (* a successful constructor run of a covered class, as a generic constructor run *)
  Lemma run_construct_eff : forall f kid allow interop kw vrefs o,
    mem_ustr kid ids = true -> plain_dict kw = true -> id_given kid kw = true ->
    RUN (S f) (RConstruct kid allow interop kw vrefs) = Ok o ->
    exists c, find_class (wclasses w) kid = Some c /\ class_okw c = true /\
      effective f c allow interop kw
        (match cfamily c with FSco => Some match vrefs with Some r => r | None => [] end | _ => None end) o.
  Proof.
    intros f kid allow interop kw vrefs o Hm Hp Hid H.
    destruct (ids_found kid Hm) as [c Ef]. exists c. split; [exact Ef |].
    pose proof (ids_class_okw kid c Hm Ef) as Hok. split; [exact Hok |].
    assert (Hiw : init_okw c = true).
    { unfold class_okw in Hok. apply andb_true_iff in Hok. destruct Hok as [Hok _]. apply andb_true_iff in Hok. tauto. }
    rewrite (run_unfold f kid allow interop kw vrefs c Ef Hiw) in H.
    destruct (amem (u "_valid_refs") kw || amem (u "allow_custom") kw || amem (u "interoperability") kw || amem (u "self") kw);
      try discriminate.
    unfold bind in H.
    match type of H with match ?g with _ => _ end = _ => destruct g as [obj | |] eqn:Eg; try discriminate end.
    assert (Eo : o = obj).
    { unfold id_given in Hid. rewrite Ef in Hid. unfold is_sco21 in Hid. unfold post in H.
      destruct obj; try (inv H; reflexivity).
      destruct (cfamily c); try (inv H; reflexivity). destruct (cver c); try (inv H; reflexivity).
      cbn [negb orb] in Hid. rewrite Hid in H. inv H. reflexivity. }
    subst obj. apply (init_eff f (run_construct_idem f) c allow interop kw _ o Hok Hp Eg).
  Qed.
End Knot.

(* ------------------------------------------------------------------ classes whose __init__ leaves the arguments alone *)
Section Plain.
  Variable vr : variant.
  Variable ev : env.
  Variable w : world.
  Variable pattern_ok : ver -> ustring -> bool.
  Variable selectors_ok : list (ustring * pval) -> pval -> result bool.
  Variable ids : list ustring.
  Hypothesis Hclosed : closed_ok vr w ids = true.

  Notation RUN := (run vr ev w pattern_ok selectors_ok).

  (* what a successful constructor run is: the class and the generic constructor over the recursive calls *)
  Lemma run_construct_cg : forall f kid allow interop kw vrefs o,
    mem_ustr kid ids = true -> plain_dict kw = true -> id_given w kid kw = true ->
    RUN (S f) (RConstruct kid allow interop kw vrefs) = Ok o ->
    exists c, find_class (wclasses w) kid = Some c /\ class_ok vr w ids c = true /\
      construct_generic vr ev w pattern_ok selectors_ok
        (fun k a i kw0 => RUN f (RConstruct k a i kw0 None))
        (fun a i d => RUN f (RParse a i None d))
        (fun vv refs a d => RUN f (RParseObs (Some vv) refs a false d))
        (S f) c allow interop kw []
        (match cfamily c with FSco => Some match vrefs with Some r => r | None => [] end | _ => None end) = Ok o.
  Proof.
    intros f kid allow interop kw vrefs o Hm Hpl Hid H.
    destruct (ids_found vr w ids (closed_ok_weaken vr w ids Hclosed) kid Hm) as [c Ef].
    exists c. split; [exact Ef |]. pose proof (ids_class_ok vr w ids Hclosed kid c Hm Ef) as Hok. split; [exact Hok |].
    unfold class_ok in Hok.
    apply andb_true_iff in Hok. destruct Hok as [Hok _]. apply andb_true_iff in Hok. destruct Hok as [_ Hinit].
    assert (Hiw : init_okw vr w ids c = true) by (unfold init_okw; rewrite Hinit; reflexivity).
    rewrite (run_unfold vr ev w pattern_ok selectors_ok ids f kid allow interop kw vrefs c Ef Hiw) in H.
    destruct (amem (u "_valid_refs") kw || amem (u "allow_custom") kw || amem (u "interoperability") kw || amem (u "self") kw);
      try discriminate.
    unfold bind in H.
    match type of H with match ?g with _ => _ end = _ => destruct g as [obj | |] eqn:Eg; try discriminate end.
    assert (Eo : o = obj).
    { unfold id_given in Hid. rewrite Ef in Hid. unfold is_sco21 in Hid. unfold post in H.
      destruct obj; try (inv H; reflexivity).
      destruct (cfamily c); try (inv H; reflexivity). destruct (cver c); try (inv H; reflexivity).
      cbn [negb orb] in Hid. rewrite Hid in H. inv H. reflexivity. }
    subst obj. unfold init_expr, GEN in Eg.
    destruct (cinit c) as [| names | | | vv | |]; cbn [init_ok] in Hinit; try discriminate; try exact Eg.
    rewrite (pos_filter_id vr names kw Hinit (plain_members_nonnull kw Hpl)) in Eg. exact Eg.
  Qed.
End Plain.

(* ------------------------------------------------------------------ the proved classes of a world *)
(* greatest set of class ids closed under nesting whose tables pass class_ok: start from every class
   and drop those that fail, a few rounds (the nesting depth of the tables is small) *)
Definition keep_ok (vr : variant) (w : world) (ids : list ustring) : list ustring :=
  filter (fun cid0 => match find_class (wclasses w) cid0 with Some c => class_ok vr w ids c | None => false end) ids.

Fixpoint refine_ids (n : nat) (vr : variant) (w : world) (ids : list ustring) : list ustring :=
  match n with O => ids | S k => refine_ids k vr w (keep_ok vr w ids) end.

Definition proved_ids (vr : variant) (w : world) : list ustring := refine_ids 8 vr w (map cid (wclasses w)).

Definition keep_oki (vr : variant) (w : world) (ids : list ustring) : list ustring :=
  filter (fun cid0 => match find_class (wclasses w) cid0 with Some c => class_oki vr w ids c | None => false end) ids.

Fixpoint refine_idsi (n : nat) (vr : variant) (w : world) (ids : list ustring) : list ustring :=
  match n with O => ids | S k => refine_idsi k vr w (keep_oki vr w ids) end.

Definition proved_idsi (vr : variant) (w : world) : list ustring := refine_idsi 8 vr w (map cid (wclasses w)).

(* the same with the wrapping __init__ forms admitted (class_okw) *)
Definition keep_okw (vr : variant) (w : world) (ids : list ustring) : list ustring :=
  filter (fun cid0 => match find_class (wclasses w) cid0 with Some c => class_okw vr w ids c | None => false end) ids.

Fixpoint refine_idsw (n : nat) (vr : variant) (w : world) (ids : list ustring) : list ustring :=
  match n with O => ids | S k => refine_idsw k vr w (keep_okw vr w ids) end.

Definition proved_idsw (vr : variant) (w : world) : list ustring := refine_idsw 8 vr w (map cid (wclasses w)).

(* corollaries in the vocabulary of the property *)
Section Corollaries.
  Variable vr : variant.
  Variable ev : env.
  Variable w : world.
  Variable pattern_ok : ver -> ustring -> bool.
  Variable selectors_ok : list (ustring * pval) -> pval -> result bool.
  Hypothesis Hpad : vr_year_pad vr = true.
  Variable ids : list ustring.
  Hypothesis Hclosed : closed_okw vr w ids = true.

  (* constructing from the serialization gives the same object (same class, members, defaulted list, flag) *)
  Theorem construct_roundtrip : forall fuel kid allow interop kw vrefs o,
    mem_ustr kid ids = true -> plain_dict kw = true -> id_given w kid kw = true ->
    run vr ev w pattern_ok selectors_ok fuel (RConstruct kid allow interop kw vrefs) = Ok o ->
    run vr ev w pattern_ok selectors_ok fuel (RConstruct kid allow interop (omem o) vrefs) = Ok o.
  Proof.
    intros fuel kid allow interop kw vrefs o Hm Hp Hid H.
    destruct (run_construct_idem vr ev w pattern_ok selectors_ok Hpad ids Hclosed fuel kid allow interop kw vrefs o Hm Hp Hid H) as [_ [_ [Hr _]]]. exact Hr.
  Qed.

  (* ... hence serializing that object again gives the same ordered members, under every option set *)
  Theorem reserialize_identical_construct : forall fuel kid allow interop kw vrefs o o' (opts : Serialize.sopts),
    mem_ustr kid ids = true -> plain_dict kw = true -> id_given w kid kw = true ->
    run vr ev w pattern_ok selectors_ok fuel (RConstruct kid allow interop kw vrefs) = Ok o ->
    run vr ev w pattern_ok selectors_ok fuel (RConstruct kid allow interop (omem o) vrefs) = Ok o' ->
    Serialize.serialize_value opts o' = Serialize.serialize_value opts o.
  Proof.
    intros fuel kid allow interop kw vrefs o o' opts Hm Hp Hid H H'.
    rewrite (construct_roundtrip fuel kid allow interop kw vrefs o Hm Hp Hid H) in H'. inversion H'. reflexivity.
  Qed.
End Corollaries.

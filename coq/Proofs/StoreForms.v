(* Proofs/StoreForms.v -- every input form of add() (object, dictionary, list,
   nested list, bundle, JSON text) reduces to the sequence of its objects
   (property C11).                                                            *)
From Coq Require Import NArith ZArith List Bool Lia Permutation.
From V Require Import Base.UString Model.Store Model.StoreRun Spec.StoreSpec
  Proofs.StoreBase Proofs.StoreMem Proofs.StoreFs Proofs.StoreAgree.
Import ListNotations.
Open Scope list_scope.

Section Forms.
  Variable mode : text_mode.
  Variable iot : ustring -> option Z.
  Variable ts2fn : Z -> ustring.

  Notation nrm := (norm_obj mode iot).
  Notation run := (mem_run mode iot).
  Notation madd' := (madd mode iot).
  Notation fadd' := (fadd mode iot ts2fn).

  Definition call_objs (segs : list segment) : list obj := fst (goods_prefix (call_items segs)).
  Definition call_complete (segs : list segment) : bool := snd (goods_prefix (call_items segs)).

  Lemma mem_add_items_app : forall a b m,
    mem_add_items mode iot (a ++ b) m =
    let (m', e) := mem_add_items mode iot a m in
    match e with None => mem_add_items mode iot b m' | Some _ => (m', e) end.
  Proof.
    induction a as [|i a IH]; intros b m; simpl.
    - destruct (mem_add_items mode iot b m). reflexivity.
    - destruct i; auto.
      destruct (mem_add1 mode iot o m) as [m1 [e1|]]; auto.
  Qed.

  Lemma mem_add_segs_items : forall segs m,
    mem_add_segs mode iot segs m = mem_add_items mode iot (call_items segs) m.
  Proof.
    induction segs as [|[at_ its] r IH]; intros m; simpl; auto.
    unfold call_items in *. simpl. rewrite mem_add_items_app.
    destruct (mem_add_items mode iot its m) as [m' [e|]]; auto.
  Qed.

  (* memory, on the theorems' domain: the call stores exactly the objects that
     precede the first refused item, and raises iff there is a refused item *)
  Lemma mem_items_flatten : forall its L0 m,
    MemInv L0 m ->
    Forall clean (map nrm (fst (goods_prefix its))) -> uniform (L0 ++ map nrm (fst (goods_prefix its))) ->
    mem_add_items mode iot its m =
      (fold_left madd' (fst (goods_prefix its)) m, if snd (goods_prefix its) then None else Some EParse) /\
    MemInv (L0 ++ map nrm (fst (goods_prefix its))) (fold_left madd' (fst (goods_prefix its)) m).
  Proof.
    induction its as [|i its IH]; intros L0 m I F U; simpl in *.
    - rewrite app_nil_r. auto.
    - destruct i; simpl in *; try (rewrite app_nil_r; auto; fail).
      destruct (goods_prefix its) as [l fin] eqn:Eg. simpl in *.
      inversion F; subst.
      assert (uniform (L0 ++ [nrm o])) as U1.
      { apply (uniform_app_l _ (map nrm l)). rewrite <- app_assoc. exact U. }
      destruct (add1_step mode iot _ _ _ I H1 U1) as [m' [E I']].
      rewrite add1_nrm in E.
      assert (madd' m o = m') as Em by (unfold madd; rewrite E; reflexivity).
      rewrite E, Em.
      replace (L0 ++ nrm o :: map nrm l) with ((L0 ++ [nrm o]) ++ map nrm l) in * by (rewrite <- app_assoc; reflexivity).
      apply IH; auto.
  Qed.

  Theorem mem_call_flatten : forall segs L0 m,
    MemInv L0 m -> Forall clean (map nrm (call_objs segs)) -> uniform (L0 ++ map nrm (call_objs segs)) ->
    mem_add_segs mode iot segs m =
      (fold_left madd' (call_objs segs) m, if call_complete segs then None else Some EParse).
  Proof.
    intros segs L0 m I F U. rewrite mem_add_segs_items.
    destruct (mem_items_flatten (call_items segs) L0 m I F U) as [E _]. exact E.
  Qed.

  (* a history of calls in any forms = the history of the objects they hand over *)
  Theorem mem_calls_flatten : forall calls,
    let L := flat_map call_objs calls in
    Forall clean (map nrm L) -> uniform (map nrm L) ->
    mem_calls mode iot calls = run L.
  Proof.
    intros calls. induction calls as [|c calls IH] using rev_ind; intros L F U.
    - reflexivity.
    - unfold L in *. rewrite flat_map_app in *. simpl in *. rewrite app_nil_r in *.
      rewrite map_app in F, U. apply Forall_app in F. destruct F as [F1 F2].
      unfold mem_calls. rewrite fold_left_app. simpl. fold (mem_calls mode iot calls).
      rewrite (IH F1 (uniform_app_l _ _ U)).
      destruct (run_inv mode iot _ F1 (uniform_app_l _ _ U)) as [I _]. rewrite run_map_nrm in I.
      rewrite (mem_call_flatten c _ _ I F2 U). simpl.
      unfold mem_run. rewrite fold_left_app. reflexivity.
  Qed.

  (* filesystem, structurally (no hypothesis): whatever a call does, the store
     afterwards is the store after adding, one by one, an initial part of the
     call's objects; a call that returns normally has added all of them *)
  Lemma fs_items_prefix : forall its s s' e,
    fs_add_items mode iot ts2fn its s = (s', e) ->
    exists l1 l2, fst (goods_prefix its) = l1 ++ l2 /\ s' = fold_left fadd' l1 s /\
                  (e = None -> l2 = [] /\ snd (goods_prefix its) = true).
  Proof.
    induction its as [|i its IH]; intros s s' e H; simpl in *.
    - inversion H; subst. exists [], []. auto.
    - destruct i; simpl in *; try (inversion H; subst; exists [], []; repeat split; auto; discriminate).
      destruct (goods_prefix its) as [l fin] eqn:Eg. simpl in *.
      destruct (fs_add1 mode iot ts2fn o s) as [s1 [e1|]] eqn:E1.
      + inversion H; subst. exists [o], l. repeat split; try discriminate.
        simpl. unfold fadd. rewrite E1. reflexivity.
      + destruct (IH _ _ _ H) as [l1 [l2 [A [B C]]]].
        exists (o :: l1), l2. split; [simpl; congruence|]. split; auto.
        simpl. unfold fadd at 2. rewrite E1. exact B.
  Qed.

  Lemma goods_prefix_app : forall a b,
    goods_prefix (a ++ b) =
    (if snd (goods_prefix a) then (fst (goods_prefix a) ++ fst (goods_prefix b), snd (goods_prefix b))
     else goods_prefix a).
  Proof.
    induction a as [|i a IH]; intros b; simpl.
    - destruct (goods_prefix b); reflexivity.
    - destruct i; auto. rewrite IH.
      destruct (goods_prefix a) as [l [|]]; simpl; auto.
  Qed.

  Theorem fs_call_prefix : forall segs s s' e,
    fs_add_segs mode iot ts2fn segs s = (s', e) ->
    exists l1 l2, call_objs segs = l1 ++ l2 /\ s' = fold_left fadd' l1 s /\
                  (e = None -> l2 = [] /\ call_complete segs = true).
  Proof.
    unfold call_objs, call_complete, call_items.
    induction segs as [|[at_ its] r IH]; intros s s' e H; simpl in *.
    - inversion H; subst. exists [], []. auto.
    - rewrite goods_prefix_app.
      destruct (at_ && existsb is_bad its) eqn:Eb.
      + inversion H; subst. exists [], (fst (if snd (goods_prefix its)
            then (fst (goods_prefix its) ++ fst (goods_prefix (flat_map snd r)), snd (goods_prefix (flat_map snd r)))
            else goods_prefix its)).
        repeat split; auto; discriminate.
      + destruct (fs_add_items mode iot ts2fn its s) as [s1 [e1|]] eqn:E1.
        * inversion H; subst. destruct (fs_items_prefix _ _ _ _ E1) as [l1 [l2 [A [B C]]]].
          destruct (snd (goods_prefix its)) eqn:Ef; simpl.
          -- exists l1, (l2 ++ fst (goods_prefix (flat_map snd r))). rewrite A, <- app_assoc.
             repeat split; auto; discriminate.
          -- exists l1, l2. repeat split; auto; discriminate.
        * destruct (fs_items_prefix _ _ _ _ E1) as [l1 [l2 [A [B C]]]].
          destruct (C eq_refl) as [C1 C2]. subst l2. rewrite app_nil_r in A. rewrite C2. simpl.
          destruct (IH _ _ _ H) as [k1 [k2 [A' [B' C']]]].
          exists (l1 ++ k1), k2. rewrite A, A', app_assoc. split; auto. split; auto.
          rewrite fold_left_app. congruence.
  Qed.
End Forms.

(* Proofs/C01Examples.v -- positive instances: the hypotheses of the C01 / C04 theorems are jointly satisfiable on the
   generated tables with ordinary objects, and the theorems say something about them (kernel-evaluated runs of the
   model under the repaired variant).                                                                       *)
From Coq Require Import NArith ZArith List String Bool.
From V Require Import Base.UString Base.Json Model.SchemaTypes Model.PyBase Model.Schema.
From V Require Import Gen.Tables Proofs.C01KindsAll Proofs.C01Roundtrip Proofs.C01Parse Proofs.C01Bundle Proofs.C01Observed
  Proofs.C01LibInstance Proofs.C04Witness Proofs.C04Flag Proofs.C04Parse.
Import ListNotations.

Notation RUNX := (run variant_repaired env0 lib any_pattern any_selectors).

Definition identity21 : list (ustring * jvalue) :=
  [ (u "type", JStr (u "identity")); (u "spec_version", JStr (u "2.1"));
    (u "id", JStr (u "identity--311b2d2d-f010-4473-83ec-1edf84858f4c"));
    (u "created", JStr (u "2020-01-01T00:00:00.000Z")); (u "modified", JStr (u "2020-01-01T00:00:00.000Z"));
    (u "name", JStr (u "a"));
    (u "object_marking_refs", JArr [JStr (u "marking-definition--613f2e26-407d-48c7-9eca-b8e91df99dc9")]) ].

Definition identity21_custom : list (ustring * jvalue) := identity21 ++ [(u "x_foo", JInt 1)].

Definition result_class (r : result pval) : option ustring :=
  match r with Ok (PObject ci _ _ _) => Some ci | _ => None end.

(* a strict parse of an ordinary 2.1 identity succeeds, the input is plain, its class is a covered parse entry point *)
Example identity_parse_facts :
  result_class (RUNX 6 (RParse false false None identity21)) = Some (u "2.1/Identity") /\
  plain_dict identity21 = true /\ mem_ustr (u "2.1/Identity") lib_parse_idsw = true /\ mem_ustr (u "2.1/Identity") lib_parse_idsi = true.
Proof. vm_compute. repeat split; reflexivity. Qed.

(* ... and the parse-level round trip theorem applies to it *)
Example identity_parse_roundtrip :
  exists o, RUNX 6 (RParse false false None identity21) = Ok o /\ RUNX 6 (RParse false false None (omem o)) = Ok o.
Proof.
  destruct (RUNX 6 (RParse false false None identity21)) as [o | |] eqn:E.
  2,3: exfalso; vm_compute in E; discriminate.
  exists o. split; [reflexivity |].
  destruct o as [| | | | ci Sv dfl hc]; try (exfalso; vm_compute in E; discriminate).
  assert (Eci : ci = u "2.1/Identity").
  { pose proof (f_equal result_class E) as Hc. cbn [result_class] in Hc. vm_compute in Hc. inversion Hc. reflexivity. }
  apply (parse_roundtrip variant_repaired env0 lib any_pattern any_selectors eq_refl lib_proved_idsw lib_proved_closedw lib_registry_ok
           lib_parse_idsw lib_parse_subw lib_parse_okw 6 false false identity21 ci Sv dfl hc).
  - vm_compute. reflexivity.
  - rewrite Eci. vm_compute. reflexivity.
  - left. vm_compute. reflexivity.
  - exact E.
Qed.

(* custom content: with allow_custom=True the object is flagged, and the strict run on its own encoding is refused
   with a definite error (ExtraPropertiesError) *)
Definition flagged (r : result pval) : bool := match r with Ok (PObject _ _ _ true) => true | _ => false end.
Definition strict_rerun_error (r : result pval) : option errclass :=
  match r with
  | Ok o => match RUNX 6 (RParse false false None (omem o)) with Err e => Some e | _ => None end
  | _ => None
  end.

Example identity_custom_flagged_and_refused :
  flagged (RUNX 6 (RParse true false None identity21_custom)) = true /\
  strict_rerun_error (RUNX 6 (RParse true false None identity21_custom)) = Some EExtra /\
  plain_dict identity21_custom = true.
Proof. vm_compute. repeat split; reflexivity. Qed.

(* a bundle with that identity as its member *)
Definition bundle21 : list (ustring * jvalue) :=
  [ (u "type", JStr (u "bundle")); (u "id", JStr (u "bundle--311b2d2d-f010-4473-83ec-1edf84858f4c"));
    (u "objects", JArr [JObj identity21]) ].

Definition bundle_facts (r : result pval) : bool :=
  match r with Ok o => bundle_members_ok lib lib_parse_idsw bundle21 o | _ => false end.

Example bundle_construct_facts :
  bundle_facts (RUNX 7 (RConstruct (u "2.1/Bundle") false false bundle21 None)) = true /\ plain_dict bundle21 = true /\
  match find_class (wclasses lib) (u "2.1/Bundle") with Some c => bundle_ok variant_repaired lib lib_proved_idsw c | None => false end = true.
Proof. vm_compute. repeat split; reflexivity. Qed.

Example bundle_construct_roundtrip :
  exists o, RUNX 7 (RConstruct (u "2.1/Bundle") false false bundle21 None) = Ok o /\
            RUNX 7 (RConstruct (u "2.1/Bundle") false false (omem o) None) = Ok o.
Proof.
  destruct (RUNX 7 (RConstruct (u "2.1/Bundle") false false bundle21 None)) as [o | |] eqn:E.
  2,3: exfalso; vm_compute in E; discriminate.
  exists o. split; [reflexivity |].
  destruct (find_class (wclasses lib) (u "2.1/Bundle")) as [c |] eqn:Ef; [| vm_compute in Ef; discriminate].
  apply (bundle_roundtripw variant_repaired env0 lib any_pattern any_selectors eq_refl lib_proved_idsw lib_proved_closedw lib_registry_ok
           lib_parse_idsw lib_parse_subw lib_parse_okw 7 (u "2.1/Bundle") false false bundle21 None o c Ef).
  - vm_compute in Ef. inversion Ef. vm_compute. reflexivity.
  - vm_compute. reflexivity.
  - exact E.
  - pose proof (f_equal bundle_facts E) as Hb. cbn [bundle_facts] in Hb. rewrite <- Hb. vm_compute. reflexivity.
Qed.

(* a 2.0 observed-data container with a file and a directory that refer to each other *)
Definition observed20 : list (ustring * jvalue) :=
  [ (u "type", JStr (u "observed-data")); (u "id", JStr (u "observed-data--311b2d2d-f010-4473-83ec-1edf84858f4c"));
    (u "created", JStr (u "2020-01-01T00:00:00.000Z")); (u "modified", JStr (u "2020-01-01T00:00:00.000Z"));
    (u "first_observed", JStr (u "2020-01-01T00:00:00Z")); (u "last_observed", JStr (u "2020-01-01T00:00:00Z"));
    (u "number_observed", JInt 1);
    (u "objects", JObj [ (u "0", JObj [(u "type", JStr (u "file")); (u "name", JStr (u "a.txt")); (u "parent_directory_ref", JStr (u "1"))]);
                         (u "1", JObj [(u "type", JStr (u "directory")); (u "path", JStr (u "/tmp"))]) ]) ].

Example observed20_construct_roundtrip :
  exists o, RUNX 7 (RConstruct (u "2.0/ObservedData") false false observed20 None) = Ok o /\
            RUNX 7 (RConstruct (u "2.0/ObservedData") false false (omem o) None) = Ok o.
Proof.
  destruct (RUNX 7 (RConstruct (u "2.0/ObservedData") false false observed20 None)) as [o | |] eqn:E.
  2,3: exfalso; vm_compute in E; discriminate.
  exists o. split; [reflexivity |].
  destruct (find_class (wclasses lib) (u "2.0/ObservedData")) as [c |] eqn:Ef; [| vm_compute in Ef; discriminate].
  apply (observed20_roundtrip variant_repaired env0 lib any_pattern any_selectors eq_refl lib_proved_idsw lib_proved_closedw
           7 (u "2.0/ObservedData") false false observed20 None o c Ef).
  - vm_compute in Ef. inversion Ef. vm_compute. reflexivity.
  - vm_compute. reflexivity.
  - exact E.
Qed.

(* Proofs/HeapApiFacts.v -- frame theorems for the public operations of
   Model/HeapApi.v: versioning, markings, bundle, factory, memory store; and
   the attribute guards.                                                     *)
From Coq Require Import NArith ZArith String Bool Arith List Lia.
From V Require Import Model.Heap Model.HeapOps Model.HeapApi Proofs.HeapFacts Proofs.HeapInterp.
Import ListNotations.
Open Scope nat_scope.

(* every defensive copy of the library is a copy; the factory's is deep *)
Definition safe (vt : variant) : Prop :=
  copies vt /\ cm_nv vt <> NoCopy /\ cm_fac vt = Deep.

Lemma safe_as_written : safe as_written.
Proof. split; [apply copies_as_written|]. split; [discriminate|reflexivity]. Qed.

(* accumulating the frame along straight-line code *)
Lemma keeps_alloc : forall b h h1 n h2 l, keeps b h h1 -> alloc h1 n = (h2, l) -> keeps b h h2.
Proof. intros. eapply keeps_then_grows; eauto. eapply alloc_grows; eauto. Qed.

Lemma keeps_wrote : forall b h h1 l h2, keeps b h h1 -> b <= l -> wrote l h1 h2 -> keeps b h h2.
Proof. intros. eapply keeps_trans; eauto. eapply wrote_keeps; eauto. Qed.

Lemma alloc_fresh : forall h h1 n h2 l, keeps (length h) h h1 -> alloc h1 n = (h2, l) -> length h <= l.
Proof. intros h h1 n h2 l K Ha. rewrite (alloc_loc _ _ _ _ Ha). eapply keeps_len; eauto. Qed.

Ltac kleaf K :=
  match goal with
  | H : (_, _) = (_, _) |- _ => apply pair_inv in H; destruct H; subst
  end;
  try (apply keeps_grows; exact K); try exact K; eauto using grows_refl, keeps_refl, grows_keeps.

(* case analysis on the scrutinee of the match a hypothesis starts with *)
Ltac case_in E :=
  match type of E with
  | (match ?c with _ => _ end) = _ => revert E; destruct c; intro E
  end.

Tactic Notation "dalloc" hyp(H) "as" ident(h) ident(l) ident(E) :=
  match type of H with
  | (let (_, _) := alloc ?hh ?nn in _) = _ => destruct (alloc hh nn) as [h l] eqn:E
  end.


Lemma append_item_get : forall h l v h', append_item h l v = Some h' ->
  exists xs, get h l = Some (NList xs) /\ get h' l = Some (NList (xs ++ [v])).
Proof.
  unfold append_item. intros h l v h' H.
  destruct (get h l) as [[m|xs|c fs|m]|] eqn:E; inversion H. exists xs. split; auto.
  apply get_upd_same. eapply get_lt; eauto.
Qed.

Lemma del_item_get_dict : forall h l k h', del_item h l k = Some h' ->
  exists m, get h l = Some (NDict m) /\ get h' l = Some (NDict (assoc_del k m)).
Proof.
  unfold del_item. intros h l k h' H.
  destruct (get h l) as [[m|xs|c fs|m]|] eqn:E; try discriminate.
  destruct (assoc k m); inversion H. exists m. split; auto.
  apply get_upd_same. eapply get_lt; eauto.
Qed.

Lemma assoc_in : forall k m v, assoc k m = Some v -> In v (map snd m).
Proof.
  induction m as [|[k' v'] r IH]; simpl; intros v H; [discriminate|].
  destruct (ustr_eqb k k'); [inversion H; auto | right; auto].
Qed.

Lemma assoc_set_in : forall k v m x, In x (map snd (assoc_set k v m)) -> x = v \/ In x (map snd m).
Proof.
  induction m as [|[k' v'] r IH]; simpl; intros x H.
  - destruct H; auto.
  - destruct (ustr_eqb k k'); simpl in H.
    + destruct H; auto.
    + destruct H; auto. destruct (IH _ H); auto.
Qed.

Lemma assoc_del_in : forall k m x, In x (map snd (assoc_del k m)) -> In x (map snd m).
Proof.
  induction m as [|[k' v'] r IH]; simpl; intros x H; auto.
  destruct (ustr_eqb k k'); simpl in *; auto. destruct H; auto.
Qed.

Section ApiFacts.
  Variable vt : variant.
  Variable W : world.
  Hypothesis Hvt : safe vt.

  Lemma run_grows : forall q h h' res, run vt W q h = (h', res) -> grows h h'.
  Proof. unfold run. intros. eapply interp_grows; eauto. apply Hvt. Qed.

  (* ---------------- versioning ---------------- *)
  Lemma new_version_grows : forall data kwargs h h' res,
    new_version vt W data kwargs h = (h', res) -> grows h h'.
  Proof.
    unfold new_version, bindv. intros data kwargs h h' res H.
    destruct (mapping_entries h data) as [m|]; [|leaf].
    match type of H with (if ?c then _ else _) = _ => destruct c end; [leaf|].
    match type of H with (if ?c then _ else _) = _ => destruct c end; [leaf|].
    match type of H with context [copy_at (cm_nv vt) FUEL ?s h] => set (src := s) in * end.
    destruct (copy_at (cm_nv vt) FUEL src h) as [h1 r1] eqn:Ec.
    assert (K1 : keeps (length h) h h1) by (apply grows_keeps; eapply copy_at_grows; eauto).
    destruct r1; try (kleaf K1; fail).
    destruct v as [a|c]; [kleaf K1|]. cbv beta iota in H.
    assert (Hc : length h <= c) by (eapply copy_at_fresh; [|eauto]; apply Hvt).
    destruct (alloc h1 (NDict kwargs)) as [h2 kw] eqn:Ea.
    assert (Hkw := alloc_fresh _ _ _ _ _ K1 Ea).
    assert (K2 := keeps_alloc _ _ _ _ _ _ K1 Ea).
    match type of H with (match ?x with _ => _ end) = _ => destruct x as [h3|] eqn:E3 end; [|kleaf K2].
    assert (K3 : keeps (length h) h h3).
    { case_in E3.
      - inversion E3; subst; auto.
      - eapply keeps_wrote; [exact K2| |eapply set_item_wrote; eauto]. auto. }
    destruct (get h3 kw) as [[kwm|?|? ?|?]|]; try (kleaf K3; fail).
    destruct (update_items h3 c kwm) as [h4|] eqn:E4; [|kleaf K3].
    assert (K4 : keeps (length h) h h4) by (eapply keeps_wrote; [exact K3| |eapply update_items_wrote; eauto]; auto).
    match type of H with (match ?x with _ => _ end) = _ => destruct x as [h5|] eqn:E5 end; [|kleaf K4].
    assert (K5 : keeps (length h) h h5).
    { case_in E5.
      - eapply keeps_wrote; [exact K4| |eapply set_item_wrote; eauto]. auto.
      - inversion E5; subst; auto. }
    destruct (get h5 c) as [[inner|?|? ?|?]|]; try (kleaf K5; fail).
    match type of H with (let (_, _) := alloc ?hh ?nn in _) = _ => destruct (alloc hh nn) as [h6 f] eqn:Ea6 end.
    assert (K6 := keeps_alloc _ _ _ _ _ _ K5 Ea6).
    destruct (class_of h data); [|kleaf K6].
    apply keeps_grows. eapply keeps_then_grows; [exact K6|]. eapply run_grows; eauto.
  Qed.

  Lemma revoke_grows : forall data h h' res, revoke vt W data h = (h', res) -> grows h h'.
  Proof.
    unfold revoke. intros data h h' res H.
    destruct (mapping_entries h data); [|leaf].
    match type of H with (if ?c then _ else _) = _ => destruct c end; [leaf|].
    eapply new_version_grows; eauto.
  Qed.

  (* ---------------- markings/utils ---------------- *)
  Definition list_fresh (b : nat) (h : heap) (e : nat) : Prop :=
    exists xs, get h e = Some (NList xs) /\ Forall (fresh_ref b) xs.

  Lemma expand_one_inv : forall key ref e b sels h h',
    b <= e -> b <= length h -> list_fresh b h e -> expand_one key ref e sels h = Some h' ->
    keeps b h h' /\ list_fresh b h' e.
  Proof.
    induction sels as [|s rest IH]; simpl; intros h h' He Hb L H.
    - inversion H; subst. split; auto. apply keeps_refl.
    - destruct (alloc h (NList [s])) as [h1 sl] eqn:Ea1.
      dalloc H as h2 d Ea2.
      destruct (append_item h2 e (VR d)) as [h3|] eqn:Eap; [|discriminate].
      assert (G1 := alloc_grows _ _ _ _ Ea1). assert (G2 := alloc_grows _ _ _ _ Ea2).
      assert (Hd : b <= d).
      { rewrite (alloc_loc _ _ _ _ Ea2). apply grows_len in G1. lia. }
      destruct L as (xs & Ex & Fx).
      assert (E2 : get h2 e = Some (NList xs)) by (eapply grows_get; [exact G2|]; eapply grows_get; eauto).
      destruct (append_item_get _ _ _ _ Eap) as (xs' & Ex' & Ex3). rewrite E2 in Ex'. inversion Ex'; subst xs'.
      assert (W3 := append_item_wrote _ _ _ _ Eap).
      destruct (IH h3 h') as [K L']; auto.
      + destruct W3 as [Len _]. rewrite Len. apply grows_len in G1. apply grows_len in G2. lia.
      + exists (xs ++ [VR d]). split; auto. apply Forall_app. split; auto.
      + split; auto.
        eapply keeps_trans; [apply grows_keeps; exact G1|].
        eapply keeps_trans; [apply grows_keeps; exact G2|].
        eapply keeps_trans; [eapply (wrote_keeps b e); eauto|]. exact K.
  Qed.

  Lemma expand_loop_inv : forall e b ms h h',
    b <= e -> b <= length h -> list_fresh b h e -> expand_loop e ms h = Some h' ->
    keeps b h h' /\ list_fresh b h' e.
  Proof.
    induction ms as [|m rest IH]; simpl; intros h h' He Hb L H.
    - inversion H; subst. split; auto. apply keeps_refl.
    - match type of H with (match ?x with _ => _ end) = _ => destruct x as [h1|] eqn:E1 end; [|discriminate].
      assert (I1 : keeps b h h1 /\ list_fresh b h1 e).
      { case_in E1.
        - eapply expand_one_inv; eauto.
        - inversion E1; subst. split; auto. apply keeps_refl. }
      destruct I1 as [K1 L1].
      match type of H with (match ?x with _ => _ end) = _ => destruct x as [h2|] eqn:E2 end; [|discriminate].
      assert (I2 : keeps b h1 h2 /\ list_fresh b h2 e).
      { case_in E2.
        - eapply expand_one_inv; eauto. apply keeps_len in K1. lia.
        - inversion E2; subst. split; auto. apply keeps_refl. }
      destruct I2 as [K2 L2].
      destruct (IH h2 h') as [K3 L3]; auto.
      + apply keeps_len in K1. apply keeps_len in K2. lia.
      + split; auto. eapply keeps_trans; eauto. eapply keeps_trans; eauto.
  Qed.

  (* expand_markings: the result is a new list of new dicts *)
  Lemma expand_markings_spec : forall gm h h' res, expand_markings gm h = (h', res) ->
    grows h h' /\ forall v, res = RVal v -> exists e, v = VR e /\ length h <= e /\ list_fresh (length h) h' e.
  Proof.
    unfold expand_markings. intros gm h h' res H.
    destruct (list_items h gm) as [ms|].
    - destruct (alloc h (NList [])) as [h1 e] eqn:Ea.
      assert (G1 := alloc_grows _ _ _ _ Ea). assert (He := alloc_loc _ _ _ _ Ea).
      assert (L1 : list_fresh (length h) h1 e) by (exists []; split; [eapply alloc_get_new; eauto | constructor]).
      unfold lift in H. destruct (expand_loop e ms h1) as [h2|] eqn:El.
      + inversion H; subst h' res.
        destruct (expand_loop_inv e (length h) ms h1 h2) as [K L]; auto; try lia.
        { apply grows_len in G1. lia. }
        split.
        * eapply grows_then_keeps; eauto.
        * intros v Ev. inversion Ev; subst. exists (length h). repeat split; auto.
      + inversion H; subst. split; auto. intros; discriminate.
    - inversion H; subst. split; [apply grows_refl | intros; discriminate].
  Qed.

  Lemma expand_markings_grows : forall gm h h' res, expand_markings gm h = (h', res) -> grows h h'.
  Proof. intros. eapply expand_markings_spec; eauto. Qed.

  Lemma compress_build_grows : forall g h h' ds, compress_build g h = (h', ds) -> grows h h'.
  Proof.
    induction g as [|[k ss] r IH]; simpl; intros h h' ds H.
    - inversion H. apply grows_refl.
    - match type of H with (let (_, _) := alloc ?hh ?nn in _) = _ => destruct (alloc hh nn) as [h1 sl] eqn:Ea1 end.
      match type of H with (let (_, _) := alloc ?hh ?nn in _) = _ => destruct (alloc hh nn) as [h2 d] eqn:Ea2 end.
      destruct (compress_build r h2) as [h3 ds'] eqn:Ec. inversion H; subst.
      eapply grows_trans; [eapply alloc_grows; eauto|].
      eapply grows_trans; [eapply alloc_grows; eauto|]. eauto.
  Qed.

  Lemma compress_markings_grows : forall gm h h' res, compress_markings gm h = (h', res) -> grows h h'.
  Proof.
    unfold compress_markings. intros gm h h' res H.
    destruct (negb (truthy h gm)); [leaf|].
    destruct (list_items h gm) as [ms|]; [|leaf].
    destruct (compress_build (compress_groups h ms) h) as [h1 ds] eqn:Ec.
    destruct (alloc h1 (NList ds)) as [h2 l] eqn:Ea. leaf.
    eapply grows_trans; [eapply compress_build_grows; eauto | eapply alloc_grows; eauto].
  Qed.

  (* ---------------- markings/granular_markings ---------------- *)
  Lemma add_loop_keeps : forall g sorted_sels ms b h h',
    b <= g -> add_loop g sorted_sels ms h = Some h' -> keeps b h h'.
  Proof.
    induction ms as [|m rest IH]; simpl; intros b h h' Hb H.
    - inversion H. apply keeps_refl.
    - destruct (alloc h (NList sorted_sels)) as [h1 sl] eqn:Ea1.
      match type of H with (let (_, _) := alloc ?hh ?nn in _) = _ => destruct (alloc hh nn) as [h2 d] eqn:Ea2 end.
      destruct (append_item h2 g (VR d)) as [h3|] eqn:Eap; [|discriminate].
      eapply keeps_trans; [apply grows_keeps; eapply alloc_grows; eauto|].
      eapply keeps_trans; [apply grows_keeps; eapply alloc_grows; eauto|].
      eapply keeps_trans; [eapply wrote_keeps; [|eapply append_item_wrote]; eauto|]. eauto.
  Qed.

  Lemma new_version_gm_grows : forall obj c h h' res, new_version_gm vt W obj c h = (h', res) -> grows h h'.
  Proof. unfold new_version_gm. intros obj c h h' res H. destruct (truthy h c); eapply new_version_grows; eauto. Qed.

  Lemma granular_add_grows : forall obj marking selectors h h' res,
    granular_add vt W obj marking selectors h = (h', res) -> grows h h'.
  Proof.
    unfold granular_add, bindv. intros obj marking selectors h h' res H.
    destruct (alloc h (NList [])) as [h1 g] eqn:Ea.
    assert (K1 : keeps (length h) h h1) by (apply grows_keeps; eapply alloc_grows; eauto).
    assert (Hg : length h <= g) by (rewrite (alloc_loc _ _ _ _ Ea); lia).
    match type of H with (match ?x with _ => _ end) = _ => destruct x as [h2|] eqn:E2 end; [|kleaf K1].
    assert (K2 : keeps (length h) h h2) by (eapply keeps_trans; [exact K1|]; eapply add_loop_keeps; eauto).
    match type of H with (match ?x with _ => _ end) = _ => destruct x as [h3|] eqn:E3 end; [|kleaf K2].
    assert (K3 : keeps (length h) h h3).
    { case_in E3.
      - case_in E3; [|discriminate].
        eapply keeps_wrote; [exact K2| |eapply extend_items_wrote; eauto]. auto.
      - inversion E3; subst; auto. }
    destruct (expand_markings (VR g) h3) as [h4 r4] eqn:E4.
    assert (K4 : keeps (length h) h h4) by (eapply keeps_then_grows; [exact K3|]; eapply expand_markings_grows; eauto).
    destruct r4; try (kleaf K4; fail).
    destruct (compress_markings v h4) as [h5 r5] eqn:E5.
    assert (K5 : keeps (length h) h h5) by (eapply keeps_then_grows; [exact K4|]; eapply compress_markings_grows; eauto).
    destruct r5; try (kleaf K5; fail).
    apply keeps_grows. eapply keeps_then_grows; [exact K5|]. eapply new_version_grows; eauto.
  Qed.

  (* clear_markings edits the EXPANDED markings in place: they are new dicts *)
  Lemma clear_loop_keeps : forall mr lg sels b ems h h',
    Forall (fresh_ref b) ems -> clear_loop mr lg sels ems h = Some h' -> keeps b h h'.
  Proof.
    induction ems as [|[a|d] rest IH]; simpl; intros h h' F H.
    - inversion H. apply keeps_refl.
    - inversion F; subst. eauto.
    - inversion F as [|x xs Hd F']; subst. simpl in Hd.
      match type of H with (if ?c then _ else _) = _ => destruct c end; [|eauto].
      match type of H with (match ?x with _ => _ end) = _ => destruct x as [h1|] eqn:E1 end; [|discriminate].
      assert (K1 : keeps b h h1).
      { case_in E1.
        - eapply wrote_keeps; [|eapply set_item_wrote]; eauto.
        - inversion E1. apply keeps_refl. }
      match type of H with (match ?x with _ => _ end) = _ => destruct x as [h2|] eqn:E2 end; [|discriminate].
      assert (K2 : keeps b h1 h2).
      { case_in E2.
        - eapply wrote_keeps; [|eapply set_item_wrote]; eauto.
        - inversion E2. apply keeps_refl. }
      eapply keeps_trans; [exact K1|]. eapply keeps_trans; [exact K2|]. eauto.
  Qed.

  Lemma granular_clear_f_grows : forall mr lg obj selectors h h' res,
    granular_clear_f vt W mr lg obj selectors h = (h', res) -> grows h h'.
  Proof.
    unfold granular_clear_f, bindv. intros mr lg obj selectors h h' res H.
    match type of H with (if ?c then _ else _) = _ => destruct c end; [leaf|].
    match type of H with context [expand_markings ?o h] => destruct (expand_markings o h) as [h1 r1] eqn:E1 end.
    destruct (expand_markings_spec _ _ _ _ E1) as [G1 S1].
    destruct r1; try leaf.
    destruct (S1 v eq_refl) as (e & Ev & He & (xs & Ex & Fx)). subst v.
    match type of H with (if ?c then _ else _) = _ => destruct c end; [leaf|].
    match type of H with (match ?x with _ => _ end) = _ => destruct x as [h2|] eqn:E2 end; [|leaf].
    assert (K2 : keeps (length h) h1 h2).
    { eapply clear_loop_keeps; [|eauto]. unfold list_items. rewrite Ex. exact Fx. }
    destruct (compress_markings (VR e) h2) as [h3 r3] eqn:E3.
    assert (G3 := compress_markings_grows _ _ _ _ E3).
    assert (K3 : keeps (length h) h h3).
    { eapply keeps_trans; [apply grows_keeps; exact G1|]. eapply keeps_then_grows; eauto. }
    destruct r3; try (kleaf K3; fail).
    apply keeps_grows. eapply keeps_then_grows; [exact K3|]. eapply new_version_gm_grows; eauto.
  Qed.

  Lemma granular_clear_grows : forall obj selectors h h' res,
    granular_clear vt W obj selectors h = (h', res) -> grows h h'.
  Proof. unfold granular_clear. intros. eapply granular_clear_f_grows; eauto. Qed.

  (* ---------------- markings/object_markings ---------------- *)
  Lemma object_add_grows : forall obj marking h h' res, object_add vt W obj marking h = (h', res) -> grows h h'.
  Proof.
    unfold object_add. intros obj marking h h' res H.
    match type of H with (let (_, _) := alloc ?hh ?nn in _) = _ => destruct (alloc hh nn) as [h1 l] eqn:Ea end.
    eapply grows_trans; [eapply alloc_grows; eauto | eapply new_version_grows; eauto].
  Qed.

  Lemma object_clear_grows : forall obj h h' res, object_clear vt W obj h = (h', res) -> grows h h'.
  Proof. unfold object_clear. intros. eapply new_version_grows; eauto. Qed.

  Lemma object_remove_grows : forall obj marking h h' res, object_remove vt W obj marking h = (h', res) -> grows h h'.
  Proof.
    unfold object_remove. intros obj marking h h' res H.
    match type of H with (if ?c then _ else _) = _ => destruct c end; [leaf|].
    match type of H with (if ?c then _ else _) = _ => destruct c end; [leaf|].
    match type of H with (if ?c then _ else _) = _ => destruct c end; [eapply new_version_grows; eauto|].
    match type of H with (let (_, _) := alloc ?hh ?nn in _) = _ => destruct (alloc hh nn) as [h1 l] eqn:Ea end.
    eapply grows_trans; [eapply alloc_grows; eauto | eapply new_version_grows; eauto].
  Qed.

  (* ---------------- Bundle ---------------- *)
  Lemma bundle_grows : forall cls args kw h h' res, bundle vt W cls args kw h = (h', res) -> grows h h'.
  Proof.
    unfold bundle. intros cls args kw h h' res H.
    destruct (is_nil args).
    - match type of H with (let (_, _) := alloc ?hh ?nn in _) = _ => destruct (alloc hh nn) as [h1 k] eqn:Ea end.
      eapply grows_trans; [eapply alloc_grows; eauto | eapply run_grows; eauto].
    - match type of H with (let (_, _) := alloc ?hh ?nn in _) = _ => destruct (alloc hh nn) as [h1 l] eqn:Ea end.
      match type of H with (let (_, _) := alloc ?hh ?nn in _) = _ => destruct (alloc hh nn) as [h2 k] eqn:Ea2 end.
      eapply grows_trans; [eapply alloc_grows; eauto|].
      eapply grows_trans; [eapply alloc_grows; eauto | eapply run_grows; eauto].
  Qed.

  (* ---------------- ObjectFactory ---------------- *)
  Lemma factory_new_grows : forall kw la h h' res, factory_new kw la h = (h', res) -> grows h h'.
  Proof.
    unfold factory_new. intros kw la h h' res H.
    destruct (mapping_entries h kw) as [m|]; [|leaf].
    match type of H with (let (_, _) := alloc ?hh ?nn in _) = _ => destruct (alloc hh nn) as [h1 d] eqn:Ea end.
    match type of H with (let (_, _) := alloc ?hh ?nn in _) = _ => destruct (alloc hh nn) as [h2 f] eqn:Ea2 end.
    leaf. eapply grows_trans; eapply alloc_grows; eauto.
  Qed.
  (* ---------------- remove / set markings, the API dispatch, remove_custom_stix ---------------- *)
  Lemma remove_loop_keeps : forall t sel ms b h h',
    b <= t -> remove_loop t sel ms h = Some h' -> keeps b h h'.
  Proof.
    induction ms as [|m rest IH]; simpl; intros b h h' Hb H.
    - inversion H. apply keeps_refl.
    - dalloc H as h1 d Ea.
      destruct (append_item h1 t (VR d)) as [h2|] eqn:Eap; [|discriminate].
      eapply keeps_trans; [apply grows_keeps; eapply alloc_grows; eauto|].
      eapply keeps_trans; [eapply (wrote_keeps b t); [|eapply append_item_wrote]; eauto|]. eauto.
  Qed.

  Lemma granular_remove_grows : forall obj marking selectors h h' res,
    granular_remove vt W obj marking selectors h = (h', res) -> grows h h'.
  Proof.
    unfold granular_remove, bindv. intros obj marking selectors h h' res H.
    match type of H with (if ?c then _ else _) = _ => destruct c end; [leaf|].
    match type of H with context [expand_markings ?o h] => destruct (expand_markings o h) as [h1 r1] eqn:E1 end.
    assert (K1 : keeps (length h) h h1) by (apply grows_keeps; eapply expand_markings_grows; eauto).
    destruct r1 as [e| |]; try (kleaf K1; fail).
    match type of H with (let (_, _) := ?x in _) = _ => destruct x as [h2 sel] eqn:E2 end.
    assert (K2 : keeps (length h) h h2).
    { case_in E2.
      - inversion E2; subst; auto.
      - destruct (alloc h1 (NList [selectors])) as [hh l] eqn:Ea. inversion E2; subst.
        eapply keeps_alloc; eauto. }
    dalloc H as h3 t Ea3.
    assert (Ht := alloc_fresh _ _ _ _ _ K2 Ea3).
    assert (K3 := keeps_alloc _ _ _ _ _ _ K2 Ea3).
    match type of H with (match ?x with _ => _ end) = _ => destruct x as [h4|] eqn:E4 end; [|kleaf K3].
    assert (K4 : keeps (length h) h h4) by (eapply keeps_trans; [exact K3|]; eapply remove_loop_keeps; eauto).
    destruct (expand_markings (VR t) h4) as [h5 r5] eqn:E5.
    assert (K5 : keeps (length h) h h5) by (eapply keeps_then_grows; [exact K4|]; eapply expand_markings_grows; eauto).
    destruct r5 as [r| |]; try (kleaf K5; fail).
    match type of H with (if ?c then _ else _) = _ => destruct c end; [kleaf K5|].
    dalloc H as h6 k Ea6.
    assert (K6 := keeps_alloc _ _ _ _ _ _ K5 Ea6).
    destruct (compress_markings (VR k) h6) as [h7 r7] eqn:E7.
    assert (K7 : keeps (length h) h h7) by (eapply keeps_then_grows; [exact K6|]; eapply compress_markings_grows; eauto).
    destruct r7; try (kleaf K7; fail).
    apply keeps_grows. eapply keeps_then_grows; [exact K7|]. eapply new_version_gm_grows; eauto.
  Qed.

  Lemma granular_set_f_grows : forall mr lg obj marking selectors h h' res,
    granular_set_f vt W mr lg obj marking selectors h = (h', res) -> grows h h'.
  Proof.
    unfold granular_set_f, bindv. intros mr lg obj marking selectors h h' res H.
    destruct (granular_clear_f vt W mr lg obj selectors h) as [h1 r1] eqn:E1.
    assert (G1 := granular_clear_f_grows _ _ _ _ _ _ _ E1).
    destruct r1; try leaf. eapply grows_trans; [exact G1|]. eapply granular_add_grows; eauto.
  Qed.

  Lemma granular_set_grows : forall obj marking selectors h h' res,
    granular_set vt W obj marking selectors h = (h', res) -> grows h h'.
  Proof. unfold granular_set. intros. eapply granular_set_f_grows; eauto. Qed.

  Lemma deduplicate_grows : forall lst h h' res, deduplicate lst h = (h', res) -> grows h h'.
  Proof.
    unfold deduplicate. intros lst h h' res H.
    destruct (list_items h lst) as [xs|]; [|leaf].
    destruct (dedup_loop h xs []) as [t|]; [|leaf].
    dalloc H as h1 l Ea. leaf. eapply alloc_grows; eauto.
  Qed.

  Lemma object_set_grows : forall obj marking h h' res,
    object_set vt W obj marking h = (h', res) -> grows h h'.
  Proof.
    unfold object_set, bindv. intros obj marking h h' res H.
    destruct (object_clear vt W obj h) as [h1 r1] eqn:E1.
    assert (G1 := object_clear_grows _ _ _ _ E1).
    destruct r1; try leaf. eapply grows_trans; [exact G1|]. eapply object_add_grows; eauto.
  Qed.

  Lemma api_markings_grows : forall fn obj marking selectors h h' res,
    api_markings vt W fn obj marking selectors h = (h', res) -> grows h h'.
  Proof.
    unfold api_markings. intros fn obj marking selectors h h' res H.
    destruct fn; destruct (is_none selectors);
      eauto using object_set_grows, granular_set_grows, object_remove_grows, granular_remove_grows,
                  object_add_grows, granular_add_grows, object_clear_grows, granular_clear_grows;
      try leaf.
    - destruct (mapping_get h obj (u "object_marking_refs")); [leaf|].
      destruct (alloc h (NList [])) as [h1 l] eqn:Ea. leaf. eapply alloc_grows; eauto.
    - destruct (alloc h (NList [])) as [h1 l] eqn:Ea. leaf. eapply alloc_grows; eauto.
  Qed.

  Lemma remove_custom_stix_grows : forall obj h h' res,
    remove_custom_stix vt W obj h = (h', res) -> grows h h'.
  Proof.
    unfold remove_custom_stix. intros obj h h' res H.
    destruct (mapping_entries h obj) as [m|]; [|leaf].
    destruct (assoc (u "type") m) as [[[| | |ty|]|]|]; try leaf.
    match type of H with (if ?c then _ else _) = _ => destruct c end; [leaf|].
    match type of H with (if ?c then _ else _) = _ => destruct c end; [leaf|].
    eapply new_version_grows; eauto.
  Qed.
End ApiFacts.

(* Proofs/PatternEqIp4.v -- the IPv4 half of the address canonicalisation:
   printing four bytes with inet_ntoa and parsing the text back with
   inet_aton gives the same four bytes; a prefix length printed in decimal is
   read back by int(); the text contains no '/'.  (All about the model's
   restatement of the platform functions.)                                *)
From Coq Require Import NArith ZArith List Bool Lia String.
From V Require Import Base.UString Model.PatternEq Spec.PatternSemantics.
Import ListNotations.
Open Scope Z_scope.

Definition dec (b : N) : ustring := ustr_of_Z (Z.of_N b).

Definition bytes256 : list N := map N.of_nat (seq 0 256).

Lemma lt256_in : forall b, (b < 256)%N -> In b bytes256.
Proof.
  intros b Hb. unfold bytes256. apply in_map_iff. exists (N.to_nat b). split; [apply N2Nat.id|].
  apply in_seq. lia.
Qed.

Definition ends_number (rest : ustring) : Prop := rest = [] \/ exists r, rest = 46%N :: r.

(* strtoul on the decimal text of a byte, followed by the end of the text or a dot *)
Lemma strtoul0_dec_all :
  Forall (fun b => forall rest, ends_number rest -> strtoul0 (dec b ++ rest)%list = (Z.of_N b, rest)) bytes256.
Proof.
  let l := eval vm_compute in bytes256 in change bytes256 with l.
  repeat (constructor; [intros rest [->|[r ->]]; [|destruct r]; vm_compute; reflexivity|]). constructor.
Qed.

Lemma strtoul0_dec : forall b rest, (b < 256)%N -> ends_number rest -> strtoul0 (dec b ++ rest)%list = (Z.of_N b, rest).
Proof.
  intros b rest Hb Hr. pose proof strtoul0_dec_all as HA. rewrite Forall_forall in HA.
  apply (HA b (lt256_in b Hb) rest Hr).
Qed.

Lemma dec_head_all : Forall (fun b => exists c t, dec b = c :: t /\ is_digit c = true /\ forallb is_digit (dec b) = true) bytes256.
Proof.
  let l := eval vm_compute in bytes256 in change bytes256 with l.
  repeat (constructor; [eexists; eexists; vm_compute; repeat split; reflexivity|]). constructor.
Qed.

Lemma dec_head : forall b, (b < 256)%N -> exists c t, dec b = c :: t /\ is_digit c = true /\ forallb is_digit (dec b) = true.
Proof.
  intros b Hb. pose proof dec_head_all as HA. rewrite Forall_forall in HA. apply (HA b (lt256_in b Hb)).
Qed.

Lemma aton_go_S : forall f s parts,
    aton_go (S f) s parts =
    match s with
    | [] => AtonFail
    | c :: _ =>
      if negb (is_digit c) then AtonFail
      else
        let (val, rest) := strtoul0 s in
        if 4294967295 <? val then AtonFail
        else match rest with
             | 46%N :: rest' =>
               if (2 <? List.length parts)%nat || (255 <? val) then AtonFail
               else aton_go f rest' (parts ++ [Z.to_N val])%list
             | _ =>
               let trailing_ok := match rest with [] => true | d :: _ => (d <? 128)%N && c_isspace d end in
               if negb trailing_ok then AtonFail
               else
                 let n := List.length parts in
                 let mx := match n with O => 4294967295 | 1%nat => 16777215 | 2%nat => 65535 | _ => 255 end in
                 if mx <? val then AtonFail
                 else AtonOk (parts ++ be_bytes (4 - n) val)%list
             end
    end.
Proof. reflexivity. Qed.

Lemma aton_step_dot : forall f b rest parts,
    (b < 256)%N -> (List.length parts <= 2)%nat ->
    aton_go (S f) (dec b ++ 46%N :: rest)%list parts = aton_go f rest (parts ++ [b])%list.
Proof.
  intros f b rest parts Hb Hp. rewrite aton_go_S.
  destruct (dec_head b Hb) as [c [t [E [Hc _]]]].
  rewrite (strtoul0_dec b (46%N :: rest) Hb (or_intror (ex_intro _ rest eq_refl))).
  rewrite E. cbn [app]. rewrite Hc. cbn [negb].
  replace (4294967295 <? Z.of_N b) with false by (symmetry; apply Z.ltb_ge; lia).
  replace (2 <? List.length parts)%nat with false by (symmetry; apply Nat.ltb_ge; lia).
  replace (255 <? Z.of_N b) with false by (symmetry; apply Z.ltb_ge; lia).
  cbn [orb]. rewrite N2Z.id. reflexivity.
Qed.

Lemma aton_step_end : forall f b p0 p1 p2,
    (b < 256)%N -> aton_go (S f) (dec b) [p0; p1; p2] = AtonOk [p0; p1; p2; b].
Proof.
  intros f b p0 p1 p2 Hb. rewrite aton_go_S.
  destruct (dec_head b Hb) as [c [t [E [Hc _]]]].
  pose proof (strtoul0_dec b [] Hb (or_introl eq_refl)) as Hs. rewrite app_nil_r in Hs. rewrite Hs.
  rewrite E. rewrite Hc. cbn [negb].
  replace (4294967295 <? Z.of_N b) with false by (symmetry; apply Z.ltb_ge; lia).
  cbn [negb List.length]. replace (255 <? Z.of_N b) with false by (symmetry; apply Z.ltb_ge; lia).
  unfold be_bytes. simpl. rewrite Z.div_1_r. rewrite Z.mod_small by lia. rewrite N2Z.id. reflexivity.
Qed.

Lemma inet_ntoa4 : forall b0 b1 b2 b3,
    inet_ntoa [b0; b1; b2; b3] = (dec b0 ++ 46%N :: dec b1 ++ 46%N :: dec b2 ++ 46%N :: dec b3)%list.
Proof. intros. unfold inet_ntoa. simpl. unfold dot. simpl. reflexivity. Qed.

Lemma existsb_app_false : forall {A} (f : A -> bool) l1 l2, existsb f l1 = false -> existsb f l2 = false -> existsb f (l1 ++ l2)%list = false.
Proof. intros. rewrite existsb_app, H, H0. reflexivity. Qed.

Lemma digits_no : forall c l, is_digit c = false -> forallb is_digit l = true -> existsb (fun x => (x =? c)%N) l = false.
Proof.
  intros c l Hc Hl. induction l as [|x l IH]; [reflexivity|]. simpl in *. apply andb_true_iff in Hl. destruct Hl as [Hx Hl].
  rewrite (IH Hl). destruct (x =? c)%N eqn:E; [|reflexivity]. apply N.eqb_eq in E. subst. congruence.
Qed.

Lemma ntoa4_no : forall c b0 b1 b2 b3,
    is_digit c = false -> c <> 46%N -> (b0 < 256)%N -> (b1 < 256)%N -> (b2 < 256)%N -> (b3 < 256)%N ->
    existsb (fun x => (x =? c)%N) (inet_ntoa [b0; b1; b2; b3]) = false.
Proof.
  intros c b0 b1 b2 b3 Hc Hd H0 H1 H2 H3. rewrite inet_ntoa4.
  destruct (dec_head b0 H0) as [_ [_ [_ [_ D0]]]]. destruct (dec_head b1 H1) as [_ [_ [_ [_ D1]]]].
  destruct (dec_head b2 H2) as [_ [_ [_ [_ D2]]]]. destruct (dec_head b3 H3) as [_ [_ [_ [_ D3]]]].
  assert (Hdot : (46 =? c)%N = false) by (apply N.eqb_neq; congruence).
  repeat (apply existsb_app_false; [apply digits_no; assumption | cbn [existsb]; rewrite Hdot; cbn [orb]]).
  apply digits_no; assumption.
Qed.

(* R1: the round trip *)
Lemma aton_ntoa : forall b0 b1 b2 b3,
    (b0 < 256)%N -> (b1 < 256)%N -> (b2 < 256)%N -> (b3 < 256)%N ->
    inet_aton (inet_ntoa [b0; b1; b2; b3]) = AtonOk [b0; b1; b2; b3].
Proof.
  intros b0 b1 b2 b3 H0 H1 H2 H3. unfold inet_aton.
  rewrite (ntoa4_no 0%N b0 b1 b2 b3) by (try reflexivity; try discriminate; assumption).
  rewrite inet_ntoa4.
  rewrite (aton_step_dot 4 b0 _ [] H0) by (simpl; lia). cbn [app].
  rewrite (aton_step_dot 3 b1 _ [b0] H1) by (simpl; lia). cbn [app].
  rewrite (aton_step_dot 2 b2 _ [b0; b1] H2) by (simpl; lia). cbn [app].
  apply (aton_step_end 1 b3 b0 b1 b2 H3).
Qed.

(* ------------------------------------------------------------------ *)
(* the prefix length                                                   *)

Definition prefixes : list Z := map Z.of_nat (seq 0 129).

Lemma py_int_dec_all : Forall (fun n => py_int (ustr_of_Z n) = Some n) prefixes.
Proof.
  let l := eval vm_compute in prefixes in change prefixes with l.
  repeat (constructor; [vm_compute; reflexivity|]). constructor.
Qed.

Lemma py_int_dec : forall n, 0 <= n <= 128 -> py_int (ustr_of_Z n) = Some n.
Proof.
  intros n Hn. pose proof py_int_dec_all as HA. rewrite Forall_forall in HA. apply HA.
  unfold prefixes. apply in_map_iff. exists (Z.to_nat n). split; [apply Z2Nat.id; lia | apply in_seq; lia].
Qed.

Lemma find_cp_app : forall c l t, existsb (fun x => (x =? c)%N) l = false -> find_cp c (l ++ c :: t)%list = Some (l, t).
Proof.
  intros c l t. induction l as [|x l IH]; simpl; intro E.
  - rewrite N.eqb_refl. reflexivity.
  - apply orb_false_iff in E. destruct E as [E1 E2]. rewrite E1, (IH E2). reflexivity.
Qed.

Lemma find_cp_none : forall c l, existsb (fun x => (x =? c)%N) l = false -> find_cp c l = None.
Proof.
  intros c l. induction l as [|x l IH]; simpl; intro E; [reflexivity|].
  apply orb_false_iff in E. destruct E as [E1 E2]. rewrite E1, (IH E2). reflexivity.
Qed.

(* ------------------------------------------------------------------ *)
(* masking                                                             *)

Lemma land_mask_check :
  forallb (fun b => forallb (fun n1 => (N.land b (Z.to_N ((2 ^ n1 - 1) * 2 ^ (8 - n1))) =? b / 2 ^ Z.to_N (8 - n1) * 2 ^ Z.to_N (8 - n1))%N)
                            [1; 2; 3; 4; 5; 6; 7]) bytes256 = true.
Proof. vm_compute. reflexivity. Qed.

Lemma land_mask : forall b n1, (b < 256)%N -> 1 <= n1 <= 7 ->
    N.land b (Z.to_N ((2 ^ n1 - 1) * 2 ^ (8 - n1))) = (b / 2 ^ Z.to_N (8 - n1) * 2 ^ Z.to_N (8 - n1))%N.
Proof.
  intros b n1 Hb Hn. pose proof land_mask_check as HC. rewrite forallb_forall in HC.
  specialize (HC b (lt256_in b Hb)). rewrite forallb_forall in HC.
  apply N.eqb_eq. apply HC.
  assert (n1 = 1 \/ n1 = 2 \/ n1 = 3 \/ n1 = 4 \/ n1 = 5 \/ n1 = 6 \/ n1 = 7) by lia.
  simpl. intuition.
Qed.

Ltac Zify.zify_post_hook ::= Z.div_mod_to_equations.

Ltac mask_case n1 b Hb L :=
  pose proof (land_mask b n1 Hb ltac:(lia)) as L;
  let c1 := eval vm_compute in (Z.to_N ((2 ^ n1 - 1) * 2 ^ (8 - n1))) in
  let c2 := eval vm_compute in (2 ^ Z.to_N (8 - n1))%N in
  change (Z.to_N ((2 ^ n1 - 1) * 2 ^ (8 - n1))) with c1 in L;
  change (2 ^ Z.to_N (8 - n1))%N with c2 in L.

Local Opaque N.land N.mul N.add N.div N.pow.

Ltac solve_mask n :=
  cbv;
  repeat match goal with
         | |- context [(2 ^ ?k)%N] =>
           let c := eval vm_compute in (2 ^ k)%N in replace (2 ^ k)%N with c by (vm_compute; reflexivity)
         end;
  try (match goal with
       | |- context [N.land ?b _] =>
         match goal with
         | Hb : (b < 256)%N |- _ =>
           let n1 := eval vm_compute in (n mod 8) in
           let L := fresh "L" in mask_case n1 b Hb L; rewrite L
         end
       end);
  lia.

(* R5: the byte-wise masking of _mask_bytes is the arithmetic masking of the 32-bit address *)
Lemma mask_addr : forall n b0 b1 b2 b3,
    0 <= n < 32 -> (b0 < 256)%N -> (b1 < 256)%N -> (b2 < 256)%N -> (b3 < 256)%N ->
    addr4 (mask_bytes [b0; b1; b2; b3] n) = (addr4 [b0; b1; b2; b3] / 2 ^ Z.to_N (32 - n) * 2 ^ Z.to_N (32 - n))%N.
Proof.
  intros n b0 b1 b2 b3 Hn H0 H1 H2 H3.
  assert (Hc : n = 0 \/ n = 1 \/ n = 2 \/ n = 3 \/ n = 4 \/ n = 5 \/ n = 6 \/ n = 7 \/ n = 8 \/ n = 9 \/ n = 10 \/ n = 11 \/
               n = 12 \/ n = 13 \/ n = 14 \/ n = 15 \/ n = 16 \/ n = 17 \/ n = 18 \/ n = 19 \/ n = 20 \/ n = 21 \/ n = 22 \/
               n = 23 \/ n = 24 \/ n = 25 \/ n = 26 \/ n = 27 \/ n = 28 \/ n = 29 \/ n = 30 \/ n = 31) by lia.
  clear Hn.
  repeat (destruct Hc as [Hc|Hc]; [subst n; match goal with |- context [mask_bytes _ ?k] => solve_mask k end|]).
  subst n. solve_mask 31.
Qed.

Ltac solve_shape n :=
  do 4 eexists; split; [cbv; reflexivity|];
  try (match goal with
       | |- context [N.land ?b _] =>
         match goal with
         | Hb : (b < 256)%N |- _ =>
           let n1 := eval vm_compute in (n mod 8) in
           let L := fresh "L" in mask_case n1 b Hb L; rewrite L
         end
       end);
  repeat split; lia.

(* and its shape: four bytes again *)
Lemma mask_bytes_shape : forall n b0 b1 b2 b3,
    0 <= n < 32 -> (b0 < 256)%N -> (b1 < 256)%N -> (b2 < 256)%N -> (b3 < 256)%N ->
    exists c0 c1 c2 c3, mask_bytes [b0; b1; b2; b3] n = [c0; c1; c2; c3] /\
                        (c0 < 256)%N /\ (c1 < 256)%N /\ (c2 < 256)%N /\ (c3 < 256)%N.
Proof.
  intros n b0 b1 b2 b3 Hn H0 H1 H2 H3.
  assert (Hc : n = 0 \/ n = 1 \/ n = 2 \/ n = 3 \/ n = 4 \/ n = 5 \/ n = 6 \/ n = 7 \/ n = 8 \/ n = 9 \/ n = 10 \/ n = 11 \/
               n = 12 \/ n = 13 \/ n = 14 \/ n = 15 \/ n = 16 \/ n = 17 \/ n = 18 \/ n = 19 \/ n = 20 \/ n = 21 \/ n = 22 \/
               n = 23 \/ n = 24 \/ n = 25 \/ n = 26 \/ n = 27 \/ n = 28 \/ n = 29 \/ n = 30 \/ n = 31) by lia.
  clear Hn.
  repeat (destruct Hc as [Hc|Hc]; [subst n; match goal with |- context [mask_bytes _ ?k] => solve_shape k end|]).
  subst n. solve_shape 31.
Qed.

Local Transparent N.land N.mul N.add N.div N.pow.

(* ------------------------------------------------------------------ *)
(* what inet_aton returns                                              *)

Lemma take_num_nonneg : forall ok base s acc, 0 <= base -> 0 <= acc -> 0 <= fst (take_num ok base acc s).
Proof.
  intros ok base. induction s as [|c r IH]; intros acc Hb Ha; simpl; [exact Ha|].
  destruct (ok c); [|exact Ha]. apply IH; [exact Hb|]. assert (0 <= Z.of_N (nibble c)) by lia. nia.
Qed.

Lemma strtoul0_nonneg : forall s, 0 <= fst (strtoul0 s).
Proof.
  intro s. unfold strtoul0.
  destruct s as [|c0 [|x [|h r]]]; try (apply take_num_nonneg; lia);
    destruct c0; try (apply take_num_nonneg; lia);
      repeat match goal with |- context [match ?p with _ => _ end] => destruct p end; apply take_num_nonneg; lia.
Qed.

Definition byte_list (bs : list N) : Prop := Forall (fun b => (b < 256)%N) bs.

Lemma be_bytes_shape : forall k v, 0 <= v -> List.length (be_bytes k v) = k /\ byte_list (be_bytes k v).
Proof.
  intros k v Hv. unfold be_bytes. split; [rewrite map_length, rev_length, seq_length; reflexivity|].
  apply Forall_forall. intros b Hb. apply in_map_iff in Hb. destruct Hb as [j [<- _]].
  assert (0 <= (v / 256 ^ Z.of_nat j) mod 256 < 256) by (apply Z.mod_pos_bound; lia). lia.
Qed.

Lemma aton_go_shape : forall fuel s parts bs,
    aton_go fuel s parts = AtonOk bs -> byte_list parts -> (List.length parts <= 3)%nat ->
    List.length bs = 4%nat /\ byte_list bs.
Proof.
  induction fuel as [|f IH]; intros s parts bs E Hp Hl; [discriminate|].
  rewrite aton_go_S in E. destruct s as [|c s']; [discriminate|].
  destruct (negb (is_digit c)); [discriminate|].
  pose proof (strtoul0_nonneg (c :: s')) as Hnn.
  destruct (strtoul0 (c :: s')) as [val rest]. simpl in Hnn.
  destruct (4294967295 <? val); [discriminate|].
  assert (Hend : forall tr, (if negb tr then AtonFail
                             else let n := List.length parts in
                                  let mx := match n with O => 4294967295 | 1%nat => 16777215 | 2%nat => 65535 | _ => 255 end in
                                  if mx <? val then AtonFail else AtonOk (parts ++ be_bytes (4 - n) val)%list) = AtonOk bs ->
                            List.length bs = 4%nat /\ byte_list bs).
  { intros tr Et. destruct (negb tr); [discriminate|]. cbv zeta in Et.
    remember (List.length parts) as n eqn:En.
    assert (Hn4 : (n <= 3)%nat) by lia.
    match type of Et with (if ?c then _ else _) = _ => destruct c end; [discriminate|]. injection Et as Eb. rewrite <- Eb.
    destruct n as [|[|[|[|n']]]]; try lia;
      (match goal with |- context [be_bytes ?k val] => destruct (be_bytes_shape k val Hnn) as [Lb Bb] end;
       split; [rewrite app_length, Lb, <- En; lia | apply Forall_app; split; assumption]). }
  destruct rest as [|d rest'].
  - apply (Hend true). exact E.
  - destruct (N.eq_dec d 46) as [->|Hd].
    + destruct ((2 <? List.length parts)%nat || (255 <? val)) eqn:Ec; [discriminate|].
      apply orb_false_iff in Ec. destruct Ec as [Ec1 Ec2]. apply Nat.ltb_ge in Ec1. apply Z.ltb_ge in Ec2.
      apply (IH rest' (parts ++ [Z.to_N val])%list bs E).
      * apply Forall_app. split; [exact Hp | constructor; [lia | constructor]].
      * rewrite app_length. simpl. lia.
    + apply (Hend ((d <? 128)%N && c_isspace d)).
      destruct d as [|p]; [exact E|].
      repeat (destruct p as [p|p|]; try exact E); try (exfalso; apply Hd; reflexivity).
Qed.

Lemma inet_aton_shape : forall s bs, inet_aton s = AtonOk bs ->
    exists b0 b1 b2 b3, bs = [b0; b1; b2; b3] /\ (b0 < 256)%N /\ (b1 < 256)%N /\ (b2 < 256)%N /\ (b3 < 256)%N.
Proof.
  intros s bs E. unfold inet_aton in E. destruct (existsb (fun c => (c =? 0)%N) s); [discriminate|].
  destruct (aton_go_shape 5 s [] bs E (Forall_nil _)) as [Hl Hb]; [simpl; lia|].
  destruct bs as [|b0 [|b1 [|b2 [|b3 [|b4 r]]]]]; try discriminate Hl.
  inversion Hb as [|x0 l0 B0 Hb1]; subst. inversion Hb1 as [|x1 l1 B1 Hb2]; subst.
  inversion Hb2 as [|x2 l2 B2 Hb3]; subst. inversion Hb3 as [|x3 l3 B3 _]; subst.
  exists b0, b1, b2, b3. auto.
Qed.

(* ------------------------------------------------------------------ *)
(* the network an IPv4 CIDR string denotes, and its preservation       *)

Lemma ipv4_net_plain : forall b0 b1 b2 b3,
    (b0 < 256)%N -> (b1 < 256)%N -> (b2 < 256)%N -> (b3 < 256)%N ->
    ipv4_net_of (inet_ntoa [b0; b1; b2; b3]) = Some (addr4 [b0; b1; b2; b3], 32%N).
Proof.
  intros b0 b1 b2 b3 H0 H1 H2 H3. unfold ipv4_net_of.
  rewrite (find_cp_none 47%N _ (ntoa4_no 47%N b0 b1 b2 b3 eq_refl ltac:(discriminate) H0 H1 H2 H3)).
  rewrite (aton_ntoa b0 b1 b2 b3 H0 H1 H2 H3). reflexivity.
Qed.

(* the canonical text denotes the same network as the original text *)
Theorem ip4_canon_preserves_net : forall s s', ip_canon false s = CanonTo s' -> ipv4_net_of s' = ipv4_net_of s.
Proof.
  intros s s' E. unfold ip_canon in E. unfold ipv4_net_of at 2.
  destruct (find_cp 47%N s) as [[ip suffix]|] eqn:Ef.
  - destruct (inet_aton ip) as [| |bs] eqn:Ea; try discriminate E.
    destruct (inet_aton_shape ip bs Ea) as [b0 [b1 [b2 [b3 [-> [H0 [H1 [H2 H3]]]]]]]].
    destruct (py_int suffix) as [n|] eqn:Ep; [|discriminate E].
    destruct ((n <? 0) || (32 <? n)) eqn:Er; [discriminate E|].
    apply orb_false_iff in Er. destruct Er as [Er1 Er2]. apply Z.ltb_ge in Er1. apply Z.ltb_ge in Er2.
    replace ((0 <=? n) && (n <=? 32)) with true
      by (symmetry; apply andb_true_iff; split; apply Z.leb_le; lia).
    destruct (n =? 32) eqn:E32.
    + apply Z.eqb_eq in E32. subst n. inversion E; subst s'.
      rewrite (ipv4_net_plain b0 b1 b2 b3 H0 H1 H2 H3). simpl Z.to_N. f_equal. f_equal.
      change (2 ^ 0)%N with 1%N. rewrite N.div_1_r, N.mul_1_r. reflexivity.
    + apply Z.eqb_neq in E32. inversion E; subst s'. clear E.
      destruct (mask_bytes_shape n b0 b1 b2 b3 ltac:(lia) H0 H1 H2 H3) as [c0 [c1 [c2 [c3 [Em [C0 [C1 [C2 C3]]]]]]]].
      pose proof (mask_addr n b0 b1 b2 b3 ltac:(lia) H0 H1 H2 H3) as Ma. rewrite Em in *.
      unfold ipv4_net_of. unfold slash.
      rewrite (find_cp_app 47%N _ (ustr_of_Z n) (ntoa4_no 47%N c0 c1 c2 c3 eq_refl ltac:(discriminate) C0 C1 C2 C3)).
      rewrite (aton_ntoa c0 c1 c2 c3 C0 C1 C2 C3). rewrite (py_int_dec n) by lia.
      replace ((0 <=? n) && (n <=? 32)) with true
        by (symmetry; apply andb_true_iff; split; apply Z.leb_le; lia).
      rewrite Ma. f_equal. f_equal.
      set (k := (2 ^ Z.to_N (32 - n))%N). assert (Hk : k <> 0%N) by (apply N.pow_nonzero; discriminate).
      rewrite N.div_mul by exact Hk. reflexivity.
  - destruct (inet_aton s) as [| |bs] eqn:Ea; try discriminate E.
    destruct (inet_aton_shape s bs Ea) as [b0 [b1 [b2 [b3 [-> [H0 [H1 [H2 H3]]]]]]]].
    inversion E; subst s'. apply ipv4_net_plain; assumption.
Qed.

(* a string that is not canonicalised at all keeps its text; one that is denotes a network *)
Lemma ip4_canon_to_has_net : forall s s', ip_canon false s = CanonTo s' -> exists net, ipv4_net_of s = Some net.
Proof.
  intros s s' E. unfold ip_canon in E. unfold ipv4_net_of.
  destruct (find_cp 47%N s) as [[ip suffix]|] eqn:Ef.
  - destruct (inet_aton ip) as [| |bs] eqn:Ea; try discriminate E.
    destruct (py_int suffix) as [n|] eqn:Ep; [|discriminate E].
    destruct ((n <? 0) || (32 <? n)) eqn:Er; [discriminate E|].
    apply orb_false_iff in Er. destruct Er as [Er1 Er2]. apply Z.ltb_ge in Er1. apply Z.ltb_ge in Er2.
    replace ((0 <=? n) && (n <=? 32)) with true
      by (symmetry; apply andb_true_iff; split; apply Z.leb_le; lia).
    eexists. reflexivity.
  - destruct (inet_aton s) as [| |bs] eqn:Ea; try discriminate E. eexists. reflexivity.
Qed.

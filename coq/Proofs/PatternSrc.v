(* Proofs/PatternSrc.v -- C10: (1) the tables of Spec/PatternSource.v are what Model/PatternSyntax.v
   transcribes (child index per method, operator spellings, keywords, literal parts of the templates,
   dispatch order of make_constant); (2) the facts read from the current source text are those tables.  *)
From Coq Require Import NArith ZArith List String Ascii Bool.
From V Require Import Model.PatternSyntax Spec.PatternSource Gen.VisitorFacts.
Import ListNotations.
Open Scope string_scope.
Open Scope nat_scope.

Fixpoint lookup {A} (d : A) (k : string) (l : list (string * A)) : A :=
  match l with [] => d | (k', v) :: r => if String.eqb k k' then v else lookup d k r end.
Definition reads (m : string) : list nat := lookup [] m model_reads.
Definition rd (m : string) (i : nat) : nat := nth i (reads m) 99.

(* ---- (1) the model reads exactly the children listed in model_reads ---- *)

Lemma model_pattern : forall cs, m_first cs = child cs (rd "visitPattern" 0).
Proof. reflexivity. Qed.
Lemma model_obs_simple : forall cs,
  m_obs_simple cs = (a <- child cs (rd "visitObservationExpressionSimple" 0) ;; x <- expr_of a ;; Ok (VExpr (EObs x) None)).
Proof. reflexivity. Qed.
Lemma model_obs_binary : forall op cs,
  m_obs_binary op cs = if Nat.eqb (List.length cs) 1 then child cs (rd "visitObservationExpressions" 0)
                       else a <- child cs (rd "visitObservationExpressions" 0) ;; b <- child cs (rd "visitObservationExpressions" 1) ;;
                            x <- expr_of a ;; y <- expr_of b ;; Ok (VExpr (ECompound op [x; y]) None).
Proof. reflexivity. Qed.
Lemma model_obs_qualified : forall cs,
  m_obs_qualified cs = (a <- child cs (rd "visitObservationExpressionWithin" 0) ;; b <- child cs (rd "visitObservationExpressionWithin" 1) ;;
                        x <- expr_of a ;; match b with VQual q => Ok (VExpr (EQualified x q) None) | _ => Raise Junk end).
Proof. reflexivity. Qed.
Lemma model_pt_paren : forall cs,
  m_pt_paren cs = (a <- child cs (rd "visitPropTestParen" 0) ;; x <- expr_of a ;; Ok (VExpr (EParen x) (rt_of a))).
Proof. reflexivity. Qed.
Lemma model_startstop : forall cs,
  m_startstop cs = (a <- child cs (rd "visitStartStopQualifier" 0) ;; b <- child cs (rd "visitStartStopQualifier" 1) ;; mk_startstop a b).
Proof. reflexivity. Qed.
Lemma model_within : forall g cs, m_within g cs = (a <- child cs (rd "visitWithinQualifier" 0) ;; mk_qual_int AQWithin (within_float g) a).
Proof. reflexivity. Qed.
Lemma model_repeat : forall cs, m_repeat cs = (a <- child cs (rd "visitRepeatedQualifier" 0) ;; mk_qual_int AQRepeat false a).
Proof. reflexivity. Qed.
Lemma model_index_step : forall cs, m_index_step cs = child cs (rd "visitIndexPathStep" 0).
Proof. reflexivity. Qed.
Lemma model_rhs_child : forall cs,
  rhs_child cs = child cs (if len_gt cs (rd "visitPropTestSet" 2) then rd "visitPropTestSet" 2 else rd "visitPropTestSet" 1).
Proof. reflexivity. Qed.
Lemma model_pt_simple : forall cls pass cs,
  m_pt_simple cls pass cs = (lhs <- child cs (rd "visitPropTestSet" 0) ;; rhs <- rhs_child cs ;;
                             mk_cmp cls lhs rhs (pass && len_gt cs (rd "visitPropTestSet" 2))).
Proof. reflexivity. Qed.
Lemma model_pt_equal : forall cs,
  m_pt_equal repaired cs =
  (lhs <- child cs (rd "visitPropTestEqual" 0) ;;
   let has_not := len_gt cs (rd "visitPropTestEqual" 3) in
   o <- child cs (if has_not then rd "visitPropTestEqual" 2 else rd "visitPropTestEqual" 1) ;; t <- as_tok o ;;
   rhs <- rhs_child cs ;;
   mk_cmp KlEq lhs rhs (xorb (negb (tkind_eqb (tk t) KEQ)) has_not)).
Proof. reflexivity. Qed.
Lemma model_object_path : forall g cs,
  m_object_path g cs = (pp <- path_loop g (collapse_lists (skipn (rd "visitObjectPath" 1) cs)) ;;
                        ty <- child cs (rd "visitObjectPath" 0) ;; t <- as_tok ty ;;
                        comps <- create_components pp ;; Ok (VPath (APath (tx t) comps))).
Proof. reflexivity. Qed.

Definition model_reads_transcribed : Prop :=
  (forall cs, m_first cs = child cs (rd "visitPattern" 0)) /\
  (forall cs, m_obs_simple cs = (a <- child cs (rd "visitObservationExpressionSimple" 0) ;; x <- expr_of a ;; Ok (VExpr (EObs x) None))) /\
  (forall cs, m_pt_paren cs = (a <- child cs (rd "visitPropTestParen" 0) ;; x <- expr_of a ;; Ok (VExpr (EParen x) (rt_of a)))) /\
  (forall cs, m_startstop cs = (a <- child cs (rd "visitStartStopQualifier" 0) ;; b <- child cs (rd "visitStartStopQualifier" 1) ;; mk_startstop a b)) /\
  (forall g cs, m_within g cs = (a <- child cs (rd "visitWithinQualifier" 0) ;; mk_qual_int AQWithin (within_float g) a)) /\
  (forall cs, m_repeat cs = (a <- child cs (rd "visitRepeatedQualifier" 0) ;; mk_qual_int AQRepeat false a)) /\
  (forall cs, m_index_step cs = child cs (rd "visitIndexPathStep" 0)) /\
  (forall cs, rhs_child cs = child cs (if len_gt cs (rd "visitPropTestSet" 2) then rd "visitPropTestSet" 2 else rd "visitPropTestSet" 1)).
Lemma model_reads_ok : model_reads_transcribed.
Proof. repeat split; reflexivity. Qed.

(* operator spellings: what each class passes to its base class is the text of the model's operator token *)
Definition ops_of_model : list ustring :=
  [tx (cls_operator KlEq (CInt 0%Z)); tx (cls_operator KlGt (CInt 0%Z)); tx (cls_operator KlLt (CInt 0%Z)); tx (cls_operator KlGe (CInt 0%Z));
   tx (cls_operator KlLe (CInt 0%Z)); tx (cls_operator KlIn (CInt 0%Z)); tx (cls_operator KlLike (CInt 0%Z)); tx (cls_operator KlMatches (CInt 0%Z));
   tx (cls_operator KlSubset (CInt 0%Z)); tx (cls_operator KlSuperset (CInt 0%Z)); tx t_AND; tx t_OR;
   tx (obsop_tok OpAnd); tx (obsop_tok OpOr); tx (obsop_tok OpFb)].
Lemma model_operators_ok : map (fun p => u (snd p)) model_operators = ops_of_model.
Proof. reflexivity. Qed.

(* the keyword set of quote_if_needed is the model's keyword list *)
Lemma model_keywords_ok : map u model_quote_keywords = keywords.
Proof. reflexivity. Qed.

(* the literal parts of a template (outside the braces) *)
Fixpoint literals_go (s : string) (depth : nat) (cur : string) (acc : list string) : list string :=
  match s with
  | EmptyString => rev (cur :: acc)
  | String c r =>
      if Ascii.eqb c "{"%char then (if Nat.eqb depth 0 then literals_go r 1 "" (cur :: acc) else literals_go r (S depth) cur acc)
      else if Ascii.eqb c "}"%char then literals_go r (Nat.pred depth) cur acc
      else if Nat.eqb depth 0 then literals_go r depth (cur ++ String c EmptyString) acc
      else literals_go r depth cur acc
  end.
Definition literals (s : string) : list ustring := map u (literals_go s 0 "" []).
Definition tpl (c : string) : string := lookup "" c model_templates.

Definition sp : ustring := [32%N].
Lemma model_templates_ok :
  literals (tpl "ParentheticalExpression") = [tx t_LPAREN; tx t_RPAREN] /\
  literals (tpl "ListObjectPathComponent") = [[]; tx t_LBRACK; tx t_RBRACK] /\
  literals (tpl "RepeatQualifier") = [app (tx t_REPEATS) sp; app sp (tx t_TIMES)] /\
  literals (tpl "WithinQualifier") = [app (tx t_WITHIN) sp; app sp (tx t_SECONDS)] /\
  literals (tpl "StartStopQualifier") = [app (tx t_START) sp; app sp (app (tx t_STOP) sp); []] /\
  literals (tpl "QualifiedObservationExpression") = [[]; sp; []] /\
  literals (tpl "StringConstant") = [[c_quote]; [c_quote]] /\
  literals (tpl "BinaryConstant") = [u "b'"; [c_quote]] /\
  literals (tpl "HexConstant") = [u "h'"; [c_quote]] /\
  literals (tpl "TimestampConstant") = [u "t"; []] /\
  literals (tpl "ObjectPath") = [[]; tx t_COLON; []].
Proof. repeat split; reflexivity. Qed.

(* make_constant: the order of the type tests is the order of the model's match *)
Lemma model_make_constant_ok :
  make_constant (PyBool true) = CBool true /\ make_constant (PyInt 1%Z) = CInt 1%Z /\
  (forall s, py_strptime s = None -> make_constant (PyStr s) = CString s true) /\
  (forall s t, py_strptime s = Some t -> make_constant (PyStr s) = CTimestamp t) /\
  model_make_constant =
  ["if isinstance(value, _Constant): return value"; "try: return TimestampConstant(value) except (ValueError, TypeError): pass";
   "if isinstance(value, str): return StringConstant(value)"; "if isinstance(value, bool): return BooleanConstant(value)";
   "if isinstance(value, int): return IntegerConstant(value)"; "if isinstance(value, float): return FloatConstant(value)";
   "if isinstance(value, list): return ListConstant(value)"; "else: raise ValueError"].
Proof.
  split; [reflexivity|]. split; [reflexivity|]. split; [intros s H; cbn; rewrite H; reflexivity|].
  split; [intros s t H; cbn; rewrite H; reflexivity|reflexivity].
Qed.

(* ---- (2) the current source text ---- *)

Lemma src_flags_ok : src_flags = model_flags.                      Proof. reflexivity. Qed.
Lemma src_cfg_ok : cfg_of_flags src_flags = Some repaired.         Proof. reflexivity. Qed.
Lemma pinned_flags_cfg : cfg_of_flags (map (fun f => (f, Some false)) flag_names) = Some pinned.  Proof. reflexivity. Qed.
Lemma src_reads_ok : src_reads = model_reads.                      Proof. reflexivity. Qed.
Lemma src_classes_ok : src_classes = model_classes.                Proof. reflexivity. Qed.
Lemma src_sites_ok : src_sites = model_sites.                      Proof. reflexivity. Qed.
Lemma src_terminal_ok : src_terminal = model_terminal.             Proof. reflexivity. Qed.
Lemma src_escape_ok : src_escape = model_escape.                   Proof. reflexivity. Qed.
Lemma src_quote_ok : src_quote_body = model_quote_body /\ src_quote_regex = model_quote_regex /\ map u src_quote_keywords = keywords.
Proof. repeat split; reflexivity. Qed.
Lemma src_templates_ok : src_templates = model_templates.          Proof. reflexivity. Qed.
Lemma src_operators_ok : map (fun p => u (snd p)) src_operators = ops_of_model /\ map fst src_operators = map fst model_operators.
Proof. split; reflexivity. Qed.
Lemma src_make_constant_ok : src_make_constant = model_make_constant.       Proof. reflexivity. Qed.
Lemma src_create_component_ok : src_create_component = model_create_component. Proof. reflexivity. Qed.
Lemma src_make_object_path_ok : src_make_object_path = model_make_object_path. Proof. reflexivity. Qed.
Lemma model_make_object_path_ok : forall lhs,
  make_object_path lhs =
  match split_all 58 lhs with
  | ty :: p :: _ => Ok (APath ty (map create_component_str (split_all 46 p)))
  | _ => Raise IndexError
  end.
Proof. reflexivity. Qed.

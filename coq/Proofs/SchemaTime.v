(* Proofs/SchemaTime.v -- per-kind soundness of TimestampProperty (C02): the text the library writes
   for a cleaned timestamp (C15 model: Model/Timestamp.v) satisfies the specification's timestamp rule
   of Spec/StixValid.v for the same precision, for a given string and for the constructor's clock.   *)
From Coq Require Import NArith ZArith List String Bool Lia.
From V Require Import Base.UString Base.Json Model.SchemaTypes Model.PyBase Spec.StixValid.
From V Require Model.Calendar Model.Timestamp Spec.TimestampSpec Proofs.TimestampFacts Proofs.C15Proofs.
Import ListNotations.

Module T := Timestamp.
Module C := Calendar.
Module TF := TimestampFacts.
Module CP := C15Proofs.

Local Open Scope Z_scope.

Lemma is_digit_dchar d : TF.isdigit d -> is_digit (T.dchar d) = true.
Proof.
  unfold TF.isdigit, T.dchar, is_digit. intros H.
  apply andb_true_iff. split; apply N.leb_le; lia.
Qed.

Lemma two_dchar a b : TF.isdigit a -> TF.isdigit b -> two (T.dchar a) (T.dchar b) = a * 10 + b.
Proof. unfold TF.isdigit, T.dchar, two. intros Ha Hb. lia. Qed.

Lemma forallb_is_digit_text ds : Forall TF.isdigit ds -> forallb is_digit (T.text_of ds) = true.
Proof.
  induction 1; simpl; auto. rewrite is_digit_dchar; auto.
Qed.

Lemma d1 v : TF.isdigit (v mod 10). Proof. apply CP.mod10_isdigit. Qed.

Lemma days_in_month_eq y m : days_in_month y m = C.days_in_month y m.
Proof. reflexivity. Qed.

Lemma two_digits_val v : 0 <= v < 100 -> (v / 10 mod 10) * 10 + v mod 10 = v.
Proof. intros H. rewrite Z.mod_small with (a := v / 10) by (split; [apply Z.div_pos; lia | apply Z.div_lt_upper_bound; lia]).
  pose proof (Z.div_mod v 10). lia. Qed.

Lemma four_digits_val v : 0 <= v < 10000 ->
  ((v / 1000 mod 10) * 10 + v / 100 mod 10) * 100 + ((v / 10 mod 10) * 10 + v mod 10) = v.
Proof.
  intros H.
  assert (A : v / 1000 mod 10 = v / 1000) by (apply Z.mod_small; split; [apply Z.div_pos; lia | apply Z.div_lt_upper_bound; lia]).
  rewrite A.
  pose proof (Z.div_mod v 10 ltac:(lia)). pose proof (Z.div_mod (v / 10) 10 ltac:(lia)).
  pose proof (Z.div_mod (v / 100) 10 ltac:(lia)).
  assert (v / 10 / 10 = v / 100) by (rewrite Z.div_div; lia).
  assert (v / 100 / 10 = v / 1000) by (rewrite Z.div_div; lia).
  lia.
Qed.

(* the fraction part *)
Lemma frac_rest_ok p c (us : Z) :
  0 <= us < 1000000 ->
  let fr := T.frac_digits (ts_prec p) (ts_constr c) us in
  match (match fr with [] => [] | _ => T.ch_dot :: T.text_of fr end) ++ [T.ch_Z] with
  | [90%N] => match p, c with PMilli, _ => false | _, _ => true end
  | 46%N :: f =>
    match rev f with
    | 90%N :: dr =>
      forallb is_digit dr && Nat.leb 1 (List.length dr) &&
      match p, c with
      | PAny, _ => true
      | PSecond, CExact => false
      | PSecond, CMin => true
      | PMilli, CExact => Nat.eqb (List.length dr) 3
      | PMilli, CMin => Nat.leb 3 (List.length dr)
      end
    | _ => false
    end
  | _ => false
  end = true.
Proof.
  intros B fr.
  pose proof (TF.frac_digit_rule (ts_prec p) (ts_constr c) us B) as R. fold fr in R.
  pose proof (TF.frac_digits_isdigit (ts_prec p) (ts_constr c) us) as D. fold fr in D.
  destruct fr as [|d0 fr'] eqn:E.
  - simpl. destruct p, c; simpl in *; auto; try discriminate; try (exfalso; lia); try (exfalso; destruct R; lia).
  - set (ds := d0 :: fr') in *. change ((T.ch_dot :: T.text_of ds) ++ [T.ch_Z]) with (46%N :: (T.text_of ds ++ [90%N])).
    cbv iota beta. rewrite rev_unit.
    assert (L : List.length (rev (T.text_of ds)) = List.length ds).
    { rewrite rev_length. unfold T.text_of. apply map_length. }
    rewrite L.
    assert (F : forallb is_digit (rev (T.text_of ds)) = true).
    { rewrite forallb_forall. intros x Hx. apply in_rev in Hx.
      pose proof (forallb_is_digit_text ds D) as G. rewrite forallb_forall in G. auto. }
    rewrite F. rewrite andb_true_l.
    assert (L1 : (1 <= List.length ds)%nat) by (subst ds; simpl; lia).
    try (apply andb_true_iff; split; [apply Nat.leb_le; lia|]).
    destruct p, c; simpl in R |- *; auto.
    all: try (subst ds; discriminate R).
    all: try (apply Nat.eqb_eq; lia).
    all: try (destruct R as [R1 R2]; apply Nat.leb_le; lia).
    destruct R as [R1 _]. destruct (Datatypes.length fr') as [|[|?]]; auto; exfalso; lia.
Qed.

Lemma format_valid p c t :
  C.in_range t = true ->
  valid_timestamp p c (T.format T.Pad4 (ts_prec p) (ts_constr c) t) = true.
Proof.
  intros R. pose proof (TF.fields_facts t R) as F. cbv zeta in F.
  destruct F as (Hy & Hd & _ & Hh & Hm & Hs & Hus & _).
  unfold T.format. set (f := C.fields_of t) in *.
  assert (Bus : 0 <= C.f_us f < 1000000) by (rewrite Hus; apply Z.mod_pos_bound; lia).
  pose proof (frac_rest_ok p c (C.f_us f) Bus) as FR. cbv zeta in FR.
  unfold T.year_text, T.pad2. rewrite CP.digitsn4_eq, !CP.digitsn2_eq.
  unfold T.text_of at 1 2 3 4 5 6. cbn [map app].
  unfold T.ch_dash, T.ch_T, T.ch_colon.
  unfold valid_timestamp.
  pose proof (TF.valid_date_bounds _ _ _ Hd) as [Bm Bd].
  unfold C.valid_date in Hd. repeat (apply andb_true_iff in Hd; destruct Hd as [Hd ?]).
  repeat match goal with H : (_ <=? _) = true |- _ => apply Z.leb_le in H end.
  rewrite !two_dchar by apply d1.
  rewrite four_digits_val by lia. rewrite !two_digits_val by lia.
  apply andb_true_iff. split; [apply andb_true_iff; split|].
  - cbn [forallb]. rewrite !is_digit_dchar by apply d1. reflexivity.
  - rewrite days_in_month_eq.
    repeat (apply andb_true_iff; split); apply Z.leb_le; lia.
  - exact FR.
Qed.

(* TimestampProperty.clean on a string, then serialization *)
Lemma ts_clean_valid p c s r :
  ts_clean true p c s = Ok r -> valid_timestamp p c (snd r) = true.
Proof.
  unfold ts_clean. destruct (T.parse_strptime s) as [t|] eqn:E; try discriminate.
  intros H. inversion H; subst. simpl. apply format_valid.
  rewrite CP.stored_trunc_floor. apply CP.floor_in_range. eapply CP.parse_strptime_in_range; eauto.
Qed.

(* ... and on the constructor's clock *)
Lemma ts_clean_now_valid p c now r :
  ts_clean_now true p c now = Ok r -> valid_timestamp p c (snd r) = true.
Proof.
  unfold ts_clean_now. destruct (C.in_range now) eqn:E; try discriminate.
  intros H. inversion H; subst. simpl. apply format_valid.
  rewrite CP.stored_trunc_floor. apply CP.floor_in_range. auto.
Qed.

Lemma valid_timestamp_nonempty p c s : valid_timestamp p c s = true -> s <> [].
Proof. intros H ->. discriminate. Qed.

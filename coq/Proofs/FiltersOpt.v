(* Proofs/FiltersOpt.v -- _update_allow / _find_search_optimizations:
   (1) under tyid_wf (nothing in the repaired variant) the optimiser never
       raises and its white lists are duplicate-free lists of strings;
   (2) soundness of pruning: an object on which every filter holds lies in a
       type directory and under an id name that pass the two AuthSets.      *)
From Coq Require Import NArith ZArith List Bool Permutation Lia.
From V Require Import Base.UString Model.Filters Spec.FilterSpec Proofs.FiltersBasics.
Import ListNotations.

(* ---- lists of strings as Python sets ---- *)

Definition strs (s : list pv) : Prop := Forall (fun x => is_vstr x = true) s.

Lemma is_vstr_inv : forall x, is_vstr x = true -> exists a, x = VStr a.
Proof. destruct x; simpl; intro H; try discriminate. eauto. Qed.

Lemma hashable_vstr : forall x, is_vstr x = true -> hashable x = true.
Proof. intros x H. apply is_vstr_inv in H. destruct H as [a ->]. reflexivity. Qed.

Lemma pset_mem_vstr : forall x l, is_vstr x = true -> (pset_mem x l = true <-> In x l).
Proof. intros x l H. apply is_vstr_inv in H. destruct H as [a ->]. apply pset_mem_str. Qed.

Lemma strs_in : forall s x, strs s -> In x s -> is_vstr x = true.
Proof. intros s x H Hin. unfold strs in H. rewrite Forall_forall in H. auto. Qed.

Lemma strs_filter : forall P s, strs s -> strs (filter P s).
Proof.
  intros P s H. unfold strs in *. rewrite Forall_forall in *. intros x Hx. apply filter_In in Hx. apply H. tauto.
Qed.

Lemma pset_add_incl : forall x s y, In y s -> In y (pset_add x s).
Proof. intros. unfold pset_add. destruct (pset_mem x s); auto. apply in_or_app. auto. Qed.

Lemma pset_add_inv : forall x s y, In y (pset_add x s) -> In y s \/ y = x.
Proof.
  intros x s y H. unfold pset_add in H. destruct (pset_mem x s); auto.
  apply in_app_or in H. destruct H as [H | [H | []]]; auto.
Qed.

Lemma pset_add_self : forall x s, is_vstr x = true -> In x (pset_add x s).
Proof.
  intros x s H. unfold pset_add. destruct (pset_mem x s) eqn:E.
  - apply pset_mem_vstr in E; auto.
  - apply in_or_app. right. left. auto.
Qed.

Lemma pset_add_strs : forall x s, strs s -> is_vstr x = true -> strs (pset_add x s).
Proof.
  intros x s Hs Hx. unfold pset_add. destruct (pset_mem x s); auto.
  unfold strs. apply Forall_app. split; auto.
Qed.

Lemma pset_add_nodup : forall x s, NoDup s -> is_vstr x = true -> NoDup (pset_add x s).
Proof.
  intros x s Hs Hx. unfold pset_add. destruct (pset_mem x s) eqn:E; auto.
  apply (Permutation_NoDup (Permutation_cons_append s x)). constructor; auto.
  intro Hin. apply (pset_mem_vstr x s Hx) in Hin. congruence.
Qed.

(* ---- the two iterations of _update_allow ---- *)

Definition gen_str (g : pv -> res pv) (l : list pv) : Prop :=
  forall x, In x l -> exists a, g x = Ok (VStr a).

Lemma iter_all_spec : forall g l acc,
  gen_str g l -> strs acc -> NoDup acc ->
  exists r, iter_all g acc l = Ok r /\ strs r /\ NoDup r /\
    (forall y, In y acc -> In y r) /\
    (forall x a, In x l -> g x = Ok (VStr a) -> In (VStr a) r).
Proof.
  induction l as [|x l IH]; intros acc Hg Hs Hn; simpl.
  - exists acc. repeat split; auto. intros x a [].
  - destruct (Hg x (or_introl eq_refl)) as [a Ha]. rewrite Ha. simpl.
    destruct (IH (pset_add (VStr a) acc)) as [r [Hr [Hrs [Hrn [Hinc Hel]]]]].
    + intros y Hy. apply Hg. right; auto.
    + apply pset_add_strs; auto.
    + apply pset_add_nodup; auto.
    + exists r. repeat split; auto.
      * intros y Hy. apply Hinc. apply pset_add_incl. auto.
      * intros y b [Hy | Hy] Hb.
        -- subst y. rewrite Ha in Hb. inversion Hb; subst. apply Hinc. apply pset_add_self. reflexivity.
        -- eapply Hel; eauto.
Qed.

Lemma iter_until_spec : forall g s l seen,
  gen_str g l ->
  exists seen', iter_until g s seen l = Ok seen' /\
    (forall y, In y seen -> In y seen') /\
    ((forall z, In z s -> pset_mem z seen' = true) \/
     (forall x a, In x l -> g x = Ok (VStr a) -> In (VStr a) seen')).
Proof.
  induction l as [|x l IH]; intros seen Hg; cbn [iter_until].
  - exists seen. repeat split; auto. right. intros x a [].
  - destruct (Hg x (or_introl eq_refl)) as [a Ha]. rewrite Ha. cbn [bind hashable].
    destruct (pset_mem (VStr a) s && forallb (fun z => pset_mem z (VStr a :: seen)) s) eqn:E.
    + exists (VStr a :: seen). split; [reflexivity|]. split.
      * intros y Hy. right; auto.
      * left. apply andb_true_iff in E. destruct E as [_ E]. rewrite forallb_forall in E. auto.
    + destruct (IH (VStr a :: seen)) as [seen' [Hr [Hinc Hcase]]].
      * intros y Hy. apply Hg. right; auto.
      * exists seen'. repeat split; auto.
        -- intros y Hy. apply Hinc. right; auto.
        -- destruct Hcase as [Hc | Hc]; [left; auto | right].
           intros y b [Hy | Hy] Hb.
           ++ subst y. rewrite Ha in Hb. inversion Hb; subst. apply Hinc. left; auto.
           ++ eapply Hc; eauto.
Qed.

Definition set_ok (al : option pset) : Prop := forall s, al = Some s -> strs s /\ NoDup s.
Definition al_has (al : option pset) (x : ustring) : Prop := forall s, al = Some s -> In (VStr x) s.

Lemma set_ok_some : forall a, strs a -> NoDup a -> set_ok (Some a).
Proof. intros a H1 H2 s E. inversion E; subst. auto. Qed.

Lemma al_has_some : forall a x, In (VStr x) a -> al_has (Some a) x.
Proof. intros a x H s E. inversion E; subst. auto. Qed.

Lemma update_allow_seq : forall al g l,
  gen_str g l -> set_ok al ->
  exists a, update_allow al (USeq g l) = Ok a /\ strs a /\ NoDup a /\
    (forall d, al_has al d -> (exists x, In x l /\ g x = Ok (VStr d)) -> In (VStr d) a).
Proof.
  intros al g l Hg Hal. destruct al as [s|]; simpl.
  - destruct (Hal s eq_refl) as [Hs Hn].
    destruct (iter_until_spec g s l [] Hg) as [seen [Hr [_ Hcase]]]. rewrite Hr. simpl.
    exists (pset_inter s seen). split; auto. split; [apply strs_filter; auto|]. split; [apply NoDup_filter; auto|].
    intros d Hd [x [Hx Hgx]]. unfold pset_inter. apply filter_In. split; [apply Hd; auto|].
    destruct Hcase as [Hc | Hc].
    + apply Hc. apply Hd. auto.
    + apply pset_mem_str. eapply Hc; eauto.
  - destruct (iter_all_spec g l [] Hg) as [r [Hr [Hrs [Hrn [_ Hel]]]]]; [constructor | constructor |].
    exists r. repeat split; auto. intros d _ [x [Hx Hgx]]. eapply Hel; eauto.
Qed.

Lemma update_allow_single : forall al v,
  set_ok al ->
  exists a, update_allow al (USingle (VStr v)) = Ok a /\ strs a /\ NoDup a /\
    (al_has al v -> In (VStr v) a).
Proof.
  intros al v Hal. destruct al as [s|]; simpl.
  - destruct (Hal s eq_refl) as [Hs Hn]. exists (pset_inter s [VStr v]).
    split; auto. split; [apply strs_filter; auto|]. split; [apply NoDup_filter; auto|].
    intro Hd. unfold pset_inter. apply filter_In. split; [apply Hd; auto|].
    apply pset_mem_str. left; auto.
  - exists (pset_add (VStr v) []). split; auto. split; [apply pset_add_strs; [constructor | reflexivity]|].
    split; [apply pset_add_nodup; [constructor | reflexivity]|]. intros _. apply pset_add_self. reflexivity.
Qed.

(* ---- a type / id filter on an object that is in its place ---- *)

Lemma split_dot_type : split_dot t_type = [t_type].
Proof. reflexivity. Qed.
Lemma split_dot_id : split_dot t_id = [t_id].
Proof. reflexivity. Qed.

Lemma coerce_str : forall mode op x fv,
  (mode = InstantOnDicts -> parse_ts x = None) ->
  coerce mode op (VStr x) fv = Ok (VStr x, fv).
Proof.
  intros mode op x fv H. destruct mode.
  - destruct fv; reflexivity.
  - specialize (H eq_refl). destruct fv; simpl; try reflexivity; rewrite H; destruct (is_cmp_op op); reflexivity.
Qed.

Lemma chk_on_name : forall mode f m p x,
  split_dot (fprop f) = [p] -> plookup p m = Some (VStr x) ->
  check_filter mode f (VDict m) = check_property mode f (VStr x).
Proof.
  intros mode f m p x Hs Hl. unfold check_filter. rewrite Hs. cbn [check_path]. rewrite Hl. reflexivity.
Qed.

Lemma chk_type : forall mode d n o f,
  placed mode d n o -> fprop f = t_type -> check_filter mode f o = check_property mode f (VStr d).
Proof.
  intros mode d n o f [m [-> [Ht _]]] Hp. eapply chk_on_name; eauto. rewrite Hp. apply split_dot_type.
Qed.

Lemma chk_id : forall mode d n o f,
  placed mode d n o -> fprop f = t_id -> check_filter mode f o = check_property mode f (VStr n).
Proof.
  intros mode d n o f [m [-> [_ [Hi _]]]] Hp. eapply chk_on_name; eauto. rewrite Hp. apply split_dot_id.
Qed.

Lemma plookup_in_keys : forall k m v, plookup k m = Some v -> In k (map fst m).
Proof.
  induction m as [|[k' v'] m IH]; intros v H; simpl in *; try discriminate.
  destruct (ustr_eqb k k') eqn:E.
  - apply ustr_eqb_eq in E. left; auto.
  - right. eapply IH; eauto.
Qed.

(* what `Ok true` means for =, in, != on a string property *)
Lemma prop_eq_true : forall mode f x v,
  (mode = InstantOnDicts -> parse_ts x = None) ->
  fop_ f = OEq -> fval f = VStr v -> check_property mode f (VStr x) = Ok true -> x = v.
Proof.
  intros mode f x v Hts Hop Hv H. unfold check_property in H. rewrite coerce_str in H; auto.
  cbn [bind] in H. rewrite Hop, Hv in H. inversion H as [E]. simpl in E. apply ustr_eqb_eq. auto.
Qed.

Lemma prop_in_true : forall mode f x l,
  (mode = InstantOnDicts -> parse_ts x = None) ->
  fop_ f = OIn -> adding_seq (fval f) = Some l -> check_property mode f (VStr x) = Ok true -> In (VStr x) l.
Proof.
  intros mode f x l Hts Hop Hl H. unfold check_property in H. rewrite coerce_str in H; auto.
  cbn [bind] in H. rewrite Hop in H.
  destruct (fval f) as [| | | | | |l0|l0|m0]; simpl in Hl; try discriminate; inversion Hl; subst; clear Hl.
  - simpl in H. inversion H as [E]. apply existsb_exists in E. destruct E as [y [Hy He]].
    apply py_eq_str_l in He. subst. auto.
  - simpl in H. inversion H as [E]. apply existsb_exists in E. destruct E as [y [Hy He]].
    apply py_eq_str_l in He. subst. auto.
  - simpl in H. destruct (plookup x m0) eqn:E; inversion H.
    apply plookup_in_keys in E. apply in_map_iff in E. destruct E as [[k v] [Hk Hin]]. simpl in Hk. subst.
    apply in_map_iff. exists (x, v). split; auto.
Qed.

Lemma prop_ne_true : forall mode f x,
  (mode = InstantOnDicts -> parse_ts x = None) ->
  fop_ f = ONe -> check_property mode f (VStr x) = Ok true -> py_eq (VStr x) (fval f) = false.
Proof.
  intros mode f x Hts Hop H. unfold check_property in H. rewrite coerce_str in H; auto.
  cbn [bind] in H. rewrite Hop in H. inversion H as [E]. apply negb_true_iff in E. auto.
Qed.

Lemma not_in_pset_add : forall x v s,
  py_eq (VStr x) v = false -> ~ In (VStr x) s -> ~ In (VStr x) (pset_add v s).
Proof.
  intros x v s He Hn Hin. apply pset_add_inv in Hin. destruct Hin as [Hin | Hin]; auto.
  subst v. simpl in He. rewrite ustr_eqb_refl in He. discriminate.
Qed.

(* ---- one step of the loop ---- *)

Definition st_strs (st : opt_state) : Prop := set_ok (al_types st) /\ set_ok (al_ids st).

Definition st_ok (st : opt_state) (d n : ustring) : Prop :=
  al_has (al_types st) d /\ al_has (al_ids st) n /\ ~ In (VStr d) (pr_types st) /\ ~ In (VStr n) (pr_ids st).

Definition sound_step (f : flt) (st st' : opt_state) : Prop :=
  forall mode d n o, placed mode d n o -> check_filter mode f o = Ok true -> st_ok st d n -> st_ok st' d n.

(* the shapes a type / id filter value can have when a shortcut is derived *)
Definition shape (f : flt) : Prop :=
  match fop_ f with
  | OEq => exists v, fval f = VStr v
  | ONe => hashable (fval f) = true
  | OIn => exists l, adding_seq (fval f) = Some l /\ strs l
  | _ => True
  end.

Lemma forallb_strs : forall l, forallb is_vstr l = true -> strs l.
Proof. intros l H. unfold strs. rewrite Forall_forall. rewrite forallb_forall in H. auto. Qed.

Lemma keys_strs : forall m : list (ustring * pv), strs (map (fun kv => VStr (fst kv)) m).
Proof. intro m. unfold strs. rewrite Forall_forall. intros x Hx. apply in_map_iff in Hx. destruct Hx as [kv [<- _]]. reflexivity. Qed.

Lemma shape_of : forall om f,
  (om = OptAnyValue -> tyid_wf_f f = true) -> opt_guard om f = true ->
  ustr_eqb (fprop f) t_type || ustr_eqb (fprop f) t_id = true -> shape f.
Proof.
  intros om f Hwf Hg Hp. unfold shape. destruct om.
  - specialize (Hwf eq_refl). unfold tyid_wf_f in Hwf. rewrite Hp in Hwf.
    destruct (fop_ f); auto.
    + apply is_vstr_inv. auto.
    + destruct (fval f) as [| | | | | |l|l|m]; try discriminate.
      * exists l. split; auto. apply forallb_strs. auto.
      * exists l. split; auto. apply forallb_strs. auto.
      * eexists. split; [reflexivity|]. apply keys_strs.
  - simpl in Hg. destruct (fop_ f); auto.
    + apply is_vstr_inv. auto.
    + apply hashable_vstr. auto.
    + unfold is_str_seq in Hg. destruct (fval f) as [| | | | | |l|l|m]; try discriminate.
      * exists l. split; auto. apply forallb_strs. auto.
      * exists l. split; auto. apply forallb_strs. auto.
Qed.

Lemma upd_of_seq : forall v l, adding_seq v = Some l -> upd_of_value v = USeq ok_id l.
Proof. intros v l H. unfold upd_of_value. rewrite H. reflexivity. Qed.

Lemma gen_str_id : forall l, strs l -> gen_str ok_id l.
Proof. intros l H x Hx. apply (strs_in _ _ H) in Hx. apply is_vstr_inv in Hx. destruct Hx as [a ->]. exists a. reflexivity. Qed.

Lemma gen_str_gtfi : forall l, strs l -> gen_str get_type_from_id l.
Proof. intros l H x Hx. apply (strs_in _ _ H) in Hx. apply is_vstr_inv in Hx. destruct Hx as [a ->]. eexists. reflexivity. Qed.

Lemma placed_ts_d : forall mode d n o, placed mode d n o -> mode = InstantOnDicts -> parse_ts d = None.
Proof. intros mode d n o [m [_ [_ [_ [_ H]]]]] E. apply H. auto. Qed.
Lemma placed_ts_n : forall mode d n o, placed mode d n o -> mode = InstantOnDicts -> parse_ts n = None.
Proof. intros mode d n o [m [_ [_ [_ [_ H]]]]] E. apply H. auto. Qed.
Lemma placed_type_of_id : forall mode d n o, placed mode d n o -> type_of_id n = d.
Proof. intros mode d n o [m [_ [_ [_ [H _]]]]]. auto. Qed.

Lemma opt_step_type : forall st f,
  fprop f = t_type -> shape f -> st_strs st ->
  exists st', (match fop_ f with
               | OEq | OIn =>
                   bind (update_allow (al_types st) (upd_of_value (fval f))) (fun a =>
                   Ok (mkst (Some a) (al_ids st) (pr_types st) (pr_ids st)))
               | ONe =>
                   if hashable (fval f) then Ok (mkst (al_types st) (al_ids st) (pset_add (fval f) (pr_types st)) (pr_ids st))
                   else Raise ETypeError
               | _ => Ok st
               end) = Ok st' /\ st_strs st' /\ sound_step f st st'.
Proof.
  intros st f Hp Hsh [Hst Hsi]. unfold shape in Hsh.
  destruct (fop_ f) eqn:Hop; try (exists st; split; [reflexivity | split; [split; auto | intros mode d n o _ _ H; exact H]]).
  - (* = *)
    destruct Hsh as [v Hv]. rewrite Hv. unfold upd_of_value. simpl adding_seq. cbv iota.
    destruct (update_allow_single (al_types st) v Hst) as [a [Ha [Has [Han Hin]]]]. rewrite Ha. simpl.
    eexists. split; [reflexivity|]. split; [split; simpl; auto; apply set_ok_some; auto|].
    intros mode d n o Hpl Hc [H1 [H2 [H3 H4]]].
    rewrite (chk_type _ _ _ _ _ Hpl Hp) in Hc.
    apply (prop_eq_true mode f d v (placed_ts_d _ _ _ _ Hpl) Hop Hv) in Hc. subst v.
    repeat split; simpl; auto. apply al_has_some. auto.
  - (* != *)
    rewrite Hsh. eexists. split; [reflexivity|]. split; [split; auto|].
    intros mode d n o Hpl Hc [H1 [H2 [H3 H4]]].
    rewrite (chk_type _ _ _ _ _ Hpl Hp) in Hc.
    apply (prop_ne_true mode f d (placed_ts_d _ _ _ _ Hpl) Hop) in Hc.
    repeat split; simpl; auto. apply not_in_pset_add; auto.
  - (* in *)
    destruct Hsh as [l [Hl Hls]]. rewrite (upd_of_seq _ _ Hl).
    destruct (update_allow_seq (al_types st) ok_id l (gen_str_id _ Hls) Hst) as [a [Ha [Has [Han Hin]]]]. rewrite Ha. simpl.
    eexists. split; [reflexivity|]. split; [split; simpl; auto; apply set_ok_some; auto|].
    intros mode d n o Hpl Hc [H1 [H2 [H3 H4]]].
    rewrite (chk_type _ _ _ _ _ Hpl Hp) in Hc.
    apply (prop_in_true mode f d l (placed_ts_d _ _ _ _ Hpl) Hop Hl) in Hc.
    repeat split; simpl; auto. apply al_has_some. apply Hin; auto. exists (VStr d). split; auto.
Qed.

Lemma opt_step_id : forall st f,
  fprop f = t_id -> shape f -> st_strs st ->
  exists st', (match fop_ f with
    | OEq =>
        bind (update_allow (al_ids st) (upd_of_value (fval f))) (fun ai =>
        bind (get_type_from_id (fval f)) (fun t =>
        bind (update_allow (al_types st) (USingle t)) (fun at_ =>
        Ok (mkst (Some at_) (Some ai) (pr_types st) (pr_ids st)))))
    | ONe =>
        if hashable (fval f) then Ok (mkst (al_types st) (al_ids st) (pr_types st) (pset_add (fval f) (pr_ids st)))
        else Raise ETypeError
    | OIn =>
        bind (update_allow (al_ids st) (upd_of_value (fval f))) (fun ai =>
        match (match fval f with
               | VStr s => Some (map (fun c => VStr [c]) s)
               | v => adding_seq v
               end) with
        | Some l =>
            bind (update_allow (al_types st) (USeq get_type_from_id l)) (fun at_ =>
            Ok (mkst (Some at_) (Some ai) (pr_types st) (pr_ids st)))
        | None => Raise ETypeError
        end)
    | _ => Ok st
    end) = Ok st' /\ st_strs st' /\ sound_step f st st'.
Proof.
  intros st f Hp Hsh [Hst Hsi]. unfold shape in Hsh.
  destruct (fop_ f) eqn:Hop; try (exists st; split; [reflexivity | split; [split; auto | intros mode d n o _ _ H; exact H]]).
  - (* = *)
    destruct Hsh as [v Hv]. rewrite Hv. unfold upd_of_value. simpl adding_seq. cbv iota.
    destruct (update_allow_single (al_ids st) v Hsi) as [ai [Hai [Hais [Hain Hiin]]]]. rewrite Hai. simpl.
    destruct (update_allow_single (al_types st) (type_of_id v) Hst) as [a [Ha [Has [Han Hin]]]]. rewrite Ha. simpl.
    eexists. split; [reflexivity|]. split; [split; simpl; apply set_ok_some; auto|].
    intros mode d n o Hpl Hc [H1 [H2 [H3 H4]]].
    rewrite (chk_id _ _ _ _ _ Hpl Hp) in Hc.
    apply (prop_eq_true mode f n v (placed_ts_n _ _ _ _ Hpl) Hop Hv) in Hc. subst v.
    rewrite (placed_type_of_id _ _ _ _ Hpl) in *.
    repeat split; simpl; auto; apply al_has_some; auto.
  - (* != *)
    rewrite Hsh. eexists. split; [reflexivity|]. split; [split; auto|].
    intros mode d n o Hpl Hc [H1 [H2 [H3 H4]]].
    rewrite (chk_id _ _ _ _ _ Hpl Hp) in Hc.
    apply (prop_ne_true mode f n (placed_ts_n _ _ _ _ Hpl) Hop) in Hc.
    repeat split; simpl; auto. apply not_in_pset_add; auto.
  - (* in *)
    destruct Hsh as [l [Hl Hls]].
    assert (Hel : (match fval f with
                   | VStr s => Some (map (fun c => VStr [c]) s)
                   | v => adding_seq v
                   end) = Some l).
    { destruct (fval f); simpl in Hl; try discriminate; auto. }
    rewrite Hel. rewrite (upd_of_seq _ _ Hl).
    destruct (update_allow_seq (al_ids st) ok_id l (gen_str_id _ Hls) Hsi) as [ai [Hai [Hais [Hain Hiin]]]]. rewrite Hai. cbn [bind].
    destruct (update_allow_seq (al_types st) get_type_from_id l (gen_str_gtfi _ Hls) Hst) as [a [Ha [Has [Han Hin]]]]. rewrite Ha. simpl.
    eexists. split; [reflexivity|]. split; [split; simpl; apply set_ok_some; auto|].
    intros mode d n o Hpl Hc [H1 [H2 [H3 H4]]].
    rewrite (chk_id _ _ _ _ _ Hpl Hp) in Hc.
    apply (prop_in_true mode f n l (placed_ts_n _ _ _ _ Hpl) Hop Hl) in Hc.
    repeat split; simpl; auto; apply al_has_some.
    + apply Hin; auto. exists (VStr n). split; auto. simpl. rewrite (placed_type_of_id _ _ _ _ Hpl). reflexivity.
    + apply Hiin; auto. exists (VStr n). split; auto.
Qed.

Lemma opt_step_spec : forall om st f,
  (om = OptAnyValue -> tyid_wf_f f = true) -> st_strs st ->
  exists st', opt_step om st f = Ok st' /\ st_strs st' /\ sound_step f st st'.
Proof.
  intros om st f Hwf Hst. unfold opt_step.
  destruct (opt_guard om f) eqn:Hg; simpl negb; cbv iota.
  2:{ exists st. split; auto. split; auto. intros mode d n o _ _ H; exact H. }
  destruct (ustr_eqb (fprop f) t_type) eqn:Et.
  - apply opt_step_type; auto.
    + apply ustr_eqb_eq. auto.
    + eapply shape_of; eauto. rewrite Et. reflexivity.
  - destruct (ustr_eqb (fprop f) t_id) eqn:Ei.
    + apply opt_step_id; auto.
      * apply ustr_eqb_eq. auto.
      * eapply shape_of; eauto. rewrite Et, Ei. reflexivity.
    + exists st. split; auto. split; auto. intros mode d n o _ _ H; exact H.
Qed.

Lemma opt_fold_spec : forall om fl st,
  (om = OptAnyValue -> forallb tyid_wf_f fl = true) -> st_strs st ->
  exists st', opt_fold om st fl = Ok st' /\ st_strs st' /\
    forall mode d n o, placed mode d n o -> (forall f, In f fl -> check_filter mode f o = Ok true) ->
                       st_ok st d n -> st_ok st' d n.
Proof.
  induction fl as [|f fl IH]; intros st Hwf Hst; simpl.
  - exists st. split; [reflexivity|]. split; [exact Hst|]. intros mode d n o _ _ H. exact H.
  - destruct (opt_step_spec om st f) as [st1 [H1 [Hs1 Hsound1]]]; auto.
    { intro E. specialize (Hwf E). simpl in Hwf. apply andb_true_iff in Hwf. tauto. }
    rewrite H1. simpl.
    destruct (IH st1) as [st2 [H2 [Hs2 Hsound2]]]; auto.
    { intro E. specialize (Hwf E). simpl in Hwf. apply andb_true_iff in Hwf. tauto. }
    exists st2. split; [exact H2|]. split; [exact Hs2|].
    intros mode d n o Hpl Hall Hok. apply (Hsound2 mode d n o Hpl).
    + intros g Hg. apply Hall. right; auto.
    + apply (Hsound1 mode d n o Hpl); [apply Hall; left; reflexivity | exact Hok].
Qed.

(* ---- building the AuthSets ---- *)

Definition auth_strs (a : auth) : Prop :=
  match a with Auth true vals => strs vals /\ NoDup vals | Auth false _ => True end.

Lemma map_res_gtfi : forall l, strs l ->
  exists its, map_res get_type_from_id l = Ok its /\ List.length its = List.length l /\
    forall a, In (VStr a) l -> In (VStr a, VStr (type_of_id a)) (combine l its).
Proof.
  induction l as [|x l IH]; intro H; simpl.
  - exists []. split; [reflexivity|]. split; [reflexivity|]. intros a [].
  - inversion H as [|y l' Hx Hl]; subst. apply is_vstr_inv in Hx. destruct Hx as [b ->]. simpl.
    destruct (IH Hl) as [its [Hi [Hlen Hin]]]. rewrite Hi. simpl.
    exists (VStr (type_of_id b) :: its). split; [reflexivity|]. split; [simpl; auto|].
    intros a [E | Ha].
    + inversion E; subst. left; auto.
    + right. auto.
Qed.

Lemma NoDup_map_filter : forall {A B} (f : A -> B) (P : A -> bool) (l : list A),
  NoDup (map f l) -> NoDup (map f (filter P l)).
Proof.
  induction l as [|x l IH]; simpl; intro H; auto.
  inversion H; subst. destruct (P x); simpl; auto. constructor; auto.
  intro Hin. apply in_map_iff in Hin. destruct Hin as [y [Hy Hf]]. apply filter_In in Hf.
  apply H2. rewrite <- Hy. apply in_map. tauto.
Qed.

Lemma map_fst_combine : forall {A B} (l : list A) (l' : list B),
  List.length l' = List.length l -> map fst (combine l l') = l.
Proof.
  induction l; destruct l'; simpl; intro H; try discriminate; auto. f_equal. apply IHl. lia.
Qed.

Lemma pset_diff_in : forall x a p, In (VStr x) a -> ~ In (VStr x) p -> In (VStr x) (pset_diff a p).
Proof.
  intros x a p Ha Hp. unfold pset_diff. apply filter_In. split; auto.
  apply negb_true_iff. apply pset_mem_str_false. auto.
Qed.

Lemma opt_finish_spec : forall st, st_strs st ->
  exists at_ ai, opt_finish st = Ok (at_, ai) /\ auth_strs at_ /\ auth_strs ai /\
    forall d n, type_of_id n = d -> st_ok st d n -> auth_pass at_ d /\ auth_pass ai n.
Proof.
  intros st [Hst Hsi]. unfold opt_finish.
  destruct (al_types st) as [ta|] eqn:Et; destruct (al_ids st) as [ia|] eqn:Ei; simpl.
  - destruct (Hst ta eq_refl) as [Hts Htn]. destruct (Hsi ia eq_refl) as [His Hin].
    set (iv := pset_diff ia (pr_ids st)). set (tv := pset_diff ta (pr_types st)).
    assert (Hivs : strs iv) by (apply strs_filter; auto).
    assert (Hivn : NoDup iv) by (apply NoDup_filter; auto).
    destruct (map_res_gtfi iv Hivs) as [its [Hi [Hlen Hcomb]]]. rewrite Hi. simpl.
    eexists. eexists. split; [reflexivity|]. split; [|split].
    + split; [apply strs_filter; apply strs_filter; auto | apply NoDup_filter; apply NoDup_filter; auto].
    + split.
      * unfold strs. rewrite Forall_forall. intros x Hx. apply in_map_iff in Hx.
        destruct Hx as [[a b] [<- Hab]]. apply filter_In in Hab. destruct Hab as [Hab _].
        apply in_combine_l in Hab. simpl. eapply strs_in; eauto.
      * apply NoDup_map_filter. rewrite map_fst_combine; auto.
    + intros d n Htid [H1 [H2 [H3 H4]]]. simpl.
      assert (Hd : In (VStr d) tv) by (apply pset_diff_in; auto).
      assert (Hn : In (VStr n) iv) by (apply pset_diff_in; auto).
      assert (Hpair := Hcomb n Hn). rewrite Htid in Hpair.
      assert (Hd' : In (VStr d) (pset_inter tv its)).
      { unfold pset_inter. apply filter_In. split; auto. apply pset_mem_str. apply in_combine_r in Hpair. auto. }
      split; auto.
      apply in_map_iff. exists (VStr n, VStr d). split; auto. apply filter_In. split; auto.
      simpl. apply pset_mem_str. auto.
  - destruct (Hst ta eq_refl) as [Hts Htn].
    eexists. eexists. split; [reflexivity|]. split; [split; [apply strs_filter; auto | apply NoDup_filter; auto]|].
    split; [exact I|]. intros d n _ [H1 [H2 [H3 H4]]]. simpl. split; auto. apply pset_diff_in; auto.
  - destruct (Hsi ia eq_refl) as [His Hin].
    eexists. eexists. split; [reflexivity|]. split; [exact I|].
    split; [split; [apply strs_filter; auto | apply NoDup_filter; auto]|].
    intros d n _ [H1 [H2 [H3 H4]]]. simpl. split; auto. apply pset_diff_in; auto.
  - eexists. eexists. split; [reflexivity|]. split; [exact I|]. split; [exact I|].
    intros d n _ [H1 [H2 [H3 H4]]]. simpl. auto.
Qed.

(* ---- _find_search_optimizations ---- *)

Lemma tyid_wf_fold : forall om fl, tyid_wf om fl -> (om = OptAnyValue -> forallb tyid_wf_f fl = true).
Proof. intros om fl H E. subst. exact H. Qed.

Theorem find_opts_spec : forall om fl, tyid_wf om fl ->
  exists at_ ai, find_opts om fl = Ok (at_, ai) /\ auth_strs at_ /\ auth_strs ai /\
    forall mode d n o, placed mode d n o -> holds_b mode fl o = true -> auth_pass at_ d /\ auth_pass ai n.
Proof.
  intros om fl Hwf. unfold find_opts.
  assert (H0 : st_strs (mkst None None [] [])) by (split; intros s E; discriminate).
  destruct (opt_fold_spec om fl _ (tyid_wf_fold _ _ Hwf) H0) as [st [Hf [Hs Hsound]]]. rewrite Hf. simpl.
  destruct (opt_finish_spec st Hs) as [at_ [ai [Hfin [Ha1 [Ha2 Hpass]]]]].
  exists at_, ai. repeat split; auto.
  - apply (Hpass d n).
    + eapply placed_type_of_id; eauto.
    + eapply Hsound; eauto.
      * apply holds_b_true. auto.
      * repeat split; simpl; auto; intros s E; discriminate.
  - apply (Hpass d n).
    + eapply placed_type_of_id; eauto.
    + eapply Hsound; eauto.
      * apply holds_b_true. auto.
      * repeat split; simpl; auto; intros s E; discriminate.
Qed.

(* Proofs/C14Registry.v -- the built-in registries (generated key lists) keep the 2.0
   object types and the 2.1 observable types apart, which is what detect_spec_version
   relies on to tell a 2.0 SDO from a 2.1 SCO when neither carries spec_version.   *)
From Coq Require Import NArith List String Bool.
From V Require Import Base.UString Base.Json Model.VersionDetect Gen.CallSites Proofs.C14Detect.
Import ListNotations.

Definition obs21_builtin : list ustring := map u reg_observables21.

Lemma umem_map_u : forall t l, In t l -> umem (u t) (map u l) = true.
Proof.
  intros t l. induction l as [|x l IH]; intros Hin; [destruct Hin|].
  simpl. destruct Hin as [->|Hin].
  - assert (forall s, ustr_eqb s s = true) as Hr.
    { induction s as [|c s IHs]; simpl; [reflexivity|]. rewrite N.eqb_refl. exact IHs. }
    rewrite Hr. reflexivity.
  - rewrite (IH Hin). apply orb_true_r.
Qed.

Lemma separate_all : forallb (fun t => negb (umem (u t) obs21_builtin)) reg_objects20 = true.
Proof. vm_compute. reflexivity. Qed.

Lemma builtin_registries_separate_pf :
  (forall t, In t reg_objects20 -> umem (u t) obs21_builtin = false) /\
  (forall t, In t reg_observables21 -> umem (u t) obs21_builtin = true).
Proof.
  split.
  - intros t Hin. pose proof separate_all as H. rewrite forallb_forall in H. specialize (H t Hin).
    apply negb_true_iff in H. exact H.
  - intros t Hin. apply umem_map_u. exact Hin.
Qed.

(* hypotheses of `emitted` are satisfiable on the built-in registry *)
Lemma emitted_shapes_exist_pf :
  emitted pinned_mode obs21_builtin v21
    (JObj [(k_type, JStr (u "identity")); (k_spec_version, JStr v21); (k_id, JStr (u "identity--x"))])
  /\ emitted pinned_mode obs21_builtin v20
    (JObj [(k_type, JStr (u "identity")); (k_id, JStr (u "identity--x"))])
  /\ emitted pinned_mode obs21_builtin v21
    (JObj [(k_type, JStr (u "file")); (k_id, JStr (u "file--x"))]).
Proof.
  split; [|split].
  - eapply em_obj21; reflexivity.
  - eapply em_obj20; reflexivity.
  - eapply em_sco21; reflexivity.
Qed.

(* ... and the collision is a real shape: with "x-c14-collide" registered as a 2.1 observable, the 2.0 object of that
   name is read as 2.1 *)
Lemma collision_witness_pf :
  detect pinned_mode (u "x-c14-collide" :: obs21_builtin)
    (JObj [(k_type, JStr (u "x-c14-collide")); (k_id, JStr (u "x-c14-collide--x")); (u "name", JStr (u "a"))])
  = DVal (JStr v21).
Proof. vm_compute. reflexivity. Qed.

(* Proofs/C14Registry.v -- the built-in registries (generated key lists) keep the 2.0
   object types and the 2.1 observable types apart, which is what detect_spec_version
   relies on to tell a 2.0 SDO from a 2.1 SCO when neither carries spec_version.   *)
From Coq Require Import NArith List String Bool.
From V Require Import Base.UString Model.VersionDetect Gen.CallSites.
Import ListNotations.

Definition obs21_builtin : list ustring := map u reg_observables21.

Lemma umem_map_u : forall t l, In t l -> umem (u t) (map u l) = true.
Proof.
  intros t l. induction l as [|x l IH]; intros Hin; [destruct Hin|].
  simpl. destruct Hin as [->|Hin].
  - assert (forall s, ustr_eqb s s = true) as Hr.
    { induction s as [|c s IHs]; simpl; [reflexivity|]. rewrite N.eqb_refl. exact IHs. }
    rewrite Hr. reflexivity.
  - rewrite (IH Hin). apply orb_true_r.
Qed.

Lemma separate_all : forallb (fun t => negb (umem (u t) obs21_builtin)) reg_objects20 = true.
Proof. vm_compute. reflexivity. Qed.

Lemma builtin_registries_separate_pf :
  (forall t, In t reg_objects20 -> umem (u t) obs21_builtin = false) /\
  (forall t, In t reg_observables21 -> umem (u t) obs21_builtin = true).
Proof.
  split.
  - intros t Hin. pose proof separate_all as H. rewrite forallb_forall in H. specialize (H t Hin).
    apply negb_true_iff in H. exact H.
  - intros t Hin. apply umem_map_u. exact Hin.
Qed.

(* Proofs/PatternNumbers.v -- C10: the texts of numeric literals.
   Decimal digits <-> Decimal.uint, int(text), str(int).                      *)
From Coq Require Import NArith ZArith List Bool Lia Decimal DecimalN DecimalPos DecimalFacts.
From V Require Import Model.PatternSyntax Proofs.PatternR.
Import ListNotations.
Open Scope N_scope.

Lemma is_digit_cases : forall c, is_digit c = true ->
  c = 48 \/ c = 49 \/ c = 50 \/ c = 51 \/ c = 52 \/ c = 53 \/ c = 54 \/ c = 55 \/ c = 56 \/ c = 57.
Proof.
  intros c H. unfold is_digit in H. apply andb_true_iff in H. destruct H as [H1 H2].
  apply N.leb_le in H1, H2. lia.
Qed.

Lemma uint_of_digits_some : forall l, forallb is_digit l = true ->
  exists d, uint_of_digits l = Some d /\ digits_of_uint d = l.
Proof.
  induction l as [|c r IH]; intros H.
  - exists Nil. split; reflexivity.
  - cbn [forallb] in H. apply andb_true_iff in H. destruct H as [Hc Hr].
    destruct (IH Hr) as [d [Hd Hb]].
    cbn [uint_of_digits]. rewrite Hd.
    destruct (is_digit_cases c Hc) as [E|[E|[E|[E|[E|[E|[E|[E|[E|E]]]]]]]]]; subst c; cbn;
      eexists; (split; [reflexivity| cbn; rewrite Hb; reflexivity]).
Qed.

Lemma uint_of_digits_of_uint : forall d, uint_of_digits (digits_of_uint d) = Some d.
Proof. induction d; cbn; try rewrite IHd; reflexivity. Qed.

Lemma digits_of_uint_digits : forall d, forallb is_digit (digits_of_uint d) = true.
Proof. induction d; cbn; try rewrite IHd; reflexivity. Qed.

Lemma digits_of_uint_nil : forall d, digits_of_uint d = [] -> d = Nil.
Proof. destruct d; cbn; intros H; try discriminate; reflexivity. Qed.

Lemma nat_of_digits_some : forall l, l <> [] -> forallb is_digit l = true -> exists n, nat_of_digits l = Some n.
Proof.
  intros l Hn H. destruct (uint_of_digits_some l H) as [d [Hd _]].
  unfold nat_of_digits. destruct l; [congruence|]. rewrite Hd. eexists; reflexivity.
Qed.

Lemma int_body_digits : forall s, int_body_ok s = true -> s <> [] /\ forallb is_digit s = true.
Proof.
  intros s H. destruct s as [|c r]; [discriminate|]. cbn [int_body_ok] in H.
  apply andb_true_iff in H. destruct H as [H _]. apply andb_true_iff in H. destruct H as [Hc Hr].
  split; [discriminate|]. cbn [forallb]. rewrite Hc, Hr. reflexivity.
Qed.

Lemma is_digit_not_sign : forall c, is_digit c = true -> (c =? 45) = false /\ (c =? 43) = false.
Proof.
  intros c H. unfold is_digit in H. apply andb_true_iff in H. destruct H as [H1 H2].
  apply N.leb_le in H1, H2. split; apply N.eqb_neq; lia.
Qed.

(* int(text) succeeds on every IntPosLiteral / IntNegLiteral *)
Lemma py_int_intpos : forall s, intpos_ok s = true -> exists z, py_int s = Some z.
Proof.
  intros s H. destruct s as [|c r]; [discriminate|]. cbn [intpos_ok] in H.
  unfold py_int, split_sign.
  destruct (c =? 43) eqn:E43.
  - apply N.eqb_eq in E43; subst c. change (43 =? 45) with false. cbn iota.
    destruct (int_body_digits _ H) as [Hn Hd]. destruct (nat_of_digits_some _ Hn Hd) as [n Hn']. rewrite Hn'. eexists; reflexivity.
  - destruct (int_body_digits _ H) as [Hn Hd].
    assert (Hc : is_digit c = true) by (cbn [forallb] in Hd; apply andb_true_iff in Hd; tauto).
    destruct (is_digit_not_sign c Hc) as [E45 _]. rewrite E45.
    destruct (nat_of_digits_some _ Hn Hd) as [n Hn']. rewrite Hn'. eexists; reflexivity.
Qed.

Lemma py_int_intneg : forall s, intneg_ok s = true -> exists z, py_int s = Some z.
Proof.
  intros s H. destruct s as [|c r]; [discriminate|]. cbn [intneg_ok] in H.
  apply andb_true_iff in H. destruct H as [Hc H]. apply N.eqb_eq in Hc; subst c.
  unfold py_int, split_sign. change (45 =? 45) with true. cbn iota.
  destruct (int_body_digits _ H) as [Hn Hd]. destruct (nat_of_digits_some _ Hn Hd) as [n Hn']. rewrite Hn'. eexists; reflexivity.
Qed.

(* float(text) succeeds on every Float literal *)
Lemma py_float_body_ok : forall neg s, float_body_ok s = true -> exists f, py_float_body neg s = Some f.
Proof.
  intros neg s H. unfold float_body_ok in H. unfold py_float_body.
  destruct (split_at 46 s) as [[a b]|]; [|discriminate].
  apply andb_true_iff in H. destruct H as [H Hb]. apply andb_true_iff in H. destruct H as [Ha Hb'].
  unfold digs. rewrite Ha, Hb'. cbn [andb].
  destruct b; [discriminate|]. cbn. rewrite andb_false_r. cbn. eexists; reflexivity.
Qed.

Lemma split_at_head_digit : forall s a b, split_at 46 s = Some (a, b) -> forallb is_digit a = true ->
  match s with c :: _ => c = 46 \/ is_digit c = true | [] => False end.
Proof.
  intros s a b H Ha. destruct s as [|c r]; [discriminate|]. cbn [split_at] in H.
  destruct (c =? 46) eqn:E.
  - left. apply N.eqb_eq; exact E.
  - destruct (split_at 46 r) as [[a' b']|]; [|discriminate]. inversion H; subst. cbn [forallb] in Ha.
    apply andb_true_iff in Ha. right. tauto.
Qed.

Lemma float_body_head : forall s, float_body_ok s = true ->
  match s with c :: _ => (c =? 45) = false /\ (c =? 43) = false | [] => False end.
Proof.
  intros s H. unfold float_body_ok in H.
  destruct (split_at 46 s) as [[a b]|] eqn:E; [|discriminate].
  apply andb_true_iff in H. destruct H as [H _]. apply andb_true_iff in H. destruct H as [Ha _].
  pose proof (split_at_head_digit s a b E Ha) as Hh. destruct s as [|c r]; [exact Hh|].
  destruct Hh as [Hh|Hh].
  - subst c. split; reflexivity.
  - apply is_digit_not_sign; exact Hh.
Qed.

Lemma py_float_floatpos : forall s, floatpos_ok s = true -> exists f, py_float s = Some f.
Proof.
  intros s H. destruct s as [|c r]; [discriminate|]. cbn [floatpos_ok] in H.
  unfold py_float, split_sign.
  destruct (c =? 43) eqn:E43.
  - apply N.eqb_eq in E43; subst c. change (43 =? 45) with false. cbn iota. apply py_float_body_ok; exact H.
  - pose proof (float_body_head _ H) as [E45 _]. rewrite E45. apply py_float_body_ok; exact H.
Qed.

Lemma py_float_floatneg : forall s, floatneg_ok s = true -> exists f, py_float s = Some f.
Proof.
  intros s H. destruct s as [|c r]; [discriminate|]. cbn [floatneg_ok] in H.
  apply andb_true_iff in H. destruct H as [Hc H]. apply N.eqb_eq in Hc; subst c.
  unfold py_float, split_sign. change (45 =? 45) with true. cbn iota. apply py_float_body_ok; exact H.
Qed.

(* Proofs/SchemaUuid.v -- identifiers (C02): on text of the 8-4-4-4-12 form, uuid.UUID(text).int
   (Model/PyBase.v:py_uuid_int) is the hexadecimal value of the digits, so the library's variant /
   version tests are the specification's; hence _validate_id (repaired variant) implies valid_id.   *)
From Coq Require Import NArith ZArith List String Bool Lia.
From V Require Import Base.UString Base.Json Model.SchemaTypes Model.PyBase Spec.StixValid Proofs.SchemaBasics.
Import ListNotations.
Local Open Scope N_scope.

Definition hexdash (c : N) : bool := is_hexdigit c || (c =? 45).

Lemma hexdigit_range c : is_hexdigit c = true -> (48 <= c <= 57) \/ (97 <= c <= 102) \/ (65 <= c <= 70).
Proof.
  unfold is_hexdigit, is_digit. intros H.
  repeat (apply orb_true_iff in H; destruct H as [H | H]);
    apply andb_true_iff in H; destruct H as [H1 H2]; apply N.leb_le in H1; apply N.leb_le in H2; lia.
Qed.

Lemma hexdash_range c : hexdash c = true -> (48 <= c <= 57) \/ (97 <= c <= 102) \/ (65 <= c <= 70) \/ c = 45.
Proof.
  unfold hexdash. intros H. apply orb_true_iff in H. destruct H as [H | H].
  - apply hexdigit_range in H. tauto.
  - apply N.eqb_eq in H. tauto.
Qed.

(* ---- str.replace / strip / int on such text ---- *)
Lemma uremove_all_noop fuel o old s :
  forallb (fun c => negb (o =? c)) s = true -> uremove_all fuel (o :: old) s = s.
Proof.
  revert s. induction fuel; intros s H; simpl; auto.
  destruct s as [|c r]; auto. simpl in H. apply andb_true_iff in H. destruct H as [H1 H2].
  apply negb_true_iff in H1. rewrite H1. simpl. rewrite IHfuel; auto.
Qed.

Lemma lstrip_noop chars s :
  match s with c :: _ => existsb (N.eqb c) chars = false | [] => True end -> lstrip_chars chars s = s.
Proof. destruct s; simpl; auto. intros H. rewrite H. auto. Qed.

Lemma strip_noop chars s :
  forallb (fun c => negb (existsb (N.eqb c) chars)) s = true -> strip_chars chars s = s.
Proof.
  intros H. unfold strip_chars.
  assert (A : forall t, forallb (fun c => negb (existsb (N.eqb c) chars)) t = true -> lstrip_chars chars t = t).
  { intros t Ht. apply lstrip_noop. destruct t; auto. simpl in Ht. apply andb_true_iff in Ht. destruct Ht as [Ht _].
    apply negb_true_iff in Ht. auto. }
  rewrite (A s H). rewrite A.
  - apply rev_involutive.
  - rewrite forallb_forall in *. intros x Hx. apply H. apply in_rev. auto.
Qed.

Lemma uremove_dash fuel s :
  (List.length s <= fuel)%nat -> uremove_all fuel [45] s = filter (fun c => negb (c =? 45)) s.
Proof.
  revert s. induction fuel; intros s H.
  - destruct s; simpl in *; auto. lia.
  - destruct s as [|c r]; [reflexivity|]. simpl in H.
    cbn [uremove_all ustr_prefix List.length udrop filter].
    destruct (45 =? c) eqn:E; cbn [andb].
    + apply N.eqb_eq in E. subst c. cbn [N.eqb Pos.eqb negb]. apply IHfuel. lia.
    + rewrite N.eqb_sym, E. cbn [negb]. f_equal. apply IHfuel. lia.
Qed.

Lemma digits_us_all isd s prev acc :
  forallb isd s = true -> (s <> [] \/ prev = true) -> digits_us isd s prev acc = Some (rev acc ++ s).
Proof.
  revert prev acc. induction s as [|c r IH]; intros prev acc H Hne; simpl.
  - destruct Hne as [Hne | ->]; [contradiction|]. rewrite app_nil_r. auto.
  - simpl in H. apply andb_true_iff in H. destruct H as [H1 H2]. rewrite H1.
    rewrite IH; auto. simpl. rewrite <- app_assoc. auto.
Qed.

Lemma split_sign_other c r : c <> 45 -> c <> 43 -> split_sign (c :: r) = (false, c :: r).
Proof.
  intros H1 H2. unfold split_sign. apply N.eqb_neq in H1, H2. rewrite H1, H2. reflexivity.
Qed.

Lemma strip_hex_prefix_other c r :
  match r with x :: _ => x <> 120 /\ x <> 88 | [] => True end -> strip_hex_prefix (c :: r) = c :: r.
Proof.
  intros H. unfold strip_hex_prefix. destruct r as [|x r0]; auto.
  destruct H as [H1 H2]. apply N.eqb_neq in H1, H2. rewrite H1, H2. rewrite andb_false_r. reflexivity.
Qed.

Lemma py_int_hex h :
  forallb is_hexdigit h = true -> h <> [] -> py_int_of_text true h = Ok (digits_val 16%Z h 0%Z).
Proof.
  intros H Hne. unfold py_int_of_text.
  assert (Hr : forall c, In c h -> (48 <= c <= 57) \/ (97 <= c <= 102) \/ (65 <= c <= 70)).
  { intros c Hc. rewrite forallb_forall in H. apply hexdigit_range. auto. }
  assert (Ha : all_ascii h = true).
  { unfold all_ascii. rewrite forallb_forall. intros c Hc. unfold is_ascii. apply N.ltb_lt. specialize (Hr c Hc). lia. }
  rewrite Ha. simpl negb. cbv iota.
  rewrite strip_noop.
  2: { rewrite forallb_forall. intros c Hc. specialize (Hr c Hc). apply negb_true_iff. simpl.
       repeat (apply orb_false_iff; split); first [apply N.eqb_neq; lia | reflexivity]. }
  destruct h as [|c r]; [contradiction|].
  assert (Hc := Hr c (or_introl eq_refl)).
  rewrite split_sign_other by lia. cbv iota beta.
  rewrite strip_hex_prefix_other.
  2: { destruct r as [|x r0]; auto. assert (Hx := Hr x (or_intror (or_introl eq_refl))). lia. }
  rewrite digits_us_all; [ | exact H | left; discriminate]. reflexivity.
Qed.

Lemma canonical_hexdash s : canonical_uuid_text s = true -> forallb hexdash s = true /\ List.length s = 36%nat.
Proof.
  unfold canonical_uuid_text. intros H. apply andb_true_iff in H. destruct H as [HL H].
  apply Nat.eqb_eq in HL. split; auto.
  assert (G : forall (l1 : list nat) (l2 : ustring),
             forallb (fun ic : nat * N => let '(i, c) := ic in
                        if Nat.eqb i 8 || Nat.eqb i 13 || Nat.eqb i 18 || Nat.eqb i 23 then c =? 45 else is_hexdigit c)
                     (combine l1 l2) = true ->
             (List.length l2 <= List.length l1)%nat -> forallb hexdash l2 = true).
  { induction l1 as [|i l1 IH]; intros l2 Hf Hl.
    - destruct l2; simpl in *; auto. lia.
    - destruct l2 as [|c l2]; simpl in *; auto. apply andb_true_iff in Hf. destruct Hf as [Hc Hf].
      rewrite (IH l2 Hf) by lia. rewrite andb_true_r. unfold hexdash.
      destruct (Nat.eqb i 8 || Nat.eqb i 13 || Nat.eqb i 18 || Nat.eqb i 23); rewrite Hc; auto. apply orb_true_r. }
  apply (G (seq 0 36) s H). rewrite seq_length. lia.
Qed.

Lemma py_uuid_int_canonical s i :
  canonical_uuid_text s = true -> py_uuid_int s = Ok i ->
  i = hex_val (filter (fun c => negb (c =? 45)) s).
Proof.
  intros Hc H. destruct (canonical_hexdash s Hc) as [Hd HL].
  assert (Hr : forall c, In c s -> (48 <= c <= 57) \/ (97 <= c <= 102) \/ (65 <= c <= 70) \/ c = 45).
  { intros c Hin. rewrite forallb_forall in Hd. apply hexdash_range. auto. }
  unfold py_uuid_int in H.
  assert (N117 : forallb (fun c => negb (117 =? c)) s = true).
  { rewrite forallb_forall. intros c Hin. specialize (Hr c Hin). apply negb_true_iff. apply N.eqb_neq. lia. }
  change (u "urn:") with (117 :: u "rn:") in H. change (u "uuid:") with (117 :: u "uid:") in H.
  rewrite (uremove_all_noop _ 117 (u "rn:") s N117) in H.
  rewrite (uremove_all_noop _ 117 (u "uid:") s N117) in H.
  rewrite strip_noop in H.
  2: { rewrite forallb_forall. intros c Hin. specialize (Hr c Hin). apply negb_true_iff. simpl.
       repeat (apply orb_false_iff; split); first [apply N.eqb_neq; lia | reflexivity]. }
  rewrite uremove_dash in H by lia.
  set (h := filter (fun c => negb (c =? 45)) s) in *.
  destruct (negb (Nat.eqb (List.length h) 32)) eqn:E32; try discriminate.
  apply negb_false_iff in E32. apply Nat.eqb_eq in E32.
  assert (Hh : forallb is_hexdigit h = true).
  { rewrite forallb_forall. intros c Hin. unfold h in Hin. apply filter_In in Hin. destruct Hin as [Hin Hn].
    rewrite forallb_forall in Hd. specialize (Hd c Hin). unfold hexdash in Hd.
    apply negb_true_iff in Hn. rewrite Hn, orb_false_r in Hd. auto. }
  rewrite py_int_hex in H; auto.
  2: { intros E. rewrite E in E32. discriminate. }
  simpl in H.
  match type of H with (if ?b then _ else _) = _ => destruct b; try discriminate end.
  injection H as <-. reflexivity.
Qed.

Lemma Ok_inj {A} (x y : A) : Ok x = Ok y -> x = y.
Proof. intros H. injection H. auto. Qed.

(* ---- _check_uuid / _validate_id, repaired variant, no interoperability ---- *)
Lemma check_uuid_valid vr s v :
  vr_uuid_canon vr = true -> check_uuid vr s v false = Ok true -> valid_uuid_text v s = true.
Proof.
  intros Hc H. unfold check_uuid in H. inv_bind H. rewrite Hc in Hb.
  destruct (canonical_uuid_text s) eqn:Ec; cbn [andb negb] in Hb; [|discriminate].
  unfold valid_uuid_text. rewrite Ec. rewrite andb_true_l.
  rewrite <- (py_uuid_int_canonical s a Ec Ha). cbv zeta.
  set (vt := uuid_variant_rfc4122 a) in *. set (vn := uuid_version a) in *.
  apply Ok_inj in Hb. destruct v; [exact Hb | rewrite andb_true_r; exact Hb].
Qed.

Lemma validate_id_valid vr s v prefix :
  vr_uuid_canon vr = true -> validate_id vr s v (Some prefix) false = Ok tt -> valid_id v (Some prefix) s = true.
Proof.
  intros Hc H. unfold validate_id in H. unfold valid_id.
  destruct (ustr_prefix prefix s); cbn [negb] in H; try discriminate. rewrite andb_true_l.
  destruct (check_uuid vr (udrop (List.length prefix) s) v false) as [[|]| |] eqn:E; try discriminate.
  eapply check_uuid_valid; eauto.
Qed.

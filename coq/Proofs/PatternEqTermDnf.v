(* Proofs/PatternEqTermDnf.v -- the two DNF transformers terminate (some fuel
   suffices), results that are not fuel exhaustion do not depend on the amount
   of fuel, and hence the whole normaliser returns, for some fuel, on every
   constructor-valid pattern: equiv_never_raises without the fuel proviso.  *)
From Coq Require Import NArith ZArith List Bool Permutation Lia Arith String.
From V Require Import Base.UString Model.PatternEq Proofs.PatternEqCmp Proofs.PatternEqLists
     Proofs.PatternEqDnf Proofs.PatternEqNorm Proofs.PatternEqErr Proofs.PatternEqTerm Proofs.PatternEqO Proofs.PatternEqValid.
Import ListNotations.
Local Open Scope nat_scope.
Local Open Scope list_scope.

Definition fuel_ok {A} (r : res A) : Prop := r <> Err EFuel.

(* ------------------------------------------------------------------ *)
(* more fuel does not change a result that is not fuel exhaustion      *)

Lemma mapM_stable : forall {A B} (f f' : A -> res B) l R,
    (forall a r, In a l -> f a = r -> fuel_ok r -> f' a = r) ->
    mapM f l = R -> fuel_ok R -> mapM f' l = R.
Proof.
  intros A B f f'. induction l as [|x l IH]; intros R Hs E HR; [exact E|].
  simpl in *. destruct (f x) as [y|e] eqn:Ex.
  - rewrite (Hs x (Ok y) (or_introl eq_refl) Ex ltac:(discriminate)).
    destruct (mapM f l) as [ys|e] eqn:El.
    + rewrite (IH (Ok ys) (fun a r Ha => Hs a r (or_intror Ha)) eq_refl ltac:(discriminate)). exact E.
    + subst R. rewrite (IH (Err e) (fun a r Ha => Hs a r (or_intror Ha)) eq_refl); [reflexivity|].
      intro Ee. apply HR. congruence.
  - subst R. rewrite (Hs x (Err e) (or_introl eq_refl) Ex); [reflexivity|]. intro Ee. apply HR. congruence.
Qed.

Lemma bind_stable : forall {A B} (r r' : res A) (k k' : A -> res B) R,
    (fuel_ok r -> r' = r) -> (forall a, r = Ok a -> fuel_ok (k a) -> k' a = k a) ->
    bind r k = R -> fuel_ok R -> bind r' k' = R.
Proof.
  intros A B r r' k k' R Hr Hk E HR. destruct r as [a|e]; simpl in E.
  - rewrite (Hr ltac:(discriminate)). simpl. rewrite (Hk a eq_refl); [exact E|]. rewrite E. exact HR.
  - subst R. rewrite Hr; [reflexivity|]. intro Ee. apply HR. inversion Ee. reflexivity.
Qed.

Lemma kids_stable : forall {A} (g g' : A -> res (A * bool)) l R,
    (forall a r, g a = r -> fuel_ok r -> g' a = r) ->
    mapM (fun c => r <- g c ;; Ok (fst r)) l = R -> fuel_ok R -> mapM (fun c => r <- g' c ;; Ok (fst r)) l = R.
Proof.
  intros A g g' l R Hg E HR.
  apply (mapM_stable (fun c => r <- g c ;; Ok (fst r)) (fun c => r <- g' c ;; Ok (fst r)) l R); [|exact E | exact HR].
  intros a r _ Ea Hr.
  apply (bind_stable (g a) (g' a) (fun r0 => Ok (fst r0)) (fun r0 => Ok (fst r0)) r); [| |exact Ea | exact Hr].
  - intro Hok. apply Hg; [reflexivity | exact Hok].
  - reflexivity.
Qed.

Lemma cdnf_more : forall fuel e R k, cdnf fuel e = R -> fuel_ok R -> cdnf (fuel + k) e = R.
Proof.
  induction fuel as [|f IH]; intros e R k E HR; [simpl in E; subst R; contradiction HR; reflexivity|].
  replace (S f + k) with (S (f + k)) by lia. destruct e as [a|l|l]; cbn [cdnf] in *.
  - exact E.
  - apply (bind_stable (mapM (cdnf f) l) (mapM (cdnf (f + k)) l) _ _ R) with (3 := E); [| |exact HR].
    + intro Hok. apply (mapM_stable (cdnf f) (cdnf (f + k)) l _); [|reflexivity | exact Hok].
      intros a r _ Ea Hr. apply IH; assumption.
    + intros rs _. destruct (split_or (map fst rs)) as [ors others]. destruct ors as [|o1 ors']; [reflexivity|].
      intro Hok. set (sets := map (fun p => others ++ p) (product (o1 :: ors'))) in *.
      destruct (dnf_prune sets) as [kept|e0]; [|reflexivity]. simpl in *.
      apply (bind_stable (mapM (fun c => r <- cdnf f c ;; Ok (fst r)) kept)
                         (mapM (fun c => r <- cdnf (f + k) c ;; Ok (fst r)) kept) _ _ _) with (3 := eq_refl); [| |exact Hok].
      * intro Hok2. apply (kids_stable (cdnf f) (cdnf (f + k)) kept _); [|reflexivity | exact Hok2].
        intros a r Ea Hr. apply IH; assumption.
      * reflexivity.
  - apply (bind_stable (mapM (cdnf f) l) (mapM (cdnf (f + k)) l) _ _ R) with (3 := E); [| |exact HR].
    + intro Hok. apply (mapM_stable (cdnf f) (cdnf (f + k)) l _); [|reflexivity | exact Hok].
      intros a r _ Ea Hr. apply IH; assumption.
    + reflexivity.
Qed.

Lemma odnf_more : forall fuel e R k, odnf fuel e = R -> fuel_ok R -> odnf (fuel + k) e = R.
Proof.
  induction fuel as [|f IH]; intros e R k E HR; [simpl in E; subst R; contradiction HR; reflexivity|].
  replace (S f + k) with (S (f + k)) by lia.
  assert (Hnode : forall o l R,
             (rs <- mapM (odnf f) l ;;
              (let l' := map fst rs in
               if existsb is_oor l'
               then kids <- mapM (fun c => r <- odnf f c ;; Ok (fst r)) (map (mko o) (product (map or_iterable l'))) ;; Ok (OOr kids, true)
               else Ok (mko o l', existsb snd rs))) = R -> fuel_ok R ->
             (rs <- mapM (odnf (f + k)) l ;;
              (let l' := map fst rs in
               if existsb is_oor l'
               then kids <- mapM (fun c => r <- odnf (f + k) c ;; Ok (fst r)) (map (mko o) (product (map or_iterable l'))) ;; Ok (OOr kids, true)
               else Ok (mko o l', existsb snd rs))) = R).
  { intros o l R0 E0 HR0.
    apply (bind_stable (mapM (odnf f) l) (mapM (odnf (f + k)) l) _ _ R0) with (3 := E0); [| |exact HR0].
    - intro Hok. apply (mapM_stable (odnf f) (odnf (f + k)) l _); [|reflexivity | exact Hok].
      intros a r _ Ea Hr. apply IH; assumption.
    - intros rs _. cbv zeta. destruct (existsb is_oor (map fst rs)); [|reflexivity].
      intro Hok.
      apply (bind_stable (mapM (fun c => r <- odnf f c ;; Ok (fst r)) (map (mko o) (product (map or_iterable (map fst rs)))))
                         (mapM (fun c => r <- odnf (f + k) c ;; Ok (fst r)) (map (mko o) (product (map or_iterable (map fst rs))))) _ _ _)
        with (3 := eq_refl); [| |exact Hok].
      + intro Hok2. apply (kids_stable (odnf f) (odnf (f + k)) _ _); [|reflexivity | exact Hok2].
        intros a r Ea Hr. apply IH; assumption.
      + reflexivity. }
  destruct e as [x|l|l|l|e0 q]; cbn [odnf] in *.
  - exact E.
  - apply (Hnode OpAnd l R E HR).
  - apply (bind_stable (mapM (odnf f) l) (mapM (odnf (f + k)) l) _ _ R) with (3 := E); [| |exact HR].
    + intro Hok. apply (mapM_stable (odnf f) (odnf (f + k)) l _); [|reflexivity | exact Hok].
      intros a r _ Ea Hr. apply IH; assumption.
    + reflexivity.
  - apply (Hnode OpFby l R E HR).
  - apply (bind_stable (odnf f e0) (odnf (f + k) e0) _ _ R) with (3 := E); [| |exact HR].
    + intro Hok. apply IH; [reflexivity | exact Hok].
    + reflexivity.
Qed.

(* ------------------------------------------------------------------ *)
(* generic: a common amount of fuel for a list of calls                *)

Lemma common_fuel : forall {A} (P : nat -> A -> Prop) l,
    (forall n k a, P n a -> P (n + k) a) -> (forall a, In a l -> exists n, P n a) -> exists N, forall a, In a l -> P N a.
Proof.
  intros A P l Hm. induction l as [|x l IH]; intro He.
  - exists 0. intros a [].
  - destruct (He x (or_introl eq_refl)) as [n Hn]. destruct IH as [N HN]; [intros a Ha; apply He; right; exact Ha|].
    exists (n + N). intros a [<-|Ha]; [apply Hm; exact Hn|]. rewrite Nat.add_comm. apply Hm. apply HN; exact Ha.
Qed.

Lemma mapM_fuel_ok : forall {A B} (f : A -> res B) l, (forall a, In a l -> fuel_ok (f a)) -> fuel_ok (mapM f l).
Proof.
  intros A B f l Hf E. apply mapM_err in E. destruct E as [x [Hx Ex]]. apply (Hf x Hx Ex).
Qed.

(* ------------------------------------------------------------------ *)
(* comparison-level DNF terminates                                     *)

(* nesting depth of ORs *)
Fixpoint cod (e : cexpr) : nat :=
  match e with
  | Atom _ => 0
  | CAnd l => list_max (map cod l)
  | COr l => S (list_max (map cod l))
  end.

Lemma cod_in : forall l c, In c l -> cod c <= list_max (map cod l).
Proof.
  intros l c Hc. assert (H : Forall (fun k => k <= list_max (map cod l)) (map cod l)) by (apply list_max_le; lia).
  rewrite Forall_forall in H. apply H. apply in_map. exact Hc.
Qed.

Lemma or_free_cod : forall e, or_freeb e = true -> cod e = 0.
Proof.
  induction e using cexpr_ind'; intro F; simpl in *; [reflexivity | | discriminate].
  assert (Hle : list_max (map cod l) <= 0); [|lia].
  apply list_max_le. apply Forall_map. rewrite Forall_forall in *. rewrite forallb_forall in F.
  intros c Hc. rewrite (H c Hc (F c Hc)). lia.
Qed.

Lemma dnf_prune_members : forall sets kept, dnf_prune sets = Ok kept -> forall k, In k kept -> exists s, In s sets /\ k = CAnd s.
Proof.
  induction sets as [|s r IH]; intros kept E k Hk.
  - simpl in E. inversion E; subst. destruct Hk.
  - cbn [dnf_prune] in E. destruct (rt_dupe (CAnd s)) as [rt|e].
    + destruct (dnf_prune r) as [k0|] eqn:Ek; [|discriminate]. inversion E; subst.
      destruct Hk as [<-|Hk]; [exists s; split; [left; reflexivity | reflexivity]|].
      destruct (IH k0 eq_refl k Hk) as [s' [Hs' Es']]. exists s'. split; [right; exact Hs' | exact Es'].
    + destruct e; try discriminate. destruct (IH kept E k Hk) as [s' [Hs' Es']]. exists s'. split; [right; exact Hs' | exact Es'].
Qed.

Definition cdnf_good (fuel : nat) (e : cexpr) : Prop :=
  fuel_ok (cdnf fuel e) /\ forall e' ch, cdnf fuel e = Ok (e', ch) -> cod e' <= cod e.

Lemma cdnf_good_more : forall n k e, cdnf_good n e -> cdnf_good (n + k) e.
Proof.
  intros n k e [H1 H2]. pose proof (cdnf_more n e _ k eq_refl H1) as Em. unfold cdnf_good. rewrite Em. split; assumption.
Qed.

Lemma cdnf_children_good : forall F l,
    (forall c, In c l -> cdnf_good F c) ->
    match mapM (cdnf F) l with
    | Ok rs => Forall2 (fun c r => cdnf F c = Ok r /\ cod (fst r) <= cod c) l rs
    | Err x => x <> EFuel
    end.
Proof.
  intros F l Hg. destruct (mapM (cdnf F) l) as [rs|x] eqn:Em.
  - apply mapM_Forall2 in Em. revert Hg. induction Em as [|c r l rs Ec _ IH]; intro Hg; constructor.
    + split; [exact Ec|]. destruct r as [c' ch]. apply (proj2 (Hg c (or_introl eq_refl)) c' ch Ec).
    + apply IH. intros a Ha. apply Hg. right. exact Ha.
  - apply mapM_err in Em. destruct Em as [c [Hc Ec]]. intro Ex. subst x. apply (proj1 (Hg c Hc) Ec).
Qed.

Theorem cdnf_terminates_good : forall d s e, cod e <= d -> csize e <= s -> exists fuel, cdnf_good fuel e.
Proof.
  induction d as [d IHd] using lt_wf_ind. induction s as [s IHs] using lt_wf_ind. intros e Hd Hs.
  destruct e as [a|l|l].
  - exists 1. split; [discriminate | intros e' ch E; inversion E; subst; lia].
  - (* AND *)
    destruct (common_fuel cdnf_good l cdnf_good_more) as [F1 HF1].
    { intros c Hc. apply (IHs (csize c)); [|pose proof (cod_in l c Hc); simpl in Hd; lia | lia].
      simpl in Hs. assert (csize c <= list_sum (map csize l)); [|lia].
      clear -Hc. induction l as [|x l IH]; [destruct Hc|]. simpl. destruct Hc as [<-|Hc]; [lia | specialize (IH Hc); lia]. }
    pose proof (cdnf_children_good F1 l HF1) as Gm.
    destruct (mapM (cdnf F1) l) as [rs|x] eqn:Em.
    + (* children done; the distribution step *)
      assert (Hcodl' : list_max (map cod (map fst rs)) <= list_max (map cod l)).
      { apply list_max_le. apply Forall_map. apply Forall_forall. intros c' Hc'. apply in_map_iff in Hc'. destruct Hc' as [r [<- Hr]].
        destruct (Forall2_In_r _ _ _ r Gm Hr) as [c [Hc [_ Hle]]]. pose proof (cod_in l c Hc). lia. }
      destruct (split_or (map fst rs)) as [ors others] eqn:Es.
      destruct ors as [|o1 ors'].
      * exists (S F1). split; cbn [cdnf]; rewrite Em; simpl; rewrite Es; [discriminate|].
        intros e' ch E. inversion E; subst. simpl. exact Hcodl'.
      * destruct (split_or_spec _ _ _ Es) as [H1 [H2 _]].
        set (sets := map (fun p => others ++ p) (product (o1 :: ors'))).
        destruct (dnf_prune sets) as [kept|e0] eqn:Ek.
        2:{ exists (S F1). split; cbn [cdnf]; rewrite Em; simpl; rewrite Es; fold sets; rewrite Ek; simpl.
            - pose proof (dnf_prune_err _ _ Ek). subst e0. discriminate.
            - intros e' ch E. discriminate. }
        (* every kept node has a smaller OR-depth *)
        assert (Hpos : 1 <= list_max (map cod (map fst rs))).
        { pose proof (cod_in (map fst rs) (COr o1) (H2 o1 (or_introl eq_refl))) as Hc. simpl in Hc. lia. }
        assert (Hkept : forall k, In k kept -> cod k < list_max (map cod (map fst rs))).
        { intros k Hk. destruct (dnf_prune_members sets kept Ek k Hk) as [s' [Hs' ->]].
          apply in_map_iff in Hs'. destruct Hs' as [p [<- Hp]]. simpl.
          assert (Hle : list_max (map cod (others ++ p)) <= list_max (map cod (map fst rs)) - 1); [|lia].
          apply list_max_le. apply Forall_map. apply Forall_forall. intros a Ha. apply in_app_or in Ha. destruct Ha as [Ha|Ha].
          - (* a non-OR output is OR-free *)
            destruct (H1 a Ha) as [Hin Hno]. apply in_map_iff in Hin. destruct Hin as [r [Er Hr]].
            destruct (Forall2_In_r _ _ _ r Gm Hr) as [c [Hc [Ec _]]]. destruct r as [c' ch']. simpl in Er. subst c'.
            assert (Nc : is_cor c = false).
            { destruct c as [?|?|lo]; try reflexivity. apply cdnf_or_inv in Ec. destruct Ec as [f0 [rs0 [_ [_ Ec]]]]. subst a. discriminate. }
            destruct (cdnf_non_or F1 c a ch' Ec Nc Hno) as [Hfree Eq]. subst a. rewrite (or_free_cod c Hfree). lia.
          - destruct (product_In _ p a Hp Ha) as [ops [Ho Hao]].
            pose proof (cod_in (map fst rs) (COr ops) (H2 ops Ho)) as Hc. simpl in Hc.
            pose proof (cod_in ops a Hao). lia. }
        destruct (common_fuel cdnf_good kept cdnf_good_more) as [F2 HF2].
        { intros k Hk. apply (IHd (cod k)) with (s := csize k); [|lia | lia].
          pose proof (Hkept k Hk). simpl in Hd. lia. }
        exists (S (F1 + F2)).
        assert (Em' : mapM (cdnf (F1 + F2)) l = Ok rs).
        { apply (mapM_stable (cdnf F1) (cdnf (F1 + F2)) l _); [|exact Em | discriminate].
          intros a r _ Ea Hr. apply cdnf_more; assumption. }
        assert (HF2' : forall k, In k kept -> cdnf_good (F1 + F2) k).
        { intros k Hk. rewrite Nat.add_comm. apply cdnf_good_more. apply HF2; exact Hk. }
        assert (Gk : match mapM (fun c => r <- cdnf (F1 + F2) c ;; Ok (fst r)) kept with
                     | Ok kids => Forall (fun kid => cod kid < list_max (map cod (map fst rs))) kids
                     | Err x => x <> EFuel end).
        { clear -HF2' Hkept. induction kept as [|k kept IH]; simpl; [constructor|].
          destruct (HF2' k (or_introl eq_refl)) as [G1 G2].
          destruct (cdnf (F1 + F2) k) as [[k' ch]|x] eqn:Ekk; simpl.
          - assert (IH' := IH (fun a Ha => Hkept a (or_intror Ha)) (fun a Ha => HF2' a (or_intror Ha))).
            destruct (mapM (fun c => r <- cdnf (F1 + F2) c ;; Ok (fst r)) kept) as [kids|x]; [|exact IH'].
            constructor; [|exact IH']. pose proof (G2 k' ch eq_refl). pose proof (Hkept k (or_introl eq_refl)). lia.
          - intro Ex. subst x. apply G1. reflexivity. }
        split; cbn [cdnf]; rewrite Em'; simpl; rewrite Es; fold sets; rewrite Ek; simpl.
        -- destruct (mapM (fun c => r <- cdnf (F1 + F2) c ;; Ok (fst r)) kept) as [kids|x]; simpl.
           ++ destruct (existsb is_empty_or kids); discriminate.
           ++ intro Ex. inversion Ex. apply Gk. assumption.
        -- intros e' ch E.
           destruct (mapM (fun c => r <- cdnf (F1 + F2) c ;; Ok (fst r)) kept) as [kids|x]; simpl in E; [|discriminate].
           destruct (existsb is_empty_or kids); [discriminate|]. inversion E; subst. simpl.
           assert (Hle : list_max (map cod kids) <= list_max (map cod (map fst rs)) - 1).
           { apply list_max_le. apply Forall_map. eapply Forall_impl; [|exact Gk]. intros a Ha. simpl in Ha. lia. }
           lia.
    + exists (S F1). split; cbn [cdnf]; rewrite Em; simpl; [intro Ex; inversion Ex; apply Gm; assumption | discriminate].
  - (* OR *)
    destruct (common_fuel cdnf_good l cdnf_good_more) as [F1 HF1].
    { intros c Hc. apply (IHs (csize c)); [|pose proof (cod_in l c Hc); simpl in Hd; lia | lia].
      simpl in Hs. assert (csize c <= list_sum (map csize l)); [|lia].
      clear -Hc. induction l as [|x l IH]; [destruct Hc|]. simpl. destruct Hc as [<-|Hc]; [lia | specialize (IH Hc); lia]. }
    pose proof (cdnf_children_good F1 l HF1) as Gm.
    exists (S F1). destruct (mapM (cdnf F1) l) as [rs|x] eqn:Em; split; cbn [cdnf]; rewrite Em; simpl.
    + discriminate.
    + intros e' ch E. inversion E; subst. simpl.
      assert (Hle : list_max (map cod (map fst rs)) <= list_max (map cod l)); [|lia].
      apply list_max_le. apply Forall_map. apply Forall_forall. intros c' Hc'. apply in_map_iff in Hc'. destruct Hc' as [r [<- Hr]].
      destruct (Forall2_In_r _ _ _ r Gm Hr) as [c [Hc [_ Hle]]]. pose proof (cod_in l c Hc). lia.
    + intro Ex. inversion Ex. apply Gm. assumption.
    + discriminate.
Qed.

Theorem cdnf_terminates : forall e, exists fuel, fuel_ok (cdnf fuel e).
Proof. intro e. destruct (cdnf_terminates_good (cod e) (csize e) e (le_n _) (le_n _)) as [fuel [H _]]. exists fuel. exact H. Qed.

(* ------------------------------------------------------------------ *)
(* observation-level DNF terminates                                    *)

(* nesting of qualifiers; nesting of ORs not crossing a qualifier *)
Fixpoint oqd (e : oexpr) : nat :=
  match e with
  | Obs _ => 0
  | OAnd l => list_max (map oqd l)
  | OOr l => list_max (map oqd l)
  | OFby l => list_max (map oqd l)
  | OQual e' _ => S (oqd e')
  end.

Fixpoint ood (e : oexpr) : nat :=
  match e with
  | Obs _ => 0
  | OAnd l => list_max (map ood l)
  | OOr l => S (list_max (map ood l))
  | OFby l => list_max (map ood l)
  | OQual _ _ => 0
  end.

Lemma lmax_in : forall {A} (m : A -> nat) l c, In c l -> m c <= list_max (map m l).
Proof.
  intros A m l c Hc. assert (H : Forall (fun k => k <= list_max (map m l)) (map m l)) by (apply list_max_le; lia).
  rewrite Forall_forall in H. apply H. apply in_map. exact Hc.
Qed.

Lemma lmax_le : forall {A} (m : A -> nat) l n, (forall c, In c l -> m c <= n) -> list_max (map m l) <= n.
Proof. intros A m l n H. apply list_max_le. apply Forall_map. apply Forall_forall. exact H. Qed.

Lemma osize_in : forall l c, In c l -> osize c <= list_sum (map osize l).
Proof. induction l as [|x l IH]; intros c Hc; [destruct Hc|]. simpl. destruct Hc as [<-|Hc]; [lia | specialize (IH c Hc); lia]. Qed.

Definition odnf_node (f : nat) (o : oop) (l : list oexpr) : res (oexpr * bool) :=
  rs <- mapM (odnf f) l ;;
  (let l' := map fst rs in
   if existsb is_oor l'
   then kids <- mapM (fun c => r <- odnf f c ;; Ok (fst r)) (map (mko o) (product (map or_iterable l'))) ;; Ok (OOr kids, true)
   else Ok (mko o l', existsb snd rs)).

Lemma odnf_and : forall f l, odnf (S f) (OAnd l) = odnf_node f OpAnd l.
Proof. reflexivity. Qed.
Lemma odnf_fby : forall f l, odnf (S f) (OFby l) = odnf_node f OpFby l.
Proof. reflexivity. Qed.

Definition odnf_good (fuel : nat) (e : oexpr) : Prop :=
  fuel_ok (odnf fuel e) /\
  forall e' ch, odnf fuel e = Ok (e', ch) -> ood e' <= ood e /\ oqd e' <= oqd e /\ (is_oor e' = false -> ood e' = 0).

Lemma odnf_good_more : forall n k e, odnf_good n e -> odnf_good (n + k) e.
Proof.
  intros n k e [H1 H2]. pose proof (odnf_more n e _ k eq_refl H1) as Em. unfold odnf_good. rewrite Em. split; assumption.
Qed.

Lemma odnf_fuel_ok_Ok : forall fuel e, fuel_ok (odnf fuel e) -> exists r, odnf fuel e = Ok r.
Proof.
  intros fuel e H. destruct (odnf fuel e) as [r|x] eqn:E; [exists r; reflexivity|].
  pose proof (odnf_err _ _ _ E). subst x. contradiction H; reflexivity.
Qed.

Lemma odnf_children_good : forall F l,
    (forall c, In c l -> odnf_good F c) ->
    exists rs, mapM (odnf F) l = Ok rs /\
               Forall2 (fun c r => odnf F c = Ok r /\ ood (fst r) <= ood c /\ oqd (fst r) <= oqd c /\ (is_oor (fst r) = false -> ood (fst r) = 0)) l rs.
Proof.
  intros F. induction l as [|c l IH]; intro Hg; [exists []; split; [reflexivity | constructor]|].
  destruct (Hg c (or_introl eq_refl)) as [G1 G2]. destruct (odnf_fuel_ok_Ok F c G1) as [[c' ch] Ec].
  destruct IH as [rs [Em HF]]; [intros a Ha; apply Hg; right; exact Ha|].
  exists ((c', ch) :: rs). simpl. rewrite Ec, Em. split; [reflexivity|]. constructor; [|exact HF].
  split; [exact Ec | apply (G2 c' ch Ec)].
Qed.

Theorem odnf_terminates_good : forall q d s e, oqd e <= q -> ood e <= d -> osize e <= s -> exists fuel, odnf_good fuel e.
Proof.
  induction q as [q IHq] using lt_wf_ind. induction d as [d IHd] using lt_wf_ind. induction s as [s IHs] using lt_wf_ind.
  intros e Hq Hd Hs.
  (* AND and FOLLOWEDBY share the argument *)
  assert (Hnode : forall o l, o <> OpOr -> oqd (mko o l) <= q -> ood (mko o l) <= d -> osize (mko o l) <= s ->
                              exists F, fuel_ok (odnf_node F o l) /\
                                        forall e' ch, odnf_node F o l = Ok (e', ch) ->
                                                      ood e' <= ood (mko o l) /\ oqd e' <= oqd (mko o l) /\ (is_oor e' = false -> ood e' = 0)).
  { intros o l Ho Hq' Hd' Hs'.
    assert (Eq : oqd (mko o l) = list_max (map oqd l)) by (destruct o; reflexivity).
    assert (Ed : ood (mko o l) = list_max (map ood l)) by (destruct o; [reflexivity | contradiction Ho; reflexivity | reflexivity]).
    rewrite osize_mko in Hs'. unfold lsum in Hs'.
    destruct (common_fuel odnf_good l odnf_good_more) as [F1 HF1].
    { intros c Hc. pose proof (lmax_in oqd l c Hc). pose proof (lmax_in ood l c Hc). pose proof (osize_in l c Hc).
      apply (IHs (osize c)); lia. }
    destruct (odnf_children_good F1 l HF1) as [rs [Em Gm]].
    assert (Hq1 : forall c', In c' (map fst rs) -> oqd c' <= list_max (map oqd l)).
    { intros c' Hc'. apply in_map_iff in Hc'. destruct Hc' as [r [<- Hr]].
      destruct (Forall2_In_r _ _ _ r Gm Hr) as [c [Hc [_ [_ [Hle _]]]]]. pose proof (lmax_in oqd l c Hc). lia. }
    assert (Hd1 : forall c', In c' (map fst rs) -> ood c' <= list_max (map ood l)).
    { intros c' Hc'. apply in_map_iff in Hc'. destruct Hc' as [r [<- Hr]].
      destruct (Forall2_In_r _ _ _ r Gm Hr) as [c [Hc [_ [Hle _]]]]. pose proof (lmax_in ood l c Hc). lia. }
    assert (Hz1 : forall c', In c' (map fst rs) -> is_oor c' = false -> ood c' = 0).
    { intros c' Hc'. apply in_map_iff in Hc'. destruct Hc' as [r [<- Hr]].
      destruct (Forall2_In_r _ _ _ r Gm Hr) as [c [Hc [_ [_ [_ Hz]]]]]. exact Hz. }
    destruct (existsb is_oor (map fst rs)) eqn:Eo.
    - (* distribute *)
      set (ks := map (mko o) (product (map or_iterable (map fst rs)))).
      apply existsb_exists in Eo. destruct Eo as [orx [Horx Eorx]].
      assert (HM : 1 <= list_max (map ood l)).
      { destruct orx as [| |ops| |]; try discriminate. pose proof (Hd1 _ Horx) as Hx. simpl in Hx. lia. }
      assert (Hk : forall k, In k ks -> ood k < list_max (map ood l) /\ oqd k <= list_max (map oqd l)).
      { intros k Hk. apply in_map_iff in Hk. destruct Hk as [sel [<- Hsel]].
        assert (Hsel' : forall a, In a sel -> exists c', In c' (map fst rs) /\ In a (or_iterable c')).
        { apply product_Forall2 in Hsel. clear -Hsel. remember (map or_iterable (map fst rs)) as ls eqn:Els.
          revert Els. generalize (map fst rs). induction Hsel as [|a ops sel ls Ha _ IH]; intros l0 Els a0 Ha0; [destruct Ha0|].
          destruct l0 as [|c0 l0]; [discriminate|]. simpl in Els. inversion Els; subst.
          destruct Ha0 as [<-|Ha0]; [exists c0; split; [left; reflexivity | exact Ha]|].
          destruct (IH l0 eq_refl a0 Ha0) as [c' [Hc' Hin]]. exists c'. split; [right; exact Hc' | exact Hin]. }
        assert (Hds : ood (mko o sel) = list_max (map ood sel)) by (destruct o; [reflexivity | contradiction Ho; reflexivity | reflexivity]).
        assert (Hqs : oqd (mko o sel) = list_max (map oqd sel)) by (destruct o; reflexivity).
        rewrite Hds, Hqs. split.
        - assert (Hle : list_max (map ood sel) <= list_max (map ood l) - 1); [|lia].
          apply lmax_le. intros a Ha. destruct (Hsel' a Ha) as [c' [Hc' Hin]].
          destruct c' as [x|l0|ops|l0|e0 q0]; simpl in Hin;
            try (destruct Hin as [<-|[]]; rewrite (Hz1 _ Hc' eq_refl); lia).
          pose proof (Hd1 _ Hc') as Hx. simpl in Hx. pose proof (lmax_in ood ops a Hin). lia.
        - apply lmax_le. intros a Ha. destruct (Hsel' a Ha) as [c' [Hc' Hin]].
          destruct c' as [x|l0|ops|l0|e0 q0]; simpl in Hin;
            try (destruct Hin as [<-|[]]; apply (Hq1 _ Hc')).
          pose proof (Hq1 _ Hc') as Hx. simpl in Hx. pose proof (lmax_in oqd ops a Hin). lia. }
      destruct (common_fuel odnf_good ks odnf_good_more) as [F2 HF2].
      { intros k Hkin. destruct (Hk k Hkin) as [K1 K2]. apply (IHd (ood k)) with (s := osize k); lia. }
      exists (F1 + F2).
      assert (Em' : mapM (odnf (F1 + F2)) l = Ok rs).
      { apply (mapM_stable (odnf F1) (odnf (F1 + F2)) l _); [|exact Em | discriminate].
        intros a r _ Ea Hr. apply odnf_more; assumption. }
      assert (Gk : exists kids, mapM (fun c => r <- odnf (F1 + F2) c ;; Ok (fst r)) ks = Ok kids /\
                                Forall (fun kid => ood kid < list_max (map ood l) /\ oqd kid <= list_max (map oqd l)) kids).
      { clear Em'. revert Hk HF2. generalize ks. induction ks0 as [|k ks0 IH]; intros Hk HF2; [exists []; split; [reflexivity | constructor]|].
        assert (Gk0 : odnf_good (F1 + F2) k) by (rewrite Nat.add_comm; apply odnf_good_more; apply HF2; left; reflexivity).
        destruct Gk0 as [G1 G2]. destruct (odnf_fuel_ok_Ok _ _ G1) as [[k' ch] Ekk].
        destruct IH as [kids [Ekids HFk]]; [intros a Ha; apply Hk; right; exact Ha | intros a Ha; apply HF2; right; exact Ha|].
        exists (k' :: kids). simpl. rewrite Ekk. simpl. rewrite Ekids. split; [reflexivity|]. constructor; [|exact HFk].
        destruct (G2 k' ch Ekk) as [A1 [A2 _]]. destruct (Hk k (or_introl eq_refl)). lia. }
      destruct Gk as [kids [Ekids HFk]].
      unfold odnf_node. rewrite Em'. simpl. replace (existsb is_oor (map fst rs)) with true
        by (symmetry; apply existsb_exists; exists orx; auto).
      fold ks. rewrite Ekids. simpl. split; [discriminate|].
      intros e' ch E. inversion E; subst. simpl. rewrite Ed, Eq. repeat split.
      + assert (Hle : list_max (map ood kids) <= list_max (map ood l) - 1); [|lia].
        apply lmax_le. intros a Ha. rewrite Forall_forall in HFk. destruct (HFk a Ha). lia.
      + apply lmax_le. intros a Ha. rewrite Forall_forall in HFk. destruct (HFk a Ha). lia.
      + discriminate.
    - exists F1. unfold odnf_node. rewrite Em. simpl. rewrite Eo. split; [discriminate|].
      intros e' ch E. inversion E; subst.
      assert (Hz : forall c', In c' (map fst rs) -> ood c' = 0).
      { intros c' Hc'. apply Hz1; [exact Hc'|]. destruct (is_oor c') eqn:Ei; [|reflexivity].
        assert (existsb is_oor (map fst rs) = true) by (apply existsb_exists; exists c'; auto). congruence. }
      assert (E0 : ood (mko o (map fst rs)) = 0).
      { assert (Hd0 : ood (mko o (map fst rs)) = list_max (map ood (map fst rs))) by (destruct o; [reflexivity | contradiction Ho; reflexivity | reflexivity]).
        rewrite Hd0. assert (list_max (map ood (map fst rs)) <= 0); [|lia]. apply lmax_le. intros a Ha. rewrite (Hz a Ha). lia. }
      repeat split; [lia | | intros _; exact E0].
      assert (Hq0 : oqd (mko o (map fst rs)) = list_max (map oqd (map fst rs))) by (destruct o; reflexivity).
      rewrite Hq0, Eq. apply lmax_le. exact Hq1. }
  destruct e as [x|l|l|l|e0 q0].
  - exists 1. split; [discriminate | intros e' ch E; inversion E; subst; simpl; auto].
  - destruct (Hnode OpAnd l ltac:(discriminate) Hq Hd Hs) as [F [G1 G2]]. exists (S F). unfold odnf_good. rewrite odnf_and. split; assumption.
  - (* OR *)
    simpl in Hq, Hd, Hs.
    destruct (common_fuel odnf_good l odnf_good_more) as [F1 HF1].
    { intros c Hc. pose proof (lmax_in oqd l c Hc). pose proof (lmax_in ood l c Hc). pose proof (osize_in l c Hc).
      apply (IHs (osize c)); lia. }
    destruct (odnf_children_good F1 l HF1) as [rs [Em Gm]].
    exists (S F1). split; cbn [odnf]; rewrite Em; simpl; [discriminate|].
    intros e' ch E. inversion E; subst. simpl. repeat split.
    + assert (Hle : list_max (map ood (map fst rs)) <= list_max (map ood l)); [|lia].
      apply lmax_le. intros c' Hc'. apply in_map_iff in Hc'. destruct Hc' as [r [<- Hr]].
      destruct (Forall2_In_r _ _ _ r Gm Hr) as [c [Hc [_ [Hle _]]]]. pose proof (lmax_in ood l c Hc). lia.
    + apply lmax_le. intros c' Hc'. apply in_map_iff in Hc'. destruct Hc' as [r [<- Hr]].
      destruct (Forall2_In_r _ _ _ r Gm Hr) as [c [Hc [_ [_ [Hle _]]]]]. pose proof (lmax_in oqd l c Hc). lia.
    + discriminate.
  - destruct (Hnode OpFby l ltac:(discriminate) Hq Hd Hs) as [F [G1 G2]]. exists (S F). unfold odnf_good. rewrite odnf_fby. split; assumption.
  - (* qualified *)
    simpl in Hq. destruct (IHq (oqd e0) ltac:(lia) (ood e0) (osize e0) e0 (le_n _) (le_n _) (le_n _)) as [F [G1 G2]].
    destruct (odnf_fuel_ok_Ok _ _ G1) as [[r c] Er].
    exists (S F). split; cbn [odnf]; rewrite Er; simpl; [discriminate|].
    intros e' ch E. injection E as E1 E2. subst e'. simpl. destruct (G2 r c Er) as [_ [A2 _]]. repeat split; auto; lia.
Qed.

Theorem odnf_terminates : forall e, exists fuel r, odnf fuel e = Ok r.
Proof.
  intro e. destruct (odnf_terminates_good (oqd e) (ood e) (osize e) e (le_n _) (le_n _) (le_n _)) as [fuel [H _]].
  exists fuel. apply odnf_fuel_ok_Ok. exact H.
Qed.

(* ------------------------------------------------------------------ *)
(* the whole normaliser: results do not depend on the fuel, and some fuel suffices *)

Lemma settle_stable : forall {A} (g : A -> A * bool) fuel a k R,
    settle fuel (fun x => Ok (g x)) a = R -> fuel_ok R -> settle (fuel + k) (fun x => Ok (g x)) a = R.
Proof.
  intros A g fuel a k R E HR. unfold settle in *. destruct (settle_loop fuel (fun x => Ok (g x)) a false) as [r|x] eqn:El.
  - subst R. apply settle_loop_more. exact El.
  - pose proof (settle_err g _ _ _ _ El). subst x R. contradiction HR; reflexivity.
Qed.

Lemma cnormalize_more : forall v fuel c k R, cnormalize v fuel c = R -> fuel_ok R -> cnormalize v (fuel + k) c = R.
Proof.
  intros v fuel c k R E HR. unfold cnormalize in *.
  apply (bind_stable (cspecial v c) (cspecial v c) _ _ R) with (3 := E); [reflexivity | | exact HR].
  intros e _ H1. apply (bind_stable (csettle fuel e) (csettle (fuel + k) e) _ _ _) with (3 := eq_refl); [| |exact H1].
  - intro Hok. apply settle_stable; [reflexivity | exact Hok].
  - intros [e1 c1] _ H2. apply (bind_stable (cdnf fuel e1) (cdnf (fuel + k) e1) _ _ _) with (3 := eq_refl); [| |exact H2].
    + intro Hok. apply cdnf_more; [reflexivity | exact Hok].
    + intros [e2 c2] _ H3. apply (bind_stable (csettle fuel e2) (csettle (fuel + k) e2) _ _ _) with (3 := eq_refl); [| |exact H3].
      * intro Hok. apply settle_stable; [reflexivity | exact Hok].
      * reflexivity.
Qed.

Lemma onormcmp_more : forall v fuel k p R, onormcmp v fuel p = R -> fuel_ok R -> onormcmp v (fuel + k) p = R.
Proof.
  intros v fuel k. induction p using oexpr0_ind'; intros R E HR; simpl in *.
  - apply (bind_stable (cnormalize v fuel c) (cnormalize v (fuel + k) c) _ _ R) with (3 := E); [| |exact HR].
    + intro Hok. apply cnormalize_more; [reflexivity | exact Hok].
    + reflexivity.
  - apply (bind_stable (mapM (onormcmp v fuel) l) (mapM (onormcmp v (fuel + k)) l) _ _ R) with (3 := E); [| |exact HR].
    + intro Hok. apply (mapM_stable (onormcmp v fuel) (onormcmp v (fuel + k)) l _); [|reflexivity | exact Hok].
      intros a r Ha Ea Hr. rewrite Forall_forall in H. apply (H a Ha); assumption.
    + reflexivity.
  - apply (bind_stable (mapM (onormcmp v fuel) l) (mapM (onormcmp v (fuel + k)) l) _ _ R) with (3 := E); [| |exact HR].
    + intro Hok. apply (mapM_stable (onormcmp v fuel) (onormcmp v (fuel + k)) l _); [|reflexivity | exact Hok].
      intros a r Ha Ea Hr. rewrite Forall_forall in H. apply (H a Ha); assumption.
    + reflexivity.
  - apply (bind_stable (mapM (onormcmp v fuel) l) (mapM (onormcmp v (fuel + k)) l) _ _ R) with (3 := E); [| |exact HR].
    + intro Hok. apply (mapM_stable (onormcmp v fuel) (onormcmp v (fuel + k)) l _); [|reflexivity | exact Hok].
      intros a r Ha Ea Hr. rewrite Forall_forall in H. apply (H a Ha); assumption.
    + reflexivity.
  - apply (bind_stable (onormcmp v fuel p) (onormcmp v (fuel + k) p) _ _ R) with (3 := E); [| |exact HR].
    + intro Hok. apply IHp; [reflexivity | exact Hok].
    + reflexivity.
  - apply (bind_stable (onormcmp v fuel p) (onormcmp v (fuel + k) p) _ _ R) with (3 := E); [| |exact HR].
    + intro Hok. apply IHp; [reflexivity | exact Hok].
    + reflexivity.
Qed.

Lemma onormalize_more : forall v fuel k p R, onormalize v fuel p = R -> fuel_ok R -> onormalize v (fuel + k) p = R.
Proof.
  intros v fuel k p R E HR. unfold onormalize in *.
  apply (bind_stable (onormcmp v fuel p) (onormcmp v (fuel + k) p) _ _ R) with (3 := E); [| |exact HR].
  - intro Hok. apply onormcmp_more; [reflexivity | exact Hok].
  - intros [e0 c0] _ H1. apply (bind_stable (osettle fuel e0) (osettle (fuel + k) e0) _ _ _) with (3 := eq_refl); [| |exact H1].
    + intro Hok. apply settle_stable; [reflexivity | exact Hok].
    + intros [e1 c1] _ H2. apply (bind_stable (odnf fuel e1) (odnf (fuel + k) e1) _ _ _) with (3 := eq_refl); [| |exact H2].
      * intro Hok. apply odnf_more; [reflexivity | exact Hok].
      * intros [e2 c2] _ H3. apply (bind_stable (osettle fuel e2) (osettle (fuel + k) e2) _ _ _) with (3 := eq_refl); [| |exact H3].
        -- intro Hok. apply settle_stable; [reflexivity | exact Hok].
        -- reflexivity.
Qed.

(* some fuel suffices *)
Lemma cnormalize_terminates : forall c, validb (PatternSemantics.unparen_c c) = true -> exists fuel r, cnormalize repaired fuel c = Ok r.
Proof.
  intros c Hv. pose proof (validb_valid _ Hv) as Hval.
  destruct (cspecial_repaired_ok c) as [c1 E1].
  assert (V1 : valid c1) by (destruct Hval as [ts Ets]; exists ts; rewrite (cspecial_rt _ _ _ E1); exact Ets).
  destruct (csettle_terminates c1) as [f1 [[c2 ch2] E2]].
  pose proof (csettle_valid _ _ _ _ E2 V1) as V2.
  destruct (cdnf_terminates c2) as [f2 Hok2].
  pose proof (cdnf_valid f2 c2 V2) as G3. destruct (cdnf f2 c2) as [[c3 ch3]|x] eqn:E3; [|simpl in G3; subst x; contradiction Hok2; reflexivity].
  destruct (csettle_terminates c3) as [f3 [[c4 ch4] E4]].
  exists (f1 + f2 + f3). eexists. unfold cnormalize. rewrite E1. simpl. unfold csettle in *.
  rewrite <- Nat.add_assoc. rewrite (settle_stable csimplify f1 c1 (f2 + f3) _ E2 ltac:(discriminate)). simpl.
  replace (f1 + (f2 + f3)) with (f2 + (f1 + f3)) by lia. rewrite (cdnf_more f2 c2 _ (f1 + f3) E3 ltac:(discriminate)). simpl.
  replace (f2 + (f1 + f3)) with (f3 + (f1 + f2)) by lia. rewrite (settle_stable csimplify f3 c3 (f1 + f2) _ E4 ltac:(discriminate)). simpl.
  reflexivity.
Qed.

Definition norm_ok (fuel : nat) (p : oexpr0) : Prop := exists r, onormcmp repaired fuel p = Ok r.

Lemma norm_ok_more : forall n k p, norm_ok n p -> norm_ok (n + k) p.
Proof. intros n k p [r E]. exists r. apply onormcmp_more; [exact E | discriminate]. Qed.

Lemma mapM_all_ok : forall {A B} (f : A -> res B) l, (forall a, In a l -> exists r, f a = Ok r) -> exists rs, mapM f l = Ok rs.
Proof. intros A B f l H. apply mapM_ok_all. exact H. Qed.

Lemma onormcmp_terminates : forall p, valid_o p = true -> exists fuel, norm_ok fuel p.
Proof.
  induction p using oexpr0_ind'; intro Hv; simpl in Hv.
  - destruct (cnormalize_terminates c Hv) as [fuel [[c' ch] E]]. exists fuel. unfold norm_ok. simpl. rewrite E. simpl. eexists; reflexivity.
  - rewrite forallb_forall in Hv. rewrite Forall_forall in H.
    destruct (common_fuel norm_ok l norm_ok_more (fun a Ha => H a Ha (Hv a Ha))) as [F HF].
    exists F. unfold norm_ok. simpl. destruct (mapM_all_ok (onormcmp repaired F) l HF) as [rs Ers]. rewrite Ers. simpl. eexists; reflexivity.
  - rewrite forallb_forall in Hv. rewrite Forall_forall in H.
    destruct (common_fuel norm_ok l norm_ok_more (fun a Ha => H a Ha (Hv a Ha))) as [F HF].
    exists F. unfold norm_ok. simpl. destruct (mapM_all_ok (onormcmp repaired F) l HF) as [rs Ers]. rewrite Ers. simpl. eexists; reflexivity.
  - rewrite forallb_forall in Hv. rewrite Forall_forall in H.
    destruct (common_fuel norm_ok l norm_ok_more (fun a Ha => H a Ha (Hv a Ha))) as [F HF].
    exists F. unfold norm_ok. simpl. destruct (mapM_all_ok (onormcmp repaired F) l HF) as [rs Ers]. rewrite Ers. simpl. eexists; reflexivity.
  - destruct (IHp Hv) as [F [[r c] E]]. exists F. unfold norm_ok. simpl. rewrite E. simpl. eexists; reflexivity.
  - destruct (IHp Hv) as [F [[r c] E]]. exists F. unfold norm_ok. simpl. rewrite E. simpl. eexists; reflexivity.
Qed.

Theorem onormalize_terminates : forall p, valid_o p = true -> exists fuel n, onormalize repaired fuel p = Ok n.
Proof.
  intros p Hv. destruct (onormcmp_terminates p Hv) as [f0 [[e0 c0] E0]].
  destruct (osettle_terminates e0) as [f1 [[e1 c1] E1]].
  destruct (odnf_terminates e1) as [f2 [[e2 c2] E2]].
  destruct (osettle_terminates e2) as [f3 [[e3 c3] E3]].
  exists (f0 + f1 + f2 + f3), e3. unfold onormalize. unfold osettle in *.
  replace (f0 + f1 + f2 + f3) with (f0 + (f1 + f2 + f3)) by lia. rewrite (onormcmp_more repaired f0 (f1 + f2 + f3) p _ E0 ltac:(discriminate)). simpl.
  replace (f0 + (f1 + f2 + f3)) with (f1 + (f0 + f2 + f3)) by lia. rewrite (settle_stable osimplify f1 e0 (f0 + f2 + f3) _ E1 ltac:(discriminate)). simpl.
  replace (f1 + (f0 + f2 + f3)) with (f2 + (f0 + f1 + f3)) by lia. rewrite (odnf_more f2 e1 _ (f0 + f1 + f3) E2 ltac:(discriminate)). simpl.
  replace (f2 + (f0 + f1 + f3)) with (f3 + (f0 + f1 + f2)) by lia. rewrite (settle_stable osimplify f3 e2 (f0 + f1 + f2) _ E3 ltac:(discriminate)). simpl.
  reflexivity.
Qed.

(* equiv_never_raises: on constructor-valid patterns the repaired equivalence test answers, for
   every sufficiently large amount of fuel, and the answer does not depend on the fuel *)
Theorem equiv_never_raises_valid : forall p q,
    valid_o p = true -> valid_o q = true -> exists fuel b, forall k, equiv repaired (fuel + k) p q = Ok b.
Proof.
  intros p q Vp Vq. destruct (onormalize_terminates p Vp) as [f1 [n1 E1]]. destruct (onormalize_terminates q Vq) as [f2 [n2 E2]].
  exists (f1 + f2), (is_eq (ocmp n1 n2)). intro k. unfold equiv.
  replace (f1 + f2 + k) with (f1 + (f2 + k)) by lia. rewrite (onormalize_more repaired f1 (f2 + k) p _ E1 ltac:(discriminate)). simpl.
  replace (f1 + (f2 + k)) with (f2 + (f1 + k)) by lia. rewrite (onormalize_more repaired f2 (f1 + k) q _ E2 ltac:(discriminate)). reflexivity.
Qed.

(* and for any object model (valid or not): the answer, when there is one, does not depend on the fuel *)
Theorem equiv_fuel_independent : forall v fuel k p q b, equiv v fuel p q = Ok b -> equiv v (fuel + k) p q = Ok b.
Proof.
  intros v fuel k p q b E. unfold equiv in *.
  apply bind_ok in E. destruct E as [n1 [E1 E]]. apply bind_ok in E. destruct E as [n2 [E2 E]].
  rewrite (onormalize_more v fuel k p _ E1 ltac:(discriminate)). simpl.
  rewrite (onormalize_more v fuel k q _ E2 ltac:(discriminate)). exact E.
Qed.

(* Proofs/ScoIdProofs.v -- the theorems of C06 about Model/ScoId.v.  uuid5 is a
   Section variable: after End every statement is universally quantified over it. *)
From Coq Require Import String NArith ZArith List Bool Lia Sorted Permutation.
From V Require Import Base.UString Base.Json Model.JcsText Model.Jcs Model.ScoId
  Spec.Rfc8785 Spec.JcsSpec Spec.JsonParse Spec.ScoIdSpec
  Proofs.JcsNumFacts Proofs.JcsSortFacts Proofs.JcsCanonFacts Proofs.JcsParseFacts Proofs.ScoIdFacts.
Import ListNotations.
Open Scope N_scope.

Section Id.
  Variable uuid5 : ustring -> ustring.
  Variable prefs : list ustring.
  Variable hp : hash_pick.
  Variable ty : ustring.

  Notation gen := (gen_id uuid5 prefs hp ty).

  (* the id is a function of the contributing properties only *)
  Lemma id_only_contrib_proof : forall contrib obj obj',
    (forall k, In k contrib -> plookup k obj = plookup k obj') -> gen contrib obj = gen contrib obj'.
  Proof. intros contrib obj obj' H. unfold gen_id. rewrite (project_ext prefs hp contrib obj obj' [] H). reflexivity. Qed.

  (* argument order (the order in which the object holds its properties) *)
  Lemma id_arg_order_proof : forall contrib obj obj', Permutation obj obj' -> NoDup (map fst obj) ->
    gen contrib obj = gen contrib obj'.
  Proof. intros contrib obj obj' Hp Hn. apply id_only_contrib_proof. intros k _. apply plookup_perm; assumption. Qed.

  (* random exactly when no contributing property is present *)
  Lemma id_random_when_none_proof : forall contrib obj,
    (forall k, In k contrib -> plookup k obj = None) -> gen contrib obj = IdRandom.
  Proof. intros contrib obj H. unfold gen_id. rewrite (project_none_present prefs hp contrib obj [] H). reflexivity. Qed.

  Lemma id_random_only_when_none_proof : forall contrib obj,
    gen contrib obj = IdRandom -> forall k, In k contrib -> plookup k obj = None.
  Proof.
    intros contrib obj H. unfold gen_id in H.
    destruct (project prefs hp contrib obj []) as [m|e] eqn:E; [|discriminate].
    destruct m as [|kv m]; [apply (project_empty_inv prefs hp contrib obj E)|].
    destruct (canon (JObj (kv :: m))); discriminate.
  Qed.

  (* what is hashed: the canonical JSON of exactly the present contributing properties *)
  Lemma id_input_spec_proof : forall contrib obj data id, gen contrib obj = IdDet data id ->
    exists m, m <> [] /\ NoDup (map fst m) /\
      (forall k jv, In (k, jv) m <-> In k contrib /\ member_of prefs hp obj k jv) /\
      canon (JObj m) = JOk data /\ id = ty ++ dashes ++ uuid5 data.
  Proof.
    intros contrib obj data id H. unfold gen_id in H.
    destruct (project prefs hp contrib obj []) as [m|e] eqn:E; [|discriminate].
    destruct (project_spec prefs hp contrib obj m E) as [N S].
    destruct m as [|kv m]; [discriminate|].
    destruct (canon (JObj (kv :: m))) as [d|e] eqn:Ec; [|discriminate].
    inversion H; subst. exists (kv :: m).
    split; [discriminate|]. split; [exact N|]. split; [exact S|]. split; [exact Ec|reflexivity].
  Qed.

  (* different hashed strings give different ids whenever uuid5 separates them *)
  Lemma id_distinct_partial_proof : forall contrib obj1 obj2 d1 d2 i1 i2,
    gen contrib obj1 = IdDet d1 i1 -> gen contrib obj2 = IdDet d2 i2 ->
    uuid5 d1 <> uuid5 d2 -> i1 <> i2.
  Proof.
    intros contrib obj1 obj2 d1 d2 i1 i2 H1 H2 Hu E.
    destruct (id_input_spec_proof _ _ _ _ H1) as [m1 [_ [_ [_ [_ E1]]]]].
    destruct (id_input_spec_proof _ _ _ _ H2) as [m2 [_ [_ [_ [_ E2]]]]].
    rewrite E1, E2 in E. apply app_inv_head in E. apply app_inv_head in E. contradiction.
  Qed.
End Id.

(* different contributing JSON values give different hashed strings *)
Lemma id_input_injective_proof : forall uuid5 prefs hp ty contrib obj1 obj2 d1 d2 i1 i2 m1 m2,
  project prefs hp contrib obj1 [] = IOk m1 -> project prefs hp contrib obj2 [] = IOk m2 ->
  gen_id uuid5 prefs hp ty contrib obj1 = IdDet d1 i1 -> gen_id uuid5 prefs hp ty contrib obj2 = IdDet d2 i2 ->
  nums_wf (JObj m1) -> nums_wf (JObj m2) ->
  json_of (JObj m1) <> json_of (JObj m2) -> d1 <> d2.
Proof.
  intros uuid5 prefs hp ty contrib obj1 obj2 d1 d2 i1 i2 m1 m2 P1 P2 G1 G2 W1 W2 Hne E. subst d2.
  unfold gen_id in G1, G2. rewrite P1 in G1. rewrite P2 in G2.
  destruct m1 as [|a m1]; [discriminate|]. destruct m2 as [|b m2]; [discriminate|].
  destruct (canon (JObj (a :: m1))) as [t1|e] eqn:C1; [|discriminate].
  destruct (canon (JObj (b :: m2))) as [t2|e] eqn:C2; [|discriminate].
  inversion G1; subst. inversion G2; subst.
  apply Hne. eapply canon_injective_proof; eauto.
Qed.

(* ---- the order of the contributing list does not matter ------------------------------------- *)
Lemma project_ok_acc : forall prefs hp contrib obj acc,
  (forall k v, In k contrib -> plookup k obj = Some v -> exists jv, contrib_value prefs hp k v = IOk jv) ->
  exists m, project prefs hp contrib obj acc = IOk m.
Proof.
  induction contrib as [|key rest IH]; intros obj acc H; [eexists; reflexivity|].
  simpl. destruct (plookup key obj) as [v|] eqn:El.
  - destruct (H key v (or_introl eq_refl) El) as [jv Hjv]. rewrite Hjv. apply IH.
    intros k v' Hk. apply H. right. exact Hk.
  - apply IH. intros k v' Hk. apply H. right. exact Hk.
Qed.

Lemma project_ok_inv : forall prefs hp contrib obj acc m, project prefs hp contrib obj acc = IOk m ->
  forall k v, In k contrib -> plookup k obj = Some v -> exists jv, contrib_value prefs hp k v = IOk jv.
Proof.
  induction contrib as [|key rest IH]; intros obj acc m H k v Hk Hv; [contradiction|].
  simpl in H. destruct (plookup key obj) as [v0|] eqn:El.
  - destruct (contrib_value prefs hp key v0) as [jv|e] eqn:Ec; [|discriminate].
    destruct Hk as [Hk|Hk].
    + subst. rewrite El in Hv. inversion Hv; subst. eexists; exact Ec.
    + eapply IH; eauto.
  - destruct Hk as [Hk|Hk]; [subst; rewrite El in Hv; discriminate|]. eapply IH; eauto.
Qed.

Lemma NoDup_pairs_of_keys : forall (A B : Type) (m : list (A * B)), NoDup (map fst m) -> NoDup m.
Proof.
  induction m as [|a m IH]; simpl; intro H; constructor; inversion H; subst; auto.
  intro Hin. apply H2. apply in_map. exact Hin.
Qed.

Lemma id_contrib_order_proof : forall uuid5 prefs hp ty contrib contrib' obj m,
  Permutation contrib contrib' -> project prefs hp contrib obj [] = IOk m ->
  gen_id uuid5 prefs hp ty contrib obj = gen_id uuid5 prefs hp ty contrib' obj.
Proof.
  intros uuid5 prefs hp ty contrib contrib' obj m Hp P.
  destruct (project_ok_acc prefs hp contrib' obj []) as [m' P'].
  { intros k v Hk Hv. eapply project_ok_inv; [exact P| |exact Hv].
    eapply Permutation_in; [apply Permutation_sym; exact Hp|exact Hk]. }
  destruct (project_spec prefs hp contrib obj m P) as [N S].
  destruct (project_spec prefs hp contrib' obj m' P') as [N' S'].
  assert (Pm : Permutation m m').
  { apply NoDup_Permutation; try (apply NoDup_pairs_of_keys; assumption).
    intros [k jv]. rewrite S, S'. split; intros [Hk Hm]; (split; [|exact Hm]).
    - eapply Permutation_in; eauto.
    - eapply Permutation_in; [apply Permutation_sym; exact Hp|exact Hk]. }
  unfold gen_id. rewrite P, P'.
  destruct m as [|a m]; destruct m' as [|b m'].
  - reflexivity.
  - apply Permutation_nil in Pm. discriminate.
  - apply Permutation_sym, Permutation_nil in Pm. discriminate.
  - rewrite (canon_perm_proof (a :: m) (b :: m') Pm N). reflexivity.
Qed.

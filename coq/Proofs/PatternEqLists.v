(* Proofs/PatternEqLists.v -- facts about the list utilities of Model/PatternEq.v
   (stable insertion sort, groupby-dedupe, the absorption deletion loop,
   itertools.product, mapM, SettleTransformer) that do not depend on the
   pattern ASTs.                                                         *)
From Coq Require Import NArith ZArith List Bool Permutation Lia Arith.
From V Require Import Base.UString Model.PatternEq Proofs.PatternEqCmp.
Import ListNotations.

(* ------------------------------------------------------------------ *)
(* pairs                                                               *)

Lemma fst_let : forall {A B C} (p : A * B) (f : B -> C), fst (let (a, b) := p in (a, f b)) = fst p.
Proof. intros. destruct p; reflexivity. Qed.

(* ------------------------------------------------------------------ *)
(* sorted(): a permutation                                             *)

Lemma insert_perm : forall {A} (cmp : A -> A -> comparison) x l, Permutation (insert cmp x l) (x :: l).
Proof.
  induction l as [|y r IH]; simpl; [reflexivity|].
  destruct (cmp x y); try reflexivity.
  rewrite IH. apply perm_swap.
Qed.

Lemma isort_perm : forall {A} (cmp : A -> A -> comparison) l, Permutation (isort cmp l) l.
Proof.
  induction l as [|x r IH]; simpl; [reflexivity|].
  unfold isort in *. simpl. rewrite insert_perm. constructor. exact IH.
Qed.

Lemma forallb_perm : forall {A} (f : A -> bool) l l', Permutation l l' -> forallb f l = forallb f l'.
Proof.
  induction 1; simpl; try congruence.
  - destruct (f x), (f y); reflexivity.
Qed.

Lemma existsb_perm : forall {A} (f : A -> bool) l l', Permutation l l' -> existsb f l = existsb f l'.
Proof.
  induction 1; simpl; try congruence.
  - destruct (f x), (f y); reflexivity.
Qed.

(* ------------------------------------------------------------------ *)
(* groupby-dedupe: every element is cmp-equal to a kept one; kept ones are elements *)

Lemma dedupe_from_incl : forall {A} (cmp : A -> A -> comparison) l first, incl (dedupe_from cmp first l) l.
Proof.
  induction l as [|y r IH]; intros first; simpl; [apply incl_refl|].
  destruct (is_eq (cmp first y)).
  - apply incl_tl, IH.
  - apply incl_cons; [left; reflexivity | apply incl_tl, IH].
Qed.

Lemma dedupe_incl : forall {A} (cmp : A -> A -> comparison) l, incl (dedupe cmp l) l.
Proof.
  destruct l as [|x r]; simpl; [apply incl_refl|].
  apply incl_cons; [left; reflexivity | apply incl_tl, dedupe_from_incl].
Qed.

Lemma is_eq_true : forall c, is_eq c = true <-> c = Eq.
Proof. destruct c; simpl; split; intros; try discriminate; reflexivity. Qed.

Lemma dedupe_from_cover : forall {A} (cmp : A -> A -> comparison) l first x,
    In x l -> exists y, In y (first :: dedupe_from cmp first l) /\ (y = x \/ cmp y x = Eq).
Proof.
  induction l as [|z r IH]; intros first x Hin; [destruct Hin|].
  simpl. destruct (is_eq (cmp first z)) eqn:E.
  - destruct Hin as [->|Hin].
    + exists first. split; [left; reflexivity | right; apply is_eq_true; exact E].
    + apply IH; exact Hin.
  - destruct Hin as [->|Hin].
    + exists x. split; [right; left; reflexivity | left; reflexivity].
    + destruct (IH z x Hin) as [y [Hy Ey]]. exists y. split; [right; exact Hy | exact Ey].
Qed.

Lemma dedupe_cover : forall {A} (cmp : A -> A -> comparison) l x,
    In x l -> exists y, In y (dedupe cmp l) /\ (y = x \/ cmp y x = Eq).
Proof.
  destruct l as [|z r]; intros x Hin; [destruct Hin|].
  simpl. destruct Hin as [->|Hin].
  - exists x. split; [left; reflexivity | left; reflexivity].
  - apply dedupe_from_cover; exact Hin.
Qed.

Lemma existsb_cover : forall {A} (f : A -> bool) l l',
    incl l' l -> (forall x, In x l -> exists y, In y l' /\ (f x = true -> f y = true)) -> existsb f l' = existsb f l.
Proof.
  intros A f l l' Hi Hc. apply eq_iff_eq_true. rewrite !existsb_exists. split.
  - intros [x [Hx Fx]]. exists x. split; [apply Hi; exact Hx | exact Fx].
  - intros [x [Hx Fx]]. destruct (Hc x Hx) as [y [Hy Fy]]. exists y. split; [exact Hy | apply Fy; exact Fx].
Qed.

Lemma forallb_cover : forall {A} (f : A -> bool) l l',
    incl l' l -> (forall x, In x l -> exists y, In y l' /\ (f y = true -> f x = true)) -> forallb f l' = forallb f l.
Proof.
  intros A f l l' Hi Hc. apply eq_iff_eq_true. rewrite !forallb_forall. split.
  - intros Hall x Hx. destruct (Hc x Hx) as [y [Hy Fy]]. apply Fy, Hall, Hy.
  - intros Hall x Hx. apply Hall, Hi, Hx.
Qed.

Lemma existsb_dedupe : forall {A} (cmp : A -> A -> comparison) (f : A -> bool) l,
    (forall a b, In a l -> In b l -> cmp a b = Eq -> f a = f b) -> existsb f (dedupe cmp l) = existsb f l.
Proof.
  intros A cmp f l Hf. apply existsb_cover; [apply dedupe_incl|].
  intros x Hx. destruct (dedupe_cover cmp l x Hx) as [y [Hy [->|E]]].
  - exists x. split; [exact Hy | auto].
  - exists y. split; [exact Hy|]. rewrite (Hf y x (dedupe_incl cmp l y Hy) Hx E). auto.
Qed.

Lemma forallb_dedupe : forall {A} (cmp : A -> A -> comparison) (f : A -> bool) l,
    (forall a b, In a l -> In b l -> cmp a b = Eq -> f a = f b) -> forallb f (dedupe cmp l) = forallb f l.
Proof.
  intros A cmp f l Hf. apply forallb_cover; [apply dedupe_incl|].
  intros x Hx. destruct (dedupe_cover cmp l x Hx) as [y [Hy [->|E]]].
  - exists x. split; [exact Hy | auto].
  - exists y. split; [exact Hy|]. rewrite (Hf y x (dedupe_incl cmp l y Hy) Hx E). auto.
Qed.

(* ------------------------------------------------------------------ *)
(* iter_in                                                             *)

Lemma in_cmp_true : forall {A} (cmp : A -> A -> comparison) x l,
    in_cmp cmp x l = true -> exists y, In y l /\ cmp x y = Eq.
Proof.
  unfold in_cmp. intros A cmp x l E. apply existsb_exists in E. destruct E as [y [Hy Ey]].
  exists y. split; [exact Hy | apply is_eq_true; exact Ey].
Qed.

(* ------------------------------------------------------------------ *)
(* mapM                                                                *)

Lemma mapM_Forall2 : forall {A B} (f : A -> res B) l rs, mapM f l = Ok rs -> Forall2 (fun a r => f a = Ok r) l rs.
Proof.
  induction l as [|x l IH]; simpl; intros rs E.
  - inversion E. constructor.
  - destruct (f x) eqn:Ex; [|discriminate]. destruct (mapM f l) eqn:El; [|discriminate].
    inversion E. constructor; [exact Ex | apply IH; reflexivity].
Qed.

Lemma bind_ok : forall {A B} (r : res A) (f : A -> res B) b, bind r f = Ok b -> exists a, r = Ok a /\ f a = Ok b.
Proof. intros A B [a|e] f b E; simpl in E; [exists a; auto | discriminate]. Qed.

(* ------------------------------------------------------------------ *)
(* SettleTransformer                                                   *)

Lemma settle_loop_inv : forall {A} (R : A -> A -> Prop) (f : A -> res (A * bool)),
    (forall a b c, R a b -> R b c -> R a c) ->
    (forall a a' ch, f a = Ok (a', ch) -> R a a') ->
    forall fuel a ch a' ch', settle_loop fuel f a ch = Ok (a', ch') -> R a a'.
Proof.
  intros A R f Rt Rf. induction fuel as [|n IH]; intros a ch a' ch' E; [discriminate|].
  simpl in E. destruct (f a) as [[a1 c1]|] eqn:Ef; [|discriminate].
  destruct c1.
  - apply (Rt a a1 a'); [apply (Rf _ _ _ Ef) | apply (IH _ _ _ _ E)].
  - inversion E; subst. apply (Rf _ _ _ Ef).
Qed.

Lemma settle_loop_post : forall {A} (P : A -> Prop) (f : A -> res (A * bool)),
    (forall a a' ch, f a = Ok (a', ch) -> P a') ->
    forall fuel a ch a' ch', settle_loop fuel f a ch = Ok (a', ch') -> P a'.
Proof.
  intros A P f Pf. induction fuel as [|n IH]; intros a ch a' ch' E; [discriminate|].
  simpl in E. destruct (f a) as [[a1 c1]|] eqn:Ef; [|discriminate].
  destruct c1.
  - apply (IH _ _ _ _ E).
  - inversion E; subst. apply (Pf _ _ _ Ef).
Qed.

(* ------------------------------------------------------------------ *)
(* the deletion loop of the two AbsorptionTransformers.
   le a b: "b may be deleted because of a"; it only has to be transitive.
   Result: every operand is kept, or some KEPT operand absorbs it (an operand
   that absorbed another one may itself be deleted later, by a third).      *)

Section Absorb.
  Context {A : Type} (absorbs : A -> A -> bool) (le : A -> A -> Prop).
  Hypothesis le_trans : forall a b c, le a b -> le b c -> le a c.
  Hypothesis absorbs_le : forall a b, absorbs a b = true -> le a b.

  Lemma mark_from_length : forall ci i ops del j,
      List.length del = List.length ops -> List.length (mark_from absorbs ci i j ops del) = List.length ops.
  Proof.
    induction ops as [|c ops IH]; intros [|d del] j E; simpl in *; try discriminate; try reflexivity.
    f_equal. apply IH. lia.
  Qed.

  Lemma mark_from_nth : forall ci i ops del j p,
      List.length del = List.length ops ->
      nth p (mark_from absorbs ci i j ops del) false =
      nth p del false || (negb (Nat.eqb i (j + p)) && match nth_error ops p with Some c => absorbs ci c | None => false end).
  Proof.
    induction ops as [|c ops IH]; intros [|d del] j p E; simpl in *; try discriminate.
    - destruct p; simpl; rewrite andb_false_r; reflexivity.
    - destruct p as [|p]; simpl.
      + rewrite Nat.add_0_r. destruct d, (Nat.eqb i j); reflexivity.
      + rewrite IH by lia. rewrite Nat.add_succ_r. reflexivity.
  Qed.

  Variable all : list A.

  Definition AInv (del : list bool) : Prop :=
    List.length del = List.length all /\
    forall j xj, nth_error all j = Some xj -> nth j del false = true ->
                 exists k xk, nth_error all k = Some xk /\ nth k del false = false /\ le xk xj.

  Lemma absorb_loop_inv : forall rest i del,
      (forall k x, nth_error rest k = Some x -> nth_error all (i + k) = Some x) ->
      AInv del -> AInv (absorb_loop absorbs all i rest del).
  Proof.
    induction rest as [|ci rest IH]; intros i del Hrest Hinv; simpl; [exact Hinv|].
    apply IH.
    - intros k x Hk. rewrite Nat.add_succ_comm. apply Hrest. exact Hk.
    - destruct (nth i del false) eqn:Di; [exact Hinv|].
      destruct Hinv as [Hlen Hw].
      assert (Hci : nth_error all i = Some ci) by (rewrite <- (Nat.add_0_r i); apply Hrest; reflexivity).
      split; [rewrite mark_from_length by exact Hlen; reflexivity|].
      intros j xj Hj Dj. rewrite mark_from_nth in Dj by exact Hlen. simpl in Dj. rewrite Hj in Dj.
      assert (Dself : nth i (mark_from absorbs ci i 0 all del) false = false).
      { rewrite mark_from_nth by exact Hlen. simpl. rewrite Di, Nat.eqb_refl. reflexivity. }
      destruct (nth j del false) eqn:Dj0.
      + destruct (Hw j xj Hj Dj0) as [k [xk [Hk [Dk Lk]]]].
        destruct (nth k (mark_from absorbs ci i 0 all del) false) eqn:Dk'.
        * rewrite mark_from_nth in Dk' by exact Hlen. simpl in Dk'. rewrite Dk, Hk in Dk'. simpl in Dk'.
          apply andb_true_iff in Dk'. destruct Dk' as [_ Ak].
          exists i, ci. split; [exact Hci | split; [exact Dself|]].
          apply (le_trans ci xk xj); [apply absorbs_le; exact Ak | exact Lk].
        * exists k, xk. auto.
      + simpl in Dj. apply andb_true_iff in Dj. destruct Dj as [_ Aj].
        exists i, ci. split; [exact Hci | split; [exact Dself | apply absorbs_le; exact Aj]].
  Qed.
End Absorb.

Lemma nth_all_false : forall {A} (l : list A) j, nth j (map (fun _ => false) l) false = false.
Proof. induction l; destruct j; simpl; auto. Qed.

Lemma absorb_marks_inv : forall {A} (absorbs : A -> A -> bool) (le : A -> A -> Prop),
    (forall a b c, le a b -> le b c -> le a c) -> (forall a b, absorbs a b = true -> le a b) ->
    forall ops, AInv le ops (absorb_marks absorbs ops).
Proof.
  intros A absorbs le Ht Ha ops. unfold absorb_marks.
  apply (absorb_loop_inv absorbs le Ht Ha ops ops 0).
  - intros k x Hk. exact Hk.
  - split; [apply map_length|]. intros j xj _ D. rewrite nth_all_false in D. discriminate.
Qed.

Lemma remove_marked_In : forall {A} (ops : list A) del x,
    List.length del = List.length ops ->
    (In x (remove_marked ops del) <-> exists j, nth_error ops j = Some x /\ nth j del false = false).
Proof.
  induction ops as [|c ops IH]; intros [|d del] x E; simpl in *; try discriminate.
  - split; [intros [] | intros [[|j] [Hj _]]; discriminate].
  - assert (E' : List.length del = List.length ops) by lia. destruct d; simpl; rewrite ?IH by exact E'; split.
    + intros [j [Hj Dj]]. exists (S j). auto.
    + intros [[|j] [Hj Dj]]; [discriminate | exists j; auto].
    + intros [->|[j [Hj Dj]]]; [exists 0%nat; auto | exists (S j); auto].
    + intros [[|j] [Hj Dj]]; [left; simpl in Hj; congruence | right; exists j; auto].
Qed.

Lemma remove_marked_incl : forall {A} (ops : list A) del, incl (remove_marked ops del) ops.
Proof.
  induction ops as [|c ops IH]; intros [|d del]; simpl; try apply incl_nil_l.
  destruct d; [apply incl_tl, IH | apply incl_cons; [left; reflexivity | apply incl_tl, IH]].
Qed.

Lemma absorb_cover : forall {A} (absorbs : A -> A -> bool) (le : A -> A -> Prop),
    (forall a b c, le a b -> le b c -> le a c) -> (forall a b, absorbs a b = true -> le a b) ->
    forall ops x, In x ops ->
                  exists y, In y (remove_marked ops (absorb_marks absorbs ops)) /\ (y = x \/ le y x).
Proof.
  intros A absorbs le Ht Ha ops x Hx.
  destruct (absorb_marks_inv absorbs le Ht Ha ops) as [Hlen Hw].
  apply In_nth_error in Hx. destruct Hx as [j Hj].
  destruct (nth j (absorb_marks absorbs ops) false) eqn:D.
  - destruct (Hw j x Hj D) as [k [xk [Hk [Dk Lk]]]]. exists xk. split; [|right; exact Lk].
    apply remove_marked_In; [exact Hlen | exists k; auto].
  - exists x. split; [|left; reflexivity]. apply remove_marked_In; [exact Hlen | exists j; auto].
Qed.

(* Proofs/PatternEqTop.v -- the reported relation is an equivalence relation,
   and find_equivalent_patterns is the filter of the pairwise test.        *)
From Coq Require Import NArith ZArith List Bool Lia String.
From V Require Import Base.UString Model.PatternEq Proofs.PatternEqCmp Proofs.PatternEqLists.
Import ListNotations.

Lemma equiv_inv : forall v fuel p q b,
    equiv v fuel p q = Ok b ->
    exists n1 n2, onormalize v fuel p = Ok n1 /\ onormalize v fuel q = Ok n2 /\ b = is_eq (ocmp n1 n2).
Proof.
  intros v fuel p q b E. unfold equiv in E.
  apply bind_ok in E. destruct E as [n1 [E1 E]]. apply bind_ok in E. destruct E as [n2 [E2 E]].
  inversion E. exists n1, n2. auto.
Qed.

Lemma equiv_intro : forall v fuel p q n1 n2,
    onormalize v fuel p = Ok n1 -> onormalize v fuel q = Ok n2 -> equiv v fuel p q = Ok (is_eq (ocmp n1 n2)).
Proof. intros v fuel p q n1 n2 E1 E2. unfold equiv. rewrite E1, E2. reflexivity. Qed.

(* totality relative to normalisation: the test answers exactly when both patterns normalise *)
Lemma equiv_total : forall v fuel p q,
    (exists b, equiv v fuel p q = Ok b) <-> (exists n1 n2, onormalize v fuel p = Ok n1 /\ onormalize v fuel q = Ok n2).
Proof.
  intros. split.
  - intros [b E]. destruct (equiv_inv _ _ _ _ _ E) as [n1 [n2 [E1 [E2 _]]]]. exists n1, n2. auto.
  - intros [n1 [n2 [E1 E2]]]. eexists. apply (equiv_intro _ _ _ _ _ _ E1 E2).
Qed.

Lemma equiv_refl : forall v fuel p n, onormalize v fuel p = Ok n -> equiv v fuel p p = Ok true.
Proof.
  intros v fuel p n E. rewrite (equiv_intro _ _ _ _ _ _ E E). rewrite (ocmp_refl n). reflexivity.
Qed.

Lemma is_eq_CompOpp : forall c, is_eq (CompOpp c) = is_eq c.
Proof. destruct c; reflexivity. Qed.

Lemma equiv_sym : forall v fuel p q b, equiv v fuel p q = Ok b -> equiv v fuel q p = Ok b.
Proof.
  intros v fuel p q b E. destruct (equiv_inv _ _ _ _ _ E) as [n1 [n2 [E1 [E2 ->]]]].
  rewrite (equiv_intro _ _ _ _ _ _ E2 E1). rewrite (ocmp_sym n2 n1), is_eq_CompOpp. reflexivity.
Qed.

Lemma equiv_trans : forall v fuel p q r,
    equiv v fuel p q = Ok true -> equiv v fuel q r = Ok true -> equiv v fuel p r = Ok true.
Proof.
  intros v fuel p q r E1 E2.
  destruct (equiv_inv _ _ _ _ _ E1) as [n1 [n2 [P1 [P2 B1]]]].
  destruct (equiv_inv _ _ _ _ _ E2) as [n2' [n3 [P2' [P3 B2]]]].
  rewrite P2 in P2'. inversion P2'; subst n2'.
  rewrite (equiv_intro _ _ _ _ _ _ P1 P3).
  symmetry in B1, B2. apply is_eq_true in B1. apply is_eq_true in B2.
  rewrite (lawful_eq_trans ocmp ocmp_lawful _ _ _ B1 B2). reflexivity.
Qed.

(* an inequivalent pattern stays inequivalent along an equivalence: the relation is a congruence for itself *)
Lemma equiv_trans_false : forall v fuel p q r,
    equiv v fuel p q = Ok true -> equiv v fuel q r = Ok false -> equiv v fuel p r = Ok false.
Proof.
  intros v fuel p q r E1 E2.
  destruct (equiv_inv _ _ _ _ _ E1) as [n1 [n2 [P1 [P2 B1]]]].
  destruct (equiv_inv _ _ _ _ _ E2) as [n2' [n3 [P2' [P3 B2]]]].
  rewrite P2 in P2'. inversion P2'; subst n2'.
  rewrite (equiv_intro _ _ _ _ _ _ P1 P3).
  symmetry in B1. apply is_eq_true in B1.
  rewrite (lawful_eq_l ocmp ocmp_lawful _ _ n3 B1). rewrite <- B2. reflexivity.
Qed.

(* ------------------------------------------------------------------ *)
(* find_equivalent_patterns                                            *)

Definition reported (v : variant) (fuel : nat) (p q : oexpr0) : bool :=
  match equiv v fuel p q with Ok true => true | _ => false end.

Lemma find_go_spec : forall v fuel n p ps i l,
    onormalize v fuel p = Ok n ->
    find_go v fuel n i ps = Ok l ->
    l = map fst (filter (fun iq => reported v fuel p (snd iq)) (combine (seq i (List.length ps)) ps)).
Proof.
  intros v fuel n p. induction ps as [|q ps IH]; intros i l En E.
  - simpl in E. inversion E. reflexivity.
  - simpl in E. apply bind_ok in E. destruct E as [nq [Eq E]]. apply bind_ok in E. destruct E as [rest [Er E]].
    inversion E; subst l. clear E. simpl. unfold reported at 1. simpl.
    rewrite (equiv_intro _ _ _ _ _ _ En Eq). rewrite (IH (S i) rest En Er).
    destruct (is_eq (ocmp n nq)); reflexivity.
Qed.

(* find_is_filter *)
Lemma find_is_filter : forall v fuel p ps l,
    find_equiv v fuel p ps = Ok l ->
    l = map fst (filter (fun iq => reported v fuel p (snd iq)) (combine (seq 0 (List.length ps)) ps)).
Proof.
  intros v fuel p ps l E. unfold find_equiv in E. apply bind_ok in E. destruct E as [n [En E]].
  apply (find_go_spec v fuel n p ps 0 l En E).
Qed.

Lemma find_go_total : forall v fuel n ps i,
    Forall (fun q => exists nq, onormalize v fuel q = Ok nq) ps -> exists l, find_go v fuel n i ps = Ok l.
Proof.
  intros v fuel n. induction ps as [|q ps IH]; intros i HF.
  - exists []. reflexivity.
  - inversion HF as [|q' ps' [nq Eq] HF']; subst. destruct (IH (S i) HF') as [rest Er].
    simpl. rewrite Eq. simpl. rewrite Er. simpl. eexists. reflexivity.
Qed.

Lemma find_total : forall v fuel p ps n,
    onormalize v fuel p = Ok n -> Forall (fun q => exists nq, onormalize v fuel q = Ok nq) ps ->
    exists l, find_equiv v fuel p ps = Ok l.
Proof.
  intros v fuel p ps n En HF. unfold find_equiv. rewrite En. simpl. apply find_go_total. exact HF.
Qed.

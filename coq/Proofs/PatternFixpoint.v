(* Proofs/PatternFixpoint.v -- C10: unvisit is defined on every printable object
   of the visitor's shape; print_fixpoint and programmatic_roundtrip.          *)
From Coq Require Import NArith ZArith List String Bool Lia.
From V Require Import Model.PatternSyntax Spec.PatternSpec Proofs.PatternR Proofs.PatternNumbers Proofs.PatternLit Proofs.PatternPath
  Proofs.PatternCmp Proofs.PatternObs Proofs.PatternEscape Proofs.PatternTokens Proofs.PatternMeaning
  Proofs.PatternUnvConst Proofs.PatternUnvPath Proofs.PatternUnvExpr Proofs.PatternRange.
Import ListNotations.
Open Scope N_scope.

Definition PTotal (a : aexpr) : Prop := vexpr a = true -> aprint a = true -> exists u, unv a = Some u.

Lemma unv_cmp_total : forall cls lhs rhs neg, PTotal (ECmp cls lhs rhs neg).
Proof.
  intros cls lhs rhs neg V A. cbn [vexpr aprint] in V, A.
  apply andb_true_iff in V, A. destruct V as [Vp Vr]. destruct A as [Ap Ar].
  destruct (unv_path_ok lhs Ap) as [op [Eo _]].
  cbn [PatternSyntax.unv]. unfold PatternSyntax.unv_cmp. rewrite Eo.
  destruct cls; destruct rhs as [v q|t|z|f|b|v|v|l]; cbn [rhs_ok vrhs] in Ar, Vr; try discriminate Vr; try discriminate Ar;
    try (rewrite (toks_of_consts_ok l Ar); eexists; reflexivity).
  all: match goal with |- context [tok_of_const ?c] =>
         assert (Ho : const_ok c = true) by (first [exact Ar | apply andb_true_iff in Ar; tauto]);
         rewrite (tok_of_const_leaf c Ho); eexists; reflexivity end.
Qed.

Lemma level_of_good : forall x u, unv x = Some u -> aprint x = true -> u_level u = level x.
Proof. intros x u U A. destruct (unv_good x u U A) as [_ [_ [_ [_ [L _]]]]]. exact L. Qed.

Lemma total_pt : forall x, PTotal x -> vexpr x = true -> aprint x = true -> level_eqb (level x) LPt = true ->
  exists p, unv x = Some (UCmp (AC_pt p)).
Proof.
  intros x T V A L. destruct (T V A) as [u U]. pose proof (level_of_good x u U A) as Lu.
  apply level_eqb_eq in L. rewrite L in Lu. destruct u as [[p|a|o]|[o|o|o|o]]; try discriminate Lu. exists p. exact U.
Qed.

Lemma total_and : forall x, PTotal x -> vexpr x = true -> aprint x = true ->
  level_eqb (level x) LPt || level_eqb (level x) LAnd = true ->
  exists c a, unv x = Some (UCmp c) /\ lift_and c = Some a.
Proof.
  intros x T V A L. destruct (T V A) as [u U]. pose proof (level_of_good x u U A) as Lu.
  apply orb_true_iff in L. destruct L as [L|L]; apply level_eqb_eq in L; rewrite L in Lu;
    destruct u as [[p|a|o]|[o|o|o|o]]; try discriminate Lu; eexists; eexists; split; try exact U; reflexivity.
Qed.

Lemma chain_and_total : forall xs acc, Forall PTotal xs ->
  forallb vexpr xs = true -> forallb aprint xs = true -> forallb (fun x => level_eqb (level x) LPt) xs = true ->
  exists r, chain_and acc (map (fun x => as_cmp (unv x)) xs) = Some r.
Proof.
  induction xs as [|x xs IH]; intros acc HF V A L; [eexists; reflexivity|].
  inversion HF as [|? ? Hx HF']; subst. cbn [forallb] in V, A, L.
  apply andb_true_iff in V, A, L. destruct V as [Vx Vxs]. destruct A as [Ax Axs]. destruct L as [Lx Lxs].
  destruct (total_pt x Hx Vx Ax Lx) as [p U]. cbn [map chain_and]. rewrite U. cbn [as_cmp lift_pt].
  apply IH; assumption.
Qed.

Lemma chain_or_total : forall xs acc, Forall PTotal xs ->
  forallb vexpr xs = true -> forallb aprint xs = true ->
  forallb (fun x => level_eqb (level x) LPt || level_eqb (level x) LAnd) xs = true ->
  exists r, chain_or acc (map (fun x => as_cmp (unv x)) xs) = Some r.
Proof.
  induction xs as [|x xs IH]; intros acc HF V A L; [eexists; reflexivity|].
  inversion HF as [|? ? Hx HF']; subst. cbn [forallb] in V, A, L.
  apply andb_true_iff in V, A, L. destruct V as [Vx Vxs]. destruct A as [Ax Axs]. destruct L as [Lx Lxs].
  destruct (total_and x Hx Vx Ax Lx) as [c [a [U La]]]. cbn [map chain_or]. rewrite U. cbn [as_cmp]. rewrite La.
  apply IH; assumption.
Qed.

Lemma unv_bool_total : forall isand ops, Forall PTotal ops -> PTotal (EBool isand ops).
Proof.
  intros isand ops HF V A. cbn [vexpr aprint] in V, A.
  apply andb_true_iff in V. destruct V as [V V2]. apply andb_true_iff in V. destruct V as [Vx Vl].
  destruct ops as [|x1 [|x2 xs]]; try discriminate V2.
  inversion HF as [|? ? H1 HF2]; subst. inversion HF2 as [|? ? H2 HFs]; subst.
  cbn [forallb] in Vx, Vl, A.
  apply andb_true_iff in Vx. destruct Vx as [V1 Vx]. apply andb_true_iff in Vx. destruct Vx as [Vx2 Vxs].
  apply andb_true_iff in Vl. destruct Vl as [L1 Vl]. apply andb_true_iff in Vl. destruct Vl as [L2 Ls].
  apply andb_true_iff in A. destruct A as [A1 A]. apply andb_true_iff in A. destruct A as [A2 As].
  cbn [PatternSyntax.unv map]. destruct isand.
  - destruct (total_pt x1 H1 V1 A1 L1) as [p1 U1]. destruct (total_pt x2 H2 Vx2 A2 L2) as [p2 U2].
    rewrite U1, U2. cbn [as_cmp lift_and chain_and lift_pt].
    destruct (chain_and_total xs (CAnd (CAndBase p1) p2) HFs Vxs As Ls) as [r C]. rewrite C. eexists; reflexivity.
  - destruct (total_and x1 H1 V1 A1 L1) as [c1 [a1 [U1 La1]]]. destruct (total_and x2 H2 Vx2 A2 L2) as [c2 [a2 [U2 La2]]].
    rewrite U1, U2. cbn [as_cmp chain_or]. rewrite La2.
    destruct (chain_or_total xs (COr (lift_or c1) a2) HFs Vxs As Ls) as [r C]. rewrite C. eexists; reflexivity.
Qed.

Lemma total_obs_level : forall x, PTotal x -> vexpr x = true -> aprint x = true -> is_cmp_level (level x) = false ->
  exists o, unv x = Some (UObs o) /\ u_level (UObs o) = level x.
Proof.
  intros x T V A L. destruct (T V A) as [u U]. pose proof (level_of_good x u U A) as Lu.
  destruct u as [c|o].
  - rewrite <- Lu, ucmp_level in L. discriminate L.
  - exists o. split; [exact U|exact Lu].
Qed.

Lemma unv_cpd_total : forall op ops, Forall PTotal ops -> PTotal (ECompound op ops).
Proof.
  intros op ops HF V A. cbn [vexpr aprint] in V, A.
  destruct ops as [|x [|y [|z r]]]; try discriminate V.
  inversion HF as [|? ? Hx HF2]; subst. inversion HF2 as [|? ? Hy _]; subst.
  apply andb_true_iff in V. destruct V as [V Lr]. apply andb_true_iff in V. destruct V as [V Ll]. apply andb_true_iff in V. destruct V as [Vx Vy].
  cbn [forallb] in A. apply andb_true_iff in A. destruct A as [Ax A]. apply andb_true_iff in A. destruct A as [Ay _].
  assert (Cx : is_cmp_level (level x) = false) by (destruct op; destruct (level x); try discriminate Ll; reflexivity).
  assert (Cy : is_cmp_level (level y) = false) by (destruct op; destruct (level y); try discriminate Lr; reflexivity).
  destruct (total_obs_level x Hx Vx Ax Cx) as [ox [Ux Lx]]. destruct (total_obs_level y Hy Vy Ay Cy) as [oy [Uy Ly]].
  cbn [PatternSyntax.unv map]. rewrite Ux, Uy. cbn [as_obs].
  rewrite <- Lx in Ll. rewrite <- Ly in Lr.
  destruct op; destruct ox as [ox|ox|ox|ox]; try discriminate Ll; destruct oy as [oy|oy|oy|oy]; try discriminate Lr;
    cbn [lift_oand lift_oor lift_fb lift_obs chain_oand chain_oor chain_fb]; eexists; reflexivity.
Qed.

Lemma unv_qual_total : forall q, aqual_ok q = true -> exists q', unv_qual q = Some q'.
Proof.
  intros [c|c|a b] H; cbn [aqual_ok PatternSyntax.unv_qual] in *.
  - destruct c; try discriminate H. rewrite (tok_of_const_leaf (CInt z) eq_refl). eexists; reflexivity.
  - apply orb_true_iff in H. destruct H as [H|H]; destruct c; try discriminate H.
    + rewrite (tok_of_const_leaf (CInt z) eq_refl). eexists; reflexivity.
    + cbn [pos_float] in H. apply andb_true_iff in H. destruct H as [Ho _]. rewrite (tok_of_const_leaf (CFloat f) Ho). eexists; reflexivity.
  - apply andb_true_iff in H. destruct H as [H _]. apply andb_true_iff in H. destruct H as [H Hb]. apply andb_true_iff in H. destruct H as [Ha _].
    rewrite (tok_of_const_leaf a Ha), (tok_of_const_leaf b Hb). eexists; reflexivity.
Qed.

Theorem unv_total : forall a, PTotal a.
Proof.
  apply aexpr_ind'.
  - apply unv_cmp_total.
  - apply unv_bool_total.
  - intros x IH V A. cbn [vexpr aprint] in V, A. apply andb_true_iff in V. destruct V as [Vx Lx].
    destruct (IH Vx A) as [u U]. pose proof (level_of_good x u U A) as Lu.
    destruct u as [c|o].
    + cbn [PatternSyntax.unv]. rewrite U. eexists; reflexivity.
    + rewrite <- Lu, uobs_level in Lx. discriminate Lx.
  - apply unv_cpd_total.
  - intros x IH V A. cbn [vexpr aprint] in V, A. destruct (IH V A) as [[c|o] U]; cbn [PatternSyntax.unv]; rewrite U; eexists; reflexivity.
  - intros x q IH V A. cbn [vexpr aprint] in V, A.
    apply andb_true_iff in V, A. destruct V as [Vx Lx]. destruct A as [Ax Aq].
    destruct (IH Vx Ax) as [u U]. pose proof (level_of_good x u U Ax) as Lu. apply level_eqb_eq in Lx. rewrite Lx in Lu.
    destruct u as [[p|a|o]|[o|o|o|o]]; try discriminate Lu.
    destruct (unv_qual_total q Aq) as [q' Q]. cbn [PatternSyntax.unv]. rewrite U, Q. cbn [as_obs lift_obs]. eexists; reflexivity.
Qed.

(* ------------------------------------------------------------------ *)
(** * unvisit is defined on every well grouped printable object *)

Definition WTotal (a : aexpr) : Prop := well_grouped a = true -> aprint a = true -> exists u, unv a = Some u.

Lemma wg_cmp_total : forall cls lhs rhs neg, WTotal (ECmp cls lhs rhs neg).
Proof.
  intros cls lhs rhs neg _ A. cbn [aprint] in A.
  apply andb_true_iff in A. destruct A as [Ap Ar].
  destruct (unv_path_ok lhs Ap) as [op [Eo _]].
  cbn [PatternSyntax.unv]. unfold PatternSyntax.unv_cmp. rewrite Eo.
  destruct cls; destruct rhs as [v q|t|z|f|b|v|v|l]; cbn [rhs_ok] in Ar; try discriminate Ar;
    try (cbn [const_ok andb] in Ar; discriminate Ar);
    try (rewrite (toks_of_consts_ok l Ar); eexists; reflexivity).
  all: match goal with |- context [tok_of_const ?c] =>
         assert (Ho : const_ok c = true) by (first [exact Ar | apply andb_true_iff in Ar; tauto]);
         rewrite (tok_of_const_leaf c Ho); eexists; reflexivity end.
Qed.

Lemma wtotal_level : forall x, WTotal x -> well_grouped x = true -> aprint x = true ->
  exists u, unv x = Some u /\ u_level u = level x.
Proof. intros x T W A. destruct (T W A) as [u U]. exists u. split; [exact U|apply (level_of_good x u U A)]. Qed.

Lemma wchain_and_total : forall xs acc, Forall WTotal xs ->
  forallb well_grouped xs = true -> forallb aprint xs = true -> forallb (fun x => rest_level_ok true (level x)) xs = true ->
  exists r, chain_and acc (map (fun x => as_cmp (unv x)) xs) = Some r.
Proof.
  induction xs as [|x xs IH]; intros acc HF V A L; [eexists; reflexivity|].
  inversion HF as [|? ? Hx HF']; subst. cbn [forallb] in V, A, L.
  apply andb_true_iff in V, A, L. destruct V as [Vx Vxs]. destruct A as [Ax Axs]. destruct L as [Lx Lxs].
  destruct (wtotal_level x Hx Vx Ax) as [u [U Lu]]. rewrite <- Lu in Lx.
  destruct u as [[p|a|o]|[o|o|o|o]]; try discriminate Lx.
  cbn [map chain_and]. rewrite U. cbn [as_cmp lift_pt]. apply IH; assumption.
Qed.

Lemma wchain_or_total : forall xs acc, Forall WTotal xs ->
  forallb well_grouped xs = true -> forallb aprint xs = true -> forallb (fun x => rest_level_ok false (level x)) xs = true ->
  exists r, chain_or acc (map (fun x => as_cmp (unv x)) xs) = Some r.
Proof.
  induction xs as [|x xs IH]; intros acc HF V A L; [eexists; reflexivity|].
  inversion HF as [|? ? Hx HF']; subst. cbn [forallb] in V, A, L.
  apply andb_true_iff in V, A, L. destruct V as [Vx Vxs]. destruct A as [Ax Axs]. destruct L as [Lx Lxs].
  destruct (wtotal_level x Hx Vx Ax) as [u [U Lu]]. rewrite <- Lu in Lx.
  destruct u as [[p|a|o]|[o|o|o|o]]; try discriminate Lx;
    cbn [map chain_or]; rewrite U; cbn [as_cmp lift_and]; apply IH; assumption.
Qed.

Lemma wchain_oand_total : forall xs acc, Forall WTotal xs ->
  forallb well_grouped xs = true -> forallb aprint xs = true -> forallb (fun x => right_level_ok OpAnd (level x)) xs = true ->
  exists r, chain_oand acc (map (fun x => as_obs (unv x)) xs) = Some r.
Proof.
  induction xs as [|x xs IH]; intros acc HF V A L; [eexists; reflexivity|].
  inversion HF as [|? ? Hx HF']; subst. cbn [forallb] in V, A, L.
  apply andb_true_iff in V, A, L. destruct V as [Vx Vxs]. destruct A as [Ax Axs]. destruct L as [Lx Lxs].
  destruct (wtotal_level x Hx Vx Ax) as [u [U Lu]]. rewrite <- Lu in Lx.
  destruct u as [[p|a|o]|[o|o|o|o]]; try discriminate Lx;
    cbn [map chain_oand]; rewrite U; cbn [as_obs lift_obs]; apply IH; assumption.
Qed.

Lemma wchain_oor_total : forall xs acc, Forall WTotal xs ->
  forallb well_grouped xs = true -> forallb aprint xs = true -> forallb (fun x => right_level_ok OpOr (level x)) xs = true ->
  exists r, chain_oor acc (map (fun x => as_obs (unv x)) xs) = Some r.
Proof.
  induction xs as [|x xs IH]; intros acc HF V A L; [eexists; reflexivity|].
  inversion HF as [|? ? Hx HF']; subst. cbn [forallb] in V, A, L.
  apply andb_true_iff in V, A, L. destruct V as [Vx Vxs]. destruct A as [Ax Axs]. destruct L as [Lx Lxs].
  destruct (wtotal_level x Hx Vx Ax) as [u [U Lu]]. rewrite <- Lu in Lx.
  destruct u as [[p|a|o]|[o|o|o|o]]; try discriminate Lx;
    cbn [map chain_oor]; rewrite U; cbn [as_obs lift_oand]; apply IH; assumption.
Qed.

Lemma wchain_fb_total : forall xs acc, Forall WTotal xs ->
  forallb well_grouped xs = true -> forallb aprint xs = true -> forallb (fun x => right_level_ok OpFb (level x)) xs = true ->
  exists r, chain_fb acc (map (fun x => as_obs (unv x)) xs) = Some r.
Proof.
  induction xs as [|x xs IH]; intros acc HF V A L; [eexists; reflexivity|].
  inversion HF as [|? ? Hx HF']; subst. cbn [forallb] in V, A, L.
  apply andb_true_iff in V, A, L. destruct V as [Vx Vxs]. destruct A as [Ax Axs]. destruct L as [Lx Lxs].
  destruct (wtotal_level x Hx Vx Ax) as [u [U Lu]]. rewrite <- Lu in Lx.
  destruct u as [[p|a|o]|[o|o|o|o]]; try discriminate Lx;
    cbn [map chain_fb]; rewrite U; cbn [as_obs lift_oor]; apply IH; assumption.
Qed.

Lemma wg_bool_total : forall isand ops, Forall WTotal ops -> WTotal (EBool isand ops).
Proof.
  intros isand ops HF V A. cbn [well_grouped aprint] in V, A.
  apply andb_true_iff in V. destruct V as [Vx V2].
  destruct ops as [|x1 [|x2 xs]]; try discriminate V2.
  inversion HF as [|? ? H1 HF2]; subst.
  apply andb_true_iff in V2. destruct V2 as [L1 Ls].
  cbn [forallb] in Vx, A. apply andb_true_iff in Vx. destruct Vx as [V1 Vxs]. apply andb_true_iff in A. destruct A as [A1 As].
  destruct (wtotal_level x1 H1 V1 A1) as [u1 [U1 Lu1]]. rewrite <- Lu1 in L1.
  cbn [PatternSyntax.unv]. change (map (fun x => as_cmp (unv x)) (x1 :: x2 :: xs))
    with (as_cmp (unv x1) :: map (fun x => as_cmp (unv x)) (x2 :: xs)). rewrite U1.
  destruct isand.
  - destruct (wchain_and_total (x2 :: xs)) with (acc := match u1 with UCmp (AC_pt p) => CAndBase p | UCmp (AC_and a) => a | _ => CAndBase (PTParen (COrBase (CAndBase (PTExists false (ObjPath t_EOF t_EOF None))))) end) as [r C]; try assumption.
    destruct u1 as [[p|a|o]|[o|o|o|o]]; try discriminate L1; cbn [as_cmp lift_and];
      (destruct (map (fun x => as_cmp (unv x)) (x2 :: xs)) as [|c2 rest] eqn:Em; [discriminate Em|]); rewrite C; eexists; reflexivity.
  - destruct u1 as [c1|o1]; [|destruct o1; discriminate L1].
    destruct (wchain_or_total (x2 :: xs) (lift_or c1) HF2 Vxs As Ls) as [r C]. cbn [as_cmp].
    destruct (map (fun x => as_cmp (unv x)) (x2 :: xs)) as [|c2 rest] eqn:Em; [discriminate Em|]. rewrite C. eexists; reflexivity.
Qed.

Lemma wg_cpd_total : forall op ops, Forall WTotal ops -> WTotal (ECompound op ops).
Proof.
  intros op ops HF V A. cbn [well_grouped aprint] in V, A.
  apply andb_true_iff in V. destruct V as [Vx V2].
  destruct ops as [|x1 [|x2 xs]]; try discriminate V2.
  inversion HF as [|? ? H1 HF2]; subst.
  apply andb_true_iff in V2. destruct V2 as [L1 Ls].
  cbn [forallb] in Vx, A. apply andb_true_iff in Vx. destruct Vx as [V1 Vxs]. apply andb_true_iff in A. destruct A as [A1 As].
  destruct (wtotal_level x1 H1 V1 A1) as [u1 [U1 Lu1]]. rewrite <- Lu1 in L1.
  cbn [PatternSyntax.unv]. change (map (fun x => as_obs (unv x)) (x1 :: x2 :: xs))
    with (as_obs (unv x1) :: map (fun x => as_obs (unv x)) (x2 :: xs)). rewrite U1.
  destruct u1 as [c1|o1]; [destruct op; destruct c1; discriminate L1|]. cbn [as_obs].
  destruct (map (fun x => as_obs (unv x)) (x2 :: xs)) as [|c2 rest] eqn:Em; [discriminate Em|].
  destruct op.
  - destruct o1 as [o|o|o|o]; try discriminate L1; cbn [lift_oand];
      [destruct (wchain_oand_total (x2 :: xs) (OAndBase o) HF2 Vxs As Ls) as [r C]
      |destruct (wchain_oand_total (x2 :: xs) o HF2 Vxs As Ls) as [r C]]; rewrite Em in C; rewrite C; eexists; reflexivity.
  - destruct o1 as [o|o|o|o]; try discriminate L1; cbn [lift_oor];
      [destruct (wchain_oor_total (x2 :: xs) (OOrBase (OAndBase o)) HF2 Vxs As Ls) as [r C]
      |destruct (wchain_oor_total (x2 :: xs) (OOrBase o) HF2 Vxs As Ls) as [r C]
      |destruct (wchain_oor_total (x2 :: xs) o HF2 Vxs As Ls) as [r C]]; rewrite Em in C; rewrite C; eexists; reflexivity.
  - destruct (wchain_fb_total (x2 :: xs) (lift_fb o1) HF2 Vxs As Ls) as [r C]. rewrite Em in C. rewrite C. eexists; reflexivity.
Qed.

Theorem wg_total : forall a, WTotal a.
Proof.
  apply aexpr_ind'.
  - apply wg_cmp_total.
  - apply wg_bool_total.
  - intros x IH V A. cbn [well_grouped aprint] in V, A. apply andb_true_iff in V. destruct V as [Vx Lx].
    destruct (wtotal_level x IH Vx A) as [u [U Lu]].
    destruct u as [c|o].
    + cbn [PatternSyntax.unv]. rewrite U. eexists; reflexivity.
    + rewrite <- Lu, uobs_level in Lx. discriminate Lx.
  - apply wg_cpd_total.
  - intros x IH V A. cbn [well_grouped aprint] in V, A. destruct (IH V A) as [[c|o] U]; cbn [PatternSyntax.unv]; rewrite U; eexists; reflexivity.
  - intros x q IH V A. cbn [well_grouped aprint] in V, A.
    apply andb_true_iff in V, A. destruct V as [Vx Lx]. destruct A as [Ax Aq].
    destruct (wtotal_level x IH Vx Ax) as [u [U Lu]]. apply level_eqb_eq in Lx. rewrite Lx in Lu.
    destruct u as [[p|a|o]|[o|o|o|o]]; try discriminate Lu.
    destruct (unv_qual_total q Aq) as [q' Q]. cbn [PatternSyntax.unv]. rewrite U, Q. cbn [as_obs lift_obs]. eexists; reflexivity.
Qed.

(* unvisit itself (top level: an observation-level object) *)
Lemma unvisit_defined : forall a, well_grouped a = true -> obs_level a = true -> aprint a = true ->
  exists c, unvisit a = Some c.
Proof.
  intros a W O A. destruct (wg_total a W A) as [u U]. pose proof (level_of_good a u U A) as Lu.
  unfold obs_level in O. rewrite <- Lu in O. destruct u as [c|o]; [rewrite ucmp_level in O; discriminate O|].
  exists (lift_fb o). unfold PatternSyntax.unvisit. rewrite U. reflexivity.
Qed.

(* the visitor's objects are constructible *)
Lemma vexpr_constructible : forall a, vexpr a = true -> constructible a = true.
Proof.
  apply (aexpr_ind' (fun a => vexpr a = true -> constructible a = true)).
  - intros; reflexivity.
  - intros isand ops HF V. cbn [vexpr constructible] in *.
    apply andb_true_iff in V. destruct V as [V Vrt]. apply andb_true_iff in V. destruct V as [Vx _].
    assert (Cs : forallb constructible ops = true).
    { clear Vrt. induction HF as [|x l Hx _ IH]; [reflexivity|]. cbn [forallb] in *. apply andb_true_iff in Vx. destruct Vx as [V1 V2].
      rewrite (Hx V1), (IH V2). reflexivity. }
    rewrite Cs. cbn [andb]. destruct isand; [|reflexivity]. destruct ops as [|x1 [|x2 rest]]; try discriminate Vrt. exact Vrt.
  - intros x IH V. cbn [vexpr constructible] in *. apply andb_true_iff in V. destruct V as [V _]. exact (IH V).
  - intros op ops HF V. cbn [vexpr constructible] in *. destruct ops as [|x [|y [|z r]]]; try discriminate V.
    inversion HF as [|? ? Hx HF2]; subst. inversion HF2 as [|? ? Hy _]; subst.
    apply andb_true_iff in V. destruct V as [V _]. apply andb_true_iff in V. destruct V as [V _]. apply andb_true_iff in V. destruct V as [Vx Vy].
    cbn [forallb]. rewrite (Hx Vx), (Hy Vy). reflexivity.
  - intros x IH V. cbn [vexpr constructible] in *. exact (IH V).
  - intros x q IH V. cbn [vexpr constructible] in *. apply andb_true_iff in V. destruct V as [V _]. exact (IH V).
Qed.

(* ------------------------------------------------------------------ *)
(** * The two round trips *)

Lemma unvisit_facts : forall a c, unvisit a = Some c -> aprint a = true ->
  wf c = true /\ yield c = print a /\ meaning_cst c = meaning_ast a /\
  (constructible a = true -> sem c = true) /\ (vexpr a = true -> sv_fb c = a).
Proof.
  intros a c U A. unfold PatternSyntax.unvisit in U. destruct (unv a) as [[x|o]|] eqn:E; try discriminate U. inversion U; subst c; clear U.
  destruct (unv_good a _ E A) as [G1 [G2 [G3 [G4 [_ [_ [G7 G8]]]]]]]. cbn [u_wf u_yield u_meaning u_inv u_sem u_sv] in *.
  destruct (lift_fb_facts o G4) as [L1 [L2 [L3 [L4 L5]]]].
  unfold wf, yield, PatternSyntax.print, meaning_cst, PatternSyntax.meaning_ast, sem. rewrite L1, L2, L3, L4, L5, G1, G2, G3.
  repeat split; assumption.
Qed.

(* printing is a fixed point of parse-then-print: the printed tokens of the
   object the visitor yields are the yield of a parse tree which the visitor
   maps back to the same object *)
Theorem print_fixpoint_lemma : forall (c : pattern) (a : aexpr),
  wf c = true -> sem c = true -> visit repaired c = Ok a ->
  exists c', unvisit a = Some c' /\ wf c' = true /\ sem c' = true /\ yield c' = print a /\
             visit repaired c' = Ok a /\ meaning_cst c' = meaning_cst c.
Proof.
  intros c a Hw Hs Hv.
  assert (Mc : meaning_ast a = meaning_cst c).
  { destruct (visit_preserves_lemma c Hw Hs) as [a0 [V0 M0]]. rewrite Hv in V0. inversion V0; subst a0. exact M0. }
  rewrite (visit_sv c Hw Hs) in Hv. inversion Hv; subst a; clear Hv.
  destruct (visitor_range c Hw Hs) as [A V].
  destruct (unv_total (sv_fb c) V A) as [u U].
  pose proof (level_of_good _ u U A) as Lu.
  assert (Ob : exists o, u = UObs o).
  { destruct (proj2 (proj2 (proj2 range_obs)) c Hw Hs) as [_ [_ L]]. rewrite <- Lu in L.
    destruct u as [[p|x|x]|o]; try discriminate L. exists o. reflexivity. }
  destruct Ob as [o Eo]. subst u.
  assert (Uv : unvisit (sv_fb c) = Some (lift_fb o)) by (unfold PatternSyntax.unvisit; rewrite U; reflexivity).
  destruct (unvisit_facts _ _ Uv A) as [W [Y [M [S Sv]]]].
  pose proof (S (vexpr_constructible _ V)) as S'.
  exists (lift_fb o). split; [exact Uv|]. split; [exact W|]. split; [exact S'|]. split; [exact Y|].
  split; [rewrite (visit_sv _ W S'), (Sv V); reflexivity|]. rewrite M. exact Mc.
Qed.

(* objects assembled from the public classes, with a parenthetical node
   wherever precedence requires one: the printed tokens are the yield of a
   well-formed parse tree which the visitor reads back to an object with the
   same meaning *)
Theorem programmatic_roundtrip_lemma : forall a : aexpr,
  aprint a = true -> well_grouped a = true -> obs_level a = true -> constructible a = true ->
  exists c, unvisit a = Some c /\ wf c = true /\ sem c = true /\ yield c = print a /\
  exists a', visit repaired c = Ok a' /\ meaning_ast a' = meaning_ast a.
Proof.
  intros a A W O C. destruct (unvisit_defined a W O A) as [c U]. exists c.
  destruct (unvisit_facts a c U A) as [Wf [Y [M [S _]]]].
  split; [exact U|]. split; [exact Wf|]. split; [exact (S C)|]. split; [exact Y|].
  destruct (visit_preserves_lemma c Wf (S C)) as [a' [V Ma]]. exists a'. split; [exact V|]. rewrite Ma. exact M.
Qed.
